package main

import (
	"encoding/hex"
	"fmt"
	"strconv"
	"strings"

	"github.com/sqlc-dev/doubleclick/ast"
)

// C07 (with C10/C11): correspondence between the UNION regrouping of the real EXPLAIN printer
// (internal/explain/select.go: simplifyUnionSelects, expandNestedUnions, groupSelectsByUnionMode, as used by
// explainSelectWithUnionQuery) and the Lean model DC.Model.UnionGroup, for which DC/Props/C07Union.lean proves
//   group_preserves_selects / expand_preserves_selects / regroup_preserves_selects  (no SELECT dropped, duplicated, reordered),
//   group_idempotent, expand_all_flat, group_no_panic, known_finding_pinned_to_parser.
//
// One case = one union statement:
//   1. random text: 2–6 operands, each `SELECT <n>` (n increasing in text order) or a parenthesised union (depth ≤ 3,
//      1–4 operands), every mix of UNION ALL / UNION DISTINCT / bare UNION; sometimes the whole statement in parentheses
//      (parseParenthesizedSelect) or as a FROM subquery (parseSelectWithUnion inside parentheses);
//   2. the real parser; the PARSED SelectWithUnionQuery (Selects / UnionModes, recursively) is encoded for the driver —
//      what the parser built, not what the generator intended;
//   3. `uniongroup <encoding>` answers the model's nesting, e.g. `U(U(S2,S3),S1)`, or `panic` / `fuel`;
//   4. the real `parser.Explain` text is reduced to the same notation (nesting of SelectWithUnionQuery / SelectQuery lines,
//      leaf = the `Literal UInt64_<n>` of the SelectQuery); the two must be equal.
// Also checked on the real side alone (the statement of group/expand/regroup_preserves_selects): the leaves of the
// Explain text, in order, are the leaves of the parsed AST in order, and those are 1..k as written.
// Disagreement: Finding{Kind:"model", Key:"model@uniongroup", Disagreement:true, Obligation:"uniongroup-correspondence"}.

func init() { props["C07U"] = c07UnionCorrespondence }

var ugModes = []string{" UNION ALL ", " UNION DISTINCT ", " UNION "}

type ugGen struct {
	r    *Rng
	next int
	bias int // 0: uniform modes, 1: mostly ALL, 2: mostly DISTINCT/bare
}

func (g *ugGen) mode() string {
	switch g.bias {
	case 1:
		if g.r.Chance(3, 4) {
			return ugModes[0]
		}
	case 2:
		if g.r.Chance(3, 4) {
			return ugModes[1+g.r.Intn(2)]
		}
	}
	return ugModes[g.r.Intn(3)]
}

func (g *ugGen) operand(depth int) string {
	if depth > 0 && g.r.Chance(2, 5) {
		n := 1 + g.r.Intn(4)
		s := "(" + g.union(depth-1, n) + ")"
		if g.r.Chance(1, 8) {
			s = "(" + s + ")"
		}
		return s
	}
	g.next++
	return "SELECT " + strconv.Itoa(g.next)
}

func (g *ugGen) union(depth, n int) string {
	var sb strings.Builder
	for i := 0; i < n; i++ {
		if i > 0 {
			sb.WriteString(g.mode())
		}
		sb.WriteString(g.operand(depth))
	}
	return sb.String()
}

// ugEncode writes the prefix encoding of the parsed shape; ok=false if a node is outside the model
// (SelectIntersectExceptQuery, a SELECT that is not `SELECT <integer>`).
func ugEncode(s ast.Statement, toks *[]string, leaves *[]int, maxExcess *int) bool {
	switch n := s.(type) {
	case *ast.SelectQuery:
		if n == nil || len(n.Columns) != 1 {
			return false
		}
		lit, ok := n.Columns[0].(*ast.Literal)
		if !ok || lit == nil {
			return false
		}
		var id int
		switch v := lit.Value.(type) {
		case int64:
			id = int(v)
		case uint64:
			id = int(v)
		default:
			return false
		}
		if id < 0 {
			return false
		}
		*toks = append(*toks, "s", strconv.Itoa(id))
		*leaves = append(*leaves, id)
		return true
	case *ast.SelectWithUnionQuery:
		if n == nil {
			return false
		}
		*toks = append(*toks, "u", strconv.Itoa(len(n.Selects)))
		for _, k := range n.Selects {
			if !ugEncode(k, toks, leaves, maxExcess) {
				return false
			}
		}
		*toks = append(*toks, strconv.Itoa(len(n.UnionModes)))
		for _, m := range n.UnionModes {
			if m == "" {
				*toks = append(*toks, "-")
			} else {
				*toks = append(*toks, hex.EncodeToString([]byte(m)))
			}
		}
		if ex := len(n.UnionModes) - len(n.Selects); ex > *maxExcess {
			*maxExcess = ex
		}
		return true
	}
	return false
}

func ugIndent(s string) int {
	n := 0
	for n < len(s) && s[n] == ' ' {
		n++
	}
	return n
}

// ugShape reads the subtree that starts at lines[i] (a SelectWithUnionQuery or SelectQuery line) and returns it in the
// model's notation together with the index of the first line after the subtree.
func ugShape(lines []string, i int, leaves *[]int) (string, int, error) {
	if i >= len(lines) {
		return "", i, fmt.Errorf("no line %d", i)
	}
	d := ugIndent(lines[i])
	txt := lines[i][d:]
	end := i + 1
	for end < len(lines) && ugIndent(lines[end]) > d {
		end++
	}
	switch {
	case strings.HasPrefix(txt, "SelectQuery"):
		for _, ln := range lines[i+1 : end] {
			t := strings.TrimLeft(ln, " ")
			if strings.HasPrefix(t, "Literal UInt64_") {
				n, err := strconv.Atoi(strings.TrimPrefix(t, "Literal UInt64_"))
				if err != nil {
					return "", end, fmt.Errorf("leaf literal %q", t)
				}
				*leaves = append(*leaves, n)
				return "S" + strconv.Itoa(n), end, nil
			}
		}
		return "", end, fmt.Errorf("SelectQuery without integer literal at line %d", i)
	case strings.HasPrefix(txt, "SelectWithUnionQuery"):
		if i+1 >= end || ugIndent(lines[i+1]) != d+1 || !strings.HasPrefix(lines[i+1][d+1:], "ExpressionList (children ") {
			return "", end, fmt.Errorf("no ExpressionList below line %d", i)
		}
		m, err := strconv.Atoi(strings.TrimSuffix(strings.TrimPrefix(lines[i+1][d+1:], "ExpressionList (children "), ")"))
		if err != nil {
			return "", end, fmt.Errorf("children count at line %d", i+1)
		}
		var kids []string
		j := i + 2
		for j < end && ugIndent(lines[j]) == d+2 {
			k, nj, err := ugShape(lines, j, leaves)
			if err != nil {
				return "", end, err
			}
			kids = append(kids, k)
			j = nj
		}
		if len(kids) != m {
			return "", end, fmt.Errorf("ExpressionList at line %d announces %d children, %d follow", i+1, m, len(kids))
		}
		if j != end {
			return "", end, fmt.Errorf("extra lines below SelectWithUnionQuery at line %d", j)
		}
		return "U(" + strings.Join(kids, ",") + ")", end, nil
	}
	return "", end, fmt.Errorf("unexpected line %q", txt)
}

func ugIntsEq(a, b []int) bool {
	if len(a) != len(b) {
		return false
	}
	for i := range a {
		if a[i] != b[i] {
			return false
		}
	}
	return true
}

// the union a FROM-subquery statement holds: SELECT * FROM (<union>)
func ugFromSubquery(s ast.Statement) ast.Statement {
	swu, ok := s.(*ast.SelectWithUnionQuery)
	if !ok || swu == nil || len(swu.Selects) != 1 {
		return nil
	}
	sq, ok := swu.Selects[0].(*ast.SelectQuery)
	if !ok || sq == nil || sq.From == nil || len(sq.From.Tables) != 1 || sq.From.Tables[0] == nil || sq.From.Tables[0].Table == nil {
		return nil
	}
	sub, ok := sq.From.Tables[0].Table.Table.(*ast.Subquery)
	if !ok || sub == nil {
		return nil
	}
	return sub.Query
}

func c07UnionCase(w *W, idx int, sql string, ctx string, nLeaves int, desc string) {
	in := []byte(sql)
	w.Begin(idx, in, desc)
	w.Count("uniongroup:cases")
	obs := safeParse(in, parseBudget(in))
	if obs.Panicked || obs.Budget || obs.Err != nil || len(obs.Stmts) != 1 {
		w.stats.Evaluations++
		w.Count("uniongroup:not-accepted")
		return
	}
	w.Eval(in, true)
	stmt := obs.Stmts[0]
	root := stmt
	if ctx == "from" {
		root = ugFromSubquery(stmt)
		if root == nil {
			w.Count("uniongroup:from-other-shape")
			return
		}
	}
	var toks []string
	var astLeaves []int
	excess := -1 << 30
	if !ugEncode(root, &toks, &astLeaves, &excess) {
		w.Count("uniongroup:outside-model")
		return
	}
	if excess > 0 {
		w.Count("uniongroup:more-modes-than-selects")
	}
	ex := safeExplain(stmt)
	if ex.Panicked {
		w.Report(Finding{Kind: "explain-panic", Key: "explain-panic@" + ex.Site, Input: sql, InputHex: hexs(in), Detail: ex.PanicVal})
		return
	}
	lines := strings.Split(strings.TrimRight(ex.Out, "\n"), "\n")
	start := 0
	if ctx == "from" {
		start = -1
		for i, ln := range lines {
			if strings.TrimLeft(ln, " ") == "Subquery (children 1)" {
				start = i + 1
				break
			}
		}
		if start < 0 {
			w.Count("uniongroup:from-no-subquery-line")
			return
		}
	}
	var realLeaves []int
	real, _, err := ugShape(lines, start, &realLeaves)
	if err != nil {
		w.Report(Finding{Kind: "union-text", Key: "union-text@unreadable", Input: sql, InputHex: hexs(in), Detail: err.Error() + "\n" + ex.Out})
		return
	}
	// the real side of *_preserves_selects
	want := make([]int, nLeaves)
	for i := range want {
		want[i] = i + 1
	}
	if nLeaves > 0 && !ugIntsEq(astLeaves, want) {
		w.Report(Finding{Kind: "union-selects", Key: "union-selects@parse", Input: sql, InputHex: hexs(in),
			Detail: fmt.Sprintf("the SELECTs of the parsed union, in order, are %v; written: 1..%d", astLeaves, nLeaves)})
		return
	}
	if !ugIntsEq(realLeaves, astLeaves) {
		w.Report(Finding{Kind: "union-selects", Key: "union-selects@explain", Input: sql, InputHex: hexs(in),
			Detail: fmt.Sprintf("the SELECTs of the EXPLAIN text, in order, are %v; the parsed union has %v\n%s", realLeaves, astLeaves, ex.Out)})
		return
	}
	ans := w.Model().Ask("uniongroup " + strings.Join(toks, " "))
	w.Count("uniongroup:compared")
	w.Count("uniongroup:compared@" + ctx)
	if strings.Contains(real[2:], "U(") {
		w.Count("uniongroup:nested-result")
	}
	if ans != real {
		w.stats.Disagree++
		w.Report(Finding{Kind: "model", Key: "model@uniongroup", Input: sql, InputHex: hexs(in), Disagreement: true, Obligation: "uniongroup-correspondence",
			Detail: fmt.Sprintf("model %s\nreal  %s\nencoding %s\n%s", ans, real, strings.Join(toks, " "), ex.Out)})
	}
	if w.stats.Evaluations%5000 == 1 {
		w.Sample(sql + "  =>  " + real)
	}
}

var ugFixed = []struct {
	sql string
	ctx string
	n   int
}{
	{"(SELECT 1 UNION DISTINCT SELECT 2) UNION ALL SELECT 3", "top", 3},
	{"((SELECT 1 UNION DISTINCT SELECT 2) UNION ALL SELECT 3)", "top", 3},
	{"SELECT * FROM ((SELECT 1 UNION DISTINCT SELECT 2) UNION ALL SELECT 3)", "from", 3},
	{"SELECT 1 UNION ALL (SELECT 2 UNION DISTINCT SELECT 3)", "top", 3},
	{"SELECT 1 UNION DISTINCT SELECT 2 UNION ALL SELECT 3", "top", 3},
	{"SELECT 1 UNION ALL SELECT 2 UNION DISTINCT SELECT 3", "top", 3},
	{"SELECT 1 UNION SELECT 2 UNION ALL SELECT 3 UNION SELECT 4 UNION ALL SELECT 5", "top", 5},
	{"SELECT 1 UNION ALL (SELECT 2 UNION ALL (SELECT 3 UNION ALL SELECT 4))", "top", 4},
	{"SELECT 1 UNION ALL ((SELECT 2 UNION ALL SELECT 3))", "top", 3},
	{"SELECT 1 UNION ALL (SELECT 2)", "top", 2},
	{"(SELECT 1)", "top", 1},
	{"((SELECT 1))", "top", 1},
	{"(SELECT 1) UNION ALL (SELECT 2)", "top", 2},
	{"SELECT 1 UNION ALL (SELECT 2 UNION DISTINCT SELECT 3 UNION ALL SELECT 4)", "top", 4},
	{"SELECT 1 UNION DISTINCT (SELECT 2 UNION DISTINCT SELECT 3 UNION ALL SELECT 4) UNION ALL SELECT 5", "top", 5},
	{"(SELECT 1 UNION ALL SELECT 2) UNION DISTINCT (SELECT 3 UNION SELECT 4) UNION ALL (SELECT 5 UNION ALL SELECT 6)", "top", 6},
}

func c07UnionCorrespondence(w *W) {
	for i, f := range ugFixed {
		idx, mine := w.Case()
		if mine {
			c07UnionCase(w, idx, f.sql, f.ctx, f.n, "uniongroup-fixed:"+itoa(i))
		}
	}
	// exhaustive small: flat chains of 2..5 operands over all mode mixes, at top level / parenthesised / FROM subquery
	for n := 2; n <= 5; n++ {
		total := 1
		for i := 1; i < n; i++ {
			total *= 3
		}
		for code := 0; code < total; code++ {
			for _, ctx := range []string{"top", "paren", "from"} {
				idx, mine := w.Case()
				if !mine {
					continue
				}
				var sb strings.Builder
				c := code
				for i := 1; i <= n; i++ {
					if i > 1 {
						sb.WriteString(ugModes[c%3])
						c /= 3
					}
					sb.WriteString("SELECT " + strconv.Itoa(i))
				}
				c07UnionCase(w, idx, ugWrap(sb.String(), ctx), ugCtxOf(ctx), n, "uniongroup-flat:"+ctx)
			}
		}
	}
	n := w.pickN(60000, 600000)
	for k := 0; k < n; k++ {
		idx, mine := w.Case()
		if !mine {
			continue
		}
		r := NewRng(w.Seed, uint64(idx), 71)
		g := &ugGen{r: r, bias: r.Intn(3)}
		depth := r.Intn(4)
		q := g.union(depth, 2+r.Intn(5))
		ctx := pick(r, []string{"top", "top", "top", "paren", "from"})
		c07UnionCase(w, idx, ugWrap(q, ctx), ugCtxOf(ctx), g.next, "uniongroup-gen:"+ctx)
	}
}

func ugWrap(q, ctx string) string {
	switch ctx {
	case "paren":
		return "(" + q + ")"
	case "from":
		return "SELECT * FROM (" + q + ")"
	}
	return q
}

func ugCtxOf(ctx string) string {
	if ctx == "from" {
		return "from"
	}
	return "top"
}
