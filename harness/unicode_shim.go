package main

import "unicode"

func unicodeToUpper(r rune) rune  { return unicode.ToUpper(r) }
func unicodeIsLetter(r rune) bool { return unicode.IsLetter(r) }
func unicodeIsDigit(r rune) bool  { return unicode.IsDigit(r) }
func unicodeIsSpace(r rune) bool  { return unicode.IsSpace(r) }
