package main

import (
	"encoding/json"
	"fmt"
	"strings"
)

// C03, "json.Marshal of each statement succeeds": the search tie of DC/Props/C03Json.lean (`marshal_literal_ok`,
// `custom_marshalers`, `float_capable_fields`).
//
// encoding/json fails on this AST only on a NaN / +Inf / -Inf float64 that reaches the default encoder. The family below
// puts every numeric spelling that can produce a non-finite or extreme value into every position that takes an
// expression, plain / parenthesised / negated / aliased / nested, parses it with the real parser and — whenever the
// parser accepts (err == nil; that is the premise of C03) — requires that json.Marshal of every statement and of the whole
// statement list succeeds under recover and that the output is valid JSON (json.Valid).
//
// Finding: Kind "marshal-error", Key "marshal-error@<position>" (also for a panic inside Marshal or invalid JSON output).

var c03jSpellings = func() []string {
	return []string{
		"nan", "inf", "-inf", "+inf", "NaN", "INF", "-Inf", "+INF", "- inf", "+ inf", "-nan", "+nan", "- -inf", "-+inf", "+-inf",
		"1e999", "-1e999", "+1e999", "1e999::Float64", "-1e999::Float64", "-1e999::Float32", "-1E999::Float64", "-1.5e999::Float64", "-.1e999::Float64",
		"-1e999 ::Float64", "- 1e999::Float64", "-1e999::Float64::String",
		"0x1p99999", "-0x1p99999", "-0x1p99999::Float64", "0x1.8p1024", "0X1P1024", "0x1p-99999",
		"0x" + strings.Repeat("f", 257), "-0x" + strings.Repeat("f", 257), "-0x" + strings.Repeat("f", 257) + "::Float64", "0x" + strings.Repeat("F", 256), "0x1" + strings.Repeat("0", 256),
		"0x" + strings.Repeat("f", 4000),
		strings.Repeat("9", 400), "-" + strings.Repeat("9", 400), "-" + strings.Repeat("9", 400) + "::Float64", strings.Repeat("9", 400) + ".0", "-" + strings.Repeat("9", 400) + ".0::Float64",
		strings.Repeat("9", 309), strings.Repeat("9", 308), "1" + strings.Repeat("0", 309), "1" + strings.Repeat("0", 308),
		"1e-999", "-1e-999", "-1e-999::Float64", "-0.0", "-0.0::Float64", "0.0", "-0", "-0::Int8", "1e308", "1.7976931348623157e308", "1.7976931348623159e308", "-1.7976931348623159e308::Float64",
		"1.8e308", "-1.8e308::Float64", "4.9e-324", "2e-324", "0b" + strings.Repeat("1", 70), "0o" + strings.Repeat("7", 30), "1e", "1e+", "-1e::Float64", "-1e+::Float64", "1.e999", ".1e999",
		"18446744073709551616", "-9223372036854775809", "-9223372036854775809::Int128", "340282366920938463463374607431768211456", "nan.1", "inf.0", "1e999.5", "nan::Float64", "inf::Float32", "-inf::Float64", "-nan::Float64",
	}
}()

type c03jPos struct {
	name  string
	tmpl  string // %s = the expression
	alias bool   // the position admits `expr AS alias`
}

var c03jPositions = []c03jPos{
	{"select-item", "SELECT %s", true},
	{"select-item-2", "SELECT 1, %s, 2 FROM t", true},
	{"array-element", "SELECT [%s]", true},
	{"array-element-2", "SELECT [1, %s, 2.5]", true},
	{"array-nested", "SELECT [[%s], [1]]", false},
	{"tuple-element", "SELECT (%s, 1)", true},
	{"tuple-element-2", "SELECT (1, %s)", true},
	{"tuple-in-array", "SELECT [(%s, 'a'), (1, 'b')]", false},
	{"array-in-tuple", "SELECT ([%s], [%s])", false},
	{"function-argument", "SELECT f(%s)", true},
	{"function-argument-2", "SELECT toFloat64(1, %s, 'x')", true},
	{"function-parameter", "SELECT quantile(%s)(x) FROM t", false},
	{"lambda-body", "SELECT arrayMap(x -> %s, [1])", false},
	{"in-list", "SELECT 1 IN (%s, 2)", false},
	{"in-single", "SELECT x IN (%s)", false},
	{"in-array", "SELECT x IN [%s, 1]", false},
	{"not-in-list", "SELECT 1 NOT IN (1, %s)", false},
	{"cast-operand", "SELECT CAST(%s AS Float64)", true},
	{"cast-operand-comma", "SELECT CAST(%s, 'Float64')", true},
	{"coloncolon-operand", "SELECT %s::Float64", false},
	{"coloncolon-array", "SELECT [%s]::Array(Float64)", false},
	{"coloncolon-tuple", "SELECT (%s, 1)::Tuple(Float64, UInt8)", false},
	{"column-default", "CREATE TABLE t (a Float64 DEFAULT %s) ENGINE = Memory", false},
	{"column-materialized", "CREATE TABLE t (a Float64 MATERIALIZED %s, b Float64 ALIAS %s) ENGINE = Memory", false},
	{"column-codec-ttl", "CREATE TABLE t (a Float64 DEFAULT %s COMMENT 'c') ENGINE = MergeTree ORDER BY a SETTINGS s = %s", false},
	{"settings-value", "SELECT 1 SETTINGS s = %s", false},
	{"settings-value-2", "SELECT 1 FROM t SETTINGS a = 1, s = %s, b = 'x'", false},
	{"set-statement", "SET s = %s", false},
	{"insert-values", "INSERT INTO t VALUES (%s)", false},
	{"insert-values-2", "INSERT INTO t (a, b) VALUES (1, %s), (%s, 2)", false},
	{"insert-select", "INSERT INTO t SELECT %s", true},
	{"limit", "SELECT 1 FROM t LIMIT %s", false},
	{"limit-offset", "SELECT 1 FROM t LIMIT %s OFFSET %s", false},
	{"limit-comma", "SELECT 1 FROM t LIMIT %s, %s", false},
	{"limit-by", "SELECT 1 FROM t LIMIT %s BY a", false},
	{"sample", "SELECT 1 FROM t SAMPLE %s", false},
	{"sample-offset", "SELECT 1 FROM t SAMPLE %s OFFSET %s", false},
	{"sample-ratio", "SELECT 1 FROM t SAMPLE 1 / %s", false},
	{"interval", "SELECT INTERVAL %s DAY", false},
	{"interval-arith", "SELECT now() + INTERVAL %s SECOND", false},
	{"where", "SELECT 1 FROM t WHERE a > %s", false},
	{"prewhere-having", "SELECT 1 FROM t PREWHERE a = %s GROUP BY a HAVING b < %s", false},
	{"group-by", "SELECT 1 FROM t GROUP BY %s", false},
	{"order-by", "SELECT 1 FROM t ORDER BY %s DESC", false},
	{"order-by-fill", "SELECT 1 FROM t ORDER BY a WITH FILL FROM %s TO %s STEP %s", false},
	{"between", "SELECT a BETWEEN %s AND %s", false},
	{"case", "SELECT CASE WHEN a THEN %s ELSE %s END", false},
	{"case-operand", "SELECT CASE %s WHEN %s THEN 1 END", false},
	{"ternary", "SELECT a ? %s : %s", false},
	{"binary-operand", "SELECT 1 + %s", false},
	{"binary-operand-left", "SELECT %s * 2", false},
	{"comparison", "SELECT %s = %s", false},
	{"unary-not", "SELECT NOT %s", false},
	{"is-null", "SELECT %s IS NULL", false},
	{"like", "SELECT %s LIKE 'x'", false},
	{"array-subscript", "SELECT a[%s]", false},
	{"tuple-subscript", "SELECT (1, 2).%s", false},
	{"with-scalar", "WITH %s AS v SELECT v", false},
	{"with-cte-body", "WITH c AS (SELECT %s) SELECT * FROM c", true},
	{"subquery", "SELECT (SELECT %s)", true},
	{"from-subquery", "SELECT * FROM (SELECT %s AS v)", false},
	{"table-function-arg", "SELECT * FROM numbers(%s)", false},
	{"join-on", "SELECT 1 FROM a JOIN b ON a.x = %s", false},
	{"window-frame", "SELECT sum(x) OVER (ORDER BY y ROWS BETWEEN %s PRECEDING AND %s FOLLOWING) FROM t", false},
	{"window-partition", "SELECT sum(x) OVER (PARTITION BY %s) FROM t", false},
	{"union-operand", "SELECT %s UNION ALL SELECT %s", true},
	{"create-view", "CREATE VIEW v AS SELECT %s", true},
	{"create-mv", "CREATE MATERIALIZED VIEW mv ENGINE = Memory AS SELECT %s AS v", false},
	{"alter-update", "ALTER TABLE t UPDATE a = %s WHERE b = %s", false},
	{"alter-delete", "ALTER TABLE t DELETE WHERE a = %s", false},
	{"alter-modify-default", "ALTER TABLE t MODIFY COLUMN a Float64 DEFAULT %s", false},
	{"alter-add-column", "ALTER TABLE t ADD COLUMN a Float64 DEFAULT %s AFTER b", false},
	{"alter-partition", "ALTER TABLE t DROP PARTITION %s", false},
	{"alter-modify-setting", "ALTER TABLE t MODIFY SETTING s = %s", false},
	{"delete-where", "DELETE FROM t WHERE a = %s", false},
	{"update-set", "UPDATE t SET a = %s WHERE b = %s", false},
	{"engine-arg", "CREATE TABLE t (a Int8) ENGINE = Buffer(db, t, %s, 1, 2)", false},
	{"partition-by", "CREATE TABLE t (a Int8) ENGINE = MergeTree PARTITION BY %s ORDER BY %s", false},
	{"ttl", "CREATE TABLE t (a Date) ENGINE = MergeTree ORDER BY a TTL a + %s", false},
	{"index-expr", "CREATE TABLE t (a Int8, INDEX i a + %s TYPE minmax GRANULARITY %s) ENGINE = MergeTree ORDER BY a", false},
	{"constraint", "CREATE TABLE t (a Int8, CONSTRAINT c CHECK a < %s) ENGINE = Memory", false},
	{"projection", "CREATE TABLE t (a Int8, PROJECTION p (SELECT a + %s ORDER BY a)) ENGINE = MergeTree ORDER BY a", false},
	{"dictionary", "CREATE DICTIONARY d (k UInt64, v Float64 DEFAULT %s) PRIMARY KEY k SOURCE(NULL()) LAYOUT(FLAT()) LIFETIME(MIN %s MAX %s)", false},
	{"dictionary-source-arg", "CREATE DICTIONARY d (k UInt64) PRIMARY KEY k SOURCE(CLICKHOUSE(PORT %s)) LAYOUT(HASHED(SHARDS %s)) LIFETIME(1)", false},
	{"type-parameter", "SELECT CAST(1 AS Decimal(%s, 2))", false},
	{"type-parameter-ddl", "CREATE TABLE t (a DateTime64(%s), b FixedString(%s)) ENGINE = Memory", false},
	{"explain-inner", "EXPLAIN AST SELECT %s", true},
	{"explain-setting", "EXPLAIN header = %s SELECT 1", false},
	{"format-values", "SELECT %s FORMAT JSON", true},
	{"kill-where", "KILL QUERY WHERE elapsed > %s", false},
	{"show-limit", "SHOW TABLES LIMIT %s", false},
	{"system-arg", "OPTIMIZE TABLE t PARTITION %s FINAL", false},
	{"grant-where", "SELECT 1 FROM t ARRAY JOIN [%s] AS a", false},
	{"columns-apply", "SELECT * APPLY(quantile(%s)) FROM t", false},
	{"replace-transformer", "SELECT * REPLACE (%s AS a) FROM t", false},
	{"parametrized-view", "SELECT * FROM v(p = %s)", false},
	{"map-literal", "SELECT map('k', %s)", false},
	{"named-tuple", "SELECT tuple(%s AS a, %s AS b)", false},
	{"extract-trim", "SELECT substring(s FROM %s FOR %s)", false},
	{"exists", "SELECT EXISTS (SELECT %s)", false},
	{"parallel-with", "SELECT %s PARALLEL WITH SELECT %s", false},
	{"script", "SELECT %s; SELECT [%s]; SELECT (%s, %s)", false},
}

type c03jWrap struct {
	name string
	f    func(string) string
	// needsAlias: only for positions that admit an alias
	needsAlias bool
}

var c03jWraps = []c03jWrap{
	{"plain", func(s string) string { return s }, false},
	{"paren", func(s string) string { return "(" + s + ")" }, false},
	{"paren2", func(s string) string { return "((" + s + "))" }, false},
	{"neg", func(s string) string { return "-" + s }, false},
	{"neg-paren", func(s string) string { return "-(" + s + ")" }, false},
	{"paren-neg", func(s string) string { return "(-" + s + ")" }, false},
	{"plus", func(s string) string { return "+" + s }, false},
	{"neg-neg", func(s string) string { return "- -" + s }, false},
	{"alias", func(s string) string { return s + " AS al" }, true},
	{"paren-alias", func(s string) string { return "(" + s + ") AS al" }, true},
	{"neg-alias", func(s string) string { return "-" + s + " AS `n a`" }, true},
	{"implicit-alias", func(s string) string { return s + " al" }, true},
	{"in-array", func(s string) string { return "[" + s + "]" }, false},
	{"in-tuple", func(s string) string { return "(" + s + ", " + s + ")" }, false},
	{"in-array-neg", func(s string) string { return "[-" + s + ", -(" + s + ")]" }, false},
	{"in-func", func(s string) string { return "g(" + s + ")" }, false},
	{"cast", func(s string) string { return "CAST(" + s + " AS Float64)" }, false},
	{"coloncolon", func(s string) string { return s + "::Float64" }, false},
	{"paren-coloncolon", func(s string) string { return "(" + s + ")::Float64" }, false},
	{"neg-coloncolon-array", func(s string) string { return "[-" + s + "::Float64]" }, false},
	{"deep", func(s string) string { return "[([(" + s + ", [" + s + "])], f(-" + s + "))]" }, false},
}

func c03jFill(tmpl, e string) string {
	return strings.ReplaceAll(tmpl, "%s", e)
}

// c03jCheck parses sql and, if the parser accepts, marshals every statement. It reports whether the input was accepted.
func c03jCheck(w *W, sql string, position string) bool {
	in := []byte(sql)
	obs := safeParse(in, parseBudget(in))
	if obs.Panicked || obs.Budget || obs.Err != nil {
		w.stats.Evaluations++
		w.Count("c03json:not-accepted")
		return false
	}
	w.Eval(in, true)
	w.Count("c03json:accepted")
	bad := func(detail string) {
		w.Report(Finding{Kind: "marshal-error", Key: "marshal-error@" + position, Input: sql, InputHex: hexs(in), Detail: detail})
	}
	for i, s := range obs.Stmts {
		if s == nil {
			continue // C03's walker reports nil statements
		}
		m := safeMarshal(s)
		switch {
		case m.Panicked:
			bad(fmt.Sprintf("json.Marshal of statement %d panicked at %s: %s", i, m.Site, m.PanicVal))
		case m.Err != nil:
			bad(fmt.Sprintf("json.Marshal of statement %d: %v", i, m.Err))
		case !json.Valid([]byte(m.Out)):
			bad(fmt.Sprintf("json.Marshal of statement %d returned invalid JSON: %s", i, trunc(m.Out, 400)))
		default:
			w.Count("c03json:marshalled")
		}
	}
	all := guard(func() (string, error) { b, err := json.Marshal(obs.Stmts); return string(b), err })
	if all.Panicked || all.Err != nil || !json.Valid([]byte(all.Out)) {
		bad(fmt.Sprintf("json.Marshal of the statement list: panicked=%v err=%v", all.Panicked, all.Err))
	}
	return true
}

// c03JsonProbe is the targeted family; runC03 calls it.
func c03JsonProbe(w *W) {
	// 1. the full product spelling × position × wrapper
	for _, ps := range c03jPositions {
		for _, wr := range c03jWraps {
			if wr.needsAlias && !ps.alias {
				continue
			}
			for si, sp := range c03jSpellings {
				idx, mine := w.Case()
				if !mine {
					continue
				}
				sql := c03jFill(ps.tmpl, wr.f(sp))
				w.Begin(idx, []byte(sql), "c03json:"+ps.name+":"+wr.name+":"+itoa(si))
				if c03jCheck(w, sql, ps.name) {
					w.Count("c03json:accepted@" + ps.name)
				}
			}
		}
	}
	// 2. random compositions: several spellings, nested wrappers, random position
	n := w.pickN(6000, 120000)
	for k := 0; k < n; k++ {
		idx, mine := w.Case()
		if !mine {
			continue
		}
		r := NewRng(w.Seed, uint64(idx), 61)
		ps := c03jPositions[r.Intn(len(c03jPositions))]
		var build func(d int) string
		build = func(d int) string {
			e := pick(r, c03jSpellings)
			if d <= 0 {
				return e
			}
			switch r.Intn(9) {
			case 0:
				return "[" + build(d-1) + ", " + build(d-1) + "]"
			case 1:
				return "(" + build(d-1) + ", " + build(d-1) + ")"
			case 2:
				return "-" + build(d-1)
			case 3:
				return "(" + build(d-1) + ")"
			case 4:
				return "f(" + build(d-1) + ", " + e + ")"
			case 5:
				return build(d-1) + "::Float64"
			case 6:
				return "CAST(" + build(d-1) + " AS Float64)"
			case 7:
				return build(d-1) + " + " + e
			default:
				return e
			}
		}
		sql := ps.tmpl
		for strings.Contains(sql, "%s") {
			sql = strings.Replace(sql, "%s", build(r.Intn(4)), 1)
		}
		w.Begin(idx, []byte(sql), "c03json-random:"+ps.name)
		c03jCheck(w, sql, ps.name)
	}
}
