package main

import (
	"fmt"
	"strings"

	"github.com/sqlc-dev/doubleclick/lexer"
	"github.com/sqlc-dev/doubleclick/token"
)

// C06 — statements in a script are independent.
//
// Search: scripts of 2–12 statements, each of which parses alone (err == nil, exactly one statement),
// joined with `;` (plus empty statements, comments containing `;`), are parsed by the real Parse and compared
// with each statement parsed on its own: same count, same order, identical parser.Explain per statement, err == nil.
//
// The statement pool is shared with C16 (p_c16.go).

func init() {
	props["C06"] = runC06
}

// piece is one statement text that was observed to parse alone without error into exactly one statement.
type piece struct {
	Text    string
	Explain string   // parser.Explain of the statement parsed alone
	Kind    string   // Go type of the statement parsed alone
	NeedNL  bool     // a `;` directly after the text would be swallowed by a trailing line comment: put "\n" first
	Toks    []string // abstract pumped tokens (without EOF) for the C16 model: ";" "P" "W" "x"
	Src     string   // where the text came from (corpus / grammar / special / injected)
	HasSemi bool     // the statement text contains a `;` byte (inside a literal, quoted identifier or comment)
}

// piecePool qualifies candidate statement texts lazily and memoises the outcome.
type piecePool struct {
	w     *W
	cache map[string]*piece // nil value = rejected
	why   map[string]string
}

func newPiecePool(w *W) *piecePool {
	return &piecePool{w: w, cache: map[string]*piece{}, why: map[string]string{}}
}

func pumped(items []lexer.Item) []lexer.Item {
	out := make([]lexer.Item, 0, len(items))
	for _, it := range items {
		if it.Token != token.WHITESPACE && it.Token != token.LINE_COMMENT {
			out = append(out, it)
		}
	}
	return out
}

func sameTok(a, b lexer.Item) bool {
	return a.Token == b.Token && a.Value == b.Value && a.Quoted == b.Quoted
}

// stripTrailingSemis removes trailing whitespace and `;` (the corpus splitter keeps the terminating `;`).
func stripTrailingSemis(s string) string {
	for {
		t := strings.TrimRight(s, " \t\r\n\f\v")
		t = strings.TrimSuffix(t, ";")
		if t == s {
			return s
		}
		s = t
	}
}

// qualify decides whether text may be used as a script element and records why not. The rules are exactly those
// listed in the task: parses alone with err == nil into exactly one statement; not INSERT … FORMAT <inline data>;
// no PARALLEL WITH (chains statements by design); lexically closed (appending "\n;" appends exactly one SEMICOLON
// token: an unterminated comment/literal that runs to the end of input is not a valid statement); no SEMICOLON
// *token* inside (such a text is a script, not a statement).
func (pp *piecePool) qualify(text, src string) *piece {
	if p, ok := pp.cache[text]; ok {
		return p
	}
	rej := func(why string) *piece {
		pp.cache[text] = nil
		pp.why[text] = why
		pp.w.Count("pool-excluded:" + why)
		return nil
	}
	if strings.TrimSpace(text) == "" {
		return rej("empty")
	}
	items, pv := safeTokenize([]byte(text))
	if pv != "" {
		return rej("lexer-panic")
	}
	pt := pumped(items)
	if len(pt) < 2 || pt[len(pt)-1].Token != token.EOF {
		return rej("no-tokens")
	}
	body := pt[:len(pt)-1]
	// `;` inside literals and comments is not a separator: when the Lean model lexer (the reference reading of the text) sees no
	// SEMICOLON token at all but the lexer under test does, the piece is not "excluded" — that IS the failure
	if ma, ok := pumpedFromModel(pp.w.Model().Ask("lex " + hexOrDash([]byte(text)))); ok {
		semi := fmt.Sprint(int(token.SEMICOLON)) + ","
		modelHas, realHas := false, false
		for _, t := range strings.Split(ma, ";") {
			if strings.HasPrefix(t, semi) {
				modelHas = true
			}
		}
		for _, it := range body {
			if it.Token == token.SEMICOLON {
				realHas = true
			}
		}
		if realHas && !modelHas {
			obs := safeParse([]byte(text), int64(4000*(len(pt)+16)))
			if len(obs.Stmts) != 1 || obs.Err != nil {
				pp.w.Report(Finding{Kind: "script", Key: "script@semicolon-in-trivia", Input: fmt.Sprintf("%q", text), InputHex: hexs([]byte(text)),
					Detail: fmt.Sprintf("every `;` of this text is inside a literal or a comment (reference lexer: no SEMICOLON token), yet the lexer emits a SEMICOLON token and Parse returns %d statement(s), err=%v", len(obs.Stmts), errString(obs.Err))})
			} else {
				pp.w.Report(Finding{Kind: "model-disagreement", Key: "script@semicolon-token-in-trivia", Input: fmt.Sprintf("%q", text), InputHex: hexs([]byte(text)), Disagreement: true, Obligation: "lexer-correspondence",
					Detail: "the reference lexer sees no SEMICOLON token in this text, the lexer under test does (the parse result happens to be the same here)"})
			}
		}
	}
	hasInsert := false
	for i, it := range body {
		switch it.Token {
		case token.SEMICOLON:
			return rej("semicolon-token-inside")
		case token.ILLEGAL:
			return rej("illegal-token")
		case token.INSERT:
			hasInsert = true
		case token.PARALLEL:
			if i+1 < len(body) && body[i+1].Token == token.WITH {
				return rej("parallel-with")
			}
		case token.FORMAT:
			// INSERT … FORMAT <name> <inline data>: excluded by the property text
			if hasInsert && len(body)-i-1 >= 2 {
				return rej("insert-format-inline-data")
			}
		case token.IDENT:
			if strings.EqualFold(it.Value, "PARALLEL") && i+1 < len(body) && body[i+1].Token == token.WITH {
				return rej("parallel-with")
			}
		}
	}
	// lexically closed?
	closed := func(suffix string) bool {
		it2, pv2 := safeTokenize([]byte(text + suffix))
		if pv2 != "" {
			return false
		}
		p2 := pumped(it2)
		if len(p2) != len(body)+2 {
			return false
		}
		for i := range body {
			if !sameTok(p2[i], body[i]) {
				return false
			}
		}
		return p2[len(body)].Token == token.SEMICOLON && p2[len(body)+1].Token == token.EOF
	}
	// The verdict "lexically closed" is taken from the Lean lexer model (proved total, tied to lexer.go by pins and the C12
	// correspondence), not from the lexer under test: a lexer whose reading of a statement's last token depends on what
	// follows it (end of input vs the next statement) must not be able to talk its way out of the pool.
	closedM := func(suffix string) (bool, bool) {
		a, ok1 := pumpedFromModel(pp.w.Model().Ask("lex " + hexOrDash([]byte(text))))
		b, ok2 := pumpedFromModel(pp.w.Model().Ask("lex " + hexOrDash([]byte(text+suffix))))
		if !ok1 || !ok2 {
			return false, false
		}
		at, bt := strings.Split(strings.TrimSuffix(a, ";"), ";"), strings.Split(strings.TrimSuffix(b, ";"), ";")
		if len(at) < 2 || len(bt) != len(at)+1 {
			return false, true
		}
		for i := 0; i+1 < len(at); i++ {
			if at[i] != bt[i] {
				return false, true
			}
		}
		return strings.HasPrefix(bt[len(at)-1], fmt.Sprint(int(token.SEMICOLON))+",") && strings.HasPrefix(bt[len(at)], fmt.Sprint(int(token.EOF))+","), true
	}
	needNL := false
	if c, ok := closedM(";"); ok {
		if !c {
			if c2, _ := closedM("\n;"); !c2 {
				return rej("not-lexically-closed")
			}
			needNL = true
		}
	} else if !closed(";") {
		if !closed("\n;") {
			return rej("not-lexically-closed")
		}
		needNL = true
	}
	obs := safeParse([]byte(text), int64(4000*(len(pt)+16)))
	if obs.Panicked {
		return rej("alone-panics")
	}
	if obs.Budget {
		return rej("alone-budget")
	}
	if obs.Err != nil {
		return rej("alone-error")
	}
	if len(obs.Stmts) != 1 {
		return rej(fmt.Sprintf("alone-%d-statements", len(obs.Stmts)))
	}
	ex := safeExplain(obs.Stmts[0])
	if ex.Panicked {
		return rej("alone-explain-panics")
	}
	toks := make([]string, len(body))
	for i, it := range body {
		switch it.Token {
		case token.PARALLEL:
			toks[i] = "P"
		case token.WITH:
			toks[i] = "W"
		default:
			toks[i] = "x"
		}
	}
	p := &piece{Text: text, Explain: ex.Out, Kind: fmt.Sprintf("%T", obs.Stmts[0]), NeedNL: needNL, Toks: toks, Src: src,
		HasSemi: strings.Contains(text, ";")}
	pp.cache[text] = p
	return p
}

// clauseLastStmts: statements made of a head and a set of trailing clauses that may come in any order, once with each
// clause in last position (what a clause parser does when `;` follows directly differs from clause to clause).
func clauseLastStmts() []string {
	type fam struct {
		head    string
		clauses []string
	}
	fams := []fam{
		{"CREATE DICTIONARY d (id UInt64, v String)", []string{"PRIMARY KEY id", "SOURCE(CLICKHOUSE(TABLE 't'))", "LAYOUT(FLAT())", "LIFETIME(MIN 0 MAX 10)", "SETTINGS(a = 1)", "COMMENT 'c'", "RANGE(MIN a MAX b)"}},
		{"CREATE TABLE t (a Int8, b String)", []string{"ENGINE = MergeTree", "ORDER BY a", "PARTITION BY b", "PRIMARY KEY a", "SAMPLE BY a", "TTL d + INTERVAL 1 DAY", "SETTINGS index_granularity = 1", "COMMENT 'c'"}},
		{"CREATE MATERIALIZED VIEW v", []string{"TO t", "ENGINE = Memory", "POPULATE", "AS SELECT 1"}},
		{"SELECT a FROM t", []string{"WHERE a", "GROUP BY a", "HAVING a", "ORDER BY a", "LIMIT 1", "LIMIT 1 BY a", "OFFSET 1", "SETTINGS a = 1", "FORMAT Null", "INTO OUTFILE 'f'", "WITH TOTALS", "QUALIFY a", "WINDOW w AS ()"}},
		{"ALTER TABLE t", []string{"ADD COLUMN c Int8", "DROP COLUMN d", "MODIFY TTL a", "MODIFY ORDER BY a", "MODIFY SETTING s = 1", "DELETE WHERE 1", "UPDATE a = 1 WHERE 1", "DROP PARTITION 1", "COMMENT COLUMN a 'c'"}},
		{"CREATE USER u", []string{"IDENTIFIED BY 'p'", "HOST ANY", "DEFAULT ROLE r", "SETTINGS a = 1", "GRANTEES NONE"}},
		{"OPTIMIZE TABLE t", []string{"PARTITION 1", "FINAL", "DEDUPLICATE", "DEDUPLICATE BY a"}},
		{"INSERT INTO t", []string{"(a, b)", "SETTINGS a = 1", "SELECT 1", "VALUES (1, 'x')"}},
		{"SYSTEM SYNC REPLICA t", []string{"STRICT", "LIGHTWEIGHT", "PULL"}},
		{"KILL QUERY", []string{"WHERE 1", "SYNC", "ASYNC", "TEST"}},
		{"GRANT SELECT ON t TO u", []string{"WITH GRANT OPTION", "WITH REPLACE OPTION"}},
		{"SHOW TABLES", []string{"FROM db", "LIKE 'x'", "LIMIT 1", "NOT LIKE 'y'"}},
	}
	var out []string
	for _, f := range fams {
		for i, last := range f.clauses {
			// the head alone with this clause, and with two other clauses in front of it
			out = append(out, f.head+" "+last)
			a, b := f.clauses[(i+1)%len(f.clauses)], f.clauses[(i+2)%len(f.clauses)]
			if a != last && b != last && a != b {
				out = append(out, f.head+" "+a+" "+b+" "+last)
			}
		}
	}
	return out
}

// specialStmts contain `;` inside string literals, quoted identifiers and comments.
var specialStmts = []string{
	// statements that END in a token whose scanner looks ahead (alone, the look-ahead meets the end of input; in a script,
	// it sees the next statement): here-documents, tagged and not, strings, quoted names, numbers of every form, parameters, operators
	"SELECT $t$plain$t$", "SELECT 1, $tag$ a;b $tag$", "SELECT $$x$$", "SELECT $a", "SELECT $1", "SELECT 'a'", "SELECT 'a'''", "SELECT \"q\"", "SELECT `q`", "SELECT 1.", "SELECT 1.5e3", "SELECT .5",
	"SELECT 0x1F", "SELECT 0b1", "SELECT 1_000", "SELECT {p:UInt8}", "SELECT t.1", "SELECT db.02_t", "SELECT x'41'", "SELECT @@v", "SELECT a::Int8", "SELECT [1,2,3]::Array(UInt8)", "SELECT (1,'a')::Tuple(UInt8, String)",
	"SELECT 1 -- tail", "SELECT 1 /* tail */", "SELECT 1 # tail", "SELECT é", "SELECT 'é'", "SYSTEM SYNC REPLICA t STRICT", "SYSTEM FLUSH LOGS", "SHOW TABLES", "SELECT 1 FORMAT Null", "SELECT 1 INTO OUTFILE 'f'",
	"SELECT 'a;b'",
	"SELECT ';'",
	"SELECT ';;', ';'",
	"SELECT 'it''s;'",
	"SELECT 'q\\';'",
	"SELECT \"a;b\"",
	"SELECT \"a;b\" FROM t",
	"SELECT `a;b`",
	"SELECT `a;b` FROM `t;u`",
	"SELECT 1 AS `x;`",
	"SELECT 1 AS \"x;y\"",
	"SELECT 1 /* ; */",
	"SELECT /* ; */ 1",
	"/* ; */ SELECT 1",
	"SELECT 1 /* ;;; \n ; */ + 2",
	"SELECT 1 -- ; \n",
	"SELECT 1 -- ;",
	"SELECT 1 --;\n + 2",
	"SELECT 1 # ;\n",
	"SELECT 1 #! ;\n, 2",
	"SELECT 1 /* /* ; */ ; */",
	"SELECT 1 /* a /*/ ; b */ c */",
	"SELECT 1 /*/ ; /*/ + 2",
	"SELECT 1 /* /*/ ; */ ; */ , 3",
	"/* /*/*/ ; */ ; */ */ SELECT 1",
	"SELECT a FROM t WHERE b = ';' -- ;;;\n AND c = \";\"",
	"SELECT $$a;b$$",
	"SELECT x'3b', ';'",
	"CREATE TABLE t (a String COMMENT ';') ENGINE = Memory",
	"CREATE TABLE t (`a;b` String DEFAULT ';') ENGINE = MergeTree ORDER BY `a;b`",
	"INSERT INTO t VALUES (';')",
	"INSERT INTO t (`a;`) VALUES (1, ';'), (2, '; SELECT 1')",
	"ALTER TABLE t COMMENT COLUMN a ';'",
	"SELECT concat(';', 'a;') /* ; SELECT 2 */ FROM t -- ; SELECT 3\n WHERE a LIKE '%;%'",
	"SET a = ';'",
	"SHOW TABLES LIKE ';'",
	"SELECT 'a\\\\;'",
	"SELECT '\\;'",
	"SELECT 1 AS a /*;*/ , 2 AS b --;\n , 3",
	"EXPLAIN SELECT ';'",
	"SELECT * FROM t WHERE a IN (';', \";\") /* ; */",
	"USE `d;b`",
	"DROP TABLE `t;`",
	"SELECT format('{};{}', a, b) FROM t",
	"WITH ';' AS s SELECT s",
	"SELECT CAST(';' AS String)",
	"SELECT ';'::String",
	"SELECT [';', 'a;']",
	"SELECT (';', 1).1",
	"SELECT map(';', 1)[';']",
	"SELECT CASE WHEN a = ';' THEN ';' ELSE '' END FROM t",
	"SELECT 1 FORMAT JSON",
	"SELECT 1 SETTINGS max_threads = 1",
	"SELECT 1 INTO OUTFILE ';'",
	"SELECT 1 UNION ALL SELECT ';'",
	"SELECT 1 INTERSECT SELECT 2",
	"(SELECT 1)",
	"SELECT INTERVAL 1 DAY",
	"SELECT INTERVAL '2' AS n",
	"SELECT 1 AS minute",
	"SELECT a.b.c FROM t",
	"SELECT db.03711_table.x FROM db.03711_table",
	"SELECT 1.",
	"SELECT 1e3",
	"SELECT t.*",
	"SELECT *",
	"SELECT -1",
	"SELECT NOT",
	"SELECT a FROM t AS minute",
	"SELECT a b",
	"SELECT EXISTS (SELECT 1)",
	"DESC t",
	"SHOW TABLES",
	"COMMIT",
	"ROLLBACK",
	"BEGIN TRANSACTION",
	"SYSTEM FLUSH LOGS",
	"USE db",
	"EXISTS t",
	"GRANT SELECT ON *.* TO u",
	"SET ROLE DEFAULT",
	"KILL QUERY WHERE 1",
	"OPTIMIZE TABLE t",
	"TRUNCATE t",
	"DROP TABLE t",
	"DETACH TABLE t",
	"ATTACH TABLE t",
	"RENAME TABLE a TO b",
	"EXCHANGE TABLES a AND b",
	"CHECK TABLE t",
	"INSERT INTO t FORMAT CSV",
	"INSERT INTO t VALUES",
	"INSERT INTO t SELECT 1",
	"INSERT INTO FUNCTION file('a;b') SELECT 1",
}

// injectSemiTrivia inserts a comment containing `;` into a whitespace gap of a statement.
func injectSemiTrivia(r *Rng, text string) (string, bool) {
	sp, ok := tokenSpans(text)
	if !ok || len(sp) < 2 {
		return "", false
	}
	var gaps []int
	for i := 0; i+1 < len(sp); i++ {
		if sp[i].End < sp[i+1].Start && sp[i].End < len(text) && isGapByte(text[sp[i].End]) {
			gaps = append(gaps, sp[i].End)
		}
	}
	if len(gaps) == 0 {
		return "", false
	}
	at := pick(r, gaps)
	ins := pick(r, []string{" /* ; */", " /*;*/", " -- ;\n", " --;\n", " # ;\n", " /* ; SELECT 1; */", "\n-- ; ; ;\n", " /* /* ; */ ; */", " /* a /*/ ; b */ c */", " /*/ ; /*/", " /* /*/*/ ; */ ; */ */"})
	return text[:at] + ins + text[at:], true
}

// pickPiece draws one qualified statement. maxLen bounds its byte length (0 = 2000).
var clauseLast = clauseLastStmts()

func (pp *piecePool) pickPiece(r *Rng, maxLen int) *piece {
	if maxLen <= 0 {
		maxLen = 2000
	}
	stmts, _ := loadCorpus()
	for try := 0; try < 60; try++ {
		var text, src string
		switch c := r.Intn(100); {
		case c < 50:
			cs := stmts[r.Intn(len(stmts))]
			text, src = stripTrailingSemis(cs.Text), "corpus"
			if r.Chance(1, 5) && len(text) < 3000 { // difficult leaves: strings holding ';', quotes, comment openers, line breaks
				if v, ok := leafSubstitute(r, text); ok {
					text, src = v, "corpus-leaf"
				}
			}
		case c < 72:
			g := &Gen{r: r}
			text, src = g.statement(1+r.Intn(3)), "grammar"
		case c < 88:
			if r.Chance(1, 2) {
				text, src = pick(r, clauseLast), "clause-last"
			} else {
				text, src = pick(r, specialStmts), "special"
			}
		default:
			var base string
			if r.Chance(1, 2) {
				base = stripTrailingSemis(stmts[r.Intn(len(stmts))].Text)
			} else {
				g := &Gen{r: r}
				base = g.statement(2)
			}
			t, ok := injectSemiTrivia(r, base)
			if !ok {
				continue
			}
			text, src = t, "injected"
		}
		if len(text) > maxLen {
			continue
		}
		if p := pp.qualify(text, src); p != nil {
			return p
		}
	}
	return pp.qualify("SELECT 1", "fallback")
}

var sepsBetween = []string{";", ";", ";", "; ", ";\n", " ; ", ";;", "; ;", ";\n;\n", ";/* ; */", "; -- ;\n", "\n;\n", ";\t", " ;;; ", ";/*;*/;"}
var sepsLead = []string{"", "", "", "", ";", " ; ;", "/* ; */", "-- ;\n", ";;\n", " "}
var sepsTrail = []string{"", "", ";", ";", ";;", " ; ", ";\n-- ;", ";\n", " ", "; /* ; */ ;", "\n"}

// script is a joined sequence of pieces; Starts[i] is the byte offset of piece i in Text.
type script struct {
	Pieces []*piece
	Text   string
	Starts []int
	Seps   []string // Seps[0] = lead, Seps[i] = separator after piece i-1 (Seps[n] = trail)
}

func buildScript(r *Rng, pieces []*piece) script {
	var sb strings.Builder
	sc := script{Pieces: pieces}
	lead := pick(r, sepsLead)
	sb.WriteString(lead)
	sc.Seps = append(sc.Seps, lead)
	for i, p := range pieces {
		sc.Starts = append(sc.Starts, sb.Len())
		sb.WriteString(p.Text)
		var sep string
		if i+1 < len(pieces) {
			sep = pick(r, sepsBetween)
		} else {
			sep = pick(r, sepsTrail)
		}
		if p.NeedNL {
			sep = "\n" + sep
		}
		sb.WriteString(sep)
		sc.Seps = append(sc.Seps, sep)
	}
	sc.Text = sb.String()
	return sc
}

func joinPlain(pieces []*piece) string {
	var sb strings.Builder
	for i, p := range pieces {
		if i > 0 {
			if pieces[i-1].NeedNL {
				sb.WriteString("\n")
			}
			sb.WriteString(";")
		}
		sb.WriteString(p.Text)
	}
	return sb.String()
}

// c06Diff compares the real Parse of text against the pieces parsed alone; "" = agree.
func c06Diff(text string, pieces []*piece) (class, detail string) {
	items, pv := safeTokenize([]byte(text))
	if pv != "" {
		return "error", "lexer panicked on the joined script: " + pv
	}
	obs := safeParse([]byte(text), int64(4000*(pumpedTokens(items)+16)))
	if obs.Panicked {
		return "error", "joined script panics at " + obs.Site + ": " + obs.PanicVal
	}
	if obs.Budget {
		return "error", "joined script exceeds the step budget in " + obs.Site
	}
	if obs.Err != nil {
		return "error", "every statement parses alone without error, the joined script returns err = " + obs.Err.Error()
	}
	if len(obs.Stmts) != len(pieces) {
		return "count", fmt.Sprintf("joined script yields %d statements, %d expected", len(obs.Stmts), len(pieces))
	}
	for i, s := range obs.Stmts {
		ex := safeExplain(s)
		if ex.Panicked {
			return "explain", fmt.Sprintf("Explain of statement %d of the joined script panics (%s); alone it does not", i, ex.PanicVal)
		}
		if ex.Out != pieces[i].Explain {
			return "explain", fmt.Sprintf("statement %d (%q) explains differently inside the script:\n--- alone\n%s--- in script\n%s", i, trunc(pieces[i].Text, 200), trunc(pieces[i].Explain, 900), trunc(ex.Out, 900))
		}
	}
	return "", ""
}

// minimiseScript greedily drops pieces while the plain `;`-joined script still differs in the same class.
func minimiseScript(pieces []*piece, class string) []*piece {
	cur := append([]*piece(nil), pieces...)
	if c, _ := c06Diff(joinPlain(cur), cur); c != class {
		return nil // the difference depends on the separators; keep the original
	}
	for changed := true; changed && len(cur) > 1; {
		changed = false
		for i := 0; i < len(cur); i++ {
			cand := append(append([]*piece(nil), cur[:i]...), cur[i+1:]...)
			if len(cand) == 0 {
				continue
			}
			if c, _ := c06Diff(joinPlain(cand), cand); c == class {
				cur = cand
				changed = true
				break
			}
		}
	}
	return cur
}

func runC06(w *W) {
	pp := newPiecePool(w)
	n := w.pickN(20000, 500000)
	for k := 0; k < n; k++ {
		idx, mine := w.Case()
		if !mine {
			continue
		}
		r := NewRng(w.Seed, uint64(idx), 6)
		cnt := 2 + r.Intn(11)
		maxLen := 0
		if r.Chance(1, 2) {
			maxLen = 200
		}
		pieces := make([]*piece, cnt)
		for i := range pieces {
			pieces[i] = pp.pickPiece(r, maxLen)
		}
		sc := buildScript(r, pieces)
		in := []byte(sc.Text)
		w.Begin(idx, in, fmt.Sprintf("script:%d", cnt))
		semi := false
		for _, p := range pieces {
			w.Count("piece:" + p.Src)
			if p.HasSemi {
				semi = true
			}
		}
		if semi {
			w.Count("scripts-with-semicolon-inside-literal-or-comment")
		}
		w.Eval(in, true)
		class, detail := c06Diff(sc.Text, pieces)
		if class == "" {
			if w.stats.Evaluations%500 == 1 {
				w.Sample(fmt.Sprintf("%q", trunc(sc.Text, 250)))
			}
			continue
		}
		w.Count("differs:" + class)
		if min := minimiseScript(pieces, class); min != nil {
			_, d2 := c06Diff(joinPlain(min), min)
			detail = fmt.Sprintf("minimised script: %q\n%s\n(original: %s)", joinPlain(min), d2, trunc(detail, 600))
		}
		w.Report(Finding{Kind: "script", Key: "script@" + class, Input: fmt.Sprintf("%q", sc.Text), InputHex: hexs(in), Detail: detail})
	}

	// long scripts: thousands of statements drawn from a handful of short pieces — anything that accumulates across
	// statements (a counter, a cache, a buffer position) shows up only here
	report := func(idx int, text string, pieces []*piece, desc string) {
		in := []byte(text)
		w.Begin(idx, in, desc)
		w.Eval(in, true)
		w.Count(strings.SplitN(desc, ":", 2)[0])
		class, detail := c06Diff(text, pieces)
		if class == "" {
			return
		}
		w.Count("differs:" + class)
		w.Report(Finding{Kind: "script", Key: "script@" + class + "@" + strings.SplitN(desc, ":", 2)[0], Input: fmt.Sprintf("%q", trunc(text, 1500)), InputHex: hexs(in), Detail: trunc(detail, 1500)})
	}
	nLong := w.pickN(76, 400)
	for k := 0; k < nLong; k++ {
		idx, mine := w.Case()
		if !mine {
			continue
		}
		r := NewRng(w.Seed, uint64(idx), 61)
		var kinds []*piece
		nested := []string{"SELECT (SELECT 1) AS a", "SELECT * FROM (SELECT 1)", "SELECT ((1))", "WITH x AS (SELECT 1) SELECT * FROM x", "SELECT a IN (SELECT 1)", "SELECT (WITH 1 AS y SELECT y)",
			"SELECT [1, (2)], (1, (2, 3)), f(g(h(1)))", "SELECT CASE WHEN a THEN (SELECT 1) END", "SELECT EXISTS (SELECT 1)", "SELECT x -> (x + 1)", "CREATE VIEW v AS SELECT (SELECT 1)", "SELECT 'a;b' -- c;\n",
			// per-parser state that a statement may leave behind (depth counters, pools, modes): set operations of every mix,
			// types in both cast positions, every bracket kind, literals that go through scratch buffers
			"SELECT 1 UNION ALL SELECT 2 INTERSECT SELECT 3", "SELECT (SELECT 1 UNION ALL SELECT 2 EXCEPT SELECT 3) AS q", "SELECT 1 UNION DISTINCT SELECT 2 UNION ALL SELECT 3",
			"SELECT CAST(x AS Int32), y::Int8", "SELECT CAST(x AS Tuple(a Int8, b Array(String))), z::Map(String, UInt8)", "CREATE TABLE t (a Nullable(Int8), b Tuple(Int8, String)) ENGINE = Memory",
			"SELECT a + b * c - d, e || f || g, NOT h AND i", "SELECT 'str\\n', `id`, \"qd\", 1.5, 0x1F, [1, 2], (1, 2)", "SELECT f(x) OVER (PARTITION BY a ORDER BY b) FROM t WINDOW w AS (ORDER BY c)",
			"SELECT * FROM t ARRAY JOIN a AS b LEFT JOIN u USING (k) WHERE x GROUP BY y WITH TOTALS HAVING z ORDER BY q LIMIT 1 BY r LIMIT 2", "INSERT INTO t (a) VALUES (1)", "ALTER TABLE t ADD COLUMN c Int8, DROP COLUMN d",
			"SELECT INTERVAL 1 DAY, EXTRACT(YEAR FROM d), CASE WHEN a THEN b ELSE c END, x BETWEEN 1 AND 2, y IS NOT NULL", "EXPLAIN AST SELECT 1", "SELECT {p:UInt8}, $$h$$, -1, - 1, +1"}
		switch {
		case k < 2*len(nested):
			// one nested shape repeated (every second script alternates it with a plain statement)
			if pc := pp.qualify(nested[k%len(nested)], "special"); pc != nil {
				kinds = append(kinds, pc)
			}
			if k >= len(nested) {
				if pc := pp.qualify("SELECT 1", "special"); pc != nil {
					kinds = append(kinds, pc)
				}
			}
		default:
			for len(kinds) < 1+r.Intn(4) {
				kinds = append(kinds, pp.pickPiece(r, 120))
			}
			for _, t := range nested {
				if r.Chance(1, 4) {
					if pc := pp.qualify(t, "special"); pc != nil {
						kinds = append(kinds, pc)
					}
				}
			}
		}
		if len(kinds) == 0 {
			continue
		}
		cnt := 1100 + r.Intn(1500)
		pieces := make([]*piece, cnt)
		for i := range pieces {
			pieces[i] = kinds[r.Intn(len(kinds))]
		}
		report(idx, joinPlain(pieces), pieces, fmt.Sprintf("longscript:%d", cnt))
	}

	// sliding window: a probe statement with two-character tokens, comments and quotes placed at every offset around
	// the 4096 / 8192 byte marks of the script (read-buffer boundaries)
	first := pp.qualify("SELECT 1", "special")
	last := pp.qualify("SELECT 2", "special")
	probes := []string{"SELECT 1 -- first; second\n + 2", "SELECT 'it''s; here' AS a", "SELECT 1 /* a; b */ + 2", "SELECT a <= b, c != d, e <> f, g || h, i::UInt8, x -> y", "SELECT 1.5e3, .5, a.1, db.02_t, 1_000",
		"SELECT $$a;b$$, x'4142', {p:UInt8}", "SELECT \"a;b\", `c;d` FROM t", "SELECT a /* /* nested; */ */ , b # c;\n FROM t", "SELECT a /* x /*/ ; y */ z */ , b", "SELECT a >= 1 AND b <=> 2 OR NOT c"}
	nProbe := w.pickN(len(probes), len(probes)+60)
	for k := 0; k < nProbe; k++ {
		r := NewRng(w.Seed, uint64(k), 62)
		var pr *piece
		if k < len(probes) {
			pr = pp.qualify(probes[k], "special")
		} else {
			pr = pp.pickPiece(r, 80)
		}
		if pr == nil || first == nil || last == nil {
			continue
		}
		for _, mark := range []int{4096, 8192} {
			for start := mark - len(pr.Text) - 3; start <= mark+2; start++ {
				idx, mine := w.Case()
				if !mine {
					continue
				}
				// "SELECT 1" + filler comment + ";" occupies exactly `start` bytes
				fill := start - len("SELECT 1") - len(" /**/;")
				if fill < 0 {
					continue
				}
				text := "SELECT 1 /*" + strings.Repeat("x", fill) + "*/;" + pr.Text
				if pr.NeedNL {
					text += "\n"
				}
				text += ";SELECT 2"
				report(idx, text, []*piece{first, pr, last}, fmt.Sprintf("window:%d@%d", mark, start))
			}
		}
	}
}
