package main

import (
	"fmt"
	"os"
	"sort"
	"strconv"
	"strings"
	"unicode/utf8"

	"github.com/sqlc-dev/doubleclick/token"
)

// C18 — type expressions in CAST(x AS T) and x::T.
//
// Independent side: a type algebra `Ty`, its canonical printer `c18Canon` (constructor names as written, arguments
// separated by ", ", string arguments single-quoted and escaped the way ClickHouse writes a quoted string) and the
// notation in which EXPLAIN shows a string literal (`c18Show`).  Real side: parser.Parse + parser.Explain on
// `SELECT CAST(x AS <T>)` and `SELECT x::<T>` with <T> rendered under random separator spellings.
//
// THE COMPARISON, PRECISELY.  ClickHouse's EXPLAIN AST shows the second argument of CAST as a string literal whose
// value is the type text.  A string literal with value v is shown as   esc("'" + esc(v) + "'")   where esc is
// ClickHouse's one escaping function (writeAnyEscapedString<'\''>): \ -> \\, ' -> \', and \b \f \n \r \t \0 by
// their letter; everything else verbatim.  The inner esc is the literal's own quoting (FieldVisitorToString), the outer
// one is the TSV output format of the EXPLAIN result (this is why the outer quotes appear as \' in every golden
// file).  The canonical type text itself quotes its string arguments with the same esc ("string arguments quoted
// and escaped").  So for a type T the last `Literal` line of EXPLAIN must be
//        Literal <c18Show(c18Canon(T))>       with   c18Show(v) = esc("'" + esc(v) + "'").
// The oracle undoes this strictly (c18Unshow: outer esc, the two quotes, inner esc; any backslash pair esc cannot
// produce, or a bare character esc always escapes, makes the line undecodable) and compares the decoded type text
// with c18Canon(T).  c18Show is injective, so this is the same as comparing the lines byte for byte; the decoded
// text is what the finding reports.

//
// DOMAIN.  Heads are single words.  The MySQL-style multi-word names the parser also accepts directly after AS / ::
// (BIGINT UNSIGNED, DOUBLE PRECISION, CHAR VARYING, NATIONAL CHARACTER LARGE OBJECT, …) are not ClickHouse type
// constructors and are not generated (nested, e.g. Array(BIGINT UNSIGNED), the parser rejects them).  `Tuple()` with
// empty parentheses (printed as `Tuple`) is not generated either.
//
// KNOWN FINDINGS (generated at a low rate on purpose, so that the check reports them): see the hz* constants.

func init() { props["C18"] = runC18 }

// ---------------------------------------------------------------- the type algebra

type tyCtor int

const (
	kName tyCtor = iota
	kArray
	kNullable
	kLowCard
	kMap
	kTuple
	kNamedTuple
	kVariant
	kDecimal
	kFixedString
	kDateTime
	kDateTime64
	kEnum
	nTyCtor
)

var tyCtorName = [...]string{"Name", "Array", "Nullable", "LowCardinality", "Map", "Tuple", "NamedTuple", "Variant",
	"Decimal", "FixedString", "DateTime", "DateTime64", "Enum"}

// constructors that take type arguments (the parents of the pair matrix)
var tyParents = []tyCtor{kArray, kNullable, kLowCard, kMap, kTuple, kNamedTuple, kVariant}

type argKind int

const (
	aTy    argKind = iota // a nested type
	aNamed                // name + nested type (Tuple element)
	aNum                  // number, possibly negative
	aStr                  // string
	aEnum                 // 'name' = number
)

type TyArg struct {
	Kind argKind
	Name string
	T    *Ty
	Neg  bool
	U    uint64
	S    string
}

// Ty is a plain name (Args == nil) or a constructor application. Words is the head as written (one word, or the
// words of a multi-word SQL name such as DOUBLE PRECISION).
type Ty struct {
	Ctor  tyCtor
	Words []string
	Args  []TyArg
}

// ---------------------------------------------------------------- the independent canonical printer

// c18Esc is ClickHouse's escaping of a string body (writeAnyEscapedString with quote character ').
// c18Combo: one pool entry, or two or three glued together — so that an invalid UTF-8 byte, a quote, a backslash and a
// control character meet in one string (an escaper that is right for each alone may still be wrong for the mix).
func c18Combo(r *Rng, pool []string) string {
	s := pick(r, pool)
	if r.Chance(1, 3) {
		s += pick(r, pool)
		if r.Chance(1, 3) {
			s += pick(r, pool)
		}
	}
	return s
}

func c18Esc(s string) string {
	var sb strings.Builder
	for i := 0; i < len(s); i++ {
		switch b := s[i]; b {
		case '\\':
			sb.WriteString(`\\`)
		case '\'':
			sb.WriteString(`\'`)
		case '\n':
			sb.WriteString(`\n`)
		case '\t':
			sb.WriteString(`\t`)
		case '\r':
			sb.WriteString(`\r`)
		case 0:
			sb.WriteString(`\0`)
		case '\b':
			sb.WriteString(`\b`)
		case '\f':
			sb.WriteString(`\f`)
		default:
			sb.WriteByte(b)
		}
	}
	return sb.String()
}

func c18Quote(s string) string { return "'" + c18Esc(s) + "'" }

func c18Num(neg bool, u uint64) string {
	s := strconv.FormatUint(u, 10)
	if neg {
		return "-" + s
	}
	return s
}

func c18Canon(t *Ty) string {
	var sb strings.Builder
	sb.WriteString(strings.Join(t.Words, " "))
	if len(t.Args) == 0 {
		return sb.String()
	}
	sb.WriteByte('(')
	for i, a := range t.Args {
		if i > 0 {
			sb.WriteString(", ")
		}
		switch a.Kind {
		case aTy:
			sb.WriteString(c18Canon(a.T))
		case aNamed:
			sb.WriteString(c18ShowName(a.Name) + " " + c18Canon(a.T))
		case aNum:
			sb.WriteString(c18Num(a.Neg, a.U))
		case aStr:
			sb.WriteString(c18Quote(a.S))
		case aEnum:
			sb.WriteString(c18Quote(a.S) + " = " + c18Num(a.Neg, a.U))
		}
	}
	sb.WriteByte(')')
	return sb.String()
}

// c18Show is how EXPLAIN shows a string literal whose value is v.
func c18Show(v string) string { return c18Esc(c18Quote(v)) }

// c18Unesc inverts c18Esc strictly.
func c18Unesc(s string) (string, bool) {
	var sb strings.Builder
	for i := 0; i < len(s); i++ {
		b := s[i]
		switch b {
		case '\'', '\n', '\t', '\r', 0, '\b', '\f':
			return "", false // esc never leaves these bare
		case '\\':
			i++
			if i >= len(s) {
				return "", false
			}
			switch s[i] {
			case '\\':
				sb.WriteByte('\\')
			case '\'':
				sb.WriteByte('\'')
			case 'n':
				sb.WriteByte('\n')
			case 't':
				sb.WriteByte('\t')
			case 'r':
				sb.WriteByte('\r')
			case '0':
				sb.WriteByte(0)
			case 'b':
				sb.WriteByte('\b')
			case 'f':
				sb.WriteByte('\f')
			default:
				return "", false
			}
		default:
			sb.WriteByte(b)
		}
	}
	return sb.String(), true
}

// c18Unshow inverts c18Show strictly: the value of the string literal shown as `shown`.
func c18Unshow(shown string) (string, string) {
	l2, ok := c18Unesc(shown)
	if !ok {
		return "", "outer (output format) escaping is malformed"
	}
	if len(l2) < 2 || l2[0] != '\'' || l2[len(l2)-1] != '\'' {
		return "", "not a quoted string literal"
	}
	v, ok := c18Unesc(l2[1 : len(l2)-1])
	if !ok {
		return "", "the literal's own quoting is malformed: " + l2
	}
	return v, ""
}

// ---------------------------------------------------------------- pools

// names the real parser's isDataTypeName knows, in ClickHouse's spelling (dumped table: DC.Gen.TypeNames)
var c18Listed = []string{"Int8", "Int16", "Int32", "Int64", "Int128", "Int256", "UInt8", "UInt16", "UInt32", "UInt64", "UInt128", "UInt256",
	"Float32", "Float64", "BFloat16", "String", "UUID", "Date", "Date32", "DateTime", "DateTime64", "Bool", "IPv4", "IPv6", "Nothing",
	"Point", "Ring", "Polygon", "MultiPolygon", "Dynamic", "JSON", "Time", "Decimal", "INT", "FLOAT", "DOUBLE", "BOOLEAN", "DEC", "Interval"}

// real ClickHouse type names and aliases that isDataTypeName does not list
var c18Unlisted = []string{"IntervalDay", "IntervalSecond", "IntervalMonth", "LineString", "MultiLineString", "VARCHAR", "TEXT", "BIGINT",
	"TINYINT", "REAL", "BLOB", "INET4", "MyType"}

var c18ElemNames = []string{"a", "b", "c", "x", "y", "id", "name", "value", "key", "k1", "_f", "col_2", "ts", "n", "s", "status", "type", "index", "A1",
	"comment", "default", "alias", "ttl", "materialized", "codec", "settings", "primary", "order", "format", "select", "from", "as", "to", "in", "is", "not", "null",
	// every boundary of the plain-identifier character classes: a z A Z 0 9 _
	"a9", "z0", "Z9", "A0", "c1999", "x0123456789", "_9", "az_AZ_09", "q9q", "Zz", "_", "__a"}

// element names that are not plain ASCII words: written in backticks, shown in backticks (the Lean model and
// spec are only consulted for plain names; these are compared with the Go oracle alone)
var c18SpecialElemNames = []string{"имя", "a$b", "a b", "naïve", "x-y", "中", "a.b", "pct%"}

func c18NeedsQuote(name string) bool {
	for _, c := range name {
		if !((c >= 'a' && c <= 'z') || (c >= 'A' && c <= 'Z') || (c >= '0' && c <= '9') || c == '_') {
			return true
		}
	}
	return false
}

func c18ShowName(name string) string {
	if c18NeedsQuote(name) {
		return "`" + name + "`"
	}
	return name
}

func (t *Ty) hasSpecialName() bool {
	for _, a := range t.Args {
		if a.Kind == aNamed && c18NeedsQuote(a.Name) {
			return true
		}
		if a.T != nil && a.T.hasSpecialName() {
			return true
		}
	}
	return false
}

var c18TypeLikeElemNames = []string{"date", "time", "string", "uuid", "point", "json", "bool", "Date", "int", "map", "tuple"}

var c18TimeZones = []string{"UTC", "Europe/Moscow", "America/New_York", "Asia/Istanbul", "Etc/GMT+3", "Europe/Amsterdam", "", "Asia/Kolkata", "UCT", "W-SU",
	"UTC", "Europe/Moscow", "a'b", "'", "\\", "a\\b", "tab\tx", "it's", "\\'", "nl\nx", "\x00", "Ünï", "\xff", "a\x80z"}
var c18EnumNames = []string{"a", "b", "c", "hello", "hello world", "", "Ünï", "привет", "a=b", "x,y", "(", ")", "--", "/*", "*/", "0", "NULL", " ",
	"back\\slash", "\\", "tab\tx", "nl\nx", "cr\r", "nul\x00", "bs\b", "ff\f", "\\n", "a\"b", "`", "=", " = 1", "a'b", "'", "it's", "''", "x\\'y", "\xff", "\xc3", "ab\xe2\x82", "\x80\x81",
	// strings that spell type names, keywords and constructor heads (a string must never be taken for a type)
	"string", "int", "date", "uuid", "json", "Array", "Tuple", "Nullable", "Int8", "DateTime", "Enum8", "NULL", "AS", "Map(String, Int8)", "Array(Int8)"}

// the generator's copy of isDataTypeName's list. It only steers generation (which names may stand where); if /repo's list
// changes, the `c18ty` correspondence below reports it (the Lean side's WfTy uses the regenerated DC.Gen.TypeNames).
var c18ListedSet = func() map[string]bool {
	m := map[string]bool{}
	for _, s := range []string{"INT", "INT8", "INT16", "INT32", "INT64", "INT128", "INT256", "UINT8", "UINT16", "UINT32", "UINT64", "UINT128", "UINT256",
		"FLOAT32", "FLOAT64", "FLOAT", "DOUBLE", "BFLOAT16", "DECIMAL", "DECIMAL32", "DECIMAL64", "DECIMAL128", "DECIMAL256", "DEC", "STRING", "FIXEDSTRING",
		"UUID", "DATE", "DATE32", "DATETIME", "DATETIME64", "ENUM", "ENUM8", "ENUM16", "ARRAY", "TUPLE", "MAP", "NESTED", "NULLABLE", "LOWCARDINALITY",
		"BOOL", "BOOLEAN", "IPV4", "IPV6", "NOTHING", "INTERVAL", "JSON", "OBJECT", "VARIANT", "AGGREGATEFUNCTION", "SIMPLEAGGREGATEFUNCTION",
		"POINT", "RING", "POLYGON", "MULTIPOLYGON", "TIME64", "TIME", "DYNAMIC", "QBIT"} {
		m[s] = true
	}
	return m
}()

func c18IsListed(w string) bool { return c18ListedSet[strings.ToUpper(w)] }

// ---------------------------------------------------------------- generation

// position of a type inside its parent (decides which names the grammar of the real parser supports there)
type tyPos int

const (
	posTop     tyPos = iota // directly after AS / :: or after a Tuple element name: parseDataType is called directly
	posUnnamed              // unnamed Tuple element: the head must be a listed name
	posArg                  // argument of another constructor: listed heads go to parseDataType, other plain names are identifiers
)

type tyGen struct {
	r      *Rng
	matrix *[nTyCtor][nTyCtor]int
}

func (g *tyGen) caseWord(w string) string {
	switch g.r.Intn(12) {
	case 0:
		return strings.ToLower(w)
	case 1:
		return strings.ToUpper(w)
	}
	return w
}

func (g *tyGen) plainName(pos tyPos) *Ty {
	r := g.r
	if pos != posUnnamed && r.Chance(1, 6) {
		return &Ty{Ctor: kName, Words: []string{pick(r, c18Unlisted)}}
	}
	return &Ty{Ctor: kName, Words: []string{g.caseWord(pick(r, c18Listed))}}
}

func (g *tyGen) number(max uint64) uint64 {
	r := g.r
	switch r.Intn(10) {
	case 0:
		return 0
	case 1:
		return r.Next() % (max + 1)
	}
	return uint64(r.Intn(40))
}

var c18LeafCtors = []tyCtor{kName, kName, kDecimal, kFixedString, kDateTime, kDateTime64, kEnum}
var c18AllCtors = []tyCtor{kName, kArray, kNullable, kLowCard, kMap, kTuple, kNamedTuple, kVariant, kDecimal, kFixedString, kDateTime, kDateTime64, kEnum,
	kArray, kMap, kTuple, kNamedTuple, kVariant, kNullable}

func (g *tyGen) gen(depth int, pos tyPos) *Ty {
	if depth <= 0 {
		return g.build(pick(g.r, c18LeafCtors), 0, pos)
	}
	return g.build(pick(g.r, c18AllCtors), depth, pos)
}

// build makes a type with the given root constructor; children are random types of depth < depth.
func (g *tyGen) build(c tyCtor, depth int, pos tyPos) *Ty {
	return g.buildWith(c, depth, pos, -1, 0)
}

// buildWith: if forceChild >= 0, one type argument (chosen at random) has that root constructor.
func (g *tyGen) buildWith(c tyCtor, depth int, pos tyPos, forceChild tyCtor, childDepth int) *Ty {
	r := g.r
	child := func(p tyPos, forced bool) *Ty {
		var t *Ty
		if forced {
			t = g.buildWith(forceChild, childDepth, p, -1, 0)
		} else {
			t = g.gen(depth-1, p)
		}
		g.matrix[c][t.Ctor]++
		return t
	}
	head := func(w string) []string { return []string{g.caseWord(w)} }
	switch c {
	case kName:
		return g.plainName(pos)
	case kArray, kNullable, kLowCard:
		return &Ty{Ctor: c, Words: head(tyCtorName[c]), Args: []TyArg{{Kind: aTy, T: child(posArg, forceChild >= 0)}}}
	case kMap:
		f := -1
		if forceChild >= 0 {
			f = r.Intn(2)
		}
		return &Ty{Ctor: c, Words: head("Map"), Args: []TyArg{{Kind: aTy, T: child(posArg, f == 0)}, {Kind: aTy, T: child(posArg, f == 1)}}}
	case kTuple, kVariant:
		n := 1 + r.Intn(4)
		f := -1
		if forceChild >= 0 {
			f = r.Intn(n)
		}
		t := &Ty{Ctor: c, Words: head(tyCtorName[c])}
		p := posArg
		if c == kTuple {
			p = posUnnamed
		}
		for i := 0; i < n; i++ {
			t.Args = append(t.Args, TyArg{Kind: aTy, T: child(p, i == f)})
		}
		return t
	case kNamedTuple:
		n := 1 + r.Intn(4)
		f := -1
		if forceChild >= 0 {
			f = r.Intn(n)
		}
		t := &Ty{Ctor: c, Words: head("Tuple")}
		for i := 0; i < n; i++ {
			et := child(posTop, i == f)
			name := pick(r, c18ElemNames)
			// an element name that is itself a type name is recognised as a name only when a listed IDENT follows
			if r.Chance(1, 8) && c18IsListed(et.Words[0]) && token.Lookup(strings.ToUpper(et.Words[0])) == token.IDENT {
				name = pick(r, c18TypeLikeElemNames)
			}
			if r.Chance(1, 12) {
				name = pick(r, c18SpecialElemNames) // needs backticks in the source and in the canonical text
			}
			t.Args = append(t.Args, TyArg{Kind: aNamed, Name: name, T: et})
		}
		return t
	case kDecimal:
		switch r.Intn(4) {
		case 0:
			return &Ty{Ctor: c, Words: head("Decimal"), Args: []TyArg{{Kind: aNum, U: g.number(76)}}}
		case 1:
			return &Ty{Ctor: c, Words: head(pick(r, []string{"Decimal32", "Decimal64", "Decimal128", "Decimal256"})), Args: []TyArg{{Kind: aNum, U: g.number(76)}}}
		}
		return &Ty{Ctor: c, Words: head(pick(r, []string{"Decimal", "Decimal", "DEC"})), Args: []TyArg{{Kind: aNum, U: g.number(76)}, {Kind: aNum, U: g.number(76)}}}
	case kFixedString:
		return &Ty{Ctor: c, Words: head("FixedString"), Args: []TyArg{{Kind: aNum, U: g.number(1<<63 - 1)}}}
	case kDateTime:
		return &Ty{Ctor: c, Words: head("DateTime"), Args: []TyArg{{Kind: aStr, S: c18Combo(r, c18TimeZones)}}}
	case kDateTime64:
		t := &Ty{Ctor: c, Words: head("DateTime64"), Args: []TyArg{{Kind: aNum, U: uint64(r.Intn(10))}}}
		if r.Chance(2, 3) {
			t.Args = append(t.Args, TyArg{Kind: aStr, S: c18Combo(r, c18TimeZones)})
		}
		return t
	case kEnum:
		n := 1 + r.Intn(5)
		t := &Ty{Ctor: c, Words: head(pick(r, []string{"Enum8", "Enum16", "Enum"}))}
		for i := 0; i < n; i++ {
			a := TyArg{Kind: aEnum, S: c18Combo(r, c18EnumNames)}
			switch r.Intn(8) {
			case 0:
				a.U = r.Next() % (1 << 63)
			case 1:
				a.U = uint64(r.Intn(1 << 15))
			default:
				a.U = uint64(r.Intn(130))
			}
			a.Neg = r.Chance(1, 3)
			t.Args = append(t.Args, a)
		}
		return t
	}
	panic("c18: constructor")
}

// ---------------------------------------------------------------- hazards (shapes outside the sub-grammar the real code handles)

const (
	hzNone = ""
	// KNOWN (not repaired): an unnamed Tuple element whose type name isDataTypeName does not list is taken for an element
	// name and the element is silently dropped: Tuple(IntervalDay, String) shows Tuple(String).
	hzTupleName = "tuple-unlisted-type-name"
	// KNOWN (not repaired): a Tuple element name that is itself a listed type name, followed by a type whose head is a
	// keyword token (Array, Interval) or an unlisted name, is a parse error: Tuple(date Array(Date)).
	hzElemName = "tuple-element-named-as-type"
)

func (t *Ty) walk(f func(*Ty)) {
	f(t)
	for i := range t.Args {
		if t.Args[i].T != nil {
			t.Args[i].T.walk(f)
		}
	}
}

// applyHazard mutates t into one known-finding shape; it reports which (hzNone if t offers no place for it) and, for
// hzTupleName, the type the defect is known to show instead (t with the element dropped).
func (g *tyGen) applyHazard(t *Ty) (string, func() string) {
	r := g.r
	var nodes []*Ty
	t.walk(func(n *Ty) { nodes = append(nodes, n) })
	want := pick(r, []string{hzTupleName, hzElemName})
	for _, k := range r.perm(len(nodes)) {
		n := nodes[k]
		switch want {
		case hzTupleName:
			if n.Ctor == kTuple {
				i := r.Intn(len(n.Args))
				n.Args[i].T = &Ty{Ctor: kName, Words: []string{pick(r, c18Unlisted)}}
				return want, func() string {
					saved := n.Args
					n.Args = append(append([]TyArg(nil), saved[:i]...), saved[i+1:]...)
					s := c18Canon(t)
					n.Args = saved
					return s
				}
			}
		case hzElemName:
			if n.Ctor == kNamedTuple {
				i := r.Intn(len(n.Args))
				n.Args[i].Name = pick(r, c18TypeLikeElemNames)
				switch r.Intn(3) {
				case 0:
					n.Args[i].T = &Ty{Ctor: kArray, Words: []string{"Array"}, Args: []TyArg{{Kind: aTy, T: &Ty{Ctor: kName, Words: []string{"Date"}}}}}
				case 1:
					n.Args[i].T = &Ty{Ctor: kName, Words: []string{pick(r, c18Unlisted)}}
				case 2:
					n.Args[i].T = &Ty{Ctor: kName, Words: []string{"Interval"}}
				}
				return want, nil
			}
		}
	}
	return hzNone, nil
}

func (r *Rng) perm(n int) []int {
	p := make([]int, n)
	for i := range p {
		p[i] = i
	}
	for i := n - 1; i > 0; i-- {
		j := r.Intn(i + 1)
		p[i], p[j] = p[j], p[i]
	}
	return p
}

// ---------------------------------------------------------------- rendering

// rtok is one source token of a rendering together with the token the lexer must produce for it.
type rtok struct {
	text string
	kind token.Token
	val  string
	glue bool // no separator between this token and the next (sign and digits of a negative number)
}

func c18SpellString(r *Rng, v string) string {
	var sb strings.Builder
	sb.WriteByte('\'')
	for i := 0; i < len(v); i++ {
		switch b := v[i]; b {
		case '\'':
			if r.Chance(1, 2) {
				sb.WriteString("''")
			} else {
				sb.WriteString(`\'`)
			}
		case '\\':
			sb.WriteString(`\\`)
		case '\n':
			if r.Chance(1, 2) {
				sb.WriteString(`\n`)
			} else {
				sb.WriteByte(b)
			}
		case '\t':
			if r.Chance(1, 2) {
				sb.WriteString(`\t`)
			} else {
				sb.WriteByte(b)
			}
		case '\r':
			sb.WriteString(`\r`)
		case 0:
			sb.WriteString(`\0`)
		case '\b':
			sb.WriteString(`\b`)
		case '\f':
			sb.WriteString(`\f`)
		default:
			if b >= 0x80 && !utf8.ValidString(v) {
				// a raw byte that is not valid UTF-8 would be replaced by U+FFFD by the lexer: spell it as an escape
				fmt.Fprintf(&sb, "\\x%02X", b)
			} else {
				sb.WriteByte(b)
			}
		}
	}
	sb.WriteByte('\'')
	return sb.String()
}

func c18Word(w string) rtok { return rtok{text: w, kind: token.Lookup(strings.ToUpper(w)), val: w} }

func (t *Ty) rtoks(r *Rng, out *[]rtok) {
	for _, w := range t.Words {
		*out = append(*out, c18Word(w))
	}
	if len(t.Args) == 0 {
		return
	}
	*out = append(*out, rtok{text: "(", kind: token.LPAREN, val: "("})
	num := func(a TyArg) {
		if a.Neg {
			*out = append(*out, rtok{text: "-", kind: token.MINUS, val: "-", glue: true})
		}
		s := strconv.FormatUint(a.U, 10)
		*out = append(*out, rtok{text: s, kind: token.NUMBER, val: s})
	}
	for i, a := range t.Args {
		if i > 0 {
			*out = append(*out, rtok{text: ",", kind: token.COMMA, val: ","})
		}
		switch a.Kind {
		case aTy:
			a.T.rtoks(r, out)
		case aNamed:
			if c18NeedsQuote(a.Name) {
				*out = append(*out, rtok{text: "`" + a.Name + "`", kind: token.IDENT, val: a.Name})
			} else {
				*out = append(*out, c18Word(a.Name))
			}
			a.T.rtoks(r, out)
		case aNum:
			num(a)
		case aStr:
			*out = append(*out, rtok{text: c18SpellString(r, a.S), kind: token.STRING, val: a.S})
		case aEnum:
			*out = append(*out, rtok{text: c18SpellString(r, a.S), kind: token.STRING, val: a.S})
			*out = append(*out, rtok{text: "=", kind: token.EQ, val: "="})
			num(a)
		}
	}
	*out = append(*out, rtok{text: ")", kind: token.RPAREN, val: ")"})
}

var c18Seps = []string{"", "", "", " ", " ", "  ", "\t", "\n", "\r\n", " \n\t ", "/**/", "/* c, ( ' */", " -- c\n", "--\n", "      ", "/*x*/ /*y*/"}

func c18Wordy(b byte) bool {
	return b == '_' || (b >= '0' && b <= '9') || (b >= 'a' && b <= 'z') || (b >= 'A' && b <= 'Z') || b >= 0x80
}

// c18Sep picks a separator between two adjacent source tokens; style 0 = minimal, 1 = canonical-ish single spaces, 2 = random.
func c18Sep(r *Rng, style int, left, right string) string {
	need := c18Wordy(left[len(left)-1]) && c18Wordy(right[0])
	switch style {
	case 0:
		if need {
			return " "
		}
		return ""
	case 1:
		return " "
	}
	for {
		s := pick(r, c18Seps)
		if s != "" || !need {
			return s
		}
	}
}

func c18Join(r *Rng, style int, ts []rtok) string {
	var sb strings.Builder
	for i, t := range ts {
		sb.WriteString(t.text)
		if i+1 < len(ts) && !t.glue {
			sb.WriteString(c18Sep(r, style, t.text, ts[i+1].text))
		}
	}
	return sb.String()
}

var c18Suffixes = []string{"", "", "", " FROM t", ";", " AS c", " AS c FROM t"}

// c18Statement renders one of the two cast positions around the type's source tokens.
func c18Statement(r *Rng, style int, fn bool, ts []rtok) string {
	var all []rtok
	w := func(s string) rtok { return rtok{text: s} }
	if fn {
		all = append(all, w("SELECT"), w(pick(r, []string{"CAST", "cast", "Cast"})), w("("), w("x"), w(pick(r, []string{"AS", "as"})))
		all = append(all, ts...)
		all = append(all, w(")"))
	} else {
		all = append(all, w("SELECT"), rtok{text: "x", glue: true}, w("::"))
		all = append(all, ts...)
	}
	return c18Join(r, style, all) + pick(r, c18Suffixes)
}

// ---------------------------------------------------------------- the real side

// c18Real runs the real parser and EXPLAIN; it returns the text after "Literal " on the last Literal line, or "" and why.
func c18Real(input []byte, ntok int) (shown string, fail string) {
	obs := safeParse(input, int64(100000*(ntok+32)))
	switch {
	case obs.Panicked:
		return "", "panic: " + obs.PanicVal + " @" + obs.Site
	case obs.Budget:
		return "", "step budget exceeded @" + obs.Site
	case obs.Err != nil:
		return "", "error"
	case len(obs.Stmts) != 1:
		return "", fmt.Sprintf("%d statements", len(obs.Stmts))
	}
	ex := safeExplain(obs.Stmts[0])
	if ex.Panicked {
		return "", "explain panic: " + ex.PanicVal + " @" + ex.Site
	}
	lines := strings.Split(strings.TrimRight(ex.Out, "\n"), "\n")
	for i := len(lines) - 1; i >= 0; i-- {
		if s := strings.TrimLeft(lines[i], " "); strings.HasPrefix(s, "Literal ") {
			return s[len("Literal "):], ""
		}
	}
	return "", "no Literal line"
}

// c18Blame names the constructor of the deepest subterm whose shown canonical text does not occur in the shown output.
func c18Blame(t *Ty, shown string) string {
	for i := range t.Args {
		if c := t.Args[i].T; c != nil && !strings.Contains(shown, c18Esc(c18Esc(c18Canon(c)))) {
			return c18Blame(c, shown)
		}
	}
	return tyCtorName[t.Ctor]
}

func c18TokLine(items []rtok) string {
	var sb strings.Builder
	for i, it := range items {
		if i > 0 {
			sb.WriteByte(';')
		}
		fmt.Fprintf(&sb, "%d,%s", int(it.kind), hexOrDash([]byte(it.val)))
	}
	if len(items) == 0 {
		return "-"
	}
	return sb.String()
}

// c18Lex runs the real lexer on a type text and returns its significant tokens.
func c18Lex(text string) ([]rtok, bool) {
	items, pv := safeTokenize([]byte(text))
	if pv != "" {
		return nil, false
	}
	var out []rtok
	for _, it := range items {
		if it.Token == token.WHITESPACE || it.Token == token.LINE_COMMENT || it.Token == token.EOF {
			continue
		}
		out = append(out, rtok{kind: it.Token, val: it.Value})
	}
	return out, true
}

func c18SameToks(a, b []rtok) bool {
	if len(a) != len(b) {
		return false
	}
	for i := range a {
		if a[i].kind != b[i].kind || a[i].val != b[i].val {
			return false
		}
	}
	return true
}

// ---------------------------------------------------------------- the run

func runC18(w *W) {
	n := w.pickN(20000, 500000)
	var matrix [nTyCtor][nTyCtor]int
	useModel := modelAvailable()
	nPairs := len(tyParents) * int(nTyCtor)
	pairRounds := 6
	for i := 0; i < n; i++ {
		idx, mine := w.Case()
		r := NewRng(w.Seed, uint64(idx), 18)
		g := &tyGen{r: r, matrix: &matrix}
		var t *Ty
		desc := "random"
		if i < nPairs*pairRounds {
			// exhaustive coverage of every parent/child constructor pair, at nesting depth 0..2 below the root
			p := tyParents[(i%nPairs)/int(nTyCtor)]
			c := tyCtor((i % nPairs) % int(nTyCtor))
			d := 1 + r.Intn(3)
			t = g.buildWith(p, d, posTop, c, d-1)
			for k := r.Intn(3); k > 0 && d < 4; k-- { // wrap, staying within depth 4
				t = &Ty{Ctor: kArray, Words: []string{"Array"}, Args: []TyArg{{Kind: aTy, T: t}}}
				matrix[kArray][t.Args[0].T.Ctor]++
				d++
			}
			desc = "pair:" + tyCtorName[p] + ">" + tyCtorName[c]
		} else {
			t = g.gen(r.Intn(5), posTop)
		}
		hz := hzNone
		var knownText func() string
		if i >= nPairs*pairRounds && r.Chance(1, 32) {
			hz, knownText = g.applyHazard(t)
			if hz != hzNone {
				desc = "known-shape:" + hz
			}
		}
		if !mine {
			continue
		}
		known := ""
		if knownText != nil {
			known = knownText()
		}
		c18Case(w, r, idx, t, hz, known, desc, useModel)
	}
	// many types in ONE Parse call, wide types and deep types: what a type denotes must not depend on how many types were
	// parsed before it by the same parser (counters, depth guards, pools) nor on its width or depth
	{
		leafs := []string{"Int32", "String", "Nullable(UInt8)", "Array(String)", "DateTime('UTC')", "Decimal(10, 2)", "Tuple(a Int8, b String)", "Map(String, UInt8)", "Enum8('a' = 1)", "LowCardinality(String)", "FixedString(3)", "Float64", "Date"}
		bigCase := func(desc, script string, parts []string) {
			idx, mine := w.Case()
			if !mine {
				return
			}
			in := []byte(script)
			w.Begin(idx, in, desc)
			w.Eval(in, true)
			w.Count(desc)
			obs := safeParse(in, 0)
			if obs.Panicked || obs.Err != nil || len(obs.Stmts) != len(parts) {
				w.Report(Finding{Kind: "type", Key: "type@" + desc + "@rejected", Input: fmt.Sprintf("%q", trunc(script, 300)), InputHex: hexs(in),
					Detail: fmt.Sprintf("every statement parses alone; together (%d statements, %d bytes): err=%v panicked=%v got %d statements", len(parts), len(in), trunc(fmt.Sprint(obs.Err), 300), obs.Panicked, len(obs.Stmts))})
				return
			}
			for i := 0; i < len(parts); i += 1 + len(parts)/40 {
				alone := safeParse([]byte(parts[i]), 0)
				if alone.Err != nil || alone.Panicked || len(alone.Stmts) != 1 {
					continue
				}
				if a, b := safeExplain(alone.Stmts[0]).Out, safeExplain(obs.Stmts[i]).Out; a != b {
					w.Report(Finding{Kind: "type", Key: "type@" + desc + "@differs", Input: fmt.Sprintf("%q", trunc(script, 300)), InputHex: hexs(in),
						Detail: fmt.Sprintf("statement %d (%s) explains differently inside the script: %s", i, parts[i], firstLineDiff(a, b))})
					return
				}
			}
		}
		for _, fn := range []bool{true, false} {
			var parts []string
			for i := 0; i < 1150; i++ {
				t := leafs[i%len(leafs)]
				if fn {
					parts = append(parts, "SELECT CAST(x AS "+t+")")
				} else {
					parts = append(parts, "SELECT x::"+t+", y")
				}
			}
			bigCase(fmt.Sprintf("script-of-casts:%v", fn), strings.Join(parts, ";\n"), parts)
		}
		for _, width := range []int{300, 1001, 1200} {
			elems := make([]string, width)
			for i := range elems {
				elems[i] = leafs[i%len(leafs)]
			}
			one := "SELECT CAST(x AS Tuple(" + strings.Join(elems, ", ") + ")), y::Tuple(" + strings.Join(elems, ", ") + ")"
			want := "Tuple(" + strings.Join(elems, ", ") + ")"
			idx, mine := w.Case()
			if mine {
				in := []byte(one)
				w.Begin(idx, in, "wide-tuple")
				w.Eval(in, true)
				obs := safeParse(in, 0)
				out := ""
				if !obs.Panicked && obs.Err == nil && len(obs.Stmts) == 1 {
					out = safeExplain(obs.Stmts[0]).Out
				}
				// both positions must show the canonical text (quotes of string arguments escaped as elsewhere)
				wantShown := strings.ReplaceAll(want, "'", "\\\\\\'")
				if strings.Count(out, "Literal \\'"+wantShown+"\\'") != 2 {
					w.Report(Finding{Kind: "type", Key: "type@wide-tuple", Input: fmt.Sprintf("%q", trunc(one, 200)), InputHex: hexs(in),
						Detail: fmt.Sprintf("a Tuple of %d elements in both cast positions: err=%v; the canonical text does not appear twice in\n%s", width, trunc(fmt.Sprint(obs.Err), 300), trunc(out, 600))})
				}
			}
		}
		for _, depth := range []int{100, 400, 900} {
			t := "Int8"
			for i := 0; i < depth; i++ {
				t = []string{"Array(", "Nullable(", "Tuple("}[i%3] + t + ")"
			}
			parts := []string{"SELECT CAST(x AS " + t + ")", "SELECT x::" + t, "SELECT CAST(x AS Int8)"}
			bigCase(fmt.Sprintf("deep-type:%d", depth), strings.Join(parts, "; "), parts)
		}
	}

	// the measured parent/child matrix of the whole run (every shard generates every case, so this is the same in all shards)
	mx := map[string]map[string]int{}
	missing := []string{}
	for _, p := range tyParents {
		row := map[string]int{}
		for c := tyCtor(0); c < nTyCtor; c++ {
			row[tyCtorName[c]] = matrix[p][c]
			if matrix[p][c] == 0 {
				missing = append(missing, tyCtorName[p]+">"+tyCtorName[c])
			}
		}
		mx[tyCtorName[p]] = row
	}
	sort.Strings(missing)
	w.stats.Extra = map[string]any{"types": n, "pair_matrix_parent_child": mx, "pairs_total": nPairs, "pairs_covered": nPairs - len(missing), "pairs_missing": missing,
		"model_correspondence": useModel}
}

func modelAvailable() bool {
	return fileExists(modelPath())
}

func c18Depth(t *Ty) int {
	d := 0
	for i := range t.Args {
		if c := t.Args[i].T; c != nil {
			if k := 1 + c18Depth(c); k > d {
				d = k
			}
		}
	}
	return d
}

// c18Case evaluates one type. hz names the known-finding shape t was mutated into (or hzNone); a failure gets the
// known key only if it is exactly the known failure (hzTupleName: the real code shows knownText, the type with the
// element dropped; hzElemName: a parse error); any other failure of such a type gets an ordinary key.
func c18Case(w *W, r *Rng, idx int, t *Ty, hz string, knownText string, desc string, useModel bool) {
	canon := c18Canon(t)
	want := c18Show(canon)
	w.Count("ctor/" + tyCtorName[t.Ctor])
	w.Count(fmt.Sprintf("depth/%d", c18Depth(t)))
	if hz != hzNone {
		w.Count("known-shape/" + hz)
	}
	// key of a failure: fail = why the real code produced nothing ("" if it did), got = the decoded type text it showed
	key := func(k string, fail string, got string) string {
		switch {
		case hz == hzElemName && fail == "error":
			return "type@" + hz
		case hz == hzTupleName && fail == "" && got == knownText:
			return "type@" + hz
		case hz != hzNone:
			return "type@" + k + "(in-known-shape:" + hz + ")"
		}
		return "type@" + k
	}
	var first []rtok // the lexer's tokens of the first rendering
	var shownFn, shownOp string
	haveFn, haveOp := false, false
	for style := 0; style < 4; style++ {
		var ts []rtok
		t.rtoks(r, &ts)
		st := style
		if st == 3 {
			st = 2
		}
		text := c18Join(r, st, ts)
		// the separator spelling must not change the token sequence (separators live at the lexer level)
		lexed, ok := c18Lex(text)
		if !ok || !c18SameToks(lexed, ts) {
			w.Report(Finding{Kind: "type", Key: "type@lexer-tokens", Input: fmt.Sprintf("%q", text), InputHex: hexs([]byte(text)),
				Detail: fmt.Sprintf("the real lexer's tokens of this rendering are not the type's tokens\nexpected %s\ngot      %s", c18TokLine(ts), c18TokLine(lexed))})
			continue
		}
		if first == nil {
			first = lexed
		}
		for _, fn := range []bool{true, false} {
			in := []byte(c18Statement(r, st, fn, ts))
			w.Begin(idx, in, desc)
			shown, fail := c18Real(in, len(ts)+8)
			w.Eval(in, len(t.Args) > 0)
			posName := "x::T"
			if fn {
				posName = "CAST(x AS T)"
			}
			if fail != "" {
				w.Count("real/" + strings.SplitN(fail, ":", 2)[0])
				w.Report(Finding{Kind: "type", Key: key(c18Blame(t, ""), fail, ""), Input: fmt.Sprintf("%q", in), InputHex: hexs(in),
					Detail: fmt.Sprintf("%s: %s; canonical type text %q", posName, fail, canon)})
				shown = "<" + fail + ">"
			} else {
				got, why := c18Unshow(shown)
				switch {
				case why != "":
					w.Count("real/undecodable")
					w.Report(Finding{Kind: "type", Key: key(c18Blame(t, shown), "", "\x00undecodable"), Input: fmt.Sprintf("%q", in), InputHex: hexs(in),
						Detail: fmt.Sprintf("%s: the shown literal is not a well-formed string literal (%s)\nshown    Literal %s\nexpected Literal %s\ncanonical type text %q", posName, why, shown, want, canon)})
				case got != canon:
					w.Count("real/differs")
					w.Report(Finding{Kind: "type", Key: key(c18Blame(t, shown), "", got), Input: fmt.Sprintf("%q", in), InputHex: hexs(in),
						Detail: fmt.Sprintf("%s shows type text %q, canonical is %q\nshown    Literal %s\nexpected Literal %s", posName, got, canon, shown, want)})
				default:
					w.Count("real/ok")
				}
			}
			if fn && !haveFn {
				shownFn, haveFn = shown, true
			}
			if !fn && !haveOp {
				shownOp, haveOp = shown, true
			}
			if fn && shown != shownFn || !fn && shown != shownOp {
				w.Report(Finding{Kind: "type", Key: "type@separators-matter", Input: fmt.Sprintf("%q", in), InputHex: hexs(in),
					Detail: fmt.Sprintf("%s: another separator spelling of the same tokens showed %q, this one %q", posName, map[bool]string{true: shownFn, false: shownOp}[fn], shown)})
			}
		}
	}
	if haveFn && haveOp && shownFn != shownOp {
		w.Report(Finding{Kind: "type", Key: "type@positions-differ", Input: fmt.Sprintf("%q", canon), InputHex: hexs([]byte(canon)),
			Detail: fmt.Sprintf("CAST(x AS T) shows %q but x::T shows %q", shownFn, shownOp)})
	}
	if len(w.stats.Samples) < 6 && idx%997 == 0 {
		w.Sample(fmt.Sprintf("%s -> Literal %s", canon, shownFn))
	}
	// ---- correspondence of the Lean specification (Ty, tokens, canonTy, WfTy, GrammarTy) with this file's algebra:
	// same canonical text, same tokens as the real lexer produced, every generated type is in the grammar, and it is
	// well-formed (the domain of the theorems) exactly when it is not one of the known-finding shapes
	if useModel && first != nil && !t.hasSpecialName() {
		var sb strings.Builder
		c18Encode(t, &sb)
		wf := "1"
		if hz != hzNone {
			wf = "0"
		}
		exp := wf + " 1 " + hexOrDash([]byte(canon)) + " " + c18TokLine(first)
		if ans := w.Model().Ask("c18ty " + sb.String()); ans != exp {
			w.stats.Disagree++
			w.Report(Finding{Kind: "model", Key: "model@c18-spec", Input: fmt.Sprintf("%q", canon), InputHex: hexs([]byte(canon)), Disagreement: true,
				Obligation: "C18.spec-correspondence(tokens/canonTy/WfTy/GrammarTy)",
				Detail:     fmt.Sprintf("encoded %s\nlean %s\ngo   %s", sb.String(), ans, exp)})
		} else {
			w.Count("spec/agree")
		}
	}
	// ---- correspondence with the Lean model on the same tokens
	if useModel && first != nil && !t.hasSpecialName() {
		ans := w.Model().Ask("c18 " + c18TokLine(first))
		exp := c18ModelForm(shownFn) + " " + c18ModelForm(shownOp)
		if ans != exp {
			w.stats.Disagree++
			w.Report(Finding{Kind: "model", Key: "model@c18", Input: fmt.Sprintf("%q", canon), InputHex: hexs([]byte(canon)), Disagreement: true,
				Obligation: "C18.correspondence(parseDataType/FormatDataType/cast entry points)",
				Detail:     fmt.Sprintf("tokens %s\nmodel %s\nreal  %s", c18TokLine(first), ans, exp)})
		} else {
			w.Count("model/agree")
		}
	}
}

// c18Encode is the prefix encoding of a type for the driver op `c18ty` (see DC/Model/Types.lean).
func c18Encode(t *Ty, sb *strings.Builder) {
	fmt.Fprintf(sb, "t,%d", len(t.Words))
	for _, w := range t.Words {
		sb.WriteString("," + hexOrDash([]byte(w)))
	}
	fmt.Fprintf(sb, ",%d", len(t.Args))
	neg := func(b bool) string {
		if b {
			return "1"
		}
		return "0"
	}
	for _, a := range t.Args {
		switch a.Kind {
		case aTy:
			sb.WriteString(",y,")
			c18Encode(a.T, sb)
		case aNamed:
			sb.WriteString(",n," + hexOrDash([]byte(a.Name)) + ",")
			c18Encode(a.T, sb)
		case aNum:
			fmt.Fprintf(sb, ",u,%s,%d", neg(a.Neg), a.U)
		case aStr:
			sb.WriteString(",s," + hexOrDash([]byte(a.S)))
		case aEnum:
			fmt.Fprintf(sb, ",e,%s,%s,%d", hexOrDash([]byte(a.S)), neg(a.Neg), a.U)
		}
	}
}

// c18ModelForm is how the model driver prints an outcome: the shown literal in hex, or `error`.
func c18ModelForm(shown string) string {
	if strings.HasPrefix(shown, "<") {
		if shown == "<error>" {
			return "error"
		}
		return "real:" + shown
	}
	return hexOrDash([]byte("Literal " + shown))
}

func fileExists(p string) bool {
	st, err := os.Stat(p)
	return err == nil && !st.IsDir()
}
