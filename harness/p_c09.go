package main

// C09 — literals. Three independent descriptions of the `Literal` line of parser.Explain(`SELECT <literal>`):
//   (impl)   the real code: safeParse + safeExplain;
//   (oracle) the specification DC/Spec/LitSpec.lean re-implemented here (c09Canon*, c09Quote, c09FloatStyle);
//   (model)  the Lean model DC/Model/{Number,StrLit}.lean through the dcmodel driver (ops c09num, c09str, c09float, c09nest, c09dec).
// impl≠oracle on an in-domain case is a C09 violation; model≠impl where impl=oracle (or outside the oracle's domain) is a
// correspondence disagreement. The oracle is calibrated against the ClickHouse-generated goldens first (phase 0).
//
// Trusted, not modelled: strconv's decimal→float64 conversion and shortest-digit generation. The model receives, for a
// NUMBER token, the shortest decimal of the float64 that strconv.ParseFloat / big.Float.Float64 / float64(uint64) yields
// ("conv"), and mirrors everything before and after that step.

import (
	"encoding/hex"
	"fmt"
	"math"
	"math/big"
	"sort"
	"strconv"
	"strings"
	"unicode/utf8"

	"github.com/sqlc-dev/doubleclick/token"
)

func init() { props["C09"] = runC09 }

// ---------------------------------------------------------------- the specification, in Go (mirror of DC/Spec/LitSpec.lean)

var c09Two63 = new(big.Int).Lsh(big.NewInt(1), 63)
var c09Two64 = new(big.Int).Lsh(big.NewInt(1), 64)

func c09CanonUInt(n *big.Int) string { return "UInt64_" + n.String() }
func c09CanonNeg(n *big.Int) string  { return "Int64_-" + n.String() }

// c09ChEscape is ClickHouse's writeAnyEscapedString<'\''>: the one escaping function that EXPLAIN applies twice
// (once when the Field is quoted, once when the line is written as a TSV cell).
func c09ChEscape(b []byte) []byte {
	var o []byte
	for _, c := range b {
		switch c {
		case '\b':
			o = append(o, '\\', 'b')
		case '\f':
			o = append(o, '\\', 'f')
		case '\n':
			o = append(o, '\\', 'n')
		case '\r':
			o = append(o, '\\', 'r')
		case '\t':
			o = append(o, '\\', 't')
		case 0:
			o = append(o, '\\', '0')
		case '\\':
			o = append(o, '\\', '\\')
		case '\'':
			o = append(o, '\\', '\'')
		default:
			o = append(o, c)
		}
	}
	return o
}

// c09CanonStr: the value is quoted with escaping, and the resulting text is escaped once more.
func c09CanonStr(v []byte) string {
	q := append([]byte{'\''}, c09ChEscape(v)...)
	q = append(q, '\'')
	return string(c09ChEscape(q))
}

// c09Utf8Len is the length (2..4) of a well-formed multi-byte UTF-8 sequence at the head of b (Unicode Table 3-7), else 0.
func c09Utf8Len(b []byte) int {
	in := func(x byte, lo, hi byte) bool { return lo <= x && x <= hi }
	cont := func(i int) bool { return i < len(b) && in(b[i], 0x80, 0xBF) }
	if len(b) < 2 {
		return 0
	}
	b0, b1 := b[0], b[1]
	switch {
	case in(b0, 0xC2, 0xDF):
		if cont(1) {
			return 2
		}
	case b0 == 0xE0:
		if in(b1, 0xA0, 0xBF) && cont(2) {
			return 3
		}
	case in(b0, 0xE1, 0xEC) || in(b0, 0xEE, 0xEF):
		if cont(1) && cont(2) {
			return 3
		}
	case b0 == 0xED:
		if in(b1, 0x80, 0x9F) && cont(2) {
			return 3
		}
	case b0 == 0xF0:
		if in(b1, 0x90, 0xBF) && cont(2) && cont(3) {
			return 4
		}
	case in(b0, 0xF1, 0xF3):
		if cont(1) && cont(2) && cont(3) {
			return 4
		}
	case b0 == 0xF4:
		if in(b1, 0x80, 0x8F) && cont(2) && cont(3) {
			return 4
		}
	}
	return 0
}

// c09Quote is the SQL spelling (between the quotes) of an arbitrary byte string: printable ASCII and well-formed
// multi-byte UTF-8 raw, ' and \ backslash-escaped, everything else (control bytes, DEL, ill-formed UTF-8) as \xHH.
func c09Quote(v []byte) []byte {
	const hexd = "0123456789abcdef"
	var o []byte
	for i := 0; i < len(v); {
		c := v[i]
		switch {
		case c == '\'':
			o = append(o, '\\', '\'')
			i++
		case c == '\\':
			o = append(o, '\\', '\\')
			i++
		case c >= 0x20 && c < 0x7F:
			o = append(o, c)
			i++
		default:
			if n := c09Utf8Len(v[i:]); n > 0 {
				o = append(o, v[i:i+n]...)
				i += n
			} else {
				o = append(o, '\\', 'x', hexd[c>>4], hexd[c&15])
				i++
			}
		}
	}
	return o
}

// c09FloatStyle: digits d1…dk (d1≠0 unless the value is zero: "0", exp 0) and exp10 with |x| = d1.d2…dk × 10^exp10.
// Fixed notation for -6 ≤ exp10 < 21, otherwise d1[.d2…dk]e[-]N without '+' and without leading zeros.
func c09FloatStyle(neg bool, digits string, exp10 int) string {
	s := ""
	if neg {
		s = "-"
	}
	if exp10 >= -6 && exp10 < 21 {
		if exp10 < 0 {
			return s + "0." + strings.Repeat("0", -exp10-1) + digits
		}
		if len(digits) <= exp10+1 {
			return s + digits + strings.Repeat("0", exp10+1-len(digits))
		}
		return s + digits[:exp10+1] + "." + digits[exp10+1:]
	}
	s += digits[:1]
	if len(digits) > 1 {
		s += "." + digits[1:]
	}
	return s + "e" + strconv.Itoa(exp10)
}

// c09Shortest is the trusted step: the shortest decimal that round-trips x, as (neg, digits, exp10).
func c09Shortest(x float64) (neg bool, digits string, exp10 int) {
	s := strconv.FormatFloat(x, 'e', -1, 64)
	if s[0] == '-' {
		neg = true
		s = s[1:]
	}
	i := strings.IndexByte(s, 'e')
	exp10, _ = strconv.Atoi(s[i+1:])
	digits = strings.Replace(s[:i], ".", "", 1)
	return
}

func c09IsDigits(s string) bool {
	if s == "" {
		return false
	}
	for i := 0; i < len(s); i++ {
		if s[i] < '0' || s[i] > '9' {
			return false
		}
	}
	return true
}

// c09NumOracle: expected payload for a numeric literal spelled `src` (no sign), optionally negated. ok=false: outside the oracle's domain.
func c09NumOracle(src string, neg bool) (string, bool) {
	plain := strings.ReplaceAll(src, "_", "")
	if c09IsDigits(plain) && c09UnderscoresBetweenDigits(src) {
		n, _ := new(big.Int).SetString(plain, 10)
		return c09IntByValue(n, neg, plain)
	}
	low := strings.ToLower(src)
	if strings.HasPrefix(low, "0x") || strings.HasPrefix(low, "0b") {
		base := 16
		if low[1] == 'b' {
			base = 2
		}
		n, ok := new(big.Int).SetString(low[2:], base)
		if !ok {
			return "", false // hex floats, separators: no golden, not in the domain
		}
		if n.Cmp(c09Two64) >= 0 && base == 2 {
			return "", false // binary integers beyond UInt64: no golden establishes ClickHouse's reading, not in the domain
		}
		if n.Cmp(c09Two64) >= 0 {
			// "anything larger … as Float64_": by value, i.e. the double nearest to the integer, in the shortest digits
			x, _ := new(big.Float).SetInt(n).Float64()
			if math.IsInf(x, 0) {
				return "", false
			}
			_, d, e := c09Shortest(x)
			return "Float64_" + c09FloatStyle(neg, d, e), true
		}
		return c09IntByValue(n, neg, "")
	}
	if strings.ContainsAny(src, "_xXoObBpP") {
		return "", false
	}
	// decimal / exponent literal
	if !c09IsDecimalFloatSyntax(src) {
		return "", false
	}
	x, err := strconv.ParseFloat(src, 64)
	if err != nil || math.IsInf(x, 0) {
		return "", false
	}
	fneg, d, e := c09Shortest(x)
	return "Float64_" + c09FloatStyle(fneg != neg, d, e), true
}

func c09UnderscoresBetweenDigits(s string) bool {
	for i := 0; i < len(s); i++ {
		if s[i] == '_' && (i == 0 || i+1 >= len(s) || s[i-1] == '_' || s[i+1] == '_') {
			return false
		}
	}
	return true
}

// digits [. digits] [e[+-]digits] | . digits [e…]  (at least one digit in the mantissa, at least one in the exponent)
func c09IsDecimalFloatSyntax(s string) bool {
	i, nd := 0, 0
	for i < len(s) && s[i] >= '0' && s[i] <= '9' {
		i++
		nd++
	}
	if i < len(s) && s[i] == '.' {
		i++
		nf := 0
		for i < len(s) && s[i] >= '0' && s[i] <= '9' {
			i++
			nf++
		}
		if nf == 0 && i < len(s) {
			return false // `1.e3`: a trailing dot followed by an exponent is outside the domain (no golden; the real lexer reads `1` `.e3`)
		}
		nd += nf
	}
	if nd == 0 {
		return false
	}
	if i < len(s) && (s[i] == 'e' || s[i] == 'E') {
		i++
		if i < len(s) && (s[i] == '+' || s[i] == '-') {
			i++
		}
		ne := 0
		for i < len(s) && s[i] >= '0' && s[i] <= '9' {
			i++
			ne++
		}
		if ne == 0 {
			return false
		}
	}
	return i == len(s)
}

func c09IntByValue(n *big.Int, neg bool, decText string) (string, bool) {
	if !neg {
		if n.Cmp(c09Two64) < 0 {
			return c09CanonUInt(n), true
		}
	} else {
		if n.Sign() == 0 {
			return "UInt64_0", true
		}
		if n.Cmp(c09Two63) <= 0 {
			return c09CanonNeg(n), true
		}
	}
	// anything larger: Float64 of the nearest double (trusted conversion)
	x, err := strconv.ParseFloat(n.String(), 64)
	if err != nil || math.IsInf(x, 0) {
		return "", false
	}
	_, d, e := c09Shortest(x)
	return "Float64_" + c09FloatStyle(neg, d, e), true
}

// c09SpecDecode: ClickHouse's reading of the text between the quotes (ReadHelpers: parseComplexEscapeSequence,
// SQL-style '' doubling). Used only to calibrate c09CanonStr on the goldens. feats lists the escape forms met.
func c09SpecDecode(raw []byte) (v []byte, feats []string, ok bool) {
	for i := 0; i < len(raw); {
		c := raw[i]
		if c == '\'' {
			if i+1 < len(raw) && raw[i+1] == '\'' {
				v = append(v, '\'')
				feats = append(feats, "''")
				i += 2
				continue
			}
			return nil, nil, false
		}
		if c != '\\' {
			switch {
			case c < 0x20 || c == 0x7F:
				feats = append(feats, fmt.Sprintf("raw-ctl-%02x", c))
			case c >= 0x80:
				if n := c09Utf8Len(raw[i:]); n > 0 {
					feats = append(feats, "raw-utf8")
					v = append(v, raw[i:i+n]...)
					i += n
					continue
				}
				feats = append(feats, "raw-invalid-utf8")
			}
			v = append(v, c)
			i++
			continue
		}
		if i+1 >= len(raw) {
			return nil, nil, false
		}
		e := raw[i+1]
		switch e {
		case 'x':
			if i+3 >= len(raw) || !c09IsHex(raw[i+2]) || !c09IsHex(raw[i+3]) {
				return nil, nil, false
			}
			b, _ := hex.DecodeString(string(raw[i+2 : i+4]))
			v = append(v, b[0])
			feats = append(feats, `\x`)
			i += 4
			continue
		case 'N':
			feats = append(feats, `\N`)
		case 'b':
			v = append(v, '\b')
		case 'f':
			v = append(v, '\f')
		case 'n':
			v = append(v, '\n')
		case 'r':
			v = append(v, '\r')
		case 't':
			v = append(v, '\t')
		case '0':
			v = append(v, 0)
		case 'a':
			v = append(v, 7)
		case 'v':
			v = append(v, 11)
		case 'e':
			v = append(v, 27)
		case '\\', '\'', '"', '`', '/', '=':
			v = append(v, e)
		default:
			v = append(v, '\\', e)
		}
		if e >= 0x80 {
			feats = append(feats, `\non-ascii`)
		} else if (e >= 'a' && e <= 'z') || (e >= 'A' && e <= 'Z') || (e >= '0' && e <= '9') {
			feats = append(feats, `\`+string(e))
		} else if strings.IndexByte("\\'\"`/=", e) >= 0 {
			feats = append(feats, `\`+string(e))
		} else {
			feats = append(feats, `\other`)
		}
		i += 2
	}
	return v, feats, true
}

func c09IsHex(c byte) bool {
	return (c >= '0' && c <= '9') || (c >= 'a' && c <= 'f') || (c >= 'A' && c <= 'F')
}

// ---------------------------------------------------------------- phase 0: calibration of the oracle on the goldens

type c09Calib struct {
	Agree, Disagree, Absent int
	Goldens         []string
	Bad             []string
}

func c09GoldenHas(golden string, payload string) bool {
	for off := 0; ; {
		i := strings.Index(golden[off:], payload)
		if i < 0 {
			return false
		}
		i += off
		end := i + len(payload)
		okL := i > 0 && strings.IndexByte(" [(", golden[i-1]) >= 0
		okR := end == len(golden) || strings.IndexByte("\n,]) ", golden[end]) >= 0
		if okL && okR {
			return true
		}
		off = i + 1
	}
}

// c09Calibrate checks one corpus statement's literals against its golden; records per-feature agreement.
func c09Calibrate(st corpusStmt, acc map[string]*c09Calib) {
	spans, ok := tokenSpans(st.Text)
	if !ok {
		return
	}
	// near: the golden shows something that looks like this literal (so a mismatch is about rendering, not about the
	// literal sitting in a position that EXPLAIN does not print as a Literal: INSERT data, SHOW … LIKE, settings, …)
	note := func(feat string, agree bool, near bool, what string) {
		c := acc[feat]
		if c == nil {
			c = &c09Calib{}
			acc[feat] = c
		}
		name := fmt.Sprintf("%s#%d", st.Test, st.Index)
		if !agree && !near {
			c.Absent++
			return
		}
		if agree {
			c.Agree++
			if len(c.Goldens) < 6 && (len(c.Goldens) == 0 || c.Goldens[len(c.Goldens)-1] != name) {
				c.Goldens = append(c.Goldens, name)
			}
		} else {
			c.Disagree++
			if len(c.Bad) < 12 {
				c.Bad = append(c.Bad, name+": "+what)
			}
		}
	}
	for i, sp := range spans {
		src := st.Text[sp.Start:sp.End]
		switch sp.Tok {
		case token.STRING:
			if len(src) < 2 || src[0] != '\'' || src[len(src)-1] != '\'' {
				continue
			}
			v, feats, ok := c09SpecDecode([]byte(src[1 : len(src)-1]))
			if !ok {
				continue
			}
			agree := c09GoldenHas(st.Golden, c09CanonStr(v))
			near := false
			if !agree {
				near = c09NearStr(st.Golden, v)
			}
			seen := map[string]bool{}
			for _, f := range feats {
				if !seen[f] {
					seen[f] = true
					note("str:"+f, agree, near, fmt.Sprintf("%s => want %s", trunc(src, 80), trunc(c09CanonStr(v), 80)))
				}
			}
			if len(feats) == 0 {
				note("str:plain", agree, near, trunc(src, 60))
			}
		case token.NUMBER:
			neg := i > 0 && spans[i-1].Tok == token.MINUS && spans[i-1].End == sp.Start &&
				(i == 1 || !c09OperandEnd(spans[i-2].Tok))
			want, ok := c09NumOracle(src, neg)
			if !ok {
				continue
			}
			feat := c09NumFeature(src, neg, want)
			agree := c09GoldenHas(st.Golden, want)
			near := false
			if !agree {
				// the sign heuristic above is crude (`a -1`, `BY -1`): a literal whose rendering with the other sign is in the golden says nothing
				other, ok2 := c09NumOracle(src, !neg)
				near = c09NearNum(st.Golden, src) && !(ok2 && c09GoldenHas(st.Golden, other))
			}
			note(feat, agree, near, fmt.Sprintf("%s neg=%v => want %s", src, neg, want))
		}
	}
}

// c09NearStr: some `Literal` line of the golden contains the longest alphanumeric run (≥ 4 bytes) of the value.
func c09NearStr(golden string, v []byte) bool {
	best, cur := "", []byte{}
	for _, c := range append(append([]byte{}, v...), 0) {
		if (c >= 'a' && c <= 'z') || (c >= 'A' && c <= 'Z') || (c >= '0' && c <= '9') {
			cur = append(cur, c)
			continue
		}
		if len(cur) > len(best) {
			best = string(cur)
		}
		cur = cur[:0]
	}
	if len(best) < 4 {
		return false
	}
	for _, ln := range strings.Split(golden, "\n") {
		if strings.Contains(ln, "Literal ") && strings.Contains(ln, best) {
			return true
		}
	}
	return false
}

// c09NearNum: the golden has a numeric literal whose significant digits begin like the source's (≥ 4 significant digits).
func c09NearNum(golden string, src string) bool {
	sig := func(s string) string {
		var d []byte
		for i := 0; i < len(s); i++ {
			if s[i] == 'e' || s[i] == 'E' {
				break
			}
			if s[i] >= '0' && s[i] <= '9' {
				d = append(d, s[i])
			}
		}
		return strings.TrimLeft(string(d), "0")
	}
	low := strings.ToLower(src)
	if strings.HasPrefix(low, "0x") || strings.HasPrefix(low, "0b") {
		return false
	}
	want := sig(src)
	if len(want) < 4 {
		return false
	}
	if len(want) > 6 {
		want = want[:6]
	}
	for _, pre := range []string{"UInt64_", "Int64_-", "Float64_-", "Float64_"} {
		for off := 0; ; {
			i := strings.Index(golden[off:], pre)
			if i < 0 {
				break
			}
			i += off + len(pre)
			j := i
			for j < len(golden) && strings.IndexByte("\n,]) ", golden[j]) < 0 {
				j++
			}
			if strings.HasPrefix(sig(golden[i:j]), want) {
				return true
			}
			off = i
		}
	}
	return false
}

func c09NoisyFeature(k string) bool {
	switch strings.TrimPrefix(strings.TrimPrefix(k, "num:"), "neg-") {
	case "str:plain", "str:raw-utf8", "int<2^63", "int-zero", "int<2^63-leading-zero", "float-dec->fixed", "float-dec-trailing-dot->fixed",
		"float-dec-leading-dot->fixed", "float-e->fixed":
		return true
	}
	return false
}

func c09OperandEnd(t token.Token) bool {
	return t == token.NUMBER || t == token.STRING || t == token.IDENT || t == token.RPAREN || t == token.RBRACKET
}

func c09NumFeature(src string, neg bool, want string) string {
	low := strings.ToLower(src)
	sg := ""
	if neg {
		sg = "neg-"
	}
	switch {
	case strings.HasPrefix(low, "0x"):
		return "num:" + sg + "hex"
	case strings.HasPrefix(low, "0b"):
		return "num:" + sg + "bin"
	case strings.Contains(src, "_"):
		return "num:" + sg + "underscore"
	case c09IsDigits(src):
		n, _ := new(big.Int).SetString(src, 10)
		lead := ""
		if len(src) > 1 && src[0] == '0' {
			lead = "-leading-zero"
		}
		switch {
		case n.Sign() == 0:
			return "num:" + sg + "int-zero"
		case n.Cmp(c09Two63) < 0:
			return "num:" + sg + "int<2^63" + lead
		case n.Cmp(c09Two63) == 0:
			return "num:" + sg + "int=2^63"
		case n.Cmp(c09Two64) < 0:
			return "num:" + sg + "int<2^64"
		default:
			return "num:" + sg + "int>=2^64"
		}
	}
	style := "fixed"
	if strings.Contains(want, "e") {
		style = "exp"
	}
	form := "dec"
	if strings.ContainsAny(src, "eE") {
		form = "e"
	}
	if strings.HasPrefix(src, ".") {
		form += "-leading-dot"
	}
	if strings.HasSuffix(src, ".") {
		form += "-trailing-dot"
	}
	return "num:" + sg + "float-" + form + "->" + style
}

// ---------------------------------------------------------------- observation of the real code

// c09Impl parses `SELECT <lit>` and normalises the first select item: "lit <payload>", "fn <name> <payload of first Literal below>", or an error text.
func c09Impl(sql []byte) string {
	obs := safeParse(sql, 1<<22)
	if obs.Panicked {
		return "panic " + obs.PanicVal
	}
	if obs.Budget {
		return "budget"
	}
	if obs.Err != nil || len(obs.Stmts) != 1 {
		return "error " + errString(obs.Err)
	}
	ex := safeExplain(obs.Stmts[0])
	if ex.Panicked {
		return "explain-panic " + ex.PanicVal
	}
	return c09Normalise(ex.Out)
}

func c09Normalise(out string) string {
	lines := strings.Split(out, "\n")
	// SelectWithUnionQuery / ExpressionList / SelectQuery / ExpressionList (children 1) / <item at depth 4>
	if len(lines) < 5 || !strings.HasPrefix(lines[3], "   ExpressionList (children 1)") {
		return "shape " + trunc(out, 200)
	}
	item := lines[4]
	if !strings.HasPrefix(item, "    ") || strings.HasPrefix(item, "     ") {
		return "shape " + trunc(out, 200)
	}
	item = item[4:]
	if strings.HasPrefix(item, "Literal ") {
		if len(lines) > 6 || (len(lines) == 6 && lines[5] != "") {
			return "shape-extra " + trunc(out, 200)
		}
		return "lit " + item[len("Literal "):]
	}
	if strings.HasPrefix(item, "Function ") {
		name := strings.SplitN(item[len("Function "):], " ", 2)[0]
		if name != "negate" {
			return "fn " + name
		}
		for _, ln := range lines[5:] {
			t := strings.TrimLeft(ln, " ")
			if strings.HasPrefix(t, "Literal ") {
				return "fn " + name + " " + t[len("Literal "):]
			}
		}
		return "fn " + name
	}
	return "other " + item
}

// ---------------------------------------------------------------- cases

type c09Elem struct {
	Kind string // int | hex | float | string
	Src  []byte // spelling without sign (strings: with quotes)
	Neg  bool
	V    []byte // strings: the value
}

func (e c09Elem) sql() []byte {
	if e.Neg {
		return append([]byte{'-'}, e.Src...)
	}
	return e.Src
}

// c09Token: the NUMBER token text the real lexer produces for the spelling (the model starts from the token).
func c09Token(src []byte) (string, bool) {
	items, pv := safeTokenize(src)
	if pv != "" || len(items) < 1 || items[0].Token != token.NUMBER {
		return "", false
	}
	if len(items) > 2 || (len(items) == 2 && items[1].Token != token.EOF) {
		return "", false
	}
	return items[0].Value, true
}

// c09Conv is the trusted conversion handed to the model: the shortest decimal of the float64 that the standard library
// yields for the token (strconv.ParseFloat for decimal and hex-float text, big.Int→big.Float→Float64 for hex integers,
// which is also float64(uint64) for values below 2^64); "err" when it reports an error.
func c09Conv(tok string) string {
	low := strings.ToLower(tok)
	var x float64
	if strings.HasPrefix(low, "0x") && !strings.ContainsAny(low, "p.") || strings.HasPrefix(low, "0b") || strings.HasPrefix(low, "0o") {
		base := map[byte]int{'x': 16, 'b': 2, 'o': 8}[low[1]]
		n, ok := new(big.Int).SetString(strings.ReplaceAll(low[2:], "_", ""), base)
		if !ok {
			return "err"
		}
		x, _ = new(big.Float).SetInt(n).Float64()
	} else {
		f, err := strconv.ParseFloat(tok, 64)
		if err != nil {
			return "err"
		}
		x = f
	}
	if math.IsInf(x, 0) || math.IsNaN(x) {
		return "err"
	}
	neg, d, e := c09Shortest(x)
	return fmt.Sprintf("%d %s %d", b2i(neg), d, e)
}

func b2i(b bool) int {
	if b {
		return 1
	}
	return 0
}

func c09Hex(b []byte) string { return hexOrDash(b) }

// c09ElemOracle: expected payload of one element; ok=false outside the domain.
func c09ElemOracle(e c09Elem) (string, bool) {
	if e.Kind == "string" {
		return c09CanonStr(e.V), true
	}
	return c09NumOracle(string(e.Src), e.Neg)
}

// c09ModelElem: the request fragment describing an element to the model.
func c09ModelElem(e c09Elem) (string, bool) {
	if e.Kind == "string" {
		return "s:" + c09Hex(e.V) + ":" + strconv.Itoa(b2i(e.Neg)), true
	}
	tok, ok := c09Token(e.Src)
	if !ok {
		return "", false
	}
	return "n:" + c09Hex([]byte(tok)) + ":" + strconv.Itoa(b2i(e.Neg)) + ":" + strings.ReplaceAll(c09Conv(tok), " ", ","), true
}

func c09DecodeModel(ans string) string {
	p := strings.Split(ans, " ")
	switch {
	case len(p) == 2 && p[0] == "lit":
		if b, ok := unhex(p[1]); ok {
			return "lit " + string(b)
		}
	case len(p) == 2 && p[0] == "fn":
		return ans
	case len(p) == 3 && p[0] == "fn":
		if b, ok := unhex(p[2]); ok {
			return "fn " + p[1] + " " + string(b)
		}
	}
	return "model:" + ans
}

func c09Class(e c09Elem) string {
	switch {
	case e.Kind == "string":
		return "string"
	case e.Kind == "hex":
		return "hex"
	case e.Kind == "float":
		return "float"
	case e.Neg:
		return "neg"
	}
	return "int"
}

// c09Check runs one literal (single element, or an array/tuple of elements) through impl, oracle and model.
func c09Check(w *W, idx int, desc string, nest byte, elems []c09Elem) {
	var sql []byte
	sql = append(sql, "SELECT "...)
	class := "nested"
	var want string
	inDomain := true
	var req string
	modelOK := true
	if nest == 0 {
		e := elems[0]
		class = c09Class(e)
		sql = append(sql, e.sql()...)
		p, ok := c09ElemOracle(e)
		inDomain = ok
		want = "lit " + p
		if e.Kind == "string" && e.Neg {
			want = "fn negate " + p
		}
		if e.Kind == "string" {
			req = "c09str " + c09Hex(e.V) + " " + strconv.Itoa(b2i(e.Neg))
		} else if tok, ok := c09Token(e.Src); ok {
			req = "c09num " + c09Hex([]byte(tok)) + " " + strconv.Itoa(b2i(e.Neg)) + " " + c09Conv(tok)
		} else {
			modelOK = false
		}
	} else {
		open, close, name := "[", "]", "Array_["
		if nest == 't' {
			open, close, name = "(", ")", "Tuple_("
		}
		sql = append(sql, open...)
		var parts []string
		req = "c09nest " + string(nest)
		for i, e := range elems {
			if i > 0 {
				sql = append(sql, ", "...)
			}
			sql = append(sql, e.sql()...)
			p, ok := c09ElemOracle(e)
			if !ok || (e.Kind == "string" && e.Neg) {
				inDomain = false
			}
			parts = append(parts, p)
			m, ok := c09ModelElem(e)
			if !ok {
				modelOK = false
			}
			req += " " + m
		}
		sql = append(sql, close...)
		want = "lit " + name + strings.Join(parts, ", ") + close
	}
	w.Begin(idx, sql, desc)
	got := c09Impl(sql)
	w.Eval(sql, true)
	w.Count("class:" + class)
	if inDomain {
		w.Count("in-domain")
		if got != want {
			w.Count("violation")
			w.Report(Finding{Kind: "literal", Key: "literal@" + class, Input: string(sql), InputHex: hexs(sql),
				Detail: fmt.Sprintf("the real code prints %q, the specification requires %q", got, want)})
		}
	} else {
		w.Count("outside-oracle-domain")
	}
	// the same literal deep inside a long input: a comment pushes it so that one of its bytes meets the 4096- or 8192-byte
	// mark of the input (read-buffer boundaries); what it denotes and how it prints must not depend on where it stands
	if idx%5 == 0 {
		item := sql[len("SELECT "):]
		mark := 4096 << uint((idx/5)%2)
		k := (idx / 10) % (len(item) + 3)
		if pad := mark - k - len("SELECT /**/ "); pad > 0 {
			long := append([]byte("SELECT /*"+strings.Repeat("p", pad)+"*/ "), item...)
			w.Count("long-input-variants")
			if got2 := c09Impl(long); got2 != got {
				w.Count("violation")
				w.Report(Finding{Kind: "literal", Key: "literal@position-dependent@" + class, Input: fmt.Sprintf("SELECT /* %d × p */ %s", pad, item), InputHex: hexs(long),
					Detail: fmt.Sprintf("alone the literal prints %q; with its byte %d at offset %d of a longer input it prints %q", got, k, mark, got2)})
			}
		}
	}
	if !modelOK {
		w.Count("no-number-token(model skipped)")
		return
	}
	ans := c09DecodeModel(w.Model().Ask(req))
	if ans != got {
		if inDomain && got != want {
			w.Count("model-differs-on-violation")
			if ans == want {
				return // the model is the specification here; the finding above stands
			}
		}
		w.stats.Disagree++
		w.Report(Finding{Kind: "model-disagreement", Key: "c09-model@" + class, Input: string(sql), InputHex: hexs(sql), Disagreement: true,
			Obligation: "c09-correspondence", Detail: fmt.Sprintf("request %q: model %q, real code %q", trunc(req, 400), ans, got)})
	}
}

// ---------------------------------------------------------------- generators

func c09Dec(n *big.Int) c09Elem { return c09Elem{Kind: "int", Src: []byte(n.String())} }

func c09BoundaryInts() []*big.Int {
	var out []*big.Int
	add := func(n *big.Int) {
		if n.Sign() >= 0 {
			out = append(out, n)
		}
	}
	for k := 0; k <= 70; k++ {
		p := new(big.Int).Lsh(big.NewInt(1), uint(k))
		for d := int64(-2); d <= 2; d++ {
			add(new(big.Int).Add(p, big.NewInt(d)))
		}
	}
	for k := 0; k <= 40; k++ {
		p := new(big.Int).Exp(big.NewInt(10), big.NewInt(int64(k)), nil)
		for d := int64(-1); d <= 1; d++ {
			add(new(big.Int).Add(p, big.NewInt(d)))
		}
	}
	for _, k := range []int64{100, 200, 300, 308} {
		out = append(out, new(big.Int).Exp(big.NewInt(10), big.NewInt(k), nil))
	}
	// doubles' rounding boundaries just above 2^63 and 2^64 (ties between neighbouring float64 values)
	for _, s := range []string{"9223372036854776832", "9223372036854776833", "9223372036854776831", "9223372036854777856",
		"18446744073709553664", "18446744073709553665", "18446744073709553663", "18446744073709555712", "18446744073709551615", "18446744073709551616"} {
		n, _ := new(big.Int).SetString(s, 10)
		out = append(out, n)
	}
	return out
}

func c09RandInt(r *Rng) *big.Int {
	switch r.Intn(10) {
	case 0: // small
		return big.NewInt(int64(r.Intn(1000)))
	case 1, 2: // a band beyond 2^64
		n := new(big.Int).SetUint64(r.Next())
		n.Add(n, c09Two64)
		if r.Chance(1, 2) {
			n.Lsh(n, uint(r.Intn(40)))
			n.Add(n, new(big.Int).SetUint64(r.Next()>>uint(r.Intn(64))))
		}
		return n
	case 3: // around 2^63
		n := new(big.Int).Set(c09Two63)
		return n.Add(n, big.NewInt(int64(r.Intn(4097))-2048))
	case 4: // around 2^64
		n := new(big.Int).Set(c09Two64)
		return n.Add(n, big.NewInt(int64(r.Intn(4097))-2048))
	case 5: // random bit length
		return new(big.Int).SetUint64(r.Next() >> uint(r.Intn(64)))
	default:
		return new(big.Int).SetUint64(r.Next())
	}
}

func c09SpellInt(r *Rng, n *big.Int) c09Elem {
	s := n.String()
	e := c09Elem{Kind: "int"}
	switch r.Intn(12) {
	case 0, 1: // leading zeros
		s = strings.Repeat("0", 1+r.Intn(4)) + s
	case 2: // digit separators
		if len(s) > 1 {
			var sb strings.Builder
			for i := 0; i < len(s); i++ {
				if i > 0 && r.Chance(1, 3) {
					sb.WriteByte('_')
				}
				sb.WriteByte(s[i])
			}
			s = sb.String()
		}
	case 3: // hex
		if n.BitLen() <= 70 {
			e.Kind = "hex"
			s = pick(r, []string{"0x", "0X"}) + n.Text(16)
			if r.Chance(1, 2) {
				s = s[:2] + strings.ToUpper(s[2:])
			}
			if r.Chance(1, 4) {
				s = s[:2] + strings.Repeat("0", 1+r.Intn(3)) + s[2:]
			}
			if r.Chance(1, 8) && len(s) > 4 {
				k := 3 + r.Intn(len(s)-3)
				s = s[:k] + "_" + s[k:]
			}
		}
	case 4: // binary
		if n.BitLen() <= 70 {
			e.Kind = "hex"
			s = pick(r, []string{"0b", "0B"}) + n.Text(2)
			if r.Chance(1, 4) {
				s = s[:2] + strings.Repeat("0", 1+r.Intn(3)) + s[2:]
			}
		}
	case 5: // octal with the 0o prefix (outside the oracle's domain; model vs real code only)
		if n.BitLen() <= 70 && r.Chance(1, 3) {
			e.Kind = "hex"
			s = pick(r, []string{"0o", "0O"}) + n.Text(8)
		}
	}
	e.Src = []byte(s)
	return e
}

// c09FloatBits: all exponents, random mantissas, subnormals, neighbours of the notation thresholds and of powers of ten.
func c09FloatBits(r *Rng) float64 {
	switch r.Intn(10) {
	case 0: // subnormal
		return math.Float64frombits(r.Next() >> uint(12+r.Intn(52)))
	case 1: // neighbours of 10^k for k around the thresholds and everywhere
		k := pick(r, []int{-7, -6, -5, 20, 21, 22, -324 + r.Intn(633), r.Intn(40) - 10})
		x, _ := strconv.ParseFloat("1e"+strconv.Itoa(k), 64)
		b := math.Float64bits(x) + uint64(r.Intn(9)) - 4
		return math.Float64frombits(b)
	case 2: // short decimals
		m := r.Intn(100000)
		x, _ := strconv.ParseFloat(strconv.Itoa(m)+"e"+strconv.Itoa(r.Intn(60)-30), 64)
		return x
	case 3: // integers-valued doubles
		return float64(r.Next() >> uint(r.Intn(64)))
	case 4: // few mantissa bits
		e := uint64(r.Intn(2047))
		m := (r.Next() & (1<<52 - 1)) &^ (1<<uint(r.Intn(52)) - 1)
		return math.Float64frombits(e<<52 | m)
	default:
		e := uint64(r.Intn(2047)) // every finite exponent
		return math.Float64frombits(e<<52 | r.Next()&(1<<52-1))
	}
}

// c09SpellFloat renders |x| in one of several source spellings; "" if the spelling does not apply.
func c09SpellFloat(r *Rng, x float64) string {
	x = math.Abs(x)
	if math.IsNaN(x) || math.IsInf(x, 0) { // the generator's neighbours of 0 wrap around to NaN bit patterns: no source spelling
		return ""
	}
	switch r.Intn(9) {
	case 0:
		return strconv.FormatFloat(x, 'g', -1, 64)
	case 1:
		return strconv.FormatFloat(x, 'e', -1, 64)
	case 2:
		s := strconv.FormatFloat(x, 'f', -1, 64)
		if len(s) > 400 {
			return ""
		}
		if !strings.Contains(s, ".") {
			s += pick(r, []string{".0", ".", ".000"})
		}
		return s
	case 3: // leading dot
		s := strconv.FormatFloat(x, 'f', -1, 64)
		if len(s) > 400 || !strings.HasPrefix(s, "0.") {
			return ""
		}
		return s[1:]
	case 4: // trailing dot
		s := strconv.FormatFloat(x, 'f', -1, 64)
		if len(s) > 400 || strings.Contains(s, ".") {
			return ""
		}
		return s + "."
	case 5: // upper-case E, explicit plus, padded exponent
		s := strconv.FormatFloat(x, 'E', -1, 64)
		return s
	case 6: // more digits than needed
		return strconv.FormatFloat(x, 'e', 20+r.Intn(10), 64)
	case 7: // leading zeros in mantissa and exponent
		s := strconv.FormatFloat(x, 'e', -1, 64)
		i := strings.IndexByte(s, 'e')
		return "00" + s[:i+2] + "00" + s[i+2:]
	default: // mantissa without a dot, exponent without a sign
		_, d, e := c09Shortest(x)
		e -= len(d) - 1
		if e >= 0 {
			return d + "e" + strconv.Itoa(e)
		}
		return d + "e" + strconv.Itoa(e)
	}
}

func c09RandBytes(r *Rng) []byte {
	n := 0
	switch r.Intn(6) {
	case 0:
		n = r.Intn(4)
	case 1:
		n = r.Intn(300)
	default:
		n = r.Intn(40)
	}
	var o []byte
	for len(o) < n {
		switch r.Intn(12) {
		case 0:
			o = append(o, '\'')
		case 1:
			o = append(o, '\\')
		case 2:
			o = append(o, byte(r.Intn(32)))
		case 3:
			o = append(o, pick(r, []byte{0, '\n', '\t', '\r', '\b', '\f', 7, 11, 27, 0x7f}))
		case 4:
			o = append(o, byte(0x80+r.Intn(128))) // mostly ill-formed
		case 5:
			var rn rune
			switch r.Intn(4) {
			case 0:
				rn = rune(0x80 + r.Intn(0x780))
			case 1:
				rn = rune(0x800 + r.Intn(0xF800))
			case 2:
				rn = rune(0x10000 + r.Intn(0x100000))
			default:
				rn = pick(r, []rune{0xFFFD, 0x2018, 0x2019, 0x2212, 0xFEFF, 0x200B, 0xD7FF, 0xE000, 0x10FFFF, 0x7FF, 0x800, 0xFFFF, 0x10000, 0x85, 0xA0})
			}
			if rn >= 0xD800 && rn < 0xE000 {
				rn = 0xE000
			}
			o = utf8.AppendRune(o, rn)
		case 6: // truncated or over-long multi-byte sequences, surrogates, beyond U+10FFFF
			o = append(o, pick(r, [][]byte{{0xE2, 0x82}, {0xC0, 0x80}, {0xC1, 0xBF}, {0xED, 0xA0, 0x80}, {0xF4, 0x90, 0x80, 0x80}, {0xF0, 0x80, 0x80, 0x80},
				{0xE0, 0x80, 0x80}, {0xF8, 0x88, 0x80, 0x80, 0x80}, {0xC2}, {0xF0, 0x9F, 0x98}, {0xEF, 0xBF}})...)
		case 7: // text that looks like an escape once decoded
			o = append(o, pick(r, []string{"\\n", "\\x41", "\\'", "\\\\", "''", "x4", "\\x", "\\0", "%", "_", "\\N", "\\/"})...)
		default:
			o = append(o, byte(0x20+r.Intn(0x5f)))
		}
	}
	return o
}

func c09StrElem(v []byte) c09Elem {
	src := append([]byte{'\''}, c09Quote(v)...)
	src = append(src, '\'')
	return c09Elem{Kind: "string", Src: src, V: v}
}

// c09StrElemRaw: the property's spelling proper — "raw for valid UTF-8": ASCII control characters (NUL, tab, line break, DEL …)
// are valid UTF-8 and stand raw between the quotes; only bytes that are not UTF-8 go through \xHH.
func c09StrElemRaw(v []byte) c09Elem {
	e := c09StrElem(v)
	var o []byte
	q := e.Src[1 : len(e.Src)-1]
	for i := 0; i < len(q); i++ {
		// undo \xHH for HH < 0x20 or 0x7f (what c09Quote wrote for control characters)
		if q[i] == '\\' && i+3 < len(q) && q[i+1] == 'x' {
			if b, ok := unhex(string(q[i+2 : i+4])); ok && len(b) == 1 && (b[0] < 0x20 || b[0] == 0x7f) {
				o = append(o, b[0])
				i += 3
				continue
			}
		}
		if q[i] == '\\' && i+1 < len(q) { // keep \\ and \' pairs intact
			o = append(o, q[i], q[i+1])
			i++
			continue
		}
		o = append(o, q[i])
	}
	e.Src = append(append([]byte{'\''}, o...), '\'')
	return e
}

func c09RandElem(r *Rng) (c09Elem, bool) {
	var e c09Elem
	switch r.Intn(10) {
	case 0, 1, 2, 3:
		e = c09SpellInt(r, c09RandInt(r))
	case 4, 5, 6:
		s := c09SpellFloat(r, c09FloatBits(r))
		if s == "" {
			return e, false
		}
		e = c09Elem{Kind: "float", Src: []byte(s)}
		if c09IsDigits(s) {
			e.Kind = "int"
		}
	default:
		if r.Chance(1, 3) {
			e = c09StrElemRaw(c09RandBytes(r))
		} else {
			e = c09StrElem(c09RandBytes(r))
		}
	}
	e.Neg = r.Chance(2, 5)
	return e, true
}

// ---------------------------------------------------------------- the run

func runC09(w *W) {
	// phase 0: calibration of the oracle against the goldens
	stmts, _ := loadCorpus()
	acc := map[string]*c09Calib{}
	for _, st := range stmts {
		idx, mine := w.Case()
		if !mine || !st.Enabled {
			continue
		}
		if !strings.ContainsAny(st.Text, "'0123456789") {
			continue
		}
		w.curIdx, w.curDesc = idx, "calibrate:"+st.Test
		c09Calibrate(st, acc)
		w.Count("calibration-statements")
	}
	keys := make([]string, 0, len(acc))
	for k := range acc {
		keys = append(keys, k)
	}
	sort.Strings(keys)
	for _, k := range keys {
		c := acc[k]
		w.stats.Counters["calib-agree "+k] += c.Agree
		w.stats.Counters["calib-disagree "+k] += c.Disagree
		w.stats.Counters["calib-absent "+k] += c.Absent
		if w.stats.Extra == nil {
			w.stats.Extra = map[string]any{}
		}
		if w.Shard == 0 || len(c.Bad) > 0 {
			w.stats.Extra[fmt.Sprintf("calib[%s]@shard%d", k, w.Shard)] = map[string]any{"goldens": c.Goldens, "bad": c.Bad}
		}
		// A golden that shows the literal but renders it differently from the oracle means the ORACLE is wrong (never the golden).
		// Plain strings and small integers recur all over a statement (type names, LIMIT, settings, …), so a near miss there says
		// nothing; every escape form, notation and range class below is specific enough.
		if c.Disagree > 0 && !c09NoisyFeature(k) {
			w.Report(Finding{Kind: "oracle-calibration", Key: "c09-oracle@" + k, Input: c.Bad[0],
				Detail: fmt.Sprintf("the C09 oracle contradicts %d ClickHouse golden(s) on feature %s: %s", c.Disagree, k, strings.Join(c.Bad, " | "))})
		}
	}

	one := func(desc string, e c09Elem) {
		idx, mine := w.Case()
		if mine {
			c09Check(w, idx, desc, 0, []c09Elem{e})
		}
	}
	nested := func(desc string, nest byte, es []c09Elem) {
		idx, mine := w.Case()
		if mine {
			c09Check(w, idx, desc, nest, es)
		}
	}

	// phase 1: boundary integers, each plain, negated, with leading zeros, and nested
	for _, n := range c09BoundaryInts() {
		e := c09Dec(n)
		one("boundary", e)
		en := e
		en.Neg = true
		one("boundary-neg", en)
		ez := e
		ez.Src = append([]byte("000"), e.Src...)
		one("boundary-zeros", ez)
		nested("boundary-array", 'a', []c09Elem{e, en})
		nested("boundary-array1", 'a', []c09Elem{en})
		nested("boundary-tuple", 't', []c09Elem{en, e})
		if n.BitLen() <= 66 {
			h := c09Elem{Kind: "hex", Src: []byte("0x" + n.Text(16))}
			one("boundary-hex", h)
			h.Neg = true
			one("boundary-hex-neg", h)
			b := c09Elem{Kind: "hex", Src: []byte("0b" + n.Text(2))}
			one("boundary-bin", b)
			b.Neg = true
			one("boundary-bin-neg", b)
		}
	}
	// phase 2: fixed strings: every single byte, every escape-looking pair
	for b := 0; b < 256; b++ {
		one("byte", c09StrElem([]byte{byte(b)}))
		one("byte-ctx", c09StrElem([]byte{'a', byte(b), 'b'}))
		if b < 0x20 || b == 0x7f {
			one("byte-raw", c09StrElemRaw([]byte{byte(b)}))
			one("byte-raw-ctx", c09StrElemRaw([]byte{'a', byte(b), 'b'}))
			nested("byte-raw-array", 'a', []c09Elem{c09StrElemRaw([]byte{'x', byte(b)}), c09StrElemRaw([]byte{byte(b), 'y'})})
		}
		nested("byte-array", 'a', []c09Elem{c09StrElem([]byte{byte(b)}), c09StrElem([]byte{'\\', byte(b)})})
	}
	one("empty", c09StrElem(nil))
	// phase 3: floats at the notation thresholds, spelled several ways
	for _, s := range []string{"0.0", "0.", ".0", "0e0", "1e-7", "1e-6", "0.000001", "0.0000001", "9.999999e-7", "0.00000099999", "1e20", "1e21", "1e22",
		"999999999999999900000.", "999999999999999900000.0", "1000000000000000000000.0", "1.5e300", "1e308", "1.7976931348623157e308", "5e-324", "4.9e-324", "2.2250738585072014e-308",
		"1e100", "1e-100", "1e+21", "1E21", "1.e3", "01.50", "1e0021", "123456789012345678901234567890.0", "0.1", "0.3", "100.", "1e3", ".5", "5.", "1.0", "1e-400", "0.000001e-1"} {
		e := c09Elem{Kind: "float", Src: []byte(s)}
		one("threshold", e)
		e.Neg = true
		one("threshold-neg", e)
		nested("threshold-array", 'a', []c09Elem{e, {Kind: "float", Src: []byte(s)}})
		nested("threshold-tuple", 't', []c09Elem{{Kind: "int", Src: []byte("1")}, e})
	}

	// phase 4: random
	n := w.pickN(70000, 1400000)
	for i := 0; i < n; i++ {
		idx, mine := w.Case()
		if !mine {
			continue
		}
		r := NewRng(w.Seed, uint64(idx), 9)
		switch r.Intn(10) {
		case 0, 1, 2: // nested
			k := 1 + r.Intn(4)
			nest := byte('a')
			if r.Chance(1, 2) {
				nest = 't'
				if k < 2 {
					k = 2
				}
			}
			var es []c09Elem
			for len(es) < k {
				if e, ok := c09RandElem(r); ok {
					es = append(es, e)
				}
			}
			c09Check(w, idx, "random-nested", nest, es)
		default:
			e, ok := c09RandElem(r)
			if !ok {
				continue
			}
			c09Check(w, idx, "random-"+e.Kind, 0, []c09Elem{e})
		}
	}

	// phase 5: readString on arbitrary text after the opening quote (correspondence of the decoder outside `quote`'s image)
	m := w.pickN(8000, 160000)
	for i := 0; i < m; i++ {
		idx, mine := w.Case()
		if !mine {
			continue
		}
		r := NewRng(w.Seed, uint64(idx), 10)
		raw := c09RandBytes(r)
		if r.Chance(1, 2) {
			raw = append(raw, '\'')
			raw = append(raw, pick(r, []string{"", " ", "'", "''", ",1", "x"})...)
		}
		in := append([]byte{'\''}, raw...)
		w.Begin(idx, in, "decode")
		items, pv := safeTokenize(in)
		w.Eval(in, true)
		w.Count("class:decode")
		got := "panic"
		if pv == "" && len(items) > 0 && items[0].Token == token.STRING {
			got = c09Hex([]byte(items[0].Value))
		}
		ans := w.Model().Ask("c09dec " + c09Hex(raw))
		if p := strings.Split(ans, " "); len(p) == 2 {
			ans = p[0]
		}
		if ans != got {
			w.stats.Disagree++
			w.Report(Finding{Kind: "model-disagreement", Key: "c09-model@decode", Input: fmt.Sprintf("%q", in), InputHex: hexs(in), Disagreement: true,
				Obligation: "c09-correspondence", Detail: fmt.Sprintf("readString value: model %s, real lexer %s", ans, got)})
		}
	}
}
