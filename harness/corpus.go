package main

import (
	"encoding/json"
	"os"
	"path/filepath"
	"sort"
	"strings"
	"sync"
	"unicode/utf8"

	"github.com/sqlc-dev/doubleclick/lexer"
	"github.com/sqlc-dev/doubleclick/token"
)

var repoDir = func() string {
	if d := os.Getenv("VERIF_REPO"); d != "" {
		return d
	}
	return "/repo"
}()

type corpusStmt struct {
	Test    string
	Index   int // 1-based statement number in the file
	Text    string
	Enabled bool // the golden suite runs it (not skipped, not explain_todo, not parse_error)
	Golden  string
}

type corpusFile struct {
	Test    string
	Content string
	Skip    bool
}

type testMeta struct {
	ExplainTodo map[string]bool `json:"explain_todo,omitempty"`
	Explain     *bool           `json:"explain,omitempty"`
	Skip        bool            `json:"skip,omitempty"`
	ParseError  bool            `json:"parse_error,omitempty"`
}

var (
	corpusOnce  sync.Once
	corpusStmts []corpusStmt
	corpusFiles []corpusFile
)

func loadCorpus() ([]corpusStmt, []corpusFile) {
	corpusOnce.Do(func() {
		dir := filepath.Join(repoDir, "parser", "testdata")
		entries, err := os.ReadDir(dir)
		if err != nil {
			fatalf("cannot read corpus: %v", err)
		}
		sort.Slice(entries, func(i, j int) bool { return entries[i].Name() < entries[j].Name() })
		for ei, e := range entries {
			if !e.IsDir() {
				continue
			}
			if ei%200 == 0 {
				heartbeat()
			}
			td := filepath.Join(dir, e.Name())
			qb, err := os.ReadFile(filepath.Join(td, "query.sql"))
			if err != nil {
				continue
			}
			var md testMeta
			if mb, err := os.ReadFile(filepath.Join(td, "metadata.json")); err == nil {
				_ = json.Unmarshal(mb, &md)
			}
			skipAll := md.Skip || (md.Explain != nil && !*md.Explain)
			corpusFiles = append(corpusFiles, corpusFile{Test: e.Name(), Content: string(qb), Skip: skipAll})
			for i, st := range splitStatements(string(qb)) {
				n := i + 1
				key := "stmt" + itoa(n)
				gp := filepath.Join(td, "explain.txt")
				if n > 1 {
					gp = filepath.Join(td, "explain_"+itoa(n)+".txt")
				}
				golden := ""
				if gb, err := os.ReadFile(gp); err == nil {
					golden = string(gb)
				}
				enabled := !skipAll && !md.ExplainTodo[key] && !md.ParseError && golden != "" && !st.hasClientErr
				corpusStmts = append(corpusStmts, corpusStmt{Test: e.Name(), Index: n, Text: st.stmt, Enabled: enabled, Golden: golden})
			}
		}
	})
	return corpusStmts, corpusFiles
}

func itoa(n int) string {
	if n == 0 {
		return "0"
	}
	neg := n < 0
	if neg {
		n = -n
	}
	var b []byte
	for n > 0 {
		b = append([]byte{byte('0' + n%10)}, b...)
		n /= 10
	}
	if neg {
		b = append([]byte{'-'}, b...)
	}
	return string(b)
}

type statementInfo struct {
	stmt         string
	hasClientErr bool
}

// splitStatements is the test suite's own splitter (parser/parser_test.go), copied verbatim.
func splitStatements(content string) []statementInfo {
	var statements []statementInfo
	var current strings.Builder
	var currentHasClientErr bool
	lines := strings.Split(content, "\n")
	for _, line := range lines {
		trimmed := strings.TrimSpace(line)
		if trimmed == "" || strings.HasPrefix(trimmed, "--") {
			continue
		}
		if strings.Contains(trimmed, "clientError") {
			currentHasClientErr = true
		}
		if idx := findCommentStart(trimmed); idx >= 0 {
			trimmed = strings.TrimSpace(trimmed[:idx])
			if trimmed == "" {
				continue
			}
		}
		if current.Len() > 0 {
			current.WriteString(" ")
		}
		current.WriteString(trimmed)
		if strings.HasSuffix(trimmed, ";") {
			stmt := strings.TrimSpace(current.String())
			if stmt != "" && stmt != ";" {
				statements = append(statements, statementInfo{stmt: stmt, hasClientErr: currentHasClientErr})
			}
			current.Reset()
			currentHasClientErr = false
		}
	}
	if current.Len() > 0 {
		stmt := strings.TrimSpace(current.String())
		if stmt != "" {
			statements = append(statements, statementInfo{stmt: stmt, hasClientErr: currentHasClientErr})
		}
	}
	return statements
}

func findCommentStart(line string) int {
	inString := false
	var stringChar byte
	for i := 0; i < len(line); i++ {
		c := line[i]
		if inString {
			if c == '\\' && i+1 < len(line) {
				i++
				continue
			}
			if c == stringChar {
				inString = false
			}
		} else {
			if c == '\'' || c == '"' || c == '`' {
				inString = true
				stringChar = c
			} else if c == '-' && i+1 < len(line) && line[i+1] == '-' {
				if i+2 >= len(line) || line[i+2] == ' ' || line[i+2] == '\t' {
					return i
				}
			}
		}
	}
	return -1
}

// ---------------------------------------------------------------- token spans

// span is one token of the real lexer together with the source bytes it was read from.
type span struct {
	Tok    token.Token
	Val    string
	Start  int // byte offset of the token's first byte
	End    int // byte offset just after the token's last byte (= start of following gap)
	Quoted bool
}

// tokenSpans lexes src with the real lexer and recovers the byte span of every non-trivia
// token (comments are trivia and belong to gaps). Offsets follow the lexer's convention:
// Pos.Offset is the offset just after the token's first rune.
func tokenSpans(src string) ([]span, bool) {
	items, pv := safeTokenize([]byte(src))
	if pv != "" || len(items) == 0 {
		return nil, false
	}
	var out []span
	type raw struct {
		it    lexer.Item
		start int
	}
	var raws []raw
	for _, it := range items {
		if it.Token == token.EOF {
			break
		}
		off := it.Pos.Offset
		if off < 1 || off > len(src) {
			return nil, false
		}
		_, sz := utf8.DecodeLastRuneInString(src[:off])
		s := off - sz
		if it.Token == token.STRING && src[s] == '\'' && s > 0 && strings.IndexByte("xXbB", src[s-1]) >= 0 {
			// x'..' / b'..' record the position after the prefix letter, unless that letter
			// belongs to the previous identifier/number token
			prefix := true
			if n := len(raws); n > 0 {
				pr := raws[n-1]
				if (pr.it.Token == token.IDENT && !pr.it.Quoted) || pr.it.Token == token.NUMBER || pr.it.Token.IsKeyword() {
					if pr.start+len(pr.it.Value) > s-1 {
						prefix = false
					}
				}
			}
			if prefix {
				s--
			}
		} else if it.Token == token.STRING && s > 0 && src[s-1] == '$' && src[s] != '\'' && !strings.HasPrefix(src[s:], "$$"+it.Value+"$$") {
			// $tag$...$tag$ records the position after the opening tag
			j := s - 2
			for j >= 0 && src[j] != '$' {
				if src[j] >= 0x80 {
					return nil, false
				}
				j--
			}
			if j < 0 {
				return nil, false
			}
			s = j
		}
		raws = append(raws, raw{it, s})
	}
	for i, r := range raws {
		end := len(src)
		if i+1 < len(raws) {
			end = raws[i+1].start
		}
		if r.it.Token == token.WHITESPACE || r.it.Token == token.LINE_COMMENT {
			continue
		}
		// trim trailing whitespace/comment-free gap: the token text is src[start:end] minus trailing whitespace
		e := end
		for e > r.start+1 && isGapByte(src[e-1]) {
			e--
		}
		out = append(out, span{Tok: r.it.Token, Val: r.it.Value, Start: r.start, End: e, Quoted: r.it.Quoted})
	}
	return out, true
}

func isGapByte(b byte) bool { return b == ' ' || b == '\t' || b == '\n' || b == '\r' || b == '\f' || b == '\v' }

// stratifiedCorpus returns up to `per` enabled corpus statements (≤ maxLen bytes) for every distinct statement kind, where the
// kind is the first three words in upper case (e.g. "SYSTEM SYNC REPLICA", "ALTER TABLE T" collapses table names poorly but
// keeps rare verbs apart): a random sample of 110 k statements hits the rare kinds too seldom in the quick tier.
func stratifiedCorpus(stmts []corpusStmt, per, maxLen int) []string {
	seen := map[string]int{}
	var out []string
	for _, s := range stmts {
		if !s.Enabled || len(s.Text) > maxLen {
			continue
		}
		sp, ok := tokenSpans(s.Text)
		for ok && len(sp) > 0 && sp[len(sp)-1].Tok == token.SEMICOLON {
			sp = sp[:len(sp)-1]
		}
		if !ok || len(sp) == 0 {
			continue
		}
		word := func(t span) string { return strings.ToUpper(s.Text[t.Start:t.End]) }
		k := word(sp[0])
		for _, t := range sp[1:min(3, len(sp))] {
			// identifiers in 2nd/3rd position would make every statement its own kind: keep only keyword-like words there
			if t.Tok != token.IDENT && t.Tok != token.NUMBER && t.Tok != token.STRING || softKeywords()[word(t)] {
				k += " " + word(t)
			}
		}
		// … and the statement's last token when it is keyword-like (SYSTEM SYNC REPLICA t PULL vs … LIGHTWEIGHT; … FINAL; … SYNC)
		if last := sp[len(sp)-1]; len(sp) > 3 && (last.Tok.IsKeyword() || (last.Tok == token.IDENT && !last.Quoted && softKeywords()[word(last)])) {
			k += " … " + word(last)
		}
		if seen[k] < per {
			seen[k]++
			out = append(out, s.Text)
		}
	}
	return out
}

// shortStatementShapes returns one corpus statement per distinct SHAPE among the short statements (at most maxTok tokens): the
// statement's words upper-cased, with numbers, strings, quoted identifiers and the trailing (possibly qualified) name abstracted.
// Utility statements (SYSTEM …, SHOW …, KILL …, …) are parsed from word PHRASES rather than from keyword tokens, so the
// first-keywords strata of stratifiedCorpus put SYSTEM LOAD PRIMARY KEY t and SYSTEM UNLOAD PRIMARY KEY into one stratum.
func shortStatementShapes(stmts []corpusStmt, maxTok int) []string {
	seen := map[string]bool{}
	var out []string
	for _, s := range stmts {
		if !s.Enabled || len(s.Text) > 400 {
			continue
		}
		sp, ok := tokenSpans(s.Text)
		for ok && len(sp) > 0 && sp[len(sp)-1].Tok == token.SEMICOLON {
			sp = sp[:len(sp)-1]
		}
		if !ok || len(sp) < 2 || len(sp) > maxTok {
			continue
		}
		var sb strings.Builder
		for i, t := range sp {
			w := strings.ToUpper(s.Text[t.Start:t.End])
			nameLike := t.Tok == token.IDENT && (i == len(sp)-1 || sp[i+1].Tok == token.DOT || (i > 0 && sp[i-1].Tok == token.DOT))
			switch {
			case t.Tok == token.NUMBER:
				w = "0"
			case t.Tok == token.STRING:
				w = "'s'"
			case t.Tok == token.IDENT && t.Quoted, nameLike && i > 1:
				w = "n"
			}
			sb.WriteString(w + " ")
		}
		if k := sb.String(); !seen[k] {
			seen[k] = true
			out = append(out, s.Text)
		}
	}
	return out
}
