package main

import (
	"fmt"
	"github.com/sqlc-dev/doubleclick/token"
	"strings"

	"github.com/sqlc-dev/doubleclick/ast"
)

// C07: the EXPLAIN text of a SELECT query appears verbatim, merely indented, inside the EXPLAIN text of
// any statement that embeds it (eight contexts), parenthesising it at statement level changes nothing,
// and rendering never depends on what was rendered before (history independence).
// Monitor: DC.Spec.Embed.embedded (theorems embedded_eq_some_iff / embedded_isSome_iff).

func init() {
	props["C07"] = runC07
}

// statements rendered *before* the query under test to look for history dependence: the shapes that
// used to drive the (now removed) package-level flags, nested EXPLAINs, statements whose rendering goes
// through the copy-without-FORMAT path, and inputs whose Explain is known to have panicked in the past.
var historyPool = []string{
	"CREATE TABLE t ENGINE = Memory AS SELECT 1 FORMAT JSON",
	"CREATE TABLE t (a UInt8) ENGINE = MergeTree ORDER BY a AS SELECT a FROM s FORMAT TSV SETTINGS x = 1",
	"CREATE VIEW v AS SELECT 1 FORMAT JSON",
	"CREATE MATERIALIZED VIEW mv TO t AS SELECT a FROM s FORMAT Null",
	"CREATE MATERIALIZED VIEW mv ENGINE = MergeTree ORDER BY a AS SELECT a FROM s UNION ALL SELECT b FROM u FORMAT Null",
	"CREATE WINDOW VIEW wv TO t AS SELECT count() FROM s GROUP BY tumble(ts, INTERVAL 1 MINUTE) FORMAT Null",
	"CREATE TABLE t AS (SELECT * FROM (SELECT -1 AS x)) FORMAT JSON",
	"INSERT INTO t SELECT 1 FORMAT JSON",
	"INSERT INTO t SELECT a FROM s SETTINGS x = 1 FORMAT Null",
	"INSERT INTO t FORMAT JSONEachRow",
	"WITH 1 AS x INSERT INTO t SELECT x UNION ALL SELECT 2 FORMAT Null",
	"EXPLAIN EXPLAIN SELECT 1",
	"EXPLAIN AST EXPLAIN SYNTAX SELECT 1 FORMAT TSV",
	"EXPLAIN SELECT 1 FORMAT JSON SETTINGS a = 1",
	"EXPLAIN CREATE TABLE t ENGINE = Memory AS SELECT 1 FORMAT JSON",
	"EXPLAIN INSERT INTO t SELECT 1 FORMAT JSON",
	"SELECT * FROM (EXPLAIN SELECT 1 FORMAT JSON)",
	"SELECT * FROM (SELECT -1 AS x, -2.5 AS y)",
	"SELECT (SELECT -1 AS x) FORMAT JSON",
	"SELECT 1 FORMAT JSON",
	"SELECT 1 INTO OUTFILE 'f' FORMAT CSV SETTINGS a = 1",
	"SELECT 1 UNION ALL SELECT 2 FORMAT Null",
	"SELECT position(x IN (SELECT 1))", // Explain used to panic (fixed: now a parse error; kept for the day it is not)
	"SELECT substring(TRIM a, 1, 3)",
	"SELECT 1 INTERSECT SELECT 2 INTERSECT x",
	"RENAME", "EXCHANGE",
	"SHOW CREATE TABLE t FORMAT TSV",
	"DESCRIBE (SELECT 1 FORMAT JSON)",
	"ALTER TABLE t MODIFY QUERY SELECT 1 FORMAT JSON",
	"CREATE DICTIONARY d (k UInt64) PRIMARY KEY k SOURCE(CLICKHOUSE(QUERY 'SELECT 1 FORMAT JSON')) LAYOUT(FLAT()) LIFETIME(0)",
}

type c07State struct {
	w        *W
	history  [][]ast.Statement // parsed history pool
	histText []string
	probes   []ast.Statement // fixed statements touching every text-producing helper (escaped strings, quoted names, numbers, lists, types)
	probeRef []string        // their renderings before anything else was rendered in this process
}

var probeTexts = []string{
	"SELECT sum(x), Count(y), toDate(z), UPPER(s), lower(s), Trim(s), SUBSTRING(s, 1), position(a, b), dateDiff('day', a, b), arrayMap(q -> q, r), If(a, b, c) FROM t WHERE x IN (1) AND y LIKE 'a'",
	"SELECT 'a\\nb', 'it''s', 'back\\\\slash', `we ird`, \"q\", -1, 1.5e3, [1, 'x'], (1, 'y'), CAST(z AS Enum8('a\\'b' = 1)), ['p\\nq']::Array(String) AS al, 0x1F, 18446744073709551616",
	"CREATE TABLE t (a Int8 COMMENT 'c\\nd', b Tuple(x String, `y z` Int8) DEFAULT (1, 2)) ENGINE = MergeTree ORDER BY a SETTINGS s = 'v\\n'",
	"ALTER TABLE t DROP PARTITION ID 'p\\nq', MODIFY COLUMN c String COMMENT 'it''s'",
}

func (st *c07State) explainQuiet(s ast.Statement) (string, bool) {
	o := safeExplain(s)
	return o.Out, !o.Panicked
}

// parseOne parses text and answers its only statement.
func parseOne(text string) (ast.Statement, string) {
	in := []byte(text)
	obs := safeParse(in, parseBudget(in))
	switch {
	case obs.Panicked:
		return nil, "panic"
	case obs.Budget:
		return nil, "budget"
	case obs.Err != nil:
		return nil, "error"
	case len(obs.Stmts) != 1 || obs.Stmts[0] == nil:
		return nil, fmt.Sprintf("%d-statements", len(obs.Stmts))
	}
	return obs.Stmts[0], ""
}

// c07Query checks one SELECT query in every context.
func (st *c07State) c07Query(idx int, q string, desc string) {
	w := st.w
	in := []byte(q)
	w.Begin(idx, in, desc)
	class := strings.SplitN(desc, ":", 2)[0]
	if identHasLineBreak(in) {
		w.stats.Evaluations++
		w.Count("skipped:identifier-with-line-break")
		return
	}
	// a text with a `;` token in it (e.g. `SELECT 1; -- note`) is a script, not a query that can be embedded
	if items, pv := safeTokenize(in); pv == "" {
		for _, it := range items {
			if it.Token == token.SEMICOLON {
				w.stats.Evaluations++
				w.Count("not-a-query:semicolon-token-inside")
				return
			}
		}
	}
	s0, why := parseOne(q)
	if s0 == nil {
		w.stats.Evaluations++
		w.Count("not-a-query:" + why)
		return
	}
	switch s0.(type) {
	case *ast.SelectWithUnionQuery, *ast.SelectIntersectExceptQuery, *ast.SelectQuery:
	default:
		w.stats.Evaluations++
		w.Count(fmt.Sprintf("not-a-query:%T", s0))
		return
	}
	if hasOwnTail(s0) {
		w.stats.Evaluations++
		w.Count("excluded:own-format-settings-outfile-tail")
		return
	}
	E, ok := st.explainQuiet(s0)
	if !ok {
		w.stats.Evaluations++
		w.Count("explain-panic(C03)")
		return
	}
	w.Eval(in, true)
	w.Count("queries")
	w.Count("queries:" + class)
	inq := fmt.Sprintf("%q", q)
	r := NewRng(w.Seed, uint64(idx), 71)

	// --- the embedding contexts.  A query that itself starts with `(` is not put into them: `ctx( (A) UNION B )` is
	// read by the parser as `ctx((A)) UNION B` in several contexts (the closing parenthesis of the first operand ends
	// the subquery), so "passing" there would be an accident; such queries are tested at statement level only.
	startsParen := strings.HasPrefix(strings.TrimLeft(q, " \t\r\n"), "(")
	if startsParen {
		w.Count("contexts-skipped:query-starts-with-paren")
	}
	for _, c := range embedContexts {
		if startsParen {
			break
		}
		qq := q
		if strings.Contains(q, "--") || strings.Contains(q, "#") || strings.Contains(q, "\u2212") {
			qq = q + "\n" // a trailing line comment must not swallow the context's closing text
		}
		text := c.Pre + qq + c.Post
		sc, why := parseOne(text)
		if sc == nil {
			// the query parses alone but not where it is embedded: it does not "render the same" there
			w.Count("context-not-accepted:" + c.Name + ":" + why)
			w.Report(Finding{Kind: "embed", Key: "embed@" + c.Name + "@rejected", Input: inq, InputHex: hexs(in),
				Detail: fmt.Sprintf("the query parses alone, but the embedding statement is rejected (%s): %s", why, trunc(text, 300))})
			continue
		}
		Eo, ok := st.explainQuiet(sc)
		if !ok {
			w.Count("explain-panic(C03)")
			continue
		}
		w.Count("embeddings")
		ans := w.Model().Ask("embed " + hexOf(E) + " " + hexOf(Eo))
		if strings.HasPrefix(ans, "some ") {
			continue
		}
		w.Count("bad:embed@" + c.Name)
		w.Report(Finding{Kind: "embed", Key: "embed@" + c.Name, Input: inq, InputHex: hexs(in),
			Detail: fmt.Sprintf("monitor answered %q for context %q\n--- alone:\n%s--- embedded:\n%s", ans, trunc(text, 300), trunc(E, 1200), trunc(Eo, 1500))})
	}

	// --- parentheses at statement level change nothing
	if sp, why := parseOne("(" + q + ")"); sp == nil {
		w.Count("context-not-accepted:paren:" + why)
	} else if Ep, ok := st.explainQuiet(sp); ok {
		w.Count("embeddings")
		if Ep != E {
			key := "embed@paren-toplevel"
			if startsParen && (nestedUnionFirst(s0, E) || nestedUnionFirst(nil, Ep)) {
				// known shape: a parenthesised union as FIRST operand of an outer union is regrouped differently
				// (nested in one rendering, flattened in the other) when the whole query is parenthesised again
				key = "embed@nested-union-first-operand"
			}
			w.Count("bad:" + key)
			w.Report(Finding{Kind: "embed", Key: key, Input: inq, InputHex: hexs(in),
				Detail: fmt.Sprintf("--- alone:\n%s--- parenthesised:\n%s", trunc(E, 1200), trunc(Ep, 1200))})
		}
	}

	// --- history independence: render other things (recovering from panics), then render q again
	nHist := 1 + r.Intn(4)
	var last string
	for k := 0; k < nHist; k++ {
		j := r.Intn(len(st.history))
		last = st.histText[j]
		for _, hs := range st.history[j] {
			if hs != nil {
				_ = safeExplain(hs)
			}
		}
		if r.Chance(1, 3) && len(st.history[j]) > 0 {
			_ = safeExplainStatements(st.history[j])
		}
	}
	w.Count("histories")
	for pi, ps := range st.probes {
		if Ep, ok := st.explainQuiet(ps); ok && Ep != st.probeRef[pi] {
			w.Count("bad:history@probe")
			w.Report(Finding{Kind: "history", Key: "history@probe", Input: fmt.Sprintf("%q", probeTexts[pi]), InputHex: hexs([]byte(probeTexts[pi])),
				Detail: fmt.Sprintf("after rendering %q (and %d others) the fixed probe statement renders differently from its first rendering in this process\n--- first:\n%s--- now:\n%s", last, nHist-1, trunc(st.probeRef[pi], 1500), trunc(Ep, 1500))})
			st.probeRef[pi] = Ep // report each change once
		}
	}
	if E2, ok := st.explainQuiet(s0); ok && E2 != E {
		w.Count("bad:history@same-ast")
		w.Report(Finding{Kind: "history", Key: "history@same-ast", Input: inq, InputHex: hexs(in),
			Detail: fmt.Sprintf("after rendering %q (and %d others) the same AST renders differently\n--- before:\n%s--- after:\n%s", last, nHist-1, trunc(E, 1200), trunc(E2, 1200))})
	}
	if s1, _ := parseOne(q); s1 != nil {
		if E3, ok := st.explainQuiet(s1); ok && E3 != E {
			w.Count("bad:history@fresh-parse")
			w.Report(Finding{Kind: "history", Key: "history@fresh-parse", Input: inq, InputHex: hexs(in),
				Detail: fmt.Sprintf("after rendering %q (and %d others) a fresh parse renders differently\n--- before:\n%s--- after:\n%s", last, nHist-1, trunc(E, 1200), trunc(E3, 1200))})
		}
	}
	if w.stats.Counters["queries"]%3000 == 1 {
		w.Sample(q)
	}
}

// nestedUnionFirst: the top-level parse is a SelectWithUnionQuery whose first select is itself a
// SelectWithUnionQuery with more than one select, or the rendering of the query alone shows a nested
// SelectWithUnionQuery as the first child of the outer list.
func nestedUnionFirst(s ast.Statement, alone string) bool {
	if swu, ok := s.(*ast.SelectWithUnionQuery); ok && swu != nil && len(swu.Selects) > 1 {
		if in, ok := swu.Selects[0].(*ast.SelectWithUnionQuery); ok && in != nil && len(in.Selects) > 1 {
			return true
		}
	}
	lines := strings.SplitN(alone, "\n", 4)
	return len(lines) >= 3 && strings.HasPrefix(lines[0], "SelectWithUnionQuery") && strings.HasPrefix(lines[2], "  SelectWithUnionQuery")
}

func runC07(w *W) {
	c07UnionCorrespondence(w) // union regrouping: Lean model DC.Model.UnionGroup vs the real printer (p_c07union.go)
	stmts, _ := loadCorpus()
	st := &c07State{w: w}
	for _, pt := range probeTexts { // rendered first, before anything else has been through the printer
		if ps, _ := parseOne(pt); ps != nil {
			if e, ok := st.explainQuiet(ps); ok {
				st.probes = append(st.probes, ps)
				st.probeRef = append(st.probeRef, e)
			}
		}
	}
	for _, h := range historyPool {
		in := []byte(h)
		obs := safeParse(in, parseBudget(in))
		if obs.Panicked || obs.Budget || len(obs.Stmts) == 0 {
			continue // rejected today; nothing to render
		}
		st.history = append(st.history, obs.Stmts)
		st.histText = append(st.histText, h)
	}
	// large renderings are history too: scratch space that is pooled or cached between calls shows once something big
	// has been through it (strings with and without characters to escape, identifiers, aliases, numbers, lists, nesting)
	big := strings.Repeat("line\\n'' \\\\ ", 9000) // ≈ 120 KiB of text that needs escaping
	for _, h := range []string{
		"SELECT '" + big + "'",
		"SELECT '" + strings.Repeat("plain text ", 9000) + "' AS a",
		"SELECT `" + strings.Repeat("ident_", 15000) + "`",
		"SELECT 1 AS `" + strings.Repeat("alias ", 15000) + "`",
		"SELECT [" + strings.Repeat("'it''s', ", 12000) + "'x']::Array(String)",
		"SELECT CAST(x AS Enum8(" + strings.Repeat("'a\\'b' = 1, ", 8000) + "'z' = 2))",
		"SELECT " + strings.Repeat("f(", 600) + "1" + strings.Repeat(")", 600),
		"SELECT " + strings.Repeat("123456789, ", 20000) + "1",
		"CREATE TABLE t (a Int8 COMMENT '" + big + "') ENGINE = Memory",
		"SELECT 1 FORMAT " + strings.Repeat("F", 70000),
	} {
		in := []byte(h)
		obs := safeParse(in, parseBudget(in))
		if !obs.Panicked && !obs.Budget && len(obs.Stmts) > 0 {
			st.history = append(st.history, obs.Stmts)
			st.histText = append(st.histText, trunc(h, 80)+fmt.Sprintf("… (%d bytes)", len(h)))
		}
	}
	// the probes themselves re-spelled (all upper case / all lower case outside quotes): whatever is cached per name,
	// keyword or literal must not make the first spelling seen in the process stick
	for _, pt := range probeTexts {
		for _, f := range []func(string) string{strings.ToUpper, strings.ToLower} {
			var sb strings.Builder
			inq := byte(0)
			start := 0
			flush := func(end int) { sb.WriteString(f(pt[start:end])); start = end }
			for i := 0; i < len(pt); i++ {
				c := pt[i]
				if inq == 0 && (c == '\'' || c == '`' || c == '"') {
					flush(i)
					inq = c
				} else if inq != 0 && c == inq {
					sb.WriteString(pt[start : i+1])
					start = i + 1
					inq = 0
				} else if inq != 0 && c == '\\' {
					i++
				}
			}
			if inq == 0 {
				flush(len(pt))
			} else {
				sb.WriteString(pt[start:])
			}
			h := sb.String()
			in := []byte(h)
			obs := safeParse(in, parseBudget(in))
			if !obs.Panicked && !obs.Budget && len(obs.Stmts) > 0 {
				st.history = append(st.history, obs.Stmts)
				st.histText = append(st.histText, h)
			}
			// "what was rendered before it" includes the case where the OTHER spelling comes first: a fresh process renders
			// the re-spelled text and then the probe; the probe must come out as it does here, where it was rendered first
			if w.Shard == 0 {
				if d := c11FreshReplay([]string{pt, h}); d != nil && d[0] != sumHex(c11Outputs(pt)) {
					w.Count("bad:history@fresh-order")
					w.Report(Finding{Kind: "history", Key: "history@fresh-order", Input: fmt.Sprintf("%q", pt), InputHex: hexs([]byte(pt)),
						Detail: fmt.Sprintf("a fresh process that first renders %q and then the probe renders the probe differently from a process that renders the probe first", trunc(h, 200))})
				}
			}
		}
	}
	// corpus statements with FORMAT (any kind) are history too
	for i := 0; i < len(stmts) && len(st.history) < 400; i += 7 {
		t := stmts[i].Text
		if len(t) < 2000 && strings.Contains(strings.ToUpper(t), "FORMAT") {
			in := []byte(t)
			obs := safeParse(in, parseBudget(in))
			if !obs.Panicked && !obs.Budget && len(obs.Stmts) > 0 {
				st.history = append(st.history, obs.Stmts)
				st.histText = append(st.histText, t)
			}
		}
	}
	w.stats.Extra = map[string]any{"history_pool": len(st.history)}

	run := func(q, desc string) {
		idx, mine := w.Case()
		if !mine {
			return
		}
		st.c07Query(idx, q, desc)
	}

	// (1) corpus SELECT queries
	step := w.pickN(2, 1)
	for i, s := range stmts {
		body := stripStmtEnd(s.Text)
		if !startsWithSelect(body) || len(body) > 6000 {
			continue
		}
		if i%step != 0 {
			continue
		}
		run(body, "corpus:"+s.Test+"#"+itoa(s.Index))
	}

	// (1a) the same queries with their string / number / identifier leaves replaced by difficult ones (p_c04.go leafSubstitute)
	nLeaf := w.pickN(6000, 120000)
	for k := 0; k < nLeaf; k++ {
		idx, mine := w.Case()
		if !mine {
			continue
		}
		r := NewRng(w.Seed, uint64(idx), 77)
		body := stripStmtEnd(stmts[r.Intn(len(stmts))].Text)
		if !startsWithSelect(body) || len(body) > 3000 {
			continue
		}
		if v, ok := leafSubstitute(r, body); ok {
			st.c07Query(idx, v, "leaf-subst")
		}
	}

	// (1a') set-operation chains of every operator mix behind every kind of head (the statement-level parser has separate paths
	// for a leading WITH, for a chain that starts with INTERSECT/EXCEPT and for UNION modes that follow such a chain)
	{
		ops := []string{"UNION ALL", "UNION DISTINCT", "UNION", "INTERSECT", "EXCEPT", "INTERSECT DISTINCT", "EXCEPT DISTINCT"}
		operands := []string{"SELECT 2", "SELECT a FROM t", "(SELECT 3)", "(SELECT 4 UNION ALL SELECT 5)", "SELECT 6 WHERE 1"}
		heads := []string{"SELECT 1", "WITH 1 AS x SELECT x", "WITH c AS (SELECT 1) SELECT * FROM c", "SELECT a FROM t WHERE b"}
		nChain := w.pickN(6000, 100000)
		for k := 0; k < nChain; k++ {
			idx, mine := w.Case()
			if !mine {
				continue
			}
			r := NewRng(w.Seed, uint64(idx), 78)
			parts := []string{pick(r, heads)}
			n := 1 + r.Intn(4)
			for i := 0; i < n; i++ {
				parts = append(parts, pick(r, ops), pick(r, operands))
			}
			st.c07Query(idx, strings.Join(parts, " "), "setop-chain")
		}
	}

	// (1b) deep but narrow queries: embedded, their indentation crosses 128 / 256 / 512 / 1024 columns
	for _, depth := range []int{16, 30, 36, 40, 70, 75, 140, 150} {
		q := "SELECT 1"
		for i := 0; i < depth; i++ {
			q = "SELECT * FROM (" + q + ")"
		}
		run(q, fmt.Sprintf("deep-from:%d", depth))
		e := "x"
		for i := 0; i < depth*3; i++ {
			e = "f(" + e + ")"
		}
		run("SELECT "+e+" FROM t", fmt.Sprintf("deep-call:%d", depth*3))
	}

	// (1c) long queries: tokens with a multi-byte look-ahead (db.0001_t, $tag$…$tag$, two-character operators) placed so
	// that they meet the 4096 / 8192 byte marks in the bare query or in one of its embeddings (the prefix of each
	// context shifts every offset by 10–45 bytes)
	probesTail := []string{" a FROM db.00001_tbl WHERE x >= 1 AND y <> 2", " $tag$ some text $tag$ AS s, b::UInt8, c -> d FROM t", " 'it''s' AS q, 1.5e3, .5 FROM t -- end"}
	for _, mark := range []int{4096, 8192} {
		for pad := mark - 110; pad <= mark+10; pad += 1 {
			for ti, tail := range probesTail {
				if (pad+ti)%3 != 0 && !w.Thorough() {
					continue
				}
				q := "SELECT /*" + strings.Repeat("p", pad-len("SELECT /*")-2) + "*/" + tail
				run(q, fmt.Sprintf("window:%d@%d", mark, pad))
			}
		}
	}

	// (2) the hand-written rarely combined forms (WITH inheritance, DISTINCT ON, LIMIT BY, set operations …)
	for i, q := range specialSelects() {
		run(q, "special:"+itoa(i))
	}

	// (3) grammar queries without a tail of their own: every subset of the 16 non-tail clauses (thorough) or a sample
	nClauses := 16 // selectClauses[16:] are settings, format
	if w.Thorough() {
		for mask := 0; mask < 1<<nClauses; mask++ {
			idx, mine := w.Case()
			if !mine {
				continue
			}
			r := NewRng(w.Seed, uint64(idx), 72)
			g := &Gen{r: r, noFormatTail: true, clauses: map[string]bool{}}
			for b := 0; b < nClauses; b++ {
				g.clauses[selectClauses[b]] = mask&(1<<b) != 0
			}
			st.c07Query(idx, g.selectQuery(1+r.Intn(3), false), fmt.Sprintf("gen-select:%04x", mask))
		}
	}
	nGen := w.pickN(12000, 240000)
	for k := 0; k < nGen; k++ {
		idx, mine := w.Case()
		if !mine {
			continue
		}
		r := NewRng(w.Seed, uint64(idx), 73)
		g := &Gen{r: r, noFormatTail: true}
		var q string
		if r.Chance(1, 2) {
			q = g.selectQuery(1+r.Intn(3), false)
		} else {
			q = g.selectUnion(1+r.Intn(3), false)
			if !strings.Contains(q, "UNION") && !strings.Contains(q, "INTERSECT") && !strings.Contains(q, "EXCEPT") {
				q += " " + pick(r, []string{"UNION ALL", "UNION DISTINCT", "UNION", "INTERSECT", "EXCEPT"}) + " " + g.selectQuery(1, true)
			}
		}
		st.c07Query(idx, q, "gen")
	}
}
