package main

import (
	"bufio"
	"crypto/sha256"
	"encoding/binary"
	"encoding/hex"
	"encoding/json"
	"fmt"
	"hash/fnv"
	"io"
	"os"
	"os/exec"
	"path/filepath"
	"runtime"
	"sort"
	"strconv"
	"strings"
	"sync"
	"syscall"
	"time"
)

func fatalf(f string, a ...any) {
	fmt.Fprintf(os.Stderr, "harness: "+f+"\n", a...)
	os.Exit(2)
}

// Finding is one observed failure of a property on the real code (or a model/impl disagreement).
type Finding struct {
	Prop     string `json:"property"`
	Kind     string `json:"kind"`
	Key      string `json:"key"` // identity used by known_findings.json (call site / class), stable across inputs
	Input    string `json:"input"`
	InputHex string `json:"input_hex,omitempty"`
	Detail   string `json:"detail"`
	Case     string `json:"case"`
	// Disagreement marks a model/implementation disagreement for which no property-level failure was exhibited
	Disagreement bool   `json:"disagreement,omitempty"`
	Obligation   string `json:"obligation,omitempty"`
}

type Stats struct {
	Evaluations int            `json:"evaluations"`
	Nontrivial  int            `json:"nontrivial"`
	Counters    map[string]int `json:"counters"`
	Samples     []string       `json:"samples"`
	ModelCalls  int            `json:"model_calls"`
	Disagree    int            `json:"disagreements"`
	MaxRatio    float64        `json:"max_ratio,omitempty"`
	Extra       map[string]any `json:"extra,omitempty"`
}

// W is the worker context handed to a property's run function.
type W struct {
	Prop    string
	Tier    string
	Seed    uint64
	Shard   int
	NShards int
	From    int
	Only    int // >=0: run only this case index (replay)
	out     *bufio.Writer
	stats   Stats
	hashes  map[uint64]struct{}
	model   *Model
	curIdx  int
	curDesc string
	findKey map[string]int
	hashDir string
	next    int
}

func (w *W) Thorough() bool { return w.Tier == "thorough" }

// pickN chooses the tier's size.
func (w *W) pickN(quick, thorough int) int {
	if w.Thorough() {
		return thorough
	}
	return quick
}

// Case allocates the next global case index and reports whether this shard runs it. Call it
// exactly once per case, in the same order in every shard.
func (w *W) Case() (idx int, mine bool) {
	idx = w.next
	w.next++
	if w.Only >= 0 {
		return idx, idx == w.Only
	}
	return idx, idx%w.NShards == w.Shard && idx >= w.From
}

// Begin announces the case about to run (crash attribution).
func (w *W) Begin(idx int, input []byte, desc string) {
	w.curIdx = idx
	w.curDesc = desc
	h := ""
	if len(input) <= 1<<16 {
		h = hex.EncodeToString(input)
	} else {
		// too long to announce on the pipe: park it in a file the supervisor can pick up if this process dies on it
		fn := filepath.Join(verifHome(), "bin", fmt.Sprintf("cur-%s-%d.in", w.Prop, w.Shard))
		if os.WriteFile(fn, input, 0o644) == nil {
			h = "@file:" + fn
		}
	}
	fmt.Fprintf(w.out, "B\t%d\t%s\t%s\n", idx, desc, h)
	w.out.Flush()
}

// Eval records one evaluated input; nontrivial by the property's own rule.
func (w *W) Eval(input []byte, nontrivial bool) {
	w.stats.Evaluations++
	if nontrivial {
		h := fnv.New64a()
		h.Write(input)
		w.hashes[h.Sum64()] = struct{}{}
	}
}

func (w *W) Count(k string) {
	w.stats.Counters[k]++
}

func (w *W) Sample(s string) {
	if len(w.stats.Samples) < 6 {
		w.stats.Samples = append(w.stats.Samples, trunc(s, 300))
	}
}

func (w *W) Report(f Finding) {
	f.Prop = w.Prop
	if f.Case == "" {
		f.Case = fmt.Sprintf("seed=%d tier=%s idx=%d %s", w.Seed, w.Tier, w.curIdx, w.curDesc)
	}
	w.findKey[f.Key]++
	if w.findKey[f.Key] > 3 { // at most three examples per key per shard
		return
	}
	if len(f.InputHex) > 1<<17 {
		f.InputHex = f.InputHex[:1<<17]
	}
	f.Input = trunc(f.Input, 2000)
	f.Detail = trunc(f.Detail, 3000)
	b, _ := json.Marshal(f)
	fmt.Fprintf(w.out, "F\t%s\n", b)
	w.out.Flush()
}

// heartbeat tells the supervisor the worker is alive during long set-up phases (corpus load, calibration).
var heartbeatOut *bufio.Writer

func heartbeat() {
	if heartbeatOut != nil {
		fmt.Fprintf(heartbeatOut, "H\n")
		heartbeatOut.Flush()
	}
}

// Model returns the Lean model driver client (started lazily).
func (w *W) Model() *Model {
	if w.model == nil {
		w.model = startModel()
	}
	return w.model
}

func (w *W) finish() {
	if w.model != nil {
		w.stats.ModelCalls = w.model.calls
		w.model.Close()
	}
	w.stats.Nontrivial = len(w.hashes)
	if w.hashDir != "" {
		buf := make([]byte, 0, 8*len(w.hashes))
		for h := range w.hashes {
			buf = binary.LittleEndian.AppendUint64(buf, h)
		}
		_ = os.WriteFile(filepath.Join(w.hashDir, fmt.Sprintf("shard-%d.hashes", w.Shard)), buf, 0o644)
	}
	b, _ := json.Marshal(w.stats)
	fmt.Fprintf(w.out, "S\t%s\n", b)
	w.out.Flush()
}

// ---------------------------------------------------------------- Lean model client

type Model struct {
	cmd   *exec.Cmd
	in    *bufio.Writer
	out   *bufio.Reader
	calls int
	dead  bool
}

func modelPath() string {
	if p := os.Getenv("VERIF_DCMODEL"); p != "" {
		return p
	}
	return verifHome() + "/lean/.lake/build/bin/dcmodel"
}

func startModel() *Model {
	cmd := exec.Command(modelPath())
	stdin, err := cmd.StdinPipe()
	if err != nil {
		fatalf("model: %v", err)
	}
	stdout, err := cmd.StdoutPipe()
	if err != nil {
		fatalf("model: %v", err)
	}
	cmd.Stderr = os.Stderr
	if err := cmd.Start(); err != nil {
		fatalf("cannot start Lean model driver %s: %v", modelPath(), err)
	}
	return &Model{cmd: cmd, in: bufio.NewWriterSize(stdin, 1<<20), out: bufio.NewReaderSize(stdout, 1<<20)}
}

// Ask sends one request line and returns the model's one-line answer.
func (m *Model) Ask(line string) string {
	if m.dead {
		return "model-dead"
	}
	m.calls++
	m.in.WriteString(line)
	m.in.WriteByte('\n')
	if err := m.in.Flush(); err != nil {
		m.dead = true
		return "model-dead"
	}
	s, err := m.out.ReadString('\n')
	if err != nil {
		m.dead = true
		return "model-dead"
	}
	return strings.TrimRight(s, "\n")
}

func (m *Model) Close() {
	if m.cmd != nil && m.cmd.Process != nil {
		m.in.Flush()
		if c, ok := m.cmd.Stdin.(io.Closer); ok {
			c.Close()
		}
		_ = m.cmd.Process.Kill()
		_, _ = m.cmd.Process.Wait()
	}
}

// ---------------------------------------------------------------- worker entry

type propFn func(w *W)

var props = map[string]propFn{}

func workerMain(args map[string]string) {
	// hard address-space limit: a runaway allocation kills the worker instead of the sandbox
	lim := uint64(12 << 30)
	if !raceEnabled { // the race detector reserves terabytes of shadow address space
		_ = syscall.Setrlimit(syscall.RLIMIT_AS, &syscall.Rlimit{Cur: lim, Max: lim})
	}
	w := &W{Prop: args["prop"], Tier: args["tier"], out: bufio.NewWriterSize(os.Stdout, 1<<16),
		hashes: map[uint64]struct{}{}, findKey: map[string]int{}, Only: -1, hashDir: args["hashdir"]}
	w.stats.Counters = map[string]int{}
	heartbeatOut = w.out
	heartbeat()
	w.Seed, _ = strconv.ParseUint(args["seed"], 10, 64)
	w.Shard, _ = strconv.Atoi(args["shard"])
	w.NShards, _ = strconv.Atoi(args["nshards"])
	if w.NShards == 0 {
		w.NShards = 1
	}
	w.From, _ = strconv.Atoi(args["from"])
	if o, ok := args["only"]; ok {
		w.Only, _ = strconv.Atoi(o)
	}
	fn := props[w.Prop]
	if fn == nil {
		fatalf("unknown property %q", w.Prop)
	}
	fn(w)
	w.finish()
}

// ---------------------------------------------------------------- supervisor

type KnownFinding struct {
	Prop string `json:"property"`
	Key  string `json:"key"`
	What string `json:"what"`
}

type knownFile struct {
	Known []KnownFinding `json:"known"`
	Fixed []string       `json:"fixed"`
}

func loadKnown() map[string]KnownFinding {
	out := map[string]KnownFinding{}
	b, err := os.ReadFile(verifHome() + "/known_findings.json")
	if err != nil {
		return out
	}
	var kf knownFile
	if err := json.Unmarshal(b, &kf); err != nil {
		fatalf("known_findings.json: %v", err)
	}
	for _, k := range kf.Known {
		out[k.Prop+"|"+k.Key] = k
	}
	return out
}

type RunResult struct {
	Prop       string    `json:"property"`
	Tier       string    `json:"tier"`
	Seed       uint64    `json:"seed"`
	Stats      Stats     `json:"stats"`
	Distinct   int       `json:"distinct_nontrivial"`
	Findings   []Finding `json:"findings"`
	Violations []Finding `json:"violations"`
	Known      []string  `json:"known"`
	Replays    []string  `json:"replays"`
	Crashes    int       `json:"crashes"`
	WallS      float64   `json:"wall_s"`
}

func superviseMain(args map[string]string) {
	prop, tier, seed := args["prop"], args["tier"], args["seed"]
	if tier == "" {
		tier = "quick"
	}
	if seed == "" {
		seed = "1"
	}
	nsh := 16
	if s := args["workers"]; s != "" {
		nsh, _ = strconv.Atoi(s)
	}
	caseTimeout := 60 * time.Second
	if s := args["case-timeout"]; s != "" {
		d, _ := time.ParseDuration(s)
		if d > 0 {
			caseTimeout = d
		}
	}
	gomax := "2"
	if g := args["gomaxprocs"]; g != "" {
		gomax = g
	}
	start := time.Now()
	hashDir, err := os.MkdirTemp("", "verif-hashes-")
	if err != nil {
		fatalf("%v", err)
	}
	defer os.RemoveAll(hashDir)

	var mu sync.Mutex
	var autoSamples []string
	res := RunResult{Prop: prop, Tier: tier}
	res.Seed, _ = strconv.ParseUint(seed, 10, 64)
	res.Stats.Counters = map[string]int{}
	self, _ := os.Executable()
	if b := args["bin"]; b != "" {
		self = b // e.g. the same harness built with -race
	}

	var wg sync.WaitGroup
	for sh := 0; sh < nsh; sh++ {
		wg.Add(1)
		go func(sh int) {
			defer wg.Done()
			from := 0
			for attempt := 0; attempt < 200; attempt++ {
				cmd := exec.Command(self, "worker", "--prop="+prop, "--tier="+tier, "--seed="+seed,
					fmt.Sprintf("--shard=%d", sh), fmt.Sprintf("--nshards=%d", nsh), fmt.Sprintf("--from=%d", from), "--hashdir="+hashDir)
				cmd.Env = append(os.Environ(), "GOMEMLIMIT=6GiB", "GOMAXPROCS="+gomax, "GORACE=halt_on_error=1")
				stdout, _ := cmd.StdoutPipe()
				var errb strings.Builder
				cmd.Stderr = &limitedWriter{w: &errb, n: 1 << 16}
				if err := cmd.Start(); err != nil {
					fatalf("start worker: %v", err)
				}
				lines := make(chan string, 256)
				go func() {
					rd := bufio.NewReaderSize(stdout, 1<<20)
					for {
						s, err := rd.ReadString('\n')
						if s != "" {
							lines <- strings.TrimRight(s, "\n")
						}
						if err != nil {
							close(lines)
							return
						}
					}
				}()
				lastIdx, lastDesc, lastHex := -1, "", ""
				done := false
				timedOut := false
				timer := time.NewTimer(5 * caseTimeout) // generous until the first sign of life
			loop:
				for {
					select {
					case ln, ok := <-lines:
						if !ok {
							break loop
						}
						if !timer.Stop() {
							select {
							case <-timer.C:
							default:
							}
						}
						timer.Reset(loadScaled(caseTimeout))
						parts := strings.SplitN(ln, "\t", 4)
						switch parts[0] {
						case "B":
							lastIdx, _ = strconv.Atoi(parts[1])
							lastDesc = parts[2]
							if len(parts) > 3 {
								lastHex = parts[3]
							}
							if lastIdx%9973 == 7 || lastIdx < 3 {
								// keep a few announced cases as samples in case the property code records none itself
								mu.Lock()
								if len(autoSamples) < 8 {
									b, _ := hex.DecodeString(lastHex)
									autoSamples = append(autoSamples, fmt.Sprintf("case %d (%s): %q", lastIdx, lastDesc, trunc(string(b), 160)))
								}
								mu.Unlock()
							}
						case "F":
							var f Finding
							_ = json.Unmarshal([]byte(strings.SplitN(ln, "\t", 2)[1]), &f)
							mu.Lock()
							res.Findings = append(res.Findings, f)
							mu.Unlock()
						case "S":
							var st Stats
							_ = json.Unmarshal([]byte(strings.SplitN(ln, "\t", 2)[1]), &st)
							mu.Lock()
							mergeStats(&res.Stats, &st)
							mu.Unlock()
							done = true
						}
					case <-timer.C:
						timedOut = true
						_ = cmd.Process.Kill()
						break loop
					}
				}
				_ = cmd.Process.Kill()
				_ = cmd.Wait()
				if done {
					return
				}
				// a worker that never reported a case (slow start on a cold machine) is restarted, not blamed on the code
				if lastIdx < 0 && attempt < 3 {
					continue
				}
				// the worker died (fatal runtime error, OOM kill) or stopped responding on case lastIdx
				inp, _ := hex.DecodeString(lastHex)
				if strings.HasPrefix(lastHex, "@file:") {
					// a long input: keep it next to the replay file
					src := strings.TrimPrefix(lastHex, "@file:")
					_ = os.MkdirAll(verifHome()+"/replays", 0o755)
					dst := filepath.Join(verifHome(), "replays", fmt.Sprintf("%s-crash-input-idx%d.in", prop, lastIdx))
					if b, err := os.ReadFile(src); err == nil && os.WriteFile(dst, b, 0o644) == nil {
						inp = []byte(fmt.Sprintf("<%d bytes, %s: stored in %s; first bytes %q>", len(b), lastDesc, dst, trunc(string(b), 60)))
						lastHex = "@file:" + dst
					}
				}
				kind, key := "crash", "crash@"+firstLine(errb.String())
				if timedOut {
					kind, key = "timeout", "timeout-without-hook"
				}
				if strings.Contains(errb.String(), "DATA RACE") {
					kind = "data-race"
					key = "data-race@" + raceSite(errb.String())
				}
				mu.Lock()
				res.Crashes++
				res.Findings = append(res.Findings, Finding{Prop: prop, Kind: kind, Key: key, Input: fmt.Sprintf("%q", trunc(string(inp), 1500)), InputHex: lastHex,
					Detail: trunc(errb.String(), 1500), Case: fmt.Sprintf("seed=%s tier=%s idx=%d %s", seed, tier, lastIdx, lastDesc)})
				mu.Unlock()
				if lastIdx < 0 {
					return
				}
				from = lastIdx + 1
			}
		}(sh)
	}
	wg.Wait()

	if len(res.Stats.Samples) == 0 {
		res.Stats.Samples = autoSamples
	}
	// merge distinct hashes
	set := map[uint64]struct{}{}
	files, _ := filepath.Glob(filepath.Join(hashDir, "*.hashes"))
	for _, f := range files {
		b, _ := os.ReadFile(f)
		for i := 0; i+8 <= len(b); i += 8 {
			set[binary.LittleEndian.Uint64(b[i:])] = struct{}{}
		}
	}
	res.Distinct = len(set)
	_ = os.RemoveAll(hashDir) // the deferred removal does not run on the os.Exit(1) path below

	known := loadKnown()
	seenKnown := map[string]bool{}
	seenViol := map[string]bool{}
	// concrete failures first, model/obligation disagreements after them; within each group by key
	sort.SliceStable(res.Findings, func(i, j int) bool {
		if res.Findings[i].Disagreement != res.Findings[j].Disagreement {
			return !res.Findings[i].Disagreement
		}
		return res.Findings[i].Key < res.Findings[j].Key
	})
	const maxListed = 60 // distinct violation keys written out (each with its replay file); the rest is counted
	_ = os.MkdirAll(verifHome()+"/replays", 0o755)
	for _, f := range res.Findings {
		id := f.Prop + "|" + f.Key
		if k, ok := known[id]; ok {
			if !seenKnown[id] {
				seenKnown[id] = true
				line := fmt.Sprintf("KNOWN-FINDING: property=%s %s [%s] e.g. input %s", f.Prop, k.What, f.Key, trunc(f.Input, 200))
				fmt.Println(line)
				res.Known = append(res.Known, line)
			}
			continue
		}
		res.Violations = append(res.Violations, f)
		if seenViol[id] {
			continue
		}
		seenViol[id] = true
		if len(seenViol) > maxListed {
			continue
		}
		sum := sha256.Sum256([]byte(f.Key + f.InputHex + f.Input))
		path := fmt.Sprintf("%s/replays/%s-%s.json", verifHome(), f.Prop, hex.EncodeToString(sum[:6]))
		rep := map[string]any{"finding": f, "replay_cmd": fmt.Sprintf("cd %s && ./check %s --replay %s", verifHome(), f.Prop, path)}
		b, _ := json.MarshalIndent(rep, "", " ")
		_ = os.WriteFile(path, b, 0o644)
		res.Replays = append(res.Replays, path)
		suffix := ""
		if f.Disagreement {
			suffix = " no-failing-input-found"
		}
		fmt.Printf("VIOLATION property=%s replay=%s%s\n", f.Prop, path, suffix)
		fmt.Printf("  kind=%s key=%s input=%s\n  %s\n", f.Kind, f.Key, trunc(f.Input, 300), trunc(f.Detail, 400))
	}
	if len(seenViol) > maxListed {
		fmt.Printf("  (%d more distinct violation keys of %s not listed)\n", len(seenViol)-maxListed, prop)
	}
	res.WallS = time.Since(start).Seconds()
	if out := args["out"]; out != "" {
		b, _ := json.MarshalIndent(res, "", " ")
		_ = os.WriteFile(out, b, 0o644)
	}
	fmt.Printf("harness %s tier=%s seed=%s: evaluations=%d distinct_nontrivial=%d findings=%d violations=%d known=%d crashes=%d wall=%.1fs\n",
		prop, tier, seed, res.Stats.Evaluations, res.Distinct, len(res.Findings), len(res.Violations), len(res.Known), res.Crashes, res.WallS)
	if len(res.Violations) > 0 {
		os.Exit(1)
	}
}

// loadScaled stretches a wall-clock limit when the machine is oversubscribed (1-minute load average above the number of
// CPUs): a check that shares the machine with many others must not mistake slowness for a hang. Capped at 12x.
func loadScaled(d time.Duration) time.Duration {
	b, err := os.ReadFile("/proc/loadavg")
	if err != nil {
		return d
	}
	f := strings.Fields(string(b))
	if len(f) == 0 {
		return d
	}
	load, err := strconv.ParseFloat(f[0], 64)
	n := float64(runtime.NumCPU())
	if err != nil || n <= 0 || load <= n {
		return d
	}
	k := load / n
	if k > 12 {
		k = 12
	}
	return time.Duration(float64(d) * k)
}

func firstLine(s string) string {
	for _, ln := range strings.Split(s, "\n") {
		ln = strings.TrimSpace(ln)
		if ln != "" && !strings.HasPrefix(ln, "WARNING") {
			return trunc(ln, 120)
		}
	}
	return "no-output"
}

func mergeStats(dst, src *Stats) {
	dst.Evaluations += src.Evaluations
	dst.ModelCalls += src.ModelCalls
	dst.Disagree += src.Disagree
	if src.MaxRatio > dst.MaxRatio {
		dst.MaxRatio = src.MaxRatio
	}
	for k, v := range src.Counters {
		dst.Counters[k] += v
	}
	for _, s := range src.Samples {
		if len(dst.Samples) < 8 {
			dst.Samples = append(dst.Samples, s)
		}
	}
	if src.Extra != nil {
		if dst.Extra == nil {
			dst.Extra = map[string]any{}
		}
		for k, v := range src.Extra {
			if _, ok := dst.Extra[k]; !ok {
				dst.Extra[k] = v
			}
		}
	}
}

type limitedWriter struct {
	w *strings.Builder
	n int
}

func (l *limitedWriter) Write(p []byte) (int, error) {
	if l.w.Len() < l.n {
		k := l.n - l.w.Len()
		if k > len(p) {
			k = len(p)
		}
		l.w.Write(p[:k])
	}
	return len(p), nil
}

// raceSite names the first repository function in a race detector report.
func raceSite(report string) string {
	fr := repoFrames(report)
	if len(fr) > 0 {
		return fr[0]
	}
	return "unknown"
}

// verifHome is the root of the verification framework (VERIF_HOME overrides it for isolated trial copies).
func verifHome() string {
	if h := os.Getenv("VERIF_HOME"); h != "" {
		return h
	}
	return "/verif"
}
