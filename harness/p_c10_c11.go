package main

import (
	"bytes"
	"context"
	"crypto/sha256"
	"encoding/hex"
	"fmt"
	"io"
	"os"
	"os/exec"
	"reflect"
	"strings"
	"sync"

	"github.com/sqlc-dev/doubleclick/ast"
	"github.com/sqlc-dev/doubleclick/lexer"
	"github.com/sqlc-dev/doubleclick/parser"
)

func init() {
	props["C10"] = runC10
	props["C11"] = runC11
}

// siteStatements reach every place where the EXPLAIN printer used to write shared state
// (package-level flags, write-and-restore edits of the caller's tree) and their neighbours.
var siteStatements = []string{
	"CREATE VIEW v AS SELECT a FROM t FORMAT JSON",
	"CREATE MATERIALIZED VIEW mv ENGINE = MergeTree ORDER BY a AS SELECT a FROM t FORMAT TSV",
	"CREATE MATERIALIZED VIEW mv TO dst AS SELECT a FROM t FORMAT Null",
	"CREATE WINDOW VIEW wv AS SELECT count() FROM t GROUP BY tumble(ts, INTERVAL 1 SECOND) FORMAT JSON",
	"CREATE TABLE t2 ENGINE = Memory AS SELECT 1 FORMAT JSON",
	"INSERT INTO t SELECT a FROM s FORMAT JSON",
	"INSERT INTO t (a, b) SELECT 1, 2 UNION ALL SELECT 3, 4 FORMAT TSV",
	"WITH 1 AS x INSERT INTO t SELECT x FORMAT JSON",
	"EXPLAIN SELECT a FROM t FORMAT JSON",
	"EXPLAIN SYNTAX SELECT a FROM t FORMAT JSON SETTINGS max_threads = 1",
	"EXPLAIN AST SELECT 1 UNION ALL SELECT 2 FORMAT Null SETTINGS a = 1",
	"EXPLAIN header = 1 SELECT a FROM t SETTINGS b = 2 FORMAT TSV",
	"SELECT a FROM t FORMAT JSON",
	"SELECT a FROM t SETTINGS x = 1 FORMAT JSON",
	"SELECT a FROM t FORMAT JSON SETTINGS x = 1",
	"SELECT * FROM (SELECT -1 AS x)",
	"SELECT (SELECT -1 AS y) AS z, x IN (SELECT -2 AS w)",
	"SELECT * FROM view(SELECT -1 AS x)",
	"SELECT * FROM (SELECT 1) AS s JOIN (SELECT -3 AS q) AS r ON 1",
	"SELECT * FROM (EXPLAIN SELECT 1)",
	"SELECT 1 INTO OUTFILE 'f' FORMAT CSV",
	"SELECT a, b FROM t WHERE c GROUP BY a WITH TOTALS ORDER BY b LIMIT 3",
	"ALTER TABLE t ADD COLUMN c UInt8, DROP COLUMN d",
	"CREATE TABLE t (a UInt8, b String DEFAULT 'x') ENGINE = MergeTree ORDER BY a",
	// function-call shapes whose rendering rebuilds argument lists (FILTER, OVER, parametric, asterisks, special floats, bit strings)
	"SELECT sumIf(a, b, c) FILTER (WHERE d > 0), corr(*, y) FILTER (WHERE z > 0), f(a, b, c, d, e) FILTER (WHERE g) FROM t",
	"SELECT f(a) FILTER (WHERE b), g(a, b, c, d, e, f) FILTER (WHERE h), h(a, b, c, d, e, f, g) FILTER (WHERE i) FROM t",
	"SELECT count(*) FILTER (WHERE a), quantile(0.5)(x) OVER (PARTITION BY a ORDER BY b), count(DISTINCT a, b, c) FROM t",
	"SELECT nan, inf, -inf, (nan), [inf, -inf], b'0101', b'01010101 0101', x'4142', SUM(a), sum(b), Sum(c) FROM t",
	"SELECT a IN (1, 2, 3), b NOT IN (SELECT 1), (1, 2) IN ((1, 2), (3, 4)), CASE a WHEN 1 THEN 2 ELSE 3 END, a BETWEEN 1 AND 2",
	// union shapes whose rendering regroups / flattens operand lists
	"SELECT 1 UNION ALL (SELECT 2 UNION DISTINCT SELECT 3 UNION ALL SELECT 4 UNION ALL SELECT 5)",
	"SELECT 1 UNION DISTINCT SELECT 2 UNION ALL SELECT 3",
	"SELECT 1 UNION ALL (SELECT 2 UNION ALL SELECT 3) UNION ALL SELECT 4",
	"(SELECT 1 UNION ALL SELECT 2) UNION DISTINCT SELECT 3 UNION ALL SELECT 4",
	"SELECT 1 INTERSECT SELECT 2 EXCEPT SELECT 3 UNION ALL SELECT 4",
	// shapes whose printers normalise, filter or re-type something on the way (each must work on copies)
	"SELECT 0x1ffffffffffffffffff, 0XABCDEF0123456789ABCDEF", "SELECT 0xFFFFFFFFFFFFFFFFFFFFFFFF AS a, -0x10000000000000000", "SELECT [0x123456789abcdef0123, 0xfedcba98765432100]",
	"ALTER TABLE t CLEAR STATISTICS a, b", "ALTER TABLE t ADD STATISTICS c TYPE countmin(5), uniq", "SELECT INTERVAL '2 years', INTERVAL '-3 day'", "SELECT count(*, x) FILTER (WHERE y > 0) FROM t",
	"SELECT corr(a, b, c) FILTER (WHERE d) FROM t", "SELECT sum(a) FILTER (WHERE b), quantile(0.5)(x) FROM t", "INSERT INTO t SELECT 1 UNION ALL SELECT 2 FORMAT TSV", "EXPLAIN SELECT 1 FORMAT 'JSON' SETTINGS a = 1",
	"SELECT 1 UNION ALL (SELECT 2 UNION ALL SELECT 3) UNION ALL SELECT 4", "SELECT x IN ((1, c), (2, 3)) AS r, -0, (-0, 1), [1, -x] FROM t", "SELECT * FROM t SAMPLE 1/10 OFFSET 1/2",
	"WITH 1 AS x SELECT x UNION ALL (SELECT 2 UNION DISTINCT SELECT 3 UNION ALL SELECT 4)",
}

type baseline struct {
	input   string
	nstmts  int
	err     string
	explain []string
	all     string
	js      []string
}

func makeBaseline(input string) (baseline, bool) {
	obs := safeParse([]byte(input), 1<<22)
	b := baseline{input: input}
	if obs.Panicked || obs.Budget {
		return b, false
	}
	b.nstmts = len(obs.Stmts)
	b.err = errString(obs.Err)
	for _, s := range obs.Stmts {
		e := safeExplain(s)
		m := safeMarshal(s)
		if e.Panicked || m.Panicked {
			return b, false
		}
		b.explain = append(b.explain, e.Out)
		b.js = append(b.js, m.Out+"|"+errString(m.Err))
	}
	es := safeExplainStatements(obs.Stmts)
	if es.Panicked {
		return b, false
	}
	b.all = es.Out
	return b, true
}

func (b baseline) diff(o baseline) string {
	if b.nstmts != o.nstmts {
		return fmt.Sprintf("statement count %d vs %d", b.nstmts, o.nstmts)
	}
	if b.err != o.err {
		return fmt.Sprintf("error %q vs %q", b.err, o.err)
	}
	for i := range b.explain {
		if b.explain[i] != o.explain[i] {
			return fmt.Sprintf("Explain of statement %d differs:\n--- alone\n%s--- concurrent\n%s", i, trunc(b.explain[i], 600), trunc(o.explain[i], 600))
		}
		if b.js[i] != o.js[i] {
			return fmt.Sprintf("json.Marshal of statement %d differs", i)
		}
	}
	if b.all != o.all {
		return "ExplainStatements differs"
	}
	return ""
}

// workloadPool: site statements + a seeded corpus/grammar sample.
func workloadPool(w *W, n int) []string {
	stmts, _ := loadCorpus()
	pool := append([]string(nil), siteStatements...)
	r := NewRng(w.Seed, 0, 10)
	for len(pool) < n {
		if r.Chance(2, 3) {
			pool = append(pool, stmts[r.Intn(len(stmts))].Text)
		} else {
			g := &Gen{r: r}
			pool = append(pool, g.statement(3))
		}
	}
	return pool
}

// runC10: goroutines call Parse / Explain / ExplainStatements / json.Marshal at the same time, on
// distinct inputs and on the same parsed statement; each result must equal the sequential baseline.
// The same worker built with -race (bin/harness-race) turns data races into a non-zero exit.
func runC10(w *W) {
	rounds := w.pickN(6, 120)
	const G = 8
	pool := workloadPool(w, w.pickN(400, 4000))
	for round := 0; round < rounds; round++ {
		idx, mine := w.Case()
		if !mine {
			continue
		}
		w.Begin(idx, nil, fmt.Sprintf("round %d", round))
		r := NewRng(w.Seed, uint64(idx), 11)
		// choose this round's inputs: always the site statements plus a random slice of the pool
		var inputs []string
		inputs = append(inputs, siteStatements...)
		for k := 0; k < 60; k++ {
			inputs = append(inputs, pool[r.Intn(len(pool))])
		}
		// texts whose errors carry lines and columns beyond line 1 (a lexer or parser recycled with stale state shifts them)
		inputs = append(inputs, "SELECT 1 ,\n2 FROM\n)", "SELECT a\nFROM t\nWHERE (\n1", "\n\nRENAME x", "SELECT 1;\nSELECT 2 ,\n;\nEXCHANGE y", "SELECT 'multi\nline' ,\n /* c\n */ ]")
		var bases []baseline
		for _, in := range inputs {
			if b, ok := makeBaseline(in); ok {
				bases = append(bases, b)
			}
		}
		// disturbers: calls that end early or abnormally while the others run — a parse under an already cancelled
		// context, one cancelled part-way through its input, one whose reader fails, a lexer abandoned after a few tokens,
		// a call that panics (recovered). What they leave behind (pooled lexers, buffers, counters) must not reach anyone.
		stopDisturb := make(chan struct{})
		var dwg sync.WaitGroup
		disturbInputs := []string{"SELECT 1 \x00 2", "SELECT 1;\x00", "\xef\xbb\xbfSELECT \xff ,\n1", "SELECT 1 ,\n2", "SELECT a ,\n\n\nb FROM t;\nSELECT 3", "SELECT 'x\ny' ,\n1;\nSELECT 2;\nSELECT 3", "SELECT /* c\n */ 1 ,\n(\n2)"}
		disturb := func(k int) {
			in := disturbInputs[k%len(disturbInputs)]
			switch k % 5 {
			case 0:
				ctx, cancel := context.WithCancel(context.Background())
				cancel()
				_ = safeParseCtx(ctx, []byte(in), 1<<22)
			case 1:
				ctx, cancel := context.WithCancel(context.Background())
				rd := &cancelAtReader{data: []byte(in), at: 1 + k%len(in), cancel: cancel}
				_ = guard(func() (string, error) { _, err := parser.Parse(ctx, rd); return "", err })
				cancel()
			case 2:
				rd := &cancelAtReader{data: []byte(in), at: 1 + k%len(in), fail: true}
				_ = guard(func() (string, error) { _, err := parser.Parse(context.Background(), rd); return "", err })
			case 3:
				_ = guard(func() (string, error) {
					l := lexer.New(strings.NewReader(in))
					for i := 0; i < 2+k%4; i++ {
						l.NextToken()
					}
					return "", nil
				})
			case 4:
				if obs := safeParse([]byte("SELECT 1, (EXPLAIN SELECT 1 ORDER)"), 1<<22); len(obs.Stmts) > 0 {
					_ = safeExplain(obs.Stmts[0])
				}
			}
		}
		for d := 0; d < 2; d++ {
			dwg.Add(1)
			go func(d int) {
				defer dwg.Done()
				for k := 0; ; k++ {
					select {
					case <-stopDisturb:
						return
					default:
					}
					disturb(k + d)
				}
			}(d)
		}
		// (a) distinct inputs in parallel
		var wg sync.WaitGroup
		var mu sync.Mutex
		report := func(kind, key, input, detail string) {
			mu.Lock()
			defer mu.Unlock()
			w.Report(Finding{Kind: kind, Key: key, Input: fmt.Sprintf("%q", input), Detail: detail})
		}
		for g := 0; g < G; g++ {
			wg.Add(1)
			go func(g int) {
				defer wg.Done()
				for rep := 0; rep < 3; rep++ {
					for i := g; i < len(bases); i += 1 + g%3 {
						o, ok := makeBaseline(bases[i].input)
						if !ok {
							report("concurrent-panic", "concurrent-panic", bases[i].input, "call panicked only when run concurrently")
							continue
						}
						if d := bases[i].diff(o); d != "" {
							report("cross-talk", "cross-talk@distinct-inputs", bases[i].input, d)
						}
					}
				}
			}(g)
		}
		wg.Wait()
		// (b) the same parsed statements shared by all goroutines
		type shared struct {
			b     baseline
			stmts []ast.Statement
		}
		var sh []shared
		for _, b := range bases {
			obs := safeParse([]byte(b.input), 1<<22)
			if !obs.Panicked && !obs.Budget && len(obs.Stmts) > 0 {
				sh = append(sh, shared{b, obs.Stmts})
			}
		}
		for g := 0; g < G; g++ {
			wg.Add(1)
			go func(g int) {
				defer wg.Done()
				for rep := 0; rep < 3; rep++ {
					for _, s := range sh {
						for i, st := range s.stmts {
							switch (g + rep) % 3 {
							case 0:
								if e := safeExplain(st); e.Panicked || e.Out != s.b.explain[i] {
									report("cross-talk", "cross-talk@shared-statement-explain", s.b.input, "Explain of a statement shared between goroutines differs from its sequential output:\n"+trunc(e.Out, 500))
								}
							case 1:
								if m := safeMarshal(st); m.Panicked || m.Out+"|"+errString(m.Err) != s.b.js[i] {
									report("cross-talk", "cross-talk@shared-statement-marshal", s.b.input, "json.Marshal of a shared statement differs from its sequential output")
								}
							case 2:
								if i == 0 {
									if e := safeExplainStatements(s.stmts); e.Panicked || e.Out != s.b.all {
										report("cross-talk", "cross-talk@shared-statement-explainstatements", s.b.input, "ExplainStatements of shared statements differs")
									}
								}
							}
						}
					}
				}
			}(g)
		}
		wg.Wait()
		close(stopDisturb)
		dwg.Wait()
		// … and sequentially, after the disturbers have stopped: every input once more against its baseline
		for i, b := range bases {
			disturb(i) // in this very goroutine: what a pooled object keeps is handed to the next call on the same thread first
			if o, ok := makeBaseline(b.input); ok {
				if d := b.diff(o); d != "" {
					report("cross-talk", "cross-talk@after-disturbed-calls", b.input, d)
				}
			}
		}
		for _, b := range bases {
			w.Eval([]byte(b.input), true)
		}
		w.Count("rounds")
		w.stats.Counters["calls"] += len(bases)*G*3 + len(sh)*G*3
		if round == 0 {
			w.Sample(fmt.Sprintf("round of %d inputs x %d goroutines; e.g. %q", len(bases), G, bases[0].input))
		}
	}
}

// cancelAtReader serves data in small pieces and, once `at` bytes are out, cancels a context or fails.
type cancelAtReader struct {
	data   []byte
	pos    int
	at     int
	cancel func()
	fail   bool
}

func (c *cancelAtReader) Read(p []byte) (int, error) {
	if c.pos >= c.at {
		if c.cancel != nil {
			c.cancel()
		}
		if c.fail {
			return 0, fmt.Errorf("disturber: read failed at %d", c.pos)
		}
	}
	if c.pos >= len(c.data) {
		return 0, io.EOF
	}
	n := 3
	if n > len(p) {
		n = len(p)
	}
	if c.pos+n > len(c.data) {
		n = len(c.data) - c.pos
	}
	copy(p, c.data[c.pos:c.pos+n])
	c.pos += n
	return n, nil
}

// runC11: Explain / ExplainStatements / json.Marshal leave the statement deeply unchanged, are repeatable,
// and do not depend on the history of earlier calls.
func runC11(w *W) {
	stmts, _ := loadCorpus()
	n := w.pickN(12000, 400000)
	pool := workloadPool(w, 300)
	fresh := map[string]string{}
	// inputs whose Explain panics (recovered): seeded with shapes that are accepted with a parse error and crash the
	// printer, extended by whatever this run discovers; they are replayed inside later histories
	panickers := []string{"SELECT 1, (EXPLAIN SELECT 1 ORDER)", "SELECT (EXPLAIN SELECT", "SELECT 1 FROM (EXPLAIN SELECT 1 ORDER BY)"}
	var seenInputs []string
	seenOut := map[string]string{}
	// fixed inputs: the site statements, then the scripts / expression shapes / WINDOW definitions of fuzzspace2.go
	// (ExplainStatements treats a simple SELECT after an INSERT specially; arrays, tuples and signed literals have printers of their own)
	fixed := append([]string(nil), siteStatements...)
	fixed = append(fixed, stratifiedCorpus(stmts, 2, 3000)...) // every statement kind of the corpus
	{
		cnt := 0
		step := w.pickN(2, 1)
		fuzzSpace2(w, func(input, desc string) {
			if desc == "script2" || desc == "script3" || desc == "insert-then-select" || desc == "windows" || desc == "expr" {
				if cnt%step == 0 {
					fixed = append(fixed, input)
				}
				cnt++
			} else if desc == "tails" || desc == "tails-valid" {
				// all of them for the statement kinds whose printers copy or rewrite parts of the tree (EXPLAIN, SELECT, INSERT, CREATE … AS)
				if cnt%(3*step) == 0 || strings.HasPrefix(input, "EXPLAIN") || strings.HasPrefix(input, "SELECT") || strings.HasPrefix(input, "INSERT") || strings.HasPrefix(input, "CREATE VIEW") || strings.HasPrefix(input, "WITH") || strings.HasPrefix(input, "(SELECT") {
					fixed = append(fixed, input)
				}
				cnt++
			}
		})
	}
	for k := 0; k < n+len(fixed); k++ {
		idx, mine := w.Case()
		if !mine {
			continue
		}
		r := NewRng(w.Seed, uint64(idx), 12)
		var input string
		switch {
		case k < len(fixed):
			input = fixed[k]
		case r.Chance(1, 2):
			input = stmts[r.Intn(len(stmts))].Text
			if r.Chance(1, 4) {
				if v, ok := leafSubstitute(r, input); ok && len(input) < 3000 {
					input = v
				}
			}
		case r.Chance(1, 2):
			g := &Gen{r: r}
			input = g.statement(3)
		default:
			base := stmts[r.Intn(len(stmts))].Text
			if ts, ok := spanTexts(base); ok && len(ts) > 0 {
				input = joinTokens(mutateTokens(r, ts, nil))
			} else {
				input = base
			}
		}
		w.Begin(idx, []byte(input), "c11")
		obs := safeParse([]byte(input), 1<<22)
		if obs.Panicked || obs.Budget || len(obs.Stmts) == 0 {
			w.stats.Evaluations++
			continue
		}
		in := fmt.Sprintf("%q", input)
		// (1) deep snapshot before / after each API call; (2) repeatability
		before := make([]string, len(obs.Stmts))
		for i, s := range obs.Stmts {
			before[i] = snapshotStmt(s)
		}
		firstOut := make([]string, len(obs.Stmts))
		firstAll := ""
		bad := false
		for rep := 0; rep < 3 && !bad; rep++ {
			for i, s := range obs.Stmts {
				e := safeExplain(s)
				m := safeMarshal(s)
				out := e.Out + "\x00" + m.Out + "\x00" + errString(m.Err) + fmt.Sprint(e.Panicked, m.Panicked)
				if rep == 0 {
					firstOut[i] = out
				} else if out != firstOut[i] {
					w.Report(Finding{Kind: "not-repeatable", Key: "not-repeatable@" + reflect.TypeOf(s).String(), Input: in, InputHex: hexs([]byte(input)), Detail: fmt.Sprintf("call %d returned different output than call 1", rep+1)})
					bad = true
				}
				if a := snapshotStmt(s); a != before[i] {
					w.Report(Finding{Kind: "mutated", Key: "mutated@" + reflect.TypeOf(s).String(), Input: in, InputHex: hexs([]byte(input)), Detail: "the statement differs after Explain/json.Marshal: " + firstDiff(before[i], a)})
					bad = true
				}
			}
			es := safeExplainStatements(obs.Stmts)
			if rep == 0 {
				firstAll = es.Out + fmt.Sprint(es.Panicked)
			} else if es.Out+fmt.Sprint(es.Panicked) != firstAll {
				w.Report(Finding{Kind: "not-repeatable", Key: "not-repeatable@ExplainStatements", Input: in, InputHex: hexs([]byte(input)), Detail: fmt.Sprintf("call %d of ExplainStatements returned different output than call 1", rep+1)})
				bad = true
			}
			for i, s := range obs.Stmts {
				if a := snapshotStmt(s); a != before[i] {
					w.Report(Finding{Kind: "mutated", Key: "mutated-by-explainstatements@" + reflect.TypeOf(s).String(), Input: in, InputHex: hexs([]byte(input)), Detail: firstDiff(before[i], a)})
					bad = true
				}
			}
		}
		// (3) history independence: output after a random history of other calls (including inputs whose
		// Explain panics, recovered) equals the output of the first call in this process for the same text.
		// A "fresh" reference is the first output ever computed for that input in this worker process; the
		// supervisor runs 16 processes with different histories, and the first calls here precede any history.
		key := input
		ref, seen := fresh[key]
		cur := strings.Join(firstOut, "\x01")
		if !seen {
			fresh[key] = cur
		} else if ref != cur {
			w.Report(Finding{Kind: "history", Key: "history-dependent", Input: in, InputHex: hexs([]byte(input)), Detail: "output differs from the output of the first call in this process"})
		}
		hist := 1 + r.Intn(12)
		for h := 0; h < hist; h++ {
			other := pool[r.Intn(len(pool))]
			if r.Chance(1, 4) {
				other = siteStatements[r.Intn(len(siteStatements))]
			}
			if len(panickers) > 0 && r.Chance(1, 3) {
				other = panickers[r.Intn(len(panickers))] // an earlier call that panics and is recovered
			}
			o := safeParse([]byte(other), 1<<22)
			for _, s := range o.Stmts {
				if e := safeExplain(s); e.Panicked && len(panickers) < 64 {
					panickers = append(panickers, other)
				}
			}
		}
		obs2 := safeParse([]byte(input), 1<<22)
		if !obs2.Panicked && len(obs2.Stmts) == len(obs.Stmts) && len(obs2.Stmts) > 0 {
			if es2 := safeExplainStatements(obs2.Stmts); es2.Out+fmt.Sprint(es2.Panicked) != firstAll {
				w.Report(Finding{Kind: "history", Key: "history-dependent@ExplainStatements", Input: in, InputHex: hexs([]byte(input)),
					Detail: "ExplainStatements of a fresh parse of the same text differs from its first output in this process: " + firstDiff(firstAll, es2.Out)})
			}
		}
		if !obs2.Panicked && len(obs2.Stmts) == len(obs.Stmts) {
			for i, s := range obs2.Stmts {
				e := safeExplain(s)
				m := safeMarshal(s)
				out := e.Out + "\x00" + m.Out + "\x00" + errString(m.Err) + fmt.Sprint(e.Panicked, m.Panicked)
				if out != firstOut[i] {
					w.Report(Finding{Kind: "history", Key: "history-dependent@" + reflect.TypeOf(s).String(), Input: in, InputHex: hexs([]byte(input)),
						Detail: fmt.Sprintf("after %d other Parse/Explain calls the output changed", hist)})
				}
			}
		}
		w.Eval([]byte(input), true)
		if _, dup := seenOut[input]; !dup && len(seenInputs) < 4000 {
			seenInputs = append(seenInputs, input)
			seenOut[input] = strings.Join(append(append([]string(nil), firstOut...), firstAll), "\x01") // same shape as c11Outputs
		}
		if w.stats.Evaluations%3000 == 1 {
			w.Sample(in)
		}
	}
	// (4) order independence against a FRESH process: a child process explains the same inputs in reverse order, so
	// every input meets a different history (first-writer-wins caches, interning, pooled buffers show up here)
	if w.Only < 0 && len(seenInputs) > 1 {
		w.Begin(-1, nil, "fresh-process replay in reverse order")
		got := c11FreshReplay(seenInputs)
		for i, in := range seenInputs {
			if got == nil || i >= len(got) {
				break
			}
			if got[i] != sumHex(seenOut[in]) {
				w.Report(Finding{Kind: "history", Key: "history-dependent@fresh-process", Input: fmt.Sprintf("%q", in), InputHex: hexs([]byte(in)),
					Detail: "Explain/json.Marshal output in this process differs from the output of a fresh process that met the inputs in reverse order"})
			}
		}
		w.stats.Counters["fresh-process-replays"] += len(seenInputs)
	}
}

func sumHex(s string) string {
	h := sha256.Sum256([]byte(s))
	return hex.EncodeToString(h[:8])
}

// c11Outputs is what both sides compute for one input.
func c11Outputs(input string) string {
	obs := safeParse([]byte(input), 1<<22)
	if obs.Panicked || obs.Budget {
		return "unparsed"
	}
	outs := make([]string, len(obs.Stmts))
	for i, s := range obs.Stmts {
		e := safeExplain(s)
		m := safeMarshal(s)
		outs[i] = e.Out + "\x00" + m.Out + "\x00" + errString(m.Err) + fmt.Sprint(e.Panicked, m.Panicked)
	}
	if len(obs.Stmts) > 0 {
		es := safeExplainStatements(obs.Stmts)
		outs = append(outs, es.Out+fmt.Sprint(es.Panicked))
	}
	return strings.Join(outs, "\x01")
}

// c11FreshReplay runs `harness tool c11-replay` on the inputs in reverse order and returns the digests in input order.
func c11FreshReplay(inputs []string) []string {
	self, err := os.Executable()
	if err != nil {
		return nil
	}
	var in bytes.Buffer
	for i := len(inputs) - 1; i >= 0; i-- {
		in.WriteString(hexOrDash([]byte(inputs[i])))
		in.WriteByte('\n')
	}
	cmd := exec.Command(self, "tool", "c11-replay")
	cmd.Stdin = &in
	out, err := cmd.Output()
	if err != nil {
		return nil
	}
	lines := strings.Split(strings.TrimSpace(string(out)), "\n")
	if len(lines) != len(inputs) {
		return nil
	}
	res := make([]string, len(inputs))
	for k, ln := range lines {
		res[len(inputs)-1-k] = ln
	}
	return res
}

func firstDiff(a, b string) string {
	n := min(len(a), len(b))
	i := 0
	for i < n && a[i] == b[i] {
		i++
	}
	lo := max(0, i-80)
	return fmt.Sprintf("at byte %d: before …%s… after …%s…", i, trunc(a[lo:min(len(a), i+80)], 200), trunc(b[lo:min(len(b), i+80)], 200))
}
