package main

import (
	"context"
	"fmt"
	"io"
	"sort"
	"strings"
	"unicode"

	"github.com/sqlc-dev/doubleclick/parser"
	"github.com/sqlc-dev/doubleclick/token"
)

func init() { props["C17"] = runC17 }

func casings(r *Rng, s string) []string {
	out := []string{strings.ToUpper(s), strings.ToLower(s)}
	alt := []rune(strings.ToLower(s))
	for i := range alt {
		if i%2 == 0 {
			alt[i] = unicode.ToUpper(alt[i])
		}
	}
	out = append(out, string(alt))
	for k := 0; k < 3; k++ {
		rs := []rune(strings.ToLower(s))
		for i := range rs {
			if r.Chance(1, 2) {
				rs[i] = unicode.ToUpper(rs[i])
			}
		}
		out = append(out, string(rs))
	}
	return out
}

// runC17: exhaustive over the token table as it is in the build under test.
func runC17(w *W) {
	// the table: every token value that has a spelling or is classified as keyword
	maxTok := 0
	for i := 0; i < 4096; i++ {
		if token.Token(i).String() != "" || token.Token(i).IsKeyword() {
			maxTok = i
		}
	}
	var kws []token.Token
	for i := 0; i <= maxTok+1; i++ {
		if token.Token(i).IsKeyword() {
			kws = append(kws, token.Token(i))
		}
	}
	// (1) table consistency, on the real functions
	idx, mine := w.Case()
	if mine {
		w.Begin(idx, nil, "table")
		seen := map[string]token.Token{}
		for _, k := range kws {
			sp := k.String()
			w.Eval([]byte("table:"+sp), true)
			if sp == "" {
				w.Report(Finding{Kind: "table", Key: "table@empty-spelling", Input: fmt.Sprint(int(k)), Detail: fmt.Sprintf("keyword token %d has no spelling", int(k))})
				continue
			}
			if sp != strings.ToUpper(sp) {
				w.Report(Finding{Kind: "table", Key: "table@not-upper", Input: sp, Detail: "keyword spelling is not upper-case"})
			}
			if o, dup := seen[sp]; dup {
				w.Report(Finding{Kind: "table", Key: "table@duplicate-spelling", Input: sp, Detail: fmt.Sprintf("tokens %d and %d share the spelling", int(o), int(k))})
			}
			seen[sp] = k
			if got := token.Lookup(sp); got != k {
				w.Report(Finding{Kind: "table", Key: "table@lookup", Input: sp, Detail: fmt.Sprintf("Lookup(%q) = %d (%s), want %d", sp, int(got), got, int(k))})
			}
		}
		// Lookup finds a keyword from its spelling and from no other string
		keys := make([]string, 0, len(token.Keywords))
		for s := range token.Keywords {
			keys = append(keys, s)
		}
		sort.Strings(keys)
		for _, s := range keys {
			k := token.Keywords[s]
			if !k.IsKeyword() || k.String() != s {
				w.Report(Finding{Kind: "table", Key: "table@keywords-map", Input: s, Detail: fmt.Sprintf("Keywords[%q] = %d whose spelling is %q, IsKeyword=%v", s, int(k), k.String(), k.IsKeyword())})
			}
		}
		if len(keys) != len(kws) {
			w.Report(Finding{Kind: "table", Key: "table@keywords-map-size", Input: fmt.Sprint(len(keys)), Detail: fmt.Sprintf("%d entries in Keywords, %d keyword tokens", len(keys), len(kws))})
		}
		// every token with a spelling that is not a keyword must not be found by Lookup as itself being a keyword
		for i := 0; i <= maxTok+1; i++ {
			t := token.Token(i)
			if !t.IsKeyword() && t.String() != "" {
				if got := token.Lookup(t.String()); got.IsKeyword() && got.String() != t.String() {
					w.Report(Finding{Kind: "table", Key: "table@lookup-nonkeyword", Input: t.String(), Detail: "non-keyword spelling resolves to a keyword with another spelling"})
				}
			}
		}
		// probes that are not spellings
		for _, s := range []string{"", "select", "Select", "SELECT ", " SELECT", "SELEC", "SELECTT", "IDENT", "EOF", "keyword_beg", "ſELECT"} {
			if got := token.Lookup(s); got.IsKeyword() && got.String() != s {
				w.Report(Finding{Kind: "table", Key: "table@lookup-foreign", Input: s, Detail: fmt.Sprintf("Lookup(%q) = %s", s, got)})
			}
		}
		w.Sample(fmt.Sprintf("%d keyword tokens, first %q last %q", len(kws), kws[0].String(), kws[len(kws)-1].String()))
	}
	// (2) every keyword, in several casings, as a name in the three positions
	type probe struct {
		name string
		sql  func(k string) string
		want func(k string) string
	}
	probes := []probe{
		{"column-after-dot", func(k string) string { return "SELECT t." + k }, func(k string) string { return "Identifier t." + k }},
		{"column-alias", func(k string) string { return "SELECT 1 AS " + k }, func(k string) string { return "Literal UInt64_1 (alias " + k + ")" }},
		{"table-alias", func(k string) string { return "SELECT 1 FROM t AS " + k }, func(k string) string { return "TableIdentifier t (alias " + k + ")" }},
	}
	// the same three positions behind every kind of expression / table expression that handles its alias itself, and with
	// something following the name (the special parse functions — CASE, CAST, SUBSTRING, TRIM, EXTRACT, `::`, lambdas,
	// table functions, subqueries, joins — each carry their own copy of the alias code)
	aliasLine := func(k string) string { return "(alias " + k + ")" }
	for i, e := range []string{"x", "f(x)", "CASE WHEN 1 THEN 2 END", "CASE x WHEN 1 THEN 2 ELSE 3 END", "CAST(x AS Int8)", "CAST(x, 'Int8')", "x::Int8", "(SELECT 1)", "[1, 2]", "(1, 2)",
		"x + 1", "'s'", "-1", "NOT x", "INTERVAL 1 DAY", "EXTRACT(DAY FROM d)", "SUBSTRING(s FROM 1 FOR 2)", "TRIM(BOTH 'a' FROM s)", "count() OVER ()", "t.a", "a[1]", "t.1", "{p:UInt8}",
		"x IN (1, 2)", "x BETWEEN 1 AND 2", "x IS NULL", "if(1, 2, 3)", "position('a' IN s)", "NULL", "1.5", "x -> x", "arrayMap(y -> y, z)", "DATE '2020-01-01'", "x LIKE 'a'", "(x)", "((1))", "*"} {
		e := e
		if e == "*" {
			// the replacement name is not printed: the tree must be the one obtained with an ordinary name
			probes = append(probes, probe{"replace-name", func(k string) string { return "SELECT * REPLACE (1 AS " + k + ") FROM t" }, func(k string) string { return "=same-as:SELECT * REPLACE (1 AS zz) FROM t" }})
			probes = append(probes, probe{"columns-replace-name", func(k string) string { return "SELECT COLUMNS('a') REPLACE (1 AS " + k + ") FROM t" }, func(k string) string { return "=same-as:SELECT COLUMNS('a') REPLACE (1 AS zz) FROM t" }})
			continue
		}
		probes = append(probes, probe{fmt.Sprintf("column-alias#%d", i), func(k string) string { return "SELECT " + e + " AS " + k }, aliasLine})
		probes = append(probes, probe{fmt.Sprintf("column-alias-then-more#%d", i), func(k string) string { return "SELECT " + e + " AS " + k + ", 2 FROM t" }, aliasLine})
	}
	for i, te := range []string{"t", "db.t", "numbers(1)", "(SELECT 1)", "remote('h', db.t)", "`q t`"} {
		te := te
		probes = append(probes, probe{fmt.Sprintf("table-alias#%d", i), func(k string) string { return "SELECT 1 FROM " + te + " AS " + k }, aliasLine})
		probes = append(probes, probe{fmt.Sprintf("table-alias-then-more#%d", i), func(k string) string { return "SELECT 1 FROM " + te + " AS " + k + " WHERE 1" }, aliasLine})
		probes = append(probes, probe{fmt.Sprintf("join-alias#%d", i), func(k string) string { return "SELECT 1 FROM u JOIN " + te + " AS " + k + " ON 1" }, aliasLine})
	}
	for i, f := range [][2]string{{"SELECT t.", " FROM t"}, {"SELECT t.", ", 2"}, {"SELECT f(t.", ")"}, {"SELECT t.", " + 1"}, {"SELECT 1 FROM t WHERE t.", " = 1"}, {"SELECT 1 FROM t ORDER BY t.", ""},
		{"SELECT db.t.", ""}, {"SELECT t.", " AS a"}, {"SELECT 1 FROM t GROUP BY t.", ""}, {"SELECT -t.", ""}, {"SELECT t.", "::Int8"}} {
		f := f
		probes = append(probes, probe{fmt.Sprintf("column-after-dot#%d", i), func(k string) string { return f[0] + k + f[1] }, func(k string) string { return "t." + k }})
	}
	// what follows the name, and what separates it from `.` / AS (comments are tokens for the lexer: a comment or a line
	// break between the dot or AS and the name must change nothing)
	for i, f := range []string{" WITH TOTALS", " FINAL", " SAMPLE 0.1", " ARRAY JOIN a", " PREWHERE 1", " GROUP BY a WITH TOTALS", " ORDER BY 1", " LIMIT 1", " UNION ALL SELECT 2", " SETTINGS a = 1",
		" FORMAT Null", " INTO OUTFILE 'f'", ", u", " JOIN u USING (a)", " WINDOW w AS ()", " QUALIFY 1", " HAVING 1", " OFFSET 1", " EXCEPT SELECT 2", ""} {
		f := f
		probes = append(probes, probe{fmt.Sprintf("table-alias-follow#%d", i), func(k string) string { return "SELECT 1 FROM t AS " + k + f }, aliasLine})
	}
	for i, f := range []string{" FROM t", ", 2", " WHERE 1", " UNION ALL SELECT 2", " FORMAT Null", " INTO OUTFILE 'f'", " SETTINGS a = 1", " ORDER BY 1", " LIMIT 1", " GROUP BY 1", " HAVING 1", " WINDOW w AS ()", " INTERSECT SELECT 2"} {
		f := f
		probes = append(probes, probe{fmt.Sprintf("column-alias-follow#%d", i), func(k string) string { return "SELECT 1 AS " + k + f }, aliasLine})
	}
	for i, g := range []string{"/* c */", " /* c */ ", "--x\n", " \n ", "\t", "/**/"} {
		g := g
		probes = append(probes, probe{fmt.Sprintf("dot-gap#%d", i), func(k string) string { return "SELECT t." + g + k + " FROM t" }, func(k string) string { return "t." + k }})
		probes = append(probes, probe{fmt.Sprintf("dot-gap-before#%d", i), func(k string) string { return "SELECT t" + g + "." + k + " FROM t" }, func(k string) string { return "t." + k }})
		if strings.TrimSpace(g) != g || strings.HasSuffix(g, "\n") || strings.HasSuffix(g, "/") {
			probes = append(probes, probe{fmt.Sprintf("column-alias-gap#%d", i), func(k string) string { return "SELECT 1 AS" + g + k + g + "FROM t" }, aliasLine})
			probes = append(probes, probe{fmt.Sprintf("table-alias-gap#%d", i), func(k string) string { return "SELECT 1 FROM t AS" + g + k + g + "WHERE 1" }, aliasLine})
		}
	}
	for _, k := range kws {
		idx, mine := w.Case()
		if !mine {
			continue
		}
		sp := k.String()
		if sp == "" {
			continue
		}
		r := NewRng(w.Seed, uint64(idx), 17)
		for _, cs := range casings(r, sp) {
			for _, p := range probes {
				sql := p.sql(cs)
				w.Begin(idx, []byte(sql), p.name)
				w.Eval([]byte(sql), true)
				obs := safeParse([]byte(sql), 1<<20)
				fail := ""
				switch {
				case obs.Panicked:
					fail = "panic: " + obs.PanicVal
				case obs.Budget:
					fail = "did not terminate"
				case obs.Err != nil:
					fail = "rejected: " + obs.Err.Error()
				case len(obs.Stmts) != 1:
					fail = fmt.Sprintf("%d statements", len(obs.Stmts))
				default:
					e := safeExplain(obs.Stmts[0])
					if e.Panicked {
						fail = "Explain panicked: " + e.PanicVal
					} else if wl := p.want(cs); strings.HasPrefix(wl, "=same-as:") {
						ref := safeParse([]byte(strings.TrimPrefix(wl, "=same-as:")), 1<<20)
						if ref.Err == nil && len(ref.Stmts) == 1 {
							if re := safeExplain(ref.Stmts[0]); re.Out != e.Out {
								fail = fmt.Sprintf("EXPLAIN differs from that of %q:\n%s", strings.TrimPrefix(wl, "=same-as:"), trunc(e.Out, 600))
							}
						}
					} else if strings.Contains(p.name, "#") {
						// behaves exactly like an ordinary name at this place: the tree is that of the same statement with the
						// name `zzqq`, up to the spelling (an alias the printer drops for every name is not C17's business)
						ref := safeParse([]byte(p.sql("zzqq")), 1<<20)
						if ref.Err == nil && !ref.Panicked && len(ref.Stmts) == 1 {
							if re := safeExplain(ref.Stmts[0]); strings.ReplaceAll(re.Out, "zzqq", cs) != e.Out {
								fail = fmt.Sprintf("EXPLAIN differs from that of %q with the name substituted: %s\n%s", p.sql("zzqq"), firstLineDiff(strings.ReplaceAll(re.Out, "zzqq", cs), e.Out), trunc(e.Out, 600))
							}
						}
					} else if !containsLine(e.Out, wl) {
						fail = fmt.Sprintf("EXPLAIN lacks the line %q:\n%s", p.want(cs), trunc(e.Out, 600))
					}
				}
				if fail != "" {
					w.Report(Finding{Kind: "keyword-as-name", Key: "keyword-as-name@" + p.name + "@" + sp, Input: fmt.Sprintf("%q", sql), InputHex: hexs([]byte(sql)), Detail: fail})
				}
				w.Count(p.name)
			}
		}
		// long inputs through a reader that offers nothing but Read (no Len, no ReadByte): the name straddles the 4096-byte
		// mark of the input, where a lexer that reads ahead in blocks has to stitch it together
		for pi, p := range probes[:3] {
			cs := strings.ToLower(sp)
			for _, back := range []int{1, len(cs) / 2, len(cs) - 1} {
				if back < 1 || back >= len(cs) {
					continue
				}
				short := p.sql(cs)
				at := strings.LastIndex(short, cs)
				pad := 4096 - back - at - len("/**/ ")
				if pad < 0 {
					continue
				}
				sql := short[:7] + "/*" + strings.Repeat("p", pad) + "*/ " + short[7:]
				w.Begin(idx, []byte(sql), p.name+"-long")
				w.Eval([]byte(sql), true)
				w.Count(p.name + "-long")
				var out string
				o := guard(func() (string, error) {
					stmts, err := parser.Parse(context.Background(), struct{ io.Reader }{strings.NewReader(sql)})
					if err != nil || len(stmts) != 1 {
						return "", fmt.Errorf("err=%v statements=%d", err, len(stmts))
					}
					out = parser.Explain(stmts[0])
					return "", nil
				})
				if o.Panicked || o.Err != nil || !containsLine(out, p.want(cs)) {
					w.Report(Finding{Kind: "keyword-as-name", Key: "keyword-as-name@" + p.name + "-long@" + sp, Input: fmt.Sprintf("%q", trunc(sql, 60)+"…"+sql[len(sql)-40:]), InputHex: hexs([]byte(sql)),
						Detail: fmt.Sprintf("probe %d with the name straddling byte 4096 (%d bytes before the mark), read through a plain io.Reader: panicked=%v err=%v, EXPLAIN lacks %q:\n%s", pi, back, o.Panicked, o.Err, p.want(cs), trunc(out, 400))})
				}
			}
		}
		if sp == "SELECT" || sp == "FROM" {
			w.Sample("SELECT t." + strings.ToLower(sp) + " / SELECT 1 AS " + sp + " / SELECT 1 FROM t AS " + sp)
		}
	}
}

func containsLine(out, want string) bool {
	for _, ln := range strings.Split(out, "\n") {
		if strings.TrimLeft(ln, " ") == want {
			return true
		}
	}
	return false
}
