package main

import (
	"context"
	"errors"
	"fmt"
	"io"
	"runtime"
	"strconv"
	"strings"
	"time"

	"github.com/sqlc-dev/doubleclick/lexer"
	"github.com/sqlc-dev/doubleclick/parser"
	"github.com/sqlc-dev/doubleclick/token"
)

// C16 — cancellation between statements.
//
// Scripts of 1–30 statements (pool shared with C06) are read by the real parser.Parse through a reader that delivers
// ONE byte per Read and cancels the context when byte offset X is requested, for every X (scripts ≤ 400 bytes) or a
// sample of X that contains the neighbourhood of every statement boundary (longer scripts). Oracles:
//
//	(a) err == nil                      → the result equals the uncancelled baseline completely (count, each Explain);
//	(b) errors.Is(err, ctx error)       → the returned statements' Explain texts are a prefix of the baseline's;
//	    any other error                 → finding (the baseline has err == nil);
//	(c) never-cancelled contexts (Background, WithCancel, far deadline/timeout, WithValue, a custom never-done context)
//	    give exactly the baseline and no error;
//	(d) pre-cancelled / deadline-exceeded contexts: first token ≠ EOF → (0 statements, context.Canceled resp.
//	    context.DeadlineExceeded); empty / whitespace / comment-only input → (nil, nil).
//
// Model correspondence (Lean `DC.Model.StmtLoop`, driver op `stmtloop`):
//   - context side, exact: a custom context whose Done() is closed from its i-th call on makes "cancelled before outer
//     iteration i" directly observable; for every i the real (len(stmts), error kind, number of Done() samples) is
//     compared with the model run on the real lexer's pumped token kinds (statement parser of the model: up to the next
//     top-level `;`, as in C06).
//   - reader side, exact: the never-done custom context records, at each Done() sample, how many byte offsets the
//     one-byte reader has been asked for (highs[i]). The parser is deterministic and single-threaded, so with
//     cancel-at-X the first iteration that observes the cancellation is i*(X) = min{i | highs[i] > X}; the expected
//     result is the model's answer for doneFrom = i*(X) (none → the complete baseline, err == nil). This uses no
//     assumption about the lexer's look-ahead (Peek(32), Peek(8192) in the lexer make a purely token-offset based
//     prediction unsound); highs[] is an observation of the real code.
//   - k(X) is checked to be non-decreasing in X and to reach the baseline count.
//
// Findings: Kind "cancel", Key "cancel@a|b|c|d"; model/implementation disagreements without a property-level
// failure: Key "cancel@model-…", Disagreement = true.

func init() {
	props["C16"] = runC16
}

// cancelReader delivers one byte per Read and calls cancel when offset cancelAt is requested
// (offset len(data) = the request that is answered with io.EOF).
type cancelReader struct {
	data     []byte
	pos      int
	high     int // number of distinct offsets requested so far (max requested offset + 1)
	cancelAt int // -1 = never
	cancel   func()
	wait     <-chan struct{} // if non-nil: block on it when cancelAt is requested (deadline expiring mid-parse)
}

func (r *cancelReader) Read(p []byte) (int, error) {
	if len(p) == 0 {
		return 0, nil
	}
	if r.pos >= r.high {
		r.high = r.pos + 1
	}
	if r.pos == r.cancelAt {
		if r.cancel != nil {
			r.cancel()
		}
		if r.wait != nil {
			<-r.wait
		}
	}
	if r.pos >= len(r.data) {
		return 0, io.EOF
	}
	p[0] = r.data[r.pos]
	r.pos++
	return 1, nil
}

var closedChan = func() chan struct{} { c := make(chan struct{}); close(c); return c }()

// probeCtx is a context whose Done() is sampled by ParseStatements once per outer iteration. It records the reader's
// progress at every sample and reports cancellation from sample doneFrom on (-1 = never).
type probeCtx struct {
	rd       *cancelReader
	highs    []int
	doneFrom int
	errCalls int
	fired    bool
}

func (c *probeCtx) Deadline() (time.Time, bool) { return time.Time{}, false }
func (c *probeCtx) Value(key any) any           { return nil }
func (c *probeCtx) Done() <-chan struct{} {
	h := 0
	if c.rd != nil {
		h = c.rd.high
	}
	c.highs = append(c.highs, h)
	if c.doneFrom >= 0 && len(c.highs)-1 >= c.doneFrom {
		c.fired = true
		return closedChan
	}
	return nil // "Done may return nil if this context can never be canceled"
}
func (c *probeCtx) Err() error {
	c.errCalls++
	if c.fired {
		return context.Canceled
	}
	return nil
}

// safeParseReader runs the real parser.Parse(ctx, r) under recover and a step budget.
func safeParseReader(ctx context.Context, r io.Reader, budget int64) (obs ParseObs) {
	defer func() {
		if rec := recover(); rec != nil {
			buf := make([]byte, 1<<16)
			buf = buf[:runtime.Stack(buf, false)]
			obs.Stack = string(buf)
			if be, ok := rec.(parser.VerifBudgetExceeded); ok {
				obs.Budget = true
				obs.Steps = be.Steps
				obs.Site = panicSite(obs.Stack, true)
				obs.PanicVal = "step budget exceeded"
				return
			}
			obs.Panicked = true
			obs.PanicVal = fmt.Sprint(rec)
			obs.Site = panicSite(obs.Stack, false)
		}
	}()
	parser.VerifSetDefaultBudget(budget)
	obs.Stmts, obs.Err = parser.Parse(ctx, r)
	return
}

func explainAll(obs ParseObs) ([]string, string) {
	out := make([]string, len(obs.Stmts))
	for i, s := range obs.Stmts {
		e := safeExplain(s)
		if e.Panicked {
			return nil, fmt.Sprintf("Explain of statement %d panics: %s", i, e.PanicVal)
		}
		out[i] = e.Out
	}
	return out, ""
}

type modelAns struct {
	K      int
	Err    string
	Iters  int
	Calls  int
	Final  string
	Stmts  string
	Raw    string
	Parsed bool
}

func parseModelAns(s string) modelAns {
	f := strings.Fields(s)
	a := modelAns{Raw: s}
	if len(f) != 6 {
		return a
	}
	var e1, e2, e3 error
	a.K, e1 = strconv.Atoi(f[0])
	a.Err = f[1]
	a.Iters, e2 = strconv.Atoi(f[2])
	a.Calls, e3 = strconv.Atoi(f[3])
	a.Final, a.Stmts = f[4], f[5]
	a.Parsed = e1 == nil && e2 == nil && e3 == nil
	return a
}

func errKind(err error) string {
	switch {
	case err == nil:
		return "none"
	case errors.Is(err, context.Canceled):
		return "ctx"
	case errors.Is(err, context.DeadlineExceeded):
		return "ctx-deadline"
	case strings.HasPrefix(err.Error(), "read error:"):
		return "read"
	case strings.HasPrefix(err.Error(), "parse errors:"):
		return "syntax"
	}
	return "other"
}

// c16Check is the state of one script under test.
type c16Check struct {
	w        *W
	in       []byte
	inq      string
	budget   int64
	base     []string // Explain texts of the baseline
	failed   map[string]bool
	nFinding int
}

func (c *c16Check) report(clause, detail string) {
	c.nFinding++
	if c.failed[clause] {
		return
	}
	c.failed[clause] = true
	c.w.Count("finding:" + clause)
	c.w.Report(Finding{Kind: "cancel", Key: "cancel@" + clause, Input: c.inq, InputHex: hexs(c.in), Detail: detail})
}

func (c *c16Check) disagree(key, detail string) {
	if c.failed[key] {
		return
	}
	c.failed[key] = true
	c.w.stats.Disagree++
	c.w.Report(Finding{Kind: "cancel", Key: "cancel@" + key, Input: c.inq, InputHex: hexs(c.in), Detail: detail,
		Disagreement: true, Obligation: "stmtloop_correspondence"})
}

// oracle applies (a)/(b) to one observation made under a context that was (possibly) cancelled; wantCtx is the
// context error that may legitimately be returned. It returns the number of statements, or -1 after a finding.
func (c *c16Check) oracle(obs ParseObs, wantCtx error, what string) int {
	if obs.Panicked || obs.Budget {
		c.report("a", fmt.Sprintf("%s: %s at %s (the uncancelled parse does neither)", what, obs.PanicVal, obs.Site))
		return -1
	}
	ex, bad := explainAll(obs)
	if bad != "" {
		c.report("b", what+": "+bad)
		return -1
	}
	if obs.Err == nil {
		if len(ex) != len(c.base) {
			c.report("a", fmt.Sprintf("%s: err == nil but %d statements returned, the uncancelled parse returns %d: nil error for input that was not finished", what, len(ex), len(c.base)))
			return -1
		}
		for i := range ex {
			if ex[i] != c.base[i] {
				c.report("a", fmt.Sprintf("%s: err == nil but statement %d differs from the uncancelled result", what, i))
				return -1
			}
		}
		return len(ex)
	}
	if !errors.Is(obs.Err, wantCtx) {
		c.report("b", fmt.Sprintf("%s: error is neither nil nor %v: %v", what, wantCtx, obs.Err))
		return -1
	}
	if obs.Err != wantCtx {
		c.w.Count("ctx-error-wrapped")
	}
	if len(ex) > len(c.base) {
		c.report("b", fmt.Sprintf("%s: %d statements returned with %v, the uncancelled parse returns only %d", what, len(ex), obs.Err, len(c.base)))
		return -1
	}
	for i := range ex {
		if ex[i] != c.base[i] {
			c.report("b", fmt.Sprintf("%s: statement %d returned with %v is not statement %d of the uncancelled result (not a prefix)", what, i, obs.Err, i))
			return -1
		}
	}
	return len(ex)
}

// exact compares an observation with the complete baseline (clause c).
func (c *c16Check) exact(obs ParseObs, what string) {
	if obs.Panicked || obs.Budget {
		c.report("c", fmt.Sprintf("%s: %s at %s", what, obs.PanicVal, obs.Site))
		return
	}
	if obs.Err != nil {
		c.report("c", fmt.Sprintf("%s: a context that is never cancelled gives err = %v", what, obs.Err))
		return
	}
	ex, bad := explainAll(obs)
	if bad != "" {
		c.report("c", what+": "+bad)
		return
	}
	if len(ex) != len(c.base) {
		c.report("c", fmt.Sprintf("%s: %d statements, baseline %d", what, len(ex), len(c.base)))
		return
	}
	for i := range ex {
		if ex[i] != c.base[i] {
			c.report("c", fmt.Sprintf("%s: statement %d differs from the baseline", what, i))
			return
		}
	}
}

func kindsArg(pt []lexer.Item) (string, bool) {
	var sb strings.Builder
	n := 0
	for _, it := range pt {
		if it.Token == token.EOF {
			break
		}
		if n > 0 {
			sb.WriteByte(',')
		}
		sb.WriteString(strconv.Itoa(int(it.Token)))
		n++
	}
	if n == 0 {
		return "-", true
	}
	return sb.String(), true
}

// preCancelled checks clause (d) on one input.
func c16PreCancelled(w *W, in []byte, c *c16Check) {
	items, pv := safeTokenize(in)
	if pv != "" {
		return
	}
	pt := pumped(items)
	empty := len(pt) == 0 || pt[0].Token == token.EOF
	type mk struct {
		name string
		ctx  func() (context.Context, context.CancelFunc)
		want error
	}
	mks := []mk{
		{"WithCancel cancelled before Parse", func() (context.Context, context.CancelFunc) {
			ctx, cancel := context.WithCancel(context.Background())
			cancel()
			return ctx, cancel
		}, context.Canceled},
		{"WithDeadline in the past", func() (context.Context, context.CancelFunc) {
			return context.WithDeadline(context.Background(), time.Now().Add(-time.Hour))
		}, context.DeadlineExceeded},
		{"WithTimeout(0)", func() (context.Context, context.CancelFunc) {
			return context.WithTimeout(context.Background(), 0)
		}, context.DeadlineExceeded},
		{"child of a cancelled context", func() (context.Context, context.CancelFunc) {
			ctx, cancel := context.WithCancel(context.Background())
			cancel()
			ctx2, cancel2 := context.WithTimeout(context.WithValue(ctx, c, 1), time.Hour)
			return ctx2, func() { cancel2(); cancel() }
		}, context.Canceled},
	}
	for _, m := range mks {
		ctx, cancel := m.ctx()
		rd := &cancelReader{data: in, cancelAt: -1}
		obs := safeParseReader(ctx, rd, c.budget)
		cancel()
		w.stats.Evaluations++
		what := fmt.Sprintf("%s, input %q", m.name, trunc(string(in), 80))
		switch {
		case obs.Panicked || obs.Budget:
			c.report("d", what+": "+obs.PanicVal+" at "+obs.Site)
		case empty:
			w.Count("d:empty-input")
			if obs.Err != nil || obs.Stmts != nil {
				c.report("d", fmt.Sprintf("%s: input without tokens must give (nil, nil); got (%d statements, %v)", what, len(obs.Stmts), obs.Err))
			}
		default:
			w.Count("d:nonempty-input")
			if len(obs.Stmts) != 0 || !errors.Is(obs.Err, m.want) {
				c.report("d", fmt.Sprintf("%s: want (0 statements, %v); got (%d statements, %v)", what, m.want, len(obs.Stmts), obs.Err))
			}
		}
	}
	// model: done 0, stream as lexed
	if ks, ok := kindsArg(pt); ok {
		a := parseModelAns(w.Model().Ask("stmtloop " + ks + " 0 0"))
		want := "0 ctx 1 0"
		if empty {
			want = "0 none 0 0"
		}
		if !a.Parsed || fmt.Sprintf("%d %s %d %d", a.K, a.Err, a.Iters, a.Calls) != want {
			c.disagree("model-precancelled", fmt.Sprintf("model answers %q for a pre-cancelled context, want prefix %q", a.Raw, want))
		}
	}
}

var emptyInputs = []string{"", " ", "\n", " \t\r\n ", "-- c", "-- ;\n", "--\n--\n", "/* ; */", "/**/", "/* a */ -- b\n  /* c */", "# x\n", "#! x", "\ufeff", "   ",
	"/* ; ; */\n-- ; SELECT 1\n", "\n\n\n/* SELECT 1; */"}
var semiOnlyInputs = []string{";", ";;", " ; ", ";\n;", "/* */;", ";-- x\n", "-- x\n;"}

func runC16(w *W) {
	pp := newPiecePool(w)

	// (d) on inputs without statements
	for _, s := range append(append([]string(nil), emptyInputs...), semiOnlyInputs...) {
		idx, mine := w.Case()
		if !mine {
			continue
		}
		in := []byte(s)
		w.Begin(idx, in, "d-fixed")
		c := &c16Check{w: w, in: in, inq: fmt.Sprintf("%q", s), budget: 100000, failed: map[string]bool{}}
		c16PreCancelled(w, in, c)
		w.Eval(in, true)
	}

	n := w.pickN(3200, 100000)
	for k := 0; k < n; k++ {
		idx, mine := w.Case()
		if !mine {
			continue
		}
		r := NewRng(w.Seed, uint64(idx), 16)
		var cnt, maxLen int
		switch c := r.Intn(10); {
		case c < 5:
			cnt, maxLen = 1+r.Intn(5), 90
		case c < 8:
			cnt, maxLen = 4+r.Intn(12), 60
		default:
			cnt, maxLen = 16+r.Intn(15), 45
		}
		pieces := make([]*piece, cnt)
		for i := range pieces {
			pieces[i] = pp.pickPiece(r, maxLen)
		}
		sc := buildScript(r, pieces)
		if cnt == 1 && r.Chance(1, 2) {
			sc = script{Pieces: pieces, Text: pieces[0].Text, Starts: []int{0}}
		}
		in := []byte(sc.Text)
		w.Begin(idx, in, fmt.Sprintf("script:%d", cnt))
		c16Script(w, r, sc, in)
	}

	// scripts that contain a syntax error before the cancellation point: the context's error must keep its identity
	// (errors.Is) and the statements must still be a prefix of what the uncancelled parse returns
	nb := w.pickN(600, 20000)
	broken := []string{"SELECT (2", "SELEC 1", "SELECT 1 FROM", "CREATE TABLE", "SELECT a b c d", "INSERT INTO", "SELECT ) ", "SELECT 1 +", "ALTER TABLE t ADD", "RENAME", "SELECT [1, 2"}
	for k := 0; k < nb; k++ {
		idx, mine := w.Case()
		if !mine {
			continue
		}
		r := NewRng(w.Seed, uint64(idx), 161)
		cnt := 2 + r.Intn(6)
		var parts []string
		at := r.Intn(cnt)
		for i := 0; i < cnt; i++ {
			if i == at {
				parts = append(parts, pick(r, broken))
			} else {
				pc := pp.pickPiece(r, 60)
				t := pc.Text
				if pc.NeedNL {
					t += "\n"
				}
				parts = append(parts, t)
			}
		}
		text := strings.Join(parts, ";")
		if k%5 == 4 {
			// PARALLEL WITH chains: one statement built from several, with statement-like boundaries inside it
			chain := []string{"SELECT 1 PARALLEL WITH SELECT 2 PARALLEL WITH SELECT 3", "SELECT a FROM t PARALLEL WITH SELECT b FROM u", "CREATE TABLE a (x UInt8) ENGINE = Memory PARALLEL WITH CREATE TABLE b (y UInt8) ENGINE = Memory PARALLEL WITH SELECT 1"}
			parts[at] = pick(r, chain)
			text = strings.Join(parts, ";")
		}
		in := []byte(text)
		w.Begin(idx, in, "broken-script")
		w.Eval(in, true)
		inq := fmt.Sprintf("%q", text)
		base := safeParseReader(context.Background(), &cancelReader{data: in, cancelAt: -1}, 1<<22)
		if base.Panicked || base.Budget {
			continue
		}
		baseEx, bad := explainAll(base)
		if bad != "" {
			continue
		}
		// exact side: a context whose Done() is closed from its i-th sample on. Every sample the uncancelled run takes is a
		// statement boundary the real code demonstrably reaches; closed there, Parse must answer with the context's error —
		// syntax errors recorded earlier do not outrank it — and with a prefix of the uncancelled statements.
		{
			prd := &cancelReader{data: in, cancelAt: -1}
			probe := &probeCtx{rd: prd, doneFrom: -1}
			_ = safeParseReader(probe, prd, 1<<22)
			for i := 0; i < len(probe.highs); i++ {
				rd := &cancelReader{data: in, cancelAt: -1}
				pc := &probeCtx{rd: rd, doneFrom: i}
				obs := safeParseReader(pc, rd, 1<<22)
				w.stats.Evaluations++
				if obs.Panicked || obs.Budget {
					continue
				}
				fail := ""
				if !errors.Is(obs.Err, context.Canceled) {
					fail = fmt.Sprintf("error %q is not the context's error", errString(obs.Err))
				} else if ex, bad := explainAll(obs); bad == "" {
					if len(ex) > len(baseEx) {
						fail = fmt.Sprintf("%d statements with the context error, the uncancelled parse returns %d", len(ex), len(baseEx))
					}
					for j := range ex {
						if fail == "" && ex[j] != baseEx[j] {
							fail = fmt.Sprintf("statement %d returned with the context error is not statement %d of the uncancelled result", j, j)
						}
					}
				}
				if fail != "" {
					w.Report(Finding{Kind: "cancel", Key: "cancel@a-after-syntax-error", Input: inq, InputHex: hexs(in),
						Detail: fmt.Sprintf("custom context whose Done() is closed from its sample #%d on (the uncancelled run takes %d samples): %s", i, len(probe.highs), fail)})
					break
				}
			}
		}
		for x := 0; x <= len(in); x++ {
			if len(in) > 400 && x%7 != 0 {
				continue
			}
			ctx, cancel := context.WithCancel(context.Background())
			obs := safeParseReader(ctx, &cancelReader{data: in, cancelAt: x, cancel: cancel}, 1<<22)
			cancel()
			if obs.Panicked || obs.Budget {
				continue
			}
			ex, bad := explainAll(obs)
			if bad != "" {
				continue
			}
			fail := ""
			switch {
			case obs.Err == nil && base.Err != nil:
				fail = "nil error although the uncancelled parse reports " + base.Err.Error()
			case obs.Err == nil:
				if len(ex) != len(baseEx) {
					fail = fmt.Sprintf("nil error with %d statements, the uncancelled parse returns %d", len(ex), len(baseEx))
				}
			case errors.Is(obs.Err, context.Canceled):
				if len(ex) > len(baseEx) {
					fail = fmt.Sprintf("%d statements with the context error, uncancelled parse returns %d", len(ex), len(baseEx))
				}
				for i := range ex {
					if fail == "" && ex[i] != baseEx[i] {
						fail = fmt.Sprintf("statement %d returned with the context error is not statement %d of the uncancelled result", i, i)
					}
				}
			case base.Err != nil && obs.Err != nil && obs.Err.Error() == base.Err.Error():
				if len(ex) != len(baseEx) {
					fail = "same error as the uncancelled parse but a different number of statements"
				}
			default:
				fail = fmt.Sprintf("error %q is neither the context's error (errors.Is) nor the uncancelled parse's error %q", errString(obs.Err), errString(base.Err))
			}
			if fail != "" {
				w.Report(Finding{Kind: "cancel", Key: "cancel@b-after-syntax-error", Input: inq, InputHex: hexs(in), Detail: fmt.Sprintf("cancel when byte offset %d is requested: %s", x, fail)})
				break
			}
			w.Count("broken-script-cancellations")
		}
	}
}

func c16Script(w *W, r *Rng, sc script, in []byte) {
	items, pv := safeTokenize(in)
	if pv != "" {
		w.Count("skipped:lexer-panic")
		return
	}
	pt := pumped(items)
	c := &c16Check{w: w, in: in, inq: fmt.Sprintf("%q", sc.Text), budget: int64(4000 * (len(pt) + 16)), failed: map[string]bool{}}

	// baseline: context.Background(), same one-byte reader, never cancelling
	baseObs := safeParseReader(context.Background(), &cancelReader{data: in, cancelAt: -1}, c.budget)
	if baseObs.Panicked || baseObs.Budget || baseObs.Err != nil {
		// every piece parses alone; that the joined script does not is C06's finding, not C16's
		w.Count("skipped:baseline-not-accepted(C06)")
		return
	}
	base, bad := explainAll(baseObs)
	if bad != "" {
		w.Count("skipped:baseline-explain-panics")
		return
	}
	c.base = base
	nb := len(base)
	if nb != len(sc.Pieces) {
		w.Count("baseline-count-differs-from-pieces(C06)")
	}
	w.Eval(in, true)
	w.Count(fmt.Sprintf("statements:%02d-%02d", nb/5*5, nb/5*5+4))

	// (c) never-cancelled contexts
	{
		ctx, cancel := context.WithCancel(context.Background())
		c.exact(safeParseReader(ctx, &cancelReader{data: in, cancelAt: -1}, c.budget), "WithCancel never cancelled")
		cancel()
		switch r.Intn(3) {
		case 0:
			ctx, cancel = context.WithDeadline(context.Background(), time.Now().Add(time.Hour))
			c.exact(safeParseReader(ctx, &cancelReader{data: in, cancelAt: -1}, c.budget), "WithDeadline one hour ahead")
		case 1:
			ctx, cancel = context.WithTimeout(context.WithValue(context.Background(), c, 1), 24*time.Hour)
			c.exact(safeParseReader(ctx, &cancelReader{data: in, cancelAt: -1}, c.budget), "WithTimeout 24h over WithValue")
		default:
			ctx, cancel = context.WithCancel(context.TODO())
			// X beyond the EOF request: the reader never cancels
			c.exact(safeParseReader(ctx, &cancelReader{data: in, cancelAt: len(in) + 1, cancel: cancel}, c.budget), "cancel-at offset beyond the EOF request")
		}
		cancel()
	}
	// the probe: a custom never-done context, records highs[]
	prd := &cancelReader{data: in, cancelAt: -1}
	probe := &probeCtx{rd: prd, doneFrom: -1}
	c.exact(safeParseReader(probe, prd, c.budget), "custom context, Done() == nil")
	highs := probe.highs
	m := len(highs)
	if probe.errCalls != 0 {
		c.report("c", fmt.Sprintf("ctx.Err() consulted %d times although Done() never fired", probe.errCalls))
	}
	for i := 1; i < m; i++ {
		if highs[i] < highs[i-1] {
			c.report("c", "reader progress went backwards between two Done() samples")
		}
	}

	// model, no cancellation
	ks, _ := kindsArg(pt)
	mdl := w.Model()
	ans := make([]modelAns, m+1) // ans[i] = model with doneFrom = i ; ans[m] ≙ never observed
	free := parseModelAns(mdl.Ask("stmtloop " + ks + " - 0"))
	if !free.Parsed {
		c.disagree("model-answer", "model answered "+free.Raw)
		return
	}
	if free.K != nb || free.Err != "none" || free.Final != "E" {
		c.disagree("model-count", fmt.Sprintf("uncancelled: real (%d statements, nil); model %q", nb, free.Raw))
		return
	}
	if free.Iters != m {
		c.disagree("model-iterations", fmt.Sprintf("uncancelled: real ParseStatements sampled ctx.Done() %d times; model %d (%q)", m, free.Iters, free.Raw))
		return
	}
	// the model's statements start where the pieces start (delimiting as in C06)
	if nb == len(sc.Pieces) {
		var want []string
		// token index of the first token of every piece: count pumped tokens in front of its start offset
		for _, st := range sc.Starts {
			cntTok := 0
			for _, it := range pt {
				if it.Token == token.EOF {
					break
				}
				// Pos.Offset is the offset just after the token's first rune
				if it.Pos.Offset <= st {
					cntTok++
				}
			}
			want = append(want, strconv.Itoa(cntTok))
		}
		if got := free.Stmts; got != strings.Join(want, ",") && !(len(want) == 0 && got == "-") {
			c.disagree("model-delimit", fmt.Sprintf("model statements start at tokens %s, pieces start at tokens %s", got, strings.Join(want, ",")))
		}
	}

	// context side, exact: Done() closed from its i-th sample on
	for i := 0; i <= m; i++ {
		rd := &cancelReader{data: in, cancelAt: -1}
		pc := &probeCtx{rd: rd, doneFrom: i}
		obs := safeParseReader(pc, rd, c.budget)
		w.stats.Evaluations++
		what := fmt.Sprintf("custom context done from its Done() sample #%d", i)
		kReal := c.oracle(obs, context.Canceled, what)
		if kReal < 0 {
			continue
		}
		a := parseModelAns(mdl.Ask(fmt.Sprintf("stmtloop %s %d 0", ks, i)))
		ans[i] = a
		if !a.Parsed {
			c.disagree("model-answer", "model answered "+a.Raw)
			continue
		}
		if i < m && obs.Err == nil {
			// Done() was closed at a sample the real code demonstrably takes, and the error is nil
			c.report("a", what+": Done() was closed when sampled, yet Parse returned err == nil")
			continue
		}
		if a.K != kReal || a.Err != errKind(obs.Err) || a.Iters != len(pc.highs) {
			c.disagree("model-ctx-side", fmt.Sprintf("%s: real (%d statements, %s, %d Done() samples); model %q", what, kReal, errKind(obs.Err), len(pc.highs), a.Raw))
		}
		if i < m && pc.errCalls != 1 {
			c.w.Count("ctx.Err()-calls!=1")
		}
	}

	// reader side: cancel when byte offset X is requested
	var xs []int
	if len(in) <= 400 {
		for x := 0; x <= len(in); x++ {
			xs = append(xs, x)
		}
		w.Count("X:exhaustive")
	} else {
		mark := make([]bool, len(in)+1)
		add := func(x int) {
			if x >= 0 && x <= len(in) {
				mark[x] = true
			}
		}
		for i, st := range sc.Starts {
			for d := -6; d <= 6; d++ {
				add(st + d)
				add(st + len(sc.Pieces[i].Text) + d)
			}
		}
		for _, h := range highs {
			add(h - 1)
			add(h)
			add(h + 1)
		}
		for j := 0; j < 64; j++ {
			add(r.Intn(len(in) + 1))
		}
		add(0)
		add(len(in))
		for x, b := range mark {
			if b {
				xs = append(xs, x)
			}
		}
		w.Count("X:sampled")
	}
	prevK := -1
	reached := false
	for _, x := range xs {
		ctx, cancel := context.WithCancel(context.Background())
		rd := &cancelReader{data: in, cancelAt: x, cancel: cancel}
		obs := safeParseReader(ctx, rd, c.budget)
		cancel()
		w.stats.Evaluations++
		what := fmt.Sprintf("cancel when byte offset %d of %d is requested", x, len(in))
		kReal := c.oracle(obs, context.Canceled, what)
		if kReal < 0 {
			continue
		}
		if kReal < prevK {
			c.report("b", fmt.Sprintf("%s: %d statements returned, but cancelling at an earlier offset returned %d: not monotone", what, kReal, prevK))
		}
		prevK = kReal
		if obs.Err == nil {
			reached = true
			w.Count("X:finished-before-cancel-observed")
		} else {
			w.Count("X:cancel-observed")
		}
		// exact prediction
		istar := m
		for i, h := range highs {
			if h > x {
				istar = i
				break
			}
		}
		a := ans[istar]
		if !a.Parsed {
			continue
		}
		if a.K != kReal || a.Err != errKind(obs.Err) {
			c.disagree("model-reader-side", fmt.Sprintf("%s: the first Done() sample after the cancellation is #%d of %d (reader progress %v); model %q; real (%d statements, %s)",
				what, istar, m, highs, a.Raw, kReal, errKind(obs.Err)))
		}
	}
	if !reached && len(xs) > 0 && xs[len(xs)-1] == len(in) {
		// cancelling at the EOF request: the window is three tokens ahead, EOF is requested before the last statement
		// is parsed unless the script is very short; not reaching the baseline here is legitimate
		w.Count("X:baseline-not-reached-even-at-EOF-request")
	}

	// a deadline that expires while byte X is being read (deterministic outcome: the reader blocks until Done)
	for j := 0; j < 2 && len(in) > 0; j++ {
		x := r.Intn(len(in) + 1)
		ctx, cancel := context.WithTimeout(context.Background(), 3*time.Millisecond)
		rd := &cancelReader{data: in, cancelAt: x, wait: ctx.Done()}
		obs := safeParseReader(ctx, rd, c.budget)
		cancel()
		w.stats.Evaluations++
		what := fmt.Sprintf("deadline expires while byte offset %d of %d is being read", x, len(in))
		kReal := c.oracle(obs, context.DeadlineExceeded, what)
		if kReal < 0 {
			continue
		}
		istar := m
		for i, h := range highs {
			if h > x {
				istar = i
				break
			}
		}
		if istar < m {
			// the deadline has certainly expired before sample istar (possibly earlier: timer)
			if obs.Err == nil {
				c.report("a", what+": a Done() sample follows, yet err == nil")
			} else if ans[istar].Parsed && kReal > ans[istar].K {
				c.report("b", fmt.Sprintf("%s: %d statements returned, more than the %d complete before the first Done() sample after the expiry", what, kReal, ans[istar].K))
			}
		}
		w.Count("deadline-mid-parse")
	}

	// (d) pre-cancelled
	c16PreCancelled(w, in, c)

	if c.nFinding == 0 && w.stats.Evaluations%4000 < 300 {
		w.Sample(fmt.Sprintf("%q: %d statements, %d Done() samples, reader progress at the samples %v", trunc(sc.Text, 160), nb, m, highs))
	}
}
