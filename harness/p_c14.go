package main

import (
	"bufio"
	"bytes"
	"context"
	"fmt"
	"io"
	"runtime"
	"strconv"
	"strings"
	"testing/iotest"
	"unicode/utf8"

	"github.com/sqlc-dev/doubleclick/lexer"
	"github.com/sqlc-dev/doubleclick/parser"
	"github.com/sqlc-dev/doubleclick/token"
)

// C14 — parsing is independent of how the io.Reader delivers the bytes.
//
// part (a) correspondence: the Lean model DC.Model.Bufio (driver ops bufio/bufion/utf8b) against the real
//          bufio.Reader over a scripted reader, op by op. A difference is a model/implementation disagreement
//          (obligation "bufio-model-corr"), not a property violation.
// part (b) search on the real code: parser.Parse + parser.Explain + error over many readers of the same bytes.
// part (c) correspondence: the reader-interface lexer model over the bufio model over a scripted reader
//          (DC.Model.LexerRd, driver op lexbufio; theorem DC.Props.C14Lex.lex_chunking) against the real
//          lexer.Tokenize over the same scripted reader, token for token (obligation "lexbufio-model-corr").

func init() {
	props["C14"] = runC14
}

func runC14(w *W) {
	bufioCorr(w)
	chunkingSearch(w)
	c14LexOverBufio(w)
}

// ---------------------------------------------------------------- scripted reader (shared with C15)

// scriptEv is one scripted answer of the underlying reader.
type scriptEv struct {
	data []byte
	err  error
}

// scriptReader has exactly the Read semantics of DC.Bufio.sread: the head event is delivered whole (with its
// error) if it fits into p, otherwise len(p) bytes of it are delivered with a nil error and the rest stays;
// an exhausted script answers (0, io.EOF) forever.
type scriptReader struct {
	evs   []scriptEv
	tail  error // what an exhausted script answers; nil means io.EOF (the model's scripts)
	reads int
	fired []error // non-nil, non-EOF errors returned so far
}

func (s *scriptReader) Read(p []byte) (int, error) {
	s.reads++
	if len(s.evs) == 0 {
		if s.tail != nil {
			s.fired = append(s.fired, s.tail)
			return 0, s.tail
		}
		return 0, io.EOF
	}
	ev := &s.evs[0]
	if len(ev.data) <= len(p) {
		n := copy(p, ev.data)
		err := ev.err
		s.evs = s.evs[1:]
		if err != nil && err != io.EOF {
			s.fired = append(s.fired, err)
		}
		return n, err
	}
	n := copy(p, ev.data[:len(p)])
	ev.data = ev.data[len(p):]
	return n, nil
}

// injected error values `x<id>` of the model's scripts
var otherErrs = func() []error {
	out := []error{io.ErrUnexpectedEOF}
	for i := 1; i < 8; i++ {
		out = append(out, fmt.Errorf("injected reader error #%d", i))
	}
	return out
}()

func c14ErrCode(err error) string {
	switch err {
	case nil:
		return "n"
	case io.EOF:
		return "e"
	case io.ErrNoProgress:
		return "g"
	case bufio.ErrBufferFull:
		return "f"
	}
	for i, e := range otherErrs {
		if err == e {
			return "x" + strconv.Itoa(i)
		}
	}
	return "?" + err.Error()
}

func c14ErrOfCode(c string) error {
	switch c {
	case "n":
		return nil
	case "e":
		return io.EOF
	case "g":
		return io.ErrNoProgress
	case "f":
		return bufio.ErrBufferFull
	}
	i, _ := strconv.Atoi(c[1:])
	return otherErrs[i]
}

// scriptSpec is a script in the driver's syntax together with the Go events.
type scriptSpec struct {
	parts []string
	evs   []scriptEv
}

func (s *scriptSpec) add(data []byte, code string, count int) {
	p := hexOrDash(data) + ":" + code
	if count != 1 {
		p += "*" + strconv.Itoa(count)
	}
	s.parts = append(s.parts, p)
	for i := 0; i < count; i++ {
		s.evs = append(s.evs, scriptEv{data: data, err: c14ErrOfCode(code)})
	}
}

func (s *scriptSpec) String() string {
	if len(s.parts) == 0 {
		return "-"
	}
	return strings.Join(s.parts, ",")
}

func (s *scriptSpec) reader() *scriptReader {
	evs := make([]scriptEv, len(s.evs))
	copy(evs, s.evs)
	return &scriptReader{evs: evs}
}

// runRealBufio runs the ops ("r" / "p<n>") on the real bufio.Reader and renders the results like the model does.
func runRealBufio(size int, sr *scriptReader, ops []string) (out string) {
	defer func() {
		if r := recover(); r != nil {
			out += "!panic"
		}
	}()
	var br *bufio.Reader
	if size < 0 {
		br = bufio.NewReader(sr)
	} else {
		br = bufio.NewReaderSize(sr, size)
	}
	var sb strings.Builder
	for i, op := range ops {
		if i > 0 {
			sb.WriteByte(',')
		}
		if op == "r" {
			r, sz, err := br.ReadRune()
			fmt.Fprintf(&sb, "r%d/%d/%s", r, sz, c14ErrCode(err))
		} else {
			n, _ := strconv.Atoi(op[1:])
			bs, err := br.Peek(n)
			fmt.Fprintf(&sb, "p%s/%s", hexOrDash(bs), c14ErrCode(err))
		}
		out = sb.String()
	}
	if len(ops) == 0 {
		return "-"
	}
	return sb.String()
}

var utf8Samples = [][]byte{
	[]byte("a"), []byte("\x00"), []byte("\x7f"), []byte("é"), []byte("\u07ff"), []byte("\u0800"), []byte("€"), []byte("\ufffd"), []byte("\uffff"),
	[]byte("\U00010000"), []byte("😀"), []byte("\U0010ffff"),
	{0x80}, {0xbf}, {0xc0, 0x80}, {0xc1, 0xbf}, {0xc2}, {0xc2, 0x41}, {0xe0, 0x80, 0x80}, {0xe0, 0x9f, 0xbf}, {0xe0, 0xa0}, {0xe2, 0x82}, {0xe2, 0x41, 0x41},
	{0xed, 0xa0, 0x80}, {0xed, 0x9f, 0xbf}, {0xef, 0xbf}, {0xf0, 0x8f, 0xbf, 0xbf}, {0xf0, 0x90, 0x80}, {0xf0, 0x9f, 0x98}, {0xf0, 0x9f, 0x41, 0x80},
	{0xf4, 0x8f, 0xbf, 0xbf}, {0xf4, 0x90, 0x80, 0x80}, {0xf5, 0x80, 0x80, 0x80}, {0xff}, {0xf0, 0x9f, 0x98, 0x41}, {0xf1}, {0xf1, 0x80}, {0xf1, 0x80, 0x80},
}

func randStreamBytes(r *Rng, n int) []byte {
	var out []byte
	for len(out) < n {
		switch r.Intn(10) {
		case 0, 1, 2, 3:
			out = append(out, byte(32+r.Intn(95)))
		case 4:
			out = append(out, byte(r.Intn(256)))
		case 5:
			out = append(out, "SELECT $a$ .1_x 'é' "...)
		default:
			out = append(out, pick(r, utf8Samples)...)
		}
	}
	return out[:n]
}

func (w *W) corrDisagree(obligation, key, req, model, real string) {
	w.stats.Disagree++
	w.Report(Finding{Kind: "model-disagreement", Key: key, Input: trunc(req, 1500), Detail: "model: " + trunc(model, 1200) + "\nreal:  " + trunc(real, 1200),
		Disagreement: true, Obligation: obligation})
}

func bufioCorr(w *W) {
	sizes := []int{-1, -1, 0, 5, 16, 16, 16, 17, 20, 32, 64, 100, 4096}
	ask := func(size int, spec *scriptSpec, ops []string) {
		opsS := "-"
		if len(ops) > 0 {
			opsS = strings.Join(ops, ",")
		}
		var req string
		if size < 0 {
			req = "bufio " + spec.String() + " " + opsS
		} else {
			req = fmt.Sprintf("bufion %d %s %s", size, spec.String(), opsS)
		}
		got := w.Model().Ask(req)
		want := runRealBufio(size, spec.reader(), ops)
		w.stats.Evaluations++
		w.Count("corr:bufio-scripts")
		w.stats.Counters["corr:bufio-ops"] += len(ops)
		if strings.Contains(want, "/g") {
			w.Count("corr:bufio-ErrNoProgress-seen")
		}
		if strings.Contains(want, "/f") {
			w.Count("corr:bufio-ErrBufferFull-seen")
		}
		if strings.Contains(want, "/x") {
			w.Count("corr:bufio-injected-error-seen")
		}
		if got != want {
			w.corrDisagree("bufio-model-corr", "bufio-model-corr", req, got, want)
		}
	}

	// (a1) random scripts x random op sequences
	n := w.pickN(60000, 1500000)
	for k := 0; k < n; k++ {
		idx, mine := w.Case()
		if !mine {
			continue
		}
		r := NewRng(w.Seed, uint64(idx), 14)
		size := pick(r, sizes)
		cap := size
		if size < 0 {
			cap = 4096
		} else if size < 16 {
			cap = 16
		}
		spec := &scriptSpec{}
		nEv := r.Intn(10)
		total := 0
		for e := 0; e < nEv; e++ {
			code := "n"
			if r.Chance(1, 6) {
				code = pick(r, []string{"e", "e", "x0", "x1", "x2", "x3", "x5", "g", "f"})
			}
			switch r.Intn(12) {
			case 0:
				spec.add(nil, code, 1)
			case 1:
				cnt := pick(r, []int{2, 3, 50, 98, 99, 100, 101, 150, 199, 200, 201})
				spec.add(nil, "n", cnt)
				if r.Chance(1, 2) {
					spec.add(nil, code, 1)
				}
			case 2:
				l := cap - 3 + r.Intn(7)
				if l < 0 {
					l = 0
				}
				spec.add(randStreamBytes(r, l), code, 1)
				total += l
			case 3:
				if r.Chance(1, 4) {
					l := 4096*(1+r.Intn(2)) + r.Intn(9) - 4
					spec.add(randStreamBytes(r, l), code, 1)
					total += l
				} else {
					l := 7 + r.Intn(40)
					spec.add(randStreamBytes(r, l), code, 1)
					total += l
				}
			default:
				l := 1 + r.Intn(6)
				spec.add(randStreamBytes(r, l), code, 1)
				total += l
			}
		}
		var ops []string
		nOps := 1 + r.Intn(40)
		if total < 300 && r.Chance(1, 3) {
			nOps = total + 6 // drain everything
		}
		pr := 3 + r.Intn(6)
		for o := 0; o < nOps; o++ {
			if r.Intn(10) < pr {
				ops = append(ops, "r")
			} else {
				pn := pick(r, []int{0, 1, 1, 2, 3, 4, 4, 5, 8, 16, 31, 32, 33, cap - 1, cap, cap + 1, 8192, r.Intn(2*cap + 2)})
				ops = append(ops, "p"+strconv.Itoa(pn))
			}
		}
		w.Begin(idx, nil, "bufio-corr:random")
		ask(size, spec, ops)
	}

	// (a2) every sample rune x every way of cutting it x buffer offsets around the end of the buffer
	for si, smp := range utf8Samples {
		for cuts := 0; cuts < 1<<(len(smp)-1); cuts++ {
			idx, mine := w.Case()
			if !mine {
				continue
			}
			w.Begin(idx, smp, "bufio-corr:rune-splits")
			for _, size := range []int{16, -1} {
				cap := 16
				if size < 0 {
					cap = 4096
				}
				pres := []int{0, 1, cap - 4, cap - 3, cap - 2, cap - 1, cap}
				emptiesL := []int{0, 1}
				if size < 0 && !w.Thorough() { // each of these scripts costs ~4100 operations
					pres = []int{cap - 3, cap - 2, cap - 1}
					emptiesL = []int{si % 2}
				}
				for _, pre := range pres {
					for _, withEOF := range []bool{false, true} {
						for _, empties := range emptiesL {
							spec := &scriptSpec{}
							if pre > 0 {
								spec.add(bytes.Repeat([]byte("a"), pre), "n", 1)
							}
							start := 0
							for i := 1; i <= len(smp); i++ {
								if i == len(smp) || cuts&(1<<(i-1)) != 0 {
									code := "n"
									if i == len(smp) && withEOF {
										code = "e"
									}
									spec.add(smp[start:i], code, 1)
									if empties > 0 && i < len(smp) {
										spec.add(nil, "n", 1+si%3)
									}
									start = i
								}
							}
							if !withEOF {
								spec.add([]byte("z"), "n", 1)
							}
							ops := make([]string, 0, pre+8)
							if pre > 2 {
								ops = append(ops, "p"+strconv.Itoa(pre-1), "p"+strconv.Itoa(pre+1))
							}
							for i := 0; i < pre+6; i++ {
								ops = append(ops, "r")
								if i == pre-1 {
									ops = append(ops, "p1", "p4")
								}
							}
							ask(size, spec, ops)
						}
					}
				}
			}
		}
	}

	// (a3) utf8.DecodeRune / utf8.FullRune: all sequences of length <= 2, boundary values for lengths 3 and 4
	bnd := []byte{0x00, 0x41, 0x7f, 0x80, 0x8f, 0x90, 0x9f, 0xa0, 0xbf, 0xc0, 0xff}
	checkU := func(p []byte) {
		got := w.Model().Ask("utf8b " + hexOrDash(p))
		r, sz := utf8.DecodeRune(p)
		full := 0
		if utf8.FullRune(p) {
			full = 1
		}
		want := fmt.Sprintf("%d/%d/%d", r, sz, full)
		w.stats.Counters["corr:utf8-sequences"]++
		if got != want {
			w.corrDisagree("utf8b-model-corr", "utf8b-model-corr", "utf8b "+hexOrDash(p), got, want)
		}
	}
	for b0 := 0; b0 < 256; b0++ {
		idx, mine := w.Case()
		if !mine {
			continue
		}
		w.Begin(idx, []byte{byte(b0)}, "utf8-corr")
		if b0 == 0 {
			checkU(nil)
		}
		checkU([]byte{byte(b0)})
		for b1 := 0; b1 < 256; b1++ {
			checkU([]byte{byte(b0), byte(b1)})
		}
		if b0 >= 0x7f {
			for _, b1 := range bnd {
				for _, b2 := range bnd {
					checkU([]byte{byte(b0), b1, b2})
					for _, b3 := range bnd {
						checkU([]byte{byte(b0), b1, b2, b3})
						checkU([]byte{byte(b0), b1, b2, b3, 0x80})
					}
				}
			}
		}
		w.stats.Evaluations++
	}
}

// ---------------------------------------------------------------- part (b): the real parser over chunked readers

// parseVia runs parser.Parse(ctx, rd) under recover and a step budget.
func parseVia(rd io.Reader, budget int64) (obs ParseObs) {
	defer func() {
		if r := recover(); r != nil {
			if be, ok := r.(parser.VerifBudgetExceeded); ok {
				obs.Budget = true
				obs.Steps = be.Steps
				return
			}
			buf := make([]byte, 1<<14)
			buf = buf[:runtime.Stack(buf, false)]
			obs.Stack = string(buf)
			obs.Panicked = true
			obs.PanicVal = fmt.Sprint(r)
			obs.Site = panicSite(obs.Stack, false)
		}
	}()
	parser.VerifSetDefaultBudget(budget)
	obs.Stmts, obs.Err = parser.Parse(context.Background(), rd)
	return
}

// c14ObsSummary is what C14 compares: number of statements, each EXPLAIN text, the error string.
func c14ObsSummary(o ParseObs) []string {
	if o.Panicked {
		return []string{"PANIC " + o.PanicVal + " @" + o.Site}
	}
	if o.Budget {
		return []string{"BUDGET"}
	}
	out := []string{fmt.Sprintf("stmts=%d", len(o.Stmts)), "err=" + errString(o.Err)}
	for _, s := range o.Stmts {
		e := safeExplain(s)
		if e.Panicked {
			out = append(out, "EXPLAIN-PANIC "+e.PanicVal)
		} else {
			out = append(out, e.Out)
		}
	}
	return out
}

func c14FirstDiff(a, b []string) string {
	for i := 0; i < len(a) || i < len(b); i++ {
		var x, y string
		if i < len(a) {
			x = a[i]
		}
		if i < len(b) {
			y = b[i]
		}
		if x != y {
			return fmt.Sprintf("field %d:\n baseline: %s\n chunked:  %s", i, trunc(x, 600), trunc(y, 600))
		}
	}
	return ""
}

func chunksToScript(in []byte, cuts []int, eofWithLast bool, emptiesBetween int) *scriptReader {
	var evs []scriptEv
	start := 0
	for _, c := range cuts {
		if c < start || c > len(in) {
			continue
		}
		evs = append(evs, scriptEv{data: in[start:c]})
		for e := 0; e < emptiesBetween; e++ {
			evs = append(evs, scriptEv{})
		}
		start = c
	}
	last := scriptEv{data: in[start:]}
	if eofWithLast {
		last.err = io.EOF
	}
	evs = append(evs, last)
	return &scriptReader{evs: evs}
}

type namedReader struct {
	name string
	rd   io.Reader
}

func randomCuts(r *Rng, n int, maxChunk int) []int {
	var cuts []int
	pos := 0
	for pos < n {
		pos += 1 + r.Intn(maxChunk)
		if pos < n {
			cuts = append(cuts, pos)
		}
	}
	return cuts
}

func fixedCuts(n, size int) []int {
	var cuts []int
	for p := size; p < n; p += size {
		cuts = append(cuts, p)
	}
	return cuts
}

// runeSplitCuts cuts inside every multi-byte sequence (after its first byte, and before its last byte).
func runeSplitCuts(in []byte) []int {
	var cuts []int
	for i := 0; i < len(in); {
		_, sz := utf8.DecodeRune(in[i:])
		if sz > 1 {
			cuts = append(cuts, i+1)
			if sz > 2 {
				cuts = append(cuts, i+sz-1)
			}
		} else if in[i] >= 0x80 {
			cuts = append(cuts, i, i+1)
		}
		i += sz
	}
	return cuts
}

func chunkedReaders(in []byte, r *Rng) []namedReader {
	rs := []namedReader{
		{"iotest.OneByteReader", iotest.OneByteReader(bytes.NewReader(in))},
		{"iotest.HalfReader", iotest.HalfReader(bytes.NewReader(in))},
		{"iotest.DataErrReader", iotest.DataErrReader(bytes.NewReader(in))},
		{"iotest.DataErrReader(OneByteReader)", iotest.DataErrReader(iotest.OneByteReader(bytes.NewReader(in)))},
		{"strings.Reader", strings.NewReader(string(in))},
		{"random-chunks", chunksToScript(in, randomCuts(r, len(in), 7), false, 0)},
		{"random-chunks", chunksToScript(in, randomCuts(r, len(in), 64), false, 0)},
		{"random-chunks+EOF-with-last-data", chunksToScript(in, randomCuts(r, len(in), 1+r.Intn(3000)), true, 0)},
		{"random-chunks+empty-reads", chunksToScript(in, randomCuts(r, len(in), 9), r.Chance(1, 2), 1+r.Intn(3))},
		{"rune-splitting-chunks", chunksToScript(in, runeSplitCuts(in), false, 0)},
		{"rune-splitting-chunks", chunksToScript(in, runeSplitCuts(in), true, 0)},
		{"whole+EOF-with-data", chunksToScript(in, nil, true, 0)},
	}
	if len(in) > 3000 {
		for _, sz := range []int{4095, 4096, 4097, 8191, 8192, 2048, 1365} {
			rs = append(rs, namedReader{"fixed-chunks", chunksToScript(in, fixedCuts(len(in), sz), sz%2 == 0, 0)})
		}
		for _, c := range []int{4093, 4094, 4095, 4096, 4097, 8191, 8192, 8193} {
			if c < len(in) {
				rs = append(rs, namedReader{"two-chunks-at-buffer-size", chunksToScript(in, []int{c}, false, 0)})
			}
		}
	}
	return rs
}

// straddlers builds inputs whose interesting look-ahead sits at a chosen distance from the 4096/8192 marks.
func straddlers(w *W) []string {
	constructs := []string{
		"$tag$ body $tag$", "$tag$" + strings.Repeat("x", 4070) + "$tag$", "$tag$" + strings.Repeat("y", 4090) + "$tag$", "$tag$" + strings.Repeat("z", 5000) + "$tag$ + 1",
		"$tag$ never closed", "$$x$$", "$é$ é $é$", "$t", "t.123_x", "t.1e5", "t.03711_tbl", ".5", "a.1abc", "1.e", "'é€😀'", "x'ff'", "1e+5", "--c\n1", "a::b", "a<=>b", "{p:UInt8}",
		"`é`.\"€\"", "/*é*/1", "1.123456789012345678901234567890_x", "t.1234567890123456789012345678901_x", "€", "\xf0\x9f\x98", "\xe2\x82",
	}
	deltas := []int{-34, -33, -32, -31, -30, -9, -8, -7, -6, -5, -4, -3, -2, -1, 0, 1, 2}
	if !w.Thorough() {
		deltas = []int{-33, -32, -31, -4, -1, 0}
	}
	var out []string
	for _, B := range []int{4096, 8192} {
		for ci, c := range constructs {
			for di, d := range deltas {
				target := B + d
				padKind := (ci + di) % 4
				head := "SELECT "
				var pre string
				switch padKind {
				case 0:
					pre = head + strings.Repeat(" ", target-len(head))
				case 1:
					n := target - len(head) - 5
					pre = head + "/*" + strings.Repeat("c", n) + "*/ "
				case 2:
					n := target - len(head) - 4
					pre = head + "'" + strings.Repeat("s", n) + "', "
				case 3:
					n := target - len(head) - 4
					s := strings.Repeat("é", n/2)
					if n%2 == 1 {
						s += "a"
					}
					pre = head + "'" + s + "', "
				}
				out = append(out, pre+c+" FROM t; SELECT 2")
			}
		}
	}
	return out
}

func chunkingSearch(w *W) {
	stmts, files := loadCorpus()
	evalInput := func(idx int, in []byte, desc string) {
		w.Begin(idx, in, desc)
		items, pv := safeTokenize(in)
		if pv != "" {
			w.Count("skipped:lexer-panic(C12)")
			return
		}
		budget := int64(20000*(pumpedTokens(items)+16)) + 100000
		base := parseVia(bytes.NewReader(in), budget)
		if base.Panicked {
			w.Count("skipped:baseline-panic(C01)")
			return
		}
		if base.Budget {
			w.Count("skipped:baseline-budget(C02)")
			return
		}
		want := c14ObsSummary(base)
		if again := c14ObsSummary(parseVia(bytes.NewReader(in), budget)); c14FirstDiff(want, again) != "" {
			w.Count("skipped:nondeterministic-baseline")
			return
		}
		w.Eval(in, true)
		w.Count(strings.SplitN(desc, ":", 2)[0])
		if base.Err != nil {
			w.Count("baseline-rejected")
		} else {
			w.Count("baseline-accepted")
		}
		r := NewRng(w.Seed, uint64(idx), 15)
		check := func(nr namedReader) {
			got := c14ObsSummary(parseVia(nr.rd, budget))
			w.Count("readers-run")
			if d := c14FirstDiff(want, got); d != "" {
				w.Count("chunking-difference")
				w.Report(Finding{Kind: "chunking", Key: "chunking@" + nr.name, Input: fmt.Sprintf("%q", in), InputHex: hexs(in),
					Detail: "parse via bytes.NewReader vs " + nr.name + " differ in " + d})
			}
		}
		for _, nr := range chunkedReaders(in, r) {
			check(nr)
		}
		if len(in) <= 256 {
			for k := 0; k <= len(in); k++ {
				check(namedReader{"two-chunks-every-offset", chunksToScript(in, []int{k}, k%2 == 1, 0)})
			}
			w.Count("inputs-with-every-offset-boundary")
		}
		if w.stats.Evaluations%1500 == 1 {
			w.Sample(fmt.Sprintf("%s %q: %d statements, err=%q", desc, trunc(string(in), 80), len(base.Stmts), trunc(errString(base.Err), 60)))
		}
	}
	run := func(in string, desc string) {
		idx, mine := w.Case()
		if !mine {
			return
		}
		evalInput(idx, []byte(in), desc)
	}

	// (b1) corpus statements
	step := len(stmts)/w.pickN(1500, 1<<30) + 1
	for i := 0; i < len(stmts); i += step {
		run(stmts[i].Text, "corpus-stmt:"+stmts[i].Test+"#"+itoa(stmts[i].Index))
	}
	// (b2) corpus files: all that are larger than 3500 bytes (they straddle the buffer), a stride of the others
	nBig := 0
	for i, f := range files {
		big := len(f.Content) > 3500 && len(f.Content) < 200000
		if big {
			nBig++
		}
		if (big && (w.Thorough() || nBig%4 == 0)) || (!big && (w.Thorough() || i%24 == 0)) {
			run(f.Content, "corpus-file:"+f.Test)
		}
	}
	// (b2') every place where the lexer looks one character ahead, with a multi-byte character as that character (a read
	// boundary inside it must not change what the look-ahead sees), plus NUL and invalid bytes at such places
	for i, s := range []string{"SELECT 1_é FROM t", "SELECT 1.é", "SELECT 1_ю, 2.я, 3eж", "SELECT a.é, b.1é, c.1_é", "SELECT x-é, y/é, z:é, w|é, v<é, u>é, q!é, p=é", "SELECT 'a'é, \"b\"é, `c`é", "SELECT @é, @@é, $é, {é}",
		"SELECT 0xé, 0bé, 1eé, 1.5eé, .5é", "SELECT -é, --é\n1", "SELECT /é/ /*é*/ 1", "SELECT 1;\x00 SELECT 2", "SELECT 1 \x00", "SELECT é\x00é", "SELECT 1_\xff, 2.\xff, a.\xff", "SELECT 😀.😀, 1_😀, 1.😀"} {
		run(s, fmt.Sprintf("lookahead-multibyte:%d", i))
	}
	// (b3) straddlers
	for i, s := range straddlers(w) {
		run(s, fmt.Sprintf("straddle:%d", i))
	}
	// (b4) grammar statements and (b5) mutants
	nGen := w.pickN(700, 14000)
	for k := 0; k < nGen; k++ {
		idx, mine := w.Case()
		if !mine {
			continue
		}
		r := NewRng(w.Seed, uint64(idx), 16)
		g := &Gen{r: r}
		evalInput(idx, []byte(g.statement(3)), "grammar")
	}
	nMut := w.pickN(1200, 24000)
	for k := 0; k < nMut; k++ {
		idx, mine := w.Case()
		if !mine {
			continue
		}
		r := NewRng(w.Seed, uint64(idx), 17)
		var base string
		if r.Chance(2, 3) {
			base = stmts[r.Intn(len(stmts))].Text
		} else {
			g := &Gen{r: r}
			base = g.statement(3)
		}
		if len(base) > 2000 {
			base = base[:2000]
		}
		in := mutateBytes(r, []byte(base))
		if r.Chance(1, 3) {
			// multi-byte and look-ahead material
			ins := pick(r, []string{"é", "€", "😀", "\xff", "\xe2\x82", " $a$ x $a$ ", " t.1_x ", " .5e3 ", "$a$", "\u00a0", "\ufeff", "\u2003"})
			p := r.Intn(len(in) + 1)
			in = append(in[:p:p], append([]byte(ins), in[p:]...)...)
		}
		evalInput(idx, in, "mutant")
	}
}

// ---------------------------------------------------------------- (c) lexer over bufio over a scripted reader

// lexCanonReader renders lexer.Tokenize over rd as `kind,hexval,off,line,col,q;…` (the format of the model's
// `lex` and `lexbufio` ops); limit bounds the number of tokens (a lexer that does not reach EOF).
func lexCanonReader(rd io.Reader, limit int) (out string) {
	defer func() {
		if r := recover(); r != nil {
			out = "panic"
		}
	}()
	l := lexer.New(rd)
	var sb strings.Builder
	for i := 0; ; i++ {
		it := l.NextToken()
		if i > 0 {
			sb.WriteByte(';')
		}
		q := 0
		if it.Quoted {
			q = 1
		}
		fmt.Fprintf(&sb, "%d,%s,%d,%d,%d,%d", int(it.Token), hexOrDash([]byte(it.Value)), it.Pos.Offset, it.Pos.Line, it.Pos.Column, q)
		if it.Token == token.EOF {
			return sb.String()
		}
		if i > limit {
			return "overflow"
		}
	}
}

// c14LexOverBufio: random inputs x random chunkings; the model's `lexbufio <script>` (the interface lexer
// DC.Model.LexerRd run on the bufio model on the scripted reader) against lexer.Tokenize on the real bufio.Reader on
// the same scripted reader. Clean scripts are the hypothesis of lex_chunking; a share of the scripts carries reader
// errors, stalls (100 empty reads) and an early io.EOF, where model and code must agree as well.
func c14LexOverBufio(w *W) {
	stmts, _ := loadCorpus()
	n := w.pickN(6000, 120000)
	for k := 0; k < n; k++ {
		idx, mine := w.Case()
		if !mine {
			continue
		}
		r := NewRng(w.Seed, uint64(idx), 18)
		// the bytes
		var in []byte
		kind := ""
		switch r.Intn(8) {
		case 0, 1, 2:
			kind = "stream"
			in = randStreamBytes(r, r.Intn(120))
		case 3:
			kind = "corpus"
			in = []byte(stmts[r.Intn(len(stmts))].Text)
			if len(in) > 700 {
				in = in[:700]
			}
		case 4:
			kind = "grammar"
			g := &Gen{r: r}
			in = []byte(g.statement(3))
			if len(in) > 700 {
				in = in[:700]
			}
		case 5:
			kind = "mutant"
			base := []byte(stmts[r.Intn(len(stmts))].Text)
			if len(base) > 400 {
				base = base[:400]
			}
			in = mutateBytes(r, base)
		case 6:
			// look-ahead material next to the 4096-byte buffer boundary
			kind = "boundary"
			pad := 4096 - 24 + r.Intn(40)
			in = append(bytes.Repeat([]byte{' '}, pad), pick(r, []string{"$tag$ x $tag$ y", "$a$b", "$$q$$ 1", "t.0371_x .5e3", "'é''é' -- c", "/* /* € */ */ <=> 1_000.5e-3", "x'4142' b'0101' 0x1Fp3", "`a``b` \"c\"\"d\" @@v"})...)
			in = append(in, randStreamBytes(r, r.Intn(30))...)
		default:
			kind = "lookahead"
			for i, m := 0, 1+r.Intn(6); i < m; i++ {
				in = append(in, pick(r, []string{"$tag$ body $ta$ $tag$ ", "$a$", "$$x$$", "$é$1$é$", "$_1$ $_1$", "db.0371_x ", ".1e+5 ", "1.e5 ", "0b0101 0o17 0xFFp-2 ", "1_000_ ", "'a\\x4", "'\\xZ' ", "\u2018q\u2019 ", "\u201cq\u201d ", "\u2212 c\n", "{p:UInt8} ", "a<=>b ", "x'4", "b'012' ", "é", "\xf0\x9f\x98", "😀", "-- c;;\n", "# h\n", "/* /* */", "@@1a @ ", "`a\\`b` "})...)
			}
		}
		// the chunking
		spec := &scriptSpec{}
		faulty := r.Chance(1, 8)
		maxChunk := pick(r, []int{1, 1, 2, 3, 4, 7, 7, 64, 5000})
		pos := 0
		for pos < len(in) {
			l := 1 + r.Intn(maxChunk)
			if pos+l > len(in) {
				l = len(in) - pos
			}
			code := "n"
			if faulty && r.Chance(1, 10) {
				code = pick(r, []string{"e", "x1", "x2", "g", "f"})
			}
			if pos+l == len(in) && r.Chance(1, 2) && !faulty {
				code = "e" // the last bytes together with io.EOF
			}
			spec.add(in[pos:pos+l], code, 1)
			pos += l
			if r.Chance(1, 6) {
				cnt := 1 + r.Intn(3)
				if r.Chance(1, 10) {
					cnt = 99
				}
				if faulty && r.Chance(1, 4) {
					cnt = 100 + r.Intn(3)
				}
				spec.add(nil, "n", cnt)
			}
		}
		if r.Chance(1, 4) && !faulty {
			spec.add(nil, "e", 1)
		}
		req := "lexbufio " + spec.String()
		w.Begin(idx, in, "lexbufio:"+kind)
		got := w.Model().Ask(req)
		want := lexCanonReader(spec.reader(), len(in)+8)
		w.stats.Evaluations++
		w.Count("corr:lexbufio-scripts")
		w.Count("corr:lexbufio-" + kind)
		if faulty {
			w.Count("corr:lexbufio-faulty-scripts")
		} else {
			w.Count("corr:lexbufio-clean-scripts")
			// on a clean script the answer is also that of the lexer on the plain bytes (C14 at token level)
			if plain := lexCanon(in); plain != want {
				w.Count("chunking-difference")
				w.Report(Finding{Kind: "chunking", Key: "chunking@tokens", Input: fmt.Sprintf("%q", trunc(string(in), 300)), InputHex: hexs(in),
					Detail: "lexer.Tokenize via bytes.Reader vs script " + trunc(spec.String(), 400) + " differ:\nplain:   " + trunc(plain, 600) + "\nchunked: " + trunc(want, 600)})
			}
		}
		w.stats.Counters["corr:lexbufio-tokens"] += strings.Count(want, ";") + 1
		if got != want {
			w.corrDisagree("lexbufio-model-corr (DC.Model.LexerRd over DC.Model.Bufio vs lexer.Tokenize over bufio.Reader; theorem C14Lex.lex_chunking)", "lexbufio-model-corr", req, got, want)
		}
		if w.stats.Counters["corr:lexbufio-scripts"]%2000 == 1 {
			w.Sample(fmt.Sprintf("lexbufio %q in %d events -> %s", trunc(string(in), 50), len(spec.evs), trunc(want, 100)))
		}
	}
}
