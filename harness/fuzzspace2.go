package main

import (
	"fmt"
	"strings"
)

// Structured spaces aimed at rarely exercised code: error recovery inside call-like constructs, multi-statement
// scripts (ExplainStatements looks across statements), WINDOW definitions that refer to each other, and every
// statement kind with every subset of its optional tails. Shared by C01–C04 (C04 keeps what parses).

var callNames = []string{"f", "view", "if", "cast", "extract", "substring", "trim", "position", "exists", "any", "all", "array", "tuple", "columns", "interval",
	"date", "timestamp", "case", "not", "in", "like", "between", "select", "with", "table", "format", "replace", "insert", "left", "right", "apply", "except",
	"count", "sum", "quantile", "arrayMap", "toDate", "remote", "numbers", "dictGet", "lambda", "map", "grouping", "row_number", "nth_value", "kql", "viewIfPermitted",
	"ltrim", "rtrim", "dateDiff", "date_add", "timestampadd", "over", "filter", "within", "distinct", "null", "true"}

func quoteForms(name string) []string {
	return []string{name, "`" + name + "`", "\"" + strings.ToUpper(name[:1]) + name[1:] + "\"", strings.ToUpper(name), "(" + name + ")"}
}

var brokenInner = []string{"SELECT 1 ORDER x", "SELECT 1 GROUP x", "WITH", "SELECT", "1 +", "(", "x AS", "", "SELECT 1 UNION", "*", "x, ", "DISTINCT", "SELECT 1 LIMIT", "x ->", "[1,", "CASE WHEN",
	"SELECT 1 FROM", "1 IN (", "INTERVAL", "x FROM y", "y, 1, ", "SELECT * FROM (SELECT", "SELECT 1", "x", "1, 2"}

var callSuffixes = []string{" AS v", " v", ".x", "[1]", "::Int8", " + 1", "", " IN (1)", " BETWEEN 1 AND 2", " IS NULL", " OVER w", "(1)", " AS v, 2", " FILTER (WHERE 1)", ".1", " OVER (", " IGNORE NULLS", " EXCEPT x", ".1e5", ".99999999999999999999", ".1.2e3", ".0x1", " .5",
	// parametric calls and their modifiers; a dot-number cut off at the end of the input
	" REPLACE (x + 1 AS x", " REPLACE (a AS b; SELECT 1", " REPLACE (a AS b)", " APPLY(f)", " APPLY(", " EXCEPT (a", " EXCEPT a",
	"(x) respect", "(x) ignore, 1", "(x) RESPECT NULLS", "(x) IGNORE NULLS OVER ()", "(x)(y)", ".1e", ".2E"}

var callContexts = [][2]string{{"SELECT ", ""}, {"SELECT 1 WHERE ", ""}, {"SELECT * FROM ", ""}, {"SELECT 1 ORDER BY ", ""}, {"SELECT x, ", " FROM t"}, {"INSERT INTO t SELECT ", ""}, {"SELECT 1 FROM t JOIN ", " ON 1"},
	{"ALTER TABLE t UPDATE a = ", " WHERE 1"}, {"CREATE TABLE t (a Int8 DEFAULT ", ")"}, {"SELECT 1 GROUP BY ", ""}}

// exprShapes: one expression of every kind the parser and the printer treat specially, plain and nested in arrays / tuples,
// with unary operators on literals and on non-literals
var exprShapes = func() []string {
	atoms := []string{"1", "-1", "- -1", "-x", "x", "1.5", "-1.5", "'a'", "-'a'", "NULL", "-NULL", "f(x)", "-f(x)", "(1)", "-(1)", "(x)", "-(x)", "+1", "+x", "NOT x", "18446744073709551616", "-9223372036854775808",
		"-9223372036854775809", "0x1F", "-0x1F", "1e3", "inf", "-inf", "nan", "true", "-true", "t.a", "-t.a", "a[1]", "t.1", "t.1.2", "x::Int8", "-1::Int8", "CAST(1 AS Int8)", "{p:UInt8}", "$$h$$", "INTERVAL 1 DAY",
		"CASE WHEN 1 THEN 2 END", "(SELECT 1)", "-(SELECT 1)", "x -> x", "a + b", "-(a + b)", "a AND b", "x IN (1)", "x BETWEEN 1 AND 2", "x IS NULL", "*", "t.*", "COLUMNS('a')", "DATE '2020-01-01'", "[]", "()", "tuple()", "if(1, 2, 3)", "count(*)", "sum(x) OVER ()",
		"quantile(0.5)(x)", "quantile(0.5)(x) respect", "any(x) RESPECT NULLS", "count(*, x) FILTER (WHERE y > 0)", "corr(a, b, c) FILTER (WHERE d)", "sum(a) FILTER (WHERE b)", "INTERVAL '2 years'", "INTERVAL '-3 day'",
		"b'101'", "x'4142'", "0X10000000000000000", "'a\x00b'", "t.1e", "a.b.c", "1 IS NOT DISTINCT FROM 2"}
	out := append([]string{}, atoms...)
	for i, a := range atoms {
		b := atoms[(i*7+3)%len(atoms)]
		out = append(out, "["+a+"]", "[1, "+a+"]", "("+a+", 2)", "(1, "+a+", "+b+")", "[["+a+"], ["+b+"]]", "(1, ("+a+", 'z'))", "["+a+", "+b+"]::Array(String)", "-["+a+"]", "tuple("+a+", "+b+")", "array("+a+")")
	}
	return out
}()

// scriptPool: small statements whose combinations in one script exercise the code that looks across statements.
var scriptPool = []string{"INSERT INTO t VALUES (1)", "INSERT INTO t (a, b) VALUES (1, 'x'), (2, 'y')", "INSERT INTO t SELECT 1", "INSERT INTO t FORMAT CSV", "INSERT INTO FUNCTION file('a') SELECT 1",
	"SELECT 1", "SELECT -1", "SELECT -x", "SELECT -f(x)", "SELECT -(1)", "SELECT - -1", "SELECT 'a'", "SELECT x, y", "SELECT 1 UNION ALL SELECT 2", "SELECT f(x)", "SELECT NULL", "SELECT 1.5", "SELECT -1.5",
	"SELECT [1]", "SELECT (1, 2)", "SELECT 1 AS a", "SELECT * FROM t", "SELECT count() FROM t", "SELECT 1 FORMAT Null", "SELECT 1 SETTINGS a = 1", "SELECT +1", "SELECT NOT 1", "SELECT -'a'", "SELECT -NULL", "SELECT -[1]",
	"SET a = 1", "USE db", "CREATE TABLE t (a Int8) ENGINE = Memory", "DROP TABLE t", "SYSTEM FLUSH LOGS", "EXPLAIN SELECT 1", "WITH 1 AS x SELECT x", "SELECT 18446744073709551616", "SELECT -9223372036854775808", "(SELECT 1)", "SELECT 1 INTERSECT SELECT 2",
	"OPTIMIZE TABLE t", "TRUNCATE TABLE t", "SHOW TABLES", "DESCRIBE t", "EXISTS t", "SELECT $$h$$", "SELECT 0x1F", "SELECT 1e3", "SELECT inf", "SELECT -inf", "SELECT nan"}

// statements × optional tails (in grammar order); what does not parse is simply not accepted
type tailHead struct{ h, ok string } // ok: indices into tailParts that ClickHouse's grammar allows after h (SYNC/NO DELAY and the two SETTINGS are exclusive)

var tailHeads = []tailHead{
	{"DROP TABLE t", "0235678"},
	{"DROP TABLE db.t", "0235678"},
	{"DROP TABLE IF EXISTS db.t", "0235678"},
	{"DROP DATABASE d", "0235678"},
	{"DROP VIEW db.v", "0235678"},
	{"DROP DICTIONARY db.d", "0235678"},
	{"DROP TEMPORARY TABLE t", "0235678"},
	{"DROP TABLE a, b", "0235678"},
	{"DROP FUNCTION f", "0"},
	{"DROP USER u", "0"},
	{"DROP ROLE r", "0"},
	{"TRUNCATE TABLE db.t", "0678"},
	{"TRUNCATE DATABASE d", "0678"},
	{"OPTIMIZE TABLE db.t", "04678"},
	{"OPTIMIZE TABLE t PARTITION 1 FINAL DEDUPLICATE", "678"},
	{"DETACH TABLE db.t", "012678"},
	{"ATTACH TABLE db.t", "0"},
	{"DETACH DATABASE d", "012678"},
	{"EXISTS TABLE db.t", "5678"},
	{"EXISTS DATABASE d", "5678"},
	{"SHOW TABLES", "5678"},
	{"SHOW TABLES FROM db LIKE 'x'", "5678"},
	{"SHOW DATABASES", "5678"},
	{"SHOW CREATE TABLE db.t", "5678"},
	{"SHOW CREATE DATABASE d", "5678"},
	{"SHOW PROCESSLIST", "5678"},
	{"SHOW COLUMNS FROM t", "5678"},
	{"SHOW DICTIONARIES", "5678"},
	{"SHOW SETTINGS LIKE 'a'", "5678"},
	{"SHOW GRANTS", "5678"},
	{"SHOW FUNCTIONS", "5678"},
	{"DESCRIBE TABLE db.t", "5678"},
	{"DESCRIBE (SELECT 1)", "5678"},
	{"DESC t", "5678"},
	{"CHECK TABLE db.t", "5678"},
	{"CHECK TABLE t PARTITION 1", "5678"},
	{"KILL QUERY WHERE 1", "26"},
	{"KILL MUTATION WHERE 1", "26"},
	{"RENAME TABLE a TO b", "0"},
	{"RENAME TABLE a.x TO b.y, c TO d", "0"},
	{"EXCHANGE TABLES a AND b", "0"},
	{"SYSTEM FLUSH LOGS", ""},
	{"SYSTEM RELOAD DICTIONARY db.d", ""},
	{"SYSTEM SYNC REPLICA db.t", ""},
	{"SYSTEM STOP MERGES db.t", ""},
	{"ALTER TABLE db.t DROP COLUMN a", "678"},
	{"ALTER TABLE t DELETE WHERE 1", "678"},
	{"ALTER TABLE t UPDATE a = 1 WHERE 1", "678"},
	{"CREATE DATABASE d", "0"},
	{"CREATE DATABASE IF NOT EXISTS d ENGINE = Atomic", ""},
	{"CREATE TABLE db.t (a Int8) ENGINE = Memory", ""},
	{"CREATE TABLE t AS s", ""},
	{"CREATE VIEW db.v AS SELECT 1", ""},
	{"CREATE FUNCTION f AS x -> x", ""},
	{"CREATE USER u", ""},
	{"CREATE ROLE r", ""},
	{"INSERT INTO db.t SELECT 1", ""},
	{"INSERT INTO t VALUES (1)", ""},
	{"SELECT 1", "5678"},
	{"SELECT 1 UNION ALL SELECT 2", "5678"},
	{"(SELECT 1)", "5678"},
	{"WITH 1 AS x SELECT x", "5678"},
	{"EXPLAIN SELECT 1", "678"},
	{"EXPLAIN AST SELECT 1", "678"},
	{"UPDATE t SET a = 1 WHERE 1", ""},
	{"DELETE FROM db.t WHERE 1", ""},
	{"GRANT SELECT ON db.t TO u", ""},
	{"REVOKE SELECT ON db.t FROM u", ""},
	{"SET a = 1", ""},
	{"USE db", ""},
	{"WATCH db.v", "5678"},
	{"BACKUP TABLE db.t TO Disk('a', 'b')", "78"},
	{"RESTORE TABLE db.t FROM Disk('a', 'b')", "78"},
	{"UNDROP TABLE db.t", "0678"},
	{"MOVE TABLE a TO b", ""},
	{"PARALLEL WITH", ""},
}

var tailParts = []string{" ON CLUSTER c", " PERMANENTLY", " SYNC", " NO DELAY", " FINAL", " INTO OUTFILE 'f'", " FORMAT Null", " SETTINGS a = 1", " SETTINGS b = 'x', c = 2", " FORMAT 'JSON'"}

// fuzzSpace2 enumerates the structured spaces; each case is passed to run (sharding is done by run).
func fuzzSpace2(w *W, run func(input, desc string)) {
	// (a) call-like constructs with a broken or odd inner part
	q := 0
	for ni, n := range callNames {
		for qi, qn := range quoteForms(n) {
			for bi, inner := range brokenInner {
				// all suffixes for the first contexts, a rotating sample elsewhere (full product in the thorough tier)
				for si, suf := range callSuffixes {
					for ci, c := range callContexts {
						q++
						if !w.Thorough() && ci > 0 && (ni+qi+bi+si+ci)%9 != 0 {
							continue
						}
						closer := ")"
						if (bi+si)%4 == 3 {
							closer = "" // unclosed
						}
						run(c[0]+qn+"("+inner+closer+suf+c[1], "recovery")
					}
				}
			}
		}
	}
	// (a2) every expression shape as a select item, alone and after names (tuple access, subscripts, casts, aliases)
	for i, e := range exprShapes {
		run("SELECT "+e, "expr")
		run("SELECT "+e+" FROM t WHERE "+e, "expr")
		for _, suf := range callSuffixes {
			run("SELECT "+e+suf, "expr-suffix")
		}
		// … and after an INSERT in one script (ExplainStatements prints a simple SELECT after an INSERT specially)
		for j, ins := range []string{"INSERT INTO t VALUES (1)", "INSERT INTO t SELECT 1", "INSERT INTO t FORMAT CSV"} {
			run(ins+"; SELECT "+e, "insert-then-select")
			if (i+j)%3 == 0 {
				run(ins+"; SELECT 2; SELECT "+e+"; SELECT 3", "insert-then-select")
				run(ins+";\nSELECT "+e+" AS a", "insert-then-select")
			}
		}
	}
	// (b) scripts: all ordered pairs, and triples starting with each INSERT form
	for i, a := range scriptPool {
		for j, b := range scriptPool {
			run(a+"; "+b, "script2")
			if strings.HasPrefix(a, "INSERT") && (w.Thorough() || (i+j)%3 == 0) {
				for _, c := range scriptPool[:12] {
					run(a+";\n"+b+";\n"+c+";", "script3")
				}
			}
		}
	}
	// (c) WINDOW definitions referring to each other (chains, forward references, cycles, self reference)
	wbodies := []string{"", "PARTITION BY a", "ORDER BY b", "PARTITION BY a ORDER BY b ROWS BETWEEN 1 PRECEDING AND CURRENT ROW", "ROWS UNBOUNDED PRECEDING", "ORDER BY b RANGE BETWEEN 1 PRECEDING AND 1 FOLLOWING"}
	names := []string{"w0", "w1", "w2"}
	for n := 1; n <= 3; n++ {
		total := 1
		for i := 0; i < n; i++ {
			total *= (len(names) + 1) * len(wbodies)
		}
		for code := 0; code < total; code++ {
			if n == 3 && !w.Thorough() && code%23 != 0 {
				continue
			}
			c := code
			var defs []string
			for i := 0; i < n; i++ {
				base := c % (len(names) + 1)
				c /= len(names) + 1
				body := wbodies[c%len(wbodies)]
				c /= len(wbodies)
				inner := body
				if base < len(names) {
					inner = strings.TrimSpace(names[base] + " " + body)
				}
				defs = append(defs, fmt.Sprintf("%s AS (%s)", names[i], inner))
			}
			for _, use := range []string{"OVER w0", "OVER (w1 ORDER BY c)", "OVER w2"} {
				run("SELECT sum(x) "+use+" FROM t WINDOW "+strings.Join(defs, ", "), "windows")
				if !w.Thorough() {
					break
				}
			}
		}
	}
	// (c2) heads with their trailing clauses in rotating order, alone and followed by other statements
	for _, st := range clauseLast {
		run(st, "clauses")
		run(st+"; SELECT 1 SETTINGS max_threads = 1; SELECT 2", "clauses")
		run("SELECT 0; "+st+";", "clauses")
	}
	// (d) every statement head with every subset of the optional tails (grammar order)
	for _, th := range tailHeads {
		for mask := 0; mask < 1<<len(tailParts); mask++ {
			if !w.Thorough() && bitsSet(mask) > 4 {
				continue
			}
			var sb strings.Builder
			sb.WriteString(th.h)
			valid := !(mask&(1<<2) != 0 && mask&(1<<3) != 0) && !(mask&(1<<7) != 0 && mask&(1<<8) != 0)
			for _, b := range []int{0, 1, 2, 3, 4, 5, 6, 9, 7, 8} { // grammar order: both FORMAT forms before SETTINGS
				if mask&(1<<b) != 0 {
					sb.WriteString(tailParts[b])
					if !strings.Contains(th.ok, string(rune('0'+b))) {
						valid = false
					}
				}
			}
			if valid {
				run(sb.String(), "tails-valid")
			} else {
				run(sb.String(), "tails")
			}
		}
	}
}

func bitsSet(m int) int {
	n := 0
	for ; m != 0; m &= m - 1 {
		n++
	}
	return n
}
