package main

import (
	"fmt"
	"reflect"
	"runtime"
	"strings"
)

func init() {
	props["C01"] = runC01
	props["C02"] = runC02
	props["C03"] = runC03
}

// calibrate measures, on corpus statements, the largest steps/(tokens+16) and bytes/(len+4096) ratios.
type calib struct {
	K     float64 // steps per (token+16)
	M     float64 // allocated bytes per (input byte + 4096)
	N     int
	WorstK string
}

func calibrate(w *W, withMem bool) calib {
	stmts, _ := loadCorpus()
	c := calib{}
	step := 1
	if !w.Thorough() {
		step = 3
	}
	var ms runtime.MemStats
	for i := 0; i < len(stmts); i += step {
		if i%3000 < step {
			heartbeat()
		}
		in := []byte(stmts[i].Text)
		items, pv := safeTokenize(in)
		if pv != "" {
			continue
		}
		nt := pumpedTokens(items)
		var a0 uint64
		if withMem {
			runtime.ReadMemStats(&ms)
			a0 = ms.TotalAlloc
		}
		obs := safeParse(in, int64(4000*(nt+16)))
		if obs.Budget || obs.Panicked {
			continue
		}
		if withMem {
			runtime.ReadMemStats(&ms)
			if m := float64(ms.TotalAlloc-a0) / float64(len(in)+4096); m > c.M {
				c.M = m
			}
		}
		if k := float64(obs.Steps) / float64(nt+16); k > c.K {
			c.K = k
			c.WorstK = stmts[i].Text
		}
		c.N++
	}
	return c
}

const safetyFactor = 32

func budgetFor(c calib, tokens int) int64 {
	return int64(c.K*safetyFactor*float64(tokens+16)) + 1
}

func runC01(w *W) {
	cal := calibrate(w, false)
	w.stats.Extra = map[string]any{"calibrated_K": cal.K, "calibration_statements": cal.N}
	fuzzSpace(w, func(c fuzzCase) {
		w.Begin(c.Idx, c.Input, c.Desc)
		items, pv := safeTokenize(c.Input)
		if strings.HasPrefix(pv, "lexer-overflow") {
			w.Count("lexer-nontermination(C02/C12)")
			return
		}
		if pv != "" {
			w.Report(Finding{Kind: "lexer-panic", Key: "lexer-panic", Input: fmt.Sprintf("%q", c.Input), InputHex: hexs(c.Input), Detail: pv})
			return
		}
		nt := pumpedTokens(items)
		obs := safeParse(c.Input, budgetFor(cal, nt))
		w.Eval(c.Input, obs.Err != nil || c.Bomb)
		w.Count(strings.SplitN(c.Desc, ":", 2)[0])
		if obs.Err != nil {
			w.Count("rejected")
		} else if !obs.Budget && !obs.Panicked {
			w.Count("accepted")
		}
		if obs.Panicked {
			w.Count("panic")
			w.Report(Finding{Kind: "panic", Key: "panic@" + obs.Site, Input: fmt.Sprintf("%q", c.Input), InputHex: hexs(c.Input),
				Detail: obs.PanicVal + "\n" + strings.Join(firstN(repoFrames(obs.Stack), 6), " <- ")})
		}
		if obs.Budget {
			w.Count("budget-exceeded(C02)")
		}
		if obs.Err != nil && w.stats.Counters["rejected"]%5000 == 1 {
			w.Sample(fmt.Sprintf("%q -> %s", trunc(string(c.Input), 120), trunc(obs.Err.Error(), 120)))
		}
	})
}

func firstN(a []string, n int) []string {
	if len(a) > n {
		return a[:n]
	}
	return a
}

func hexs(b []byte) string { return fmt.Sprintf("%x", b) }

func runC02(w *W) {
	c02SkelValidate(w)
	cal := calibrate(w, true)
	if w.stats.Extra == nil {
		w.stats.Extra = map[string]any{}
	}
	for k, v := range map[string]any{"calibrated_K": cal.K, "calibrated_M_bytes_per_input_byte": cal.M, "calibration_statements": cal.N, "safety_factor": safetyFactor,
		"worst_K_statement": trunc(cal.WorstK, 200)} {
		w.stats.Extra[k] = v
	}
	var ms runtime.MemStats
	fuzzSpace(w, func(c fuzzCase) {
		w.Begin(c.Idx, c.Input, c.Desc)
		items, pv := safeTokenize(c.Input)
		if pv != "" && !strings.HasPrefix(pv, "lexer-overflow") {
			return // a lexer panic is C12's business
		}
		nt := pumpedTokens(items)
		budget := budgetFor(cal, nt)
		runtime.ReadMemStats(&ms)
		a0 := ms.TotalAlloc
		obs := safeParse(c.Input, budget)
		runtime.ReadMemStats(&ms)
		alloc := ms.TotalAlloc - a0
		w.Eval(c.Input, true)
		w.Count(strings.SplitN(c.Desc, ":", 2)[0])
		ratio := float64(obs.Steps) / float64(nt+16)
		if !obs.Budget && ratio > w.stats.MaxRatio {
			w.stats.MaxRatio = ratio
		}
		if obs.Budget {
			w.Count("budget-exceeded")
			w.Report(Finding{Kind: "nontermination", Key: "hang@" + obs.Site, Input: fmt.Sprintf("%q", c.Input), InputHex: hexs(c.Input),
				Detail: fmt.Sprintf("step budget %d = %d x K(%.1f) x (tokens %d + 16) exceeded; looping in: %s", budget, safetyFactor, cal.K, nt,
					strings.Join(firstN(repoFrames(obs.Stack), 8), " <- "))})
			return
		}
		if obs.Panicked {
			return // C01's business
		}
		// memory: allocated bytes bounded by a fixed multiple of the input size
		memBound := cal.M*safetyFactor*float64(len(c.Input)+4096) + 1<<20
		if float64(alloc) > memBound {
			w.Count("memory-bound-exceeded")
			w.Report(Finding{Kind: "memory", Key: "memory@" + strings.SplitN(c.Desc, ":", 2)[0], Input: fmt.Sprintf("%q", trunc(string(c.Input), 400)), InputHex: hexs(c.Input),
				Detail: fmt.Sprintf("allocated %d bytes for %d input bytes; bound %.0f (M=%.1f x %d)", alloc, len(c.Input), memBound, cal.M, safetyFactor)})
		}
		if w.stats.Evaluations%20000 == 1 {
			w.Sample(fmt.Sprintf("%q: %d steps for %d tokens, %d bytes allocated", trunc(string(c.Input), 100), obs.Steps, nt, alloc))
		}
	})
}

func runC03(w *W) {
	c03JsonProbe(w) // non-finite literal spellings × positions × wrappers through json.Marshal (p_c03json.go; model DC.Model.Marshal)
	cal := calibrate(w, false)
	fuzzSpace(w, func(c fuzzCase) {
		if c.Bomb {
			return // nesting deeper than 1000 is outside C03
		}
		w.Begin(c.Idx, c.Input, c.Desc)
		items, pv := safeTokenize(c.Input)
		if pv != "" {
			return
		}
		obs := safeParse(c.Input, budgetFor(cal, pumpedTokens(items)))
		if obs.Panicked || obs.Budget || obs.Err != nil {
			w.stats.Evaluations++
			w.Count("not-accepted")
			return
		}
		w.Eval(c.Input, true)
		w.Count("accepted:" + strings.SplitN(c.Desc, ":", 2)[0])
		in := fmt.Sprintf("%q", c.Input)
		for i, s := range obs.Stmts {
			if s == nil {
				w.Report(Finding{Kind: "nil-statement", Key: "nil-statement", Input: in, InputHex: hexs(c.Input), Detail: fmt.Sprintf("statement %d is nil", i)})
				continue
			}
			rv := reflect.ValueOf(s)
			if rv.Kind() == reflect.Ptr && rv.IsNil() {
				w.Report(Finding{Kind: "typed-nil-statement", Key: "typed-nil-statement@" + rv.Type().String(), Input: in, InputHex: hexs(c.Input),
					Detail: fmt.Sprintf("statement %d is a typed nil %s with err == nil", i, rv.Type())})
				continue
			}
			if p := nilWalk(reflect.ValueOf(&s).Elem(), "stmt", 0, map[uintptr]bool{}); p != "" {
				w.Report(Finding{Kind: "typed-nil", Key: "typed-nil@" + nilKey(p), Input: in, InputHex: hexs(c.Input), Detail: p})
			}
			if m := safeMarshal(s); m.Panicked {
				w.Report(Finding{Kind: "marshal-panic", Key: "marshal-panic@" + m.Site, Input: in, InputHex: hexs(c.Input), Detail: m.PanicVal})
			} else if m.Err != nil {
				w.Report(Finding{Kind: "marshal-error", Key: "marshal-error", Input: in, InputHex: hexs(c.Input), Detail: m.Err.Error()})
			}
			e := safeExplain(s)
			if e.Panicked {
				w.Report(Finding{Kind: "explain-panic", Key: "explain-panic@" + e.Site, Input: in, InputHex: hexs(c.Input),
					Detail: e.PanicVal + "\n" + strings.Join(firstN(repoFrames(e.Stack), 6), " <- ")})
			} else if strings.TrimSpace(e.Out) == "" {
				w.Report(Finding{Kind: "empty-explain", Key: "empty-explain@" + reflect.TypeOf(s).String(), Input: in, InputHex: hexs(c.Input), Detail: "Explain returned empty text"})
			}
		}
		if len(obs.Stmts) > 0 {
			es := safeExplainStatements(obs.Stmts)
			if es.Panicked {
				w.Report(Finding{Kind: "explain-panic", Key: "explainstatements-panic@" + es.Site, Input: in, InputHex: hexs(c.Input), Detail: es.PanicVal})
			} else if strings.TrimSpace(es.Out) == "" {
				w.Report(Finding{Kind: "empty-explain", Key: "empty-explainstatements", Input: in, InputHex: hexs(c.Input), Detail: "ExplainStatements returned empty text"})
			}
		}
		if w.stats.Evaluations%20000 == 1 {
			w.Sample(in)
		}
	})
}

// nilKey reduces a nil path to its type-level identity (drops indices).
func nilKey(p string) string {
	var sb strings.Builder
	skip := false
	for _, r := range p {
		if r == '[' {
			skip = true
			continue
		}
		if r == ']' {
			skip = false
			continue
		}
		if !skip {
			sb.WriteRune(r)
		}
	}
	s := sb.String()
	// keep the last field and the nil type
	if i := strings.Index(s, " holds typed nil "); i >= 0 {
		f := s[:i]
		if j := strings.LastIndex(f, "."); j >= 0 {
			f = f[j+1:]
		}
		return f + ":" + s[i+len(" holds typed nil "):]
	}
	if i := strings.Index(s, " is a nil "); i >= 0 {
		f := s[:i]
		if j := strings.LastIndex(f, "."); j >= 0 {
			f = f[j+1:]
		}
		return f + ":nil-element"
	}
	return s
}
