package main

// C08 — operator precedence and associativity.
//
// Every case is an expression TREE with explicit parentheses (the `E` of DC/Spec/PrecSpec.lean). The tree is sent
// to the Lean driver (`c08 <hex of the tree in prefix notation>`), which answers with the rendered text, the
// spec's verdicts (WellPar, noParConcatUnderConcat), the model's parse+EXPLAIN of the text and the reference
// EXPLAIN of the tree. The real `SELECT <text>` goes through Parse + Explain and the lines under the SELECT's
// ` ExpressionList (children 1)` are compared with both.
//
//   impl != reference on a well-parenthesised, non-excluded tree  -> C08 violation   (Kind "precedence")
//   impl != model on a text whose own tree is out of scope: the well-parenthesised tree with the same text is found
//   by a precedence climb in Go, certified by the driver (same render, WellPar, not excluded), and
//   impl != ITS reference                                         -> C08 violation   (Kind "precedence")
//   impl != model (anything else)                                 -> disagreement    (Obligation "pratt-correspondence")
//   model != reference / roundtrip fails on a WellPar tree        -> disagreement    (the theorem's own statement)
//   roundtrip succeeds on a tree that is not WellPar              -> disagreement    (WellPar's side conditions are not tight)
//
// Spaces of cases:
//   A  exhaustive: all trees with k binary operators (k <= 2 with few decorations: every one of the 19 spellings at
//      every operator; otherwise one representative spelling per precedence class, chosen per case from the seed)
//      and d "decorations" (each unary minus, NOT or pair of parentheses is one), d <= D[k];
//      quick k<=3, thorough k<=4. Leaves are `a`; directly under a minus or a parenthesis also `1`.
//   B  every concrete spelling: all pairs (o1,o2) of the 19 spellings in both association shapes with and
//      without parentheses, all single operators over decorated operands, prefix operators before each spelling.
//   C  random trees of depth <= 12, mostly with the parentheses the table requires, literals up to 2^64-1.
//   G  calibration of `NOT (x) op y`: the goldens of parser/testdata that contain the shape must agree with the
//      real code (they are listed in the run's `extra.not_paren_goldens`).

import (
	"encoding/hex"
	"fmt"
	"sort"
	"strings"

	"github.com/sqlc-dev/doubleclick/token"
)

func init() { props["C08"] = runC08 }

type c08E struct {
	kind byte   // 'i' ident, 'n' number, '-' unary minus, '!' NOT, 'b' binary, 'p' parentheses
	s    string // ident / digits / explicit operator spelling ("" = pick from cls)
	cls  int
	l, r *c08E
}

var c08ClassNames = []string{"or", "and", "cmp", "concat", "add", "mul"}
var c08Spellings = [][]string{
	{"OR"}, {"AND"},
	{"=", "==", "!=", "<>", "<", "<=", ">", ">=", "<=>"},
	{"||"},
	{"+", "-"},
	{"*", "/", "%", "DIV", "MOD"},
}

func c08ClassOf(sp string) int {
	for c, l := range c08Spellings {
		for _, s := range l {
			if s == sp {
				return c
			}
		}
	}
	return -1
}

var c08LeafA = &c08E{kind: 'i', s: "a"}
var c08Leaf1 = &c08E{kind: 'n', s: "1"}

// ---- exhaustive generator

// allSpellings: binary nodes range over all 19 concrete spellings instead of one node per precedence class
type c08Gen struct {
	memo         map[[2]int][]*c08E
	allSpellings bool
}

func (g *c08Gen) list(k, d int) []*c08E {
	key := [2]int{k, d}
	if l, ok := g.memo[key]; ok {
		return l
	}
	var out []*c08E
	g.each(k, d, func(e *c08E) { out = append(out, e) })
	g.memo[key] = out
	return out
}

// each streams every tree with exactly k binary operators and exactly d decorations.
func (g *c08Gen) each(k, d int, f func(*c08E)) {
	if k == 0 && d == 0 {
		f(c08LeafA)
		return
	}
	if d >= 1 {
		for _, x := range g.list(k, d-1) {
			f(&c08E{kind: '-', l: x})
			f(&c08E{kind: '!', l: x})
			f(&c08E{kind: 'p', l: x})
		}
		if k == 0 && d == 1 {
			f(&c08E{kind: '-', l: c08Leaf1})
			f(&c08E{kind: 'p', l: c08Leaf1})
		}
	}
	if k >= 1 {
		for kl := 0; kl < k; kl++ {
			kr := k - 1 - kl
			for dl := 0; dl <= d; dl++ {
				ls, rs := g.list(kl, dl), g.list(kr, d-dl)
				for cls := range c08Spellings {
					sps := []string{""}
					if g.allSpellings {
						sps = c08Spellings[cls]
					}
					for _, sp := range sps {
						for _, l := range ls {
							for _, r := range rs {
								f(&c08E{kind: 'b', s: sp, cls: cls, l: l, r: r})
							}
						}
					}
				}
			}
		}
	}
}

// ---- rendering

// c08Words is the prefix notation the driver decodes; spell picks the spelling of a class-only operator node.
func c08Words(e *c08E, spell func(*c08E) string, out *[]string) {
	switch e.kind {
	case 'i', 'n':
		*out = append(*out, e.s)
	case '-':
		*out = append(*out, "neg")
		c08Words(e.l, spell, out)
	case '!':
		*out = append(*out, "not")
		c08Words(e.l, spell, out)
	case 'p':
		*out = append(*out, "par")
		c08Words(e.l, spell, out)
	case 'b':
		*out = append(*out, "bin", spell(e))
		c08Words(e.l, spell, out)
		c08Words(e.r, spell, out)
	}
}

func c08Tokens(e *c08E, spell func(*c08E) string, out *[]string) {
	switch e.kind {
	case 'i', 'n':
		*out = append(*out, e.s)
	case '-':
		*out = append(*out, "-")
		c08Tokens(e.l, spell, out)
	case '!':
		*out = append(*out, "NOT")
		c08Tokens(e.l, spell, out)
	case 'p':
		*out = append(*out, "(")
		c08Tokens(e.l, spell, out)
		*out = append(*out, ")")
	case 'b':
		c08Tokens(e.l, spell, out)
		*out = append(*out, spell(e))
		c08Tokens(e.r, spell, out)
	}
}

// c08Skeleton names the shape class of a tree: operators by class, leaves by kind.
func c08Skeleton(e *c08E, spell func(*c08E) string, sb *strings.Builder) {
	switch e.kind {
	case 'i':
		sb.WriteString("x")
	case 'n':
		sb.WriteString("1")
	case '-':
		sb.WriteString("neg ")
		c08Skeleton(e.l, spell, sb)
	case '!':
		sb.WriteString("not ")
		c08Skeleton(e.l, spell, sb)
	case 'p':
		sb.WriteString("(")
		c08Skeleton(e.l, spell, sb)
		sb.WriteString(")")
	case 'b':
		c08Skeleton(e.l, spell, sb)
		cls := e.cls
		if e.s != "" {
			cls = c08ClassOf(e.s)
		}
		sb.WriteString(" " + c08ClassNames[cls] + " ")
		c08Skeleton(e.r, spell, sb)
	}
}

func c08Ops(e *c08E) int {
	if e == nil {
		return 0
	}
	n := c08Ops(e.l) + c08Ops(e.r)
	if e.kind == 'b' {
		n++
	}
	return n
}

var c08Keywords = map[string]bool{"OR": true, "AND": true, "NOT": true, "DIV": true, "MOD": true}

// c08Layout writes the tokens as SQL text. style 0: single spaces (the canonical text the driver also prints);
// bit 1: keywords lower-cased; bit 2: no blanks inside parentheses; bit 4: numbers with leading zeros.
func c08Layout(toks []string, style int) string {
	var sb strings.Builder
	for i, t := range toks {
		if i > 0 {
			tight := style&2 != 0 && (toks[i-1] == "(" || t == ")")
			if !tight {
				sb.WriteByte(' ')
			}
		}
		if style&1 != 0 && c08Keywords[t] {
			t = strings.ToLower(t)
		}
		if style&4 != 0 && t[0] >= '0' && t[0] <= '9' {
			t = "00" + t
		}
		sb.WriteString(t)
	}
	return sb.String()
}

// ---- the well-parenthesised reading of a text

// c08Climb re-associates a token text by the standard precedence climb with the SPECIFICATION's levels
// (OR 1 < AND 2 < NOT 3 < cmp 4 < || 5 < add 6 < mul 7 < unary 8, `NOT (` binds like unary). It is only a way to
// FIND the tree: the driver certifies the result (its render is the text, WellPar, not excluded) before it is used.
type c08Climber struct {
	toks []string
	pos  int
	ok   bool
}

func (c *c08Climber) cur() string {
	if c.pos < len(c.toks) {
		return c.toks[c.pos]
	}
	return ""
}

func (c *c08Climber) expr(min int) *c08E {
	left := c.prefix()
	for c.ok {
		t := c.cur()
		cls := c08ClassOf(t)
		if cls < 0 {
			break
		}
		lv := []int{1, 2, 4, 5, 6, 7}[cls]
		if lv <= min {
			break
		}
		c.pos++
		right := c.expr(lv)
		left = &c08E{kind: 'b', s: t, cls: cls, l: left, r: right}
	}
	return left
}

func (c *c08Climber) prefix() *c08E {
	t := c.cur()
	c.pos++
	switch {
	case t == "(":
		e := c.expr(0)
		if c.cur() != ")" {
			c.ok = false
		}
		c.pos++
		return &c08E{kind: 'p', l: e}
	case t == "-":
		return &c08E{kind: '-', l: c.expr(8)}
	case t == "NOT":
		if c.cur() == "(" {
			return &c08E{kind: '!', l: c.expr(8)}
		}
		return &c08E{kind: '!', l: c.expr(3)}
	case t == "" || t == ")" || c08ClassOf(t) >= 0:
		c.ok = false
		return c08LeafA
	case t[0] >= '0' && t[0] <= '9':
		return &c08E{kind: 'n', s: t}
	default:
		return &c08E{kind: 'i', s: t}
	}
}

func c08Climb(toks []string) (*c08E, bool) {
	c := &c08Climber{toks: toks, ok: true}
	e := c.expr(0)
	return e, c.ok && c.pos == len(toks)
}

// c08LitsInRange: no literal above 2^64-1, and no literal above 2^63 directly behind a minus sign (spec `litsInRange`).
func c08LitsInRange(e *c08E, underNeg bool) bool {
	switch e.kind {
	case 'n':
		d := strings.TrimLeft(e.s, "0")
		if len(d) > 20 || len(d) == 20 && d > "18446744073709551615" {
			return false
		}
		if underNeg && (len(d) > 19 || len(d) == 19 && d > "9223372036854775808") {
			return false
		}
		return true
	case 'i':
		return true
	case '-':
		return c08LitsInRange(e.l, true)
	case 'b':
		return c08LitsInRange(e.l, false) && c08LitsInRange(e.r, false)
	}
	return c08LitsInRange(e.l, false)
}

// ---- one case

var c08Frame = []string{"SelectWithUnionQuery (children 1)", " ExpressionList (children 1)", "  SelectQuery (children 1)", "   ExpressionList (children 1)"}

func c08ImplLines(out string) ([]string, bool) {
	lines := strings.Split(strings.TrimRight(out, "\n"), "\n")
	if len(lines) <= len(c08Frame) {
		return nil, false
	}
	for i, f := range c08Frame {
		if lines[i] != f {
			return nil, false
		}
	}
	var res []string
	for _, ln := range lines[len(c08Frame):] {
		if !strings.HasPrefix(ln, "    ") {
			return nil, false
		}
		res = append(res, ln[4:])
	}
	return res, true
}

func c08Unhex(s string) (string, bool) {
	if s == "-" {
		return "", true
	}
	b, err := hex.DecodeString(s)
	return string(b), err == nil
}

func c08Eval(w *W, idx int, space string, e *c08E) {
	rng := NewRng(w.Seed, uint64(idx), 8)
	picked := map[*c08E]string{}
	spell := func(n *c08E) string {
		if n.s != "" {
			return n.s
		}
		if s, ok := picked[n]; ok {
			return s
		}
		s := pick(rng, c08Spellings[n.cls])
		picked[n] = s
		return s
	}
	var words, toks []string
	c08Words(e, spell, &words)
	c08Tokens(e, spell, &toks)
	canon := c08Layout(toks, 0)
	style := 0
	if rng.Chance(1, 3) {
		style = 1 + rng.Intn(7)
	}
	sql := "SELECT " + c08Layout(toks, style)
	in := []byte(sql)
	var sk strings.Builder
	c08Skeleton(e, spell, &sk)
	class := sk.String()
	if c08Ops(e) > 4 || len(class) > 90 {
		class = "deep"
	}
	w.Begin(idx, in, space)
	w.Count("cases")
	w.Count("space:" + space)

	ans := w.Model().Ask("c08 " + hex.EncodeToString([]byte(strings.Join(words, " "))))
	f := strings.Split(ans, " ")
	if len(f) != 7 || f[0] != "ok" {
		w.Report(Finding{Kind: "model-answer", Key: "c08-model-answer", Input: sql, InputHex: hexs(in), Detail: "driver answered " + trunc(ans, 200) + " for tree " + strings.Join(words, " "),
			Disagreement: true, Obligation: "pratt-correspondence"})
		return
	}
	mtext, _ := c08Unhex(f[1])
	wp, npc, rt := f[2] == "1", f[3] == "1", f[4] == "1"
	modelNone := f[5] == "none"
	mlinesS, _ := c08Unhex(f[5])
	rlinesS, _ := c08Unhex(f[6])
	if mtext != canon {
		w.Report(Finding{Kind: "harness", Key: "c08-render-mismatch", Input: sql, Detail: fmt.Sprintf("harness text %q, spec render %q", canon, mtext),
			Disagreement: true, Obligation: "pratt-correspondence"})
		return
	}
	inScope := wp && npc && c08LitsInRange(e, false)
	w.Eval(in, inScope)
	if wp {
		w.Count("wellpar")
	}
	if inScope {
		w.Count("reference-compared")
	} else if wp {
		w.Count("excluded-par-concat-under-concat")
	}

	obs := safeParse(in, 0)
	if obs.Panicked || obs.Err != nil || len(obs.Stmts) != 1 {
		kind, key := "rejects-fragment-expression", "rejects@"+class
		det := fmt.Sprintf("err=%v panicked=%v %s stmts=%d", obs.Err, obs.Panicked, obs.PanicVal, len(obs.Stmts))
		w.Report(Finding{Kind: kind, Key: key, Input: sql, InputHex: hexs(in), Detail: det})
		return
	}
	ex := safeExplain(obs.Stmts[0])
	if ex.Panicked {
		w.Report(Finding{Kind: "explain-panic", Key: "explain-panic@" + ex.Site, Input: sql, InputHex: hexs(in), Detail: ex.PanicVal})
		return
	}
	c08Batch(w, idx, sql, ex.Out)
	impl, ok := c08ImplLines(ex.Out)
	if !ok {
		w.Report(Finding{Kind: "precedence", Key: "frame@" + class, Input: sql, InputHex: hexs(in), Detail: "EXPLAIN is not a one-column SELECT frame:\n" + ex.Out})
		return
	}
	implS := strings.Join(impl, "|")
	if inScope && implS != rlinesS {
		w.Report(Finding{Kind: "precedence", Key: "precedence@" + class, Input: sql, InputHex: hexs(in),
			Detail: fmt.Sprintf("tree %s\nEXPLAIN   %s\nreference %s\nmodel     %s", strings.Join(words, " "), implS, rlinesS, mlinesS)})
		return
	}
	if modelNone || implS != mlinesS {
		// The case's own tree is not in the property's scope (or agrees with the reference), yet the real code and the
		// model part ways on this text. Before calling it a mere disagreement, find the well-parenthesised tree that
		// has this very text and compare the real EXPLAIN with ITS reference: if they differ it is a C08 violation.
		if e2, ok := c08Climb(toks); ok && c08LitsInRange(e2, false) {
			var words2 []string
			noSpell := func(n *c08E) string { return n.s }
			c08Words(e2, noSpell, &words2)
			ans2 := strings.Split(w.Model().Ask("c08 "+hex.EncodeToString([]byte(strings.Join(words2, " ")))), " ")
			if len(ans2) == 7 && ans2[0] == "ok" {
				t2, _ := c08Unhex(ans2[1])
				r2, _ := c08Unhex(ans2[6])
				if t2 == canon && ans2[2] == "1" && ans2[3] == "1" {
					w.Count("reassociated-reference-compared")
					if implS != r2 {
						var sk2 strings.Builder
						c08Skeleton(e2, noSpell, &sk2)
						class2 := sk2.String()
						if c08Ops(e2) > 4 || len(class2) > 90 {
							class2 = "deep"
						}
						w.Report(Finding{Kind: "precedence", Key: "precedence@" + class2, Input: sql, InputHex: hexs(in),
							Detail: fmt.Sprintf("well-parenthesised tree of this text: %s\nEXPLAIN   %s\nreference %s\nmodel     %s", strings.Join(words2, " "), implS, r2, mlinesS)})
						return
					}
				}
			}
		}
		w.stats.Disagree++
		w.Report(Finding{Kind: "model-vs-impl", Key: "pratt-correspondence@" + class, Input: sql, InputHex: hexs(in),
			Detail:       fmt.Sprintf("tree %s\nEXPLAIN %s\nmodel   %s (none=%v)", strings.Join(words, " "), implS, mlinesS, modelNone),
			Disagreement: true, Obligation: "pratt-correspondence"})
		return
	}
	if wp && !rt {
		w.stats.Disagree++
		w.Report(Finding{Kind: "model-vs-spec", Key: "roundtrip@" + class, Input: sql, Detail: "WellPar tree but parse (render e) != some (erase e): " + strings.Join(words, " "),
			Disagreement: true, Obligation: "pratt_roundtrip"})
		return
	}
	if rt && !wp {
		// the converse (not proved in Lean, see DC/Props/C08.lean): only well-parenthesised trees re-parse to themselves
		w.stats.Disagree++
		w.Report(Finding{Kind: "model-vs-spec", Key: "roundtrip-not-wellpar@" + class, Input: sql, Detail: "tree is not WellPar but parse (render e) == some (erase e): " + strings.Join(words, " "),
			Disagreement: true, Obligation: "parse_only_wellpar"})
		return
	}
	if inScope && mlinesS != rlinesS {
		w.stats.Disagree++
		w.Report(Finding{Kind: "model-vs-spec", Key: "explain-ref@" + class, Input: sql, Detail: fmt.Sprintf("model %s\nreference %s", mlinesS, rlinesS),
			Disagreement: true, Obligation: "explain_is_reference"})
		return
	}
	if inScope {
		w.Sample(sql + "  =>  " + implS)
	}
}

// ---- random trees

var c08Idents = []string{"a", "b", "c", "x", "y"}
var c08Plain = []string{"0", "1", "42", "9223372036854775807", "9223372036854775808", "18446744073709551615"}
var c08Negatable = []string{"0", "1", "7", "9223372036854775807", "9223372036854775808"}

// c08Level mirrors the spec's level numbers only to decide where the GENERATOR puts parentheses; whether a tree is
// well-parenthesised is always the driver's verdict.
// c08Batch: the tree of an expression must not depend on what else is parsed in the same Parse call. The texts of the last
// few cases are parsed again as ONE script (`SELECT e1; SELECT e2; …`, the caller of Parse keeps all statements) and every
// statement must explain exactly as it did alone — allocation pools, scratch buffers or counters that a parser reuses
// from one statement to the next show up here.
var c08Ring []struct{ sql, out string }

func c08Batch(w *W, idx int, sql, out string) {
	if len(sql) > 400 {
		return
	}
	c08Ring = append(c08Ring, struct{ sql, out string }{sql, out})
	if len(c08Ring) < 6 {
		return
	}
	ring := c08Ring
	c08Ring = nil
	var sb strings.Builder
	for i, c := range ring {
		if i > 0 {
			sb.WriteString(";\n")
		}
		sb.WriteString(c.sql)
	}
	script := sb.String()
	w.Count("batches")
	obs := safeParse([]byte(script), 0)
	if obs.Panicked || obs.Err != nil || len(obs.Stmts) != len(ring) {
		w.Report(Finding{Kind: "precedence", Key: "batch@rejected", Input: script, InputHex: hexs([]byte(script)),
			Detail: fmt.Sprintf("each statement parses alone; together: err=%v panicked=%v stmts=%d", obs.Err, obs.Panicked, len(obs.Stmts))})
		return
	}
	// explain AFTER the whole script has been parsed, first statement last
	for i := len(ring) - 1; i >= 0; i-- {
		if e := safeExplain(obs.Stmts[i]); e.Panicked || e.Out != ring[i].out {
			w.Report(Finding{Kind: "precedence", Key: "batch@differs", Input: script, InputHex: hexs([]byte(script)),
				Detail: fmt.Sprintf("statement %d (%s) explains differently when parsed in one Parse call with the others: %s", i, ring[i].sql, firstLineDiff(ring[i].out, e.Out))})
			return
		}
	}
}

func c08Level(e *c08E) int {
	if e.kind != 'b' {
		return 100
	}
	return []int{1, 2, 4, 5, 6, 7}[c08ClassOf(e.s)]
}

func c08HasOpenPrefix(e *c08E) bool {
	switch e.kind {
	case '-', '!':
		return true
	case 'b':
		return c08HasOpenPrefix(e.r)
	}
	return false
}

func c08Random(r *Rng, depth int, careful bool) *c08E {
	wrap := func(x *c08E, need bool) *c08E {
		if need && careful || r.Chance(1, 12) {
			return &c08E{kind: 'p', l: x}
		}
		return x
	}
	if depth <= 0 || r.Chance(1, 5) {
		if r.Chance(1, 2) {
			return &c08E{kind: 'i', s: pick(r, c08Idents)}
		}
		n := &c08E{kind: 'n', s: pick(r, c08Plain)}
		if len(n.s) == 20 {
			// above 2^63 a literal that ends up directly behind a minus sign prints as Float64 (C09's subject):
			// keep it inside its own parentheses so that no reading of the text negates it directly
			return &c08E{kind: 'p', l: n}
		}
		return n
	}
	switch r.Intn(8) {
	case 0:
		if r.Chance(1, 2) {
			return &c08E{kind: '-', l: &c08E{kind: 'n', s: pick(r, c08Negatable)}}
		}
		x := c08Random(r, depth-1, careful)
		if x.kind == 'n' {
			x = &c08E{kind: 'p', l: x}
		}
		return &c08E{kind: '-', l: wrap(x, x.kind == 'b')}
	case 1:
		x := c08Random(r, depth-1, careful)
		return &c08E{kind: '!', l: wrap(x, x.kind == 'b' && (c08Level(x) <= 3 || r.Chance(1, 2)))}
	default:
		sp := pick(r, pick(r, c08Spellings))
		n := &c08E{kind: 'b', s: sp}
		lv := c08Level(n)
		l := c08Random(r, depth-1, careful)
		rt := c08Random(r, depth-1, careful)
		n.l = wrap(l, l.kind == 'b' && c08Level(l) < lv || c08HasOpenPrefix(l))
		n.r = wrap(rt, rt.kind == 'b' && c08Level(rt) <= lv)
		return n
	}
}

// ---- calibration of `NOT (x) op y` on the goldens

var c08TightOps = map[token.Token]bool{token.EQ: true, token.NEQ: true, token.LT: true, token.GT: true, token.LTE: true, token.GTE: true,
	token.NULL_SAFE_EQ: true, token.CONCAT: true, token.PLUS: true, token.MINUS: true, token.ASTERISK: true, token.SLASH: true,
	token.PERCENT: true, token.DIV: true, token.MOD: true}

// c08NotParenShape reports whether the statement contains a prefix `NOT ( … )` directly followed by a binary
// operator that binds tighter than NOT (for AND/OR the two readings coincide).
func c08NotParenShape(text string) bool {
	items, pv := safeTokenize([]byte(text))
	if pv != "" {
		return false
	}
	var ts []token.Token
	for _, it := range items {
		if it.Token != token.WHITESPACE && it.Token != token.LINE_COMMENT {
			ts = append(ts, it.Token)
		}
	}
	for i := 0; i+1 < len(ts); i++ {
		if ts[i] != token.NOT || ts[i+1] != token.LPAREN {
			continue
		}
		if i > 0 {
			switch ts[i-1] {
			case token.IDENT, token.NUMBER, token.STRING, token.RPAREN, token.RBRACKET, token.IS, token.NULL, token.TRUE, token.FALSE:
				continue // infix NOT / IS NOT
			}
		}
		depth, j := 0, i+1
		for ; j < len(ts); j++ {
			if ts[j] == token.LPAREN {
				depth++
			} else if ts[j] == token.RPAREN {
				depth--
				if depth == 0 {
					break
				}
			}
		}
		if j+1 < len(ts) && c08TightOps[ts[j+1]] {
			return true
		}
	}
	return false
}

func c08Calibrate(w *W) {
	stmts, _ := loadCorpus()
	var agree, disagree, disabled []string
	for _, st := range stmts {
		if !strings.Contains(strings.ToUpper(st.Text), "NOT") || !c08NotParenShape(st.Text) {
			continue
		}
		name := fmt.Sprintf("%s#%d", st.Test, st.Index)
		if !st.Enabled {
			disabled = append(disabled, name)
			continue
		}
		obs := safeParse([]byte(st.Text), 0)
		if obs.Panicked || obs.Err != nil || len(obs.Stmts) == 0 {
			disagree = append(disagree, name)
			continue
		}
		ex := safeExplain(obs.Stmts[0])
		if !ex.Panicked && strings.TrimSpace(ex.Out) == strings.TrimSpace(st.Golden) {
			agree = append(agree, name)
		} else {
			disagree = append(disagree, name)
		}
	}
	sort.Strings(agree)
	if w.stats.Extra == nil {
		w.stats.Extra = map[string]any{}
	}
	w.stats.Extra["not_paren_goldens"] = agree
	w.stats.Extra["not_paren_goldens_disagreeing"] = disagree
	w.stats.Extra["not_paren_statements_without_enabled_golden"] = disabled
	if w.Shard == 0 || w.Only >= 0 {
		for _, name := range disagree {
			w.Report(Finding{Kind: "precedence", Key: "not-paren-golden@" + name, Input: name,
				Detail: "a golden containing `NOT (x) op y` with op tighter than NOT differs from the real EXPLAIN; the `NOT (` rule of the specification is calibrated on these goldens"})
		}
		if len(agree) == 0 {
			w.Report(Finding{Kind: "calibration", Key: "not-paren-uncalibrated", Input: "parser/testdata",
				Detail: "no enabled golden contains `NOT (x) op y`; the shape must be excluded from the compared set", Disagreement: true, Obligation: "pratt-correspondence"})
		}
	}
}

// ---- the property

func runC08(w *W) {
	c08Calibrate(w)

	// A: exhaustive. For k <= 2 (up to allDeco[k] decorations) every binary node ranges over all 19 spellings, so each
	// concrete spelling meets every neighbouring class and prefix; beyond that one spelling per class, picked per case.
	maxDeco := []int{5, 4, 3, 2}
	allDeco := []int{-1, 4, 2}
	if w.Thorough() {
		maxDeco = []int{6, 5, 4, 3, 1}
		allDeco = []int{-1, 5, 3}
	}
	g := &c08Gen{memo: map[[2]int][]*c08E{}}
	gAll := &c08Gen{memo: map[[2]int][]*c08E{}, allSpellings: true}
	for k := range maxDeco {
		for d := 0; d <= maxDeco[k]; d++ {
			gen, space := g, fmt.Sprintf("exhaustive k=%d d=%d", k, d)
			if k < len(allDeco) && d <= allDeco[k] {
				gen, space = gAll, fmt.Sprintf("exhaustive-all-spellings k=%d d=%d", k, d)
			}
			gen.each(k, d, func(e *c08E) {
				idx, mine := w.Case()
				if mine {
					c08Eval(w, idx, space, e)
				}
			})
		}
	}

	// B: every concrete spelling
	var all []string
	for _, l := range c08Spellings {
		all = append(all, l...)
	}
	run := func(space string, e *c08E) {
		idx, mine := w.Case()
		if mine {
			c08Eval(w, idx, space, e)
		}
	}
	id := func(s string) *c08E { return &c08E{kind: 'i', s: s} }
	num := func(s string) *c08E { return &c08E{kind: 'n', s: s} }
	un := func(k byte, x *c08E) *c08E { return &c08E{kind: k, l: x} }
	bin := func(o string, l, r *c08E) *c08E { return &c08E{kind: 'b', s: o, l: l, r: r} }
	operands := []*c08E{id("a"), num("1"), un('-', num("1")), un('-', id("a")), un('!', id("a")), un('p', id("a")), un('-', un('p', num("1"))), un('!', un('p', id("a"))), un('!', num("0")), un('-', num("0"))}
	for _, o := range all {
		for _, l := range operands {
			for _, r := range operands {
				run("spelling k=1", bin(o, l, r))
			}
		}
		run("spelling prefix", un('!', bin(o, id("a"), id("b"))))
		run("spelling prefix", un('-', bin(o, id("a"), id("b"))))
		run("spelling prefix", un('!', un('p', bin(o, id("a"), id("b")))))
		run("spelling prefix", bin(o, un('!', un('p', id("a"))), un('!', un('p', id("b")))))
	}
	for _, o1 := range all {
		for _, o2 := range all {
			a, b, c := id("a"), id("b"), num("1")
			run("spelling pairs", bin(o2, bin(o1, a, b), c))
			run("spelling pairs", bin(o1, a, bin(o2, b, c)))
			run("spelling pairs", bin(o2, un('p', bin(o1, a, b)), c))
			run("spelling pairs", bin(o1, a, un('p', bin(o2, b, c))))
			run("spelling pairs", bin(o1, a, un('!', bin(o2, b, c))))
			run("spelling pairs", bin(o1, a, un('-', bin(o2, b, c))))
		}
	}

	// D: deep but narrow trees — the printed tree is several hundred levels deep (indentation and depth bookkeeping
	// beyond anything a golden file reaches): left-deep and right-deep chains of every operator, prefix towers
	for _, n := range []int{70, 130, 200, 330, 600} {
		if !w.Thorough() && n == 200 {
			continue
		}
		for oi, o := range all {
			if !w.Thorough() && n > 130 && oi%3 != 0 {
				continue
			}
			left := id("x0")
			right := id(fmt.Sprintf("x%d", n))
			for i := 1; i <= n; i++ {
				left = bin(o, left, id(fmt.Sprintf("x%d", i)))
				right = bin(o, id(fmt.Sprintf("x%d", n-i)), un('p', right))
			}
			run("deep-left", left)
			run("deep-right", right)
		}
		for _, k := range []byte{'-', '!', 'p'} {
			e := id("a")
			for i := 0; i < n; i++ {
				e = un(k, e)
				if k != 'p' && i%2 == 1 {
					e = un('p', e) // keep `- -` / `NOT NOT` apart from each other's folding rules every other level
				}
			}
			run("deep-prefix", e)
			run("deep-prefix", bin("+", e, num("1")))
		}
	}

	// C: random deeper trees
	n := w.pickN(30000, 400000)
	for i := 0; i < n; i++ {
		idx, mine := w.Case()
		if !mine {
			continue
		}
		r := NewRng(w.Seed, uint64(idx), 9)
		depth := 2 + r.Intn(11)
		e := c08Random(r, depth, !r.Chance(1, 5))
		for tries := 0; c08Ops(e) > 60 && tries < 20; tries++ {
			e = c08Random(r, depth, true)
		}
		if c08Ops(e) > 60 {
			e = c08Random(r, 3, true)
		}
		c08Eval(w, idx, "random", e)
	}
}
