package main

import (
	"bytes"
	"context"
	"encoding/json"
	"fmt"
	"reflect"
	"regexp"
	"runtime"
	"strings"

	"github.com/sqlc-dev/doubleclick/ast"
	"github.com/sqlc-dev/doubleclick/lexer"
	"github.com/sqlc-dev/doubleclick/parser"
	"github.com/sqlc-dev/doubleclick/token"
)

// ---------------------------------------------------------------- PRNG

// Rng is a splitmix64 generator: every random choice of a case derives from (seed, case index).
type Rng struct{ s uint64 }

func NewRng(seed uint64, idx uint64, stream uint64) *Rng {
	r := &Rng{s: seed*0x9E3779B97F4A7C15 ^ (idx+1)*0xBF58476D1CE4E5B9 ^ (stream+1)*0x94D049BB133111EB}
	r.Next()
	r.Next()
	return r
}

func (r *Rng) Next() uint64 {
	r.s += 0x9E3779B97F4A7C15
	z := r.s
	z = (z ^ (z >> 30)) * 0xBF58476D1CE4E5B9
	z = (z ^ (z >> 27)) * 0x94D049BB133111EB
	return z ^ (z >> 31)
}

func (r *Rng) Intn(n int) int {
	if n <= 0 {
		return 0
	}
	return int(r.Next() % uint64(n))
}

func (r *Rng) Chance(num, den int) bool { return r.Intn(den) < num }

func pick[T any](r *Rng, xs []T) T { return xs[r.Intn(len(xs))] }

// ---------------------------------------------------------------- observations of the real code

// ParseObs is everything observed about one call of the real parser.
type ParseObs struct {
	Stmts    []ast.Statement
	Err      error
	Panicked bool
	PanicVal string
	Site     string // innermost /repo frame of the panic (function name)
	Stack    string
	Budget   bool // aborted by the step budget (non-termination / super-linear work)
	Steps    int64
}

var frameRe = regexp.MustCompile(`github\.com/sqlc-dev/doubleclick/([A-Za-z0-9_/]+)\.(\(\*?[A-Za-z0-9_]+\)\.)?([A-Za-z0-9_]+)`)

// repoFrames lists the functions of the repository on a stack, innermost first.
func repoFrames(stack string) []string {
	var out []string
	for _, ln := range strings.Split(stack, "\n") {
		if strings.HasPrefix(ln, "\t") {
			continue
		}
		m := frameRe.FindStringSubmatch(ln)
		if m == nil {
			continue
		}
		pk := m[1]
		if i := strings.LastIndex(pk, "/"); i >= 0 {
			pk = pk[i+1:]
		}
		out = append(out, pk+"."+m[3])
	}
	return out
}

var hookFrames = map[string]bool{"parser.verifTick": true, "parser.currentIs": true, "parser.peekIs": true, "parser.nextToken": true,
	"parser.expect": true, "parser.expectPeek": true, "parser.isColumnsFunction": true}

func panicSite(stack string, skipHook bool) string {
	for _, f := range repoFrames(stack) {
		if skipHook && hookFrames[f] {
			continue
		}
		return f
	}
	return "unknown"
}

// safeParse runs parser.New + ParseStatements (which is what parser.Parse does) on input,
// under recover and a step budget (0 = none).
func safeParse(input []byte, budget int64) (obs ParseObs) {
	return safeParseCtx(context.Background(), input, budget)
}

func safeParseCtx(ctx context.Context, input []byte, budget int64) (obs ParseObs) {
	var p *parser.Parser
	defer func() {
		if r := recover(); r != nil {
			buf := make([]byte, 1<<16)
			buf = buf[:runtime.Stack(buf, false)]
			obs.Stack = string(buf)
			if be, ok := r.(parser.VerifBudgetExceeded); ok {
				obs.Budget = true
				obs.Steps = be.Steps
				obs.Site = panicSite(obs.Stack, true)
				obs.PanicVal = "step budget exceeded"
				return
			}
			obs.Panicked = true
			obs.PanicVal = fmt.Sprint(r)
			obs.Site = panicSite(obs.Stack, false)
			if p != nil {
				obs.Steps = p.VerifSteps()
			}
		}
	}()
	parser.VerifSetDefaultBudget(budget)
	p = parser.New(bytes.NewReader(input))
	p.VerifSetBudget(budget)
	obs.Stmts, obs.Err = p.ParseStatements(ctx)
	obs.Steps = p.VerifSteps()
	return
}

// safeTokenize runs the lexer under recover. It is lexer.Tokenize with a cap: C12 promises at most one token per
// input byte plus one, so a lexer that produces more is not terminating; the cap turns that into an observation
// ("lexer-overflow") instead of an unbounded allocation in the worker.
func safeTokenize(input []byte) (items []lexer.Item, panicVal string) {
	defer func() {
		if r := recover(); r != nil {
			panicVal = fmt.Sprint(r)
		}
	}()
	l := lexer.New(bytes.NewReader(input))
	limit := len(input) + 8
	for {
		it := l.NextToken()
		items = append(items, it)
		if it.Token == token.EOF {
			return
		}
		if len(items) > limit {
			return items, "lexer-overflow: more tokens than input bytes (the lexer does not reach EOF)"
		}
	}
}

func pumpedTokens(items []lexer.Item) int {
	n := 0
	for _, it := range items {
		if it.Token != token.WHITESPACE && it.Token != token.LINE_COMMENT {
			n++
		}
	}
	return n
}

type callObs struct {
	Out      string
	Err      error
	Panicked bool
	PanicVal string
	Site     string
	Stack    string
}

func guard(f func() (string, error)) (o callObs) {
	defer func() {
		if r := recover(); r != nil {
			buf := make([]byte, 1<<16)
			buf = buf[:runtime.Stack(buf, false)]
			o.Stack = string(buf)
			o.Panicked = true
			o.PanicVal = fmt.Sprint(r)
			o.Site = panicSite(o.Stack, false)
		}
	}()
	o.Out, o.Err = f()
	return
}

func safeExplain(s ast.Statement) callObs {
	return guard(func() (string, error) { return parser.Explain(s), nil })
}

func safeExplainStatements(ss []ast.Statement) callObs {
	return guard(func() (string, error) { return parser.ExplainStatements(ss), nil })
}

func safeMarshal(s ast.Statement) callObs {
	return guard(func() (string, error) { b, err := json.Marshal(s); return string(b), err })
}

// ---------------------------------------------------------------- reflective walks

var nodeType = reflect.TypeOf((*ast.Node)(nil)).Elem()

// nilWalk reports the first typed-nil pointer stored in an interface-typed field or slice
// element reachable from v (exactly what C03 states; plain nil elements are not reported). path names it.
func nilWalk(v reflect.Value, path string, depth int, seen map[uintptr]bool) string {
	if depth > 4000 {
		return ""
	}
	switch v.Kind() {
	case reflect.Interface:
		if v.IsNil() {
			return ""
		}
		e := v.Elem()
		if e.Kind() == reflect.Ptr && e.IsNil() {
			return fmt.Sprintf("%s holds typed nil %s", path, e.Type())
		}
		return nilWalk(e, path, depth+1, seen)
	case reflect.Ptr:
		if v.IsNil() {
			return ""
		}
		if seen[v.Pointer()] {
			return ""
		}
		seen[v.Pointer()] = true
		return nilWalk(v.Elem(), path, depth+1, seen)
	case reflect.Struct:
		for i := 0; i < v.NumField(); i++ {
			f := v.Type().Field(i)
			if r := nilWalk(v.Field(i), path+"."+f.Name, depth+1, seen); r != "" {
				return r
			}
		}
	case reflect.Slice:
		for i := 0; i < v.Len(); i++ {
			el := v.Index(i)
			if r := nilWalk(el, fmt.Sprintf("%s[%d]", path, i), depth+1, seen); r != "" {
				return r
			}
		}
	case reflect.Map:
		it := v.MapRange()
		for it.Next() {
			if r := nilWalk(it.Value(), path+"{}", depth+1, seen); r != "" {
				return r
			}
		}
	}
	return ""
}

// snapshot renders every field (exported or not) of the tree reachable from v, typed-nil aware.
func snapshot(v reflect.Value, sb *strings.Builder, depth int) {
	if depth > 4000 {
		sb.WriteString("<deep>")
		return
	}
	switch v.Kind() {
	case reflect.Interface:
		if v.IsNil() {
			sb.WriteString("nil-iface")
			return
		}
		sb.WriteString("i:")
		snapshot(v.Elem(), sb, depth+1)
	case reflect.Ptr:
		if v.IsNil() {
			sb.WriteString("nil-" + v.Type().String())
			return
		}
		sb.WriteString("&")
		snapshot(v.Elem(), sb, depth+1)
	case reflect.Struct:
		sb.WriteString(v.Type().Name() + "{")
		for i := 0; i < v.NumField(); i++ {
			sb.WriteString(v.Type().Field(i).Name + "=")
			snapshot(v.Field(i), sb, depth+1)
			sb.WriteString(";")
		}
		sb.WriteString("}")
	case reflect.Slice:
		if v.IsNil() {
			sb.WriteString("nil-slice")
			return
		}
		fmt.Fprintf(sb, "[%d:", v.Len())
		for i := 0; i < v.Len(); i++ {
			snapshot(v.Index(i), sb, depth+1)
			sb.WriteString(",")
		}
		sb.WriteString("]")
	case reflect.Map:
		fmt.Fprintf(sb, "map(%d)", v.Len())
	case reflect.String:
		fmt.Fprintf(sb, "%q", v.String())
	case reflect.Bool:
		fmt.Fprintf(sb, "%v", v.Bool())
	case reflect.Int, reflect.Int8, reflect.Int16, reflect.Int32, reflect.Int64:
		fmt.Fprintf(sb, "%d", v.Int())
	case reflect.Uint, reflect.Uint8, reflect.Uint16, reflect.Uint32, reflect.Uint64:
		fmt.Fprintf(sb, "%d", v.Uint())
	case reflect.Float32, reflect.Float64:
		fmt.Fprintf(sb, "%b", v.Float())
	default:
		fmt.Fprintf(sb, "<%s>", v.Kind())
	}
}

func snapshotStmt(s ast.Statement) string {
	var sb strings.Builder
	snapshot(reflect.ValueOf(&s).Elem(), &sb, 0)
	return sb.String()
}

// ---------------------------------------------------------------- small helpers

func trunc(s string, n int) string {
	if len(s) <= n {
		return s
	}
	return s[:n] + fmt.Sprintf("…(+%d bytes)", len(s)-n)
}

func errString(e error) string {
	if e == nil {
		return ""
	}
	return e.Error()
}
