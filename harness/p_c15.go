package main

import (
	"bufio"
	"bytes"
	"errors"
	"fmt"
	"io"
	"net"
	"strings"
)

// C15 — a failing reader is reported: if the reader returns an error other than io.EOF, Parse returns an error
// that wraps it. Search on the real parser.Parse: every input x every failure offset k in [0,len] x error kinds
// x two delivery modes (one byte per Read, random chunk per Read). Oracle: errors.Is(err, injected) whenever the
// failing Read was actually issued.
//
// Inputs containing a NUL byte are skipped and counted: a NUL ends lexing (`l.ch == 0`), so an error that bufio
// holds in its sticky slot (delivered together with data) is never handed to the lexer — DESIGN §7 conditions the
// property on the lexer having received the error, which cannot be observed from outside the reader.

func init() {
	props["C15"] = runC15
}

// timeoutErr is a net.Error-style transient error.
type timeoutErr struct{}

func (timeoutErr) Error() string   { return "i/o timeout (injected)" }
func (timeoutErr) Timeout() bool   { return true }
func (timeoutErr) Temporary() bool { return true }

var (
	errPlain   = errors.New("injected plain reader error")
	errTimeout = error(timeoutErr{})
)

type failKind struct {
	name     string
	err      error
	withData bool // the error comes together with the last data chunk
	once     bool // the reader continues with the rest of the input after the error
}

var failKinds = []failKind{
	{name: "plain-error", err: errPlain},
	{name: "io.ErrUnexpectedEOF", err: io.ErrUnexpectedEOF},
	{name: "timeout-once-then-continue", err: errTimeout, once: true},
	{name: "error-with-data", err: errPlain, withData: true},
	{name: "timeout-with-data-then-continue", err: errTimeout, withData: true, once: true},
	// not in the property's list of examples but inside its text ("an error other than io.EOF"): the reader's own error
	// value is one of the sentinels bufio itself makes. The first was lost until /repo commit efe7a9c82 (recordErr
	// filtered bufio.ErrBufferFull on every path); both are ordinary kinds that must be reported.
	{name: "reader-returns-bufio.ErrBufferFull", err: bufio.ErrBufferFull},
	{name: "reader-returns-io.ErrNoProgress", err: io.ErrNoProgress},
	// errors that merely WRAP io.EOF are "an error other than io.EOF" (a connection reset reported as `read tcp …: EOF`)
	{name: "wrapped-io.EOF", err: errWrappedEOF},
	{name: "net.OpError-wrapping-io.EOF", err: errOpEOF},
	{name: "error-whose-Is-answers-io.EOF", err: errIsEOF},
	{name: "wrapped-io.EOF-with-data-then-continue", err: errWrappedEOF, withData: true, once: true},
}

type isEOFErr struct{}

func (isEOFErr) Error() string        { return "stream closed (injected)" }
func (isEOFErr) Is(target error) bool { return target == io.EOF }

var (
	errWrappedEOF = fmt.Errorf("connection reset (injected): %w", io.EOF)
	errOpEOF      = error(&net.OpError{Op: "read", Net: "tcp", Err: io.EOF})
	errIsEOF      = error(isEOFErr{})
)

// failingReader delivers in[:k] (one byte per Read, or random chunks), then fails as fk says.
func failingReader(in []byte, k int, fk failKind, r *Rng, oneByte bool) *scriptReader {
	var evs []scriptEv
	chunk := func(b []byte) {
		for len(b) > 0 {
			n := 1
			if !oneByte {
				n = 1 + r.Intn(12)
				if r.Chance(1, 8) {
					n = 1 + r.Intn(600)
				}
			}
			if n > len(b) {
				n = len(b)
			}
			evs = append(evs, scriptEv{data: b[:n]})
			b = b[n:]
		}
	}
	chunk(in[:k])
	if fk.withData && len(evs) > 0 {
		evs[len(evs)-1].err = fk.err
	} else {
		evs = append(evs, scriptEv{err: fk.err})
	}
	sr := &scriptReader{}
	if fk.once {
		chunk(in[k:])
	} else {
		sr.tail = fk.err // persistent: every later Read fails too
	}
	sr.evs = evs
	return sr
}

func runC15(w *W) {
	stmts, _ := loadCorpus()
	evalInput := func(idx int, in []byte, desc string) {
		if len(in) > 512 {
			return
		}
		w.Begin(idx, in, desc)
		if bytes.IndexByte(in, 0) >= 0 {
			w.Count("skipped:input-with-NUL(§7)")
			return
		}
		items, pv := safeTokenize(in)
		if pv != "" {
			w.Count("skipped:lexer-panic(C12)")
			return
		}
		budget := int64(20000*(pumpedTokens(items)+16)) + 100000
		base := parseVia(bytes.NewReader(in), budget)
		if base.Panicked || base.Budget {
			w.Count("skipped:baseline-panic-or-budget(C01/C02)")
			return
		}
		w.Eval(in, true)
		w.Count(strings.SplitN(desc, ":", 2)[0])
		r := NewRng(w.Seed, uint64(idx), 18)
		for k := 0; k <= len(in); k++ {
			for _, fk := range failKinds {
				for mode := 0; mode < 3; mode++ {
					sr := failingReader(in, k, fk, r, mode == 0)
					var rd io.Reader = sr
					if mode == 2 {
						// the caller hands over its own bufio.Reader with a larger buffer: bufio.NewReader inside the lexer then
						// adopts it, and look-aheads that exceed the default size now fit exactly
						if (k+len(fk.name))%3 != 0 {
							continue
						}
						rd = bufio.NewReaderSize(sr, 8192)
					}
					obs := parseVia(rd, budget)
					w.Count("failing-reader-runs")
					if obs.Panicked || obs.Budget {
						w.Count("skipped:prefix-panic-or-budget(C01/C02)")
						continue
					}
					if len(sr.fired) == 0 {
						w.Count("failing-read-never-issued")
						continue
					}
					w.Count("observed:" + fk.name)
					if obs.Err != nil && errors.Is(obs.Err, fk.err) {
						continue
					}
					w.Count("reader-error-lost")
					how := "one byte per Read"
					if mode == 1 {
						how = "random chunk per Read"
					} else if mode == 2 {
						how = "random chunk per Read, behind the caller's bufio.NewReaderSize(r, 8192)"
					}
					w.Report(Finding{Kind: "reader-error-lost", Key: "reader-error-lost@" + fk.name, Input: fmt.Sprintf("%q", in), InputHex: hexs(in),
						Detail: fmt.Sprintf("reader delivers %d of %d bytes (%s) then returns %q (%s); the failing Read was issued %d time(s); Parse returned %d statement(s) and err=%q",
							k, len(in), how, fk.err.Error(), fk.name, len(sr.fired), len(obs.Stmts), errString(obs.Err))})
				}
			}
		}
		if w.stats.Evaluations%800 == 1 {
			w.Sample(fmt.Sprintf("%s %q: %d offsets x %d kinds x 2 modes", desc, trunc(string(in), 80), len(in)+1, len(failKinds)))
		}
	}
	run := func(in string, desc string) {
		idx, mine := w.Case()
		if !mine {
			return
		}
		evalInput(idx, []byte(in), desc)
	}
	// (1) look-ahead shapes: the error reaches the lexer through Peek (peekChar, peekCharN, isIdentifierAfterDot, tryReadDollarTag)
	for i, s := range []string{"", "SELECT 1", "SELECT 1;", "SELECT $tag$ body $tag$", "SELECT $tag$ body", "SELECT $$x$$", "SELECT t.123_x", "SELECT .5", "SELECT 1.5e3", "SELECT a.1abc",
		"SELECT 'é€😀'", "SELECT a -- c", "SELECT a /* c */", "SELECT 1 -- c\n; SELECT 2", "SELECT a<=>b, a::b, a->b", "SELECT {p:UInt8}", "é", "$", ".", "-", "/", "SELECT 1; SELECT 2; SELECT 3",
		"SELECT x'ff', b'01'", "SELECT `a`.\"b\"", "SELECT 'unterminated", "SELECT 1e", "SELECT 0x", "  \t\n", ";;;", "SELECT 1 FORMAT JSON", "INSERT INTO t VALUES (1, 'a')", "\ufeffSELECT 1",
		// failures that are reached only while the parser skips semicolons, whitespace and comments between statements
		"SELECT 1;;;; SELECT 2", ";;;; SELECT 1", "SELECT 1;;; -- done\nSELECT 2", "SELECT 1 ; ; ; ; ; /* c */ ; ; SELECT 2 ; ; ;", ";;;;;;;;", "SELECT 1;\n\n\n;\n;\n-- x\n;SELECT 2", "SELECT 1 PARALLEL WITH SELECT 2;;; ;SELECT 3",
		"SELECT 1 -- a comment that is quite long ........................................\n; SELECT 2", "SELECT 1 # hash comment\n;;;;SELECT 2", "SELECT 1 /* block\ncomment */ ;;;; /* another */ SELECT 2"} {
		run(s, fmt.Sprintf("shape:%d", i))
	}
	// (2) corpus statements <= 512 bytes
	step := len(stmts)/w.pickN(1400, 30000) + 1
	for i := 0; i < len(stmts); i += step {
		run(stmts[i].Text, "corpus-stmt:"+stmts[i].Test+"#"+itoa(stmts[i].Index))
	}
	// (3) grammar statements, (4) mutants
	nGen := w.pickN(500, 10000)
	for k := 0; k < nGen; k++ {
		idx, mine := w.Case()
		if !mine {
			continue
		}
		r := NewRng(w.Seed, uint64(idx), 19)
		g := &Gen{r: r}
		evalInput(idx, []byte(g.statement(2)), "grammar")
	}
	nMut := w.pickN(900, 18000)
	for k := 0; k < nMut; k++ {
		idx, mine := w.Case()
		if !mine {
			continue
		}
		r := NewRng(w.Seed, uint64(idx), 20)
		base := stmts[r.Intn(len(stmts))].Text
		if len(base) > 400 {
			base = base[:400]
		}
		in := mutateBytes(r, []byte(base))
		if r.Chance(1, 3) {
			ins := pick(r, []string{"é", "€", "😀", "\xff", "\xe2\x82", " $a$ x $a$ ", " t.1_x ", " .5e3 ", "$a$", " "})
			p := r.Intn(len(in) + 1)
			in = append(in[:p:p], append([]byte(ins), in[p:]...)...)
		}
		evalInput(idx, in, "mutant")
	}
}
