package main

import (
	"bytes"
	"crypto/sha256"
	"encoding/hex"
	"encoding/json"
	"go/ast"
	"go/parser"
	"go/printer"
	"go/token"
	"os"
	"path/filepath"
	"sort"
	"strings"
)

// sourcePins prints, for every function of the library packages, a hash of its source with comments
// and formatting normalised away (go/printer of the declaration). The check driver compares the
// hashes of the functions a hand-written Lean model mirrors with the ones recorded when the model
// was written: a differing hash means the tie between model and code has to be re-established.
func sourcePins(repo string) map[string]string {
	out := map[string]string{}
	for _, pk := range []string{"token", "lexer", "parser", "ast", "internal/explain"} {
		fset := token.NewFileSet()
		matches, _ := filepath.Glob(filepath.Join(repo, pk, "*.go"))
		sort.Strings(matches)
		for _, fn := range matches {
			if strings.HasSuffix(fn, "_test.go") || strings.HasPrefix(filepath.Base(fn), "verif_") {
				continue
			}
			f, err := parser.ParseFile(fset, fn, nil, 0) // with object resolution: locals are alpha-normalised below
			if err != nil {
				fatalf("pins: %v", err)
			}
			short := pk[strings.LastIndex(pk, "/")+1:]
			for _, d := range f.Decls {
				switch d := d.(type) {
				case *ast.FuncDecl:
					name := short + "." + d.Name.Name
					if d.Recv != nil && len(d.Recv.List) > 0 {
						t := d.Recv.List[0].Type
						if s, ok := t.(*ast.StarExpr); ok {
							t = s.X
						}
						if id, ok := t.(*ast.Ident); ok {
							name = short + "." + id.Name + "." + d.Name.Name
						}
					}
					d.Doc = nil
					alphaNormalise(d)
					var buf bytes.Buffer
					_ = printer.Fprint(&buf, token.NewFileSet(), d)
					if os.Getenv("VERIF_PIN_DEBUG") == name {
						os.Stderr.Write(buf.Bytes())
					}
					sum := sha256.Sum256(buf.Bytes())
					out[name] = hex.EncodeToString(sum[:8])
					// second pin, insensitive to the wording of string literals (for models that do not depend on message texts)
					ast.Inspect(d, func(n ast.Node) bool {
						if bl, ok := n.(*ast.BasicLit); ok && bl.Kind == token.STRING {
							bl.Value = `""`
						}
						return true
					})
					buf.Reset()
					_ = printer.Fprint(&buf, token.NewFileSet(), d)
					sum = sha256.Sum256(buf.Bytes())
					out[name+"~nostr"] = hex.EncodeToString(sum[:8])
				case *ast.GenDecl:
					if d.Tok == token.VAR || d.Tok == token.CONST || d.Tok == token.TYPE {
						for _, sp := range d.Specs {
							var nm string
							switch sp := sp.(type) {
							case *ast.ValueSpec:
								if len(sp.Names) > 0 {
									nm = sp.Names[0].Name
								}
								sp.Doc, sp.Comment = nil, nil
							case *ast.TypeSpec:
								nm = sp.Name.Name
								sp.Doc, sp.Comment = nil, nil
							}
							if nm == "" || nm == "_" {
								continue
							}
							var buf bytes.Buffer
							_ = printer.Fprint(&buf, token.NewFileSet(), sp)
							sum := sha256.Sum256(buf.Bytes())
							key := short + "." + d.Tok.String() + "." + nm
							out[key] = hex.EncodeToString(sum[:8])
						}
					}
				}
			}
		}
	}
	return out
}

// alphaNormalise renames every identifier bound inside the declaration (parameters, results, receivers,
// local variables, constants, types and labels) to a positional name, so that a pin is insensitive to the
// names a developer chose for locals. Binding is taken from go/parser's object resolution, which is exact
// for function-scope objects.
func alphaNormalise(d *ast.FuncDecl) {
	// pass 1: which objects are bound inside the declaration (Object.Pos looks the name up, so before renaming)
	local := map[*ast.Object]bool{}
	var order []*ast.Ident
	ast.Inspect(d, func(n ast.Node) bool {
		id, ok := n.(*ast.Ident)
		if !ok || id.Obj == nil || id.Name == "_" {
			return true
		}
		if _, seen := local[id.Obj]; !seen {
			pos := id.Obj.Pos()
			local[id.Obj] = pos >= d.Pos() && pos < d.End()
		}
		order = append(order, id)
		return true
	})
	// pass 2: positional names in order of first occurrence
	names := map[*ast.Object]string{}
	for _, id := range order {
		if !local[id.Obj] {
			continue
		}
		nm, ok := names[id.Obj]
		if !ok {
			nm = "v" + itoa(len(names))
			names[id.Obj] = nm
		}
		id.Name = nm
	}
}

func pinsTool(repo, outPath string) {
	b, _ := json.MarshalIndent(sourcePins(repo), "", " ")
	if outPath == "" || outPath == "-" {
		os.Stdout.Write(b)
		return
	}
	must(os.WriteFile(outPath, b, 0o644))
}
