package main

import (
	"bytes"
	"crypto/sha256"
	"encoding/hex"
	"encoding/json"
	"go/ast"
	"go/parser"
	"go/printer"
	"go/token"
	"os"
	"path/filepath"
	"sort"
	"strings"
)

// sourcePins prints, for every function of the library packages, a hash of its source with comments
// and formatting normalised away (go/printer of the declaration). The check driver compares the
// hashes of the functions a hand-written Lean model mirrors with the ones recorded when the model
// was written: a differing hash means the tie between model and code has to be re-established.
func sourcePins(repo string) map[string]string {
	out := map[string]string{}
	for _, pk := range []string{"token", "lexer", "parser", "ast", "internal/explain"} {
		fset := token.NewFileSet()
		matches, _ := filepath.Glob(filepath.Join(repo, pk, "*.go"))
		sort.Strings(matches)
		for _, fn := range matches {
			if strings.HasSuffix(fn, "_test.go") || strings.HasPrefix(filepath.Base(fn), "verif_") {
				continue
			}
			f, err := parser.ParseFile(fset, fn, nil, parser.SkipObjectResolution)
			if err != nil {
				fatalf("pins: %v", err)
			}
			short := pk[strings.LastIndex(pk, "/")+1:]
			for _, d := range f.Decls {
				switch d := d.(type) {
				case *ast.FuncDecl:
					name := short + "." + d.Name.Name
					if d.Recv != nil && len(d.Recv.List) > 0 {
						t := d.Recv.List[0].Type
						if s, ok := t.(*ast.StarExpr); ok {
							t = s.X
						}
						if id, ok := t.(*ast.Ident); ok {
							name = short + "." + id.Name + "." + d.Name.Name
						}
					}
					d.Doc = nil
					var buf bytes.Buffer
					_ = printer.Fprint(&buf, token.NewFileSet(), d)
					sum := sha256.Sum256(buf.Bytes())
					out[name] = hex.EncodeToString(sum[:8])
				case *ast.GenDecl:
					if d.Tok == token.VAR || d.Tok == token.CONST || d.Tok == token.TYPE {
						for _, sp := range d.Specs {
							var nm string
							switch sp := sp.(type) {
							case *ast.ValueSpec:
								if len(sp.Names) > 0 {
									nm = sp.Names[0].Name
								}
								sp.Doc, sp.Comment = nil, nil
							case *ast.TypeSpec:
								nm = sp.Name.Name
								sp.Doc, sp.Comment = nil, nil
							}
							if nm == "" || nm == "_" {
								continue
							}
							var buf bytes.Buffer
							_ = printer.Fprint(&buf, token.NewFileSet(), sp)
							sum := sha256.Sum256(buf.Bytes())
							key := short + "." + d.Tok.String() + "." + nm
							out[key] = hex.EncodeToString(sum[:8])
						}
					}
				}
			}
		}
	}
	return out
}

func pinsTool(repo, outPath string) {
	b, _ := json.MarshalIndent(sourcePins(repo), "", " ")
	if outPath == "" || outPath == "-" {
		os.Stdout.Write(b)
		return
	}
	must(os.WriteFile(outPath, b, 0o644))
}
