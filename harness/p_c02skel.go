package main

// p_c02skel.go — C02, the tie between the progress skeletons (DC/Gen/Loops.lean, /verif/extract/loops.go) and this run.
//
// There is NO dynamic validation of the skeleton translation inside the harness: the parser of /repo cannot be
// instrumented from here (the only hook is the step counter of build tag `verif`), and a check on step counts alone
// says nothing about a single loop.  The tie therefore is
//   (1) the skeletons, contracts and the loop inventory are regenerated from the working tree on every run and the
//       Lean obligations over them (`DC.Props.C02.all_contracts_check`, `all_loops_certified`, `all_ranks_check`,
//       `all_function_loops_covered`, `uncertified_are_assumed`, `cursor_only_in_nextToken`) are re-checked by `lake build`;
//   (2) the translator's soundness argument (header of /verif/extract/loops.go);
//   (3) the step-budget search of runC02 over the mutation spaces;
//   (4) one-off, outside the harness: /verif/design-probes/skel-dynamic instruments a COPY of package parser (entry/exit
//       of every function, head of every certified token loop) and checks every contract and every back edge at run
//       time (corpus + token mutants: 1.0 M parses, 314 M contract checks, 281 M back edges, 0 violations on 2026-09-30).
//
// What this function does is cheap bookkeeping on shard 0: it reads the facts the extractor wrote next to the harness
// binary and (a) reports every loop that is neither certified nor on the reviewed list /verif/assumed_loops.json,
// (b) records the loop statistics in the run's evidence.

import (
	"encoding/json"
	"fmt"
	"os"
	"path/filepath"
)

type c02LoopFact struct {
	Pos       string `json:"pos"`
	Func      string `json:"func"`
	Ord       int    `json:"ord"`
	Kind      string `json:"kind"`
	Cond      string `json:"cond"`
	Certified bool   `json:"certified"`
	How       string `json:"how"`
	Reason    string `json:"reason"`
}

func c02FactsPath() string {
	if p := os.Getenv("VERIF_FACTS"); p != "" {
		return p
	}
	if exe, err := os.Executable(); err == nil {
		p := filepath.Join(filepath.Dir(exe), "facts.json")
		if _, err := os.Stat(p); err == nil {
			return p
		}
	}
	return "/verif/bin/facts.json"
}

// c02SkelValidate is called from runC02.
func c02SkelValidate(w *W) {
	if w.Shard != 0 || w.Only >= 0 {
		return
	}
	var facts struct {
		Counts map[string]int `json:"counts"`
		Tables struct {
			Loops          []c02LoopFact `json:"loops"`
			Untranslatable []struct {
				Func string `json:"func"`
				What string `json:"what"`
			} `json:"untranslatable_funcs"`
		} `json:"tables"`
	}
	path := c02FactsPath()
	b, err := os.ReadFile(path)
	if err == nil {
		err = json.Unmarshal(b, &facts)
	}
	if w.stats.Extra == nil {
		w.stats.Extra = map[string]any{}
	}
	if err != nil {
		w.stats.Extra["c02_skeleton"] = fmt.Sprintf("facts not readable (%s): %v", path, err)
		return
	}
	by := map[string]int{}
	var assumed []string
	for _, l := range facts.Tables.Loops {
		switch {
		case l.Certified:
			by["certified_by_"+l.How]++
		case l.How == "assumed":
			by["assumed"]++
			assumed = append(assumed, fmt.Sprintf("%s#%d `%s` (%s)", l.Func, l.Ord, l.Cond, l.Pos))
		default:
			by["uncertified_not_reviewed"]++
			w.Report(Finding{Kind: "uncertified-loop", Key: fmt.Sprintf("loop@%s#%d", l.Func, l.Ord),
				Input: l.Pos, Detail: fmt.Sprintf("`%s` in %s has no progress certificate (kind %s) and is not in /verif/assumed_loops.json; "+
					"DC.Props.C02.uncertified_are_assumed fails for it", l.Cond, l.Func, l.Kind),
				Disagreement: true, Obligation: "DC.Props.C02.all_loops_certified"})
		}
	}
	for _, u := range facts.Tables.Untranslatable {
		w.Report(Finding{Kind: "untranslatable-function", Key: "skel@" + u.Func, Input: u.Func, Detail: u.What,
			Disagreement: true, Obligation: "DC.Props.C02.all_functions_translated"})
	}
	w.stats.Extra["c02_skeleton"] = map[string]any{
		"loops_total":                   len(facts.Tables.Loops),
		"loops":                         by,
		"assumed_loops":                 assumed,
		"assumed_list_mismatch":         facts.Counts["loops_assumed_mismatch"],
		"parser_functions":              facts.Counts["parser_funcs"],
		"dynamic_validation":            "none in the harness (see header of p_c02skel.go); one-off instrumented run: /verif/design-probes/skel-dynamic",
		"traces_validated_against_impl": false,
	}
}
