package main

import (
	"fmt"
	"strconv"
	"strings"

	"github.com/sqlc-dev/doubleclick/ast"
)

// C04, utility-statement count/emit pairs: correspondence between the Lean model DC.Model.ExplainUtil (theorems
// DC.Props.C04Util: drop_pair, drop_list_pair, undrop_pair, rename_pair, exchange_pair, optimize_pair,
// optimize_partition_pair, truncate_pair, delete_pair, update_pair, update_list_pair, kill_pair, check_pair, detach_pair,
// attach_pair, attach_columns_pair, attach_storage_pair, exists_pair, describe_pair, system_pair, show_pair, use_pair,
// insert_pair, backup_pair, create_index_pair, create_index_index_pair, parallel_pair) and the real printer.
//
// For every utility statement Parse accepts, the shape of the statement's node (one number per guard the Go code tests, in
// the field order of the Lean structure) is read off the PARSED ast by typed field access, the model is asked for the count
// and the kinds of the children, and both are compared with the `(children N)` suffix and the direct children of the
// node's line in the real parser.Explain output. Nested pairs are compared where the model has them (DROP's table list,
// OPTIMIZE's partition node, UPDATE's assignment list, ATTACH's Columns / Storage definition, CREATE INDEX's Index node).
// A difference is a model finding (the model is wrong, never the code):
//   Finding{Kind:"model-disagreement", Key:"util-count-emit@<node>", Disagreement:true, Obligation:"util-count-emit-correspondence"}.
// Independently of the model, a compared node whose real header count differs from the number of its real direct
// children is a C04 failure (`tree@count-mismatch@<node>`) when the statement is valid by construction; on the
// deliberately degenerate inputs (statements Parse accepts although ClickHouse rejects them: class `util-degenerate`),
// on disabled corpus statements and on directly built ASTs it is only counted
// (`util:real-count-mismatch-on-invalid-input:<node>`) and sampled.
// The AST invariants of the theorems (WfRename, WfUpdate, WfAttach, WfAttachStorage, WfSystem) are evaluated by the model
// on every compared AST and counted when violated (`util:ast-invariant-violated:*`).

func init() { props["C04U"] = c04UtilCorrespondence }

const utilObligation = "util-count-emit-correspondence"

// ---------------------------------------------------------------- shapes (field order of the Lean structures)

func utilJoin(v ...int) string {
	ss := make([]string, len(v))
	for i, x := range v {
		ss[i] = strconv.Itoa(x)
	}
	return strings.Join(ss, ",")
}

// DC.Model.ExplainUtil.DropShape
func utilDropShape(n *ast.DropQuery) string {
	b := c04b2i
	return utilJoin(b(n.User != ""), b(n.Function != ""), b(n.Role != ""), b(n.Quota != ""), b(n.Policy != ""), b(n.RowPolicy != ""), b(n.SettingsProfile != ""),
		b(n.Index != ""), len(n.Tables), b(n.Database != ""), b(n.DropDatabase), b(n.Format != ""), len(n.Settings))
}

// DC.Model.ExplainUtil.UndropShape
func utilUndropShape(n *ast.UndropQuery) string {
	return utilJoin(c04b2i(n.Database != ""), c04b2i(n.Format != ""))
}

// DC.Model.ExplainUtil.RenameShape: renameDatabase, settingsN, then one code per pair (bit 0 FromDatabase, bit 1 ToDatabase)
func utilRenameShape(n *ast.RenameQuery) (string, bool) {
	v := []int{c04b2i(n.RenameDatabase), len(n.Settings)}
	for _, p := range n.Pairs {
		if p == nil {
			return "", false
		}
		v = append(v, c04b2i(p.FromDatabase != "")+2*c04b2i(p.ToDatabase != ""))
	}
	return utilJoin(v...), true
}

// DC.Model.ExplainUtil.ExchangeShape
func utilExchangeShape(n *ast.ExchangeQuery) string {
	return utilJoin(c04b2i(n.Database1 != ""), c04b2i(n.Database2 != ""))
}

// DC.Model.ExplainUtil.OptimizeShape
func utilOptimizeShape(n *ast.OptimizeQuery) string {
	b := c04b2i
	all, lit := false, false
	if n.Partition != nil {
		if id, ok := n.Partition.(*ast.Identifier); ok && id != nil && strings.ToUpper(id.Name()) == "ALL" {
			all = true
		}
		_, lit = n.Partition.(*ast.Literal)
	}
	return utilJoin(b(n.Database != ""), b(n.Partition != nil), b(all), b(n.PartitionByID), b(lit), len(n.Settings))
}

// DC.Model.ExplainUtil.TruncateShape
func utilTruncateShape(n *ast.TruncateQuery) string {
	return utilJoin(c04b2i(n.Database != ""), c04b2i(n.TruncateDatabase), len(n.Settings))
}

// DC.Model.ExplainUtil.DeleteShape
func utilDeleteShape(n *ast.DeleteQuery) string {
	return utilJoin(c04b2i(n.Partition != nil), c04b2i(n.Where != nil), len(n.Settings))
}

// DC.Model.ExplainUtil.UpdateShape
func utilUpdateShape(n *ast.UpdateQuery) string {
	return utilJoin(c04b2i(n.Database != ""), c04b2i(n.Where != nil), len(n.Assignments))
}

// DC.Model.ExplainUtil.KillShape
func utilKillShape(n *ast.KillQuery) string {
	return utilJoin(c04b2i(n.Where != nil), c04b2i(n.Format != ""), len(n.Settings))
}

// DC.Model.ExplainUtil.CheckShape
func utilCheckShape(n *ast.CheckQuery) string {
	return utilJoin(c04b2i(n.Database != ""), c04b2i(n.Format != ""), len(n.Settings))
}

// DC.Model.ExplainUtil.DetachShape
func utilDetachShape(n *ast.DetachQuery) string {
	return utilJoin(c04b2i(n.Database != ""), c04b2i(n.Table != ""), c04b2i(n.Dictionary != ""))
}

// DC.Model.ExplainUtil.AttachShape
func utilAttachShape(n *ast.AttachQuery) string {
	b := c04b2i
	return utilJoin(b(n.Database != ""), b(n.Table != ""), b(n.Dictionary != ""), len(n.Columns), len(n.ColumnsPrimaryKey), len(n.Indexes), b(n.HasEmptyColumnsPrimaryKey),
		b(n.SelectQuery != nil), b(n.Engine != nil), len(n.OrderBy), len(n.PrimaryKey), b(n.PartitionBy != nil), len(n.Settings), b(n.IsMaterializedView))
}

// DC.Model.ExplainUtil.ExistsShape
func utilExistsShape(n *ast.ExistsQuery) string {
	return utilJoin(c04b2i(n.ExistsType == ast.ExistsDatabase), c04b2i(n.Database != ""), len(n.Settings))
}

// DC.Model.ExplainUtil.DescribeShape
func utilDescribeShape(n *ast.DescribeQuery) string {
	return utilJoin(c04b2i(n.TableExpr != nil), c04b2i(n.TableFunction != nil), c04b2i(n.Format != ""), len(n.Settings))
}

// DC.Model.ExplainUtil.SystemShape
func utilSystemShape(n *ast.SystemQuery) string {
	b := c04b2i
	return utilJoin(b(strings.HasPrefix(strings.ToUpper(n.Command), "FLUSH LOGS")), b(n.Database != ""), b(n.Table != ""), b(n.DuplicateTableOutput), len(n.Settings))
}

// DC.Model.ExplainUtil.ShowShape without the kind; the kind travels as the Go string of n.ShowType ("?" for a string
// that cannot travel as one protocol word: it is none of the distinguished constants either way)
func utilShowShape(n *ast.ShowQuery) (string, string) {
	b := c04b2i
	t := string(n.ShowType)
	if t == "" || strings.ContainsAny(t, " \t\r\n") {
		t = "?"
	}
	return t, utilJoin(b(n.Database != ""), b(n.From != ""), b(n.Format != ""), b(n.HasSettings))
}

// DC.Model.ExplainUtil.InsertShape
func utilInsertShape(n *ast.InsertQuery) string {
	b := c04b2i
	_, pIdent := n.PartitionBy.(*ast.Identifier)
	return utilJoin(b(n.Infile != ""), b(n.Compression != ""), b(n.Function != nil), b(n.Table != ""), b(n.Database != ""), len(n.ColumnExpressions), len(n.Columns),
		b(n.AllColumns), b(n.Select != nil), b(n.HasSettings), b(n.PartitionBy != nil), b(n.PartitionBy != nil && pIdent))
}

// DC.Model.ExplainUtil.BackupShape
func utilBackupShape(target *ast.FunctionCall, format string) string {
	return utilJoin(c04b2i(target != nil), c04b2i(format != ""))
}

// DC.Model.ExplainUtil.CreateIndexShape
func utilCreateIndexShape(n *ast.CreateIndexQuery) string {
	b := c04b2i
	c0 := false
	if len(n.Columns) > 0 {
		_, c0 = n.Columns[0].(*ast.Identifier)
	}
	return utilJoin(b(n.Type != ""), b(n.ColumnsParenthesized), len(n.Columns), b(c0))
}

// ---------------------------------------------------------------- comparison

type utilCtx struct {
	w       *W
	text    string
	lines   []string
	invalid bool // the input is degenerate on purpose (Parse accepts it, ClickHouse does not), or an AST built directly
	class   string
}

func (c *utilCtx) disagree(node, detail string) {
	c.w.stats.Disagree++
	c.w.Count("util:disagreement:" + node)
	c.w.Report(Finding{Kind: "model-disagreement", Key: "util-count-emit@" + node, Input: fmt.Sprintf("%q", c.text), InputHex: hexs([]byte(c.text)),
		Detail: detail, Disagreement: true, Obligation: utilObligation})
}

// check compares the model's answer for one node with the node's line hdr in the real output.
func (c *utilCtx) check(node, op, arg string, hdr int, wfKey string) {
	w := c.w
	ans := w.Model().Ask(op + " " + arg)
	parts := strings.Split(ans, "|")
	if len(parts) != 3 {
		c.disagree(node, "unexpected model answer "+ans+" for "+op+" "+arg)
		return
	}
	mc, err := strconv.Atoi(parts[0])
	var mk []string
	if parts[1] != "" {
		mk = strings.Split(parts[1], ",")
	}
	rc, rk := headerCount(c.lines[hdr]), directKinds(c.lines, hdr)
	w.Count("util:compared:" + node)
	if ddlArms {
		w.Count("util:arm:" + op + "=" + strings.Join(rk, ","))
	}
	if err != nil || mc != rc || !kindsMatch(mk, rk) {
		c.disagree(node, fmt.Sprintf("%s %s: model %s, implementation line %q prints count %d and children %s", op, arg, ans, strings.TrimLeft(c.lines[hdr], " "), rc, strings.Join(rk, ",")))
	}
	if parts[2] != "wf" {
		w.Count("util:ast-invariant-violated:" + wfKey)
		w.Count("util:ast-invariant-violated:" + wfKey + ":" + c.class)
		if !c.invalid {
			w.Count("util:ast-invariant-violated-on-valid-class:" + wfKey)
		}
		w.Sample(fmt.Sprintf("AST outside %s: %q (header %d, printed %s)", wfKey, trunc(c.text, 120), rc, strings.Join(rk, ",")))
	}
	// the property itself, on the real output alone
	if rc != len(rk) {
		if c.invalid {
			w.Count("util:real-count-mismatch-on-invalid-input:" + node)
			w.Sample(fmt.Sprintf("count≠children on degenerate input %q: %q announces %d, prints %d", trunc(c.text, 120), strings.TrimLeft(c.lines[hdr], " "), rc, len(rk)))
		} else {
			w.Count("util:real-count-mismatch:" + node)
			w.Report(Finding{Kind: "tree", Key: "tree@count-mismatch@" + node, Input: fmt.Sprintf("%q", c.text), InputHex: hexs([]byte(c.text)),
				Detail: fmt.Sprintf("line %q announces %d children, %d nodes are printed directly beneath it (%s)", strings.TrimLeft(c.lines[hdr], " "), rc, len(rk), strings.Join(rk, ","))})
		}
	}
}

// sub runs a nested check on the only direct child of line at whose first word is kind (a model finding if the model says
// the child is there and it is not unique).
func (c *utilCtx) sub(node, op, arg string, at int, kind string, wfKey string) {
	ch := childrenOfKind(c.lines, at, kind)
	if len(ch) != 1 {
		c.disagree(node, fmt.Sprintf("%s %s: expected exactly one %s child of %q, found %d", op, arg, kind, strings.TrimLeft(c.lines[at], " "), len(ch)))
		return
	}
	c.check(node, op, arg, ch[0], wfKey)
}

// utilIsUtility reports whether the statement is of a kind the model covers.
func utilIsUtility(s ast.Statement) bool {
	switch s.(type) {
	case *ast.DropQuery, *ast.UndropQuery, *ast.RenameQuery, *ast.ExchangeQuery, *ast.OptimizeQuery, *ast.TruncateQuery, *ast.DeleteQuery, *ast.UpdateQuery,
		*ast.KillQuery, *ast.CheckQuery, *ast.DetachQuery, *ast.AttachQuery, *ast.ExistsQuery, *ast.DescribeQuery, *ast.SystemQuery, *ast.ShowQuery, *ast.UseQuery,
		*ast.InsertQuery, *ast.BackupQuery, *ast.RestoreQuery, *ast.CreateIndexQuery, *ast.ParallelWithQuery:
		return true
	}
	return false
}

// c04UtilCompare runs the correspondence on one parsed statement (also as the target of EXPLAIN, and for every member of
// PARALLEL WITH). The statement itself is rendered, so its header is line 0 of the output. It may be called for every
// statement of any search: it ignores the kinds the model does not cover. It returns whether something was compared.
func c04UtilCompare(w *W, text string, s ast.Statement, invalid bool) bool {
	return c04UtilCompareClass(w, text, s, invalid, "external")
}

func c04UtilCompareClass(w *W, text string, s ast.Statement, invalid bool, class string) bool {
	for depth := 0; depth < 4; depth++ {
		eq, ok := s.(*ast.ExplainQuery)
		if !ok || eq == nil {
			break
		}
		s = eq.Statement
	}
	if xeIsNil(s) || !utilIsUtility(s) {
		return false
	}
	e := safeExplain(s)
	if e.Panicked {
		w.Count("util:explain-panic(C03)")
		return false
	}
	c := &utilCtx{w: w, text: text, lines: strings.Split(strings.TrimSuffix(e.Out, "\n"), "\n"), invalid: invalid, class: class}
	if len(c.lines) == 0 || lineDepth(c.lines[0]) != 0 {
		c.disagree("header", fmt.Sprintf("output of %T does not start with a header at depth 0: %q", s, trunc(e.Out, 200)))
		return false
	}
	w.Count(fmt.Sprintf("util:statements:%T", s))
	switch n := s.(type) {
	case *ast.DropQuery:
		sh := utilDropShape(n)
		c.check("DropQuery", "utildrop", sh, 0, "-")
		special := n.User != "" || n.Function != "" || n.Role != "" || n.Quota != "" || n.Policy != "" || n.RowPolicy != "" || n.SettingsProfile != "" || n.Index != ""
		if !special && len(n.Tables) > 1 {
			c.sub("DropQuery.ExpressionList", "utildroplist", sh, 0, "ExpressionList", "-")
		}
	case *ast.UndropQuery:
		c.check("UndropQuery", "utilundrop", utilUndropShape(n), 0, "-")
	case *ast.RenameQuery:
		if sh, ok := utilRenameShape(n); ok {
			c.check("Rename", "utilrename", sh, 0, "WfRename")
		}
	case *ast.ExchangeQuery:
		c.check("Rename(exchange)", "utilexchange", utilExchangeShape(n), 0, "-")
	case *ast.OptimizeQuery:
		sh := utilOptimizeShape(n)
		c.check("OptimizeQuery", "utiloptimize", sh, 0, "-")
		if n.Partition != nil {
			kids := directIdx(c.lines, 0)
			if len(kids) > 0 && strings.HasPrefix(kindOfLine(c.lines[kids[0]]), "Partition") {
				c.check("OptimizeQuery.Partition", "utiloptpart", sh, kids[0], "-")
			} else {
				c.disagree("OptimizeQuery.Partition", "OPTIMIZE with a partition does not print the partition node first")
			}
		}
	case *ast.TruncateQuery:
		c.check("TruncateQuery", "utiltruncate", utilTruncateShape(n), 0, "-")
	case *ast.DeleteQuery:
		c.check("DeleteQuery", "utildelete", utilDeleteShape(n), 0, "-")
	case *ast.UpdateQuery:
		for _, a := range n.Assignments {
			if a == nil {
				w.Count("util:nil-assignment(C03)")
				return false
			}
		}
		sh := utilUpdateShape(n)
		c.check("UpdateQuery", "utilupdate", sh, 0, "WfUpdate")
		c.sub("UpdateQuery.ExpressionList", "utilupdatelist", sh, 0, "ExpressionList", "-")
	case *ast.KillQuery:
		c.check("KillQueryQuery", "utilkill", utilKillShape(n), 0, "-")
	case *ast.CheckQuery:
		c.check("CheckQuery", "utilcheck", utilCheckShape(n), 0, "-")
	case *ast.DetachQuery:
		c.check("DetachQuery", "utildetach", utilDetachShape(n), 0, "-")
	case *ast.AttachQuery:
		sh := utilAttachShape(n)
		c.check("AttachQuery", "utilattach", sh, 0, "WfAttach")
		for _, at := range childrenOfKind(c.lines, 0, "Columns") {
			c.check("AttachQuery.Columns", "utilattachcols", sh, at, "-")
		}
		for _, at := range childrenOfKind(c.lines, 0, "Storage") {
			c.check("AttachQuery.Storage", "utilattachstorage", sh, at, "WfAttachStorage")
		}
		for _, vt := range childrenOfKind(c.lines, 0, "ViewTargets") {
			for _, at := range childrenOfKind(c.lines, vt, "Storage") {
				c.check("AttachQuery.Storage", "utilattachstorage", sh, at, "WfAttachStorage")
			}
		}
	case *ast.ExistsQuery:
		c.check("ExistsQuery", "utilexists", utilExistsShape(n), 0, "-")
	case *ast.DescribeQuery:
		c.check("DescribeQuery", "utildescribe", utilDescribeShape(n), 0, "-")
	case *ast.SystemQuery:
		c.check("SystemQuery", "utilsystem", utilSystemShape(n), 0, "WfSystem")
	case *ast.ShowQuery:
		t, sh := utilShowShape(n)
		w.Count("util:show-type:" + string(n.ShowType))
		c.check("ShowQuery", "utilshow "+t, sh, 0, "-")
	case *ast.UseQuery:
		c.check("UseQuery", "utiluse", "0", 0, "-")
	case *ast.InsertQuery:
		c.check("InsertQuery", "utilinsert", utilInsertShape(n), 0, "-")
	case *ast.BackupQuery:
		c.check("BackupQuery", "utilbackup", utilBackupShape(n.Target, n.Format), 0, "-")
	case *ast.RestoreQuery:
		c.check("RestoreQuery", "utilbackup", utilBackupShape(n.Source, n.Format), 0, "-")
	case *ast.CreateIndexQuery:
		sh := utilCreateIndexShape(n)
		c.check("CreateIndexQuery", "utilcreateindex", sh, 0, "-")
		c.sub("CreateIndexQuery.Index", "utilciindex", sh, 0, "Index", "-")
	case *ast.ParallelWithQuery:
		c.check("ParallelWithQuery", "utilparallel", strconv.Itoa(len(n.Statements)), 0, "-")
		for _, m := range n.Statements {
			if !xeIsNil(m) {
				c04UtilCompareClass(w, text, m, invalid, class)
			}
		}
	}
	return true
}

// utilLeadWords: the first two words of a generated statement (counter key)
func utilLeadWords(text string) string {
	f := strings.Fields(text)
	if len(f) > 2 {
		f = f[:2]
	}
	return strings.Join(f, " ")
}

// c04UtilCase parses one text and compares every statement in it.
func c04UtilCase(w *W, idx int, text string, desc string) {
	in := []byte(text)
	w.Begin(idx, in, desc)
	w.Count("util:cases")
	class := strings.SplitN(desc, ":", 2)[0]
	if identHasLineBreak(in) {
		w.stats.Evaluations++
		w.Count("util:skipped-line-break")
		return
	}
	obs := safeParse(in, parseBudget(in))
	if obs.Panicked || obs.Budget || obs.Err != nil {
		w.stats.Evaluations++
		w.Count("util:not-accepted:" + class)
		if class == "util-gen" {
			w.Count("util:not-accepted-gen:" + utilLeadWords(text))
		}
		return
	}
	w.Count("util:accepted:" + class)
	if class == "util-gen" {
		w.Count("util:accepted-gen:" + utilLeadWords(text))
	}
	compared := false
	for _, s := range obs.Stmts {
		if xeIsNil(s) {
			continue
		}
		if c04UtilCompareClass(w, text, s, class == "util-degenerate" || class == "util-corpus-disabled", class) {
			compared = true
		}
	}
	if !compared {
		w.Count("util:nothing-compared:" + class)
	}
	w.Eval(in, compared)
}

// ---------------------------------------------------------------- input space

// utilExpand: the cartesian product of the alternatives of each part, concatenated.
func utilExpand(parts ...[]string) []string {
	out := []string{""}
	for _, alts := range parts {
		next := make([]string, 0, len(out)*len(alts))
		for _, pre := range out {
			for _, a := range alts {
				next = append(next, pre+a)
			}
		}
		out = next
	}
	return out
}

func utilOne(s string) []string { return []string{s} }

// utilOpt: the part is absent or one of xs
func utilOpt(xs ...string) []string { return append([]string{""}, xs...) }

var (
	utilCluster  = utilOpt(" ON CLUSTER c")
	utilFormat   = utilOpt(" FORMAT Null")
	utilSettings = utilOpt(" SETTINGS a = 1", " SETTINGS a = 1, b = 'x'")
	utilName1    = []string{"t", "db.t", "`a b`", "db.`t.x`"}
	utilWhere    = []string{"a = 1", "a > 1 AND b IN (1, 2)", "f(a)", "1", "query_id = 'x'", "NOT a", "a != 1", "a <= 2 OR b"}
)

// utilStatements lists every statement kind with every subset of its optional parts. Whatever Parse rejects is counted
// (`util:not-accepted:<class>`); the parser decides.
func utilStatements(thorough bool) (valid []string, degenerate []string) {
	add := func(xs []string) { valid = append(valid, xs...) }
	// DROP
	add(utilExpand(utilOne("DROP "), []string{"TABLE", "TEMPORARY TABLE", "VIEW", "DICTIONARY", "DATABASE"}, utilOpt(" IF EXISTS", " IF EMPTY"),
		[]string{" t", " db.t", " t, u", " db.t, db2.u, v", " `a b`", " db.`t.x`", " t, db.u"}, utilCluster, utilOpt(" SYNC", " NO DELAY", " PERMANENTLY"), utilFormat, utilSettings))
	add(utilExpand(utilOne("DROP "), []string{"USER", "ROLE", "QUOTA", "POLICY", "ROW POLICY", "SETTINGS PROFILE", "FUNCTION", "NAMED COLLECTION", "RESOURCE", "WORKLOAD"}, utilOpt(" IF EXISTS"),
		[]string{" x", " x, y", " x ON t", " x ON db.t", " x@localhost", " `x y`"}, utilCluster, utilOpt(" FROM s"), utilFormat, utilSettings))
	add(utilExpand(utilOne("DROP INDEX "), utilOpt("IF EXISTS "), []string{"i ON t", "i ON db.t", "i", "`i j` ON `a b`"}, utilCluster, utilFormat, utilSettings))
	add(utilExpand(utilOne("DROP TABLE "), utilOpt("IF EXISTS "), []string{"t", "db.t"}, []string{" PARALLEL WITH DROP TABLE ", " PARALLEL WITH DROP TABLE IF EXISTS ", " PARALLEL WITH DROP TEMPORARY TABLE ", " PARALLEL WITH DROP VIEW "},
		[]string{"u", "db.u", "u PARALLEL WITH DROP TABLE v"}, utilFormat, utilSettings))
	// UNDROP
	add(utilExpand(utilOne("UNDROP TABLE "), []string{"t", "db.t", "`a b`"}, utilOpt(" UUID '00000000-0000-0000-0000-000000000001'"), utilCluster, utilFormat, utilSettings))
	// RENAME / EXCHANGE
	add(utilExpand(utilOne("RENAME "), []string{"TABLE ", "DICTIONARY ", "DATABASE ", ""}, utilOpt("IF EXISTS "),
		[]string{"a TO b", "db.a TO b", "a TO db.b", "db.a TO db2.b", "a TO b, c TO d", "a TO b, db.c TO d, e TO db.f, db.g TO db.h", "`a b` TO `c d`"}, utilCluster, utilSettings))
	add(utilExpand(utilOne("EXCHANGE "), []string{"TABLES ", "DICTIONARIES "}, []string{"a AND b", "db.a AND b", "a AND db.b", "db.a AND db2.b"}, utilCluster, utilSettings))
	// OPTIMIZE
	add(utilExpand(utilOne("OPTIMIZE TABLE "), []string{"t", "db.t"}, utilCluster,
		utilOpt(" PARTITION 201901", " PARTITION ID '1'", " PARTITION ID 7", " PARTITION ALL", " PARTITION all", " PARTITION tuple()", " PARTITION (1, 'a')", " PARTITION 'p'", " PARTITION ID 'all'", " PARTITION f(x)"),
		utilOpt(" FINAL"), utilOpt(" DEDUPLICATE", " DEDUPLICATE BY a", " DEDUPLICATE BY a, b", " DEDUPLICATE BY * EXCEPT (a)", " DEDUPLICATE BY COLUMNS('x')"), utilOpt(" CLEANUP"), utilSettings))
	// TRUNCATE
	add(utilExpand(utilOne("TRUNCATE "), utilOpt("TEMPORARY "), []string{"TABLE ", "", "DATABASE ", "ALL TABLES FROM ", "TABLES FROM "}, utilOpt("IF EXISTS "), utilName1, utilCluster, utilOpt(" SYNC"), utilSettings))
	// DELETE / UPDATE
	add(utilExpand(utilOne("DELETE FROM "), []string{"t", "db.t"}, utilCluster, utilOpt(" IN PARTITION 1", " IN PARTITION ID '1'", " IN PARTITION (1, 2)", " IN PARTITION ALL"), utilOne(" WHERE "), utilWhere, utilSettings))
	add(utilExpand(utilOne("UPDATE "), []string{"t", "db.t"}, utilCluster, utilOne(" SET "), []string{"a = 1", "a = 1, b = b + 1", "a = x IN (1, 2), b = (SELECT 1), c = 'x'"}, utilOpt(" IN PARTITION 1"), utilOne(" WHERE "), utilWhere, utilSettings))
	// KILL
	add(utilExpand(utilOne("KILL "), []string{"QUERY", "MUTATION", "TRANSACTION"}, utilCluster, utilOne(" WHERE "), utilWhere, utilOpt(" SYNC", " ASYNC", " TEST"), utilFormat, utilSettings))
	add(utilExpand(utilOne("KILL QUERY"), utilOpt(" SYNC", " TEST"), utilFormat, utilSettings))
	// CHECK
	add(utilExpand(utilOne("CHECK "), []string{"TABLE ", "ALL TABLES", ""}, utilOpt("t", "db.t"), utilOpt(" PARTITION 1", " PARTITION ID '1'", " PART 'all_1_1_0'", " PARTITION tuple()"), utilFormat, utilSettings))
	// DETACH
	add(utilExpand(utilOne("DETACH "), []string{"TABLE", "VIEW", "DICTIONARY", "DATABASE", "TEMPORARY TABLE", ""}, utilOpt(" IF EXISTS"), []string{" t", " db.t", " `a b`"}, utilCluster, utilOpt(" PERMANENTLY"), utilOpt(" SYNC", " NO DELAY"), utilFormat, utilSettings))
	// ATTACH
	add(utilExpand(utilOne("ATTACH "), []string{"TABLE", "DICTIONARY", "DATABASE", "VIEW", "MATERIALIZED VIEW", "TEMPORARY TABLE", ""}, utilOpt(" IF NOT EXISTS"), []string{" t", " db.t"},
		utilOpt(" UUID '00000000-0000-0000-0000-000000000001'"), utilOpt(" FROM '/p'"), utilCluster))
	attachFull := utilExpand(utilOne("ATTACH "), []string{"TABLE", "MATERIALIZED VIEW"}, []string{" t", " db.t"}, utilOpt(" UUID '00000000-0000-0000-0000-000000000001'"), utilOpt(" TO INNER UUID '00000000-0000-0000-0000-000000000002'"),
		utilOpt(" (a UInt8)", " (a UInt8, b String DEFAULT 'x')", " (a UInt8, INDEX i a TYPE minmax GRANULARITY 1)", " (a UInt8, b UInt8, PRIMARY KEY a)", " (a UInt8, b UInt8, PRIMARY KEY (a, b))", " (a UInt8, PRIMARY KEY ())",
			" (a UInt8, INDEX i a TYPE minmax, INDEX j (a, b) TYPE set(0), PRIMARY KEY (a))"),
		utilOpt(" ENGINE = MergeTree", " ENGINE = MergeTree()", " ENGINE = ReplicatedMergeTree('/p', 'r')", " ENGINE = Memory"),
		utilOpt(" PARTITION BY p", " PARTITION BY toYYYYMM(ts)"), utilOpt(" ORDER BY a", " ORDER BY (a, b)", " ORDER BY tuple()", " ORDER BY f(a)"), utilOpt(" PRIMARY KEY a", " PRIMARY KEY (a, b)"),
		utilOpt(" SETTINGS index_granularity = 8192"), utilOpt(" AS SELECT a FROM s", " AS SELECT 1 UNION ALL SELECT 2"))
	for i, a := range attachFull { // every combination in the thorough tier, every 17th in the quick one
		if thorough || i%17 == 0 {
			valid = append(valid, a)
		}
	}
	// EXISTS
	add(utilExpand(utilOne("EXISTS "), utilOpt("TEMPORARY "), []string{"TABLE ", "DICTIONARY ", "DATABASE ", "VIEW ", ""}, utilName1, utilFormat, utilSettings))
	// DESCRIBE
	add(utilExpand([]string{"DESCRIBE ", "DESC ", "DESCRIBE TABLE ", "DESC TABLE "}, []string{"t", "db.t", "numbers(10)", "remote('h', db.t)", "(SELECT 1)", "(SELECT a FROM t UNION ALL SELECT b FROM u)", "`a b`", "file('x', 'TSV', 'a UInt8')", "t AS x"},
		utilFormat, utilSettings))
	add(utilExpand([]string{"DESCRIBE ", "DESC "}, []string{"t", "(SELECT 1)", "numbers(1)"}, utilOne(" SETTINGS a = 1 FORMAT TSV")))
	// SYSTEM
	sysAll := utilExpand(utilOne("SYSTEM "), []string{"FLUSH LOGS", "RELOAD DICTIONARIES", "RELOAD CONFIG", "DROP DNS CACHE", "DROP MARK CACHE", "DROP UNCOMPRESSED CACHE", "DROP QUERY CACHE", "STOP MERGES", "START MERGES",
		"STOP TTL MERGES", "START TTL MERGES", "STOP MOVES", "START MOVES", "STOP FETCHES", "START FETCHES", "STOP SENDS", "STOP REPLICATED SENDS", "START REPLICATED SENDS", "STOP REPLICATION QUEUES", "START REPLICATION QUEUES",
		"SYNC REPLICA", "RESTART REPLICA", "RESTORE REPLICA", "DROP REPLICA 'r' FROM TABLE", "FLUSH DISTRIBUTED", "STOP DISTRIBUTED SENDS", "START DISTRIBUTED SENDS", "RELOAD DICTIONARY", "RELOAD MODEL", "RELOAD FUNCTION",
		"LOAD PRIMARY KEY", "UNLOAD PRIMARY KEY", "WAIT LOADING PARTS", "SYNC FILE CACHE", "STOP LISTEN TCP", "ENABLE FAILPOINT fp", "SYNC DATABASE REPLICA", "STOP PULLING REPLICATION LOG", "FLUSH ASYNC INSERT QUEUE",
		"STOP MUTATIONS", "DROP FORMAT SCHEMA CACHE FOR Protobuf", "RESTART REPLICAS", "SHUTDOWN", "KILL", "STOP CLEANUP", "REFRESH VIEW", "CANCEL VIEW", "STOP VIEW", "START VIEWS"},
		utilCluster, utilOpt(" t", " db.t", " `a b`", " system.query_log", " query_log", " t LIGHTWEIGHT", " db.t STRICT", " t PULL"), utilSettings)
	// ClickHouse takes a SETTINGS clause after SYSTEM FLUSH DISTRIBUTED only; Parse takes it after every SYSTEM command
	for _, q := range sysAll {
		if strings.Contains(q, " SETTINGS ") && !strings.HasPrefix(q, "SYSTEM FLUSH DISTRIBUTED") {
			degenerate = append(degenerate, q)
		} else {
			valid = append(valid, q)
		}
	}
	// SHOW
	add(utilExpand(utilOne("SHOW CREATE "), []string{"", "TABLE ", "TEMPORARY TABLE ", "VIEW ", "DICTIONARY ", "DATABASE "}, utilName1, utilFormat, utilSettings))
	add(utilExpand(utilOne("SHOW "), utilOpt("FULL "), utilOpt("TEMPORARY "), []string{"TABLES", "DICTIONARIES", "DATABASES", "VIEWS"}, utilOpt(" FROM db", " IN db", " FROM `a b`"), utilOpt(" LIKE 'x%'", " NOT LIKE 'x'", " ILIKE '%y'", " WHERE name = 'x'"),
		utilOpt(" LIMIT 3"), utilFormat, utilSettings))
	add(utilExpand(utilOne("SHOW "), []string{"PROCESSLIST", "FUNCTIONS", "SETTINGS LIKE 'max%'", "CHANGED SETTINGS ILIKE '%x%'", "SETTING max_threads", "COLUMNS FROM t", "COLUMNS FROM t FROM db", "FULL COLUMNS IN db.t LIKE 'a%'",
		"GRANTS", "GRANTS FOR u", "PRIVILEGES", "CREATE USER u", "CREATE USER u, v", "CREATE USERS u, v", "CREATE ROLE r", "CREATE ROLE r, s", "CREATE QUOTA q", "CREATE POLICY p ON t", "CREATE ROW POLICY p ON db.t", "CREATE SETTINGS PROFILE p",
		"CREATE SETTINGS PROFILES p, q", "ENGINES", "CLUSTERS", "CLUSTER c", "INDEXES FROM t", "KEYS FROM db.t", "USERS", "ROLES", "QUOTAS", "POLICIES", "PROFILES", "ACCESS", "MERGES", "FILESYSTEM CACHES", "DATABASE db", "TABLE t",
		"DICTIONARY d", "VIEW v", "CURRENT ROLES", "ENABLED ROLES", "CURRENT QUOTA"}, utilFormat, utilSettings))
	// USE
	add(utilExpand(utilOne("USE "), []string{"db", "`a b`", "default"}))
	// INSERT
	add(utilExpand(utilOne("INSERT INTO "), utilOpt("TABLE "), []string{"t", "db.t", "FUNCTION remote('h', db.t)", "FUNCTION file('x.csv', 'CSV', 'a UInt8')", "TABLE FUNCTION null('a UInt8')"}, utilOpt(" PARTITION BY p", " PARTITION BY toYYYYMM(ts)"),
		utilOpt(" (a)", " (a, b, c)", " (*)", " (* EXCEPT (a))", " (COLUMNS('x'))", " (`a b`, n.x)"), utilOpt(" SETTINGS async_insert = 1"),
		[]string{" VALUES (1)", " VALUES (1, 'a'), (2, 'b')", " SELECT 1", " SELECT a FROM s UNION ALL SELECT b FROM u", " WITH 1 AS x SELECT x", " FORMAT TSV", " FORMAT JSONEachRow {\"a\": 1}", "", " (SELECT 1)",
			" FROM INFILE 'f.csv'", " FROM INFILE 'f.csv.gz' COMPRESSION 'gzip'", " FROM INFILE 'f' FORMAT CSV", " FROM INFILE 'f' COMPRESSION 'zstd' SETTINGS a = 1 FORMAT CSV", " SELECT 1 SETTINGS a = 1", " SELECT 1 FORMAT Null", " WATCH v"}))
	add(utilExpand(utilOne("WITH 1 AS x "), utilOne("INSERT INTO "), []string{"t", "db.t (a)"}, []string{" SELECT x", " SELECT x UNION ALL SELECT 2"}))
	// BACKUP / RESTORE
	for _, verb := range []string{"BACKUP", "RESTORE"} {
		dir := map[string]string{"BACKUP": " TO ", "RESTORE": " FROM "}[verb]
		add(utilExpand(utilOne(verb+" "), []string{"TABLE t", "TABLE db.t", "DATABASE db", "DICTIONARY d", "ALL", "TEMPORARY TABLE t", "TABLE t, TABLE u", "TABLE t AS u", "ALL EXCEPT DATABASE x", "TABLE t PARTITIONS 1, 2"}, utilCluster,
			utilOpt(dir+"Disk('backups', '1.zip')", dir+"Null", dir+"Memory('b')", dir+"File('/p')", dir+"S3('u', 'k', 's')", dir+"Disk('d', 'x') , Disk('e', 'y')"), utilOpt(" SETTINGS base_backup = Disk('b', 'x')", " SETTINGS async = 1"), utilOpt(" ASYNC", " SYNC"), utilFormat))
	}
	// CREATE INDEX
	add(utilExpand(utilOne("CREATE "), utilOpt("UNIQUE "), utilOne("INDEX "), utilOpt("IF NOT EXISTS "), []string{"i ON t ", "i ON db.t "}, []string{"(a)", "(a, b)", "a", "(a + b)", "(f(a))", "()", "a + b", "(a ASC, b DESC)", "lower(a)", "(a) ", "((a, b))"},
		utilOpt(" TYPE minmax", " TYPE set(100)", " TYPE bloom_filter(0.01)"), utilOpt(" GRANULARITY 4")))
	// PARALLEL WITH
	for _, a := range []string{"DROP TABLE a", "CREATE TABLE a (x UInt8) ENGINE = Memory", "INSERT INTO a VALUES (1)", "TRUNCATE TABLE a", "RENAME TABLE a TO b", "SELECT 1", "DROP TABLE IF EXISTS db.a SYNC"} {
		for _, b := range []string{"DROP TABLE b", "CREATE TABLE b (x UInt8) ENGINE = Memory", "INSERT INTO b SELECT 1", "OPTIMIZE TABLE b FINAL", "SYSTEM FLUSH LOGS"} {
			valid = append(valid, a+" PARALLEL WITH "+b, a+" PARALLEL WITH "+b+" PARALLEL WITH "+a)
		}
	}

	// Parse accepts these although ClickHouse rejects them: the statement lacks a part the printer announces, or carries one
	// the printer drops after counting it
	degenerate = append(degenerate, utilExpand(utilOne("UPDATE "), []string{"t", "db.t"}, utilOne(" SET "), []string{"a = 1", "a = 1, b = 2"}, utilSettings)...)
	degenerate = append(degenerate, utilExpand(utilOne("ATTACH DICTIONARY "), []string{"d", "db.d"}, []string{" (a UInt64)", " (a UInt64) PRIMARY KEY a", " ENGINE = Memory", " AS SELECT 1", " ORDER BY a", " SETTINGS a = 1", " (a UInt64, PRIMARY KEY a)"})...)
	degenerate = append(degenerate, "DROP", "DROP TABLE", "DROP TABLE IF EXISTS", "DROP DATABASE", "DROP INDEX", "DROP INDEX i ON", "DROP USER", "DROP FUNCTION", "UNDROP TABLE", "UNDROP", "RENAME TABLE a TO", "RENAME DATABASE a TO", "RENAME",
		"EXCHANGE TABLES a AND", "EXCHANGE TABLES", "OPTIMIZE TABLE", "OPTIMIZE TABLE t PARTITION", "OPTIMIZE TABLE t PARTITION ID", "TRUNCATE", "TRUNCATE TABLE", "DELETE FROM t", "DELETE FROM t WHERE", "DELETE FROM", "UPDATE t SET", "UPDATE t",
		"KILL QUERY WHERE", "KILL", "CHECK TABLE", "CHECK", "DETACH", "DETACH TABLE", "ATTACH", "ATTACH TABLE", "ATTACH TABLE t (", "ATTACH TABLE t ()", "ATTACH TABLE t ENGINE", "ATTACH TABLE t ORDER BY", "EXISTS", "EXISTS TABLE", "DESCRIBE", "DESC TABLE",
		"DESCRIBE ()", "SYSTEM", "SHOW", "SHOW CREATE", "SHOW CREATE TABLE", "SHOW CREATE DATABASE", "SHOW CREATE DICTIONARY", "SHOW CREATE VIEW", "SHOW TABLES FROM", "USE", "INSERT", "INSERT INTO", "INSERT INTO t (", "INSERT INTO FUNCTION",
		"BACKUP", "BACKUP TABLE t TO", "RESTORE", "RESTORE TABLE t FROM", "CREATE INDEX", "CREATE INDEX i", "CREATE INDEX i ON", "CREATE INDEX i ON t", "CREATE INDEX i ON t TYPE minmax", "DROP TABLE t PARALLEL WITH", "DROP TABLE t PARALLEL",
		"SELECT 1 PARALLEL WITH", "ATTACH TABLE t (a UInt8) ORDER BY a, b", "ATTACH TABLE t (a UInt8) PRIMARY KEY a, b")
	return valid, degenerate
}

// ---------------------------------------------------------------- ASTs built directly

// The theorems quantify over ALL guard combinations, so the correspondence is also run on ASTs Parse never builds: every
// statement type with every field independently present or absent. Only the model is judged here (a count that differs
// from the children on such an AST is what the theorems' hypotheses are about).
func utilAst(g *ddlAstGen, kind int) ast.Statement {
	db, fmtName := g.str(1, 2, "db"), g.str(1, 2, "TSV")
	var settings []*ast.SettingExpr
	if g.on(1, 2) {
		settings = g.settings(2)
	}
	switch kind % 22 {
	case 0:
		n := &ast.DropQuery{Database: db, Table: g.str(3, 4, "t"), View: g.str(1, 6, "v"), Dictionary: g.str(1, 6, "d"), DropDatabase: g.on(1, 4), Format: fmtName, Settings: settings}
		for k := g.r.Intn(4); k > 0; k-- {
			n.Tables = append(n.Tables, &ast.TableIdentifier{Database: g.str(1, 3, "db"), Table: "t" + itoa(k)})
		}
		if g.on(1, 3) {
			switch g.r.Intn(8) {
			case 0:
				n.User = "u"
			case 1:
				n.Function = "f"
			case 2:
				n.Role = "r"
			case 3:
				n.Quota = "q"
			case 4:
				n.Policy = "p"
			case 5:
				n.RowPolicy = "p"
			case 6:
				n.SettingsProfile = "s"
			default:
				n.Index = "i"
			}
			if g.on(1, 4) {
				n.Index = "j"
			}
		}
		return n
	case 1:
		return &ast.UndropQuery{Database: db, Table: "t", Format: fmtName}
	case 2:
		n := &ast.RenameQuery{RenameDatabase: g.on(1, 3), Settings: settings}
		for k := g.r.Intn(4); k > 0; k-- {
			n.Pairs = append(n.Pairs, &ast.RenamePair{FromDatabase: g.str(1, 2, "d1"), FromTable: "a", ToDatabase: g.str(1, 2, "d2"), ToTable: "b"})
		}
		return n
	case 3:
		return &ast.ExchangeQuery{Database1: g.str(1, 2, "d1"), Table1: "a", Database2: g.str(1, 2, "d2"), Table2: "b"}
	case 4:
		return &ast.OptimizeQuery{Database: db, Table: "t", Partition: g.optExpr(2, 3), PartitionByID: g.on(1, 2), Final: g.on(1, 2), Cleanup: g.on(1, 3), Dedupe: g.on(1, 3), Settings: settings}
	case 5:
		return &ast.TruncateQuery{Database: db, Table: "t", TruncateDatabase: g.on(1, 3), Settings: settings}
	case 6:
		return &ast.DeleteQuery{Database: db, Table: "t", Partition: g.optExpr(1, 2), Where: g.optExpr(2, 3), Settings: settings}
	case 7:
		n := &ast.UpdateQuery{Database: db, Table: "t", Where: g.optExpr(2, 3)}
		for k := g.r.Intn(4); k > 0; k-- {
			n.Assignments = append(n.Assignments, &ast.Assignment{Column: "c" + itoa(k), Value: g.expr()})
		}
		return n
	case 8:
		n := &ast.KillQuery{Type: pick(g.r, []string{"QUERY", "MUTATION"}), Where: g.optExpr(2, 3), Sync: g.on(1, 3), Test: g.on(1, 4), Format: fmtName, Settings: settings}
		if g.on(1, 3) {
			n.Where = &ast.BinaryExpr{Left: &ast.Identifier{Parts: []string{"a"}}, Op: pick(g.r, []string{"=", "!=", "<", "AND", "<>", ">="}), Right: &ast.Literal{Type: ast.LiteralInteger, Value: int64(1)}}
		}
		return n
	case 9:
		return &ast.CheckQuery{Database: db, Table: "t", Partition: g.optExpr(1, 3), Format: fmtName, Settings: settings}
	case 10:
		return &ast.DetachQuery{Database: db, Table: g.str(1, 2, "t"), Dictionary: g.str(1, 2, "d")}
	case 11:
		n := &ast.AttachQuery{Database: db, Table: g.str(1, 2, "t"), Dictionary: g.str(1, 3, "d"), HasEmptyColumnsPrimaryKey: g.on(1, 6), IsMaterializedView: g.on(1, 3), PartitionBy: g.optExpr(1, 3)}
		for k := g.r.Intn(3); k > 0 && g.on(2, 3); k-- {
			n.Columns = append(n.Columns, g.column())
		}
		for k := g.r.Intn(3); k > 0 && g.on(1, 3); k-- {
			n.Indexes = append(n.Indexes, g.index())
		}
		if g.on(1, 3) {
			n.ColumnsPrimaryKey = g.exprs(3)
		}
		if g.on(1, 2) {
			n.Engine = g.engine()
		}
		if g.on(1, 2) {
			n.OrderBy = g.exprs(3)
		}
		if g.on(1, 3) {
			n.PrimaryKey = g.exprs(3)
		}
		if g.on(1, 3) {
			n.SelectQuery = g.selectStmt()
		}
		if g.on(1, 2) {
			n.Settings = settings
		}
		return n
	case 12:
		return &ast.ExistsQuery{ExistsType: pick(g.r, []ast.ExistsType{ast.ExistsTable, ast.ExistsDictionary, ast.ExistsDatabase, ast.ExistsView, ""}), Database: db, Table: "t", Settings: settings}
	case 13:
		n := &ast.DescribeQuery{Database: db, Table: "t", Format: fmtName, Settings: settings}
		if g.on(1, 3) {
			n.TableFunction = &ast.FunctionCall{Name: "numbers", Arguments: []ast.Expression{&ast.Literal{Type: ast.LiteralInteger, Value: int64(3)}}}
		}
		if g.on(1, 3) {
			n.TableExpr = &ast.TableExpression{Table: &ast.Subquery{Query: g.selectStmt()}}
		}
		return n
	case 14:
		return &ast.SystemQuery{Command: pick(g.r, []string{"FLUSH LOGS", "flush logs", "FLUSH LOGS x", "SYNC REPLICA", "RELOAD DICTIONARY", "FLUSH DISTRIBUTED", "", "FLUSH LOG"}), Database: db, Table: g.str(1, 2, "t"),
			DuplicateTableOutput: g.on(1, 2), Settings: settings}
	case 15, 16:
		return &ast.ShowQuery{ShowType: pick(g.r, []ast.ShowType{ast.ShowTables, ast.ShowDatabases, ast.ShowProcesses, ast.ShowCreate, ast.ShowCreateDB, ast.ShowCreateDictionary, ast.ShowCreateView, ast.ShowCreateUser,
			ast.ShowCreateRole, ast.ShowColumns, ast.ShowDictionaries, ast.ShowFunctions, ast.ShowSettings, ast.ShowSetting, ast.ShowGrants, "", "create", "SOMETHING ELSE"}),
			Database: db, From: g.str(1, 2, "t"), Format: fmtName, HasSettings: g.on(1, 2), MultipleUsers: g.on(1, 3)}
	case 17:
		n := &ast.InsertQuery{Database: db, Table: g.str(2, 3, "t"), AllColumns: g.on(1, 4), PartitionBy: g.optExpr(1, 3), Infile: g.str(1, 3, "f"), Compression: g.str(1, 3, "gzip"), HasSettings: g.on(1, 3)}
		if g.on(1, 3) {
			n.Function = &ast.FunctionCall{Name: "null", Arguments: []ast.Expression{&ast.Literal{Type: ast.LiteralString, Value: "a UInt8"}}}
		}
		for k := g.r.Intn(3); k > 0 && g.on(1, 2); k-- {
			n.Columns = append(n.Columns, &ast.Identifier{Parts: []string{"c" + itoa(k)}})
		}
		if g.on(1, 4) {
			n.ColumnExpressions = g.exprs(2)
		}
		if g.on(1, 2) {
			n.Select = g.selectStmt()
		}
		if g.on(1, 4) {
			n.With = []ast.Expression{&ast.Literal{Type: ast.LiteralInteger, Value: int64(1)}}
		}
		return n
	case 18:
		var fn *ast.FunctionCall
		if g.on(2, 3) {
			fn = &ast.FunctionCall{Name: "Disk"}
			if g.on(1, 2) {
				fn.Arguments = []ast.Expression{&ast.Literal{Type: ast.LiteralString, Value: "d"}, &ast.Literal{Type: ast.LiteralString, Value: "x"}}
			}
		}
		if g.on(1, 2) {
			return &ast.BackupQuery{Table: "t", Target: fn, Format: fmtName}
		}
		return &ast.RestoreQuery{Table: "t", Source: fn, Format: fmtName}
	case 19:
		return &ast.CreateIndexQuery{IndexName: "i", Table: "t", Columns: g.exprs(3), ColumnsParenthesized: g.on(1, 2), Type: g.str(1, 2, "minmax")}
	case 20:
		n := &ast.ParallelWithQuery{}
		for k := g.r.Intn(4); k > 0; k-- {
			n.Statements = append(n.Statements, utilAst(g, g.r.Intn(20)))
		}
		return n
	default:
		return &ast.UseQuery{Database: "db"}
	}
}

func c04UtilAstCase(w *W, idx int, stmt ast.Statement, desc string) {
	js := safeMarshal(stmt)
	shown := fmt.Sprintf("AST %T %s", stmt, trunc(js.Out, 1500))
	in := []byte(shown)
	w.Begin(idx, in, desc)
	w.Count("util:cases")
	w.Count("util:ast-cases")
	w.Eval(in, c04UtilCompareClass(w, shown, stmt, true, "util-ast"))
}

func utilCorpusPrefix(u string) bool {
	for _, p := range []string{"DROP", "UNDROP", "RENAME", "EXCHANGE", "OPTIMIZE", "TRUNCATE", "DELETE", "UPDATE", "KILL", "CHECK", "DETACH", "ATTACH", "EXISTS", "DESC", "SYSTEM", "SHOW", "USE", "INSERT", "WITH", "BACKUP", "RESTORE",
		"CREATE INDEX", "CREATE UNIQUE INDEX", "EXPLAIN"} {
		if strings.HasPrefix(u, p) {
			return true
		}
	}
	return strings.Contains(u, "PARALLEL WITH")
}

// c04UtilCorrespondence is the whole search; runC04 may call it too.
func c04UtilCorrespondence(w *W) {
	run := func(text, desc string) {
		idx, mine := w.Case()
		if mine {
			c04UtilCase(w, idx, text, desc)
		}
	}
	valid, degenerate := utilStatements(w.Thorough())

	// (1) every statement kind with every subset of its optional parts: plain; a sample of them below EXPLAIN, with a
	// trailing semicolon, and two in one text
	for i, s := range valid {
		run(s, "util-gen:"+itoa(i))
		switch i % 16 {
		case 3:
			run("EXPLAIN AST "+s, "util-gen-explain:"+itoa(i))
		case 7:
			run(s+";", "util-gen-semi:"+itoa(i))
		case 11:
			run(s+"; "+valid[(i*7+1)%len(valid)], "util-gen-multi:"+itoa(i))
		}
	}
	for i, s := range degenerate {
		run(s, "util-degenerate:"+itoa(i))
	}

	// (2) every corpus statement of these kinds (also the ones the golden suite skips: the model mirrors the code on
	// whatever Parse accepts)
	all, _ := loadCorpus()
	for _, s := range all {
		u := strings.ToUpper(strings.TrimLeft(s.Text, " \t\r\n("))
		if !utilCorpusPrefix(u) || len(s.Text) > 20000 {
			continue
		}
		if s.Enabled {
			run(s.Text, "util-corpus:"+s.Test+"#"+itoa(s.Index))
		} else {
			run(s.Text, "util-corpus-disabled:"+s.Test+"#"+itoa(s.Index))
		}
	}

	// (3) random recombinations: a generated statement with the names / clause spellings of another one spliced in is
	// covered by (1); here pairs and triples joined by PARALLEL WITH
	nPar := w.pickN(2000, 40000)
	for k := 0; k < nPar; k++ {
		idx, mine := w.Case()
		if !mine {
			continue
		}
		r := NewRng(w.Seed, uint64(idx), 71)
		n := 2 + r.Intn(2)
		xs := make([]string, n)
		for i := range xs {
			xs[i] = pick(r, valid)
		}
		c04UtilCase(w, idx, strings.Join(xs, " PARALLEL WITH "), "util-parallel")
	}

	// (4) ASTs built directly: every statement type × random presence of every field
	nAst := w.pickN(30000, 500000)
	for k := 0; k < nAst; k++ {
		idx, mine := w.Case()
		if !mine {
			continue
		}
		r := NewRng(w.Seed, uint64(idx), 72)
		g := &ddlAstGen{r: r}
		c04UtilAstCase(w, idx, utilAst(g, k), "util-ast")
	}
}
