package main

import (
	"encoding/hex"
	"fmt"
	"math"
	"reflect"
	"strconv"
	"strings"

	"github.com/sqlc-dev/doubleclick/ast"
)

// C04 / C07 on the expression core: correspondence between the real EXPLAIN printer and the Lean model
// DC.Model.ExplainExpr (`explainExpr`), for which DC/Props/C04Expr.lean proves
//   explain_expr_wellformed   (printed children counts = children printed, for every expression tree of the core),
//   explain_expr_depth_shift  (the rendering depends on the node only; embedding shifts the indentation),
//   explain_expr_kinds_known  (every line starts with a node kind of the golden vocabulary).
//
// One case = one expression E:
//   1. random SQL text for E (every node kind of the core, aliases incl. gen.go's specialNames, negated forms,
//      nested in each other to depth 4, parenthesised defensively — and sometimes not, to let the parser's own
//      precedence decide);
//   2. the real `SELECT <E>` through safeParse + safeExplain; the lines below the SELECT frame are E's subtree;
//   3. the PARSED Go AST (Columns[0]) is encoded for the driver — what the parser built, not what the generator intended;
//   4. `xexpr <encoding>` answers the model's lines or `unsupported <why>`; the lines must be equal one by one;
//   5. the same expression embedded as a function argument two levels down must render as the same lines, shifted
//      (the real side of explain_expr_depth_shift).
// Disagreement: Finding{Kind:"model", Key:"model@xexpr@<node kind>", Disagreement:true, Obligation:"explain-expr-correspondence"}.
// The real text also goes through the verified tree monitor (treeCheck): a failure there is a C04 finding proper.

func init() { props["C04X"] = c04ExprCorrespondence }

// ---------------------------------------------------------------- the generator (SQL text)

type xeGen struct {
	r *Rng
}

var xeIdents = []string{"a", "b", "c", "x", "y", "id", "name", "t", "arr", "col1", "db.t", "t.c", "a.b.c", "`x y`", "`a.b`", "`тест`", "`it's`", "`a\\\\b`", "\"q\"", "`a\xffb`", "j.^k", "`%d`", "`nul\\0x`", "`q\\'r`", "`x (children 3)`", "`(children 1)`", "a", "b", "x"}
var xeFuncs = []string{"f", "count", "sum", "max", "length", "toString", "plus", "lower", "arrayMap", "if", "coalesce", "abs", "concat", "tuple", "array",
	"trim", "ltrim", "rtrim", "TRIM", "position", "POSITION", "substring", "SUBSTRING", "Substring", "anyEquals", "allNotEquals", "any", "all", "viewx", "kqlx", "dateAdd", "ANY", "lambda"}
var xeSpecialFuncs = []string{"kql", "date_add", "DATEADD", "timestamp_sub", "dateDiff", "DATE_DIFF", "view", "date_sub", "TIMESTAMPADD"}
var xeTypes = []string{"UInt8", "UInt64", "Int32", "String", "Float64", "Date", "DateTime", "Nullable(String)", "Array(UInt8)", "LowCardinality(String)",
	"Decimal(10, 2)", "FixedString(16)", "DateTime64(3)", "Map(String, UInt64)", "Tuple(UInt8, String)", "DateTime('UTC')", "Enum8('a' = 1, 'b' = 2)",
	"Array(Nullable(Int64))", "UUID", "Tuple(a UInt8, b String)", "DateTime64(3, 'Europe/Berlin')", "Enum8('it''s' = 1)"}
var xeBinOps = []string{"+", "-", "*", "/", "%", "=", "==", "!=", "<>", "<", "<=", ">", ">=", "<=>", "AND", "OR", "||", "DIV", "MOD", "and", "or", "div", "mod"}
var xeInts = []string{"0", "1", "2", "7", "42", "1000", "9223372036854775807", "9223372036854775808", "18446744073709551615", "18446744073709551616", "0x1F", "0b101", "1_000"}
var xeFloats = []string{"1.5", "0.0", "0.", ".5", "1e10", "1e-7", "1e21", "1e22", "123456789.125", "2.5e-3", "inf", "nan", "1e400"}
var xeStrings = []string{"'s'", "''", "'it''s'", "'a\\\\b'", "'tab\\there'", "'nl\\nx'", "'%d %s'", "'тест'", "'a;b'", "'\\xff'", "'\\0'", "'(children 1)'", "'x y'"}

func (g *xeGen) alias() string {
	if g.r.Chance(1, 3) {
		return pick(g.r, specialNames)
	}
	return pick(g.r, []string{"x", "y", "al", "a1", "res", "`q w`", "\"dq\"", "`it's`", "`b\\\\s`", "x", "y", "al", "a1", "res", "`a (children 1`", "`(children 22`"})
}

func (g *xeGen) ident() string { return pick(g.r, xeIdents) }

func (g *xeGen) scalar() string {
	switch g.r.Intn(12) {
	case 0:
		return "NULL"
	case 1:
		return pick(g.r, []string{"true", "false"})
	case 2, 3:
		return pick(g.r, xeStrings)
	case 4, 5:
		return pick(g.r, xeFloats)
	case 6:
		return fmt.Sprintf("%d.%d", g.r.Intn(100), g.r.Intn(100))
	case 7:
		return fmt.Sprint(g.r.Intn(1000))
	default:
		return pick(g.r, xeInts)
	}
}

// litElem: an element of an array / tuple / IN list that keeps the literal forms likely
func (g *xeGen) litElem(d int) string {
	switch g.r.Intn(16) {
	case 0, 1, 2, 3, 4:
		return g.scalar()
	case 5, 6:
		return "-" + pick(g.r, append(append([]string{}, xeInts...), xeFloats...))
	case 7:
		return "(" + g.scalar() + ")"
	case 8:
		if d > 0 {
			return g.arrayLit(d - 1)
		}
		return "[]"
	case 9:
		if d > 0 {
			return g.tupleLit(d - 1)
		}
		return "(1, 2)"
	case 10:
		return g.ident()
	case 11:
		return "-(" + g.scalar() + ")"
	case 12:
		return "-" + pick(g.r, xeStrings)
	case 13:
		return "-NULL"
	default:
		if d > 0 {
			return g.expr(d - 1)
		}
		return g.scalar()
	}
}

func (g *xeGen) listOf(n int, f func() string) string {
	xs := make([]string, n)
	for i := range xs {
		xs[i] = f()
		if g.r.Chance(1, 12) {
			xs[i] += " AS " + g.alias()
		}
	}
	return strings.Join(xs, pick(g.r, []string{", ", ",", ", ", " , "}))
}

func (g *xeGen) arrayLit(d int) string {
	n := g.r.Intn(4)
	if g.r.Chance(1, 8) {
		n = 0
	}
	// homogeneous literal arrays are the interesting "Literal Array_[…]" form; mix in everything else sometimes
	if g.r.Chance(1, 2) {
		return "[" + g.listOf(n, func() string { return g.litElem(d) }) + "]"
	}
	k := g.r.Intn(4)
	return "[" + g.listOf(n, func() string {
		switch k {
		case 0:
			return pick(g.r, xeInts)
		case 1:
			return pick(g.r, xeStrings)
		case 2:
			if d > 0 {
				return g.arrayLit(d - 1)
			}
			return pick(g.r, []string{"[1]", "[[1]]", "[[a]]", "[[]]", "[[(1)]]", "[[-1, 2]]", "[(1, 2)]", "[[f()]]"})
		default:
			return pick(g.r, []string{"-1", "2", "-0", "-1.5", "NULL", "true"})
		}
	}) + "]"
}

func (g *xeGen) tupleLit(d int) string {
	n := g.r.Intn(4)
	switch n {
	case 0:
		return "()"
	case 1:
		return "(" + g.litElem(d) + ",)"
	}
	return "(" + g.listOf(n, func() string { return g.litElem(d) }) + ")"
}

// sub: a sub-expression in an operator position: parenthesised unless it is an atom (and sometimes not at all)
func (g *xeGen) sub(d int) string {
	s, atom := g.exprA(d)
	if g.r.Chance(1, 8) {
		return "(" + s + " AS " + g.alias() + ")"
	}
	if atom {
		if g.r.Chance(1, 10) {
			return "(" + s + ")"
		}
		return s
	}
	if g.r.Chance(1, 4) {
		return s // let the parser's precedence decide
	}
	return "(" + s + ")"
}

// item: a sub-expression in a list position (function argument, CASE part, …)
func (g *xeGen) item(d int) string {
	s, _ := g.exprA(d)
	if g.r.Chance(1, 8) {
		return s + " AS " + g.alias()
	}
	if g.r.Chance(1, 12) {
		return "(" + s + ")"
	}
	return s
}

func (g *xeGen) expr(d int) string {
	s, _ := g.exprA(d)
	return s
}

func (g *xeGen) chain(d int, op string) string {
	n := 2 + g.r.Intn(3)
	s := g.sub(d)
	for i := 1; i < n; i++ {
		t := g.sub(d)
		switch g.r.Intn(6) {
		case 0:
			s = "(" + s + ") " + op + " " + t
		case 1:
			s = s + " " + op + " (" + t + " " + op + " " + g.sub(d) + ")"
		default:
			s = s + " " + op + " " + t
		}
	}
	return s
}

// exprA returns the text and whether it is an atom (needs no parentheses as an operand)
func (g *xeGen) exprA(d int) (string, bool) {
	if d <= 0 {
		switch g.r.Intn(3) {
		case 0:
			return g.ident(), true
		case 1:
			return g.scalar(), true
		default:
			return pick(g.r, []string{"[1, 2]", "(1, 'a')", "f()", "[]", "-1", "NULL"}), true
		}
	}
	switch g.r.Intn(40) {
	case 0, 1:
		return g.ident(), true
	case 2, 3:
		return g.scalar(), true
	case 4, 5:
		return g.arrayLit(d - 1), true
	case 6, 7:
		return g.tupleLit(d - 1), true
	case 8, 9, 10:
		// function call: plain, DISTINCT, parametric
		name := pick(g.r, xeFuncs)
		if g.r.Chance(1, 25) {
			name = pick(g.r, xeSpecialFuncs)
		}
		n := g.r.Intn(4)
		args := g.listOf(n, func() string { return g.item(d - 1) })
		switch g.r.Intn(10) {
		case 0:
			return name + "(DISTINCT " + g.item(d-1) + ")", true
		case 1:
			return name + "(" + g.listOf(g.r.Intn(3), func() string { return g.litElem(0) }) + ")(" + args + ")", true
		case 2:
			return name + "(" + args + ") OVER (PARTITION BY " + g.ident() + ")", true
		}
		return name + "(" + args + ")", true
	case 11, 12, 13:
		return g.sub(d-1) + " " + pick(g.r, xeBinOps) + " " + g.sub(d-1), false
	case 14:
		return g.chain(d-1, pick(g.r, []string{"AND", "OR", "||", "and", "+"})), false
	case 15:
		return "NOT " + g.sub(d-1), false
	case 16:
		switch g.r.Intn(4) {
		case 0:
			return "-" + pick(g.r, append(append([]string{}, xeInts...), xeFloats...)), false
		case 1:
			return "-(" + g.scalar() + ")", false
		default:
			return "-" + g.sub(d-1), false
		}
	case 17:
		return g.sub(d-1) + "[" + g.item(d-1) + "]", false
	case 18:
		return g.sub(d-1) + "." + pick(g.r, []string{"1", "2", "10"}), false
	case 19:
		return g.sub(d-1) + " IS " + pick(g.r, []string{"NULL", "NOT NULL"}), false
	case 20:
		return g.sub(d-1) + pick(g.r, []string{" BETWEEN ", " NOT BETWEEN "}) + g.sub(d-1) + " AND " + g.sub(d-1), false
	case 21, 22, 23:
		kw := pick(g.r, []string{" IN ", " NOT IN ", " IN ", " GLOBAL IN ", " GLOBAL NOT IN "})
		var list string
		switch g.r.Intn(10) {
		case 0:
			list = "(" + g.litElem(d-1) + ")"
		case 1:
			list = "(" + g.litElem(d-1) + ",)"
		case 2:
			list = "(" + g.tupleLit(d-1) + ")"
		case 3:
			list = "(" + g.listOf(1+g.r.Intn(3), func() string { return g.tupleLit(d - 1) }) + ")"
		case 4:
			k := g.r.Intn(3)
			list = "(" + g.listOf(2+g.r.Intn(12), func() string {
				switch k {
				case 0:
					return pick(g.r, xeStrings)
				case 1:
					return pick(g.r, []string{"1", "-2", "3.5", "NULL", "-0"})
				default:
					return pick(g.r, []string{"true", "false", "NULL"})
				}
			}) + ")"
		case 5:
			list = pick(g.r, []string{"()", "[1, 2]", "(NULL, NULL)", "(NULL)", "tbl", "(x)"})
		default:
			list = "(" + g.listOf(1+g.r.Intn(4), func() string { return g.litElem(d - 1) }) + ")"
		}
		return g.sub(d-1) + kw + list, false
	case 24, 25:
		var sb strings.Builder
		sb.WriteString("CASE")
		if g.r.Chance(1, 2) {
			sb.WriteString(" " + g.item(d-1))
		}
		for i, n := 0, 1+g.r.Intn(3); i < n; i++ {
			sb.WriteString(" WHEN " + g.item(d-1) + " THEN " + g.item(d-1))
		}
		if g.r.Chance(1, 2) {
			sb.WriteString(" ELSE " + g.item(d-1))
		}
		sb.WriteString(" END")
		return sb.String(), true
	case 26, 27:
		switch g.r.Intn(3) {
		case 0:
			return "CAST(" + g.item(d-1) + " AS " + pick(g.r, xeTypes) + ")", true
		case 1:
			return "CAST(" + g.item(d-1) + ", '" + pick(g.r, []string{"UInt8", "String", "Array(UInt8)", "Nullable(Int64)"}) + "')", true
		default:
			return "CAST(" + g.item(d-1) + ", " + pick(g.r, []string{"'Date'", "concat('U', 'Int8')", "x"}) + ")", true
		}
	case 28, 29:
		ty := pick(g.r, xeTypes)
		switch g.r.Intn(8) {
		case 0:
			return g.scalar() + "::" + ty, false
		case 1:
			return "-" + pick(g.r, xeInts) + "::" + ty, false
		case 2:
			return "(-" + pick(g.r, xeInts) + ")::" + ty, false
		case 3:
			return g.arrayLit(d-1) + "::" + ty, false
		case 4:
			return g.tupleLit(d-1) + "::" + ty, false
		}
		return g.sub(d-1) + "::" + ty, false
	case 30, 31:
		ps := pick(g.r, []string{"x", "(x)", "(x, y)", "()", "`p q`", "(a, b, c)"})
		return ps + " -> " + g.expr(d-1), false
	case 32, 33:
		return g.sub(d-1) + " ? " + g.sub(d-1) + " : " + g.sub(d-1), false
	case 34:
		// alias directly on a parenthesised compound (AliasedExpr / own Alias fields)
		return "(" + g.expr(d-1) + " AS " + g.alias() + ")", true
	case 35:
		return "((" + g.expr(d-1) + "))", true
	case 36:
		// outside the core: must come back as `unsupported`, never as lines
		return pick(g.r, []string{"(SELECT 1)", "x IN (SELECT 1)", "a LIKE 'b%'", "INTERVAL 1 DAY", "EXISTS (SELECT 1)", "EXTRACT(YEAR FROM d)", "*", "t.*", "COLUMNS('a')",
			"{p:UInt8}", "DATE '2020-01-01'", "TRIM(BOTH 'x' FROM s)", "SUBSTRING(s FROM 1 FOR 2)", "POSITION('a' IN s)", "position(a IN (1, 2))", "count(*) FILTER (WHERE a)",
			"a NOT ILIKE 'x'", "x = ANY (SELECT 1)", "trim(LEADING '' FROM s)"}), true
	default:
		return g.sub(d-1) + " " + pick(g.r, xeBinOps) + " " + g.sub(d-1), false
	}
}

// ---------------------------------------------------------------- encoding of the PARSED ast for the driver

func xeHex(s string) string {
	if s == "" {
		return "-"
	}
	return hex.EncodeToString([]byte(s))
}

func xeBool(b bool) string {
	if b {
		return "1"
	}
	return "0"
}

// xeFormatFloat is explain.FormatFloat (internal/explain/format.go:13-38; the package is internal): the float VALUE is
// carried as its shown text (C09 models the conversion itself).
func xeFormatFloat(val float64) string {
	if math.IsInf(val, 1) {
		return "inf"
	}
	if math.IsInf(val, -1) {
		return "-inf"
	}
	if math.IsNaN(val) {
		return "nan"
	}
	absVal := math.Abs(val)
	if (absVal > 0 && absVal < 1e-6) || absVal >= 1e21 {
		s := strconv.FormatFloat(val, 'e', -1, 64)
		s = strings.Replace(s, "e-0", "e-", 1)
		s = strings.Replace(s, "e+0", "e+", 1)
		s = strings.Replace(s, "e+", "e", 1)
		return s
	}
	return strconv.FormatFloat(val, 'f', -1, 64)
}

func xeIsNil(v any) bool {
	if v == nil {
		return true
	}
	rv := reflect.ValueOf(v)
	return rv.Kind() == reflect.Ptr && rv.IsNil()
}

// xeTypeText asks the real printer for the text it shows for a cast's DataType (type formatting is C18's model):
// the last line of `CAST(x, T)` is `Literal \'<text>\'`.
func xeTypeText(dt *ast.DataType) (string, bool) {
	q := &ast.SelectWithUnionQuery{Selects: []ast.Statement{&ast.SelectQuery{Columns: []ast.Expression{
		&ast.CastExpr{Expr: &ast.Identifier{Parts: []string{"x"}}, Type: dt}}}}}
	o := safeExplain(q)
	if o.Panicked {
		return "", false
	}
	lines := strings.Split(strings.TrimRight(o.Out, "\n"), "\n")
	last := lines[len(lines)-1]
	const pre, suf = "      Literal \\'", "\\'"
	if len(lines) != 8 || !strings.HasPrefix(last, pre) || !strings.HasSuffix(last, suf) || len(last) < len(pre)+len(suf) {
		return "", false
	}
	return last[len(pre) : len(last)-len(suf)], true
}

type xeEnc struct {
	toks  []string
	kinds map[string]bool // node kinds occurring (for counters)
}

func (c *xeEnc) put(s ...string) { c.toks = append(c.toks, s...) }
func (c *xeEnc) other(kind string) {
	c.put("X", xeHex(kind))
	c.kinds["other:"+kind] = true
}

func (c *xeEnc) list(es []ast.Expression) {
	c.put(strconv.Itoa(len(es)))
	for _, e := range es {
		c.expr(e)
	}
}

func (c *xeEnc) expr(e ast.Expression) {
	if xeIsNil(e) {
		c.other("nil")
		return
	}
	switch n := e.(type) {
	case *ast.Identifier:
		c.kinds["Identifier"] = true
		c.put("I", strconv.Itoa(len(n.Parts)))
		for _, p := range n.Parts {
			c.put(xeHex(p))
		}
		c.put(xeHex(n.Alias))
	case *ast.Literal:
		c.kinds["Literal:"+string(n.Type)] = true
		switch n.Type {
		case ast.LiteralArray, ast.LiteralTuple:
			es, ok := n.Value.([]ast.Expression)
			if !ok {
				c.other("Literal-" + string(n.Type) + "-value-" + fmt.Sprintf("%T", n.Value))
				return
			}
			if n.Type == ast.LiteralArray {
				c.put("A", xeBool(n.Parenthesized))
			} else {
				c.put("T", xeBool(n.Parenthesized))
			}
			c.list(es)
			return
		}
		var sc []string
		switch v := n.Value.(type) {
		case int64:
			if n.Type == ast.LiteralInteger {
				if v >= 0 {
					sc = []string{"i", strconv.FormatInt(v, 10)}
				} else {
					sc = []string{"j", strconv.FormatUint(uint64(-(v+1))+1, 10)}
				}
			}
		case uint64:
			if n.Type == ast.LiteralInteger {
				sc = []string{"u", strconv.FormatUint(v, 10), xeHex(xeFormatFloat(float64(v)))}
			}
		case float64:
			if n.Type == ast.LiteralFloat {
				sc = []string{"f", xeHex(xeFormatFloat(v))}
			}
		case string:
			if n.Type == ast.LiteralString {
				sc = []string{"s", xeHex(v), xeBool(n.IsBigInt)}
			}
		case bool:
			if n.Type == ast.LiteralBoolean {
				sc = []string{"b" + xeBool(v)}
			}
		case nil:
			if n.Type == ast.LiteralNull {
				sc = []string{"n"}
			}
		}
		if sc == nil {
			c.other(fmt.Sprintf("Literal-%s-value-%T", n.Type, n.Value))
			return
		}
		c.put("L")
		c.put(sc...)
		c.put(xeBool(n.Parenthesized), xeBool(n.Negative))
	case *ast.FunctionCall:
		c.kinds["FunctionCall"] = true
		if !xeIsNil(n.Filter) || len(n.Settings) > 0 || n.SQLStandard {
			c.other("FunctionCall-filter-settings-sqlstandard")
			return
		}
		c.put("F", xeHex(n.Name), xeBool(n.Distinct), xeHex(n.Alias))
		c.list(n.Arguments)
		if n.Parameters == nil {
			c.put("-")
		} else {
			c.list(n.Parameters)
		}
	case *ast.BinaryExpr:
		c.kinds["BinaryExpr"] = true
		c.put("B", xeHex(n.Op), xeBool(n.Parenthesized))
		c.expr(n.Left)
		c.expr(n.Right)
	case *ast.UnaryExpr:
		c.kinds["UnaryExpr"] = true
		c.put("U", xeHex(n.Op))
		c.expr(n.Operand)
	case *ast.ArrayAccess:
		c.kinds["ArrayAccess"] = true
		c.put("AA")
		c.expr(n.Array)
		c.expr(n.Index)
	case *ast.TupleAccess:
		c.kinds["TupleAccess"] = true
		c.put("TA")
		c.expr(n.Tuple)
		c.expr(n.Index)
	case *ast.IsNullExpr:
		c.kinds["IsNullExpr"] = true
		c.put("N", xeBool(n.Not))
		c.expr(n.Expr)
	case *ast.BetweenExpr:
		c.kinds["BetweenExpr"] = true
		c.put("BT", xeBool(n.Not))
		c.expr(n.Expr)
		c.expr(n.Low)
		c.expr(n.High)
	case *ast.InExpr:
		c.kinds["InExpr"] = true
		if !xeIsNil(n.Query) {
			c.other("InExpr-subquery")
			return
		}
		c.put("IN", xeBool(n.Not), xeBool(n.Global), xeBool(n.TrailingComma), strconv.Itoa(len(n.List)))
		c.expr(n.Expr)
		for _, x := range n.List {
			c.expr(x)
		}
	case *ast.CaseExpr:
		c.kinds["CaseExpr"] = true
		c.put("C")
		if xeIsNil(n.Operand) {
			c.put("0")
		} else {
			c.put("1")
			c.expr(n.Operand)
		}
		c.put(strconv.Itoa(len(n.Whens)))
		for _, wh := range n.Whens {
			if wh == nil {
				c.other("nil-when")
				c.other("nil-when")
				continue
			}
			c.expr(wh.Condition)
			c.expr(wh.Result)
		}
		if xeIsNil(n.Else) {
			c.put("0")
		} else {
			c.put("1")
			c.expr(n.Else)
		}
		c.put(xeHex(n.Alias))
	case *ast.CastExpr:
		c.kinds["CastExpr"] = true
		if !xeIsNil(n.TypeExpr) {
			c.put("CD", xeBool(n.OperatorSyntax), xeHex(n.Alias))
			c.expr(n.Expr)
			c.expr(n.TypeExpr)
			return
		}
		ty, ok := xeTypeText(n.Type)
		if !ok {
			c.other("CastExpr-type-text")
			return
		}
		c.put("CT", xeBool(n.OperatorSyntax), xeHex(ty), xeHex(n.Alias))
		c.expr(n.Expr)
	case *ast.Lambda:
		c.kinds["Lambda"] = true
		c.put("LM", strconv.Itoa(len(n.Parameters)))
		for _, p := range n.Parameters {
			c.put(xeHex(p))
		}
		c.expr(n.Body)
	case *ast.TernaryExpr:
		c.kinds["TernaryExpr"] = true
		c.put("Q")
		c.expr(n.Condition)
		c.expr(n.Then)
		c.expr(n.Else)
	case *ast.AliasedExpr:
		c.kinds["AliasedExpr"] = true
		c.put("AL", xeHex(n.Alias))
		c.expr(n.Expr)
	default:
		c.other(strings.TrimPrefix(fmt.Sprintf("%T", e), "*ast."))
	}
}

func xeKindOf(e ast.Expression) string {
	if xeIsNil(e) {
		return "nil"
	}
	k := strings.TrimPrefix(fmt.Sprintf("%T", e), "*ast.")
	if a, ok := e.(*ast.AliasedExpr); ok && !xeIsNil(a.Expr) {
		k += "-" + strings.TrimPrefix(fmt.Sprintf("%T", a.Expr), "*ast.")
	}
	return k
}

// ---------------------------------------------------------------- one case

// xeSubtree cuts the lines of the single select item out of the EXPLAIN text of `SELECT <E>`.
func xeSubtree(out string) ([]string, bool) {
	if !strings.HasSuffix(out, "\n") {
		return nil, false
	}
	return c08ImplLines(out)
}

// xeAsk: the model's lines and its `plainLabels` verdict, or the reason why the expression is outside the model.
func xeAsk(w *W, toks []string) (lines []string, plain bool, unsupported string, ok bool) {
	ans := w.Model().Ask("xexpr " + strings.Join(toks, " "))
	if strings.HasPrefix(ans, "unsupported ") {
		return nil, false, strings.TrimPrefix(ans, "unsupported "), true
	}
	f := strings.Split(ans, " ")
	if len(f) != 3 || f[0] != "ok" || (f[2] != "plain" && f[2] != "fake-count-label") {
		return nil, false, ans, false
	}
	for _, h := range strings.Split(f[1], ",") {
		s, good := c08Unhex(h)
		if !good {
			return nil, false, ans, false
		}
		lines = append(lines, s)
	}
	return lines, f[2] == "plain", "", true
}

func xeFirstDiff(a, b []string) string {
	for i := 0; i < len(a) || i < len(b); i++ {
		var x, y string = "<missing>", "<missing>"
		if i < len(a) {
			x = a[i]
		}
		if i < len(b) {
			y = b[i]
		}
		if x != y {
			return fmt.Sprintf("line %d: EXPLAIN %q, model %q", i+1, x, y)
		}
	}
	return "equal"
}

func c04ExprCase(w *W, idx int, exprText string, desc string) {
	sql := "SELECT " + exprText
	in := []byte(sql)
	w.Begin(idx, in, desc)
	w.Count("xexpr:cases")
	if identHasLineBreak(in) {
		w.Count("xexpr:skipped-line-break")
		return
	}
	obs := safeParse(in, parseBudget(in))
	if obs.Panicked || obs.Budget || obs.Err != nil || len(obs.Stmts) != 1 {
		w.stats.Evaluations++
		w.Count("xexpr:not-accepted")
		return
	}
	swu, ok := obs.Stmts[0].(*ast.SelectWithUnionQuery)
	if !ok || swu == nil || len(swu.Selects) != 1 {
		w.Count("xexpr:not-one-select")
		return
	}
	sq, ok := swu.Selects[0].(*ast.SelectQuery)
	if !ok || sq == nil || len(sq.Columns) != 1 {
		w.Count("xexpr:not-one-column")
		return
	}
	enc, impl, good := c04ExprCompare(w, sql, in, obs.Stmts[0], sq.Columns[0], "xexpr")
	if !good {
		return
	}
	// C07 on the real side: the same expression two levels further down (argument of a function) is the same text, shifted
	if w.stats.Evaluations%4 == 0 {
		in2 := []byte("SELECT xe_wrap(1, " + exprText + ")")
		obs2 := safeParse(in2, parseBudget(in2))
		if obs2.Panicked || obs2.Err != nil || len(obs2.Stmts) != 1 {
			w.Count("xexpr:embed-not-accepted")
			return
		}
		ex2 := safeExplain(obs2.Stmts[0])
		l2, ok2 := xeSubtree(ex2.Out)
		if ex2.Panicked || !ok2 || len(l2) < 3 {
			w.Count("xexpr:embed-no-frame")
			return
		}
		// the parser may attach a trailing alias / operator differently inside an argument list: compare only when
		// the argument's AST encodes identically
		s2, okc := obs2.Stmts[0].(*ast.SelectWithUnionQuery)
		if !okc || len(s2.Selects) != 1 {
			return
		}
		q2, okc := s2.Selects[0].(*ast.SelectQuery)
		if !okc || len(q2.Columns) != 1 {
			return
		}
		fc, okc := q2.Columns[0].(*ast.FunctionCall)
		if !okc || len(fc.Arguments) != 2 {
			w.Count("xexpr:embed-other-shape")
			return
		}
		enc2 := &xeEnc{kinds: map[string]bool{}}
		enc2.expr(fc.Arguments[1])
		if strings.Join(enc2.toks, " ") != strings.Join(enc.toks, " ") {
			w.Count("xexpr:embed-other-ast")
			return
		}
		w.Count("xexpr:embed-compared")
		want := make([]string, len(impl))
		for i, ln := range impl {
			want[i] = "  " + ln
		}
		got := l2[3:] // Function xe_wrap / ExpressionList / Literal UInt64_1
		if strings.Join(got, "\n") != strings.Join(want, "\n") {
			w.Report(Finding{Kind: "embed", Key: "embed@xexpr@" + xeKindOf(sq.Columns[0]), Input: sql, InputHex: hexs(in),
				Detail: fmt.Sprintf("as a select item and as a function argument the same AST renders differently: %s\nitem\n%s\nargument\n%s", xeFirstDiff(got, want), strings.Join(impl, "\n"), strings.Join(got, "\n"))})
		}
	}
}

// c04ExprCompare: real Explain of `stmt` (a one-column SELECT whose column is `col`) against the model's lines for `col`.
// It returns the encoding, the real subtree lines and whether the two sides were compared and agree.
func c04ExprCompare(w *W, shown string, in []byte, stmt ast.Statement, col ast.Expression, pfx string) (*xeEnc, []string, bool) {
	enc := &xeEnc{kinds: map[string]bool{}}
	ex := safeExplain(stmt)
	if ex.Panicked {
		w.Count(pfx + ":explain-panic(C03)")
		return enc, nil, false
	}
	impl, ok := xeSubtree(ex.Out)
	if !ok {
		w.Count(pfx + ":not-a-one-column-frame")
		return enc, nil, false
	}
	kind := xeKindOf(col)
	enc.expr(col)
	model, plain, why, good := xeAsk(w, enc.toks)
	if !good {
		w.stats.Disagree++
		w.Report(Finding{Kind: "model", Key: "model@" + pfx + "-answer@" + kind, Input: shown, InputHex: hexs(in), Detail: "driver answered " + trunc(why, 300) + " for " + trunc(strings.Join(enc.toks, " "), 600),
			Disagreement: true, Obligation: "explain-expr-correspondence"})
		return enc, impl, false
	}
	if why != "" {
		w.Eval(in, false)
		w.Count(pfx + ":unsupported")
		w.Count(pfx + ":unsupported:" + why)
		return enc, impl, false
	}
	w.Eval(in, true)
	w.Count(pfx + ":compared")
	for k := range enc.kinds {
		w.Count(pfx + ":kind:" + k)
	}
	w.Count(pfx + ":root:" + kind)
	if strings.Join(impl, "\n") != strings.Join(model, "\n") {
		// a real violation wins over a mere disagreement: if the verified monitor rejects the real text, that is the finding
		if plain && !treeCheck(w, shown, ex.Out, "expression core (the model disagrees as well: "+xeFirstDiff(impl, model)+")") {
			return enc, impl, false
		}
		w.stats.Disagree++
		w.Report(Finding{Kind: "model", Key: "model@" + pfx + "@" + kind, Input: shown, InputHex: hexs(in),
			Detail:       fmt.Sprintf("%s\nencoding %s\nEXPLAIN\n%s\nmodel\n%s", xeFirstDiff(impl, model), trunc(strings.Join(enc.toks, " "), 800), strings.Join(impl, "\n"), strings.Join(model, "\n")),
			Disagreement: true, Obligation: "explain-expr-correspondence"})
		return enc, impl, false
	}
	w.Count(pfx + ":agree")
	// C04 proper on the real text: the verified monitor.  `explain_expr_check_partial` promises acceptance when the model's
	// `plainLabels` holds; when it does not (a name or alias that ends like a count suffix, e.g. an identifier
	// `x (children 3)`) the layout itself is ambiguous and the monitor must REJECT the text (`fake_count_label_is_ambiguous`):
	// both directions are checked, so the hypothesis of the theorem is exactly the monitor's verdict on the core.
	if plain {
		treeCheck(w, shown, ex.Out, "expression core")
	} else {
		w.Count(pfx + ":fake-count-label")
		if ans := w.Model().Ask("tree " + hexOf(ex.Out)); ans == "ok" {
			w.stats.Disagree++
			w.Report(Finding{Kind: "model", Key: "model@" + pfx + "-plainLabels@" + kind, Input: shown, InputHex: hexs(in),
				Detail: "the model says a count-less line ends like a count suffix, but the monitor accepts the real text:\n" + ex.Out, Disagreement: true, Obligation: "explain-expr-correspondence"})
		}
	}
	return enc, impl, true
}

// ---------------------------------------------------------------- random ASTs (not only what the parser builds)

// The theorems quantify over ALL trees of the core, so the correspondence is also run on trees built directly: every
// node kind under an AliasedExpr, own aliases and wrapper aliases together, empty aliases, negative / unsigned literal
// values, Parenthesized and Negative flags anywhere, empty parts, bytes that are not UTF-8, operators outside the table.
type xeAstGen struct{ r *Rng }

var xaNames = []string{"a", "b", "x", "it's", "a\\b", "x y", "pct%", "", "тест", "a\xffb", "n\x00l", "^k", "(children x)", "q.r", "t", "a", "b", "x", "t", "(children 1)", "y (children 12"}
var xaOps = []string{"+", "-", "*", "=", "==", "<>", "<=>", "AND", "OR", "||", "AND", "OR", "||", "DIV", "MOD", "XOR", "and"}

func (g *xeAstGen) name() string { return pick(g.r, xaNames) }

func (g *xeAstGen) alias() string {
	if g.r.Chance(1, 2) {
		return ""
	}
	return g.name()
}

func (g *xeAstGen) scalar() *ast.Literal {
	l := &ast.Literal{Parenthesized: g.r.Chance(1, 5), Negative: g.r.Chance(1, 8)}
	switch g.r.Intn(12) {
	case 0:
		l.Type, l.Value = ast.LiteralNull, nil
	case 1:
		l.Type, l.Value = ast.LiteralBoolean, g.r.Chance(1, 2)
	case 2, 3:
		l.Type, l.Value = ast.LiteralString, g.name()
		l.IsBigInt = g.r.Chance(1, 6)
	case 4, 5:
		l.Type, l.Value = ast.LiteralFloat, pick(g.r, []float64{0, 1.5, -1.5, 1e10, 1e-7, 1e21, math.Inf(1), math.Inf(-1), math.NaN(), math.Copysign(0, -1), 123456789.125})
	case 6:
		l.Type, l.Value = ast.LiteralInteger, pick(g.r, []uint64{0, 5, 1 << 63, 1<<63 + 1, math.MaxUint64, 1<<63 - 1})
	case 7:
		l.Type, l.Value = ast.LiteralInteger, pick(g.r, []int64{-1, -5, math.MinInt64, math.MinInt64 + 1})
	default:
		l.Type, l.Value = ast.LiteralInteger, pick(g.r, []int64{0, 1, 2, 42, math.MaxInt64})
	}
	return l
}

func (g *xeAstGen) list(d, max int) []ast.Expression {
	n := g.r.Intn(max + 1)
	es := make([]ast.Expression, n)
	for i := range es {
		es[i] = g.expr(d)
	}
	return es
}

func (g *xeAstGen) litList(d, max int) []ast.Expression {
	n := g.r.Intn(max + 1)
	es := make([]ast.Expression, n)
	for i := range es {
		switch g.r.Intn(8) {
		case 0:
			es[i] = &ast.UnaryExpr{Op: "-", Operand: g.scalar()}
		case 1:
			if d > 0 {
				es[i] = &ast.Literal{Type: ast.LiteralArray, Value: g.litList(d-1, 3), Parenthesized: g.r.Chance(1, 6)}
			} else {
				es[i] = g.scalar()
			}
		case 2:
			if d > 0 {
				es[i] = &ast.Literal{Type: ast.LiteralTuple, Value: g.litList(d-1, 3), Parenthesized: g.r.Chance(1, 6)}
			} else {
				es[i] = g.scalar()
			}
		case 3:
			if d > 0 && g.r.Chance(1, 2) {
				es[i] = g.expr(d - 1)
			} else {
				es[i] = &ast.Identifier{Parts: []string{g.name()}}
			}
		default:
			es[i] = g.scalar()
		}
	}
	return es
}

func (g *xeAstGen) dataType() *ast.DataType {
	switch g.r.Intn(6) {
	case 0:
		return &ast.DataType{Name: "Nullable", Parameters: []ast.Expression{&ast.DataType{Name: "String"}}}
	case 1:
		return &ast.DataType{Name: "Decimal", Parameters: []ast.Expression{&ast.Literal{Type: ast.LiteralInteger, Value: int64(10)}, &ast.Literal{Type: ast.LiteralInteger, Value: int64(2)}}}
	case 2:
		return &ast.DataType{Name: "it's"}
	case 3:
		return nil
	}
	return &ast.DataType{Name: pick(g.r, []string{"UInt8", "String", "Float64", "a\\b"})}
}

func (g *xeAstGen) expr(d int) ast.Expression {
	if d <= 0 {
		switch g.r.Intn(3) {
		case 0:
			return &ast.Identifier{Parts: []string{g.name()}, Alias: g.alias()}
		default:
			return g.scalar()
		}
	}
	switch g.r.Intn(22) {
	case 0:
		n := g.r.Intn(4)
		parts := make([]string, n)
		for i := range parts {
			parts[i] = g.name()
		}
		return &ast.Identifier{Parts: parts, Alias: g.alias(), Parenthesized: g.r.Chance(1, 4)}
	case 1:
		return g.scalar()
	case 2, 3:
		return &ast.Literal{Type: ast.LiteralArray, Value: g.litList(d-1, 3), Parenthesized: g.r.Chance(1, 6)}
	case 4, 5:
		return &ast.Literal{Type: ast.LiteralTuple, Value: g.litList(d-1, 3), Parenthesized: g.r.Chance(1, 6)}
	case 6, 7:
		f := &ast.FunctionCall{Name: pick(g.r, []string{"f", "sum", "trim", "LTRIM", "Position", "substring", "anyEquals", "позиция", "kql", "dateDiff", "view", "position"}),
			Arguments: g.list(d-1, 3), Distinct: g.r.Chance(1, 6), Alias: g.alias()}
		switch g.r.Intn(6) {
		case 0:
			f.Parameters = []ast.Expression{}
		case 1:
			f.Parameters = g.list(d-1, 2)
		case 2:
			f.Over = &ast.WindowSpec{}
		}
		return f
	case 8, 9:
		return &ast.BinaryExpr{Op: pick(g.r, xaOps), Left: g.expr(d - 1), Right: g.expr(d - 1), Parenthesized: g.r.Chance(1, 4)}
	case 10:
		return &ast.UnaryExpr{Op: pick(g.r, []string{"-", "NOT", "-", "+"}), Operand: g.expr(d - 1)}
	case 11:
		if g.r.Chance(1, 2) {
			return &ast.ArrayAccess{Array: g.expr(d - 1), Index: g.expr(d - 1)}
		}
		return &ast.TupleAccess{Tuple: g.expr(d - 1), Index: g.expr(d - 1)}
	case 12:
		return &ast.IsNullExpr{Expr: g.expr(d - 1), Not: g.r.Chance(1, 2)}
	case 13:
		return &ast.BetweenExpr{Expr: g.expr(d - 1), Low: g.expr(d - 1), High: g.expr(d - 1), Not: g.r.Chance(1, 2)}
	case 14, 15:
		in := &ast.InExpr{Expr: g.expr(d - 1), Not: g.r.Chance(1, 2), Global: g.r.Chance(1, 4), TrailingComma: g.r.Chance(1, 4)}
		if g.r.Chance(1, 2) {
			in.List = g.litList(d-1, 4)
		} else {
			in.List = g.list(d-1, 3)
		}
		return in
	case 16:
		c := &ast.CaseExpr{Alias: g.alias()}
		if g.r.Chance(1, 2) {
			c.Operand = g.expr(d - 1)
		}
		for i, n := 0, g.r.Intn(3); i < n; i++ {
			c.Whens = append(c.Whens, &ast.WhenClause{Condition: g.expr(d - 1), Result: g.expr(d - 1)})
		}
		if g.r.Chance(1, 2) {
			c.Else = g.expr(d - 1)
		}
		return c
	case 17:
		c := &ast.CastExpr{Expr: g.expr(d - 1), OperatorSyntax: g.r.Chance(1, 2), Alias: g.alias()}
		if g.r.Chance(1, 5) {
			c.TypeExpr = g.expr(d - 1)
		} else {
			c.Type = g.dataType()
		}
		return c
	case 18:
		n := g.r.Intn(3)
		ps := make([]string, n)
		for i := range ps {
			ps[i] = g.name()
		}
		return &ast.Lambda{Parameters: ps, Body: g.expr(d - 1)}
	case 19:
		return &ast.TernaryExpr{Condition: g.expr(d - 1), Then: g.expr(d - 1), Else: g.expr(d - 1)}
	default:
		return &ast.AliasedExpr{Expr: g.expr(d - 1), Alias: g.alias()}
	}
}

// xaPlain: no identifier part, alias, parameter or string that would put a line break into a line or make a line end like a
// count suffix (the domain of C04: names without line breaks; `plainLabels` in DC/Props/C04Expr.lean)
func xaPlain(toks []string) bool {
	for _, t := range toks {
		if b, err := hex.DecodeString(t); err == nil && (strings.ContainsAny(string(b), "\n\r")) {
			return false
		}
	}
	return true
}

func c04ExprAstCase(w *W, idx int, col ast.Expression, desc string) {
	stmt := &ast.SelectWithUnionQuery{Selects: []ast.Statement{&ast.SelectQuery{Columns: []ast.Expression{col}}}}
	js := safeMarshal(stmt)
	shown := "AST " + trunc(js.Out, 1500)
	in := []byte(shown)
	w.Begin(idx, in, desc)
	w.Count("xast:cases")
	c04ExprCompare(w, shown, in, stmt, col, "xast")
}

// xeFixed: hand-written expressions, one or more per node kind and per alias arm, run before the random ones
var xeFixed = []string{
	"a", "db.t.c", "`x y`", "a AS x", "a AS `pct%`", "`it's` AS `it's`", "1", "-1", "-(1)", "-0", "-0.0", "1.5", "'s'", "NULL", "true", "1 AS x", "-1 AS x", "-(1) AS x", "-0 AS z",
	"-9223372036854775808", "-9223372036854775809", "-18446744073709551615 AS big", "[1, 2]", "[]", "[1, -2, 'a']", "[[1], [2, 3]]", "[[1], []]", "[(1, 2)]", "[a, 1]", "[1, 2] AS arr", "[] AS e",
	"[[1], []] AS n", "[f(1)] AS g", "(1, 'x')", "()", "(1,)", "((1), 2)", "(1, (2, 3))", "(1, [2])", "(1, a)", "(1, 2) AS t", "() AS e", "(1, a) AS t", "(1, [2]) AS t", "(1, (2, a)) AS t",
	"f(a, 1) AS x", "f()", "count(DISTINCT a)", "quantile(0.5)(x)", "medianGK()(x)", "trim(s)", "SUBSTRING(s, 1)", "position(a, b)", "sum(x) OVER (PARTITION BY y)",
	"a + 1", "a AND b AND c", "(a AND b) AND c", "a AND (b AND c)", "a OR b OR (c OR d)", "a || b || c", "(a || b) || c", "a AND b OR c", "(a + 1) AS s", "(a AND b AND c) AS s", "(a || b || c) AS s",
	"NOT a", "-a", "(NOT a) AS n", "(-a) AS n", "arr[1]", "arr[1] AS e", "t.1", "(t.1) AS e", "a IS NULL", "a IS NOT NULL", "(a IS NULL) AS n", "a BETWEEN 1 AND 2", "a NOT BETWEEN 1 AND 2", "(a BETWEEN 1 AND 2) AS bt",
	"a IN (1, 2)", "a NOT IN (1, 2)", "a GLOBAL IN (1, 2)", "a IN (1)", "a IN (1,)", "a IN ((1, 2))", "a IN ((1, 2), (3, 4))", "a IN ((1, b), (3, 4))", "a IN ('a', 'b')", "a IN (1, 'b')", "a IN (b, c)", "a IN ()", "a IN (NULL, NULL)",
	"(a IN (1, 2)) AS i", "(a IN ((1, 2))) AS i", "(a IN (1,)) AS i", "(a IN ('a','b','c','d','e','f','g','h','i','j','k')) AS i", "a IN (((1), (2)))", "a IN (-1, 2)", "a IN ([1], [2])",
	"CASE WHEN a THEN 1 ELSE 2 END", "CASE WHEN a THEN 1 END", "CASE x WHEN 1 THEN 'a' WHEN 2 THEN 'b' END", "CASE x WHEN 1 THEN 'a' ELSE 'c' END AS c", "(CASE WHEN a THEN 1 END) AS c",
	"CAST(a AS UInt8)", "CAST(a AS Nullable(String)) AS c", "CAST(a, 'UInt8')", "a::String", "1::UInt8", "'x'::String", "NULL::Nullable(UInt8)", "true::Bool", "-1::Int8", "(-1)::Int8", "[1, 2]::Array(UInt8)", "1.5::Float32",
	"[[[a]]]", "[[[1, -a]]]", "[[[(1)]]]", "[[[f(1)]]]", "[[1], [[2]]]", "[[[1]], [[a]]]", "[[[]]] AS x", "[[[a]]] AS x", "[[(1, 2)]] AS x", "[[1], [(2)]]", "[[[1, NULL]], [[-2]]]",
	"`nul\\0x`", "`a\xffb`.c", "t.`it's`.^`k'`", "(1, (2, [3]))", "((1, 2), (3, (4, -5)))", "a IN ((1, (2, 3)), (4, (5, 6)))", "a IN ((1, -2), (3, 4))", "(a IN ((1, -2), (3, 4))) AS i", "a IN ([1, 2], 3)", "(a IN ([1, 2], 3)) AS i",
	"(a::String) AS s", "x -> x + 1", "(x, y) -> x + y", "() -> 1", "(x -> x) AS l", "a ? b : c", "(a ? b : c) AS t", "((a AS x) AS y)", "f((a, 1) AS t, [b] AS arr)",
}

func c04ExprCorrespondence(w *W) {
	for i, s := range xeFixed {
		idx, mine := w.Case()
		if mine {
			c04ExprCase(w, idx, s, "xexpr-fixed:"+itoa(i))
		}
	}
	n := w.pickN(120000, 1200000)
	for k := 0; k < n; k++ {
		idx, mine := w.Case()
		if !mine {
			continue
		}
		r := NewRng(w.Seed, uint64(idx), 47)
		g := &xeGen{r: r}
		d := 1 + r.Intn(4)
		s := g.expr(d)
		if r.Chance(1, 5) {
			s += " AS " + g.alias()
		}
		c04ExprCase(w, idx, s, "xexpr-gen")
	}
	// trees built directly (not only what the parser produces)
	na := w.pickN(60000, 600000)
	for k := 0; k < na; k++ {
		idx, mine := w.Case()
		if !mine {
			continue
		}
		r := NewRng(w.Seed, uint64(idx), 48)
		g := &xeAstGen{r: r}
		c04ExprAstCase(w, idx, g.expr(1+r.Intn(4)), "xexpr-ast")
	}
}
