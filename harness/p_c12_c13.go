package main

import (
	"bytes"
	"fmt"
	"regexp"
	"strconv"
	"strings"
	"unicode/utf8"

	"github.com/sqlc-dev/doubleclick/lexer"
	"github.com/sqlc-dev/doubleclick/token"
)

func init() {
	props["C12"] = runC12
	props["C13"] = runC13
}

var lexAlphabet = []byte("'\"`\\-/*#${}.019exb_a;:( \n\x00\xc3\xa9\xff\xe2\x80\x98@=<>|!?")

var lexSnippets = []string{"$a$", "$$", "x'", "b'", "X'4", "0x", "0b1", "0o7", "1e", "1e+", ".5", "1.", "--", "/*", "*/", "\\x", "\\", "é", "中", "−", "‘", "’", "“", "”",
	"\ufeff", "\u200b", "select", "SELECT", "a.1_x", ".1_x", "1_000", "1__0", "@@v", "@", "{p:T}", "<=>", "->", "::", "||", "!=", "<>", "'", "''", "\"", "``", "`", "$tag$", "$tag$ x $tag$", "ı", "ſelect", "\xe2\x80", "\xf0\x9f\x98", "\xf0\x9f\x98\x80", "\r\n", "\t", "1e5", "0x1p-3", "1.5e+3", "db.02_t", "9a", "0xg", "٣", "५", "５", "٣_a", "1٣", ".٣", "€", "/*/", "/*/*/ x */ */", "/* /*/ */ */", "\\Ж", "'\\→'", "'\\\xff'", "x'41€'", "'\\x中'"}

// lexInputs enumerates the shared lexer input space.
func lexInputs(w *W, maxLen int, f func(idx int, in []byte, desc string)) {
	emit := func(in []byte, desc string) {
		idx, mine := w.Case()
		if mine {
			f(idx, in, desc)
		}
	}
	// (1) exhaustive short strings over the reduced alphabet
	exh := w.pickN(3, 4)
	var rec func(cur []byte)
	rec = func(cur []byte) {
		emit(append([]byte(nil), cur...), "exh")
		if len(cur) == exh {
			return
		}
		for _, b := range lexAlphabet {
			rec(append(cur, b))
		}
	}
	rec(nil)
	// (2) corpus files (whole) and statements
	stmts, files := loadCorpus()
	for i, cf := range files {
		if !w.Thorough() && i%3 != 0 {
			continue
		}
		if len(cf.Content) > maxLen {
			continue
		}
		emit([]byte(cf.Content), "file:"+cf.Test)
	}
	// (3) random strings biased to lexically interesting bytes and snippets
	n := w.pickN(40000, 1500000)
	for k := 0; k < n; k++ {
		idx, mine := w.Case()
		if !mine {
			continue
		}
		r := NewRng(w.Seed, uint64(idx), 12)
		var b []byte
		ln := 1 + r.Intn(60)
		if r.Chance(1, 20) {
			ln = 60 + r.Intn(400)
		}
		for len(b) < ln {
			switch r.Intn(5) {
			case 0, 1:
				b = append(b, pick(r, lexAlphabet))
			case 2:
				b = append(b, pick(r, lexSnippets)...)
			case 3:
				b = append(b, byte(r.Intn(256)))
			default:
				s := stmts[r.Intn(len(stmts))].Text
				if len(s) > 0 {
					i := r.Intn(len(s))
					j := min(len(s), i+1+r.Intn(12))
					b = append(b, s[i:j]...)
				}
			}
		}
		f(idx, b, "rand")
	}
	// (4) mutated corpus statements (byte level)
	n = w.pickN(20000, 500000)
	for k := 0; k < n; k++ {
		idx, mine := w.Case()
		if !mine {
			continue
		}
		r := NewRng(w.Seed, uint64(idx), 13)
		s := stmts[r.Intn(len(stmts))].Text
		if len(s) > 2000 {
			s = s[:2000]
		}
		f(idx, mutateBytes(r, []byte(s)), "mut")
	}
	// (5) long adversarial inputs and look-ahead windows straddling 32 / 4096 / 8192 bytes
	long := []struct {
		unit string
		n    int
	}{{"'", 1 << 16}, {"/*", 1 << 15}, {"$a$ ", 1 << 14}, {"a.", 1 << 15}, {"{", 1 << 16}, {"\\", 1 << 16}, {"`", 1 << 16}, {"--\n", 1 << 14}, {"é", 1 << 15}, {"\xff", 1 << 16}, {"1_", 1 << 15}, {".1", 1 << 15}}
	for _, l := range long {
		n := l.n
		if w.Thorough() && maxLen >= 1<<20 {
			n = (1 << 20) / len(l.unit)
		}
		if n*len(l.unit) <= maxLen {
			emit([]byte(strings.Repeat(l.unit, n)), fmt.Sprintf("long:%q*%d", l.unit, n))
		}
	}
	// two-character tokens and one-character look-aheads slid across the read-buffer boundaries
	slide := []string{"--c", "/*c*/", "*/", "''", "'a''b'", "->", "::", "||", "<=", ">=", "!=", "<>", "<=>", "==", "1e5", "1.5", ".5", "a.1_x", "$$x$$", "x'41'", "b'01'", "@@v", "0x1F", "1_000", "\\n", "`a``b`", "\"a\"\"b\"", "é", "中a", "9a", "1.", "a.b"}
	for _, sn := range slide {
		for _, mark := range []int{4096, 8192} {
			if mark+64 > maxLen {
				continue
			}
			for start := mark - len(sn) - 2; start <= mark+1; start++ {
				emit([]byte(strings.Repeat(" ", start)+sn+" z"), fmt.Sprintf("slide:%d", mark))
				emit([]byte("'"+strings.Repeat("s", start-2)+"'"+sn+" z"), fmt.Sprintf("slidestr:%d", mark))
			}
		}
	}
	for _, n := range []int{61, 62, 63, 64, 65, 127, 128, 255, 256, 257, 511, 1023, 4093, 4094, 4095, 4096} {
		if n+16 > maxLen {
			continue
		}
		for _, tail := range []string{"é", "中", "😀", "\xff", "z"} {
			emit([]byte(strings.Repeat("a", n)+tail+" x"), fmt.Sprintf("longident:%d", n))
			emit([]byte("'"+strings.Repeat("s", n)+tail+"z' x"), fmt.Sprintf("longstr:%d", n))
			emit([]byte("`"+strings.Repeat("q", n)+tail+"` x"), fmt.Sprintf("longquoted:%d", n))
			emit([]byte("/*"+strings.Repeat("c", n)+tail+"*/ x"), fmt.Sprintf("longcomment:%d", n))
			emit([]byte(strings.Repeat("1", n)+tail), fmt.Sprintf("longnum:%d", n))
		}
	}
	for _, d := range []int{28, 30, 31, 32, 33, 4090, 4094, 4095, 4096, 4097, 4100, 8188, 8191, 8192, 8193} {
		if d+64 > maxLen {
			continue
		}
		emit([]byte("a."+strings.Repeat("1", d)+"_x y"), fmt.Sprintf("dotwin:%d", d))
		emit([]byte("a."+strings.Repeat("1", d)+"e5 y"), fmt.Sprintf("dotexp:%d", d))
		emit([]byte("$t$"+strings.Repeat("x", d)+"$t$ z"), fmt.Sprintf("dollar:%d", d))
		emit([]byte("$tag"+strings.Repeat("g", d)+"$ body $tag"+strings.Repeat("g", d)+"$ z"), fmt.Sprintf("dollartag:%d", d))
		emit([]byte("$é$"+strings.Repeat("x", d)+"$é$ z $é$"), fmt.Sprintf("dollarmb:%d", d))
		emit([]byte(strings.Repeat(" ", d)+"SELECT 1"), fmt.Sprintf("ws:%d", d))
	}
}

// runC12: totality of the lexer + correspondence with the Lean model (token kinds, values, positions).
func runC12(w *W) {
	maxLen := 1 << 20
	lexInputs(w, maxLen, func(idx int, in []byte, desc string) {
		w.Begin(idx, in, desc)
		w.Eval(in, len(in) > 0)
		w.Count(strings.SplitN(desc, ":", 2)[0])
		hexIn := hexs(in)
		items, pv := safeTokenize(in)
		if strings.HasPrefix(pv, "lexer-overflow") {
			w.Report(Finding{Kind: "lexer-totality", Key: "lexer-totality@nontermination", Input: fmt.Sprintf("%q", trunc(string(in), 300)), InputHex: hexIn, Detail: pv})
			return
		}
		if pv != "" {
			w.Report(Finding{Kind: "lexer-panic", Key: "lexer-panic", Input: fmt.Sprintf("%q", trunc(string(in), 300)), InputHex: hexIn, Detail: pv})
			return
		}
		bad := ""
		if len(items) == 0 || items[len(items)-1].Token != token.EOF {
			bad = "last token is not EOF"
		}
		for i, it := range items {
			if it.Token == token.EOF && i != len(items)-1 {
				bad = fmt.Sprintf("EOF at index %d of %d", i, len(items))
			}
		}
		if len(items) > len(in)+1 {
			bad = fmt.Sprintf("%d tokens for %d bytes", len(items), len(in))
		}
		if bad == "" {
			// NextToken after EOF keeps returning EOF
			l := lexer.New(bytes.NewReader(in))
			for k := 0; k <= len(in)+1; k++ {
				if l.NextToken().Token == token.EOF {
					break
				}
			}
			for k := 0; k < 3; k++ {
				if t := l.NextToken(); t.Token != token.EOF {
					bad = "NextToken after EOF returned " + t.Token.String()
				}
			}
		}
		if bad != "" {
			w.Report(Finding{Kind: "lexer-totality", Key: "lexer-totality@" + strings.SplitN(bad, " ", 2)[0], Input: fmt.Sprintf("%q", trunc(string(in), 300)), InputHex: hexIn, Detail: bad})
			return
		}
		// correspondence with the Lean model
		got := lexCanon(in)
		arg := hexIn
		if len(in) == 0 {
			arg = "-"
		}
		want := w.Model().Ask("lex " + arg)
		if want != got {
			w.stats.Disagree++
			w.Report(Finding{Kind: "lexer-model-disagreement", Key: "lexer-correspondence", Input: fmt.Sprintf("%q", trunc(string(in), 300)), InputHex: hexIn,
				Detail: "real:  " + trunc(got, 800) + "\nmodel: " + trunc(want, 800), Disagreement: true, Obligation: "lexer correspondence (DC.Model.Lexer vs lexer.Tokenize)"})
		}
		if w.stats.Evaluations%20000 == 1 {
			w.Sample(fmt.Sprintf("%q -> %s", trunc(string(in), 60), trunc(got, 120)))
		}
	})
	// Unicode classification sweep: the model's tables against package unicode of the toolchain in use
	if w.Shard == 0 && w.Only < 0 {
		w.Begin(-1, nil, "unicode sweep")
		step := 1
		if !w.Thorough() {
			step = 7
		}
		for r := 0; r <= 0x10FFFF; r += step {
			want := uniCanon(rune(r))
			got := w.Model().Ask("uni " + strconv.Itoa(r))
			if got != want {
				w.Report(Finding{Kind: "lexer-model-disagreement", Key: "unicode-table", Input: fmt.Sprintf("U+%04X", r), Detail: "real " + want + " model " + got, Disagreement: true, Obligation: "DC.Gen.Unicode tables"})
				break
			}
			w.stats.Counters["unicode-sweep"]++
		}
	}
}

type specPos struct{ line, col int }

// specPositions computes, independently of the lexer, the 1-based line and rune column of every rune
// of src, indexed by the byte offset just after the rune (invalid bytes are one rune each, as ReadRune does).
func specPositions(src []byte) map[int]specPos {
	out := make(map[int]specPos, len(src))
	line, col := 1, 0
	prevNL := false
	for i := 0; i < len(src); {
		r, sz := utf8.DecodeRune(src[i:])
		if prevNL {
			line++
			col = 1
		} else {
			col++
		}
		prevNL = r == '\n'
		i += sz
		out[i] = specPos{line, col}
	}
	return out
}

var errPosRe = regexp.MustCompile(`(?:got|unexpected token) (\S+) at line (\d+), column (\d+)`)

// runC13: token positions against the specification, and every position in an error message names a real token.
func runC13(w *W) {
	stmts, _ := loadCorpus()
	check := func(idx int, in []byte, desc string) {
		w.Begin(idx, in, desc)
		items, pv := safeTokenize(in)
		if pv != "" || len(items) == 0 {
			return
		}
		w.Eval(in, len(items) > 1)
		sp := specPositions(in)
		prev := 0
		inq := fmt.Sprintf("%q", trunc(string(in), 300))
		for i, it := range items {
			if it.Token == token.EOF {
				// EOF repeats the position of the last consumed character ({0,1,0} for empty input)
				continue
			}
			off := it.Pos.Offset
			fail := ""
			p, ok := sp[off]
			switch {
			case off < 1 || off > len(in):
				fail = fmt.Sprintf("offset %d outside the input (len %d)", off, len(in))
			case off <= prev:
				fail = fmt.Sprintf("offset %d not greater than previous %d", off, prev)
			case !ok:
				fail = fmt.Sprintf("offset %d is not a rune boundary", off)
			case p.line != it.Pos.Line || p.col != it.Pos.Column:
				fail = fmt.Sprintf("line %d column %d, but byte %d is at line %d column %d", it.Pos.Line, it.Pos.Column, off, p.line, p.col)
			}
			if fail == "" {
				// first character of the token that the message names
				_, sz := utf8.DecodeLastRune(in[:off])
				start := off - sz
				switch {
				case (it.Token == token.IDENT && !it.Quoted && !strings.HasPrefix(it.Value, "@")) || it.Token.IsKeyword():
					if it.Value != "" && !bytes.HasPrefix(in[start:], []byte(it.Value)) && !backtick(in, start) {
						fail = fmt.Sprintf("position does not point at the first character of %q", it.Value)
					}
				case it.Token == token.NUMBER:
					if it.Value != "" && in[start] != it.Value[0] {
						fail = fmt.Sprintf("position does not point at the first character of number %q", it.Value)
					}
				case it.Token >= token.PLUS && it.Token <= token.QUESTION:
					if !bytes.HasPrefix(in[start:], []byte(it.Value)) {
						fail = fmt.Sprintf("position does not point at operator %q", it.Value)
					}
				}
			}
			if fail != "" {
				w.Report(Finding{Kind: "position", Key: "position@" + it.Token.String(), Input: inq, InputHex: hexs(in), Detail: fmt.Sprintf("token %d (%s %q): %s", i, it.Token, it.Value, fail)})
				break
			}
			prev = off
		}
		// error messages
		if len(in) > 4000 {
			return
		}
		obs := safeParse(in, int64(400*(len(items)+16)))
		if obs.Panicked || obs.Budget || obs.Err == nil {
			return
		}
		msg := obs.Err.Error()
		for _, m := range errPosRe.FindAllStringSubmatch(msg, -1) {
			w.Count("error-positions")
			kind := m[1]
			L, _ := strconv.Atoi(m[2])
			C, _ := strconv.Atoi(m[3])
			found := false
			for _, it := range items {
				if it.Pos.Line == L && it.Pos.Column == C && it.Token.String() == kind {
					found = true
					break
				}
			}
			if !found {
				w.Report(Finding{Kind: "error-position", Key: "error-position@" + kind, Input: inq, InputHex: hexs(in),
					Detail: fmt.Sprintf("message names %s at line %d, column %d but no such token is there: %s", kind, L, C, trunc(msg, 300))})
				break
			}
		}
	}
	lexInputs(w, 1<<16, check)
	// error-message oriented inputs: token mutants of corpus statements, re-laid-out over several lines, with multi-byte identifiers
	n := w.pickN(30000, 1000000)
	for k := 0; k < n; k++ {
		idx, mine := w.Case()
		if !mine {
			continue
		}
		r := NewRng(w.Seed, uint64(idx), 14)
		base := stmts[r.Intn(len(stmts))].Text
		if len(base) > 1500 {
			base = base[:1500]
		}
		ts, ok := spanTexts(base)
		if !ok || len(ts) == 0 {
			continue
		}
		ts = mutateTokens(r, ts, nil)
		var sb strings.Builder
		for i, t := range ts {
			if i > 0 {
				switch r.Intn(6) {
				case 0:
					sb.WriteString("\n")
				case 1:
					sb.WriteString("\n  ")
				case 2:
					sb.WriteString(" /* é */ ")
				case 3:
					sb.WriteString("\t")
				default:
					sb.WriteString(" ")
				}
			}
			if r.Chance(1, 25) && isPlainIdent(t) {
				t = "имя" + t
			}
			sb.WriteString(t)
		}
		check(idx, []byte(sb.String()), "errmsg")
	}
}

func backtick(in []byte, start int) bool { return start < len(in) && in[start] == '`' }

func isPlainIdent(t string) bool {
	if t == "" {
		return false
	}
	for _, c := range t {
		if !(c == '_' || c >= 'a' && c <= 'z') {
			return false
		}
	}
	return true
}

// uniCanon is what the model's `uni` op must answer for rune r: isLetter isDigit isSpace and the image
// under the model's per-rune upper-casing (only equality with ASCII keyword spellings matters there).
func uniCanon(r rune) string {
	b := func(x bool) int {
		if x {
			return 1
		}
		return 0
	}
	up := r
	u := unicodeToUpper(r)
	if r < 128 || u < 128 {
		up = u
	}
	return fmt.Sprintf("%d %d %d %d", b(unicodeIsLetter(r)), b(unicodeIsDigit(r)), b(unicodeIsSpace(r)), up)
}
