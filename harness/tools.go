package main

import (
	"bufio"
	"encoding/hex"
	"fmt"
	"os"
	"strings"
)

// toolMain hosts small utilities used by the check driver (dumps for the translator, replay of one input).
func toolMain(a []string) {
	if len(a) == 0 {
		fatalf("tool: missing name")
	}
	switch a[0] {
	case "parse": // harness tool parse <file|-> : show what the real code does with one input
		var in []byte
		if len(a) > 1 && a[1] != "-" {
			in, _ = os.ReadFile(a[1])
		} else {
			in, _ = readAll(os.Stdin)
		}
		items, _ := safeTokenize(in)
		obs := safeParse(in, int64(100000*(pumpedTokens(items)+16)))
		fmt.Printf("tokens=%d steps=%d panicked=%v budget=%v site=%s panic=%s\nerr=%v\n", pumpedTokens(items), obs.Steps, obs.Panicked, obs.Budget, obs.Site, obs.PanicVal, obs.Err)
		for i, s := range obs.Stmts {
			e := safeExplain(s)
			fmt.Printf("--- stmt %d (%T) explain panicked=%v %s\n%s", i, s, e.Panicked, e.PanicVal, e.Out)
		}
	case "c11-replay": // hex inputs on stdin -> digest of Explain+Marshal output per input (fresh process)
		sc := bufio.NewScanner(os.Stdin)
		sc.Buffer(make([]byte, 1<<22), 1<<26)
		out := bufio.NewWriter(os.Stdout)
		defer out.Flush()
		for sc.Scan() {
			in, _ := unhex(sc.Text())
			fmt.Fprintln(out, sumHex(c11Outputs(string(in))))
		}
	case "lexdump": // hex lines on stdin -> canonical token streams of the real lexer
		sc := bufio.NewScanner(os.Stdin)
		sc.Buffer(make([]byte, 1<<22), 1<<26)
		out := bufio.NewWriter(os.Stdout)
		defer out.Flush()
		for sc.Scan() {
			in, ok := unhex(sc.Text())
			if !ok {
				fmt.Fprintln(out, "bad-hex")
				continue
			}
			fmt.Fprintln(out, lexCanon(in))
		}
	case "pins": // harness tool pins <outfile>
		out := ""
		if len(a) > 1 {
			out = a[1]
		}
		pinsTool(repoDir, out)
	case "gen-lean": // harness tool gen-lean <dir>
		genLeanRuntime(a[1])
	default:
		fatalf("tool: unknown %q", a[0])
	}
}

func readAll(f *os.File) ([]byte, error) {
	var out []byte
	buf := make([]byte, 1<<16)
	for {
		n, err := f.Read(buf)
		out = append(out, buf[:n]...)
		if err != nil {
			return out, nil
		}
	}
}

func unhex(s string) ([]byte, bool) {
	if s == "-" {
		return nil, true
	}
	b, err := hex.DecodeString(s)
	return b, err == nil
}

func hexOrDash(b []byte) string {
	if len(b) == 0 {
		return "-"
	}
	return hex.EncodeToString(b)
}

// lexCanon renders lexer.Tokenize(input) as `kind,hexval,off,line,col,q;…` (what the Lean model prints for `lex`).
func lexCanon(in []byte) string {
	items, pv := safeTokenize(in)
	if pv != "" {
		return "panic"
	}
	var sb strings.Builder
	for i, it := range items {
		if i > 0 {
			sb.WriteByte(';')
		}
		q := 0
		if it.Quoted {
			q = 1
		}
		fmt.Fprintf(&sb, "%d,%s,%d,%d,%d,%d", int(it.Token), hexOrDash([]byte(it.Value)), it.Pos.Offset, it.Pos.Line, it.Pos.Column, q)
	}
	return sb.String()
}
