package main

import (
	"encoding/hex"
	"fmt"
	"reflect"
	"strconv"
	"strings"

	"github.com/sqlc-dev/doubleclick/ast"
	"github.com/sqlc-dev/doubleclick/token"
)

// C04: the text returned by Explain is a single rooted tree (verified monitor DC.Spec.Tree.check,
// theorem check_iff) over: every valid corpus statement, the grammar's SELECT with every subset
// of clauses, set operations, DDL/ALTER/INSERT/utility statements, and their embedding, layout and
// multi-statement variants.
//
// Domain ("syntactically valid statement"): C04 is not about what Explain prints for text ClickHouse would
// reject (that Parse accepts such text is C03's/the parser's business).  Validity is decided as follows:
//   - a corpus statement is valid iff the golden suite itself runs it (corpusStmt.Enabled: the test is not
//     skipped, the statement is not explain_todo / parse_error / clientError and has a ClickHouse golden);
//     e.g. the nameless `SHOW CREATE TABLE;` statements of the corpus are clientError cases and are out;
//   - statements of the hand-written grammar (gen.go, and the lists in this file) are valid by construction;
//   - variants are built from valid statements by validity-preserving steps only: embedding a SELECT in one of
//     the contexts of C07, `EXPLAIN AST <statement>`, re-layout of the gaps between tokens, `a; b` scripts.
// Whatever Parse then rejects is skipped and counted (`not-accepted:*`).
// Known findings kept reachable on purpose: `SHOW PROCESSLIST` (kind `ShowProcesslist`) and
// `SHOW ROLES/QUOTAS/USERS/POLICIES/MERGES…` (kind `Show`) in moreUtility: keys tree@unknown-kind@ShowProcesslist,
// tree@unknown-kind@Show.

func init() {
	props["C04"] = runC04
}

// ---------------------------------------------------------------- shared with C07

// embedCtx is one way of embedding a SELECT query in a statement.
type embedCtx struct {
	Name string
	Pre  string
	Post string
}

// the eight embedding contexts of C07 (EXPLAIN comes in two spellings)
var embedContexts = []embedCtx{
	{"from-subquery", "SELECT * FROM (", ")"},
	{"in-subquery", "SELECT x IN (", ")"},
	{"exists-subquery", "SELECT EXISTS (", ")"},
	{"scalar-subquery", "SELECT (", ")"},
	{"cte-body", "WITH cte AS (", ") SELECT * FROM cte"},
	{"join-operand", "SELECT * FROM t JOIN (", ") AS j ON 1"},
	{"create-view", "CREATE VIEW v AS ", ""},
	{"insert-select", "INSERT INTO t ", ""},
	{"explain", "EXPLAIN ", ""},
	{"explain-ast", "EXPLAIN AST ", ""},
}

// stripStmtEnd removes trailing white space and semicolons.
func stripStmtEnd(s string) string {
	return strings.TrimRight(s, " \t\r\n;")
}

// startsWithSelect reports whether the statement text starts with SELECT or WITH.
func startsWithSelect(s string) bool {
	u := strings.ToUpper(strings.TrimLeft(s, " \t\r\n"))
	for _, kw := range []string{"SELECT", "WITH"} {
		if strings.HasPrefix(u, kw) && (len(u) == len(kw) || !isIdentByte(u[len(kw)])) {
			return true
		}
	}
	return false
}

func isIdentByte(b byte) bool {
	return b == '_' || (b >= '0' && b <= '9') || (b >= 'A' && b <= 'Z') || (b >= 'a' && b <= 'z') || b >= 0x80
}

// hasOwnTail reports whether a top-level query carries FORMAT / SETTINGS / INTO OUTFILE of its own
// (looked up in the AST: the fields the printer tests).
func hasOwnTail(s ast.Statement) bool {
	switch n := s.(type) {
	case *ast.SelectWithUnionQuery:
		if n == nil {
			return false
		}
		if len(n.Settings) > 0 || n.SettingsAfterFormat || n.SettingsBeforeFormat {
			return true
		}
		for _, c := range n.Selects {
			if hasOwnTail(c) {
				return true
			}
		}
	case *ast.SelectIntersectExceptQuery:
		if n == nil {
			return false
		}
		for _, c := range n.Selects {
			if hasOwnTail(c) {
				return true
			}
		}
	case *ast.SelectQuery:
		if n == nil {
			return false
		}
		return n.Format != nil || n.IntoOutfile != nil || len(n.Settings) > 0 || n.SettingsAfterFormat || n.SettingsBeforeFormat
	}
	return false
}

// identHasLineBreak reports whether some identifier-like token (IDENT quoted or not, or a string used
// directly after AS, i.e. an alias) contains a line break: the properties exclude such names.
func identHasLineBreak(input []byte) bool {
	if !strings.ContainsAny(string(input), "\n\r") {
		return false
	}
	items, pv := safeTokenize(input)
	if pv != "" {
		return true
	}
	prev := token.ILLEGAL
	for _, it := range items {
		if it.Token == token.WHITESPACE || it.Token == token.LINE_COMMENT {
			continue
		}
		if strings.ContainsAny(it.Value, "\n\r") {
			if it.Token == token.IDENT || it.Token.IsKeyword() {
				return true
			}
			if it.Token == token.STRING && prev == token.AS {
				return true
			}
		}
		prev = it.Token
	}
	return false
}

func parseBudget(input []byte) int64 {
	items, pv := safeTokenize(input)
	if pv != "" {
		return 1
	}
	return int64(4000 * (pumpedTokens(items) + 16))
}

// ---------------------------------------------------------------- the tree monitor

var goArtefacts = []string{"%!", "<nil>", "*ast.", "&{"}

func kindOfLine(ln string) string {
	ln = strings.TrimLeft(ln, " ")
	if i := strings.IndexByte(ln, ' '); i >= 0 {
		ln = ln[:i]
	}
	return ln
}

func hexOf(s string) string {
	if s == "" {
		return "-"
	}
	return hex.EncodeToString([]byte(s))
}

// treeCheck sends one Explain text to the verified monitor and applies the artefact rule.
// It reports findings and returns whether the text was accepted.
func treeCheck(w *W, input string, out string, what string) bool {
	ok := true
	ans := w.Model().Ask("tree " + hexOf(out))
	lines := strings.Split(out, "\n")
	if ans != "ok" {
		parts := strings.SplitN(ans, " ", 4)
		reason, kind, lineNo := ans, "-", 0
		if len(parts) >= 3 && parts[0] == "bad" {
			lineNo, _ = strconv.Atoi(parts[1])
			reason = parts[2]
			if lineNo >= 1 && lineNo <= len(lines) {
				kind = kindOfLine(lines[lineNo-1])
			}
		}
		ok = false
		ctx := ""
		if lineNo >= 1 && lineNo <= len(lines) {
			lo, hi := max(0, lineNo-3), min(len(lines), lineNo+3)
			ctx = strings.Join(lines[lo:hi], "\n")
		}
		w.Count("bad:" + reason)
		w.Report(Finding{Kind: "tree", Key: "tree@" + reason + "@" + kind, Input: fmt.Sprintf("%q", input), InputHex: hexs([]byte(input)),
			Detail: fmt.Sprintf("%s: monitor answered %q\nlines around %d:\n%s", what, ans, lineNo, ctx)})
	}
	// artefact rule: a Go formatting artefact in the output that is not simply copied from the query text
	found := map[int]bool{}
	for i, a := range goArtefacts {
		if strings.Contains(out, a) {
			found[i] = true
			if strings.Contains(input, a) {
				w.Count("artefact-text-present-in-query")
				continue
			}
			kind := "-"
			for _, ln := range lines {
				if strings.Contains(ln, a) {
					kind = kindOfLine(ln)
					break
				}
			}
			ok = false
			w.Count("bad:artefact")
			w.Report(Finding{Kind: "tree", Key: "tree@artefact:" + a + "@" + kind, Input: fmt.Sprintf("%q", input), InputHex: hexs([]byte(input)),
				Detail: fmt.Sprintf("%s: output contains %q which does not occur in the query text\n%s", what, a, trunc(out, 1500))})
		}
	}
	// the Lean definition of the artefact scan must agree with the Go one
	if len(found) > 0 || w.stats.Evaluations%64 == 0 {
		ans2 := w.Model().Ask("artefacts " + hexOf(out))
		var want []string
		for i := range goArtefacts {
			if found[i] {
				want = append(want, strconv.Itoa(i))
			}
		}
		ws := strings.Join(want, ",")
		if ws == "" {
			ws = "none"
		}
		if ans2 != ws {
			w.stats.Disagree++
			w.Report(Finding{Kind: "model-disagreement", Key: "artefact-scan", Input: fmt.Sprintf("%q", input), InputHex: hexs([]byte(input)),
				Detail: fmt.Sprintf("Go scan %s, Lean noArtefacts scan %s", ws, ans2), Disagreement: true, Obligation: "noArtefacts-scan"})
		}
	}
	return ok
}

// c04Statement runs the monitor on every statement of one input text.
func c04Statement(w *W, idx int, text string, desc string) {
	in := []byte(text)
	w.Begin(idx, in, desc)
	class := strings.SplitN(desc, ":", 2)[0]
	if identHasLineBreak(in) {
		w.stats.Evaluations++
		w.Count("skipped:identifier-with-line-break")
		return
	}
	obs := safeParse(in, parseBudget(in))
	if obs.Panicked || obs.Budget || obs.Err != nil {
		w.stats.Evaluations++
		w.Count("not-accepted:" + class)
		return
	}
	nontrivial := false
	for i, s := range obs.Stmts {
		if s == nil {
			continue
		}
		if rv := reflect.ValueOf(s); rv.Kind() == reflect.Ptr && rv.IsNil() {
			continue // C03
		}
		e := safeExplain(s)
		if e.Panicked {
			w.Count("explain-panic(C03)")
			continue
		}
		w.Count("outputs")
		w.Count("outputs:" + class)
		if strings.Count(e.Out, "\n") > 1 {
			nontrivial = true
		}
		treeCheck(w, text, e.Out, fmt.Sprintf("statement %d (%T)", i, s))
		if aq, ok := s.(*ast.AlterQuery); ok && aq != nil {
			for _, c := range aq.Commands {
				if c != nil {
					w.Count("alter-kind:" + string(c.Type))
				}
			}
		}
		c04SelectShape(w, text, s, e.Out)
	}
	w.Eval(in, nontrivial)
	if w.stats.Evaluations%5000 == 1 {
		w.Sample(text)
	}
}

// ---------------------------------------------------------------- count/emit model (DC.Model.ExplainSelect)

func c04b2i(b bool) int {
	if b {
		return 1
	}
	return 0
}

// selShapeOf lists the guards countSelectQueryChildren / explainSelectQuery test, in the field order of
// DC.Model.ExplainSelect.SelShape.
func selShapeOf(n *ast.SelectQuery) string {
	v := []int{len(n.With), c04b2i(n.From != nil), c04b2i(n.ArrayJoin != nil), c04b2i(n.PreWhere != nil), c04b2i(n.Where != nil), len(n.GroupBy), c04b2i(n.GroupByAll),
		c04b2i(n.Having != nil), c04b2i(n.Qualify != nil), len(n.Window), len(n.OrderBy), len(n.Interpolate), c04b2i(n.LimitByOffset != nil), c04b2i(n.LimitByLimit != nil),
		c04b2i(n.Limit != nil), len(n.LimitBy), c04b2i(n.Offset != nil), len(n.Settings), c04b2i(n.SettingsAfterFormat), c04b2i(n.Top != nil), len(n.DistinctOn)}
	ss := make([]string, len(v))
	for i, x := range v {
		ss[i] = strconv.Itoa(x)
	}
	return strings.Join(ss, ",")
}

// unionShapeOf: field order of DC.Model.ExplainSelect.UnionShape.
func unionShapeOf(n *ast.SelectWithUnionQuery) string {
	anyOutfile, anyFormat, legacy := false, false, false
	for _, sel := range n.Selects {
		if sq, ok := sel.(*ast.SelectQuery); ok && sq != nil {
			anyOutfile = anyOutfile || sq.IntoOutfile != nil
			anyFormat = anyFormat || sq.Format != nil
			legacy = legacy || (sq.SettingsAfterFormat && len(sq.Settings) > 0)
		}
	}
	return fmt.Sprintf("%d,%d,%d,%d,%d,%d", c04b2i(anyOutfile), c04b2i(anyFormat), len(n.Settings), c04b2i(n.SettingsBeforeFormat), c04b2i(n.SettingsAfterFormat), c04b2i(legacy))
}

func lineDepth(ln string) int { return len(ln) - len(strings.TrimLeft(ln, " ")) }

// headerCount reads the `(children N)` suffix of a line (0 when absent).
func headerCount(ln string) int {
	if !strings.HasSuffix(ln, ")") {
		return 0
	}
	i := strings.LastIndex(ln, " (children ")
	if i < 0 {
		return 0
	}
	n, err := strconv.Atoi(ln[i+len(" (children ") : len(ln)-1])
	if err != nil {
		return 0
	}
	return n
}

// directKinds lists the kinds of the lines printed directly beneath line i.
func directKinds(lines []string, i int) []string {
	d := lineDepth(lines[i])
	var out []string
	for j := i + 1; j < len(lines); j++ {
		dj := lineDepth(lines[j])
		if dj <= d {
			break
		}
		if dj == d+1 {
			out = append(out, kindOfLine(lines[j]))
		}
	}
	return out
}

func kindsMatch(model []string, real []string) bool {
	if len(model) != len(real) {
		return false
	}
	for i := range model {
		if model[i] != "*" && model[i] != real[i] {
			return false
		}
	}
	return true
}

// c04InheritedShape ties the model of explainSelectQueryWithInheritedWith: `WITH … SELECT … UNION … SELECT …` with two
// plain SELECTs, the first with a WITH clause and the second without, prints the second through that function.
func c04InheritedShape(w *W, text string, swu *ast.SelectWithUnionQuery, out string) {
	a, ok1 := swu.Selects[0].(*ast.SelectQuery)
	b, ok2 := swu.Selects[1].(*ast.SelectQuery)
	if !ok1 || !ok2 || a == nil || b == nil || len(a.With) == 0 || len(b.With) != 0 {
		return
	}
	lines := strings.Split(strings.TrimSuffix(out, "\n"), "\n")
	var at []int
	for i, ln := range lines {
		if lineDepth(ln) == 2 {
			at = append(at, i)
		}
	}
	if len(at) != 2 || !strings.HasPrefix(lines[at[1]], "  SelectQuery") || !strings.HasPrefix(lines[1], " ExpressionList (children 2)") {
		return
	}
	w.Count("shape-compared-inherited")
	shape := selShapeOf(b)
	ans := w.Model().Ask("selshapeinh " + shape)
	parts := strings.Split(ans, "|")
	if len(parts) != 3 {
		return
	}
	mc, _ := strconv.Atoi(parts[0])
	mk := strings.Split(parts[1], ",")
	rc, rk := headerCount(lines[at[1]]), directKinds(lines, at[1])
	if mc != rc || !kindsMatch(mk, rk) {
		w.stats.Disagree++
		w.Count("shape-disagreement:selshapeinh")
		w.Report(Finding{Kind: "model-disagreement", Key: "shape@selshapeinh", Input: fmt.Sprintf("%q", text), InputHex: hexs([]byte(text)),
			Detail:       fmt.Sprintf("shape %s: model %s, implementation prints count %d and children %s", shape, ans, rc, strings.Join(rk, ",")),
			Disagreement: true, Obligation: "select-inherited-count-emit-correspondence"})
	}
	if parts[2] != "wf" {
		w.Count("ast-invariant-violated:WfSel(inherited)")
	}
}

// c04SelectShape compares the Lean model of the count/emit pairs with the real output, on statements
// whose top level is a SelectWithUnionQuery holding exactly one SelectQuery (the only shape for which
// the node's own lines can be located in the text of a whole statement without re-implementing the printer).
func c04SelectShape(w *W, text string, s ast.Statement, out string) {
	swu, ok := s.(*ast.SelectWithUnionQuery)
	if !ok || swu == nil {
		return
	}
	if len(swu.Selects) == 2 {
		c04InheritedShape(w, text, swu, out)
		return
	}
	if len(swu.Selects) != 1 {
		return
	}
	sq, ok := swu.Selects[0].(*ast.SelectQuery)
	if !ok || sq == nil {
		return
	}
	lines := strings.Split(strings.TrimSuffix(out, "\n"), "\n")
	if len(lines) < 3 || !strings.HasPrefix(lines[0], "SelectWithUnionQuery") || !strings.HasPrefix(lines[2], "  SelectQuery") {
		return
	}
	w.Count("shape-compared")
	check := func(op, shape string, hdr int, obligation string, wfKey string) {
		ans := w.Model().Ask(op + " " + shape)
		parts := strings.Split(ans, "|")
		if len(parts) != 3 {
			w.Report(Finding{Kind: "model-disagreement", Key: "model-answer@" + op, Input: fmt.Sprintf("%q", text), InputHex: hexs([]byte(text)),
				Detail: "unexpected model answer " + ans + " for " + shape, Disagreement: true, Obligation: obligation})
			return
		}
		mc, _ := strconv.Atoi(parts[0])
		var mk []string
		if parts[1] != "" {
			mk = strings.Split(parts[1], ",")
		}
		rc := headerCount(lines[hdr])
		rk := directKinds(lines, hdr)
		if mc != rc || !kindsMatch(mk, rk) {
			w.stats.Disagree++
			w.Count("shape-disagreement:" + op)
			w.Report(Finding{Kind: "model-disagreement", Key: "shape@" + op, Input: fmt.Sprintf("%q", text), InputHex: hexs([]byte(text)),
				Detail:       fmt.Sprintf("shape %s: model %s, implementation prints count %d and children %s", shape, ans, rc, strings.Join(rk, ",")),
				Disagreement: true, Obligation: obligation})
		}
		if parts[2] != "wf" {
			// Parse produced an AST outside the invariant the count/emit theorem needs
			w.Count("ast-invariant-violated:" + wfKey)
			w.Sample(fmt.Sprintf("AST outside %s: %q (header %d, printed %s)", wfKey, trunc(text, 120), rc, strings.Join(rk, ",")))
		}
	}
	check("unionshape", unionShapeOf(swu), 0, "union-count-emit-correspondence", "WfUnion")
	check("selshape", selShapeOf(sq), 2, "select-count-emit-correspondence", "WfSel")
}

// ---------------------------------------------------------------- input space

// every ALTER command kind of ast.AlterCommandType
var alterCommands = []string{
	"ADD COLUMN c UInt8", "ADD COLUMN IF NOT EXISTS c UInt8 DEFAULT 1 AFTER a", "ADD COLUMN c String FIRST", "ADD COLUMN c UInt8 CODEC(ZSTD(1)) TTL ts + INTERVAL 1 DAY COMMENT 'x'",
	"DROP COLUMN c", "DROP COLUMN IF EXISTS c",
	"MODIFY COLUMN c UInt16", "MODIFY COLUMN c String DEFAULT 'x'", "MODIFY COLUMN c REMOVE DEFAULT", "MODIFY COLUMN c COMMENT 'x'", "MODIFY COLUMN c TTL ts + INTERVAL 1 DAY",
	"RENAME COLUMN a TO b", "RENAME COLUMN IF EXISTS a TO b",
	"CLEAR COLUMN a", "CLEAR COLUMN a IN PARTITION 1", "MATERIALIZE COLUMN a", "MATERIALIZE COLUMN a IN PARTITION 1",
	"COMMENT COLUMN a 'hello'",
	"ADD INDEX idx a TYPE minmax GRANULARITY 2", "ADD INDEX IF NOT EXISTS idx (a, b) TYPE bloom_filter(0.01) GRANULARITY 1 AFTER i0", "ADD INDEX idx a + b TYPE set(100)",
	"DROP INDEX idx", "DROP INDEX IF EXISTS idx", "CLEAR INDEX idx", "CLEAR INDEX idx IN PARTITION 1", "MATERIALIZE INDEX idx", "MATERIALIZE INDEX idx IN PARTITION 1",
	"ADD CONSTRAINT c CHECK a > 0", "DROP CONSTRAINT c",
	"MODIFY TTL ts + INTERVAL 1 DAY", "MODIFY TTL ts + INTERVAL 1 DAY DELETE, ts + INTERVAL 2 DAY TO DISK 'd'", "MATERIALIZE TTL", "MATERIALIZE TTL IN PARTITION 1", "REMOVE TTL",
	"MODIFY SETTING max_part_loading_threads = 8", "MODIFY SETTING a = 1, b = 2", "RESET SETTING a", "RESET SETTING a, b",
	"DROP PARTITION 201901", "DROP PARTITION ID '1'", "DROP PARTITION tuple()", "DROP PART 'all_1_1_0'", "DROP DETACHED PARTITION 1", "DROP DETACHED PART 'x'",
	"DETACH PARTITION 201901", "DETACH PART 'x'", "ATTACH PARTITION 201901", "ATTACH PART 'x'", "ATTACH PARTITION 1 FROM t2",
	"REPLACE PARTITION 1 FROM t2", "FETCH PARTITION 1 FROM '/clickhouse/tables/t'", "MOVE PARTITION 1 TO TABLE t2", "MOVE PARTITION 1 TO DISK 'd'", "MOVE PART 'x' TO VOLUME 'v'",
	"FREEZE PARTITION 201901", "FREEZE PARTITION 1 WITH NAME 'b'", "FREEZE", "FREEZE WITH NAME 'b'", "UNFREEZE WITH NAME 'b'",
	"APPLY PATCHES", "APPLY PATCHES IN PARTITION 1", "APPLY DELETED MASK", "APPLY DELETED MASK IN PARTITION 1",
	"DELETE WHERE a = 1", "DELETE IN PARTITION 1 WHERE a", "UPDATE a = 1 WHERE b", "UPDATE a = a + 1, b = 'x' WHERE c IN (1, 2)", "UPDATE a = 1 IN PARTITION 1 WHERE b",
	"ADD PROJECTION p (SELECT a ORDER BY b)", "ADD PROJECTION IF NOT EXISTS p (SELECT a, sum(b) GROUP BY a)", "DROP PROJECTION p", "DROP PROJECTION IF EXISTS p",
	"MATERIALIZE PROJECTION p", "MATERIALIZE PROJECTION p IN PARTITION 1", "CLEAR PROJECTION p", "CLEAR PROJECTION p IN PARTITION 1",
	"ADD STATISTICS a TYPE tdigest", "ADD STATISTICS IF NOT EXISTS a, b TYPE tdigest, uniq", "MODIFY STATISTICS a TYPE uniq", "DROP STATISTICS a", "DROP STATISTICS IF EXISTS a, b",
	"CLEAR STATISTICS a", "MATERIALIZE STATISTICS a", "MATERIALIZE STATISTICS a, b",
	"MODIFY COMMENT 'c'", "MODIFY ORDER BY (a, b)", "MODIFY ORDER BY a", "MODIFY SAMPLE BY a", "REMOVE SAMPLE BY", "MODIFY QUERY SELECT a FROM t2", "MODIFY QUERY SELECT a FROM t2 WHERE b GROUP BY a",
}

// utility statements beyond gen.go's list (each also runs as an EXPLAIN target, i.e. below depth 0)
var moreUtility = []string{
	"DESCRIBE TABLE f(1, [2])", "DESCRIBE f(g(1))", "DESCRIBE (SELECT 1)", "DESC TABLE t FORMAT TSV", "DESCRIBE TABLE numbers(10) SETTINGS a = 1", "DESCRIBE TABLE db.t",
	"BACKUP TABLE t TO Disk('b')", "BACKUP DATABASE db TO Null", "BACKUP TABLE t TO S3('u', 'k', 's') FORMAT Null", "RESTORE TABLE t FROM Disk('b', 'f')", "RESTORE ALL FROM Memory('b1')",
	"SHOW CREATE TABLE db.t", "SHOW CREATE VIEW v", "SHOW CREATE DICTIONARY db.d", "SHOW CREATE DATABASE db FORMAT TSV", "SHOW CREATE t", "SHOW CREATE USER u", "SHOW CREATE USER u1, u2", "SHOW CREATE ROLE r",
	"SHOW CREATE QUOTA q", "SHOW CREATE ROW POLICY p ON t", "SHOW CREATE POLICY p ON t", "SHOW CREATE SETTINGS PROFILE p", "SHOW COLUMNS FROM t", "SHOW COLUMNS FROM t FROM db LIKE 'a%'", "SHOW DICTIONARIES",
	"SHOW DICTIONARIES FROM db", "SHOW FUNCTIONS", "SHOW FUNCTIONS LIKE 'a%'", "SHOW SETTINGS LIKE 'max%'", "SHOW SETTING max_threads", "SHOW CHANGED SETTINGS ILIKE '%x%'", "SHOW GRANTS", "SHOW GRANTS FOR u",
	"SHOW TABLES FROM db FORMAT TSV SETTINGS a = 1", "SHOW TABLES NOT LIKE 'x'", "SHOW TEMPORARY TABLES", "SHOW FULL TABLES", "SHOW DATABASES LIKE 'd%'", "SHOW PRIVILEGES", "SHOW USERS", "SHOW ROLES",
	"SHOW QUOTAS", "SHOW PROFILES", "SHOW POLICIES", "SHOW ENGINES", "SHOW CLUSTERS", "SHOW CLUSTER c", "SHOW INDEX FROM t", "SHOW MERGES", "SHOW ACCESS", "SHOW PROCESSLIST FORMAT TSV",
	"EXISTS t", "EXISTS TABLE db.t", "EXISTS DATABASE db", "EXISTS DICTIONARY d", "EXISTS VIEW v", "EXISTS TEMPORARY TABLE t", "EXISTS TABLE t FORMAT TSV",
	"DROP TABLE t SYNC", "DROP TABLE t1, t2", "DROP TEMPORARY TABLE t", "DROP DICTIONARY d", "DROP DATABASE db SYNC", "DROP TABLE t ON CLUSTER c", "DROP ROLE r", "DROP QUOTA q", "DROP ROW POLICY p ON t",
	"DROP SETTINGS PROFILE p", "DROP NAMED COLLECTION n", "DROP RESOURCE r", "DROP WORKLOAD w", "DROP INDEX i ON t", "DROP FUNCTION IF EXISTS f", "UNDROP TABLE db.t", "DETACH TABLE t PERMANENTLY", "DETACH DATABASE db",
	"DETACH DICTIONARY d", "TRUNCATE t", "TRUNCATE TABLE IF EXISTS db.t ON CLUSTER c", "TRUNCATE ALL TABLES FROM db", "TRUNCATE DATABASE db", "OPTIMIZE TABLE t", "OPTIMIZE TABLE t PARTITION 1 FINAL DEDUPLICATE BY a",
	"OPTIMIZE TABLE t DEDUPLICATE BY * EXCEPT (a)", "OPTIMIZE TABLE t CLEANUP", "CHECK TABLE t PARTITION 1", "CHECK TABLE t FORMAT TSV", "CHECK ALL TABLES", "RENAME TABLE a TO b", "RENAME DATABASE a TO b",
	"RENAME DICTIONARY a TO b", "EXCHANGE TABLES a AND b", "EXCHANGE DICTIONARIES a AND b", "SET a = 1", "SET a = 1, b = 'x', c = [1, 2]", "SET ROLE r", "SET ROLE DEFAULT", "SET DEFAULT ROLE r TO u", "SET TRANSACTION SNAPSHOT 1",
	"USE db", "USE DATABASE db", "SYSTEM FLUSH LOGS", "SYSTEM RELOAD DICTIONARY d", "SYSTEM STOP MERGES db.t", "SYSTEM SYNC REPLICA t", "SYSTEM DROP MARK CACHE", "SYSTEM RELOAD CONFIG ON CLUSTER c",
	"SYSTEM FLUSH DISTRIBUTED t", "SYSTEM STOP FETCHES", "SYSTEM RESTART REPLICA db.t", "SYSTEM WAIT LOADING PARTS t", "KILL QUERY WHERE query_id = 'x' SYNC", "KILL MUTATION WHERE mutation_id = 'x' TEST",
	"KILL QUERY WHERE user = 'u' FORMAT TSV", "GRANT SELECT ON db.* TO u", "GRANT SELECT(a, b), INSERT ON t TO u WITH GRANT OPTION", "GRANT r TO u", "REVOKE SELECT ON db.t FROM u", "REVOKE ALL ON *.* FROM u",
	"BEGIN TRANSACTION", "COMMIT", "ROLLBACK", "WATCH v", "WATCH v EVENTS LIMIT 1", "DELETE FROM t WHERE a = 1", "DELETE FROM db.t ON CLUSTER c WHERE a IN (SELECT b FROM u)", "UPDATE t SET a = 1 WHERE b = 2",
	"UPDATE t SET a = a + 1, b = 'x' WHERE c", "ALTER NAMED COLLECTION n SET a = 1", "ALTER SETTINGS PROFILE p SETTINGS a = 1", "ALTER ROLE r SETTINGS a = 1", "ALTER QUOTA q", "ALTER ROW POLICY p ON t USING 1",
	"ALTER DATABASE db MODIFY SETTING a = 1", "ALTER TABLE t MODIFY COLUMN a UInt8, DROP COLUMN b FORMAT TSV", "PARALLEL WITH SELECT 1", "SELECT 1 PARALLEL WITH SELECT 2", "CREATE TABLE a (x UInt8) ENGINE = Memory PARALLEL WITH CREATE TABLE b (y UInt8) ENGINE = Memory",
	"EXPLAIN EXPLAIN SELECT 1", "EXPLAIN AST EXPLAIN SYNTAX SELECT 1", "EXPLAIN header = 1, actions = 1 SELECT 1", "EXPLAIN PIPELINE graph = 1 SELECT 1 FORMAT TSV", "EXPLAIN ESTIMATE SELECT 1", "EXPLAIN QUERY TREE SELECT 1",
	"EXPLAIN TABLE OVERRIDE mysql('h', 'd', 't') PARTITION BY a", "EXPLAIN CURRENT TRANSACTION", "EXPLAIN SELECT 1 UNION ALL SELECT 2 FORMAT JSON SETTINGS a = 1", "SELECT * FROM (EXPLAIN SELECT 1)", "SELECT * FROM (EXPLAIN AST SELECT 1) AS e",
	"SELECT * FROM (EXPLAIN PLAN header = 1 SELECT 1 FROM t)", "SELECT * FROM (EXPLAIN DESCRIBE f(g(1)))", "SELECT * FROM viewExplain('EXPLAIN', '', (SELECT 1))",
}

// CREATE TABLE option fragments, combined by subset
var createOptions = []struct{ name, text string }{
	{"partition", " PARTITION BY toYYYYMM(ts)"}, {"orderby", " ORDER BY (id, ts)"}, {"primarykey", " PRIMARY KEY id"}, {"sampleby", " SAMPLE BY id"},
	{"ttl", " TTL ts + INTERVAL 1 MONTH"}, {"settings", " SETTINGS index_granularity = 8192"}, {"comment", " COMMENT 'tbl'"},
}

var createColumnVariants = []string{
	"id UInt64", "id UInt64, ts DateTime", "id UInt64 DEFAULT 1", "id UInt64 MATERIALIZED a + 1", "id UInt64 ALIAS a", "id UInt64 EPHEMERAL", "id UInt64 EPHEMERAL 1",
	"id UInt64 CODEC(ZSTD(1), LZ4)", "id UInt64 COMMENT 'c'", "id UInt64 TTL ts + INTERVAL 1 DAY", "id Nullable(String) DEFAULT NULL CODEC(LZ4) TTL ts + INTERVAL 1 DAY COMMENT 'c'",
	"id UInt64, INDEX i id TYPE minmax GRANULARITY 1", "id UInt64, CONSTRAINT c CHECK id > 0", "id UInt64, PROJECTION p (SELECT id ORDER BY id)", "id UInt64 NOT NULL", "id UInt64 NULL",
	"id UInt64 STATISTICS(tdigest)", "id UInt64 SETTINGS (max_compress_block_size = 1)", "id UInt64 PRIMARY KEY", "id Enum8('a' = 1, 'b' = 2), t Tuple(a UInt8, b String), m Map(String, Array(UInt8))",
	"`id` UInt64, `a b` String", "id UInt64 DEFAULT 1 COMMENT 'c' CODEC(NONE)", "id", "id DEFAULT 1",
}

// relayout rebuilds src with every gap between tokens replaced by a random gap (layout variant).
func relayout(r *Rng, src string) (string, bool) {
	ts, ok := spanTexts(src)
	if !ok || len(ts) == 0 {
		return "", false
	}
	gaps := []string{" ", "\n", "\t", "  ", " \n ", " /* c */ ", " -- c\n", "\n\n"}
	var sb strings.Builder
	for i, t := range ts {
		if i > 0 {
			sb.WriteString(pick(r, gaps))
		}
		sb.WriteString(t)
	}
	return sb.String(), true
}

// specialSelects lists hand-written SELECT forms that the random grammar rarely combines.
var setOps = []string{"UNION ALL", "UNION DISTINCT", "UNION", "INTERSECT", "EXCEPT", "INTERSECT DISTINCT", "EXCEPT ALL"}

func specialSelects() []string {
	special := []string{}
	withs := []string{"", "WITH 1 AS x ", "WITH y AS (SELECT 1) ", "WITH 1 AS x, 2 AS z "}
	heads := []string{"SELECT a", "SELECT DISTINCT a", "SELECT DISTINCT ON (a, b) c", "SELECT TOP 3 a", "SELECT TOP 3 WITH TIES a", "SELECT *"}
	tails := []string{"", " FROM t", " FROM t WHERE b", " FROM t GROUP BY a", " FROM t GROUP BY ALL", " FROM t GROUP BY a WITH ROLLUP", " FROM t GROUP BY a WITH CUBE WITH TOTALS",
		" FROM t GROUP BY GROUPING SETS ((a), (a, b), ())", " FROM t GROUP BY GROUPING SETS (((a, b)), a)", " FROM t GROUP BY ROLLUP(a, b)", " FROM t GROUP BY CUBE(a, b)",
		" FROM t ORDER BY a", " FROM t ORDER BY a WITH FILL FROM 1 TO 10 STEP 2", " FROM t ORDER BY a WITH FILL INTERPOLATE (b AS b + 1)", " FROM t ORDER BY a WITH FILL INTERPOLATE (b)",
		" FROM t ORDER BY a WITH FILL INTERPOLATE (b AS b + 1) SETTINGS max_threads = 1", " FROM t ORDER BY a COLLATE 'en'",
		" FROM t LIMIT 1 BY a", " FROM t LIMIT 1, 2 BY a", " FROM t LIMIT 1 OFFSET 2 BY a", " FROM t LIMIT 1 BY a LIMIT 3", " FROM t LIMIT 1 BY a LIMIT 3 OFFSET 4", " FROM t LIMIT 1 BY a LIMIT 3, 4",
		" FROM t LIMIT 1, 2 BY a, b LIMIT 5", " FROM t LIMIT 1 BY a OFFSET 4", " FROM t OFFSET 4", " FROM t OFFSET 4 ROWS FETCH FIRST 3 ROWS ONLY", " FROM t LIMIT 5 WITH TIES", " FROM t LIMIT 2, 5",
		" FROM t WINDOW w AS (PARTITION BY a)", " FROM t QUALIFY a", " FROM t ARRAY JOIN arr AS x", " FROM t LEFT ARRAY JOIN arr", " FROM t PREWHERE a WHERE b", " FROM t SAMPLE 1/10 OFFSET 1/2",
		" FROM t FINAL", " FROM t AS q JOIN u USING (a)", " FROM t, u", " SETTINGS a = 1", " FROM t SETTINGS a = 1 FORMAT JSON", " FROM t FORMAT JSON SETTINGS a = 1", " INTO OUTFILE 'f'", " INTO OUTFILE 'f' FORMAT CSV", " SETTINGS a = 1 SETTINGS b = 2 FORMAT JSON SETTINGS c = 3", " FORMAT JSON SETTINGS c = 3 SETTINGS d = 4", " SETTINGS a = 1 FORMAT JSON SETTINGS c = 3",
		" FROM t SETTINGS a = 1 SETTINGS b = 2", " FORMAT JSON SETTINGS c = 3 FORMAT TSV", " FROM t LIMIT 1 BY a OFFSET 3", " FROM t LIMIT 2 OFFSET 3 BY a LIMIT 4 OFFSET 5",
		" FROM t INTO OUTFILE 'f' COMPRESSION 'gzip' FORMAT CSV SETTINGS a = 1"}
	for _, wi := range withs {
		for _, h := range heads {
			for _, t := range tails {
				special = append(special, wi+h+t)
			}
		}
	}
	ops := setOps
	operands := []string{"SELECT 1", "WITH 1 AS x SELECT x", "SELECT DISTINCT ON (a) b FROM t", "SELECT a FROM t LIMIT 1 BY a", "(SELECT 2)", "(SELECT 2 UNION ALL SELECT 3)", "(SELECT 2 UNION DISTINCT SELECT 3)",
		"SELECT a FROM t GROUP BY GROUPING SETS ((a), ())", "SELECT TOP 2 a FROM t", "SELECT a FROM t ORDER BY a WITH FILL INTERPOLATE (a AS a + 1) SETTINGS s = 1", "SELECT a SETTINGS s = 1", "(WITH 2 AS y SELECT y)"}
	for _, a := range operands {
		for _, op := range ops {
			for _, b := range operands {
				special = append(special, a+" "+op+" "+b)
			}
		}
	}
	for _, a := range operands[:6] {
		for _, op1 := range ops[:5] {
			for _, b := range operands[:6] {
				for _, op2 := range ops[:5] {
					special = append(special, a+" "+op1+" "+b+" "+op2+" SELECT 9")
					special = append(special, "WITH 1 AS x "+strings.TrimPrefix(a, "WITH 1 AS x ")+" "+op1+" "+b+" "+op2+" SELECT x FORMAT Null")
				}
			}
		}
	}
	return special
}

func runC04(w *W) {
	c04ExprCorrespondence(w) // expression core: Lean model vs real printer (p_c04expr.go)
	c04DDLCorrespondence(w)  // ALTER / column / index / CREATE count-emit pairs (p_c04ddl.go)
	c04UtilCorrespondence(w) // DROP / RENAME / OPTIMIZE / SHOW / SYSTEM / INSERT / … count-emit pairs (p_c04util.go)
	all, _ := loadCorpus()
	// C04 speaks about syntactically valid statements only (see the file header)
	stmts := make([]corpusStmt, 0, len(all))
	for _, s := range all {
		if s.Enabled {
			stmts = append(stmts, s)
		}
	}
	w.stats.Extra = map[string]any{"corpus_statements": len(all), "corpus_statements_enabled": len(stmts)}
	run := func(text, desc string) {
		idx, mine := w.Case()
		if !mine {
			return
		}
		c04Statement(w, idx, text, desc)
	}

	// (0) minimised past failures first (those that parse; the others are C01-C03's business)
	for i, s := range regressionInputs {
		run(s, "regress:"+itoa(i))
	}

	// (1) every corpus statement, as is
	for _, s := range stmts {
		run(s.Text, "corpus:"+s.Test+"#"+itoa(s.Index))
	}

	// (2) corpus SELECT queries in the embedding contexts; layout and multi-statement variants of every statement
	ctxStep := w.pickN(3, 1)
	for i, s := range stmts {
		body := stripStmtEnd(s.Text)
		if startsWithSelect(body) && len(body) < 4000 {
			for ci, c := range embedContexts {
				if (i+ci)%ctxStep != 0 {
					continue
				}
				run(c.Pre+body+c.Post, "corpus-ctx:"+c.Name+":"+s.Test+"#"+itoa(s.Index))
			}
			if i%ctxStep == 0 {
				run("("+body+")", "corpus-ctx:paren:"+s.Test+"#"+itoa(s.Index))
			}
		}
		if i%ctxStep == 1%ctxStep && len(s.Text) < 4000 && !strings.HasPrefix(strings.ToUpper(body), "EXPLAIN") {
			// any statement may be the target of EXPLAIN: it is then rendered one level down
			run("EXPLAIN AST "+body, "corpus-explain:"+s.Test+"#"+itoa(s.Index))
		}
		if i%ctxStep == 0 && len(s.Text) < 4000 {
			idx, mine := w.Case()
			if mine {
				r := NewRng(w.Seed, uint64(idx), 41)
				if v, ok := relayout(r, s.Text); ok {
					c04Statement(w, idx, v, "corpus-layout:"+s.Test+"#"+itoa(s.Index))
				}
			}
			idx, mine = w.Case()
			if mine {
				r := NewRng(w.Seed, uint64(idx), 42)
				o := stmts[r.Intn(len(stmts))]
				if len(o.Text) < 4000 {
					c04Statement(w, idx, body+"; "+stripStmtEnd(o.Text)+";"+pick(r, []string{"", " ", "\n", ";"}), "corpus-multi:"+s.Test+"#"+itoa(s.Index))
				}
			}
		}
	}

	// (3) grammar SELECT with every subset of clauses
	nClauses := len(selectClauses) // 18
	core := 12
	genSubset := func(mask int, salt int) {
		idx, mine := w.Case()
		if !mine {
			return
		}
		r := NewRng(w.Seed, uint64(idx), uint64(43+salt))
		g := &Gen{r: r, clauses: map[string]bool{}}
		for b := 0; b < nClauses; b++ {
			g.clauses[selectClauses[b]] = mask&(1<<b) != 0
		}
		d := 1 + r.Intn(3)
		q := g.selectQuery(d, false)
		text := q
		desc := fmt.Sprintf("gen-select:%05x", mask)
		// a quarter of them inside one of the embedding contexts (when they have no tail of their own)
		if mask&(3<<16) == 0 && r.Chance(1, 4) {
			c := pick(r, embedContexts)
			text = c.Pre + q + c.Post
			desc = "gen-select-ctx:" + c.Name + fmt.Sprintf(":%05x", mask)
		} else if mask&1 == 0 && mask&(3<<16) == 0 && r.Chance(1, 5) {
			// … and some through the second printer of SELECT: a query without its own WITH that inherits one (a later
			// UNION member, or the SELECT of WITH … INSERT), optionally with the rarely used clause forms
			extra := pick(r, []string{"", "", " INTERPOLATE ()", " INTERPOLATE (x AS x + 1)"})
			if !strings.Contains(q, "ORDER BY") || strings.Contains(q, "LIMIT") || strings.Contains(q, "OFFSET") {
				extra = ""
			}
			if extra != "" {
				q = strings.Replace(q, " ORDER BY "+"", " ORDER BY ", 1) + " WITH FILL" + extra
				if strings.Contains(q, " WITH FILL WITH FILL") {
					q = strings.Replace(q, " WITH FILL WITH FILL", " WITH FILL", 1)
				}
			}
			if r.Chance(1, 2) {
				text = "WITH 1 AS k SELECT k UNION ALL " + q
			} else {
				text = "WITH 5 AS w INSERT INTO t " + q
			}
			desc = fmt.Sprintf("gen-select-inherited:%05x", mask)
		}
		c04Statement(w, idx, text, desc)
	}
	if w.Thorough() {
		for mask := 0; mask < 1<<nClauses; mask++ {
			genSubset(mask, 0)
		}
	} else {
		// all subsets of a 12-clause core (the 6 rarest clauses off: join, arrayjoin, prewhere, withtotals, qualify, window) …
		coreIdx := []int{}
		rest := []int{}
		rare := map[string]bool{"join": true, "arrayjoin": true, "prewhere": true, "withtotals": true, "qualify": true, "window": true}
		for b, c := range selectClauses {
			if rare[c] {
				rest = append(rest, b)
			} else {
				coreIdx = append(coreIdx, b)
			}
		}
		if len(coreIdx) != core {
			fatalf("C04: core clause set has %d members", len(coreIdx))
		}
		for m := 0; m < 1<<core; m++ {
			mask := 0
			for j, b := range coreIdx {
				if m&(1<<j) != 0 {
					mask |= 1 << b
				}
			}
			genSubset(mask, 0)
		}
		// … plus 20 000 random subsets of all 18 with at least one rare clause on
		for k := 0; k < 20000; k++ {
			rr := NewRng(w.Seed, uint64(k), 44)
			mask := rr.Intn(1 << nClauses)
			mask |= 1 << rest[rr.Intn(len(rest))]
			genSubset(mask, 1)
		}
	}

	// (4) the rarely combined forms: WITH inheritance across UNION/INTERSECT/EXCEPT, DISTINCT ON, LIMIT BY spellings, TOP, INTERPOLATE
	special := specialSelects()
	for i, s := range special {
		run(s, "special-select:"+itoa(i))
		if i%4 == 0 {
			c := embedContexts[(i/4)%len(embedContexts)]
			run(c.Pre+s+c.Post, "special-select-ctx:"+c.Name+":"+itoa(i))
		}
		if i%16 == 0 {
			run("WITH 5 AS w INSERT INTO t "+s, "special-insert-with:"+itoa(i))
			run("CREATE TABLE t2 ENGINE = Memory AS "+s, "special-ctas:"+itoa(i))
			run("CREATE MATERIALIZED VIEW mv TO t AS "+s, "special-mv:"+itoa(i))
		}
	}

	// (5) set operations of the grammar
	nUnion := w.pickN(8000, 160000)
	for k := 0; k < nUnion; k++ {
		idx, mine := w.Case()
		if !mine {
			continue
		}
		r := NewRng(w.Seed, uint64(idx), 45)
		g := &Gen{r: r}
		q := g.selectUnion(1+r.Intn(3), false)
		// force at least one set operation in most cases
		if !strings.Contains(q, "UNION") && !strings.Contains(q, "INTERSECT") && !strings.Contains(q, "EXCEPT") && r.Chance(3, 4) {
			q = q + " " + pick(r, setOps) + " " + g.selectQuery(1, true)
			if r.Chance(1, 3) {
				q = q + " " + pick(r, setOps) + " (" + g.selectUnion(1, true) + ")"
			}
		}
		desc := "gen-union"
		if r.Chance(1, 4) && !strings.Contains(q, " FORMAT ") {
			c := pick(r, embedContexts)
			q = c.Pre + q + c.Post
			desc = "gen-union-ctx:" + c.Name
		}
		c04Statement(w, idx, q, desc)
	}

	// (6) ALTER: every command kind alone, every ordered pair, and with the grammar's column definitions
	for i, c := range alterCommands {
		run("ALTER TABLE t "+c, "alter:"+itoa(i))
		run("ALTER TABLE db.t ON CLUSTER c "+c+" SETTINGS mutations_sync = 1", "alter-cluster:"+itoa(i))
	}
	for i, a := range alterCommands {
		for j, b := range alterCommands {
			if !w.Thorough() && (i+j)%4 != 0 {
				continue
			}
			run("ALTER TABLE t "+a+", "+b, "alter-pair:"+itoa(i)+","+itoa(j))
		}
	}

	// (7) CREATE TABLE: every subset of the options × column variants; other CREATE forms
	for ci, cols := range createColumnVariants {
		for mask := 0; mask < 1<<len(createOptions); mask++ {
			if !w.Thorough() && (mask+ci)%3 != 0 {
				continue
			}
			var sb strings.Builder
			sb.WriteString("CREATE TABLE t (" + cols + ") ENGINE = MergeTree")
			for b, o := range createOptions {
				if mask&(1<<b) != 0 {
					sb.WriteString(o.text)
				}
			}
			run(sb.String(), fmt.Sprintf("create-table:%d:%02x", ci, mask))
		}
	}
	createForms := []string{
		"CREATE TABLE t (a UInt8) ENGINE = Memory", "CREATE TEMPORARY TABLE t (a UInt8)", "CREATE TABLE IF NOT EXISTS db.t ON CLUSTER c (a UInt8) ENGINE = Log", "CREATE OR REPLACE TABLE t (a UInt8) ENGINE = Memory",
		"CREATE TABLE t AS t2", "CREATE TABLE t AS t2 ENGINE = Memory", "CREATE TABLE t ENGINE = Memory AS SELECT 1", "CREATE TABLE t (a UInt8) ENGINE = MergeTree ORDER BY a AS SELECT 1",
		"CREATE TABLE t ENGINE = Memory AS SELECT 1 FORMAT JSON", "CREATE TABLE t AS numbers(10)", "CREATE TABLE t (a UInt8) ENGINE = ReplicatedMergeTree('/p', 'r') ORDER BY a", "CREATE TABLE t (a UInt8) ENGINE = MergeTree ORDER BY tuple()",
		"CREATE TABLE t (a UInt8) ENGINE = Distributed(c, db, t, rand())", "CREATE TABLE t (a UInt8) ENGINE = Kafka SETTINGS kafka_broker_list = 'x'", "CREATE TABLE t (a UInt8) COMMENT 'x'", "CREATE TABLE t EMPTY AS SELECT 1",
		"CREATE VIEW v AS SELECT 1", "CREATE VIEW IF NOT EXISTS v (a UInt8) AS SELECT 1", "CREATE OR REPLACE VIEW v AS SELECT a FROM t UNION ALL SELECT b FROM u", "CREATE VIEW v AS SELECT 1 FORMAT JSON",
		"CREATE MATERIALIZED VIEW mv TO t AS SELECT a FROM s", "CREATE MATERIALIZED VIEW mv ENGINE = MergeTree ORDER BY a AS SELECT a FROM s", "CREATE MATERIALIZED VIEW mv ENGINE = MergeTree ORDER BY a POPULATE AS SELECT a FROM s",
		"CREATE MATERIALIZED VIEW mv TO t (a UInt8) AS SELECT a FROM s", "CREATE MATERIALIZED VIEW mv REFRESH EVERY 1 HOUR TO t AS SELECT 1", "CREATE LIVE VIEW lv AS SELECT 1", "CREATE WINDOW VIEW wv TO t AS SELECT count() FROM s GROUP BY tumble(ts, INTERVAL 1 MINUTE)",
		"CREATE WINDOW VIEW wv INNER ENGINE = Memory ENGINE = Memory AS SELECT count() FROM s GROUP BY tumble(ts, INTERVAL 1 MINUTE)",
		"CREATE DATABASE db", "CREATE DATABASE IF NOT EXISTS db ENGINE = Atomic", "CREATE DATABASE db ON CLUSTER c ENGINE = Replicated('/p', 's', 'r') COMMENT 'c'", "CREATE DATABASE db ENGINE = MySQL('h', 'd', 'u', 'p') SETTINGS a = 1",
		"CREATE DICTIONARY d (k UInt64, v String DEFAULT '') PRIMARY KEY k SOURCE(CLICKHOUSE(TABLE 't')) LAYOUT(FLAT()) LIFETIME(MIN 0 MAX 1000)", "CREATE DICTIONARY d (k UInt64, v String) PRIMARY KEY k SOURCE(HTTP(URL 'u' FORMAT 'TSV')) LAYOUT(HASHED(SHARDS 2)) LIFETIME(10) RANGE(MIN a MAX b)",
		"CREATE DICTIONARY d (k UInt64 EXPRESSION a + 1, v String HIERARCHICAL INJECTIVE IS_OBJECT_ID) PRIMARY KEY k, v SOURCE(NULL()) LAYOUT(COMPLEX_KEY_HASHED()) LIFETIME(0) SETTINGS(a = 1) COMMENT 'x'",
		"CREATE FUNCTION f AS (x) -> x + 1", "CREATE FUNCTION f AS x -> x", "CREATE FUNCTION f ON CLUSTER c AS (x, y) -> x + y", "CREATE USER u", "CREATE USER u IDENTIFIED BY 'p'", "CREATE USER u IDENTIFIED WITH sha256_password BY 'p'",
		"CREATE USER u NOT IDENTIFIED", "CREATE USER u IDENTIFIED BY 'p', BY 'q'", "ALTER USER u IDENTIFIED BY 'x'", "CREATE ROLE r", "CREATE ROLE r1, r2", "CREATE QUOTA q", "CREATE ROW POLICY p ON t USING a = 1", "CREATE SETTINGS PROFILE p SETTINGS a = 1",
		"CREATE NAMED COLLECTION n AS a = 1, b = 'x'", "CREATE INDEX i ON t (a) TYPE minmax GRANULARITY 1", "CREATE INDEX IF NOT EXISTS i ON t (a + b) TYPE set(10)", "CREATE RESOURCE r (WRITE DISK d)", "CREATE WORKLOAD w IN all", "CREATE WORKLOAD all",
		"ATTACH TABLE t", "ATTACH TABLE t (a UInt8) ENGINE = Memory", "ATTACH DATABASE db", "ATTACH DICTIONARY d", "ATTACH VIEW v AS SELECT 1", "ATTACH TABLE t UUID '00000000-0000-0000-0000-000000000000' (a UInt8) ENGINE = Memory",
	}
	for i, s := range createForms {
		run(s, "create-form:"+itoa(i))
	}

	// (8) INSERT forms
	insertForms := []string{
		"INSERT INTO t VALUES (1, 'a'), (2, 'b')", "INSERT INTO t (a, b) VALUES (1, 2)", "INSERT INTO TABLE db.t (a, b) VALUES", "INSERT INTO t FORMAT JSONEachRow", "INSERT INTO t (a) FORMAT CSV",
		"INSERT INTO t SELECT 1", "INSERT INTO t (a, b) SELECT a, b FROM u WHERE c", "INSERT INTO t SELECT 1 UNION ALL SELECT 2", "INSERT INTO t WITH 1 AS x SELECT x", "WITH 1 AS x INSERT INTO t SELECT x",
		"WITH 1 AS x INSERT INTO t SELECT x UNION ALL SELECT x + 1", "WITH 1 AS x INSERT INTO t SELECT x INTERSECT SELECT 1", "INSERT INTO FUNCTION remote('h', db.t) SELECT 1", "INSERT INTO FUNCTION file('f.csv', CSV, 'a UInt8') VALUES (1)",
		"INSERT INTO t SETTINGS async_insert = 1 VALUES (1)", "INSERT INTO t SELECT 1 SETTINGS a = 1", "INSERT INTO t SELECT 1 FORMAT JSON", "INSERT INTO t (* EXCEPT (a)) SELECT 1", "INSERT INTO t (*) VALUES (1)", "INSERT INTO t (COLUMNS('a')) VALUES (1)",
		"INSERT INTO t PARTITION BY a SELECT 1", "INSERT INTO t FROM INFILE 'f' FORMAT CSV", "INSERT INTO t FROM INFILE 'f' COMPRESSION 'gzip' FORMAT CSV", "INSERT INTO t (a) SELECT * FROM (SELECT 1)", "INSERT INTO t WATCH v",
		"INSERT INTO t VALUES (1); SELECT 11111", "INSERT INTO t SELECT * FROM s FORMAT Null SETTINGS a = 1",
	}
	for i, s := range insertForms {
		run(s, "insert-form:"+itoa(i))
	}

	// (9) utility statements of the grammar, alone and in pairs (multi-statement)
	for i, s := range append(append([]string(nil), utilityStmts...), moreUtility...) {
		run(s, "utility:"+itoa(i))
		run(s+";\n"+utilityStmts[(i*7+3)%len(utilityStmts)]+";", "utility-multi:"+itoa(i))
		run("EXPLAIN "+s, "utility-explain:"+itoa(i))
		run("EXPLAIN AST "+s+" FORMAT TSV", "utility-explain-format:"+itoa(i))
	}

	// (9b) deep trees: the EXPLAIN of these statements is several hundred levels deep (indentation tables, caches and
	// counters with a size limit show up only here); each is also wrapped in the nesting contexts
	for _, depth := range []int{40, 130, 270, 520} {
		chain := "1"
		for i := 0; i < depth; i++ {
			chain += " - 1"
		}
		calls, parens, subq, arr := "x", "1", "SELECT 1", "1"
		for i := 0; i < depth; i++ {
			calls = "f(" + calls + ")"
			parens = "(" + parens + " + 1)"
			arr = "[" + arr + "]"
		}
		for i := 0; i < depth/7+1; i++ {
			subq = "SELECT * FROM (" + subq + ")"
		}
		for _, e := range []string{"SELECT " + chain, "SELECT " + calls, "SELECT " + parens, subq, "SELECT " + arr, "SELECT a FROM t WHERE " + calls + " AND " + chain} {
			run(e, fmt.Sprintf("deep:%d", depth))
			run("CREATE VIEW v AS "+e, fmt.Sprintf("deep-view:%d", depth))
			run("EXPLAIN AST "+e, fmt.Sprintf("deep-explain:%d", depth))
		}
	}

	// (10) random statements of the whole grammar (createTable/alter/insert/utility/select), with layout variants
	nGen := w.pickN(20000, 400000)
	for k := 0; k < nGen; k++ {
		idx, mine := w.Case()
		if !mine {
			continue
		}
		r := NewRng(w.Seed, uint64(idx), 46)
		g := &Gen{r: r}
		var s string
		switch r.Intn(9) {
		case 0:
			s = g.createTable()
		case 1:
			s = g.alter()
		case 2:
			s = g.insert()
		case 3, 4:
			s = g.createView() // views with every storage clause (ENGINE, TTL, PARTITION BY, POPULATE, TO …)
		case 5, 6:
			s = g.aliasedShapes() // every expression kind with plain and special (%, spaces, unicode) aliases
		default:
			s = g.statement(3)
		}
		desc := "gen-stmt"
		switch r.Intn(6) {
		case 0:
			if v, ok := relayout(r, s); ok {
				s, desc = v, "gen-stmt-layout"
			}
		case 1:
			s, desc = s+"; "+g.statement(2), "gen-stmt-multi"
		}
		c04Statement(w, idx, s, desc)
	}

	// (10b) the structured spaces of fuzzspace2.go (what parses: scripts, WINDOW definitions, statement × tail subsets, odd calls)
	fuzzSpace2(w, func(input, desc string) {
		if desc == "recovery" || desc == "tails" || desc == "expr-suffix" || desc == "clauses" { // not syntactically valid in general: C01–C03's business
			return
		}
		run(input, "fs2-"+desc)
	})

	// (11) leaf substitution: the statement skeletons of the corpus (every statement kind and clause the goldens know)
	// with their string / number / identifier leaves replaced by difficult ones — line breaks, tabs, quotes and
	// backslashes inside strings, huge and negative-looking numbers, quoted identifiers with spaces, dots and '%'.
	// A literal replaced by a literal of the same kind keeps the statement syntactically valid wherever the leaf is an
	// ordinary value (COMMENT, DEFAULT, SETTINGS, FORMAT arguments, engine parameters, casts, …).
	nLeaf := w.pickN(40000, 800000)
	for k := 0; k < nLeaf; k++ {
		idx, mine := w.Case()
		if !mine {
			continue
		}
		r := NewRng(w.Seed, uint64(idx), 48)
		base := stmts[r.Intn(len(stmts))].Text
		if len(base) > 3000 {
			continue
		}
		v, ok := leafSubstitute(r, base)
		if !ok {
			continue
		}
		c04Statement(w, idx, v, "leaf-subst")
	}
}

// SQL source spellings (backslash escapes are the SQL ones) …
var nastyStrings = []string{`'x\ny'`, `'a\nb'`, `'tab\there'`, `'q''q'`, `'back\\slash'`, `'\0nul'`, `'é€😀'`, `''`, `' '`, `'%d %s'`, `'<nil>'`, `'a\rb'`, `'\'lead'`, `'trail\\'`,
	"NULL", `'line1\nline2\nline3'`, `'\x41\x0a'`, `'a\\nb'`, `'\b\f\v\a\e'`, `'{}'`, `'$a$'`, `'--c'`, `'/*c*/'`, `'x;y'`,
	// … and raw control characters between the quotes
	"'x\ny'", "'raw\ttab'", "'multi\n\nline'", "'cr\rlf\n'"}
var nastyNumbers = []string{"NULL", "1e-9999999999", "1e-19", "-0", "0", "18446744073709551615", "18446744073709551616", "9223372036854775808", "1e400", "0x10", "0b11", "1.50", ".5", "1e-7", "1_000", "007", "1e21", "123456789012345678901234567890"}
var nastyIdents = []string{"`a b`", "`a.b`", "`%`", "\"q\"\"q\"", `"ident\\with\\bs"`, "`é`", "`1x`", "`select`", "\"NULL\"", "`a'b`", "`tab\there`"}

// leafSubstitute replaces 1..3 leaves of src (tokens of kind STRING / NUMBER / IDENT) by a nasty leaf of the same kind.
func leafSubstitute(r *Rng, src string) (string, bool) {
	sp, ok := tokenSpans(src)
	if !ok || len(sp) == 0 {
		return "", false
	}
	var cand []int
	for i, t := range sp {
		if t.Tok == token.STRING || t.Tok == token.NUMBER || (t.Tok == token.IDENT && r.Chance(1, 3)) {
			cand = append(cand, i)
		}
	}
	if len(cand) == 0 {
		return "", false
	}
	chosen := map[int]string{}
	n := 1 + r.Intn(3)
	for j := 0; j < n; j++ {
		i := cand[r.Intn(len(cand))]
		switch sp[i].Tok {
		case token.STRING:
			if src[sp[i].Start] != '\'' { // x'..', b'..', heredocs: keep
				continue
			}
			chosen[i] = pick(r, nastyStrings)
		case token.NUMBER:
			chosen[i] = pick(r, nastyNumbers)
		default:
			chosen[i] = pick(r, nastyIdents)
		}
	}
	if len(chosen) == 0 {
		return "", false
	}
	var sb strings.Builder
	last := 0
	for i, t := range sp {
		if rep, ok := chosen[i]; ok {
			sb.WriteString(src[last:t.Start])
			sb.WriteString(rep)
			last = t.End
		}
	}
	sb.WriteString(src[last:])
	return sb.String(), true
}
