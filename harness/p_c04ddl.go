package main

import (
	"fmt"
	"os"
	"strconv"
	"strings"

	"github.com/sqlc-dev/doubleclick/ast"
)

// C04, DDL count/emit pairs: correspondence between the Lean model DC.Model.ExplainDDL (theorems DC.Props.C04DDL:
// alter_pair, stat_pair, projection_pair, projection_select_pair, column_pair, index_pair, create_pair,
// columns_definition_pair, storage_definition_pair, inner_storage_pair) and the real printer.
//
// For every ALTER / CREATE statement Parse accepts, the shape of each node (one number per guard the Go code tests,
// in the field order of the Lean structure) is read off the PARSED ast, the model is asked for the count and the
// kinds of the children, and both are compared with the `(children N)` suffix and the direct children of the node's
// line in the real parser.Explain output:
//   AlterCommand (+ the displayed type name), Stat, Projection, ProjectionSelectQuery, ColumnDeclaration, Index,
//   CreateQuery / CreateFunctionQuery / CreateUserQuery, Columns definition, Storage definition (regular, inside
//   ViewTargets for materialized views, and the window view's inner one).
// A difference is a model finding (the model is wrong, never the code):
//   Finding{Kind:"model", Key:"model@ddlshape@<node>", Disagreement:true, Obligation:"ddl-count-emit-correspondence"}.
// Independently of the model, a compared node whose real header count differs from the number of its real direct
// children is a C04 failure (`tree@count-mismatch@<node>`) when the statement is valid by construction; on the
// deliberately degenerate inputs (truncated statements Parse accepts although ClickHouse rejects them: class
// `ddl-degenerate`) it is only counted (`ddl:real-count-mismatch-on-invalid-input:<node>`) and sampled.
// The AST invariants of the theorems (WfAlter, WfCreate) are evaluated by the model on every compared AST and
// counted when violated (`ddl:ast-invariant-violated:*`).

func init() { props["C04D"] = c04DDLCorrespondence }

const ddlObligation = "ddl-count-emit-correspondence"

// VERIF_DDL_ARMS=1 adds one counter per (node, printed child kinds) pair: which arms of the printers the run reached
var ddlArms = os.Getenv("VERIF_DDL_ARMS") != ""

// ---------------------------------------------------------------- shapes (field order of the Lean structures)

func ddlJoin(v []int) string {
	ss := make([]string, len(v))
	for i, x := range v {
		ss[i] = strconv.Itoa(x)
	}
	return strings.Join(ss, ",")
}

// alterShapeOf: DC.Model.ExplainDDL.AlterShape without the kind (33 numbers).
func alterShapeOf(c *ast.AlterCommand) string {
	b := c04b2i
	partAll, partLit := false, false
	if c.Partition != nil {
		if id, ok := c.Partition.(*ast.Identifier); ok && id != nil && strings.ToUpper(id.Name()) == "ALL" {
			partAll = true
		}
		_, partLit = c.Partition.(*ast.Literal)
	}
	idxExpr, idxType := false, false
	if c.IndexDef != nil {
		idxExpr, idxType = c.IndexDef.Expression != nil, c.IndexDef.Type != nil
	}
	consExpr := c.Constraint != nil && c.Constraint.Expression != nil
	ttlN, ttlExpr := 0, false
	if c.TTL != nil {
		ttlN, ttlExpr = len(c.TTL.Elements), c.TTL.Expression != nil
	}
	return ddlJoin([]int{
		b(c.Column != nil), b(c.AfterColumn != ""), len(c.Settings), len(c.ResetSettings), b(c.ColumnName != ""), b(c.NewName != ""),
		b(c.Comment != ""), b(c.Partition != nil), b(partAll), b(c.PartitionIsID), b(partLit), b(c.IsPart),
		b(c.IndexDef != nil), b(idxExpr), b(idxType), b(c.Index != ""), b(c.AfterIndex != ""),
		b(c.Constraint != nil), b(consExpr), b(c.ConstraintName != ""),
		b(c.TTL != nil), ttlN, b(ttlExpr), b(c.Where != nil), len(c.Assignments), b(c.Projection != nil), b(c.ProjectionName != ""),
		len(c.StatisticsColumns), len(c.StatisticsTypes), len(c.OrderByExpr), b(c.SampleByExpr != nil), b(c.Query != nil), b(c.FromTable != ""),
	})
}

// the driver's spelling of cmd.Type: "-" is the empty string; a type that cannot travel as one protocol word is sent as
// "?" (it is none of the 45 constants either way, i.e. takes the default arm like the original)
func alterTypeArg(t ast.AlterCommandType) string {
	s := string(t)
	if s == "" {
		return "-"
	}
	if strings.ContainsAny(s, " \t\r\n") || s == "-" {
		return "?"
	}
	return s
}

// projShapeOf: DC.Model.ExplainDDL.ProjShape
func projShapeOf(p *ast.Projection) string {
	if p.Select == nil {
		return "0,0,0,0,0"
	}
	q := p.Select
	return ddlJoin([]int{1, len(q.With), len(q.Columns), len(q.GroupBy), len(q.OrderBy)})
}

// colShapeOf: DC.Model.ExplainDDL.ColShape
func colShapeOf(c *ast.ColumnDeclaration) string {
	b := c04b2i
	return ddlJoin([]int{b(c.Type != nil), len(c.Statistics), b(c.DefaultKind == "EPHEMERAL"), b(c.Default != nil), b(c.TTL != nil), b(c.Codec != nil),
		len(c.Settings), b(c.Comment != "")})
}

// idxShapeOf: DC.Model.ExplainDDL.IdxShape
func idxShapeOf(i *ast.IndexDefinition) string {
	b := c04b2i
	_, isIdent := i.Expression.(*ast.Identifier)
	return ddlJoin([]int{b(i.Expression != nil), b(i.Expression != nil && isIdent), b(i.Type != nil)})
}

func ddlIsIdent(e ast.Expression) bool { _, ok := e.(*ast.Identifier); return ok }
func ddlIsTupleLit(e ast.Expression) bool {
	lit, ok := e.(*ast.Literal)
	return ok && lit != nil && lit.Type == ast.LiteralTuple
}

// createShapeOf: DC.Model.ExplainDDL.CreateShape (44 numbers)
func createShapeOf(n *ast.CreateQuery) string {
	b := c04b2i
	anyPK := false
	for _, col := range n.Columns {
		if col.PrimaryKey {
			anyPK = true
		}
	}
	ob0Ident, ob0Tuple := len(n.OrderBy) > 0 && ddlIsIdent(n.OrderBy[0]), len(n.OrderBy) > 0 && ddlIsTupleLit(n.OrderBy[0])
	pk0Ident, pk0Tuple := len(n.PrimaryKey) > 0 && ddlIsIdent(n.PrimaryKey[0]), len(n.PrimaryKey) > 0 && ddlIsTupleLit(n.PrimaryKey[0])
	ssh := n.SSHKeyCount
	if ssh < 0 {
		ssh = 0
	}
	return ddlJoin([]int{
		b(n.CreateFunction), b(n.FunctionBody != nil), b(n.CreateUser || n.AlterUser), b(n.HasAuthenticationData), len(n.AuthenticationValues), ssh,
		b(n.CreateDictionary), b(n.Database != ""), len(n.DictionaryAttrs), b(n.DictionaryDef != nil), b(n.Comment != ""), b(n.CreateDatabase),
		b(n.Table != ""), b(n.View != ""), len(n.Columns), len(n.Indexes), len(n.Projections), len(n.Constraints), b(anyPK), len(n.ColumnsPrimaryKey),
		b(n.HasEmptyColumnsPrimaryKey), len(n.Settings), b(n.SettingsBeforeComment), len(n.OrderBy), b(ob0Ident), b(ob0Tuple), b(n.OrderByHasModifiers),
		b(n.WindowView), b(n.InnerEngine != nil), b(n.Engine != nil), len(n.PrimaryKey), b(pk0Ident), b(pk0Tuple), b(n.PartitionBy != nil),
		b(n.PartitionBy != nil && ddlIsIdent(n.PartitionBy)), b(n.SampleBy != nil), b(n.TTL != nil), len(n.QuerySettings), b(n.HasRefresh), b(n.Materialized),
		b(n.To != ""), b(n.AsSelect != nil), b(n.AsTableFunction != nil), b(n.Format != ""),
	})
}

// ---------------------------------------------------------------- locating nodes in the real output

// directIdx lists the indexes of the lines printed directly beneath line i.
func directIdx(lines []string, i int) []int {
	d := lineDepth(lines[i])
	var out []int
	for j := i + 1; j < len(lines); j++ {
		dj := lineDepth(lines[j])
		if dj <= d {
			break
		}
		if dj == d+1 {
			out = append(out, j)
		}
	}
	return out
}

// childrenOfKind: the direct children of line i whose first word is kind.
func childrenOfKind(lines []string, i int, kind string) []int {
	var out []int
	for _, j := range directIdx(lines, i) {
		if kindOfLine(lines[j]) == kind {
			out = append(out, j)
		}
	}
	return out
}

// alterHeaderName: the type name shown on an `AlterCommand <name>[ (children N)]` line.
func alterHeaderName(ln string) string {
	s := strings.TrimLeft(ln, " ")
	s = strings.TrimPrefix(s, "AlterCommand")
	s = strings.TrimPrefix(s, " ")
	if i := strings.LastIndex(s, " (children "); i >= 0 && strings.HasSuffix(s, ")") {
		if _, err := strconv.Atoi(s[i+len(" (children ") : len(s)-1]); err == nil {
			s = s[:i]
		}
	}
	return s
}

type ddlCtx struct {
	w       *W
	text    string
	lines   []string
	invalid bool // the input is degenerate on purpose (Parse accepts it, ClickHouse does not)
}

func (c *ddlCtx) disagree(node, detail string) {
	c.w.stats.Disagree++
	c.w.Count("ddl:disagreement:" + node)
	c.w.Report(Finding{Kind: "model", Key: "model@ddlshape@" + node, Input: fmt.Sprintf("%q", c.text), InputHex: hexs([]byte(c.text)),
		Detail: detail, Disagreement: true, Obligation: ddlObligation})
}

// check compares the model's answer for one node with the node's line hdr in the real output.
func (c *ddlCtx) check(node, op, arg string, hdr int, wfKey string) {
	w := c.w
	ans := w.Model().Ask(op + " " + arg)
	parts := strings.Split(ans, "|")
	if len(parts) != 3 {
		c.disagree(node, "unexpected model answer "+ans+" for "+op+" "+arg)
		return
	}
	mc, err := strconv.Atoi(parts[0])
	var mk []string
	if parts[1] != "" {
		mk = strings.Split(parts[1], ",")
	}
	rc, rk := headerCount(c.lines[hdr]), directKinds(c.lines, hdr)
	w.Count("ddl:compared:" + node)
	if ddlArms {
		w.Count("ddl:arm:" + strings.TrimSuffix(op, "shape") + "=" + strings.Join(rk, ","))
	}
	if err != nil || mc != rc || !kindsMatch(mk, rk) {
		c.disagree(node, fmt.Sprintf("%s %s: model %s, implementation line %q prints count %d and children %s", op, arg, ans, strings.TrimLeft(c.lines[hdr], " "), rc, strings.Join(rk, ",")))
	}
	if parts[2] != "wf" {
		w.Count("ddl:ast-invariant-violated:" + wfKey)
		w.Sample(fmt.Sprintf("AST outside %s: %q (header %d, printed %s)", wfKey, trunc(c.text, 120), rc, strings.Join(rk, ",")))
	}
	// the property itself, on the real output alone
	if rc != len(rk) {
		if c.invalid {
			w.Count("ddl:real-count-mismatch-on-invalid-input:" + node)
			w.Sample(fmt.Sprintf("count≠children on degenerate input %q: %q announces %d, prints %d", trunc(c.text, 120), strings.TrimLeft(c.lines[hdr], " "), rc, len(rk)))
		} else {
			w.Count("ddl:real-count-mismatch:" + node)
			w.Report(Finding{Kind: "tree", Key: "tree@count-mismatch@" + node, Input: fmt.Sprintf("%q", c.text), InputHex: hexs([]byte(c.text)),
				Detail: fmt.Sprintf("line %q announces %d children, %d nodes are printed directly beneath it (%s)", strings.TrimLeft(c.lines[hdr], " "), rc, len(rk), strings.Join(rk, ","))})
		}
	}
}

func (c *ddlCtx) projection(p *ast.Projection, at int) {
	sh := projShapeOf(p)
	c.check("Projection", "projshape", sh, at, "-")
	if p.Select != nil {
		if ch := childrenOfKind(c.lines, at, "ProjectionSelectQuery"); len(ch) == 1 {
			c.check("ProjectionSelectQuery", "projselshape", sh, ch[0], "-")
		} else {
			c.disagree("ProjectionSelectQuery", fmt.Sprintf("Projection with a Select has %d ProjectionSelectQuery children", len(ch)))
		}
	}
}

// ---------------------------------------------------------------- ALTER

func (c *ddlCtx) alterQuery(n *ast.AlterQuery, hdr int) {
	kids := directIdx(c.lines, hdr)
	if len(kids) == 0 || kindOfLine(c.lines[kids[0]]) != "ExpressionList" {
		c.disagree("AlterQuery", "first child of AlterQuery is not the command list")
		return
	}
	cmds := directIdx(c.lines, kids[0])
	if len(cmds) != len(n.Commands) {
		c.disagree("AlterQuery", fmt.Sprintf("%d commands in the AST, %d nodes in the command list", len(n.Commands), len(cmds)))
		return
	}
	for i, cmd := range n.Commands {
		at := cmds[i]
		if cmd == nil || kindOfLine(c.lines[at]) != "AlterCommand" {
			c.disagree("AlterCommand", fmt.Sprintf("command %d: line %q", i, c.lines[at]))
			continue
		}
		c.w.Count("ddl:alter-kind:" + string(cmd.Type))
		typ, sh := alterTypeArg(cmd.Type), alterShapeOf(cmd)
		c.check("AlterCommand", "altershape "+typ, sh, at, "WfAlter")
		// the displayed type name
		if typ != "?" {
			want := c.w.Model().Ask("altername " + typ + " " + sh)
			if got := alterHeaderName(c.lines[at]); got != want {
				c.disagree("AlterCommand-name", fmt.Sprintf("type %q shape %s: model shows %q, implementation %q", cmd.Type, sh, want, got))
			}
		}
		// nested pairs
		for _, j := range childrenOfKind(c.lines, at, "Stat") {
			c.check("Stat", "statshape "+typ, sh, j, "-")
		}
		switch cmd.Type {
		case ast.AlterAddColumn, ast.AlterModifyColumn:
			if cmd.Column != nil {
				if ch := childrenOfKind(c.lines, at, "ColumnDeclaration"); len(ch) == 1 {
					c.check("ColumnDeclaration", "colshape", colShapeOf(cmd.Column), ch[0], "-")
				} else {
					c.disagree("ColumnDeclaration", fmt.Sprintf("command with a Column has %d ColumnDeclaration children", len(ch)))
				}
			}
		case ast.AlterAddIndex:
			if ch := childrenOfKind(c.lines, at, "Index"); len(ch) == 1 && cmd.IndexDef != nil {
				c.check("Index", "idxshape", idxShapeOf(cmd.IndexDef), ch[0], "-")
			}
		case ast.AlterAddProjection:
			if cmd.Projection != nil {
				if ch := childrenOfKind(c.lines, at, "Projection"); len(ch) == 1 {
					c.projection(cmd.Projection, ch[0])
				}
			}
		}
	}
}

// ---------------------------------------------------------------- CREATE

func (c *ddlCtx) createQuery(n *ast.CreateQuery, hdr int) {
	for _, col := range n.Columns {
		if col == nil {
			c.w.Count("ddl:nil-column(C03)")
			return
		}
	}
	sh := createShapeOf(n)
	c.check(kindOfLine(c.lines[hdr]), "createshape", sh, hdr, "WfCreate")
	if n.CreateFunction || n.CreateUser || n.AlterUser || n.CreateDictionary {
		return
	}
	// Columns definition
	cd := childrenOfKind(c.lines, hdr, "Columns")
	hasCols := len(n.Columns) > 0 || len(n.Indexes) > 0 || len(n.Projections) > 0 || len(n.Constraints) > 0
	if hasCols != (len(cd) == 1) {
		c.disagree("Columns", fmt.Sprintf("column-list elements in the AST: %v, Columns definition nodes: %d", hasCols, len(cd)))
	} else if hasCols {
		c.check("Columns", "colsdefshape", sh, cd[0], "-")
		lists := directIdx(c.lines, cd[0])
		k := 0
		next := func(want int, what string) []int {
			if want == 0 {
				return nil
			}
			if k >= len(lists) || kindOfLine(c.lines[lists[k]]) != "ExpressionList" {
				c.disagree("Columns", "no ExpressionList for the "+what)
				return nil
			}
			el := directIdx(c.lines, lists[k])
			k++
			if len(el) != want {
				c.disagree("Columns", fmt.Sprintf("%d %s in the AST, %d nodes in their list", want, what, len(el)))
				return nil
			}
			return el
		}
		for i, at := range next(len(n.Columns), "columns") {
			if kindOfLine(c.lines[at]) == "ColumnDeclaration" {
				c.check("ColumnDeclaration", "colshape", colShapeOf(n.Columns[i]), at, "-")
			} else {
				c.disagree("ColumnDeclaration", fmt.Sprintf("column %d printed as %q", i, c.lines[at]))
			}
		}
		for i, at := range next(len(n.Indexes), "indexes") {
			if n.Indexes[i] != nil && kindOfLine(c.lines[at]) == "Index" {
				c.check("Index", "idxshape", idxShapeOf(n.Indexes[i]), at, "-")
			} else {
				c.disagree("Index", fmt.Sprintf("index %d printed as %q", i, c.lines[at]))
			}
		}
		for i, at := range next(len(n.Projections), "projections") {
			if n.Projections[i] != nil && kindOfLine(c.lines[at]) == "Projection" {
				c.projection(n.Projections[i], at)
			} else {
				c.disagree("Projection", fmt.Sprintf("projection %d printed as %q", i, c.lines[at]))
			}
		}
	}
	// Storage definition: a direct child, or inside the (first) ViewTargets for a materialized view; the window view's
	// inner one is inside the last ViewTargets
	for _, at := range childrenOfKind(c.lines, hdr, "Storage") {
		c.check("Storage", "storageshape", sh, at, "-")
	}
	vt := childrenOfKind(c.lines, hdr, "ViewTargets")
	inner := n.WindowView && n.InnerEngine != nil
	if n.Materialized && inner {
		c.w.Count("ddl:materialized-window-view-targets-not-compared")
		return
	}
	if n.Materialized && len(vt) > 0 {
		for _, at := range childrenOfKind(c.lines, vt[0], "Storage") {
			c.check("Storage", "storageshape", sh, at, "-")
		}
	}
	if inner {
		if len(vt) == 0 {
			c.disagree("ViewTargets", "window view with INNER ENGINE prints no ViewTargets")
			return
		}
		st := childrenOfKind(c.lines, vt[len(vt)-1], "Storage")
		if len(st) != 1 {
			c.disagree("ViewTargets", "window view's ViewTargets has no Storage definition")
			return
		}
		c.check("Storage(inner)", "innerstorageshape", sh, st[0], "-")
	}
}

// c04DDLCompare runs the correspondence on one parsed statement and its real Explain output. It may be called for every
// statement of any search (it ignores everything but ALTER TABLE and CREATE, also as the target of EXPLAIN).
func c04DDLCompare(w *W, text string, s ast.Statement, out string, invalid bool) {
	for depth := 0; depth < 4; depth++ {
		eq, ok := s.(*ast.ExplainQuery)
		if !ok || eq == nil {
			break
		}
		s = eq.Statement
	}
	if xeIsNil(s) {
		return
	}
	c := &ddlCtx{w: w, text: text, lines: strings.Split(strings.TrimSuffix(out, "\n"), "\n"), invalid: invalid}
	find := func(kinds ...string) int {
		for i, ln := range c.lines {
			k := kindOfLine(ln)
			for _, want := range kinds {
				if k == want {
					return i
				}
			}
		}
		return -1
	}
	switch n := s.(type) {
	case *ast.AlterQuery:
		if at := find("AlterQuery"); at >= 0 {
			w.Count("ddl:alter-statements")
			c.alterQuery(n, at)
		}
	case *ast.CreateQuery:
		if at := find("CreateQuery", "CreateFunctionQuery", "CreateUserQuery"); at >= 0 {
			w.Count("ddl:create-statements")
			c.createQuery(n, at)
		}
	}
}

// c04DDLCase parses one text and compares every statement in it.
func c04DDLCase(w *W, idx int, text string, desc string) {
	in := []byte(text)
	w.Begin(idx, in, desc)
	w.Count("ddl:cases")
	class := strings.SplitN(desc, ":", 2)[0]
	if identHasLineBreak(in) {
		w.stats.Evaluations++
		w.Count("ddl:skipped-line-break")
		return
	}
	obs := safeParse(in, parseBudget(in))
	if obs.Panicked || obs.Budget || obs.Err != nil {
		w.stats.Evaluations++
		w.Count("ddl:not-accepted:" + class)
		return
	}
	compared := false
	for _, s := range obs.Stmts {
		if xeIsNil(s) {
			continue
		}
		e := safeExplain(s)
		if e.Panicked {
			w.Count("ddl:explain-panic(C03)")
			continue
		}
		before := w.stats.Counters["ddl:alter-statements"] + w.stats.Counters["ddl:create-statements"]
		c04DDLCompare(w, text, s, e.Out, class == "ddl-degenerate" || class == "ddl-corpus-disabled")
		if w.stats.Counters["ddl:alter-statements"]+w.stats.Counters["ddl:create-statements"] > before {
			compared = true
		}
	}
	w.Eval(in, compared)
}

// ---------------------------------------------------------------- input space

var ddlPartitions = []string{"PARTITION 201901", "PARTITION ID '1'", "PARTITION ALL", "PARTITION all", "PARTITION tuple()", "PARTITION (1, 'a')", "PARTITION '2020-01-01'",
	"PARTITION toYYYYMM(now())", "PARTITION ID 'all'", "PARTITION ID 7", "PART 'all_1_1_0'", "PART 'x'"}

var ddlInPartitions = []string{"", " IN PARTITION 1", " IN PARTITION ID '1'", " IN PARTITION ALL", " IN PARTITION (1, 2)", " IN PARTITION tuple()", " IN PARTITION 'p'", " IN PARTITION ID 'all'"}

// column grammar: every combination is generated (the parser decides which it accepts)
var (
	ddlColTypes    = []string{"", " UInt64", " Nullable(String)", " Array(Tuple(a UInt8, b String))"}
	ddlColStats    = []string{"", " STATISTICS(tdigest)", " STATISTICS(tdigest, uniq)"}
	ddlColNull     = []string{"", " NULL", " NOT NULL"}
	ddlColDefaults = []string{"", " DEFAULT 1", " DEFAULT a + 1", " MATERIALIZED now()", " ALIAS a", " EPHEMERAL", " EPHEMERAL 1", " EPHEMERAL 'x'"}
	ddlColCodec    = []string{"", " CODEC(ZSTD(1), LZ4)", " CODEC(NONE)"}
	ddlColTTL      = []string{"", " TTL ts + INTERVAL 1 DAY"}
	ddlColPK       = []string{"", " PRIMARY KEY"}
	ddlColComment  = []string{"", " COMMENT 'c'"}
	ddlColSettings = []string{"", " SETTINGS (max_compress_block_size = 1, min_compress_block_size = 2)"}
)

func ddlColumnGrammar() []string {
	var out []string
	for _, ty := range ddlColTypes {
		for _, st := range ddlColStats {
			for _, nu := range ddlColNull {
				for _, de := range ddlColDefaults {
					for _, co := range ddlColCodec {
						for _, tt := range ddlColTTL {
							for _, pk := range ddlColPK {
								for _, cm := range ddlColComment {
									for _, se := range ddlColSettings {
										out = append(out, "c"+ty+st+nu+de+co+tt+pk+cm+se)
									}
								}
							}
						}
					}
				}
			}
		}
	}
	return out
}

var ddlIndexDefs = []string{
	"INDEX i a TYPE minmax GRANULARITY 1", "INDEX i a TYPE minmax", "INDEX i (a, b) TYPE bloom_filter(0.01) GRANULARITY 4", "INDEX i a + b TYPE set(100)", "INDEX i lower(a) TYPE ngrambf_v1(3, 256, 2, 0) GRANULARITY 1",
	"INDEX i a TYPE set(0)", "INDEX i (a) TYPE minmax", "INDEX i a", "INDEX i a GRANULARITY 2", "INDEX `my idx` a.b TYPE minmax", "INDEX i arr[1] TYPE minmax", "INDEX i a TYPE vector_similarity('hnsw', 'L2Distance', 1)",
}

var ddlProjections = []string{
	"PROJECTION p (SELECT a ORDER BY b)", "PROJECTION p (SELECT a, sum(b) GROUP BY a)", "PROJECTION p (SELECT a, b ORDER BY a, b)", "PROJECTION p (SELECT * ORDER BY a)",
	"PROJECTION p (WITH 1 AS x SELECT a, x GROUP BY a ORDER BY a)", "PROJECTION p (SELECT a)", "PROJECTION p (SELECT a, count() GROUP BY a, b ORDER BY (a, b))", "PROJECTION p (SELECT a ORDER BY f(a))",
	"PROJECTION p (WITH 1 AS x, 2 AS y SELECT x + y)",
}

var ddlConstraints = []string{"CONSTRAINT c CHECK a > 0", "CONSTRAINT c ASSUME a > 0", "CONSTRAINT c CHECK (a, b) IN (SELECT 1, 2)", "CONSTRAINT c CHECK f(a)"}

var ddlTablePKs = []string{"PRIMARY KEY a", "PRIMARY KEY (a, b)", "PRIMARY KEY (a)", "PRIMARY KEY ()", "PRIMARY KEY f(a)", "PRIMARY KEY (a, f(b), c)"}

// ALTER commands beyond alterCommands of p_c04.go
func ddlAlterCommands() (valid []string, degenerate []string) {
	valid = append(valid, alterCommands...)
	for _, p := range ddlPartitions {
		for _, pre := range []string{"DROP ", "DETACH ", "ATTACH ", "DROP DETACHED "} {
			valid = append(valid, pre+p)
		}
		if strings.HasPrefix(p, "PARTITION") {
			valid = append(valid, "FREEZE "+p, "FREEZE "+p+" WITH NAME 'b'", "REPLACE "+p+" FROM t2", "REPLACE "+p+" FROM db.t2", "ATTACH "+p+" FROM t2", "FETCH "+p+" FROM '/p'",
				"MOVE "+p+" TO TABLE t2", "MOVE "+p+" TO TABLE db.t2", "MOVE "+p+" TO DISK 'd'", "MOVE "+p+" TO VOLUME 'v'", "UNFREEZE "+p+" WITH NAME 'b'", "FORGET "+p)
		} else {
			valid = append(valid, "MOVE "+p+" TO DISK 'd'", "FETCH "+p+" FROM '/p'")
		}
	}
	for _, ip := range ddlInPartitions {
		for _, pre := range []string{"CLEAR COLUMN a", "CLEAR COLUMN IF EXISTS a", "CLEAR INDEX i", "CLEAR INDEX IF EXISTS i", "MATERIALIZE INDEX i", "MATERIALIZE INDEX IF EXISTS i", "MATERIALIZE COLUMN a",
			"MATERIALIZE PROJECTION p", "CLEAR PROJECTION p", "MATERIALIZE TTL", "APPLY PATCHES", "APPLY DELETED MASK", "MATERIALIZE STATISTICS a", "CLEAR STATISTICS a", "DROP INDEX i", "DROP COLUMN a",
			"DROP PROJECTION p"} {
			valid = append(valid, pre+ip)
		}
		valid = append(valid, "UPDATE a = 1"+ip+" WHERE b", "UPDATE a = 1, b = b + 1"+ip+" WHERE c > 0", "UPDATE a = x IN (1, 2)"+ip+" WHERE 1", "DELETE"+ip+" WHERE a = 1")
	}
	for _, pos := range []string{"", " FIRST", " AFTER a", " AFTER n.x"} {
		for _, col := range createColumnVariants {
			if strings.Contains(col, ", ") {
				continue
			}
			valid = append(valid, "ADD COLUMN "+col+pos, "ADD COLUMN IF NOT EXISTS "+col+pos, "MODIFY COLUMN "+col+pos, "MODIFY COLUMN IF EXISTS "+col+pos)
		}
		for _, idx := range ddlIndexDefs {
			valid = append(valid, "ADD "+idx+pos, "ADD INDEX IF NOT EXISTS "+strings.TrimPrefix(idx, "INDEX ")+pos)
		}
		for _, p := range ddlProjections {
			valid = append(valid, "ADD "+p+pos, "ADD PROJECTION IF NOT EXISTS "+strings.TrimPrefix(p, "PROJECTION ")+pos)
		}
	}
	for _, c := range ddlConstraints {
		valid = append(valid, "ADD "+c, "ADD CONSTRAINT IF NOT EXISTS "+strings.TrimPrefix(c, "CONSTRAINT "))
	}
	valid = append(valid,
		"MODIFY COLUMN c REMOVE DEFAULT", "MODIFY COLUMN c REMOVE COMMENT", "MODIFY COLUMN c REMOVE CODEC", "MODIFY COLUMN c REMOVE TTL", "MODIFY COLUMN c REMOVE SETTINGS", "MODIFY COLUMN IF EXISTS c REMOVE MATERIALIZED",
		"MODIFY COLUMN c MODIFY SETTING max_compress_block_size = 1", "MODIFY COLUMN c MODIFY SETTING a = 1, b = 2", "MODIFY COLUMN c RESET SETTING a", "MODIFY COLUMN c RESET SETTING a, b", "MODIFY COLUMN key RESET SETTING a",
		"MODIFY COLUMN c REMOVE SETTINGS a, b", "ALTER COLUMN c TYPE UInt8", "MODIFY COLUMN c TYPE UInt8", "MODIFY COLUMN c DEFAULT 1 AFTER a", "MODIFY COLUMN c UInt8 FIRST", "MODIFY COLUMN c COMMENT 'x' AFTER b",
		"RENAME COLUMN n.a TO n.b", "RENAME COLUMN IF EXISTS key TO value", "COMMENT COLUMN IF EXISTS a 'c'", "COMMENT COLUMN key 'it''s'", "COMMENT COLUMN a ''", "MODIFY COMMENT ''", "MODIFY COMMENT 'a\\'b'",
		"DROP COLUMN n.a", "DROP COLUMN IF EXISTS key", "DROP INDEX IF EXISTS set", "DROP CONSTRAINT IF EXISTS c", "DROP PROJECTION IF EXISTS p", "DROP STATISTICS IF EXISTS a, b", "DROP STATISTICS ALL",
		"CLEAR STATISTICS IF EXISTS a", "CLEAR STATISTICS a, b", "MATERIALIZE STATISTICS IF EXISTS a", "MATERIALIZE STATISTICS ALL", "ADD STATISTICS a, b, c TYPE tdigest", "ADD STATISTICS a TYPE countmin, minmax, uniq",
		"ADD STATISTICS IF NOT EXISTS a TYPE tdigest", "MODIFY STATISTICS a, b TYPE tdigest, uniq", "ADD STATISTICS a", "MODIFY STATISTICS a",
		"MODIFY TTL ts + INTERVAL 1 DAY DELETE WHERE a = 1", "MODIFY TTL ts + INTERVAL 1 DAY TO VOLUME 'v', ts + INTERVAL 2 DAY DELETE WHERE b", "MODIFY TTL ts + INTERVAL 1 DAY RECOMPRESS CODEC(ZSTD(3))",
		"MODIFY TTL ts + INTERVAL 1 MONTH GROUP BY a SET b = max(b)", "MODIFY TTL ts, ts + 1, ts + 2", "MODIFY TTL ts WHERE a", "MODIFY TTL ts + INTERVAL 1 DAY TO DISK 'd' IF EXISTS",
		"MODIFY SETTINGS a = 1", "MODIFY SETTING a = 1, b = 'x', c = [1, 2]", "RESET SETTING a, b, c", "RESET SETTING key", "MODIFY ORDER BY ()", "MODIFY ORDER BY (a)", "MODIFY ORDER BY (a, b, c)", "MODIFY ORDER BY f(a)",
		"MODIFY ORDER BY tuple()", "MODIFY ORDER BY (a, f(b))", "MODIFY SAMPLE BY intHash32(a)", "MODIFY SAMPLE BY (a)", "REMOVE SAMPLE BY", "REMOVE TTL", "MODIFY QUERY SELECT 1", "MODIFY QUERY SELECT a FROM s UNION ALL SELECT b FROM u",
		"MODIFY QUERY WITH 1 AS x SELECT x", "MODIFY REFRESH EVERY 1 HOUR", "DELETE WHERE a IN (SELECT b FROM u)", "DELETE WHERE 1", "UPDATE a = 1 WHERE 1", "UPDATE key = value WHERE key > 0", "UPDATE a = b IN (1, 2) WHERE c",
		"UPDATE a = 1, b = 2, c = 3, d = 4 WHERE e", "UPDATE a = (SELECT 1) WHERE 1", "UPDATE a = if(b, 1, 2) WHERE c", "FREEZE", "FREEZE WITH NAME 'n'", "UNFREEZE WITH NAME 'n'",
		"ADD INDEX i a TYPE minmax GRANULARITY 1 FIRST", "ADD INDEX i a TYPE set AFTER set", "ADD INDEX i TYPE minmax", "ADD INDEX i TYPE minmax AFTER j", "ADD INDEX i (a, b) AFTER j", "MATERIALIZE INDEX i IN PARTITION ID 'p'",
		"ADD COLUMN c UInt8 SETTINGS (a = 1)", "ADD COLUMN n.x Array(UInt8)", "ADD COLUMN key UInt8 AFTER value", "ADD COLUMN c UInt8 DEFAULT 1 CODEC(LZ4) TTL ts COMMENT 'x' AFTER a",
	)
	// truncated / malformed commands: whatever of these Parse accepts has an absent name, expression or list
	degenerate = []string{
		"DROP STATISTICS", "ADD STATISTICS", "MODIFY STATISTICS", "CLEAR STATISTICS", "MATERIALIZE STATISTICS", "CLEAR STATISTICS IF EXISTS", "ADD STATISTICS IF NOT EXISTS", "MODIFY TTL",
		"ADD foo", "DROP foo", "MODIFY foo", "CLEAR foo", "MATERIALIZE foo", "REMOVE foo", "RESET foo", "MOVE foo", "RENAME foo", "COMMENT foo", "DETACH foo", "ATTACH foo", "REPLACE foo", "FETCH foo", "APPLY foo", "APPLY DELETED foo",
		"DROP COLUMN", "DROP COLUMN IF EXISTS", "RENAME COLUMN", "RENAME COLUMN a", "RENAME COLUMN a TO", "RENAME COLUMN TO b", "COMMENT COLUMN", "COMMENT COLUMN a", "COMMENT COLUMN 'x'", "MODIFY COMMENT", "CLEAR COLUMN", "CLEAR COLUMN IN PARTITION 1",
		"MATERIALIZE COLUMN", "MATERIALIZE COLUMN IN PARTITION 1", "ADD INDEX", "ADD INDEX i", "ADD INDEX AFTER j", "DROP INDEX", "CLEAR INDEX", "CLEAR INDEX IN PARTITION 1", "MATERIALIZE INDEX", "MATERIALIZE INDEX IN PARTITION 1",
		"ADD CONSTRAINT", "ADD CONSTRAINT c", "ADD CONSTRAINT CHECK a", "DROP CONSTRAINT", "ADD PROJECTION", "ADD PROJECTION p", "ADD PROJECTION p ()", "ADD PROJECTION p (SELECT)", "DROP PROJECTION", "MATERIALIZE PROJECTION", "CLEAR PROJECTION",
		"MODIFY ORDER BY", "MODIFY SAMPLE BY", "MODIFY QUERY", "RESET SETTING", "MODIFY SETTING", "DELETE", "UPDATE", "UPDATE a", "UPDATE a = 1", "UPDATE WHERE 1", "UPDATE a = 1 IN PARTITION", "DROP PARTITION", "DROP PART", "DETACH PARTITION",
		"ATTACH PARTITION", "ATTACH PART", "FREEZE PARTITION", "REPLACE PARTITION", "REPLACE PARTITION 1", "FETCH PARTITION", "MOVE PARTITION", "DROP DETACHED", "DROP DETACHED PARTITION", "APPLY PATCHES IN", "APPLY PATCHES IN PARTITION",
		"ADD COLUMN", "ADD COLUMN c", "ADD COLUMN IF NOT EXISTS", "MODIFY COLUMN", "MODIFY COLUMN c", "MODIFY COLUMN c REMOVE", "MODIFY COLUMN c MODIFY", "MODIFY COLUMN c MODIFY SETTING", "MODIFY COLUMN c RESET", "MODIFY COLUMN c RESET SETTING",
		"ADD COLUMN c UInt8 AFTER", "MODIFY COLUMN c UInt8 AFTER",
	}
	return valid, degenerate
}

// CREATE forms beyond CREATE TABLE
var ddlCreateForms = []string{
	"CREATE TABLE t (a UInt8) ENGINE = Memory", "CREATE TEMPORARY TABLE t (a UInt8)", "CREATE TABLE IF NOT EXISTS db.t ON CLUSTER c (a UInt8) ENGINE = Log", "CREATE OR REPLACE TABLE t (a UInt8) ENGINE = Memory", "REPLACE TABLE t (a UInt8) ENGINE = Memory",
	"CREATE TABLE t AS t2", "CREATE TABLE t AS db.t2", "CREATE TABLE t AS t2 ENGINE = Memory", "CREATE TABLE t ENGINE = Memory AS SELECT 1", "CREATE TABLE t (a UInt8) ENGINE = MergeTree ORDER BY a AS SELECT 1", "CREATE TABLE t CLONE AS t2",
	"CREATE TABLE t ENGINE = Memory AS SELECT 1 FORMAT JSON", "CREATE TABLE t AS numbers(10)", "CREATE TABLE t (a UInt8) AS remote('h', db.t)", "CREATE TABLE t (a UInt8) ENGINE = ReplicatedMergeTree('/p', 'r') ORDER BY a",
	"CREATE TABLE t (a UInt8) ENGINE = MergeTree ORDER BY tuple()", "CREATE TABLE t (a UInt8) ENGINE = MergeTree() ORDER BY ()", "CREATE TABLE t (a UInt8) ENGINE = Distributed(c, db, t, rand())", "CREATE TABLE t (a UInt8) ENGINE = Kafka SETTINGS kafka_broker_list = 'x'",
	"CREATE TABLE t (a UInt8) COMMENT 'x'", "CREATE TABLE t EMPTY AS SELECT 1", "CREATE TABLE t (a UInt8) ENGINE = Null FORMAT Null", "CREATE TABLE t UUID '00000000-0000-0000-0000-000000000000' (a UInt8) ENGINE = Memory",
	"CREATE TABLE t (a UInt8) ENGINE = MergeTree ORDER BY a SETTINGS s = 1 COMMENT 'c'", "CREATE TABLE t (a UInt8) ENGINE = MergeTree ORDER BY a COMMENT 'c' SETTINGS s = 1", "CREATE TABLE t (a UInt8) ENGINE = MergeTree ORDER BY a SETTINGS s = 1 COMMENT 'c' SETTINGS q = 2",
	"CREATE TABLE t (a UInt8) ENGINE = MergeTree ORDER BY a SETTINGS s = 1 SETTINGS q = 2", "CREATE TABLE t (a UInt8, PRIMARY KEY a) ENGINE = MergeTree", "CREATE TABLE t (PRIMARY KEY a)", "CREATE TABLE t (a UInt8 PRIMARY KEY, b UInt8 PRIMARY KEY) ENGINE = MergeTree",
	"CREATE TABLE t (INDEX i a TYPE minmax) ENGINE = MergeTree ORDER BY a", "CREATE TABLE t (CONSTRAINT c CHECK a) ENGINE = Memory", "CREATE TABLE t (PROJECTION p (SELECT a)) ENGINE = MergeTree ORDER BY a",
	"CREATE VIEW v AS SELECT 1", "CREATE VIEW IF NOT EXISTS v (a UInt8) AS SELECT 1", "CREATE OR REPLACE VIEW db.v AS SELECT a FROM t UNION ALL SELECT b FROM u", "CREATE VIEW v AS SELECT 1 FORMAT JSON", "CREATE VIEW v AS (SELECT 1)",
	"CREATE VIEW v (a UInt8 COMMENT 'c') AS SELECT 1 COMMENT 'v'", "CREATE VIEW v DEFINER = u SQL SECURITY DEFINER AS SELECT 1", "CREATE MATERIALIZED VIEW mv TO t AS SELECT a FROM s", "CREATE MATERIALIZED VIEW db.mv TO db.t AS SELECT a FROM s",
	"CREATE MATERIALIZED VIEW mv ENGINE = MergeTree ORDER BY a AS SELECT a FROM s", "CREATE MATERIALIZED VIEW mv ENGINE = MergeTree ORDER BY a POPULATE AS SELECT a FROM s", "CREATE MATERIALIZED VIEW mv TO t (a UInt8) AS SELECT a FROM s",
	"CREATE MATERIALIZED VIEW mv REFRESH EVERY 1 HOUR TO t AS SELECT 1", "CREATE MATERIALIZED VIEW mv REFRESH AFTER 1 DAY ENGINE = Memory AS SELECT 1", "CREATE MATERIALIZED VIEW mv REFRESH EVERY 1 HOUR APPEND TO t AS SELECT 1",
	"CREATE MATERIALIZED VIEW mv ENGINE = MergeTree PARTITION BY p ORDER BY (a, b) PRIMARY KEY a SAMPLE BY a TTL ts + INTERVAL 1 DAY SETTINGS s = 1 AS SELECT a FROM s", "CREATE MATERIALIZED VIEW mv (a UInt8) ENGINE = Memory AS SELECT 1 FORMAT TSV",
	"CREATE MATERIALIZED VIEW mv ENGINE = MergeTree ORDER BY a COMMENT 'c' AS SELECT 1", "CREATE MATERIALIZED VIEW mv TO t AS SELECT 1 COMMENT 'c'", "CREATE MATERIALIZED VIEW mv ENGINE = Memory EMPTY AS SELECT 1", "CREATE LIVE VIEW lv AS SELECT 1",
	"CREATE WINDOW VIEW wv TO t AS SELECT count() FROM s GROUP BY tumble(ts, INTERVAL 1 MINUTE)", "CREATE WINDOW VIEW wv INNER ENGINE = Memory ENGINE = Memory AS SELECT count() FROM s GROUP BY tumble(ts, INTERVAL 1 MINUTE)",
	"CREATE WINDOW VIEW wv INNER ENGINE = MergeTree ORDER BY a AS SELECT 1", "CREATE WINDOW VIEW wv INNER ENGINE = MergeTree() ORDER BY (a, b) ENGINE = Memory AS SELECT 1", "CREATE WINDOW VIEW wv INNER ENGINE = MergeTree ORDER BY f(a) WATERMARK = ASCENDING AS SELECT 1",
	"CREATE WINDOW VIEW wv ENGINE = Memory AS SELECT 1", "CREATE WINDOW VIEW wv INNER ENGINE = AggregatingMergeTree('x') TO t AS SELECT 1",
	"CREATE DATABASE db", "CREATE DATABASE IF NOT EXISTS db ENGINE = Atomic", "CREATE DATABASE db ON CLUSTER c ENGINE = Replicated('/p', 's', 'r') COMMENT 'c'", "CREATE DATABASE db ENGINE = MySQL('h', 'd', 'u', 'p') SETTINGS a = 1", "CREATE DATABASE db COMMENT 'x'",
	"CREATE DATABASE db ENGINE = Atomic SETTINGS a = 1 COMMENT 'x'",
	"CREATE DICTIONARY d (k UInt64, v String DEFAULT '') PRIMARY KEY k SOURCE(CLICKHOUSE(TABLE 't')) LAYOUT(FLAT()) LIFETIME(MIN 0 MAX 1000)", "CREATE DICTIONARY db.d (k UInt64, v String) PRIMARY KEY k SOURCE(HTTP(URL 'u' FORMAT 'TSV')) LAYOUT(HASHED(SHARDS 2)) LIFETIME(10) RANGE(MIN a MAX b)",
	"CREATE DICTIONARY d (k UInt64 EXPRESSION a + 1, v String HIERARCHICAL INJECTIVE IS_OBJECT_ID) PRIMARY KEY k, v SOURCE(NULL()) LAYOUT(COMPLEX_KEY_HASHED()) LIFETIME(0) SETTINGS(a = 1) COMMENT 'x'", "CREATE OR REPLACE DICTIONARY d (k UInt64) PRIMARY KEY k SOURCE(NULL()) LAYOUT(FLAT()) LIFETIME(0)",
	"REPLACE DICTIONARY d (k UInt64) PRIMARY KEY k SOURCE(NULL()) LAYOUT(FLAT()) LIFETIME(0)", "CREATE DICTIONARY d COMMENT 'only'",
	"CREATE FUNCTION f AS (x) -> x + 1", "CREATE FUNCTION f AS x -> x", "CREATE FUNCTION f ON CLUSTER c AS (x, y) -> x + y", "CREATE OR REPLACE FUNCTION f AS () -> 1",
	"CREATE USER u", "CREATE USER u IDENTIFIED BY 'p'", "CREATE USER u IDENTIFIED WITH sha256_password BY 'p'", "CREATE USER u NOT IDENTIFIED", "CREATE USER u IDENTIFIED BY 'p', BY 'q'", "ALTER USER u IDENTIFIED BY 'x'",
	"CREATE USER u IDENTIFIED WITH ssh_key BY KEY 'k1' TYPE 'ssh-rsa', KEY 'k2' TYPE 'ssh-ed25519'", "CREATE USER u IDENTIFIED WITH no_password", "CREATE USER u IDENTIFIED WITH ldap SERVER 's'", "CREATE USER u IDENTIFIED WITH plaintext_password BY 'it''s'",
	"CREATE USER u1, u2 IDENTIFIED BY 'p'", "CREATE USER u HOST ANY DEFAULT ROLE r SETTINGS a = 1", "ALTER USER u DEFAULT ROLE ALL",
}

var ddlCreateDegenerate = []string{
	"CREATE FUNCTION f", "CREATE FUNCTION f AS", "CREATE FUNCTION", "CREATE MATERIALIZED WINDOW VIEW v AS SELECT 1", "CREATE MATERIALIZED WINDOW VIEW v TO t AS SELECT 1", "CREATE MATERIALIZED WINDOW VIEW v INNER ENGINE = Memory ENGINE = Memory AS SELECT 1",
	"CREATE TABLE", "CREATE TABLE t", "CREATE TABLE t ()", "CREATE TABLE t (a)", "CREATE VIEW v", "CREATE MATERIALIZED VIEW mv", "CREATE MATERIALIZED VIEW mv TO t", "CREATE WINDOW VIEW wv", "CREATE DATABASE", "CREATE DICTIONARY", "CREATE DICTIONARY d",
	"CREATE USER", "CREATE TABLE t (a UInt8) ENGINE", "CREATE TABLE t (a UInt8) ENGINE =", "CREATE TABLE t (a UInt8) ORDER BY", "CREATE TABLE t (a UInt8) PRIMARY KEY", "CREATE TABLE t (a UInt8) TTL", "CREATE TABLE t (a UInt8) COMMENT",
	"CREATE MATERIALIZED TABLE t (a UInt8) ENGINE = Memory", "CREATE WINDOW TABLE t (a UInt8) ENGINE = Memory", "CREATE MATERIALIZED DATABASE db", "CREATE TABLE t (INDEX) ENGINE = Memory", "CREATE TABLE t (INDEX i) ENGINE = Memory", "CREATE TABLE t (PROJECTION p) ENGINE = Memory",
	"CREATE TABLE t (a UInt8, PRIMARY KEY) ENGINE = Memory", "CREATE TABLE t (CONSTRAINT c) ENGINE = Memory", "CREATE TABLE t (CONSTRAINT c UNIQUE (a)) ENGINE = Memory",
}

// one random CREATE TABLE over the storage clause grammar
func ddlRandomCreate(r *Rng, cols []string) string {
	var sb strings.Builder
	sb.WriteString(pick(r, []string{"CREATE TABLE ", "CREATE TABLE ", "CREATE TABLE IF NOT EXISTS ", "CREATE OR REPLACE TABLE ", "CREATE TEMPORARY TABLE ", "ATTACH TABLE ", "REPLACE TABLE "}))
	sb.WriteString(pick(r, []string{"t", "t", "db.t", "`a b`", "db.`t.x`"}))
	if r.Chance(1, 8) {
		sb.WriteString(" ON CLUSTER c")
	}
	if !r.Chance(1, 12) {
		n := 1 + r.Intn(4)
		var els []string
		for i := 0; i < n; i++ {
			els = append(els, strings.Replace(pick(r, cols), "c", fmt.Sprintf("c%d", i), 1))
		}
		for _, extra := range [][]string{ddlIndexDefs, ddlProjections, ddlConstraints, ddlTablePKs} {
			if r.Chance(1, 4) {
				for k := 1 + r.Intn(2); k > 0; k-- {
					els = append(els, pick(r, extra))
				}
			}
		}
		if r.Chance(1, 6) {
			r2 := els[1:]
			els = append(append([]string{}, r2...), els[0]) // a non-column element first
		}
		sb.WriteString(" (" + strings.Join(els, ", ") + ")")
	}
	opt := func(num, den int, xs ...string) {
		if r.Chance(num, den) {
			sb.WriteString(pick(r, xs))
		}
	}
	opt(9, 10, " ENGINE = MergeTree", " ENGINE = MergeTree()", " ENGINE = ReplacingMergeTree(ts)", " ENGINE = Memory", " ENGINE = ReplicatedMergeTree('/p', 'r')", " ENGINE = Null", " ENGINE = Log()")
	type clause struct{ forms []string }
	clauses := []clause{
		{[]string{" PARTITION BY p", " PARTITION BY toYYYYMM(ts)", " PARTITION BY (a, b)", " PARTITION BY tuple()"}},
		{[]string{" PRIMARY KEY a", " PRIMARY KEY (a, b)", " PRIMARY KEY ()", " PRIMARY KEY f(a)", " PRIMARY KEY (a)", " PRIMARY KEY tuple()"}},
		{[]string{" ORDER BY a", " ORDER BY (a, b)", " ORDER BY tuple()", " ORDER BY ()", " ORDER BY a DESC", " ORDER BY (a, b DESC)", " ORDER BY (a DESC)", " ORDER BY f(a)", " ORDER BY (a)", " ORDER BY a ASC", " ORDER BY (a ASC, b ASC)"}},
		{[]string{" SAMPLE BY a", " SAMPLE BY intHash32(a)"}},
		{[]string{" TTL ts + INTERVAL 1 MONTH", " TTL ts + INTERVAL 1 DAY DELETE WHERE a, ts + INTERVAL 2 DAY TO DISK 'd'", " TTL ts, ts + 1", " TTL ts + INTERVAL 1 DAY GROUP BY a SET b = max(b)", " TTL ts RECOMPRESS CODEC(LZ4)"}},
	}
	order := []int{0, 1, 2, 3, 4}
	if r.Chance(1, 3) { // clause order is free in the parser
		for i := len(order) - 1; i > 0; i-- {
			j := r.Intn(i + 1)
			order[i], order[j] = order[j], order[i]
		}
	}
	for _, ci := range order {
		if r.Chance(1, 3) {
			sb.WriteString(pick(r, clauses[ci].forms))
		}
	}
	switch r.Intn(8) {
	case 0:
		sb.WriteString(" SETTINGS s = 1")
	case 1:
		sb.WriteString(" COMMENT 'c'")
	case 2:
		sb.WriteString(" SETTINGS s = 1 COMMENT 'c'")
	case 3:
		sb.WriteString(" COMMENT 'c' SETTINGS s = 1")
	case 4:
		sb.WriteString(" SETTINGS s = 1 COMMENT 'c' SETTINGS q = 2")
	case 5:
		sb.WriteString(" SETTINGS s = 1 SETTINGS q = 2")
	}
	opt(1, 8, " AS SELECT a FROM s", " AS SELECT 1 UNION ALL SELECT 2", " AS numbers(3)", " AS t2", " EMPTY AS SELECT 1")
	opt(1, 12, " FORMAT Null", " FORMAT TSV")
	return sb.String()
}

// one random view over the view grammar
func ddlRandomView(r *Rng) string {
	var sb strings.Builder
	kind := r.Intn(3)
	sb.WriteString([]string{"CREATE VIEW ", "CREATE MATERIALIZED VIEW ", "CREATE WINDOW VIEW "}[kind])
	if r.Chance(1, 4) {
		sb.WriteString("IF NOT EXISTS ")
	}
	sb.WriteString(pick(r, []string{"v", "db.v"}))
	opt := func(num, den int, xs ...string) {
		if r.Chance(num, den) {
			sb.WriteString(pick(r, xs))
		}
	}
	if kind == 1 {
		opt(1, 4, " REFRESH EVERY 1 HOUR", " REFRESH AFTER 2 DAY", " REFRESH EVERY 1 HOUR APPEND")
	}
	opt(1, 3, " TO t", " TO db.t")
	opt(1, 4, " (a UInt8)", " (a UInt8, b String COMMENT 'c')")
	if kind == 2 {
		opt(1, 2, " INNER ENGINE = Memory", " INNER ENGINE = MergeTree ORDER BY a", " INNER ENGINE = MergeTree() ORDER BY (a, b)", " INNER ENGINE = AggregatingMergeTree ORDER BY f(a)")
	}
	opt(1, 2, " ENGINE = MergeTree", " ENGINE = Memory", " ENGINE = MergeTree()", " ENGINE = ReplicatedMergeTree('/p', 'r')")
	opt(1, 4, " PARTITION BY p", " PARTITION BY toYYYYMM(ts)")
	opt(1, 3, " ORDER BY a", " ORDER BY (a, b)", " ORDER BY tuple()", " ORDER BY a DESC")
	opt(1, 5, " PRIMARY KEY a", " PRIMARY KEY (a, b)")
	opt(1, 6, " SAMPLE BY a")
	opt(1, 5, " TTL ts + INTERVAL 1 DAY", " TTL ts + INTERVAL 1 DAY DELETE WHERE a")
	opt(1, 5, " SETTINGS s = 1")
	if kind == 1 {
		opt(1, 5, " POPULATE", " EMPTY")
	}
	opt(1, 8, " COMMENT 'c'")
	sb.WriteString(pick(r, []string{" AS SELECT a FROM s", " AS SELECT 1", " AS SELECT a FROM s UNION ALL SELECT b FROM u", " AS (SELECT 1)", " AS SELECT count() FROM s GROUP BY tumble(ts, INTERVAL 1 MINUTE)"}))
	opt(1, 10, " COMMENT 'c'", " FORMAT TSV")
	return sb.String()
}

// ---------------------------------------------------------------- ASTs built directly

// The theorems quantify over ALL guard combinations, so the correspondence is also run on ASTs Parse never builds: every
// command type (and strings that are none) with every field independently present or absent, and CreateQuery values
// with every flag combination. Only the model is judged here (a count that differs from the children on such an AST
// is what the theorems' hypotheses WfAlter / WfCreate are about).
type ddlAstGen struct{ r *Rng }

func (g *ddlAstGen) on(num, den int) bool { return g.r.Chance(num, den) }

func (g *ddlAstGen) expr() ast.Expression {
	switch g.r.Intn(7) {
	case 0:
		return &ast.Identifier{Parts: []string{pick(g.r, []string{"ALL", "all", "All"})}}
	case 1:
		return &ast.Literal{Type: ast.LiteralString, Value: "p"}
	case 2:
		return &ast.Literal{Type: ast.LiteralInteger, Value: int64(7)}
	case 3:
		return &ast.FunctionCall{Name: "f", Arguments: []ast.Expression{&ast.Identifier{Parts: []string{"a"}}}}
	case 4:
		return &ast.Literal{Type: ast.LiteralTuple, Value: []ast.Expression{&ast.Identifier{Parts: []string{"a"}}, &ast.Literal{Type: ast.LiteralInteger, Value: int64(1)}}}
	case 5:
		return &ast.Literal{Type: ast.LiteralTuple, Value: []ast.Expression{}}
	default:
		return &ast.Identifier{Parts: []string{pick(g.r, []string{"a", "b", "n.x"})}}
	}
}

func (g *ddlAstGen) optExpr(num, den int) ast.Expression {
	if g.on(num, den) {
		return g.expr()
	}
	return nil
}

func (g *ddlAstGen) exprs(max int) []ast.Expression {
	n := g.r.Intn(max + 1)
	var es []ast.Expression
	for i := 0; i < n; i++ {
		es = append(es, g.expr())
	}
	return es
}

func (g *ddlAstGen) str(num, den int, v string) string {
	if g.on(num, den) {
		return v
	}
	return ""
}

func (g *ddlAstGen) settings(max int) []*ast.SettingExpr {
	n := g.r.Intn(max + 1)
	var ss []*ast.SettingExpr
	for i := 0; i < n; i++ {
		ss = append(ss, &ast.SettingExpr{Name: "s" + itoa(i), Value: &ast.Literal{Type: ast.LiteralInteger, Value: int64(i)}})
	}
	return ss
}

func (g *ddlAstGen) funcs(max int) []*ast.FunctionCall {
	n := g.r.Intn(max + 1)
	var fs []*ast.FunctionCall
	for i := 0; i < n; i++ {
		f := &ast.FunctionCall{Name: pick(g.r, []string{"tdigest", "uniq", "LZ4", "ZSTD"})}
		if g.on(1, 3) {
			f.Arguments = []ast.Expression{&ast.Literal{Type: ast.LiteralInteger, Value: int64(1)}}
		}
		fs = append(fs, f)
	}
	return fs
}

func (g *ddlAstGen) names(max int) []string {
	n := g.r.Intn(max + 1)
	var xs []string
	for i := 0; i < n; i++ {
		xs = append(xs, "n"+itoa(i))
	}
	return xs
}

func (g *ddlAstGen) column() *ast.ColumnDeclaration {
	c := &ast.ColumnDeclaration{Name: pick(g.r, []string{"c", "n.x", "it's"}), PrimaryKey: g.on(1, 6)}
	if g.on(2, 3) {
		c.Type = &ast.DataType{Name: "UInt8"}
		if g.on(1, 4) {
			c.Type = &ast.DataType{Name: "Nullable", Parameters: []ast.Expression{&ast.DataType{Name: "String"}}}
		}
	}
	c.Statistics = g.funcs(2)
	c.DefaultKind = pick(g.r, []string{"", "", "DEFAULT", "MATERIALIZED", "ALIAS", "EPHEMERAL", "EPHEMERAL", "ephemeral"})
	c.Default = g.optExpr(1, 2)
	c.TTL = g.optExpr(1, 3)
	if g.on(1, 3) {
		c.Codec = &ast.CodecExpr{Codecs: g.funcs(2)}
	}
	if g.on(1, 3) {
		c.Settings = g.settings(2)
	}
	c.Comment = g.str(1, 3, "c'x")
	if g.on(1, 5) {
		b := g.on(1, 2)
		c.Nullable = &b
	}
	return c
}

func (g *ddlAstGen) index() *ast.IndexDefinition {
	i := &ast.IndexDefinition{Name: "i", Expression: g.optExpr(2, 3), Granularity: g.optExpr(1, 3)}
	if g.on(2, 3) {
		i.Type = &ast.FunctionCall{Name: "minmax"}
		if g.on(1, 3) {
			i.Type.Arguments = g.exprs(2)
		}
	}
	return i
}

func (g *ddlAstGen) projection() *ast.Projection {
	p := &ast.Projection{Name: "p"}
	if g.on(5, 6) {
		p.Select = &ast.ProjectionSelectQuery{With: g.exprs(2), Columns: g.exprs(3), GroupBy: g.exprs(2), OrderBy: g.exprs(3)}
		if g.on(1, 2) {
			p.Select.With = nil
		}
	}
	return p
}

func (g *ddlAstGen) ttl() *ast.TTLClause {
	t := &ast.TTLClause{Expression: g.optExpr(1, 2)}
	if g.on(1, 2) {
		for n := 1 + g.r.Intn(3); n > 0; n-- {
			t.Elements = append(t.Elements, &ast.TTLElement{Expr: g.expr(), Where: g.optExpr(1, 3)})
		}
	}
	if t.Expression != nil && g.on(1, 3) {
		t.Expressions = g.exprs(2)
	}
	return t
}

func (g *ddlAstGen) selectStmt() ast.Statement {
	return &ast.SelectWithUnionQuery{Selects: []ast.Statement{&ast.SelectQuery{Columns: []ast.Expression{&ast.Literal{Type: ast.LiteralInteger, Value: int64(1)}}}}}
}

var ddlAllAlterTypes = []ast.AlterCommandType{
	ast.AlterAddColumn, ast.AlterDropColumn, ast.AlterModifyColumn, ast.AlterRenameColumn, ast.AlterClearColumn, ast.AlterMaterializeColumn, ast.AlterCommentColumn,
	ast.AlterAddIndex, ast.AlterDropIndex, ast.AlterClearIndex, ast.AlterMaterializeIndex, ast.AlterAddConstraint, ast.AlterDropConstraint, ast.AlterModifyTTL,
	ast.AlterMaterializeTTL, ast.AlterRemoveTTL, ast.AlterModifySetting, ast.AlterResetSetting, ast.AlterDropPartition, ast.AlterDropDetachedPartition, ast.AlterDetachPartition,
	ast.AlterAttachPartition, ast.AlterReplacePartition, ast.AlterFetchPartition, ast.AlterMovePartition, ast.AlterFreezePartition, ast.AlterFreeze, ast.AlterApplyPatches,
	ast.AlterDeleteWhere, ast.AlterUpdate, ast.AlterAddProjection, ast.AlterDropProjection, ast.AlterMaterializeProjection, ast.AlterClearProjection, ast.AlterAddStatistics,
	ast.AlterModifyStatistics, ast.AlterDropStatistics, ast.AlterClearStatistics, ast.AlterMaterializeStatistics, ast.AlterModifyComment, ast.AlterModifyOrderBy,
	ast.AlterModifySampleBy, ast.AlterModifyQuery, ast.AlterRemoveSampleBy, ast.AlterApplyDeletedMask,
	"", "SOMETHING_ELSE", "add_column", "FREEZE_ALL", "DELETE",
}

func (g *ddlAstGen) alterCommand(t ast.AlterCommandType) *ast.AlterCommand {
	c := &ast.AlterCommand{Type: t}
	if g.on(1, 2) {
		c.Column = g.column()
	}
	c.ColumnName, c.AfterColumn, c.NewName = g.str(1, 2, "a"), g.str(1, 2, "b"), g.str(1, 2, "n")
	c.Index, c.AfterIndex = g.str(1, 2, "i"), g.str(1, 2, "j")
	if g.on(1, 2) {
		c.IndexDef = g.index()
	}
	if g.on(1, 2) {
		c.Constraint = &ast.Constraint{Name: "c", Expression: g.optExpr(2, 3)}
	}
	c.ConstraintName = g.str(1, 2, "c")
	c.Partition, c.PartitionIsID, c.IsPart = g.optExpr(1, 2), g.on(1, 3), g.on(1, 3)
	c.FromTable = g.str(1, 3, "t2")
	if g.on(1, 2) {
		c.TTL = g.ttl()
	}
	if g.on(1, 3) {
		c.Settings = g.settings(2)
	}
	c.Where = g.optExpr(1, 2)
	for n := g.r.Intn(3); n > 0 && g.on(1, 2); n-- {
		c.Assignments = append(c.Assignments, &ast.Assignment{Column: "a", Value: g.expr()})
	}
	if g.on(1, 2) {
		c.Projection = g.projection()
	}
	c.ProjectionName = g.str(1, 2, "p")
	if g.on(1, 2) {
		c.StatisticsColumns = g.names(2)
	}
	if g.on(1, 2) {
		c.StatisticsTypes = g.funcs(2)
	}
	c.Comment = g.str(1, 2, "it's")
	if g.on(1, 2) {
		c.OrderByExpr = g.exprs(3)
	}
	c.SampleByExpr = g.optExpr(1, 2)
	if g.on(1, 3) {
		c.ResetSettings = g.names(2)
	}
	if g.on(1, 2) {
		c.Query = g.selectStmt()
	}
	return c
}

func (g *ddlAstGen) engine() *ast.EngineClause {
	e := &ast.EngineClause{Name: "MergeTree", HasParentheses: g.on(1, 2)}
	if e.HasParentheses && g.on(1, 2) {
		e.Parameters = g.exprs(2)
	}
	return e
}

func (g *ddlAstGen) createQuery() *ast.CreateQuery {
	n := &ast.CreateQuery{}
	switch g.r.Intn(12) {
	case 0:
		n.CreateFunction, n.FunctionName, n.FunctionBody = true, "f", g.optExpr(2, 3)
	case 1:
		n.CreateUser, n.AlterUser = g.on(1, 2), g.on(1, 2)
		if !n.CreateUser && !n.AlterUser {
			n.CreateUser = true
		}
		n.HasAuthenticationData = g.on(2, 3)
		if g.on(1, 2) {
			n.AuthenticationValues = g.names(3)
		}
		if g.on(1, 2) {
			n.SSHKeyCount = g.r.Intn(3)
		}
	case 2:
		n.CreateDictionary = true
		if g.on(1, 2) {
			n.DictionaryAttrs = []*ast.DictionaryAttributeDeclaration{{Name: "k", Type: &ast.DataType{Name: "UInt64"}}}
		}
		if g.on(2, 3) {
			n.DictionaryDef = &ast.DictionaryDefinition{PrimaryKey: g.exprs(2)}
		}
	case 3:
		n.CreateDatabase = true
	}
	n.Database, n.Table, n.View = g.str(1, 2, "db"), g.str(2, 3, "t"), g.str(1, 3, "v")
	n.Materialized, n.WindowView, n.HasRefresh = g.on(1, 3), g.on(1, 4), g.on(1, 6)
	n.To = g.str(1, 3, "dst")
	if g.on(1, 3) {
		n.InnerEngine = g.engine()
	}
	for k := g.r.Intn(4); k > 0 && g.on(3, 4); k-- {
		n.Columns = append(n.Columns, g.column())
	}
	for k := g.r.Intn(3); k > 0 && g.on(1, 3); k-- {
		n.Indexes = append(n.Indexes, g.index())
	}
	for k := g.r.Intn(3); k > 0 && g.on(1, 3); k-- {
		n.Projections = append(n.Projections, g.projection())
	}
	for k := g.r.Intn(3); k > 0 && g.on(1, 3); k-- {
		n.Constraints = append(n.Constraints, &ast.Constraint{Name: "c", Expression: g.expr()})
	}
	if g.on(1, 4) {
		n.ColumnsPrimaryKey = g.exprs(3)
	}
	n.HasEmptyColumnsPrimaryKey = g.on(1, 8)
	if g.on(1, 2) {
		n.Engine = g.engine()
	}
	if g.on(1, 2) {
		n.OrderBy = g.exprs(3)
	}
	n.OrderByHasModifiers = g.on(1, 4)
	n.PartitionBy = g.optExpr(1, 3)
	if g.on(1, 3) {
		n.PrimaryKey = g.exprs(3)
	}
	n.SampleBy = g.optExpr(1, 4)
	if g.on(1, 4) {
		n.TTL = g.ttl()
		if n.TTL.Expression == nil && len(n.TTL.Elements) == 0 {
			n.TTL.Expression = g.expr() // the printer dereferences one of the two
		}
	}
	if g.on(1, 3) {
		n.Settings = g.settings(2)
	}
	if g.on(1, 6) {
		n.QuerySettings = g.settings(2)
	}
	n.SettingsBeforeComment = g.on(1, 2)
	n.Comment = g.str(1, 3, "c")
	if g.on(1, 2) {
		n.AsSelect = g.selectStmt()
	}
	if g.on(1, 8) {
		n.AsTableFunction = &ast.FunctionCall{Name: "numbers", Arguments: []ast.Expression{&ast.Literal{Type: ast.LiteralInteger, Value: int64(3)}}}
	}
	n.Format = g.str(1, 8, "TSV")
	return n
}

func c04DDLAstCase(w *W, idx int, stmt ast.Statement, desc string) {
	js := safeMarshal(stmt)
	shown := "AST " + trunc(js.Out, 1500)
	in := []byte(shown)
	w.Begin(idx, in, desc)
	w.Count("ddl:cases")
	w.Count("ddl:ast-cases")
	e := safeExplain(stmt)
	if e.Panicked {
		w.stats.Evaluations++
		w.Count("ddl:ast-explain-panic")
		return
	}
	c04DDLCompare(w, shown, stmt, e.Out, true)
	w.Eval(in, true)
}

func c04DDLCorrespondence(w *W) {
	run := func(text, desc string) {
		idx, mine := w.Case()
		if mine {
			c04DDLCase(w, idx, text, desc)
		}
	}
	valid, degenerate := ddlAlterCommands()

	// (1) every ALTER command alone: plain, with database / ON CLUSTER / SETTINGS / FORMAT, parenthesised, below EXPLAIN
	for i, c := range valid {
		run("ALTER TABLE t "+c, "ddl-alter:"+itoa(i))
		switch i % 4 {
		case 0:
			run("ALTER TABLE db.t ON CLUSTER c "+c+" SETTINGS mutations_sync = 1", "ddl-alter-cluster:"+itoa(i))
		case 1:
			run("ALTER TABLE t ("+c+")", "ddl-alter-paren:"+itoa(i))
		case 2:
			run("EXPLAIN AST ALTER TABLE db.t "+c, "ddl-alter-explain:"+itoa(i))
		default:
			run("ALTER TEMPORARY TABLE t "+c+" FORMAT Null", "ddl-alter-format:"+itoa(i))
		}
	}
	for i, c := range degenerate {
		run("ALTER TABLE t "+c, "ddl-degenerate:alter:"+itoa(i))
		run("ALTER TABLE t "+c+", DROP COLUMN z", "ddl-degenerate:alter-then:"+itoa(i))
		run("ALTER TABLE t DROP COLUMN z, "+c, "ddl-degenerate:alter-after:"+itoa(i))
	}
	// (2) command lists: every ordered pair of the base list (sampled in the quick tier), random lists of the extended one
	for i, a := range alterCommands {
		for j, b := range alterCommands {
			if !w.Thorough() && (i*7+j)%5 != 0 {
				continue
			}
			run("ALTER TABLE t "+a+", "+b, "ddl-alter-pair:"+itoa(i)+","+itoa(j))
		}
	}
	// (lists are built from the commands Parse accepts alone: one rejected member would reject the whole list)
	var accepted []string
	for _, c := range valid {
		in := []byte("ALTER TABLE t " + c)
		if o := safeParse(in, parseBudget(in)); !o.Panicked && !o.Budget && o.Err == nil {
			accepted = append(accepted, c)
		}
	}
	if len(accepted) == 0 {
		fatalf("C04D: Parse accepts none of the ALTER commands")
	}
	nLists := w.pickN(6000, 120000)
	for k := 0; k < nLists; k++ {
		idx, mine := w.Case()
		if !mine {
			continue
		}
		r := NewRng(w.Seed, uint64(idx), 61)
		n := 2 + r.Intn(4)
		xs := make([]string, n)
		paren := r.Chance(1, 5)
		for i := range xs {
			xs[i] = pick(r, accepted)
			if paren {
				xs[i] = "(" + xs[i] + ")"
			}
		}
		s := "ALTER TABLE " + pick(r, []string{"t", "db.t"}) + " " + strings.Join(xs, ", ")
		if r.Chance(1, 6) {
			s += " SETTINGS mutations_sync = 2"
		}
		c04DDLCase(w, idx, s, "ddl-alter-list")
	}

	// (3) column grammar: every combination, in CREATE TABLE (three columns per table) and in ADD / MODIFY COLUMN
	cols := ddlColumnGrammar()
	for i := 0; i+2 < len(cols); i += 3 {
		a, b, c := cols[i], strings.Replace(cols[i+1], "c", "d", 1), strings.Replace(cols[i+2], "c", "e", 1)
		run("CREATE TABLE t ("+a+", "+b+", "+c+") ENGINE = MergeTree ORDER BY tuple()", "ddl-create-columns:"+itoa(i))
	}
	for i, c := range cols {
		if !w.Thorough() && i%3 != int(w.Seed%3) {
			continue
		}
		pre := []string{"ADD COLUMN ", "MODIFY COLUMN ", "ADD COLUMN IF NOT EXISTS ", "MODIFY COLUMN IF EXISTS "}[i%4]
		post := []string{"", " AFTER a", " FIRST"}[(i/4)%3]
		run("ALTER TABLE t "+pre+c+post, "ddl-alter-column:"+itoa(i))
	}
	for i, c := range createColumnVariants {
		run("CREATE TABLE t ("+c+") ENGINE = Memory", "ddl-create-variant:"+itoa(i))
		for j, e := range ddlIndexDefs {
			run("CREATE TABLE t ("+c+", "+e+") ENGINE = MergeTree ORDER BY tuple()", "ddl-create-index:"+itoa(i)+","+itoa(j))
		}
	}
	for i, e := range append(append(append([]string{}, ddlProjections...), ddlConstraints...), ddlTablePKs...) {
		run("CREATE TABLE t (a UInt8, b UInt8, "+e+") ENGINE = MergeTree ORDER BY a", "ddl-create-element:"+itoa(i))
		run("CREATE TABLE t ("+e+", a UInt8) ENGINE = MergeTree ORDER BY a", "ddl-create-element-first:"+itoa(i))
		run("CREATE TABLE t ("+e+") ENGINE = MergeTree ORDER BY a", "ddl-create-element-only:"+itoa(i))
	}

	// (4) CREATE TABLE option subsets of p_c04.go × the storage clause grammar, views, other CREATE forms
	for mask := 0; mask < 1<<len(createOptions); mask++ {
		var sb strings.Builder
		sb.WriteString("CREATE TABLE t (id UInt64, ts DateTime) ENGINE = MergeTree")
		for b, o := range createOptions {
			if mask&(1<<b) != 0 {
				sb.WriteString(o.text)
			}
		}
		run(sb.String(), fmt.Sprintf("ddl-create-options:%02x", mask))
		run("EXPLAIN AST "+sb.String(), fmt.Sprintf("ddl-create-options-explain:%02x", mask))
	}
	for i, s := range ddlCreateForms {
		run(s, "ddl-create-form:"+itoa(i))
		run("EXPLAIN AST "+s, "ddl-create-form-explain:"+itoa(i))
	}
	for i, s := range ddlCreateDegenerate {
		run(s, "ddl-degenerate:create:"+itoa(i))
	}
	nCreate := w.pickN(12000, 200000)
	sample := make([]string, 0, 64)
	for i := 0; i < len(cols); i += len(cols)/61 + 1 {
		sample = append(sample, cols[i])
	}
	sample = append(sample, "c UInt8", "c String", "c UInt8 PRIMARY KEY", "c DateTime DEFAULT now()")
	for k := 0; k < nCreate; k++ {
		idx, mine := w.Case()
		if !mine {
			continue
		}
		r := NewRng(w.Seed, uint64(idx), 62)
		if r.Chance(1, 3) {
			c04DDLCase(w, idx, ddlRandomView(r), "ddl-create-view")
		} else {
			c04DDLCase(w, idx, ddlRandomCreate(r, sample), "ddl-create-table")
		}
	}
	// (5) the grammar's own generators
	nGen := w.pickN(4000, 60000)
	for k := 0; k < nGen; k++ {
		idx, mine := w.Case()
		if !mine {
			continue
		}
		r := NewRng(w.Seed, uint64(idx), 63)
		g := &Gen{r: r}
		switch r.Intn(3) {
		case 0:
			c04DDLCase(w, idx, g.alter(), "ddl-gen-alter")
		case 1:
			c04DDLCase(w, idx, g.createTable(), "ddl-gen-create")
		default:
			c04DDLCase(w, idx, g.createView(), "ddl-gen-view")
		}
	}

	// (6) every ALTER / CREATE statement of the corpus (also the ones the golden suite skips: the model mirrors the code
	// on whatever Parse accepts)
	all, _ := loadCorpus()
	for _, s := range all {
		u := strings.ToUpper(strings.TrimLeft(s.Text, " \t\r\n("))
		if !(strings.HasPrefix(u, "ALTER") || strings.HasPrefix(u, "CREATE") || strings.HasPrefix(u, "REPLACE") || strings.HasPrefix(u, "ATTACH") || strings.HasPrefix(u, "EXPLAIN")) || len(s.Text) > 20000 {
			continue
		}
		if s.Enabled {
			run(s.Text, "ddl-corpus:"+s.Test+"#"+itoa(s.Index))
		} else {
			run(s.Text, "ddl-corpus-disabled:"+s.Test+"#"+itoa(s.Index))
		}
	}

	// (7) ASTs built directly: every command type × random presence of every field; CreateQuery values over all flags
	nAst := w.pickN(40000, 600000)
	for k := 0; k < nAst; k++ {
		idx, mine := w.Case()
		if !mine {
			continue
		}
		r := NewRng(w.Seed, uint64(idx), 64)
		g := &ddlAstGen{r: r}
		if k%3 == 2 {
			c04DDLAstCase(w, idx, g.createQuery(), "ddl-ast-create")
			continue
		}
		q := &ast.AlterQuery{Table: "t", Database: g.str(1, 3, "db")}
		q.Commands = append(q.Commands, g.alterCommand(ddlAllAlterTypes[k%len(ddlAllAlterTypes)]))
		for g.on(1, 3) {
			q.Commands = append(q.Commands, g.alterCommand(pick(r, ddlAllAlterTypes)))
		}
		c04DDLAstCase(w, idx, q, "ddl-ast-alter")
	}
}
