package main

import (
	"fmt"
	"strings"
)

// The input spaces shared by C01, C02, C03 (and reused by others): corpus statements, exhaustive short
// token sequences, token/byte/structure mutants of corpus and grammar statements, nesting bombs.

var smallAlphabet = []string{"SELECT", "1", "a", "(", ")", ",", "FROM", "AS", "INTERSECT", "EXCEPT", "UNION", "ALL", "*", "REPLACE", "-", "NOT", ".", "IN",
	"[", "]", "GROUP", "BY", "GROUPING", "SETS", "WITH", "CASE", "WHEN", "END", "CAST", "::", "'s'", ";", "=", "AND", "BETWEEN", "INTERVAL", "TRIM", "ORDER", "LIMIT", "->",
	// number tokens of every lexical form (a NUMBER that starts with a dot directly after a name is a tuple access)
	".1e5", ".5", ".99999999999999999999", "1e5", "0x1F", "1.", "1e+", "{p:UInt8}",
	// here-documents, with ASCII and multi-byte tags, closed and not
	"$é$$é$", "$дата$x$дата$", "$t$ x $t$", "$$x$$", "$a$",
	// a dot, digits and an exponent letter with nothing behind it (the look-ahead window ends there), with 31 digits, and friends
	".1e", ".1E", "1e", ".1234567890123456789012345678901e5", "0x", "0b", "b'111111111'", "x'4'", "respect", "ignore", "nulls"}

var stmtPrefixes = []string{"", "SELECT", "SELECT 1", "SELECT a FROM t", "SELECT * ", "SELECT 1 INTERSECT SELECT 2", "CREATE TABLE t", "ALTER TABLE t", "INSERT INTO t", "WITH",
	"SELECT f(", "SELECT substring(", "CREATE DICTIONARY d (k UInt64) PRIMARY KEY k", "SELECT 1 GROUP BY", "EXPLAIN", "SHOW", "SYSTEM", "GRANT", "RENAME", "EXCHANGE",
	"SELECT position(", "SELECT CASE", "SELECT CAST(", "SELECT [", "CREATE VIEW v AS", "SET", "DROP", "SELECT x IN (", "SELECT * FROM t JOIN", "SELECT a FROM t ORDER BY",
	// rare statements and clause positions (each has its own loop / continuation code)
	"CREATE TABLE t (a Int8) ENGINE = MergeTree ORDER BY (a) *", "CREATE TABLE t (a Int8) ENGINE = MergeTree ORDER BY (a + b) * b", "CREATE TABLE t (a Int8) ENGINE = MergeTree PARTITION BY", "CREATE TABLE t (a Int8",
	"ATTACH TABLE t", "ATTACH TABLE t UUID 'u'", "ATTACH TABLE t (a Int8) ENGINE = M ORDER BY n", "ALTER TABLE t MODIFY ORDER BY (a)", "ALTER TABLE t UPDATE a = 1", "ALTER TABLE t ADD INDEX i", "SELECT 1 FROM t SAMPLE",
	"KILL QUERY WHERE", "KILL MUTATION", "SYSTEM RELOAD", "CREATE USER u", "GRANT SELECT ON", "REVOKE", "BACKUP TABLE t TO", "OPTIMIZE TABLE t", "DELETE FROM t WHERE", "UPDATE t SET", "CREATE FUNCTION f AS", "CREATE INDEX i ON t",
	"CREATE DICTIONARY d (k UInt8) PRIMARY KEY k SOURCE(", "CREATE DICTIONARY d (k UInt8) PRIMARY KEY k LAYOUT(", "SHOW CREATE", "DESCRIBE", "EXISTS", "CHECK TABLE t", "WATCH v", "USE", "SET a =", "TRUNCATE", "DETACH", "UNDROP TABLE t",
	"SELECT 1 WINDOW w AS (", "SELECT sum(x) OVER (", "SELECT 1 FROM t ARRAY JOIN", "SELECT 1 LIMIT 1 BY", "SELECT 1 ORDER BY a WITH FILL", "SELECT 1 SETTINGS", "SELECT 1 FORMAT", "INSERT INTO t VALUES", "INSERT INTO FUNCTION f(",
	"CREATE MATERIALIZED VIEW v TO t AS", "CREATE ROW POLICY p ON t", "CREATE QUOTA q", "CREATE ROLE r", "ALTER USER u", "MOVE", "PARALLEL WITH", "SELECT 1 PARALLEL WITH"}

type fuzzCase struct {
	Idx   int
	Input []byte
	Desc  string
	Bomb  bool // nesting possibly deeper than 1000 levels / adversarial length: outside C03's depth bound
}

// fuzzSpace enumerates the shared input space; f is called for this shard's cases only.
func fuzzSpace(w *W, f func(c fuzzCase)) {
	stmts, _ := loadCorpus()
	run := func(input string, desc string, bomb bool) {
		idx, mine := w.Case()
		if !mine {
			return
		}
		f(fuzzCase{Idx: idx, Input: []byte(input), Desc: desc, Bomb: bomb})
	}

	// (1) regression corpus of minimised past failures runs first
	for i, s := range regressionInputs {
		run(s, fmt.Sprintf("regress#%d", i), false)
	}

	// (1b) the hand-written statement forms of the EXPLAIN-shape checks (every CREATE form, every ALTER command): whole, and cut after
	// every word — rarely used clauses and flags (IS_OBJECT_ID, INNER ENGINE, EMPTY AS, …) that neither corpus halves nor the grammar
	// generator reach reliably
	{
		forms := append([]string{}, ddlCreateForms...)
		forms = append(forms, ddlCreateDegenerate...)
		va, de := ddlAlterCommands()
		for _, c := range append(va, de...) {
			forms = append(forms, "ALTER TABLE t "+c)
		}
		for i, s := range forms {
			run(s, fmt.Sprintf("forms#%d", i), false)
			words := strings.Fields(s)
			for k := 2; k < len(words); k++ {
				run(strings.Join(words[:k], " "), fmt.Sprintf("forms#%d:cut%d", i, k), false)
			}
		}
	}

	// (2) every corpus statement as is
	for i, s := range stmts {
		if !w.Thorough() && i%2 == 1 {
			continue
		}
		run(s.Text, "corpus:"+s.Test+"#"+itoa(s.Index), false)
	}

	// (3) exhaustive short token sequences under statement prefixes
	maxLen := w.pickN(2, 3)
	alpha := smallAlphabet
	for pi, pre := range stmtPrefixes {
		var rec func(cur []string)
		rec = func(cur []string) {
			if len(cur) > 0 || pi == 0 {
				run(strings.TrimSpace(pre+" "+strings.Join(cur, " ")), fmt.Sprintf("exh:p%d:%d", pi, len(cur)), false)
			}
			if len(cur) == maxLen {
				return
			}
			for _, a := range alpha {
				rec(append(cur, a))
			}
		}
		rec(nil)
	}

	// (4) token mutants of corpus statements and grammar statements
	nMut := w.pickN(120000, 3000000)
	for k := 0; k < nMut; k++ {
		idx, mine := w.Case()
		if !mine {
			continue
		}
		r := NewRng(w.Seed, uint64(idx), 4)
		var base string
		if r.Chance(3, 4) {
			base = stmts[r.Intn(len(stmts))].Text
		} else {
			g := &Gen{r: r}
			base = g.statement(3)
		}
		if len(base) > 3000 {
			base = base[:3000]
		}
		var input string
		if r.Chance(4, 5) {
			ts, ok := spanTexts(base)
			if !ok || len(ts) == 0 {
				input = string(mutateBytes(r, []byte(base)))
			} else {
				donor, _ := spanTexts(stmts[r.Intn(len(stmts))].Text)
				input = joinTokens(mutateTokens(r, ts, donor))
			}
		} else {
			input = string(mutateBytes(r, []byte(base)))
		}
		f(fuzzCase{Idx: idx, Input: []byte(input), Desc: "mut"})
	}

	// (5) random token soups
	nSoup := w.pickN(20000, 500000)
	for k := 0; k < nSoup; k++ {
		idx, mine := w.Case()
		if !mine {
			continue
		}
		r := NewRng(w.Seed, uint64(idx), 5)
		n := 1 + r.Intn(14)
		ts := make([]string, n)
		for i := range ts {
			ts[i] = randToken(r)
		}
		if r.Chance(1, 2) {
			ts = append([]string{pick(r, stmtPrefixes)}, ts...)
		}
		f(fuzzCase{Idx: idx, Input: []byte(joinTokens(ts)), Desc: "soup"})
	}

	// (5b) set-operation chains, with and without a leading WITH, every operand kind, truncated at every point
	ops := []string{"UNION ALL", "UNION DISTINCT", "UNION", "INTERSECT", "EXCEPT", "INTERSECT DISTINCT", "EXCEPT ALL"}
	operands := []string{"SELECT 2", "(SELECT 3)", "SELECT a FROM t", "(SELECT 4 UNION ALL SELECT 5)", "3", "(3)", "", "SELECT", "x", "(", "WITH 9 AS y SELECT y"}
	heads := []string{"SELECT 1", "WITH 1 AS x SELECT x", "WITH c AS (SELECT 1) SELECT * FROM c", "(SELECT 1)", "SELECT x IN (SELECT 1", "INSERT INTO t SELECT 1", "CREATE VIEW v AS SELECT 1", "EXPLAIN SELECT 1", "SELECT * FROM (SELECT 1"}
	nChain := w.pickN(16000, 300000)
	for k := 0; k < nChain; k++ {
		idx, mine := w.Case()
		if !mine {
			continue
		}
		r := NewRng(w.Seed, uint64(idx), 6)
		head := pick(r, heads)
		closer := ""
		if r.Chance(1, 2) { // balanced embeddings whose first operand is itself parenthesised (a union or a single select)
			first := pick(r, []string{"(SELECT 1 UNION ALL SELECT 2)", "(SELECT 1 UNION DISTINCT SELECT 2)", "(SELECT 1)", "((SELECT 1 UNION ALL SELECT 2) UNION ALL SELECT 3)", "(SELECT 1 INTERSECT SELECT 2)", "SELECT 1"})
			emb := pick(r, [][2]string{{"", ""}, {"SELECT * FROM (", ")"}, {"CREATE VIEW v AS ", ""}, {"SELECT x IN (", ")"}, {"SELECT EXISTS (", ")"}, {"INSERT INTO t ", ""}, {"EXPLAIN ", ""}, {"(", ")"}, {"WITH c AS (", ") SELECT * FROM c"}, {"SELECT (", ") AS s"}, {"SELECT * FROM t JOIN (", ") AS j ON 1"}})
			head, closer = emb[0]+first, emb[1]
		}
		parts := []string{head}
		n := 1 + r.Intn(4)
		for i := 0; i < n; i++ {
			parts = append(parts, pick(r, ops), pick(r, operands))
		}
		s := strings.Join(parts, " ") + closer
		if r.Chance(1, 3) {
			if ts, ok := spanTexts(s); ok && len(ts) > 1 {
				s = joinTokens(ts[:1+r.Intn(len(ts)-1)])
			}
		}
		f(fuzzCase{Idx: idx, Input: []byte(s), Desc: "setops"})
	}

	// (5c) every token-prefix of grammar statements (truncated SQL)
	nPre := w.pickN(600, 12000)
	for k := 0; k < nPre; k++ {
		r := NewRng(w.Seed, uint64(k), 7)
		g := &Gen{r: r}
		st := g.statement(3)
		ts, ok := spanTexts(st)
		if !ok {
			continue
		}
		for i := 1; i < len(ts); i++ {
			run(joinTokens(ts[:i]), "prefix", false)
		}
	}

	// (5e) structured spaces: error recovery in call-like constructs, scripts, inter-referring WINDOWs, statement × tails
	fuzzSpace2(w, func(input, desc string) { run(input, desc, false) })

	// (5d) well-formed nesting up to ClickHouse's depth limit (inside C03's bound of 1000 levels)
	type nest struct{ open, mid, close string }
	nests := []nest{{"(", "1", ")"}, {"f(", "x", ")"}, {"NOT ", "a", ""}, {"- ", "a", ""}, {"-", "1", ""}, {"(SELECT ", "1", ")"}, {"[", "1", "]"}, {"tuple(", "1", ")"},
		{"CAST(", "1", " AS UInt8)"}, {"a IN (", "1", ")"}, {"if(1, 2, ", "3", ")"}, {"x -> ", "x", ""}, {"(SELECT * FROM (", "SELECT 1", "))"}, {"CASE WHEN 1 THEN ", "2", " END"},
		{"arrayMap(x -> ", "x", ", [1])"}, {"a AND (", "b", ")"}, {"1 + (", "2", ")"}, {"EXISTS (SELECT ", "1", ")"}}
	// … and types: nesting of every parametrised constructor around every kind of leaf, in the three type positions, at
	// depths around ClickHouse's limit (≤ 1000 levels is inside C03's bound; beyond it only C01/C02 apply)
	for _, tn := range []nest{{"Array(", "", ")"}, {"Nullable(", "", ")"}, {"Tuple(a ", "", ")"}, {"Map(String, ", "", ")"}, {"Tuple(Int8, ", "", ")"}, {"LowCardinality(", "", ")"}} {
		for _, leaf := range []string{"JSON(a UInt8)", "JSON(UInt8)", "Object(UInt8)", "JSON(max_dynamic_paths = 1)", "Object('json')", "Enum8('a' = 1)", "DateTime64(3, 'UTC')", "Nested(x Int8)", "Int8", "AggregateFunction(sum, Int8)", "Dynamic(max_types = 1)", "Variant(Int8, String)"} {
			for _, depth := range []int{100, 998, 999, 1000, 1001, 1500} {
				if !w.Thorough() && (depth < 998 || depth > 1001) && (len(leaf)+depth)%4 != 0 {
					continue
				}
				ty := strings.Repeat(tn.open, depth) + leaf + strings.Repeat(tn.close, depth)
				for pi, pos := range [][2]string{{"CREATE TABLE t (c ", ") ENGINE = Memory"}, {"SELECT CAST(x AS ", ")"}, {"SELECT x::", ""}} {
					if !w.Thorough() && (depth < 998 || depth > 1001) && (pi+depth+len(tn.open))%3 != 0 {
						continue
					}
					run(pos[0]+ty+pos[1], fmt.Sprintf("deep-type:%q*%d", tn.open, depth), depth > 996)
				}
			}
		}
	}
	for _, nn := range nests {
		for _, depth := range []int{60, 240, 520, 990} {
			if !w.Thorough() && depth == 240 {
				continue
			}
			d := depth
			if strings.Contains(nn.open, "SELECT") && d > 330 { // one level of SQL nesting = several parser levels
				d = 330
			}
			run("SELECT "+strings.Repeat(nn.open, d)+nn.mid+strings.Repeat(nn.close, d), fmt.Sprintf("deep:%q*%d", nn.open, d), false)
		}
	}

	// (6) nesting bombs and long adversarial inputs (up to 1 MiB)
	bombUnits := []string{"(", "a(", "f(x,", "(SELECT ", "CASE WHEN ", "x IN (", "[a,", "NOT ", "-", "- ", "a.", "a[", "(SELECT * FROM (", "SELECT 1 UNION ALL ", "1 + ", "a AND ", "{", "'", "/*", "$a$", "tuple(", "x -> ", "CAST(", "a::", "INTERVAL ", "1,", "a b ", "WITH a AS (", "SELECT 1;", ";", "EXPLAIN "}
	sizes := []int{1 << 12}
	if w.Thorough() {
		sizes = []int{1 << 12, 1 << 16, 1 << 20}
	} else {
		sizes = []int{1 << 12, 1 << 17}
	}
	bombUnits = append(bombUnits, "[", "+", "a,", "((", "[(", "f(") // more single-construct units (array / unary / list / mixed nesting)
	for _, u := range bombUnits {
		szs := sizes
		if !w.Thorough() && len(u) == 1 { // the property's bound is 1 MiB: the deepest nests per byte are reached in the quick tier too
			szs = append(append([]int{}, sizes...), 1<<20)
		}
		for _, sz := range szs {
			for _, pre := range []string{"SELECT ", ""} {
				n := (sz - len(pre)) / len(u)
				run(pre+strings.Repeat(u, n), fmt.Sprintf("bomb:%q*%d", u, n), true)
			}
		}
	}
}

// regressionInputs are minimised past failures (kept so that a repaired defect is re-checked first).
var regressionInputs = []string{
	"SELECT 1 INTERSECT SELECT 2 INTERSECT x",
	"SELECT 1 EXCEPT SELECT 2 EXCEPT",
	"select substring ( TRIM a , 1 , 3 )",
	"SELECT * REPLACE (",
	"SELECT * REPLACE ( a AS b",
	"SELECT 1 GROUP BY GROUPING SETS (;",
	"CREATE DICTIONARY d (k UInt64) PRIMARY KEY k SOURCE(FILE(; PATH 'x'))",
	"CREATE DICTIONARY d (k UInt64) PRIMARY KEY k SOURCE(CLICKHOUSE(TABLE 't' WITH))",
	"CREATE DICTIONARY d (k UInt64) PRIMARY KEY k LAYOUT(X(BLOCK_SIZE - 1, )",
	"RENAME",
	"EXCHANGE",
	"SELECT position(x IN (SELECT 1))",
	"WITH 1 AS x SELECT x EXCEPT SELECT 2 EXCEPT",
	"WITH 1 AS x SELECT x EXCEPT SELECT 2 INTERSECT (3)",
	"SELECT 1 CAST || 1e3 ALTER ALTER PARALLEL WITH ASOF CAST",
	"SELECT INTERVAL '1 SQL_TSI_'",
	"SELECT * FROM kql('T | filter a == \\'')",
	"SELECT CAST ( 1 AS Enum8 ( 'a' = 1 IN , 'b' = 2 ) )",
	"SELECT CAST(id AS Decimal(10,[ 2)) * v",
	"SELECT ٣",
	"SELECT x'41€'",
	"SELECT 'abc\\x中文'",
	"SELECT arrayMap((x, +) -> x, [1])",
	"SELECT (a, cast) -> a",
	"SELECT -1::Int8 EXCEPT SELECT 2",
	"KILL QUERY WHERE query_id = 'x' SYNCHRONOUS",
	"KILL MUTATION mutation_id",
	"EXPLAIN REPLACE",
	"CREATE TABLE t (x Tuple(a))",
	"CREATE TABLE t (x Nested(k String, v))",
	"SELECT 0x" + strings.Repeat("F", 257),
	"SELECT -1e999::Float64",
	"SELECT " + strings.Repeat("a", 63) + "é",
	"SELECT CAST(1 AS Tuple(\"\" UInt8))",
	"CREATE TABLE t (a Int32) ENGINE = Memory ENGINE = Memory",
	strings.Repeat(") ", 1001),
	"CREATE TABLE t (a Int32 COMMENT 'x\ny') ENGINE = Memory",
	"ALTER TABLE t DROP PARTITION ID 'a\nb'",
	"OPTIMIZE TABLE t PARTITION ID 'x\ny' FINAL",
	"SELECT ['a\nb', 'c']::Array(String)",
	"SELECT CAST(x AS Array(T('a\nb' = 0, 'c' = 1)))",
	"SELECT 1 ORDER BY x COLLATE 'a\nb'",
	"INSERT INTO t FROM INFILE 'a\nb' COMPRESSION 'g\nz'",
	"SELECT 1 INTO OUTFILE 'a\nb'",
	"SELECT COLUMNS('a') REPLACE (x + 1 AS x",
	"SELECT COLUMNS(a, b) REPLACE (a AS b; SELECT 1",
	"SELECT COLUMNS(a) REPLACE (5 AS",
	"KILL QUERY WHERE query_id = 'x' SYNCHRONOUS",
	"SELECT t.1e",
	"SELECT CASE WHEN 1 THEN 2 END AS format",
	"SELECT * REPLACE (1 AS format) FROM t",
	"ALTER TABLE t ADD STATISTICS c TYPE countmin(5)",
	"SELECT CAST(1 AS Foo(NULL))",
	"INSERT INTO t VALUES (1); SELECT [1, 2]",
	"SELECT * FROM t SAMPLE [1]",
	"SELECT 1 FROM t SAMPLE 1e-9999999999",
}
