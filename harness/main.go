package main

import (
	"fmt"
	"os"
	"strings"
)

func parseArgs(a []string) map[string]string {
	m := map[string]string{}
	for _, s := range a {
		if strings.HasPrefix(s, "--") {
			kv := strings.SplitN(s[2:], "=", 2)
			if len(kv) == 2 {
				m[kv[0]] = kv[1]
			} else {
				m[kv[0]] = "true"
			}
		}
	}
	return m
}

func main() {
	if len(os.Args) < 2 {
		fmt.Fprintln(os.Stderr, "usage: harness run|worker|tool ...")
		os.Exit(2)
	}
	args := parseArgs(os.Args[2:])
	switch os.Args[1] {
	case "run":
		superviseMain(args)
	case "worker":
		workerMain(args)
	case "tool":
		toolMain(os.Args[2:])
	default:
		fatalf("unknown command %q", os.Args[1])
	}
}
