package main

import (
	"fmt"
	"strings"

	"github.com/sqlc-dev/doubleclick/token"
)

// ---------------------------------------------------------------- token pool and mutators

var tokenPool = func() []string {
	p := []string{"+", "-", "*", "/", "%", "=", "==", "!=", "<>", "<", ">", "<=", ">=", "<=>", "||", "->", "::", "^",
		"(", ")", "[", "]", "{", "}", ",", ".", ";", ":", "?", "(", ")", "(", ")", ",", ",",
		"a", "b", "t", "x", "db", "f", "1", "2", "0", "1.5", "1e3", "0x1F", "'s'", "''", "`q`", "\"q\"", "{p:UInt8}", "NULL", "@", "@@v", "$$x$$",
		"--c\n", "/*c*/", "#c\n", "'", "\"", "`", "\\", "$", "!", "|", "é", "\x00", "\xff",
		// Unicode class representatives: decimal digits of other scripts, letters, spaces, look-alike punctuation
		"٣", "५", "５", "٣a", "a٣", "中", "ı", "ſ", "\u00a0", "\u2212", "\u2018q\u2019", "\u201cq\u201d", "\ufeff", "€", "x'41€'", "'\\x中'",
		// numeric extremes: overflow to ±Inf, underflow, hundreds of digits, huge hex / binary
		"1e999", "-1e999", "1e-999", "1e999::Float64", "0x" + strings.Repeat("F", 256), "0x1" + strings.Repeat("0", 256), strings.Repeat("9", 400), "0b" + strings.Repeat("1", 100), "0." + strings.Repeat("0", 400) + "1",
		// tokens whose length sits at typical scratch-buffer sizes, ending in a multi-byte character
		strings.Repeat("a", 61) + "é", strings.Repeat("a", 62) + "é", strings.Repeat("a", 63) + "é", strings.Repeat("a", 63) + "中", strings.Repeat("a", 127) + "é", strings.Repeat("a", 255) + "é", strings.Repeat("a", 1023) + "中",
		"'" + strings.Repeat("s", 255) + "é'", "'" + strings.Repeat("s", 254) + "中z'", "`" + strings.Repeat("q", 63) + "é`", "'" + strings.Repeat("s", 4095) + "é'",
		// string literals whose CONTENT is parsed again somewhere (interval strings, kql pipelines, formats, regexps)
		"'1 day'", "'1 SQL_TSI_'", "'2 SQL_TSI_HOUR'", "'1'", "' '", "'%Y-%m'", "'T | filter a == \\''", "'T | project a'", "'a.*'", "'\\''", "'\\\\'"}
	for s := range token.Keywords {
		p = append(p, s)
	}
	// deterministic order (map iteration is random)
	kw := p[len(p)-len(token.Keywords):]
	sortStrings(kw)
	return p
}()

func sortStrings(a []string) {
	for i := 1; i < len(a); i++ {
		for j := i; j > 0 && a[j] < a[j-1]; j-- {
			a[j], a[j-1] = a[j-1], a[j]
		}
	}
}

// hot tokens are drawn more often: they steer the parser into clause/recovery paths
var hotTokens = []string{"SELECT", "FROM", "WHERE", "(", ")", ",", "AS", "INTERSECT", "EXCEPT", "UNION", "ALL", "WITH", "GROUP", "BY",
	"ORDER", "LIMIT", "IN", "NOT", "AND", "OR", "BETWEEN", "CASE", "WHEN", "THEN", "ELSE", "END", "CAST", "INTERVAL", "JOIN", "ON", "USING",
	"REPLACE", "APPLY", "EXCEPT", "COLUMNS", "GROUPING", "SETS", "ROLLUP", "CUBE", "TRIM", "SUBSTRING", "EXTRACT", "POSITION", "ARRAY", "TUPLE",
	"CREATE", "TABLE", "DICTIONARY", "SOURCE", "LAYOUT", "LIFETIME", "RANGE", "PRIMARY", "KEY", "ENGINE", "PARTITION", "SETTINGS", "FORMAT",
	"INSERT", "INTO", "VALUES", "ALTER", "ADD", "DROP", "MODIFY", "COLUMN", "INDEX", "RENAME", "EXCHANGE", "TO", "EXPLAIN", "SYSTEM", "SHOW",
	"GRANT", "REVOKE", "SET", "USE", "DESCRIBE", "EXISTS", "LIKE", "IS", "NULL", "DISTINCT", "OVER", "WINDOW", "ROWS", "FILTER", "WITHIN",
	";", ".", "*", "-", "[", "]", "{", "}", "->", "::", "?", ":", "=", "1", "a", "'s'", "x", "t"}

func randToken(r *Rng) string {
	if r.Chance(3, 5) {
		return pick(r, hotTokens)
	}
	return pick(r, tokenPool)
}

// joinTokens renders a token text list with single spaces.
func joinTokens(ts []string) string { return strings.Join(ts, " ") }

// spanTexts returns the source text of each token of src (real lexer spans).
func spanTexts(src string) ([]string, bool) {
	sp, ok := tokenSpans(src)
	if !ok {
		return nil, false
	}
	out := make([]string, len(sp))
	for i, s := range sp {
		out[i] = src[s.Start:s.End]
	}
	return out, true
}

// mutateTokens applies 1..3 token-level edits.
func mutateTokens(r *Rng, ts []string, donor []string) []string {
	out := append([]string(nil), ts...)
	n := 1 + r.Intn(3)
	for k := 0; k < n; k++ {
		switch r.Intn(9) {
		case 0, 1: // delete
			if len(out) > 0 {
				i := r.Intn(len(out))
				out = append(out[:i], out[i+1:]...)
			}
		case 2, 3: // insert
			i := r.Intn(len(out) + 1)
			out = append(out[:i], append([]string{randToken(r)}, out[i:]...)...)
		case 4: // replace
			if len(out) > 0 {
				out[r.Intn(len(out))] = randToken(r)
			}
		case 5: // swap
			if len(out) > 1 {
				i, j := r.Intn(len(out)), r.Intn(len(out))
				out[i], out[j] = out[j], out[i]
			}
		case 6: // truncate
			if len(out) > 1 {
				out = out[:1+r.Intn(len(out)-1)]
			}
		case 7: // duplicate a slice
			if len(out) > 0 {
				i := r.Intn(len(out))
				j := i + 1 + r.Intn(min(4, len(out)-i))
				seg := append([]string(nil), out[i:j]...)
				out = append(out[:j], append(seg, out[j:]...)...)
			}
		case 8: // transplant from donor
			if len(donor) > 0 {
				i := r.Intn(len(donor))
				j := i + 1 + r.Intn(min(6, len(donor)-i))
				at := r.Intn(len(out) + 1)
				seg := append([]string(nil), donor[i:j]...)
				out = append(out[:at], append(seg, out[at:]...)...)
			}
		}
	}
	return out
}

// mutateBytes applies 1..3 byte-level edits.
func mutateBytes(r *Rng, b []byte) []byte {
	out := append([]byte(nil), b...)
	interesting := []byte("'\"`\\-/*#${}().,;:0159exbXE_ \n\t\x00\xc3\xa9\xff\xe2\x80\x98@[]|!<>=")
	n := 1 + r.Intn(3)
	for k := 0; k < n; k++ {
		switch r.Intn(5) {
		case 0:
			if len(out) > 0 {
				i := r.Intn(len(out))
				out = append(out[:i], out[i+1:]...)
			}
		case 1:
			i := r.Intn(len(out) + 1)
			out = append(out[:i], append([]byte{pick(r, interesting)}, out[i:]...)...)
		case 2:
			if len(out) > 0 {
				out[r.Intn(len(out))] = pick(r, interesting)
			}
		case 3:
			if len(out) > 0 {
				out[r.Intn(len(out))] ^= 1 << uint(r.Intn(8))
			}
		case 4:
			if len(out) > 1 {
				out = out[:1+r.Intn(len(out)-1)]
			}
		}
	}
	return out
}

// ---------------------------------------------------------------- grammar

// Gen produces statements of the supported dialect. depth bounds recursion.
type Gen struct {
	r *Rng
	// restrictions
	noFormatTail bool // no FORMAT / SETTINGS / INTO OUTFILE at the end of SELECT
	clauses      map[string]bool
}

var identPool = []string{"a", "b", "c", "x", "y", "id", "name", "value", "ts", "k", "v", "col1", "col2", "n", "s"}
var tablePool = []string{"t", "t1", "t2", "users", "events", "db.t", "system.numbers", "numbers(10)", "db1.tbl"}
var funcPool = []string{"count", "sum", "max", "min", "length", "toString", "toDate", "plus", "lower", "arrayMap", "if", "coalesce", "avg", "abs", "concat"}
var typePool = []string{"UInt8", "UInt64", "Int32", "String", "Float64", "Date", "DateTime", "Nullable(String)", "Array(UInt8)",
	"LowCardinality(String)", "Decimal(10, 2)", "FixedString(16)", "DateTime64(3)", "Map(String, UInt64)", "Tuple(UInt8, String)", "DateTime('UTC')",
	"Enum8('a' = 1, 'b' = 2)", "Array(Nullable(Int64))", "UUID", "AggregateFunction(sumMapFiltered([1, 4, 8]), Array(UInt8), Array(UInt8))", "AggregateFunction(quantiles(0.5, 0.9), UInt64)",
	"SimpleAggregateFunction(sum, UInt64)", "Tuple(`a b` UInt8, `имя` String)", "AggregateFunction(f((1, 2), [3, 4]), UInt8)", "Tuple(a UInt8, b Tuple(c String))"}

func (g *Gen) ident() string { return pick(g.r, identPool) }

func (g *Gen) literal() string {
	switch g.r.Intn(10) {
	case 0:
		return "NULL"
	case 1:
		return "'str'"
	case 2:
		return "'it''s'"
	case 3:
		return fmt.Sprintf("%d.%d", g.r.Intn(100), g.r.Intn(100))
	case 4:
		return "[1, 2, 3]"
	case 5:
		return "(1, 'a')"
	case 6:
		return "'a;b'"
	default:
		return fmt.Sprint(g.r.Intn(1000))
	}
}

func (g *Gen) expr(d int) string {
	if d <= 0 {
		if g.r.Chance(1, 2) {
			return g.ident()
		}
		return g.literal()
	}
	switch g.r.Intn(22) {
	case 0, 1, 2:
		return g.ident()
	case 3, 4:
		return g.literal()
	case 5:
		return g.expr(d-1) + " " + pick(g.r, []string{"+", "-", "*", "/", "%", "=", "!=", "<", ">", "<=", ">=", "AND", "OR", "||", "LIKE", "ILIKE", "NOT LIKE"}) + " " + g.expr(d-1)
	case 6:
		return "(" + g.expr(d-1) + ")"
	case 7:
		n := g.r.Intn(3)
		args := make([]string, n)
		for i := range args {
			args[i] = g.expr(d - 1)
		}
		return pick(g.r, funcPool) + "(" + strings.Join(args, ", ") + ")"
	case 8:
		return "NOT " + g.expr(d-1)
	case 9:
		return "-" + g.expr(d-1)
	case 10:
		return g.expr(d-1) + " IN (" + g.literal() + ", " + g.literal() + ")"
	case 11:
		return g.expr(d-1) + " BETWEEN " + g.expr(d-2) + " AND " + g.expr(d-2)
	case 12:
		return "CASE WHEN " + g.expr(d-1) + " THEN " + g.expr(d-1) + " ELSE " + g.expr(d-1) + " END"
	case 13:
		return "CAST(" + g.expr(d-1) + " AS " + pick(g.r, typePool) + ")"
	case 14:
		return g.ident() + "::" + pick(g.r, []string{"UInt8", "String", "Float64", "Date"})
	case 15:
		return g.expr(d-1) + " IS " + pick(g.r, []string{"NULL", "NOT NULL"})
	case 16:
		return g.ident() + "." + g.ident()
	case 17:
		return g.ident() + "[" + g.expr(d-1) + "]"
	case 18:
		return g.expr(d-1) + " ? " + g.expr(d-1) + " : " + g.expr(d-1)
	case 19:
		return "x -> " + g.expr(d-1)
	case 20:
		return "(" + g.selectQuery(d-1, true) + ")"
	default:
		return g.expr(d-1) + " IN (" + g.selectQuery(d-1, true) + ")"
	}
}

func (g *Gen) exprList(d, max int) string {
	n := 1 + g.r.Intn(max)
	xs := make([]string, n)
	for i := range xs {
		xs[i] = g.expr(d)
	}
	return strings.Join(xs, ", ")
}

// specialNames: quoted names with characters that are harmless in SQL but meaningful to printf-style formatting,
// to word splitting or to backtick/escape handling in a printer
var specialNames = []string{"`pct%`", "`%d`", "`a%sb`", "`100%`", "`x y`", "`a.b`", "`тест`", "`a$b`", "`a\\b`", "\"q%v\"", "`%`", "`a(b)`", "`(children 1)`"}

func (g *Gen) selectItem(d int) string {
	e := g.expr(d)
	if g.r.Chance(1, 4) {
		if g.r.Chance(1, 6) {
			e += " AS " + pick(g.r, specialNames)
		} else {
			e += " AS " + g.ident()
		}
	}
	return e
}

// aliasedShapes: every expression kind that has its own alias-printing code path, with a plain and a special alias
func (g *Gen) aliasedShapes() string {
	shapes := []string{"arr[1]", "t.1", "x IS NULL", "x IS NOT NULL", "EXISTS (SELECT 1)", "EXTRACT(YEAR FROM d)", "CAST(x AS UInt8)", "x::UInt8", "(SELECT 1)", "[1, 2]", "(1, 2)", "-x", "NOT x",
		"x BETWEEN 1 AND 2", "x IN (1, 2)", "x LIKE 'a'", "CASE WHEN x THEN 1 END", "if(x, 1, 2)", "f(x)", "x -> x", "INTERVAL 1 DAY", "a ? b : c", "count(*)", "*", "t.*", "COLUMNS('a')", "1", "'s'", "NULL",
		"x + 1", "a AND b", "a || b", "TRIM(BOTH ' ' FROM s)", "SUBSTRING(s FROM 1 FOR 2)", "POSITION('a' IN s)", "DATE '2020-01-01'", "{p:UInt8}", "sum(x) OVER (PARTITION BY y)", "quantile(0.5)(x)", "m['k']", "x.y.z"}
	var items []string
	n := 1 + g.r.Intn(4)
	for i := 0; i < n; i++ {
		sh := pick(g.r, shapes)
		if sh == "*" || sh == "t.*" {
			items = append(items, sh)
			continue
		}
		if g.r.Chance(1, 2) {
			items = append(items, sh+" AS "+pick(g.r, specialNames))
		} else {
			items = append(items, sh+" AS "+g.ident())
		}
	}
	return "SELECT " + strings.Join(items, ", ") + " FROM t"
}

// createView: plain / materialized / window / live views with every storage clause that a view may carry
func (g *Gen) createView() string {
	sel := g.selectQuery(1, true)
	opt := func(p int, s string) string {
		if g.r.Chance(1, p) {
			return s
		}
		return ""
	}
	switch g.r.Intn(4) {
	case 0:
		return "CREATE " + opt(3, "OR REPLACE ") + "VIEW " + opt(3, "IF NOT EXISTS ") + "v" + opt(4, " (a UInt8, b String)") + " AS " + sel
	case 1:
		return "CREATE MATERIALIZED VIEW mv" + opt(3, " TO db.dst") + " AS " + sel
	case 2:
		return "CREATE MATERIALIZED VIEW mv" + opt(3, " (a UInt8)") + " ENGINE = " + pick(g.r, []string{"MergeTree", "MergeTree()", "ReplacingMergeTree(v)", "SummingMergeTree"}) +
			opt(2, " PARTITION BY toYYYYMM(ts)") + " ORDER BY " + pick(g.r, []string{"a", "(a, b)", "tuple()"}) + opt(3, " PRIMARY KEY a") + opt(3, " SAMPLE BY a") +
			opt(2, " TTL ts + INTERVAL 1 DAY") + opt(3, " TTL ts + INTERVAL 1 MONTH DELETE, ts + INTERVAL 1 YEAR TO DISK 'x'") + opt(3, " SETTINGS index_granularity = 1") + opt(3, " POPULATE") + " AS " + sel
	default:
		return "CREATE TABLE t" + " (a UInt8, ts DateTime)" + " ENGINE = MergeTree ORDER BY a" + opt(2, " TTL ts + INTERVAL 1 DAY") + opt(3, " SETTINGS a = 1") + opt(2, " AS "+sel)
	}
}

func (g *Gen) tableExpr(d int) string {
	if d > 0 && g.r.Chance(1, 4) {
		s := "(" + g.selectQuery(d-1, true) + ")"
		if g.r.Chance(1, 2) {
			s += " AS " + g.ident()
		}
		return s
	}
	t := pick(g.r, tablePool)
	if g.r.Chance(1, 4) {
		t += " AS " + g.ident()
	}
	if g.r.Chance(1, 10) {
		t += " FINAL"
	}
	return t
}

// selectClauses lists the optional clauses of a SELECT in source order.
var selectClauses = []string{"with", "distinct", "from", "join", "arrayjoin", "prewhere", "where", "groupby", "withtotals", "having", "qualify", "window", "orderby", "limitby", "limit", "offset", "settings", "format"}

func (g *Gen) want(name string, num, den int) bool {
	if g.clauses != nil {
		return g.clauses[name]
	}
	return g.r.Chance(num, den)
}

// selectQuery generates one SELECT (no set operations); inner = embedded (no FORMAT tail).
func (g *Gen) selectQuery(d int, inner bool) string {
	var sb strings.Builder
	if g.want("with", 1, 8) {
		if g.r.Chance(1, 2) {
			sb.WriteString("WITH " + g.expr(d-1) + " AS " + g.ident() + " ")
		} else {
			sb.WriteString("WITH " + g.ident() + " AS (" + g.simpleSelect(d-1) + ") ")
		}
	}
	sb.WriteString("SELECT ")
	if g.want("distinct", 1, 8) {
		sb.WriteString("DISTINCT ")
	}
	n := 1 + g.r.Intn(3)
	items := make([]string, n)
	for i := range items {
		items[i] = g.selectItem(d)
	}
	if g.r.Chance(1, 10) {
		items[0] = "*"
	}
	sb.WriteString(strings.Join(items, ", "))
	hasFrom := g.want("from", 3, 4)
	if hasFrom {
		sb.WriteString(" FROM " + g.tableExpr(d))
		if g.want("join", 1, 5) {
			jt := pick(g.r, []string{"JOIN", "INNER JOIN", "LEFT JOIN", "LEFT OUTER JOIN", "RIGHT JOIN", "FULL JOIN", "CROSS JOIN", "ANY LEFT JOIN", "ALL INNER JOIN", "GLOBAL LEFT JOIN", "LEFT SEMI JOIN", "LEFT ANTI JOIN"})
			sb.WriteString(" " + jt + " " + g.tableExpr(d))
			if !strings.Contains(jt, "CROSS") {
				if g.r.Chance(1, 2) {
					sb.WriteString(" ON " + g.ident() + " = " + g.ident())
				} else {
					sb.WriteString(" USING (" + g.ident() + ")")
				}
			}
		}
		if g.want("arrayjoin", 1, 10) {
			sb.WriteString(" " + pick(g.r, []string{"ARRAY JOIN", "LEFT ARRAY JOIN"}) + " " + g.ident() + " AS " + g.ident())
		}
		if g.want("prewhere", 1, 10) {
			sb.WriteString(" PREWHERE " + g.expr(d-1))
		}
	}
	if g.want("where", 1, 2) {
		sb.WriteString(" WHERE " + g.expr(d))
	}
	if g.want("groupby", 1, 4) {
		switch g.r.Intn(6) {
		case 0:
			sb.WriteString(" GROUP BY ALL")
		case 1:
			sb.WriteString(" GROUP BY " + g.exprList(d-1, 2) + " WITH ROLLUP")
		case 2:
			sb.WriteString(" GROUP BY GROUPING SETS ((" + g.ident() + "), (" + g.ident() + ", " + g.ident() + "))")
		default:
			sb.WriteString(" GROUP BY " + g.exprList(d-1, 3))
		}
		if g.want("withtotals", 1, 6) {
			sb.WriteString(" WITH TOTALS")
		}
		if g.want("having", 1, 3) {
			sb.WriteString(" HAVING " + g.expr(d-1))
		}
	}
	if g.want("qualify", 1, 20) {
		sb.WriteString(" QUALIFY " + g.expr(d-1))
	}
	if g.want("window", 1, 20) {
		sb.WriteString(" WINDOW w AS (PARTITION BY " + g.ident() + " ORDER BY " + g.ident() + ")")
	}
	if g.want("orderby", 1, 3) {
		n := 1 + g.r.Intn(2)
		xs := make([]string, n)
		for i := range xs {
			xs[i] = g.expr(d-1) + pick(g.r, []string{"", " ASC", " DESC", " DESC NULLS LAST", " ASC NULLS FIRST"})
		}
		sb.WriteString(" ORDER BY " + strings.Join(xs, ", "))
		if g.r.Chance(1, 8) {
			sb.WriteString(pick(g.r, []string{" WITH FILL", " WITH FILL", " WITH FILL FROM 1 TO 10 STEP 2", " WITH FILL STEP 1", " WITH FILL TO 9"}))
			if g.r.Chance(1, 2) {
				sb.WriteString(pick(g.r, []string{" INTERPOLATE", " INTERPOLATE ()", " INTERPOLATE (x AS x + 1)", " INTERPOLATE (x AS x + 1, y AS 2)"}))
			}
		}
	}
	if g.want("limitby", 1, 12) {
		sb.WriteString(fmt.Sprintf(" LIMIT %d BY %s", 1+g.r.Intn(9), g.ident()))
	}
	if g.want("limit", 1, 3) {
		switch g.r.Intn(4) {
		case 0:
			sb.WriteString(fmt.Sprintf(" LIMIT %d, %d", g.r.Intn(9), 1+g.r.Intn(9)))
		case 1:
			sb.WriteString(fmt.Sprintf(" LIMIT %d OFFSET %d", 1+g.r.Intn(9), g.r.Intn(9)))
		case 2:
			sb.WriteString(fmt.Sprintf(" LIMIT %d WITH TIES", 1+g.r.Intn(9)))
		default:
			sb.WriteString(fmt.Sprintf(" LIMIT %d", 1+g.r.Intn(99)))
		}
	} else if g.want("offset", 1, 25) {
		sb.WriteString(fmt.Sprintf(" OFFSET %d", g.r.Intn(9)))
	}
	if !inner && !g.noFormatTail {
		set, fmtc := "", ""
		if g.want("settings", 1, 10) {
			set = " SETTINGS max_threads = " + fmt.Sprint(1+g.r.Intn(8))
		}
		if g.want("format", 1, 10) {
			fmtc = " FORMAT " + pick(g.r, []string{"JSON", "TSV", "Null", "CSV"})
		}
		if set != "" && fmtc != "" && g.r.Chance(1, 2) {
			sb.WriteString(fmtc + set) // SETTINGS may also follow FORMAT
		} else {
			sb.WriteString(set + fmtc)
		}
	}
	return sb.String()
}

func (g *Gen) simpleSelect(d int) string {
	old := g.clauses
	g.clauses = nil
	defer func() { g.clauses = old }()
	s := "SELECT " + g.selectItem(d)
	if g.r.Chance(1, 2) {
		s += " FROM " + pick(g.r, tablePool)
	}
	if g.r.Chance(1, 3) {
		s += " WHERE " + g.expr(d)
	}
	return s
}

// selectUnion generates SELECT possibly combined with set operations.
func (g *Gen) selectUnion(d int, inner bool) string {
	s := g.selectQuery(d, true)
	n := 0
	for g.r.Chance(1, 5) && n < 3 {
		op := pick(g.r, []string{"UNION ALL", "UNION DISTINCT", "UNION ALL", "INTERSECT", "EXCEPT", "UNION ALL"})
		rhs := g.selectQuery(d-1, true)
		if g.r.Chance(1, 4) {
			rhs = "(" + rhs + ")"
		}
		s += " " + op + " " + rhs
		n++
	}
	if !inner && !g.noFormatTail && g.r.Chance(1, 12) {
		s += " FORMAT " + pick(g.r, []string{"JSON", "TSV", "Null"})
	}
	return s
}

func (g *Gen) columnDef() string {
	s := g.ident() + " " + pick(g.r, typePool)
	switch g.r.Intn(8) {
	case 0:
		s += " DEFAULT " + g.literal()
	case 1:
		s += " MATERIALIZED " + g.expr(1)
	case 2:
		s += " CODEC(ZSTD(1))"
	case 3:
		s += " COMMENT 'c'"
	case 4:
		s += " TTL ts + INTERVAL 1 DAY"
	}
	return s
}

func (g *Gen) createTable() string {
	var sb strings.Builder
	sb.WriteString("CREATE ")
	if g.r.Chance(1, 8) {
		sb.WriteString("TEMPORARY ")
	}
	sb.WriteString("TABLE ")
	if g.r.Chance(1, 3) {
		sb.WriteString("IF NOT EXISTS ")
	}
	sb.WriteString(pick(g.r, []string{"t", "db.t", "t_new"}))
	if g.r.Chance(1, 8) {
		sb.WriteString(" ON CLUSTER c")
	}
	n := 1 + g.r.Intn(4)
	cols := make([]string, n)
	for i := range cols {
		cols[i] = g.columnDef()
	}
	if g.r.Chance(1, 5) {
		cols = append(cols, "INDEX idx "+g.ident()+" TYPE minmax GRANULARITY 1")
	}
	if g.r.Chance(1, 8) {
		cols = append(cols, "CONSTRAINT c1 CHECK "+g.ident()+" > 0")
	}
	sb.WriteString(" (" + strings.Join(cols, ", ") + ")")
	eng := pick(g.r, []string{"MergeTree", "MergeTree()", "ReplacingMergeTree(ts)", "Memory", "Log", "SummingMergeTree"})
	sb.WriteString(" ENGINE = " + eng)
	if strings.Contains(eng, "MergeTree") {
		if g.r.Chance(1, 3) {
			sb.WriteString(" PARTITION BY " + g.expr(1))
		}
		sb.WriteString(" ORDER BY " + pick(g.r, []string{"id", "(id, ts)", "tuple()"}))
		if g.r.Chance(1, 5) {
			sb.WriteString(" PRIMARY KEY id")
		}
		if g.r.Chance(1, 5) {
			sb.WriteString(" SAMPLE BY id")
		}
		if g.r.Chance(1, 5) {
			sb.WriteString(" TTL ts + INTERVAL 1 MONTH")
		}
		if g.r.Chance(1, 4) {
			sb.WriteString(" SETTINGS index_granularity = 8192")
		}
	}
	if g.r.Chance(1, 10) {
		sb.WriteString(" COMMENT 'tbl'")
	}
	return sb.String()
}

func (g *Gen) alter() string {
	tbl := pick(g.r, []string{"t", "db.t"})
	cmds := []string{
		"ADD COLUMN " + g.columnDef(),
		"ADD COLUMN IF NOT EXISTS c UInt8 AFTER a",
		"DROP COLUMN " + g.ident(),
		"DROP COLUMN IF EXISTS " + g.ident(),
		"MODIFY COLUMN " + g.columnDef(),
		"RENAME COLUMN a TO b",
		"COMMENT COLUMN a 'hello'",
		"CLEAR COLUMN a IN PARTITION 1",
		"ADD INDEX idx a TYPE minmax GRANULARITY 2",
		"DROP INDEX idx",
		"MATERIALIZE INDEX idx",
		"DROP PARTITION 201901",
		"DETACH PARTITION 201901",
		"ATTACH PARTITION 201901",
		"FREEZE PARTITION 201901",
		"MODIFY TTL ts + INTERVAL 1 DAY",
		"MODIFY SETTING max_part_loading_threads = 8",
		"MODIFY ORDER BY (a, b)",
		"DELETE WHERE " + g.expr(1),
		"UPDATE a = " + g.expr(1) + " WHERE " + g.expr(1),
		"ADD CONSTRAINT c CHECK a > 0",
		"DROP CONSTRAINT c",
		"ADD PROJECTION p (SELECT a ORDER BY b)",
		"DROP PROJECTION p",
		"REPLACE PARTITION 1 FROM t2",
		"MOVE PARTITION 1 TO TABLE t2",
		// statistics, with and without arguments of the type; parametrised index and codec types
		"ADD STATISTICS c TYPE tdigest", "ADD STATISTICS IF NOT EXISTS a, b TYPE countmin(5), uniq", "MODIFY STATISTICS a TYPE minmax(1, 'x')", "DROP STATISTICS a, b", "CLEAR STATISTICS a",
		"MATERIALIZE STATISTICS a", "ADD INDEX i (a, b) TYPE bloom_filter(0.01) GRANULARITY 1", "ADD INDEX j f(a) TYPE set(100)", "MODIFY COLUMN c CODEC(ZSTD(3), Delta(4))", "MODIFY COLUMN c REMOVE COMMENT",
		"MODIFY COLUMN c TTL d + INTERVAL 1 DAY", "ADD COLUMN n Nested(x Int8, y String) FIRST", "MODIFY QUERY SELECT 1", "MODIFY COMMENT 'c'", "RESET SETTING a, b", "FETCH PARTITION 1 FROM '/p'",
		"ATTACH PART 'p'", "DROP DETACHED PART 'p'", "UNFREEZE WITH NAME 'n'", "APPLY DELETED MASK", "MODIFY SAMPLE BY a", "REMOVE SAMPLE BY", "REMOVE TTL", "MATERIALIZE TTL", "MATERIALIZE COLUMN c", "MATERIALIZE PROJECTION p",
	}
	n := 1 + g.r.Intn(2)
	xs := make([]string, n)
	for i := range xs {
		xs[i] = pick(g.r, cmds)
	}
	return "ALTER TABLE " + tbl + " " + strings.Join(xs, ", ")
}

func (g *Gen) insert() string {
	s := "INSERT INTO " + pick(g.r, []string{"t", "db.t", "TABLE t"})
	if g.r.Chance(1, 2) {
		s += " (a, b)"
	}
	switch g.r.Intn(3) {
	case 0:
		return s + " VALUES (1, 'a'), (2, 'b')"
	case 1:
		return s + " " + g.selectQuery(1, true)
	default:
		return s + " VALUES (" + g.literal() + ", " + g.literal() + ")"
	}
}

var utilityStmts = []string{
	"USE db", "SHOW TABLES", "SHOW DATABASES", "SHOW CREATE TABLE t", "SHOW TABLES FROM db LIKE '%a%'", "SHOW PROCESSLIST",
	"DESCRIBE TABLE t", "DESC t", "EXISTS TABLE t", "DROP TABLE t", "DROP TABLE IF EXISTS db.t", "DROP DATABASE IF EXISTS db", "DROP VIEW v",
	"TRUNCATE TABLE t", "OPTIMIZE TABLE t FINAL", "OPTIMIZE TABLE t PARTITION 1 DEDUPLICATE", "RENAME TABLE a TO b", "RENAME TABLE a TO b, c TO d",
	"EXCHANGE TABLES a AND b", "SET max_threads = 4", "SET a = 1, b = 'x'", "SYSTEM FLUSH LOGS", "SYSTEM RELOAD DICTIONARIES", "SYSTEM STOP MERGES t",
	"KILL QUERY WHERE query_id = 'x'", "DETACH TABLE t", "ATTACH TABLE t", "CREATE DATABASE db", "CREATE DATABASE IF NOT EXISTS db ENGINE = Atomic",
	"CREATE VIEW v AS SELECT 1", "CREATE MATERIALIZED VIEW mv TO t AS SELECT a FROM s", "CREATE OR REPLACE VIEW v AS SELECT a, b FROM t WHERE a > 1",
	"GRANT SELECT ON db.* TO u", "REVOKE SELECT ON db.t FROM u", "CREATE USER u IDENTIFIED BY 'p'", "CREATE ROLE r", "DROP USER u", "SET ROLE r",
	"EXPLAIN SELECT 1", "EXPLAIN AST SELECT a FROM t", "EXPLAIN SYNTAX SELECT a FROM t WHERE b", "EXPLAIN PLAN SELECT 1",
	"CHECK TABLE t", "BEGIN TRANSACTION", "COMMIT", "ROLLBACK", "WATCH v", "UNDROP TABLE t", "DELETE FROM t WHERE a = 1", "UPDATE t SET a = 1 WHERE b = 2",
	"CREATE FUNCTION f AS (x) -> x + 1", "DROP FUNCTION f", "CREATE DICTIONARY d (k UInt64, v String) PRIMARY KEY k SOURCE(CLICKHOUSE(TABLE 't')) LAYOUT(FLAT()) LIFETIME(MIN 0 MAX 1000)",
	"CREATE TABLE t2 AS t", "CREATE TABLE t3 ENGINE = Memory AS SELECT 1", "CREATE TABLE t4 (a UInt8) ENGINE = MergeTree ORDER BY a AS SELECT 1",
	"BACKUP TABLE t TO Disk('backups', '1.zip')", "RESTORE TABLE t FROM Disk('backups', '1.zip')", "SHOW GRANTS", "SHOW CREATE DATABASE db",
	"ALTER TABLE t DROP PARTITION ID '1'", "ALTER USER u IDENTIFIED BY 'x'", "CREATE INDEX i ON t (a) TYPE minmax GRANULARITY 1", "DROP INDEX i ON t",
	"SELECT 1 INTO OUTFILE 'f.txt'", "WITH 1 AS x SELECT x", "SELECT * FROM t SAMPLE 0.1", "SELECT a FROM t FINAL WHERE b ORDER BY c LIMIT 1 BY d",
	"SELECT count() OVER (PARTITION BY a ORDER BY b ROWS BETWEEN 1 PRECEDING AND CURRENT ROW) FROM t",
	"SELECT * EXCEPT (a) FROM t", "SELECT * REPLACE (a + 1 AS a) FROM t", "SELECT COLUMNS('a.*') FROM t", "SELECT t.* FROM t",
	"SELECT INTERVAL 1 DAY", "SELECT EXTRACT(YEAR FROM d)", "SELECT TRIM(BOTH ' ' FROM s)", "SELECT SUBSTRING(s FROM 1 FOR 2)", "SELECT POSITION('a' IN s)",
	"SELECT [1, 2][1], (1, 2).1, m['k']", "SELECT DATE '2020-01-01', TIMESTAMP '2020-01-01 00:00:00'", "SELECT {p:UInt8}", "SELECT a IS NOT DISTINCT FROM b",
	"SELECT if(a, b, c), multiIf(a, 1, b, 2, 3)", "SELECT quantile(0.5)(x), sumIf(a, b > 1) FROM t", "SELECT arrayMap(x -> x * 2, [1, 2, 3])",
}

// setOpChain: valid chains of set operations in every arrangement the parser has a separate path for (plain, leading
// WITH, parenthesised first operand, parenthesised later operands, nested unions), keywords in upper case
func (g *Gen) setOpChain() string {
	ops := []string{"UNION ALL", "UNION DISTINCT", "UNION", "INTERSECT", "EXCEPT", "INTERSECT DISTINCT", "EXCEPT ALL", "UNION ALL", "INTERSECT", "EXCEPT"}
	operand := func() string {
		switch g.r.Intn(6) {
		case 0:
			return "(SELECT " + fmt.Sprint(g.r.Intn(9)) + ")"
		case 1:
			return "(SELECT 2 " + pick(g.r, ops) + " SELECT 3)"
		case 2:
			return "(SELECT 2 UNION DISTINCT SELECT 3 UNION ALL SELECT 4 UNION ALL SELECT 5)"
		case 3:
			return "SELECT a FROM t"
		default:
			return "SELECT " + fmt.Sprint(g.r.Intn(9))
		}
	}
	var sb strings.Builder
	switch g.r.Intn(5) {
	case 0:
		sb.WriteString("WITH 1 AS x SELECT x")
	case 1:
		sb.WriteString("(SELECT 1)")
	case 2:
		sb.WriteString("(SELECT 1 UNION ALL SELECT 2)")
	default:
		sb.WriteString("SELECT 1")
	}
	n := 1 + g.r.Intn(4)
	for i := 0; i < n; i++ {
		sb.WriteString(" " + pick(g.r, ops) + " " + operand())
	}
	return sb.String()
}

// statement generates one statement of any kind.
func (g *Gen) statement(d int) string {
	switch g.r.Intn(20) {
	case 0, 1:
		return g.createTable()
	case 2, 3:
		return g.alter()
	case 4:
		return g.insert()
	case 5, 6, 7:
		return pick(g.r, utilityStmts)
	case 8:
		if g.r.Chance(1, 2) {
			return g.createView()
		}
		return "CREATE VIEW v AS " + g.selectUnion(d, true)
	case 12:
		return g.aliasedShapes()
	case 13:
		return g.setOpChain()
	case 9:
		return "EXPLAIN " + pick(g.r, []string{"", "AST ", "SYNTAX ", "PLAN "}) + g.selectQuery(d, true)
	case 10, 11:
		return g.selectUnion(d, false)
	default:
		return g.selectQuery(d, false)
	}
}
