package main

import (
	"fmt"
	goast "go/ast"
	goparser "go/parser"
	gotoken "go/token"
	"path/filepath"
	"strconv"
	"strings"
	"unicode"

	"github.com/sqlc-dev/doubleclick/token"
)

func init() { props["C05"] = runC05 }

// gapPool: replacement gaps. Every gap begins with a whitespace character (so that it cannot fuse with the
// preceding token, e.g. `-` + `--c`), may contain comments of all kinds (nested block comments included) and
// ends either in whitespace, a block comment or the newline that closes a line comment.
var gapPool = []string{" ", "  ", "\t", "\n", "\r\n", " \n\t ", "\f", "\v", "   ", " \ufeff", " ", " /* c */ ", " /* a /* nested */ b */", "\n-- line comment\n", " -- select ; from\n",
	" # hash comment\n", "\n#!shebang\n", " /**/ ", " /* ; */\n", "\t/* 'quote' \"dq\" `bt` */\t", " -- 'unterminated\n", " /* -- */ ", "\n\n\n", " /*\n multi\n line\n*/ ", " /* see /*/ path */ glob */ ", " /*/*/ x */ */", " /* * / */ ", " /***/ ", " /*--*/ ", " --/*\n", " /* # */ "}

func isSpaceRune(r rune) bool {
	if unicode.IsSpace(r) {
		return true
	}
	switch r {
	case '\ufeff', '\u180e', '\u200b', '\u200c', '\u200d', '\u2060':
		return true
	}
	return false
}

func flipCase(r *Rng, s string) string {
	rs := []rune(s)
	mode := r.Intn(3)
	for i, c := range rs {
		switch mode {
		case 0:
			rs[i] = unicode.ToLower(c)
		case 1:
			rs[i] = unicode.ToUpper(c)
		default:
			if r.Chance(1, 2) {
				rs[i] = unicode.ToUpper(c)
			} else {
				rs[i] = unicode.ToLower(c)
			}
		}
	}
	return string(rs)
}

// wholeWord reports whether w occurs in text delimited by non-identifier characters.
func wholeWord(text, w string) bool {
	for i := 0; ; {
		j := strings.Index(text[i:], w)
		if j < 0 {
			return false
		}
		j += i
		before := j == 0 || !c05IdentByte(text[j-1])
		after := j+len(w) >= len(text) || !c05IdentByte(text[j+len(w)])
		if before && after {
			return true
		}
		i = j + 1
	}
}

func c05IdentByte(b byte) bool {
	return b == '_' || b >= '0' && b <= '9' || b >= 'a' && b <= 'z' || b >= 'A' && b <= 'Z' || b >= 0x80
}

// pumpedKinds renders the token sequence the parser sees (kind, value, quoted), from the Lean model's `lex` answer.
func pumpedFromModel(ans string) (string, bool) {
	if ans == "panic" || ans == "bad-arg" || ans == "bad-op" || ans == "model-dead" {
		return "", false
	}
	var sb strings.Builder
	for _, t := range strings.Split(ans, ";") {
		f := strings.Split(t, ",")
		if len(f) != 6 {
			return "", false
		}
		if f[0] == "2" || f[0] == "3" { // WHITESPACE, LINE_COMMENT
			continue
		}
		sb.WriteString(f[0] + "," + f[1] + "," + f[5] + ";")
	}
	return sb.String(), true
}

func runC05(w *W) {
	stmts, _ := loadCorpus()
	var pool []string
	for _, s := range stmts {
		if s.Enabled && len(s.Text) <= 4000 {
			pool = append(pool, s.Text)
		}
	}
	nRelayouts := w.pickN(3, 12)
	strat := stratifiedCorpus(stmts, 3, 4000) // every statement kind of the corpus, first
	strat = append(strat, shortStatementShapes(stmts, 8)...) // … and every distinct shape among the short (phrase-parsed) statements
	total := w.pickN(9000, 2*len(pool)) + len(strat)
	for k := 0; k < total; k++ {
		idx, mine := w.Case()
		if !mine {
			continue
		}
		r := NewRng(w.Seed, uint64(idx), 5)
		var src string
		if k < len(strat) {
			src = strat[k]
		} else if w.Thorough() && k-len(strat) < len(pool) {
			src = pool[k-len(strat)]
		} else if r.Chance(3, 4) {
			src = pool[r.Intn(len(pool))]
			if r.Chance(1, 4) { // difficult leaves (strings with escapes / line breaks, quoted identifiers, big numbers)
				if v, ok := leafSubstitute(r, src); ok {
					src = v
				}
			}
		} else {
			g := &Gen{r: r}
			src = g.statement(3)
		}
		w.Begin(idx, []byte(src), "layout")
		base := safeParse([]byte(src), 1<<22)
		if base.Panicked || base.Budget || base.Err != nil || len(base.Stmts) == 0 {
			w.stats.Evaluations++
			w.Count("skipped:not-valid")
			continue
		}
		var baseEx []string
		okEx := true
		for _, s := range base.Stmts {
			e := safeExplain(s)
			if e.Panicked {
				okEx = false
			}
			baseEx = append(baseEx, e.Out)
		}
		if !okEx {
			continue
		}
		spans, ok := tokenSpans(src)
		if !ok || len(spans) == 0 {
			w.Count("skipped:no-spans")
			continue
		}
		modelBase, ok := pumpedFromModel(w.Model().Ask("lex " + hexOrDash([]byte(src))))
		if !ok {
			w.Count("skipped:model")
			continue
		}
		baseJoined := strings.Join(baseEx, "\x00")
		// gaps frozen because they are inside the operand of a `::` cast (ClickHouse keeps the source text there)
		frozen := make([]bool, len(spans)+1)
		for i, sp := range spans {
			if sp.Tok == token.COLONCOLON && i > 0 && (spans[i-1].Tok == token.RBRACKET || spans[i-1].Tok == token.RPAREN) {
				depth := 0
				for j := i - 1; j >= 0; j-- {
					if spans[j].Tok == token.RBRACKET || spans[j].Tok == token.RPAREN {
						depth++
					}
					if spans[j].Tok == token.LBRACKET || spans[j].Tok == token.LPAREN {
						depth--
					}
					frozen[j+1] = true
					if depth == 0 {
						break
					}
				}
			}
		}
		for v := 0; v < nRelayouts; v++ {
			toggleGaps := v%2 == 1
			var sb strings.Builder
			changed := 0
			// leading semicolons / whitespace
			switch r.Intn(6) {
			case 0:
				sb.WriteString(";")
			case 1:
				sb.WriteString(" ;\n; ")
			case 2:
				sb.WriteString(pick(r, gapPool))
			}
			sb.WriteString(src[:spans[0].Start]) // original leading gap (may hold comments)
			flips := 0
			// trailing semicolons are layout too: one relayout in four ends the statement at the end of input instead
			lastReal := len(spans) - 1
			for lastReal > 0 && spans[lastReal].Tok == token.SEMICOLON {
				lastReal--
			}
			dropSemis := r.Chance(1, 4)
			for i, sp := range spans {
				if dropSemis && i > lastReal {
					continue
				}
				text := src[sp.Start:sp.End]
				// keyword used as a keyword: its spelling does not show up in EXPLAIN
				// (a soft keyword's spelling must not occur in the EXPLAIN text at all, not even inside a longer word:
				// `min(DISTINCT x)` prints `minDistinct` — there `min` is a function name whose case is kept)
				soft := sp.Tok == token.IDENT && !sp.Quoted && softKeywords()[strings.ToUpper(text)] && !strings.Contains(baseJoined, text)
				if (sp.Tok.IsKeyword() || soft) && r.Chance(1, 2) && !wholeWord(baseJoined, text) && !wholeWord(baseJoined, sp.Val) {
					nt := flipCase(r, text)
					if nt != text {
						text = nt
						flips++
					}
				}
				sb.WriteString(text)
				if i+1 < len(spans) {
					gap := src[sp.End:spans[i+1].Start]
					if gap != "" && !frozen[i+1] && r.Chance(2, 3) {
						first, _ := firstRune(gap)
						if isSpaceRune(first) {
							gap = pick(r, gapPool)
							changed++
						}
					} else if !frozen[i+1] && toggleGaps && (punct(sp.Tok) || punct(spans[i+1].Tok)) && r.Chance(1, 3) {
						// the amount of whitespace includes none at all: next to punctuation an empty gap may become a
						// gap and a whitespace-only gap may vanish (the model lexer must certify the token sequence)
						if gap == "" {
							gap = pick(r, gapPool)
							changed++
						} else if strings.TrimFunc(gap, isSpaceRune) == "" {
							gap = ""
							changed++
						}
					}
					sb.WriteString(gap)
				}
			}
			tail := src[spans[len(spans)-1].End:]
			if dropSemis {
				tail = strings.ReplaceAll(tail, ";", "")
			}
			sb.WriteString(tail)
			// trailing semicolons (only after a newline, in case the statement ends in a line comment)
			tr := r.Intn(5)
			if dropSemis && tr < 2 {
				tr = 2 + tr
			}
			switch tr {
			case 0:
				sb.WriteString("\n;")
			case 1:
				sb.WriteString("\n ; ;\n")
			case 2:
				sb.WriteString("\n" + pick(r, gapPool))
			}
			alt := sb.String()
			if alt == src {
				continue
			}
			// the proved-equivalent model lexer certifies that the token sequence is the same up to keyword case
			modelAlt, ok := pumpedFromModel(w.Model().Ask("lex " + hexOrDash([]byte(alt))))
			if !ok || !sameTokensModuloSemisAndCase(modelBase, modelAlt, flips > 0) {
				w.Count("skipped:not-a-relayout")
				continue
			}
			w.Eval([]byte(alt), true)
			w.Count("relayouts")
			w.stats.Counters["gaps-replaced"] += changed
			w.stats.Counters["keywords-case-flipped"] += flips
			obs := safeParse([]byte(alt), 1<<22)
			fail := ""
			switch {
			case obs.Panicked:
				fail = "panic: " + obs.PanicVal
			case obs.Budget:
				fail = "did not terminate"
			case obs.Err != nil:
				fail = "error: " + obs.Err.Error()
			case len(obs.Stmts) != len(base.Stmts):
				fail = fmt.Sprintf("%d statements instead of %d", len(obs.Stmts), len(base.Stmts))
			default:
				for i, s := range obs.Stmts {
					e := safeExplain(s)
					if e.Panicked {
						fail = "Explain panicked: " + e.PanicVal
						break
					}
					if e.Out != baseEx[i] {
						fail = "EXPLAIN differs: " + firstLineDiff(baseEx[i], e.Out)
						break
					}
				}
			}
			if fail != "" {
				what := "gap"
				if flips > 0 && changed == 0 {
					what = "keyword-case"
				} else if flips > 0 {
					what = "gap+keyword-case"
				}
				w.Report(Finding{Kind: "layout", Key: "layout@" + what, Input: fmt.Sprintf("%q", alt), InputHex: hexs([]byte(alt)),
					Detail: fmt.Sprintf("original: %q\n%s", trunc(src, 600), fail)})
			}
			if w.stats.Evaluations%4000 == 1 {
				w.Sample(fmt.Sprintf("%q  ~  %q", trunc(src, 100), trunc(alt, 160)))
			}
		}
	}

	// sliding window: the amount of whitespace is layout whatever its size. Short statements made of comments of every
	// kind, multi-character tokens, quotes and multi-byte characters are pushed by a run of blanks (leading, or inside a
	// gap) so that each of their bytes in turn meets the 4096 / 8192 byte marks of the input (read-buffer boundaries).
	windowStmts := []string{
		"SELECT 1 /* c */ , 2 /* /* nested */ */ FROM t -- tail\n WHERE a >= 1",
		"SELECT 'it''s', 'é€😀', `q``q`, \"d\"\"d\" FROM t # hash\n ORDER BY 1",
		"SELECT a <= b, c != d, e <> f, g || h, i::UInt8, x -> y, k <=> l /*é*/ , 1.5e3, .5, t.1, db.02_t",
		"SELECT $$he;re$$, $tag$ x $tag$, x'4142', {p:UInt8} /* €€€€ */ , 'a\\'b' -- é\n , 3",
		"WITH 1 AS x /**/ SELECT x/**/UNION/**/ALL/**/SELECT 2 /* end */",
	}
	// long comments: a comment is layout whatever its length (line comments and block comments whose length sits around the
	// read-buffer sizes, between the tokens of a short statement)
	{
		baseSQL := "SELECT 1 , 2 FROM t WHERE a >= 1"
		base := safeParse([]byte(baseSQL), 1<<22)
		var lens []int
		for _, m := range []int{4096, 8192} {
			for d := -12; d <= 4; d++ {
				lens = append(lens, m+d)
			}
		}
		lens = append(lens, 20000, 70000)
		if !base.Panicked && base.Err == nil && len(base.Stmts) == 1 {
			want := safeExplain(base.Stmts[0]).Out
			for _, n := range lens {
				for ci, mk := range []func(int) string{
					func(n int) string { return " --" + strings.Repeat("c", n) + "\n" },
					func(n int) string { return " #" + strings.Repeat("c", n) + "\n" },
					func(n int) string { return " /*" + strings.Repeat("c", n) + "*/ " },
					func(n int) string { return " -- é" + strings.Repeat("c", n) + "\n" },
					func(n int) string { return " /* /* " + strings.Repeat("*", n) + " */ */ " },
				} {
					idx, mine := w.Case()
					if !mine {
						continue
					}
					alt := "SELECT 1" + mk(n) + ", 2 FROM t" + mk(n/2) + "WHERE a >= 1"
					w.Begin(idx, []byte(alt), fmt.Sprintf("long-comment:%d:%d", ci, n))
					w.Eval([]byte(alt), true)
					w.Count("long-comment-relayouts")
					obs := safeParse([]byte(alt), 1<<22)
					fail := ""
					switch {
					case obs.Panicked:
						fail = "panic: " + obs.PanicVal
					case obs.Budget:
						fail = "did not terminate"
					case obs.Err != nil:
						fail = "error: " + trunc(obs.Err.Error(), 300)
					case len(obs.Stmts) != 1:
						fail = fmt.Sprintf("%d statements instead of 1", len(obs.Stmts))
					default:
						if e := safeExplain(obs.Stmts[0]); e.Panicked || e.Out != want {
							fail = "EXPLAIN differs: " + firstLineDiff(want, e.Out)
						}
					}
					if fail != "" {
						w.Report(Finding{Kind: "layout", Key: "layout@long-comment", Input: fmt.Sprintf("%q", trunc(alt, 120)+"…"), InputHex: hexs([]byte(alt)),
							Detail: fmt.Sprintf("original: %q with comments of %d and %d bytes (form %d) between its tokens\n%s", baseSQL, n, n/2, ci, fail)})
					}
				}
			}
		}
	}
	for si, ws := range windowStmts {
		base := safeParse([]byte(ws), 1<<22)
		if base.Panicked || base.Err != nil || len(base.Stmts) == 0 {
			w.Count("window:base-not-valid")
			continue
		}
		var baseEx []string
		for _, st := range base.Stmts {
			baseEx = append(baseEx, safeExplain(st).Out)
		}
		for _, mark := range []int{4096, 8192} {
			for pad := mark - len(ws) - 2; pad <= mark+1; pad++ {
				for _, where := range []int{0, 1} {
					idx, mine := w.Case()
					if !mine {
						continue
					}
					var alt string
					if where == 0 {
						alt = strings.Repeat(" ", pad) + ws
					} else { // inside the first gap
						i := strings.IndexByte(ws, ' ')
						alt = ws[:i] + strings.Repeat(" ", pad-i) + ws[i:]
					}
					w.Begin(idx, []byte(alt), fmt.Sprintf("window:%d:%d@%d", si, mark, pad))
					w.Eval([]byte(alt), true)
					w.Count("window-relayouts")
					obs := safeParse([]byte(alt), 1<<22)
					fail := ""
					switch {
					case obs.Panicked:
						fail = "panic: " + obs.PanicVal
					case obs.Budget:
						fail = "did not terminate"
					case obs.Err != nil:
						fail = "error: " + obs.Err.Error()
					case len(obs.Stmts) != len(base.Stmts):
						fail = fmt.Sprintf("%d statements instead of %d", len(obs.Stmts), len(base.Stmts))
					default:
						for i, st := range obs.Stmts {
							if e := safeExplain(st); e.Panicked || e.Out != baseEx[i] {
								fail = "EXPLAIN differs: " + firstLineDiff(baseEx[i], e.Out)
								break
							}
						}
					}
					if fail != "" {
						w.Report(Finding{Kind: "layout", Key: "layout@window", Input: fmt.Sprintf("%q", trunc(alt, 200)+"…"), InputHex: hexs([]byte(alt)),
							Detail: fmt.Sprintf("original: %q, moved by %d blanks (%s)\n%s", ws, pad, []string{"leading", "in the first gap"}[where], fail)})
					}
				}
			}
		}
	}
}

// softKeywords: the words the parser compares identifiers with (every all-upper-case string literal of package
// parser, read from the source being checked): INTERVAL units, TOTALS, ROLLUP, … are lexed as identifiers but used as
// keywords, so C05's "letter case of SQL keywords used as keywords" applies to them wherever their spelling does not
// show up in the EXPLAIN text.
var softKW map[string]bool

func softKeywords() map[string]bool {
	if softKW != nil {
		return softKW
	}
	softKW = map[string]bool{}
	fset := gotoken.NewFileSet()
	matches, _ := filepath.Glob(filepath.Join(repoDir, "parser", "*.go"))
	for _, fn := range matches {
		if strings.HasSuffix(fn, "_test.go") {
			continue
		}
		f, err := goparser.ParseFile(fset, fn, nil, goparser.SkipObjectResolution)
		if err != nil {
			continue
		}
		goast.Inspect(f, func(n goast.Node) bool {
			if bl, ok := n.(*goast.BasicLit); ok && bl.Kind == gotoken.STRING {
				if v, err := strconv.Unquote(bl.Value); err == nil && len(v) >= 2 && len(v) <= 24 && strings.ToUpper(v) == v && strings.ToLower(v) != v {
					for _, wd := range strings.Fields(v) {
						ok := true
						for i := 0; i < len(wd); i++ {
							if !(wd[i] >= 'A' && wd[i] <= 'Z' || wd[i] == '_') {
								ok = false
							}
						}
						if ok && len(wd) >= 2 {
							softKW[wd] = true
						}
					}
				}
			}
			return true
		})
	}
	return softKW
}

func firstRune(s string) (rune, int) {
	for _, r := range s {
		return r, 1
	}
	return 0, 0
}

// sameTokensModuloSemisAndCase compares two pumped token streams (kind,hexval,quoted;…): leading/trailing
// SEMICOLON tokens are ignored and, when keyword case was flipped, keyword values are compared case-insensitively.
func sameTokensModuloSemisAndCase(a, b string, caseFlip bool) bool {
	norm := func(s string) []string {
		ts := strings.Split(strings.TrimSuffix(s, ";"), ";")
		// drop the EOF token and surrounding semicolons
		semi := fmt.Sprint(int(token.SEMICOLON))
		eof := fmt.Sprint(int(token.EOF))
		var out []string
		for _, t := range ts {
			if strings.HasPrefix(t, eof+",") {
				continue
			}
			out = append(out, t)
		}
		for len(out) > 0 && strings.HasPrefix(out[0], semi+",") {
			out = out[1:]
		}
		for len(out) > 0 && strings.HasPrefix(out[len(out)-1], semi+",") {
			out = out[:len(out)-1]
		}
		return out
	}
	x, y := norm(a), norm(b)
	if len(x) != len(y) {
		return false
	}
	for i := range x {
		if x[i] == y[i] {
			continue
		}
		if !caseFlip {
			return false
		}
		fx, fy := strings.Split(x[i], ","), strings.Split(y[i], ",")
		if len(fx) != 3 || len(fy) != 3 || fx[0] != fy[0] || fx[2] != fy[2] || !strings.EqualFold(hexToASCII(fx[1]), hexToASCII(fy[1])) {
			return false
		}
	}
	return true
}

func hexToASCII(h string) string {
	b, ok := unhex(h)
	if !ok {
		return h
	}
	return string(b)
}

func firstLineDiff(a, b string) string {
	al, bl := strings.Split(a, "\n"), strings.Split(b, "\n")
	for i := 0; i < len(al) || i < len(bl); i++ {
		var x, y string
		if i < len(al) {
			x = al[i]
		}
		if i < len(bl) {
			y = bl[i]
		}
		if x != y {
			return fmt.Sprintf("line %d: %q vs %q", i+1, x, y)
		}
	}
	return "no difference"
}

// punct: tokens next to which whitespace is optional in SQL
func punct(t token.Token) bool {
	switch t {
	case token.COMMA, token.LPAREN, token.RPAREN, token.LBRACKET, token.RBRACKET, token.EQ, token.NEQ, token.LT, token.GT, token.LTE, token.GTE,
		token.PLUS, token.ASTERISK, token.SLASH, token.PERCENT, token.CONCAT, token.SEMICOLON, token.QUESTION, token.COLON:
		return true
	}
	return false
}
