import DC.Prelude.Hex

/-!
Go's `unicode/utf8` on byte lists (core-only).

* `decodeRune` mirrors `utf8.DecodeRune` (go/src/unicode/utf8/utf8.go): empty input → `(RuneError, 0)`;
  invalid or short encodings → `(RuneError, 1)`; otherwise the rune and its width 1..4.
  The `first`/`acceptRanges` tables are written out as comparisons.
* `encodeRune` mirrors `utf8.AppendRune` = `strings.Builder.WriteRune` = `string(rune)`:
  surrogates and runes above U+10FFFF are written as U+FFFD (`EF BF BD`).

Runes are `Nat`s (the lexer never produces a negative rune).
-/
namespace DC.Utf8

def runeError : Nat := 0xFFFD

/-- continuation-byte test with explicit accept range (Go: `b1 < accept.lo || accept.hi < b1`). -/
@[inline] def inRange (b : UInt8) (lo hi : Nat) : Bool := lo ≤ b.toNat && b.toNat ≤ hi

/-- `utf8.DecodeRune`. Result: (rune, size). -/
def decodeRune : Bytes → Nat × Nat
  | [] => (runeError, 0)
  | p0 :: t =>
    let b0 := p0.toNat
    if b0 < 0x80 then (b0, 1)                      -- first[p0] = as
    else if b0 < 0xC2 then (runeError, 1)          -- xx
    else if b0 < 0xE0 then                         -- s1: size 2, accept 80..BF
      match t with
      | b1 :: _ =>
        if inRange b1 0x80 0xBF then ((b0 % 32) * 64 + b1.toNat % 64, 2) else (runeError, 1)
      | _ => (runeError, 1)
    else if b0 < 0xF0 then                         -- s2/s3/s4: size 3
      let lo := if b0 = 0xE0 then 0xA0 else 0x80
      let hi := if b0 = 0xED then 0x9F else 0xBF
      match t with
      | b1 :: b2 :: _ =>
        if !inRange b1 lo hi then (runeError, 1)
        else if !inRange b2 0x80 0xBF then (runeError, 1)
        else ((b0 % 16) * 4096 + (b1.toNat % 64) * 64 + b2.toNat % 64, 3)
      | _ => (runeError, 1)
    else if b0 < 0xF5 then                         -- s5/s6/s7: size 4
      let lo := if b0 = 0xF0 then 0x90 else 0x80
      let hi := if b0 = 0xF4 then 0x8F else 0xBF
      match t with
      | b1 :: b2 :: b3 :: _ =>
        if !inRange b1 lo hi then (runeError, 1)
        else if !inRange b2 0x80 0xBF then (runeError, 1)
        else if !inRange b3 0x80 0xBF then (runeError, 1)
        else ((b0 % 8) * 262144 + (b1.toNat % 64) * 4096 + (b2.toNat % 64) * 64 + b3.toNat % 64, 4)
      | _ => (runeError, 1)
    else (runeError, 1)                            -- F5..FF: xx

/-- `utf8.AppendRune(nil, r)` for a non-negative rune. -/
def encodeRune (r : Nat) : Bytes :=
  if r < 0x80 then [r.toUInt8]
  else if r < 0x800 then [(0xC0 + r / 64).toUInt8, (0x80 + r % 64).toUInt8]
  else if r > 0x10FFFF ∨ (0xD800 ≤ r ∧ r ≤ 0xDFFF) then [0xEF, 0xBF, 0xBD]
  else if r < 0x10000 then
    [(0xE0 + r / 4096).toUInt8, (0x80 + (r / 64) % 64).toUInt8, (0x80 + r % 64).toUInt8]
  else
    [(0xF0 + r / 262144).toUInt8, (0x80 + (r / 4096) % 64).toUInt8,
     (0x80 + (r / 64) % 64).toUInt8, (0x80 + r % 64).toUInt8]

/-- the bytes of `r` pushed onto a reversed accumulator (`sb.WriteRune(r)` on a reversed buffer). -/
def pushRune (acc : Bytes) (r : Nat) : Bytes := (encodeRune r).reverse ++ acc

theorem decodeRune_nil : decodeRune [] = (runeError, 0) := rfl

theorem decodeRune_size_pos (b : UInt8) (t : Bytes) : 0 < (decodeRune (b :: t)).2 := by
  unfold decodeRune
  simp only []
  repeat' split
  all_goals simp

theorem decodeRune_size_le_four (l : Bytes) : (decodeRune l).2 ≤ 4 := by
  unfold decodeRune
  split
  · simp
  · simp only []
    repeat' split
    all_goals simp

theorem decodeRune_size_le_length (l : Bytes) : (decodeRune l).2 ≤ l.length := by
  unfold decodeRune
  split
  · simp
  · simp only []
    repeat' split
    all_goals simp
    all_goals omega

theorem encodeRune_ne_nil (r : Nat) : encodeRune r ≠ [] := by
  unfold encodeRune
  repeat' split
  all_goals simp

end DC.Utf8
