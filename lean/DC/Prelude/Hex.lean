/-
Byte strings and hex transport for the line protocol between the Go harness and the Lean driver.
Core-only (no Mathlib): everything the `dcmodel` executable links must stay Mathlib-free.
-/
namespace DC

/-- Go strings / byte slices are modelled as lists of bytes. -/
abbrev Bytes := List UInt8

namespace Hex

def nibble (c : Char) : Option UInt8 :=
  if '0' ≤ c ∧ c ≤ '9' then some (c.toNat - '0'.toNat).toUInt8
  else if 'a' ≤ c ∧ c ≤ 'f' then some (c.toNat - 'a'.toNat + 10).toUInt8
  else if 'A' ≤ c ∧ c ≤ 'F' then some (c.toNat - 'A'.toNat + 10).toUInt8
  else none

def decodeChars : List Char → Option Bytes
  | [] => some []
  | [_] => none
  | a :: b :: rest =>
    match nibble a, nibble b, decodeChars rest with
    | some x, some y, some r => some ((x * 16 + y) :: r)
    | _, _, _ => none

/-- decode a hex string; "-" denotes the empty byte string. -/
def decode (s : String) : Option Bytes :=
  if s == "-" then some [] else decodeChars s.toList

def digit (n : Nat) : Char :=
  if n < 10 then Char.ofNat (48 + n) else Char.ofNat (87 + n)

def encodeByte (b : UInt8) : List Char := [digit (b.toNat / 16), digit (b.toNat % 16)]

/-- encode as lower-case hex; the empty byte string is "-". -/
def encode (bs : Bytes) : String :=
  if bs.isEmpty then "-" else String.ofList (bs.flatMap encodeByte)

end Hex

/-- UTF-8 bytes of a Lean string. -/
def strBytes (s : String) : Bytes := s.toUTF8.toList

end DC
