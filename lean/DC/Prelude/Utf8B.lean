import DC.Prelude.Hex

/-!
# `unicode/utf8`: `DecodeRune` and `FullRune` (as used by `bufio.Reader.ReadRune`)

Mirror of `$GOROOT/src/unicode/utf8/utf8.go` (go1.25): the `first` table, `acceptRanges`, `DecodeRune`
(utf8.go:157) and `FullRune` (utf8.go:110). Runes are `Nat`s. Core-only, executable.

This file is private to the `bufio` component (`DC.Model.Bufio`); the lexer component has its own
`DC/Prelude/Utf8.lean` with the same Go semantics — the two can be merged (prove `Utf8B.decodeRune = Utf8.decodeRune`
or replace one by the other) without touching any statement in `DC/Props/C14.lean`.
-/
namespace DC.Utf8B

/-- `utf8.RuneError` -/
def runeError : Nat := 0xFFFD

/-- `utf8.UTFMax` -/
def utfMax : Nat := 4

/-- `first[b]` (utf8.go:71): `as = 0xF0` ASCII, `xx = 0xF1` invalid, otherwise `accept-index <<< 4 ||| size`. -/
def first (b : UInt8) : Nat :=
  let n := b.toNat
  if n < 0x80 then 0xF0          -- as
  else if n < 0xC2 then 0xF1     -- xx (continuation bytes, C0, C1)
  else if n < 0xE0 then 0x02     -- s1
  else if n = 0xE0 then 0x13     -- s2
  else if n < 0xED then 0x03     -- s3
  else if n = 0xED then 0x23     -- s4
  else if n < 0xF0 then 0x03     -- s3
  else if n = 0xF0 then 0x34     -- s5
  else if n < 0xF4 then 0x04     -- s6
  else if n = 0xF4 then 0x44     -- s7
  else 0xF1                      -- xx

/-- `acceptRanges[i].lo` (utf8.go:100) -/
def acceptLo (i : Nat) : Nat :=
  if i = 1 then 0xA0 else if i = 3 then 0x90 else if i ≤ 4 then 0x80 else 0

/-- `acceptRanges[i].hi`; entries 5..15 of the Go array are the zero value `{0,0}`. -/
def acceptHi (i : Nat) : Nat :=
  if i = 2 then 0x9F else if i = 4 then 0x8F else if i ≤ 4 then 0xBF else 0

/-- a byte outside `[lo, hi]` -/
def outside (b : UInt8) (lo hi : Nat) : Bool := b.toNat < lo || hi < b.toNat

/-- not a continuation byte: `b < locb || hicb < b` -/
def notCont (b : UInt8) : Bool := outside b 0x80 0xBF

def rune2 (p0 b1 : UInt8) : Nat := (p0.toNat % 32) * 64 + b1.toNat % 64
def rune3 (p0 b1 b2 : UInt8) : Nat := (p0.toNat % 16) * 4096 + (b1.toNat % 64) * 64 + b2.toNat % 64
def rune4 (p0 b1 b2 b3 : UInt8) : Nat :=
  (p0.toNat % 8) * 262144 + (b1.toNat % 64) * 4096 + (b2.toNat % 64) * 64 + b3.toNat % 64

/-- `utf8.DecodeRune` (utf8.go:157). Returns `(rune, size)`; `(RuneError, 0)` for the empty slice,
`(RuneError, 1)` for an invalid or incomplete encoding. -/
def decodeRune (p : Bytes) : Nat × Nat :=
  match p with
  | [] => (runeError, 0)
  | p0 :: t =>
    let x := first p0
    if x ≥ 0xF0 then (if x = 0xF0 then p0.toNat else runeError, 1)
    else
      let sz := x % 8
      if t.length + 1 < sz then (runeError, 1)
      else match t with
        | [] => (runeError, 1)
        | b1 :: t1 =>
          if outside b1 (acceptLo (x / 16)) (acceptHi (x / 16)) then (runeError, 1)
          else if sz ≤ 2 then (rune2 p0 b1, 2)
          else match t1 with
            | [] => (runeError, 1)
            | b2 :: t2 =>
              if notCont b2 then (runeError, 1)
              else if sz ≤ 3 then (rune3 p0 b1 b2, 3)
              else match t2 with
                | [] => (runeError, 1)
                | b3 :: _ =>
                  if notCont b3 then (runeError, 1)
                  else (rune4 p0 b1 b2 b3, 4)

/-- `utf8.FullRune` (utf8.go:110). -/
def fullRune (p : Bytes) : Bool :=
  match p with
  | [] => false
  | p0 :: t =>
    let x := first p0
    if t.length + 1 ≥ x % 8 then true
    else match t with
      | [] => false
      | b1 :: t1 =>
        if outside b1 (acceptLo (x / 16)) (acceptHi (x / 16)) then true
        else match t1 with
          | [] => false
          | b2 :: _ => notCont b2

end DC.Utf8B
