/-!
# C02 — the reviewed list of loops without a Lean-checked progress certificate

Hand-written mirror of `/verif/assumed_loops.json`.  `DC.Props.C02.uncertified_are_assumed` states that the
regenerated list `DC.Gen.Loops.uncertified` has exactly these keys, so a NEW loop that does not certify (or an entry
here that became stale) breaks `lake build`.  Keep this list short; every entry needs a human termination argument.
-/
namespace DC.Spec.AssumedLoops

structure Assumed where
  /-- enclosing function -/
  func : String
  /-- n-th `for` statement of that function in source order (from 0) -/
  ord : Nat
  /-- header text as printed by the translator -/
  cond : String
  /-- why the loop terminates with linear total work although it has no certificate -/
  reason : String

def Assumed.key (a : Assumed) : String × Nat × String := (a.func, a.ord, a.cond)

def assumed : List Assumed := [
  { func := "nextToken", ord := 0, cond := "for",
    reason := "the pump `for { p.peekPeek = p.lexer.NextToken(); if WHITESPACE or LINE_COMMENT { continue }; break }` does not move p.current at all; every iteration consumes one lexer token and the lexer's token sequence is finite and ends in EOF, which is neither WHITESPACE nor LINE_COMMENT (C12 tokenize_eof_last), so it runs at most (remaining lexer tokens) times; summed over a parse this is linear in the input." },
  { func := "parseParenthesizedSelect", ord := 0, cond := "for $0:int > 0 && !$1:*parser.Parser.currentIs(token.EOF)" /- source text when reviewed: for depth > 0 && !p.currentIs(token.EOF) -/,
    reason := "the only path to the back edge without p.nextToken() is the one where `depth--` has just made depth == 0; the loop condition `depth > 0` then fails, so this happens at most once, as the last iteration; every other iteration advances at a non-EOF token.  Needs the value of the local counter, which the skeleton language does not track." }]

end DC.Spec.AssumedLoops
