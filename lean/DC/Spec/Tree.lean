import DC.Prelude.Hex
import DC.Gen.NodeKinds

/-!
# C04 monitor: the EXPLAIN text is a single rooted tree

Lines are byte strings (`DC.Bytes`): Go strings are bytes and `Explain` can print bytes that are not
valid UTF-8 (string literals are copied through), so nothing here decodes UTF-8.

* `Tree` / `render`: the layout the property describes (one line per node, one space per level,
  an optional ` (children N)` suffix that states the number of direct children).
* `check`: reads a list of lines back.  It is a right-to-left fold (`parse`) that keeps the list of
  finished subtrees that have not yet been adopted by a parent.
* `check_iff`: `check ls = true ↔ ∃ t, render t 0 = ls ∧ t.good = true` for *all* inputs.

Parsing ambiguity, handled syntactically: the suffix is recognised at the END of a line as
` (children <one or more decimal digits>)`.  A node printed *without* a count must therefore carry a
label that does not itself end in that pattern (`good`), and the printed digits must be the canonical
decimal numeral of the number of children (`(children 007)` is rejected, `(children 0)` on a leaf is
accepted: DESIGN §7).
-/
namespace DC.Spec.Tree
open DC

/-- one line of EXPLAIN text, without the line terminator -/
abbrev Line := Bytes

inductive Tree where
  | node (label : Bytes) (hasCount : Bool) (kids : List Tree)
  deriving Repr

/-! ## decimal numerals -/

def isDigit (b : UInt8) : Bool := 48 ≤ b && b ≤ 57

/-- decimal digits of `n`, least significant first -/
def showDecRev (n : Nat) : Bytes :=
  if n < 10 then [(48 + n).toUInt8] else (48 + n % 10).toUInt8 :: showDecRev (n / 10)
termination_by n
decreasing_by omega

/-- the decimal numeral of `n` as ASCII bytes (what Go's `%d` prints for a non-negative int) -/
def showDec (n : Nat) : Bytes := (showDecRev n).reverse

/-- value of a little-endian digit string -/
def decValRev : Bytes → Nat
  | [] => 0
  | b :: r => (b.toNat - 48) + 10 * decValRev r

/-! ## rendering -/

def sp : UInt8 := 32

/-- the bytes of `" (children "` -/
def tag : Bytes := [32, 40, 99, 104, 105, 108, 100, 114, 101, 110, 32]

/-- `tag` reversed -/
def tagRev : Bytes := [32, 110, 101, 114, 100, 108, 105, 104, 99, 40, 32]

/-- the bytes of ` (children N)` -/
def suffix (digits : Bytes) : Bytes := tag ++ digits ++ [41]

def line (depth : Nat) (label : Bytes) (hasCount : Bool) (n : Nat) : Line :=
  List.replicate depth sp ++ label ++ (if hasCount then suffix (showDec n) else [])

mutual
/-- one line per node, children one level (= one space) deeper, in order -/
def render : Tree → Nat → List Line
  | .node l c ks, d => line d l c ks.length :: renderList ks (d + 1)
def renderList : List Tree → Nat → List Line
  | [], _ => []
  | t :: ts, d => render t d ++ renderList ts d
end

/-! ## reading a line -/

/-- recognise, on the REVERSED text after the indentation, a trailing ` (children <digits>)`;
answers the digits and the label, both still reversed. -/
def splitCountRev (r : Bytes) : Option (Bytes × Bytes) :=
  match r with
  | [] => none
  | b :: r =>
    if b = 41 then
      let ds := r.takeWhile isDigit
      let r' := r.dropWhile isDigit
      if ds.isEmpty then none
      else if tagRev.isPrefixOf r' then some (ds, r'.drop tagRev.length) else none
    else none

/-- a parsed line: indentation, label, printed count digits (if the suffix is present) -/
structure PL where
  depth : Nat
  label : Bytes
  cnt : Option Bytes
  deriving Repr, DecidableEq

/-- number of leading spaces -/
def indentOf (l : Line) : Nat := (l.takeWhile (· == sp)).length

/-- the line after its leading spaces -/
def body (l : Line) : Bytes := l.dropWhile (· == sp)

def mkPL (d : Nat) (rest : Bytes) : Option (Bytes × Bytes) → PL
  | some (dsr, labr) => ⟨d, labr.reverse, some dsr.reverse⟩
  | none => ⟨d, rest, none⟩

def decode (l : Line) : PL := mkPL (indentOf l) (body l) (splitCountRev (body l).reverse)

def encode (p : PL) : Line :=
  List.replicate p.depth sp ++ p.label ++ (match p.cnt with | none => [] | some ds => suffix ds)

/-! ## the well-formedness side conditions on a tree -/

/-- label is not empty, does not start with a space; a node printed without a count has no children and
its label does not end in the syntactic count suffix. -/
def nodeGood (label : Bytes) (hasCount : Bool) (kids : List Tree) : Bool :=
  !label.isEmpty && label.head? != some sp &&
  (hasCount || (kids.isEmpty && (splitCountRev label.reverse).isNone))

mutual
def Tree.good : Tree → Bool
  | .node l c ks => nodeGood l c ks && goodList ks
def goodList : List Tree → Bool
  | [] => true
  | t :: ts => t.good && goodList ts
end

/-! ## the checker -/

/-- finished subtrees (with the depth of their root line), in order of appearance -/
abbrev Stack := List (Nat × Tree)

def deeper (d : Nat) (e : Nat × Tree) : Bool := decide (d < e.1)

/-- the new node for a line `p` whose children are the subtrees `kids` -/
def mkNode (p : PL) (kids rest : Stack) : Option Stack :=
  match p.cnt with
  | none => if kids.isEmpty then some ((p.depth, .node p.label false []) :: rest) else none
  | some ds =>
    if ds = showDec kids.length then some ((p.depth, .node p.label true (kids.map (·.2))) :: rest)
    else none

/-- prepend one line to an already parsed tail: the maximal run of strictly deeper subtrees that
follows must consist of subtrees exactly one level deeper; they become the children. -/
def step (l : Line) (st : Stack) : Option Stack :=
  if (decode l).label.isEmpty then none
  else if (st.takeWhile (deeper (decode l).depth)).all (fun e => e.1 == (decode l).depth + 1) then
    mkNode (decode l) (st.takeWhile (deeper (decode l).depth)) (st.dropWhile (deeper (decode l).depth))
  else none

def parse : List Line → Option Stack
  | [] => some []
  | l :: ls => (parse ls).bind (step l)

/-- the lines are exactly one tree rooted at depth 0 -/
def check (ls : List Line) : Bool :=
  match parse ls with
  | some [(0, _)] => true
  | _ => false

def renderStack : Stack → List Line
  | [] => []
  | (d, t) :: st => render t d ++ renderStack st

def goodStack : Stack → Bool
  | [] => true
  | (_, t) :: st => t.good && goodStack st

/-! ## lemmas on lists of bytes -/

theorem takeWhile_eq_replicate (a : UInt8) (l : Bytes) :
    l.takeWhile (· == a) = List.replicate (l.takeWhile (· == a)).length a := by
  induction l with
  | nil => simp
  | cons b l ih =>
    by_cases h : b = a
    · subst h
      simp only [List.takeWhile_cons, beq_self_eq_true, ↓reduceIte, List.length_cons, List.replicate_succ]
      rw [← ih]
    · simp [h]

theorem takeWhile_replicate_append (a : UInt8) (n : Nat) (l : Bytes) (h : l.head? ≠ some a) :
    (List.replicate n a ++ l).takeWhile (· == a) = List.replicate n a := by
  induction n with
  | zero =>
    cases l with
    | nil => simp
    | cons b l =>
      have : b ≠ a := by simpa using h
      simp [this]
  | succ n ih => simp [List.replicate_succ, ih]

theorem dropWhile_replicate_append (a : UInt8) (n : Nat) (l : Bytes) (h : l.head? ≠ some a) :
    (List.replicate n a ++ l).dropWhile (· == a) = l := by
  induction n with
  | zero =>
    cases l with
    | nil => simp
    | cons b l =>
      have : b ≠ a := by simpa using h
      simp [this]
  | succ n ih => simp [List.replicate_succ, ih]

theorem head?_dropWhile_ne (a : UInt8) (l : Bytes) : (l.dropWhile (· == a)).head? ≠ some a := by
  induction l with
  | nil => simp
  | cons b l ih =>
    by_cases h : b = a
    · subst h; simpa [List.dropWhile_cons] using ih
    · simp [h]

theorem takeWhile_append_of_all {α} (p : α → Bool) (xs ys : List α) (h : ∀ x ∈ xs, p x = true)
    (hy : ∀ y, ys.head? = some y → p y = false) :
    (xs ++ ys).takeWhile p = xs ∧ (xs ++ ys).dropWhile p = ys := by
  induction xs with
  | nil =>
    cases ys with
    | nil => simp
    | cons y ys =>
      have := hy y rfl
      simp [this]
  | cons x xs ih =>
    have hx := h x (by simp)
    have ih' := ih (fun z hz => h z (by simp [hz]))
    simp [hx, ih'.1, ih'.2]

/-! ## decimal numerals: digits only, never empty, denote the number -/

theorem showDecRev_ne_nil (n : Nat) : showDecRev n ≠ [] := by
  unfold showDecRev; split <;> simp

theorem showDecRev_digits (n : Nat) : ∀ b ∈ showDecRev n, isDigit b = true := by
  induction n using Nat.strongRecOn with
  | _ n ih =>
    unfold showDecRev
    split
    · rename_i h
      intro b hb
      simp only [List.mem_singleton] at hb
      subst hb
      have : n = 0 ∨ n = 1 ∨ n = 2 ∨ n = 3 ∨ n = 4 ∨ n = 5 ∨ n = 6 ∨ n = 7 ∨ n = 8 ∨ n = 9 := by omega
      rcases this with h | h | h | h | h | h | h | h | h | h <;> subst h <;> decide
    · rename_i h
      intro b hb
      simp only [List.mem_cons] at hb
      rcases hb with hb | hb
      · subst hb
        have : n % 10 = 0 ∨ n % 10 = 1 ∨ n % 10 = 2 ∨ n % 10 = 3 ∨ n % 10 = 4 ∨ n % 10 = 5 ∨ n % 10 = 6 ∨
            n % 10 = 7 ∨ n % 10 = 8 ∨ n % 10 = 9 := by omega
        rcases this with h | h | h | h | h | h | h | h | h | h <;> rw [h] <;> decide
      · exact ih (n / 10) (by omega) b hb

/-- `showDec n` is a numeral of `n`. -/
theorem decValRev_showDecRev (n : Nat) : decValRev (showDecRev n) = n := by
  induction n using Nat.strongRecOn with
  | _ n ih =>
    unfold showDecRev
    split
    · rename_i h
      have : n = 0 ∨ n = 1 ∨ n = 2 ∨ n = 3 ∨ n = 4 ∨ n = 5 ∨ n = 6 ∨ n = 7 ∨ n = 8 ∨ n = 9 := by omega
      rcases this with h | h | h | h | h | h | h | h | h | h <;> subst h <;> decide
    · rename_i h
      simp only [decValRev]
      rw [ih (n / 10) (by omega)]
      have : n % 10 = 0 ∨ n % 10 = 1 ∨ n % 10 = 2 ∨ n % 10 = 3 ∨ n % 10 = 4 ∨ n % 10 = 5 ∨ n % 10 = 6 ∨
          n % 10 = 7 ∨ n % 10 = 8 ∨ n % 10 = 9 := by omega
      rcases this with h | h | h | h | h | h | h | h | h | h <;> rw [h] <;> simp <;> omega

/-! ## a line and what is read back from it -/

theorem splitCountRev_some {r ds lab : Bytes} (h : splitCountRev r = some (ds, lab)) :
    r = 41 :: ds ++ tagRev ++ lab := by
  unfold splitCountRev at h
  cases r with
  | nil => simp at h
  | cons b r =>
    simp only at h
    split at h
    · rename_i hb
      split at h
      · simp at h
      · split at h
        · rename_i hp
          simp only [Option.some.injEq, Prod.mk.injEq] at h
          obtain ⟨h1, h2⟩ := h
          rw [List.isPrefixOf_iff_prefix] at hp
          obtain ⟨t, ht⟩ := hp
          subst hb
          have h3 : lab = t := by
            rw [← h2, ← ht]; simp
          rw [h3, ← h1]
          simp only [List.cons_append, List.append_assoc, List.cons.injEq, true_and]
          rw [ht]
          exact (List.takeWhile_append_dropWhile (p := isDigit) (l := r)).symm
        · simp at h
    · simp at h

theorem splitCountRev_suffix (ds lab : Bytes) (hne : ds ≠ []) (hd : ∀ b ∈ ds, isDigit b = true) :
    splitCountRev (41 :: ds ++ tagRev ++ lab) = some (ds, lab) := by
  have key := takeWhile_append_of_all isDigit ds (tagRev ++ lab) hd (by
    intro y hy
    have : y = 32 := by simpa [tagRev] using hy.symm
    subst this; decide)
  unfold splitCountRev
  simp only [List.cons_append, List.append_assoc, ↓reduceIte]
  rw [key.1, key.2]
  have h1 : ds.isEmpty = false := by cases ds <;> simp_all
  simp [h1]

theorem body_of_split {l : Line} {dsr labr : Bytes}
    (hs : splitCountRev (body l).reverse = some (dsr, labr)) :
    body l = labr.reverse ++ suffix dsr.reverse := by
  have h3 := splitCountRev_some hs
  have := congrArg List.reverse h3
  rw [List.reverse_reverse] at this
  rw [this]
  simp [suffix, tag, tagRev]

theorem indent_body (l : Line) : List.replicate (indentOf l) sp ++ body l = l := by
  unfold indentOf body
  rw [← takeWhile_eq_replicate sp l]
  exact List.takeWhile_append_dropWhile

/-- what `decode` reads is what was written: every line is the encoding of its decoding. -/
theorem encode_decode (l : Line) : encode (decode l) = l := by
  unfold decode
  cases hs : splitCountRev (body l).reverse with
  | none =>
    simp only [mkPL, encode, List.append_nil]
    exact indent_body l
  | some pr =>
    obtain ⟨dsr, labr⟩ := pr
    simp only [mkPL, encode]
    rw [List.append_assoc, ← body_of_split hs]
    exact indent_body l

/-- decoding a rendered line gives back depth, label and the printed count. -/
theorem decode_line (d : Nat) (label : Bytes) (c : Bool) (n : Nat)
    (hne : label ≠ []) (hsp : label.head? ≠ some sp)
    (hno : c = false → splitCountRev label.reverse = none) :
    decode (line d label c n) = ⟨d, label, if c then some (showDec n) else none⟩ := by
  have hh : (label ++ (if c then suffix (showDec n) else [])).head? ≠ some sp := by
    cases label with
    | nil => exact absurd rfl hne
    | cons b l => simpa using hsp
  have hi : indentOf (line d label c n) = d := by
    unfold indentOf line
    rw [List.append_assoc, takeWhile_replicate_append sp d _ hh, List.length_replicate]
  have hb : body (line d label c n) = label ++ (if c then suffix (showDec n) else []) := by
    unfold body line
    rw [List.append_assoc, dropWhile_replicate_append sp d _ hh]
  unfold decode
  rw [hi, hb]
  cases c with
  | false =>
    simp only [Bool.false_eq_true, ↓reduceIte, List.append_nil]
    rw [hno rfl]
    rfl
  | true =>
    simp only [↓reduceIte]
    have : (label ++ suffix (showDec n)).reverse = 41 :: showDecRev n ++ tagRev ++ label.reverse := by
      simp [suffix, showDec, tag, tagRev]
    rw [this, splitCountRev_suffix _ _ (showDecRev_ne_nil n) (showDecRev_digits n)]
    simp [mkPL, showDec]

/-- the label read from a line never starts with a space -/
theorem decode_label_head (l : Line) (hne : (decode l).label ≠ []) : (decode l).label.head? ≠ some sp := by
  have hd : (body l).head? ≠ some sp := head?_dropWhile_ne sp l
  unfold decode at hne ⊢
  cases hs : splitCountRev (body l).reverse with
  | none => simpa [mkPL] using hd
  | some pr =>
    obtain ⟨dsr, labr⟩ := pr
    rw [hs] at hne
    simp only [mkPL] at hne ⊢
    rw [body_of_split hs] at hd
    cases hr : labr.reverse with
    | nil => exact absurd hr hne
    | cons b t => rw [hr] at hd; simpa using hd

/-- a line read without a count does not end in the count pattern -/
theorem decode_cnt_none (l : Line) (h : (decode l).cnt = none) :
    splitCountRev (decode l).label.reverse = none := by
  unfold decode at h ⊢
  cases hs : splitCountRev (body l).reverse with
  | none => simpa [mkPL] using hs
  | some pr => obtain ⟨dsr, labr⟩ := pr; rw [hs] at h; simp [mkPL] at h

/-! ## soundness: whatever `parse` accepts is the rendering of the stack it returns -/

theorem renderStack_append (a b : Stack) : renderStack (a ++ b) = renderStack a ++ renderStack b := by
  induction a with
  | nil => rfl
  | cons e a ih => obtain ⟨d, t⟩ := e; simp [renderStack, ih]

theorem goodStack_append (a b : Stack) : goodStack (a ++ b) = (goodStack a && goodStack b) := by
  induction a with
  | nil => rfl
  | cons e a ih => obtain ⟨d, t⟩ := e; simp [goodStack, ih, Bool.and_assoc]

theorem renderStack_kids (d : Nat) (ks : Stack) (h : ks.all (fun e => e.1 == d) = true) :
    renderStack ks = renderList (ks.map (·.2)) d := by
  induction ks with
  | nil => rfl
  | cons e ks ih =>
    obtain ⟨d', t⟩ := e
    simp only [List.all_cons, Bool.and_eq_true, beq_iff_eq] at h
    obtain ⟨h1, h2⟩ := h
    subst h1
    simp [renderStack, renderList, ih h2]

theorem goodStack_kids (ks : Stack) : goodStack ks = goodList (ks.map (·.2)) := by
  induction ks with
  | nil => rfl
  | cons e ks ih => obtain ⟨d, t⟩ := e; simp [goodStack, goodList, ih]

theorem mkNode_sound {p : PL} {kids rest st' : Stack} (h : mkNode p kids rest = some st')
    (hall : kids.all (fun e => e.1 == p.depth + 1) = true)
    (hne : p.label ≠ []) (hhead : p.label.head? ≠ some sp)
    (hno : p.cnt = none → splitCountRev p.label.reverse = none) :
    renderStack st' = encode p :: renderStack (kids ++ rest) ∧
      (goodStack (kids ++ rest) = true → goodStack st' = true) := by
  have hlab : (!p.label.isEmpty && p.label.head? != some sp) = true := by
    cases hl : p.label with
    | nil => exact absurd hl hne
    | cons b t => rw [hl] at hhead; simpa using hhead
  unfold mkNode at h
  cases hc : p.cnt with
  | none =>
    rw [hc] at h
    simp only at h
    split at h
    rotate_left
    · simp at h
    rename_i hemp
    have hk : kids = [] := by simpa using hemp
    subst hk
    simp only [Option.some.injEq] at h
    subst h
    constructor
    · simp [renderStack, render, renderList, line, encode, hc]
    · intro hg
      simp only [List.nil_append] at hg
      simp [goodStack, Tree.good, nodeGood, goodList, hg, hno hc, hlab]
  | some ds =>
    rw [hc] at h
    simp only at h
    split at h
    rotate_left
    · simp at h
    rename_i hds
    simp only [Option.some.injEq] at h
    subst h
    constructor
    · rw [renderStack_append, renderStack_kids _ _ hall]
      simp [renderStack, render, line, encode, hc, hds]
    · intro hg
      rw [goodStack_append, Bool.and_eq_true] at hg
      simp [goodStack, Tree.good, nodeGood, hg.2, ← goodStack_kids, hg.1, hlab]

theorem step_sound {l : Line} {st st' : Stack} (h : step l st = some st') :
    renderStack st' = l :: renderStack st ∧ (goodStack st = true → goodStack st' = true) := by
  unfold step at h
  split at h
  · simp at h
  rename_i hlab
  split at h
  rotate_left
  · simp at h
  rename_i hall
  have hne : (decode l).label ≠ [] := by
    intro hc; rw [hc] at hlab; simp at hlab
  have := mkNode_sound h hall hne (decode_label_head l hne) (decode_cnt_none l)
  rw [List.takeWhile_append_dropWhile, encode_decode] at this
  exact this

theorem parse_sound : ∀ (ls : List Line) (st : Stack), parse ls = some st →
    renderStack st = ls ∧ goodStack st = true
  | [], st, h => by
    simp only [parse, Option.some.injEq] at h
    subst h; exact ⟨rfl, rfl⟩
  | l :: ls, st, h => by
    simp only [parse] at h
    cases hp : parse ls with
    | none => rw [hp] at h; simp at h
    | some st0 =>
      rw [hp] at h
      simp only [Option.bind_some] at h
      have ⟨h1, h2⟩ := parse_sound ls st0 hp
      have ⟨h3, h4⟩ := step_sound h
      exact ⟨by rw [h3, h1], h4 h2⟩

/-! ## completeness: the rendering of a good tree is accepted and read back as that tree -/

/-- the next unadopted subtree (if any) is not deeper than `d` -/
def headLe (d : Nat) (st : Stack) : Prop := ∀ e, st.head? = some e → e.1 ≤ d

theorem parse_append_step (l : Line) (ls : List Line) : parse (l :: ls) = (parse ls).bind (step l) := rfl

theorem step_line (d : Nat) (label : Bytes) (c : Bool) (ks : List Tree) (st : Stack)
    (hg : nodeGood label c ks = true) (hst : headLe d st) :
    step (line d label c ks.length) (ks.map (fun t => (d + 1, t)) ++ st) =
      some ((d, .node label c ks) :: st) := by
  simp only [nodeGood, Bool.and_eq_true, Bool.not_eq_eq_eq_not, Bool.not_true, bne_iff_ne, ne_eq,
    Bool.or_eq_true, List.isEmpty_iff, Option.isNone_iff_eq_none] at hg
  obtain ⟨⟨hne, hsp⟩, hc⟩ := hg
  have hne' : label ≠ [] := by simpa using hne
  have hdec := decode_line d label c ks.length hne' hsp (by
    intro hcf; subst hcf; simpa using hc.resolve_left (by simp) |>.2)
  have key := takeWhile_append_of_all (deeper d) (ks.map (fun t => (d + 1, t))) st
    (by intro x hx; simp only [List.mem_map] at hx; obtain ⟨t, _, rfl⟩ := hx; simp [deeper])
    (by intro y hy; have := hst y hy; simp only [deeper, decide_eq_false_iff_not]; omega)
  have hlab : label.isEmpty = false := by cases label <;> simp_all
  have hall : ((ks.map (fun t => (d + 1, t))).all (fun e : Nat × Tree => e.1 == d + 1)) = true := by
    simp
  have hmap : (ks.map (fun t => (d + 1, t))).map (·.2) = ks := by
    simp [List.map_map, Function.comp_def]
  unfold step
  simp only [hdec]
  rw [key.1, key.2, hall]
  simp only [hlab, Bool.false_eq_true, ↓reduceIte, mkNode]
  cases c with
  | true => simp [hmap]
  | false =>
    have hk : ks = [] := (hc.resolve_left (by simp)).1
    subst hk
    simp

mutual
theorem parse_render : ∀ (t : Tree) (d : Nat) (rest : List Line) (st : Stack),
    t.good = true → parse rest = some st → headLe d st →
    parse (render t d ++ rest) = some ((d, t) :: st)
  | .node l c ks, d, rest, st, hg, hp, hst => by
    simp only [Tree.good, Bool.and_eq_true] at hg
    have hst' : headLe (d + 1) st := fun e he => Nat.le_succ_of_le (hst e he)
    have ih := parse_renderList ks (d + 1) rest st hg.2 hp hst'
    simp only [render, List.cons_append, parse_append_step]
    rw [ih]
    simp only [Option.bind_some]
    exact step_line d l c ks st hg.1 hst
theorem parse_renderList : ∀ (ts : List Tree) (d : Nat) (rest : List Line) (st : Stack),
    goodList ts = true → parse rest = some st → headLe d st →
    parse (renderList ts d ++ rest) = some (ts.map (fun t => (d, t)) ++ st)
  | [], d, rest, st, _, hp, _ => by simpa [renderList] using hp
  | t :: ts, d, rest, st, hg, hp, hst => by
    simp only [goodList, Bool.and_eq_true] at hg
    have ih := parse_renderList ts d rest st hg.2 hp hst
    have hst' : headLe d (ts.map (fun t => (d, t)) ++ st) := by
      intro e he
      cases ts with
      | nil => exact hst e (by simpa using he)
      | cons t' ts' =>
        simp only [List.map_cons, List.cons_append, List.head?_cons, Option.some.injEq] at he
        subst he; exact Nat.le_refl _
    have := parse_render t d (renderList ts d ++ rest) _ hg.1 ih hst'
    simpa [renderList, List.append_assoc] using this
end

/-! ## the specification of `check` -/

/-- **C04 monitor specification.** `check` accepts exactly the renderings (from depth 0) of single
good trees; for every list of lines. -/
theorem check_iff (ls : List Line) :
    check ls = true ↔ ∃ t : Tree, render t 0 = ls ∧ t.good = true := by
  constructor
  · intro h
    unfold check at h
    split at h
    · rename_i t hp
      have ⟨h1, h2⟩ := parse_sound ls _ hp
      refine ⟨t, ?_, ?_⟩
      · simpa [renderStack] using h1
      · simpa [goodStack] using h2
    · simp at h
  · rintro ⟨t, hr, hg⟩
    have := parse_render t 0 [] [] hg rfl (by intro e he; simp at he)
    rw [List.append_nil, hr] at this
    simp [check, this]

/-- the tree is unique: `render` from depth 0 is injective on good trees. -/
theorem render_injective (t u : Tree) (ht : t.good = true) (hu : u.good = true)
    (h : render t 0 = render u 0) : t = u := by
  have h1 := parse_render t 0 [] [] ht rfl (by intro e he; simp at he)
  have h2 := parse_render u 0 [] [] hu rfl (by intro e he; simp at he)
  rw [h] at h1
  rw [h1] at h2
  simpa using h2

/-! ## text ↔ lines -/

/-- split at line feeds; every line of the text must be terminated by one (`none` otherwise) -/
def splitLines : Bytes → Option (List Line)
  | [] => some []
  | b :: bs =>
    if b = 10 then (splitLines bs).map ([] :: ·)
    else match splitLines bs with
      | some (l :: ls) => some ((b :: l) :: ls)
      | _ => none

/-- the text of a list of lines: each followed by one line feed -/
def joinLines : List Line → Bytes
  | [] => []
  | l :: ls => l ++ 10 :: joinLines ls

theorem splitLines_joinLines (ls : List Line) (h : ∀ l ∈ ls, (10 : UInt8) ∉ l) :
    splitLines (joinLines ls) = some ls := by
  induction ls with
  | nil => rfl
  | cons l ls ih =>
    have ih' := ih (fun x hx => h x (by simp [hx]))
    have hl := h l (by simp)
    clear h ih
    induction l with
    | nil => simp [joinLines, splitLines, ih']
    | cons b l ihl =>
      have hb : b ≠ 10 := by intro hc; subst hc; simp at hl
      have := ihl (by intro hc; exact hl (by simp [hc]))
      simp only [joinLines, List.cons_append, splitLines, hb, ↓reduceIte] at this ⊢
      rw [this]

theorem joinLines_of_splitLines : ∀ (t : Bytes) (ls : List Line), splitLines t = some ls →
    joinLines ls = t ∧ ∀ l ∈ ls, (10 : UInt8) ∉ l
  | [], ls, h => by
    simp only [splitLines, Option.some.injEq] at h
    subst h; simp [joinLines]
  | b :: bs, ls, h => by
    simp only [splitLines] at h
    split at h
    · rename_i hb
      cases hs : splitLines bs with
      | none => rw [hs] at h; simp at h
      | some ls0 =>
        rw [hs] at h
        simp only [Option.map_some, Option.some.injEq] at h
        subst h
        have ⟨h1, h2⟩ := joinLines_of_splitLines bs ls0 hs
        subst hb
        refine ⟨by simp [joinLines, h1], ?_⟩
        intro l hl
        simp only [List.mem_cons] at hl
        rcases hl with hl | hl
        · subst hl; simp
        · exact h2 l hl
    · rename_i hb
      split at h
      · rename_i l ls0 hs
        simp only [Option.some.injEq] at h
        subst h
        have ⟨h1, h2⟩ := joinLines_of_splitLines bs (l :: ls0) hs
        refine ⟨by simpa [joinLines] using h1, ?_⟩
        intro x hx
        simp only [List.mem_cons] at hx
        rcases hx with hx | hx
        · subst hx
          have := h2 l (by simp)
          simp only [List.mem_cons, not_or]
          exact ⟨fun hc => hb hc.symm, this⟩
        · exact h2 x (by simp [hx])
      · simp at h

/-! ## node kinds and artefacts -/

/-- first word after the indentation -/
def kindOf (l : Line) : Bytes := (l.dropWhile (· == sp)).takeWhile (· != sp)

def vocabBytes (vocab : List String) : List Bytes := vocab.map strBytes

/-- every line starts with a word of the vocabulary -/
def kindsKnown (vocab : List String) (ls : List Line) : Bool :=
  let v := vocabBytes vocab
  ls.all (fun l => v.contains (kindOf l))

/-- `pat` occurs in `text` -/
def hasInfix (pat : Bytes) : Bytes → Bool
  | [] => pat.isEmpty
  | b :: bs => pat.isPrefixOf (b :: bs) || hasInfix pat bs

theorem hasInfix_iff (pat text : Bytes) : hasInfix pat text = true ↔ pat <:+: text := by
  induction text with
  | nil => simp [hasInfix, List.isEmpty_iff]
  | cons b bs ih =>
    simp only [hasInfix, Bool.or_eq_true, List.isPrefixOf_iff_prefix, ih, List.infix_cons_iff]

/-- `%!`, `<nil>`, `*ast.`, `&{` -/
def artefacts : List Bytes :=
  [[37, 33], [60, 110, 105, 108, 62], [42, 97, 115, 116, 46], [38, 123]]

def noArtefacts (text : Bytes) : Bool := artefacts.all (fun p => !hasInfix p text)

/-! ## diagnosis (informational only: which line, which rule) -/

/-- number of direct children of a line of depth `d` followed by lines of depths `ds` -/
def directKids (d : Nat) : List Nat → Nat
  | [] => 0
  | e :: ds => if e ≤ d then 0 else (if e = d + 1 then 1 else 0) + directKids d ds

def bytesToString (b : Bytes) : String := String.ofList (b.map (fun x => Char.ofNat x.toNat))

def diagShape (prev : Option Nat) (i : Nat) : List PL → Option String
  | [] => none
  | p :: ps =>
    if p.label.isEmpty then some s!"{i} empty-line"
    else match prev with
      | none => if p.depth ≠ 0 then some s!"{i} indent-jump" else diagShape (some p.depth) (i + 1) ps
      | some q =>
        if p.depth = 0 then some s!"{i} multiple-roots"
        else if p.depth > q + 1 then some s!"{i} indent-jump"
        else diagShape (some p.depth) (i + 1) ps

def diagCounts (i : Nat) : List PL → Option String
  | [] => none
  | p :: ps =>
    let k := directKids p.depth (ps.map (·.depth))
    match p.cnt with
    | none => if k ≠ 0 then some s!"{i} children-without-count" else diagCounts (i + 1) ps
    | some ds =>
      if ds ≠ showDec k then some s!"{i} count-mismatch want={bytesToString ds} got={k}"
      else diagCounts (i + 1) ps

def diagKinds (v : List Bytes) (i : Nat) : List Line → Option String
  | [] => none
  | l :: ls => if v.contains (kindOf l) then diagKinds v (i + 1) ls
    else some s!"{i} unknown-kind {Hex.encode (kindOf l)}"

def nodeKindBytes : List Bytes := vocabBytes DC.Gen.NodeKinds.nodeKinds

/-- answer of the `tree` op for the lines of a text -/
def verdict (ls : List Line) : String :=
  if check ls then
    match diagKinds nodeKindBytes 1 ls with
    | none => "ok"
    | some r => "bad " ++ r
  else
    if ls.isEmpty then "bad 0 empty"
    else
      let ps := ls.map decode
      match diagShape none 1 ps with
      | some r => "bad " ++ r
      | none =>
        match diagCounts 1 ps with
        | some r => "bad " ++ r
        | none => "bad 0 unclassified"

def handle (op : String) (args : List String) : Option String :=
  if op == "tree" then
    match args with
    | [h] =>
      match Hex.decode h with
      | none => some "bad-arg"
      | some text =>
        match splitLines text with
        | none => some "bad 0 unterminated-line"
        | some ls => some (verdict ls)
    | _ => some "bad-arg"
  else if op == "artefacts" then
    match args with
    | [h] =>
      match Hex.decode h with
      | none => some "bad-arg"
      | some text =>
        let found := (List.range artefacts.length).filter (fun i => hasInfix (artefacts.getD i []) text)
        some (if found.isEmpty then "none" else ",".intercalate (found.map toString))
    | _ => some "bad-arg"
  else none

end DC.Spec.Tree


/-! ## non-vacuity -/
namespace DC.Spec.Tree

/-- `A (children 1)` / ` B` is accepted … -/
example : check [[65] ++ suffix [49], [32, 66]] = true := by
  rw [check_iff]
  refine ⟨.node [65] true [.node [66] false []], ?_, by decide⟩
  simp [render, renderList, line, showDec, showDecRev, sp]

/-- … a child under a line without a count is rejected, … -/
example : check [[65], [32, 66]] = false := by decide

/-- … as are two roots and an indentation jump. -/
example : check [[65], [66]] = false := by decide
example : check [[65] ++ suffix [49], [32, 32, 66]] = false := by decide

end DC.Spec.Tree
