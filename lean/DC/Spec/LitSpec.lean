import DC.Prelude.Hex

/-!
# Specification of literal rendering (property C09), written without reference to the models

* integers: `canonUInt`, `canonNeg`;
* floats: `clickhouseFloatStyle` — ClickHouse's shortest-digits layout (double-conversion `ToShortest` with the decimal
  point kept for exponents −6 … 20, otherwise `d[.ddd]e[-]N`);
* strings: `quote` (the SQL spelling of an arbitrary byte string) and `canonStr` (what EXPLAIN AST shows: the value is
  written as a quoted string with `writeAnyEscapedString<'\''>`, and the whole line is escaped once more by the same function
  when it is printed as a TSV cell);
* `decodeEscape`: ClickHouse's reading of `\c` inside a quoted literal, restricted to the characters whose behaviour the
  goldens establish (`unestablished` lists the others).

Calibrated against the ClickHouse-generated goldens by the harness (`p_c09.go`, phase 0).
-/
namespace DC.Spec.LitSpec
open DC

/-! ## integers -/

def canonUInt (n : Nat) : String := "UInt64_" ++ toString n
def canonNeg (n : Nat) : String := "Int64_-" ++ toString n

/-! ## floats -/

/-- decimal digits of a natural number, most significant first. -/
def natDigits (n : Nat) : List Char := Nat.toDigits 10 n

/-- `|x| = d₁.d₂…d_k × 10^exp10`, `digits = d₁…d_k` (zero: `"0"`, exponent 0). -/
def clickhouseFloatStyle (neg : Bool) (digits : List Char) (exp10 : Int) : List Char :=
  let sign := if neg then ['-'] else []
  if -6 ≤ exp10 ∧ exp10 < 21 then
    if exp10 < 0 then
      sign ++ ['0', '.'] ++ List.replicate (-exp10 - 1).toNat '0' ++ digits
    else
      let k := exp10.toNat + 1
      if digits.length ≤ k then sign ++ digits ++ List.replicate (k - digits.length) '0'
      else sign ++ digits.take k ++ '.' :: digits.drop k
  else
    sign ++ digits.take 1 ++ (if digits.length > 1 then '.' :: digits.drop 1 else []) ++
      'e' :: ((if exp10 < 0 then ['-'] else []) ++ natDigits exp10.natAbs)

/-! ## strings -/

/-- ClickHouse `writeAnyEscapedString<'\''>` on one byte. -/
def chEscapeByte (b : UInt8) : Bytes :=
  if b = 8 then [92, 98]          -- \b
  else if b = 12 then [92, 102]   -- \f
  else if b = 10 then [92, 110]   -- \n
  else if b = 13 then [92, 114]   -- \r
  else if b = 9 then [92, 116]    -- \t
  else if b = 0 then [92, 48]     -- \0
  else if b = 92 then [92, 92]    -- \\
  else if b = 39 then [92, 39]    -- \'
  else [b]

def chEscape (s : Bytes) : Bytes := s.flatMap chEscapeByte

/-- the `Literal` payload EXPLAIN AST shows for the string value `v`: two applications of the same escaping. -/
def canonStr (v : Bytes) : Bytes := chEscape ([39] ++ chEscape v ++ [39])

/-- continuation byte 80..BF. -/
abbrev IsCont (x : Nat) : Prop := 0x80 ≤ x ∧ x ≤ 0xBF

/-- first two bytes of a well-formed three-byte sequence (Unicode Standard, Table 3-7: E0 A0..BF, E1..EC 80..BF, ED 80..9F, EE..EF 80..BF). -/
abbrev ThreeLead (x0 x1 : Nat) : Prop :=
  (x0 = 0xE0 ∧ 0xA0 ≤ x1 ∧ x1 ≤ 0xBF) ∨ (((0xE1 ≤ x0 ∧ x0 ≤ 0xEC) ∨ x0 = 0xEE ∨ x0 = 0xEF) ∧ IsCont x1) ∨
  (x0 = 0xED ∧ 0x80 ≤ x1 ∧ x1 ≤ 0x9F)

/-- first two bytes of a well-formed four-byte sequence (Table 3-7: F0 90..BF, F1..F3 80..BF, F4 80..8F). -/
abbrev FourLead (x0 x1 : Nat) : Prop :=
  (x0 = 0xF0 ∧ 0x90 ≤ x1 ∧ x1 ≤ 0xBF) ∨ (0xF1 ≤ x0 ∧ x0 ≤ 0xF3 ∧ IsCont x1) ∨ (x0 = 0xF4 ∧ 0x80 ≤ x1 ∧ x1 ≤ 0x8F)

/-- length (2, 3 or 4) of a well-formed multi-byte UTF-8 sequence at the head of `s` (Unicode Standard, Table 3-7); 0 if none. -/
def utf8Len (s : Bytes) : Nat :=
  match s with
  | b0 :: b1 :: rest =>
    if 0xC2 ≤ b0.toNat ∧ b0.toNat ≤ 0xDF then (if IsCont b1.toNat then 2 else 0)
    else if ThreeLead b0.toNat b1.toNat then
      match rest with
      | b2 :: _ => if IsCont b2.toNat then 3 else 0
      | [] => 0
    else if FourLead b0.toNat b1.toNat then
      match rest with
      | b2 :: b3 :: _ => if IsCont b2.toNat ∧ IsCont b3.toNat then 4 else 0
      | _ => 0
    else 0
  | _ => 0

def hexDigit (n : Nat) : UInt8 := if n < 10 then UInt8.ofNat (48 + n) else UInt8.ofNat (87 + n)

/-- `\xHH` -/
def hexEscape (b : UInt8) : Bytes := [92, 120, hexDigit (b.toNat / 16), hexDigit (b.toNat % 16)]

/-- The SQL spelling (the text between the quotes) of an arbitrary byte string: printable ASCII and well-formed multi-byte
UTF-8 raw, `'` as `\'`, `\` as `\\`, everything else (control bytes, DEL, ill-formed UTF-8) as `\xHH`. -/
def quote (v : Bytes) : Bytes :=
  match v with
  | [] => []
  | b :: t =>
    if b = 39 then 92 :: 39 :: quote t
    else if b = 92 then 92 :: 92 :: quote t
    else if 0x20 ≤ b ∧ b < 0x7F then b :: quote t
    else
      let n := utf8Len (b :: t)
      if n = 0 then hexEscape b ++ quote t
      else (b :: t).take n ++ quote ((b :: t).drop n)
termination_by v.length
decreasing_by all_goals (simp [List.length_drop] <;> try omega)

/-- ClickHouse's single-character escapes (`parseEscapeSequence` plus the characters that are taken literally):
`some w` = the escape denotes byte `w`; `none` = backslash and character are both kept. -/
def decodeEscape (c : Nat) : Option Nat :=
  if c = 39 then some 39         -- \'
  else if c = 34 then some 34    -- \"
  else if c = 92 then some 92    -- \\
  else if c = 110 then some 10   -- \n
  else if c = 116 then some 9    -- \t
  else if c = 114 then some 13   -- \r
  else if c = 48 then some 0     -- \0
  else if c = 97 then some 7     -- \a
  else if c = 98 then some 8     -- \b
  else if c = 102 then some 12   -- \f
  else if c = 118 then some 11   -- \v
  else if c = 101 then some 27   -- \e
  else none

/-- characters after a backslash whose ClickHouse behaviour no golden establishes (`` \` ``, `\/`, `\=`, `\N`): outside the
oracle's domain. (`\x` is the hex escape, specified by `quote`/`string_roundtrip`.) -/
def unestablished : List Nat := [96, 47, 61, 78]

end DC.Spec.LitSpec

namespace DC.Spec.LitSpec
open DC

/-! ## spellings of integers (used by the statements of C09) -/

/-- value of a decimal digit list, most significant first (leading zeros allowed). -/
def digitsVal (ds : List Nat) : Nat := ds.foldl (fun n d => n * 10 + d) 0

/-- ASCII character of a decimal digit. -/
def digitByte (d : Nat) : UInt8 := UInt8.ofNat (48 + d)

/-- ASCII text of a decimal digit list. -/
def digitsText (ds : List Nat) : Bytes := ds.map digitByte

/-- a non-empty list of decimal digits. -/
def IsDigits (ds : List Nat) : Prop := ds ≠ [] ∧ ∀ d ∈ ds, d < 10

/-- value of one hexadecimal digit character (`0-9`, `a-f`, `A-F`). -/
def hexCharVal (c : UInt8) : Option Nat :=
  if 48 ≤ c ∧ c ≤ 57 then some (c.toNat - 48)
  else if 97 ≤ c ∧ c ≤ 102 then some (c.toNat - 87)
  else if 65 ≤ c ∧ c ≤ 70 then some (c.toNat - 55)
  else none

/-- one more digit. -/
def baseStep (base : Nat) (acc : Option Nat) (c : UInt8) : Option Nat :=
  match acc, hexCharVal c with
  | some n, some d => if d < base then some (n * base + d) else none
  | _, _ => none

/-- value of a non-empty text of digits in base 2 or 16 (most significant first), `none` if some character is not a digit of the base. -/
def baseVal (base : Nat) (cs : Bytes) : Option Nat :=
  if cs.isEmpty then none else cs.foldl (baseStep base) (some 0)

end DC.Spec.LitSpec
