/-!
# Hand-reviewed writes of the EXPLAIN printer that the translator cannot classify as private (C10 / C11 / C07)

`DC.Gen.Writes.astWrites` lists, regenerated from /repo on every check, every assignment in `internal/explain` and `ast`
that may store into memory reachable from the caller's statement: a field or element write that is not provably into a
private copy, an element write into a slice that may alias an AST slice, and — since seeded change C11-r5-2 — an element
write `copy.f[i] = v` through a slice FIELD of a local struct copy unless a fresh slice was assigned to exactly `copy.f`
earlier in an enclosing block (a shallow copy shares the backing arrays of its slice fields with the original).
`no_shared_writes` (C10) / `explain_writes_nothing` (C11) state that the regenerated list is exactly this reviewed one.
-/
namespace DC.Spec.AssumedWrites

/-- (function, written expression) -/
def reviewedAstWrites : List (String × String) := [
  -- withoutFormat (internal/explain/explain.go): `cp` is nil until the first SELECT with a FORMAT is met; at that point, inside
  -- `if cp == nil { c := *swu; c.Selects = append([]ast.Statement(nil), swu.Selects...); cp = &c }`, the copy gets a FRESH
  -- Selects slice and `cp` is made to point at it. The write `cp.Selects[i] = &sqCopy` follows that block inside the same loop
  -- iteration, so `cp` is non-nil and `cp.Selects` is the fresh slice on every path that reaches it. The translator does not
  -- follow the pointer alias `cp = &c`, hence the entry. (Moving or weakening the `if cp == nil` block changes the source pin of
  -- withoutFormat, which C07/C10/C11 carry.)
  ("internal/explain.withoutFormat", "cp.Selects[i]")]

end DC.Spec.AssumedWrites
