import DC.Gen.Tokens

/-!
# The keyword table as a specification object (C17)

`DC.Gen.Tokens` is dumped from the running `token` package built from /repo on every check:
`spelling[i] = Token(i).String()`, `isKeywordTbl[i] = Token(i).IsKeyword()`, `keywords` = the `Keywords` map,
`lookupOfSpelling[i] = Lookup(Token(i).String())`. The definitions below are the decidable predicates of C17
over such a table; `DC.Props.C17` evaluates them in the kernel on the table as it is now.
-/
namespace DC.Spec.KeywordTable
open DC.Gen.Tokens

/-- `token.Lookup` as the code has it: search the `Keywords` map, default IDENT. -/
def lookup (s : String) : Nat :=
  match keywords.find? (fun p => p.1 == s) with
  | some p => p.2
  | none => tIDENT

def spellingOf (i : Nat) : String := spelling.getD i ""
def isKeyword (i : Nat) : Bool := isKeywordTbl.getD i false

def isUpperSpelling (s : String) : Bool :=
  s.toList.all fun c => ('A' ≤ c && c ≤ 'Z') || c == '_' || ('0' ≤ c && c ≤ '9')

/-- the keyword tokens form one open interval `(lo, hi)` of token numbers: `IsKeyword k ↔ lo < k < hi`. -/
def isInterval (lo hi : Nat) : Bool :=
  (List.range count).all fun i => isKeyword i == (decide (lo < i) && decide (i < hi))

/-- `keyword_beg` / `keyword_end` recovered from the table: one below the first and one above the last keyword. -/
def kwLo : Nat := ((List.range count).find? isKeyword).getD 0 - 1
def kwHi : Nat := (((List.range count).reverse.find? isKeyword).getD 0) + 1

/-- all keyword token numbers of the table. -/
def keywordTokens : List Nat := (List.range count).filter isKeyword

/-- every keyword has a non-empty upper-case spelling. -/
def spellingsOk : Bool := keywordTokens.all fun k => spellingOf k != "" && isUpperSpelling (spellingOf k)

/-- spellings of distinct keywords are distinct. -/
def spellingsDistinct : Bool :=
  keywordTokens.all fun a => keywordTokens.all fun b => a == b || spellingOf a != spellingOf b

/-- `Lookup` finds every keyword from its spelling … -/
def lookupFinds : Bool := keywordTokens.all fun k => lookup (spellingOf k) == k

/-- … the dumped behaviour of the real `Lookup` on every spelling of the table agrees with the model `lookup` … -/
def lookupAgrees : Bool := (List.range count).all fun i => lookupOfSpelling.getD i 0 == lookup (spellingOf i)

/-- … and the map contains nothing else: every entry is (spelling k, k) for a keyword k, keys are distinct. -/
def mapExact : Bool :=
  keywords.all (fun p => isKeyword p.2 && spellingOf p.2 == p.1) &&
  keywords.length == keywordTokens.length &&
  keywords.all (fun p => keywords.all fun q => p.2 != q.2 || p.1 == q.1)

end DC.Spec.KeywordTable
