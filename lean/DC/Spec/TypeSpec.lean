import DC.Prelude.Hex
import DC.Gen.Tokens
import DC.Gen.TypeNames

/-!
# C18 — specification side: the type algebra, its tokens, its canonical text

Nothing here refers to the parser or the formatter.  The only facts about `/repo` used are tables
(`DC.Gen.Tokens.keywords` for the kind the lexer gives a word, `DC.Gen.TypeNames.names` inside `WfTy`,
which delimits the sub-grammar for which the theorems are stated).

* `Ty` / `Arg`      — type expressions: a head (one or more words) and arguments: nested types, named
                      elements, numbers, strings, `'name' = number` pairs.
* `tokens`          — the token sequence of a type expression (what the lexer yields for *any* separator
                      spelling: separators are dropped before the parser sees anything).
* `canonTy`         — the canonical text: head as written, `(`, arguments joined by `, `, `)`; string arguments
                      quoted and escaped with `esc`; pairs as `'name' = number`.
* `showLit`         — how EXPLAIN shows a string literal of value `v`: `esc ("'" ++ esc v ++ "'")`
                      (inner: the literal's quoting; outer: the TSV output format) — both are ClickHouse's
                      one escaping function `esc`.
* `castLine`        — the line C18 requires for a cast to `T`: `Literal ` ++ `showLit (canonTy T)`.
* `WfTy`            — decidable well-formedness.
-/
namespace DC.Types
open DC.Gen.Tokens

/-- an ASCII constant as bytes (kernel-reducible, unlike `String.toUTF8`). -/
def B (s : String) : Bytes := s.toList.map (fun c => c.toNat.toUInt8)

/-- a lexer item: `lexer.Item{Token, Value}` (positions play no role here). -/
structure Tok where
  kind : Nat
  val : Bytes
deriving DecidableEq, Repr, Inhabited

def upperByte (b : UInt8) : UInt8 := if 97 ≤ b ∧ b ≤ 122 then b - 32 else b
/-- `strings.ToUpper` on ASCII input. -/
def upper (s : Bytes) : Bytes := s.map upperByte

def decAux : Nat → Nat → Bytes → Bytes
  | 0, _, acc => acc
  | f + 1, n, acc =>
    let acc' := (48 + n % 10).toUInt8 :: acc
    if n / 10 = 0 then acc' else decAux f (n / 10) acc'

/-- decimal digits of `n`. -/
def decimal (n : Nat) : Bytes := decAux (n + 1) n []

/-- `token.Keywords` with byte-string keys. -/
def keywordsB : List (Bytes × Nat) := keywords.map (fun p => (B p.1, p.2))

/-- the kind the lexer gives an unquoted word: `token.Lookup(strings.ToUpper(ident))` (lexer.go:1241, token.go Lookup). -/
def wordKind (w : Bytes) : Nat :=
  match keywordsB.lookup (upper w) with
  | some k => k
  | none => tIDENT

def wordTok (w : Bytes) : Tok := ⟨wordKind w, w⟩
def lparenTok : Tok := ⟨tLPAREN, [40]⟩
def rparenTok : Tok := ⟨tRPAREN, [41]⟩
def commaTok : Tok := ⟨tCOMMA, [44]⟩
def eqTok : Tok := ⟨tEQ, [61]⟩
def minusTok : Tok := ⟨tMINUS, [45]⟩

mutual
inductive Ty where
  /-- head words as written, arguments (none = no parentheses) -/
  | mk (words : List Bytes) (args : List Arg)
inductive Arg where
  | ty (t : Ty)
  /-- Tuple / Nested element with a name -/
  | named (n : Bytes) (t : Ty)
  | num (neg : Bool) (n : Nat)
  | str (s : Bytes)
  /-- `'s' = n` / `'s' = -n` -/
  | enum (s : Bytes) (neg : Bool) (n : Nat)
end

def Ty.words : Ty → List Bytes | .mk ws _ => ws
def Ty.args : Ty → List Arg | .mk _ as => as
def Ty.head (t : Ty) : Bytes := t.words.headD []

/-! ## tokens -/

def numToks (neg : Bool) (n : Nat) : List Tok :=
  (if neg then [minusTok] else []) ++ [⟨tNUMBER, decimal n⟩]

mutual
def tokens : Ty → List Tok
  | .mk ws args =>
    ws.map wordTok ++
      (match args with
       | [] => []
       | a :: as => lparenTok :: (argTokens a ++ tailTokens as) ++ [rparenTok])
def argTokens : Arg → List Tok
  | .ty t => tokens t
  | .named n t => wordTok n :: tokens t
  | .num neg n => numToks neg n
  | .str s => [⟨tSTRING, s⟩]
  | .enum s neg n => ⟨tSTRING, s⟩ :: eqTok :: numToks neg n
/-- the arguments after the first: each preceded by a comma -/
def tailTokens : List Arg → List Tok
  | [] => []
  | a :: as => commaTok :: (argTokens a ++ tailTokens as)
end

/-! ## canonical text -/

/-- ClickHouse's escaping of one byte of a string body (`writeAnyEscapedString<'\''>`). -/
def escByte (b : UInt8) : Bytes :=
  if b == 92 then [92, 92]
  else if b == 39 then [92, 39]
  else if b == 10 then [92, 110]
  else if b == 9 then [92, 116]
  else if b == 13 then [92, 114]
  else if b == 0 then [92, 48]
  else if b == 8 then [92, 98]
  else if b == 12 then [92, 102]
  else [b]
def esc (s : Bytes) : Bytes := s.flatMap escByte

/-- a quoted string: `'` body escaped `'` -/
def quote (s : Bytes) : Bytes := 39 :: esc s ++ [39]

def canonNum (neg : Bool) (n : Nat) : Bytes := (if neg then [45] else []) ++ decimal n

/-- words joined by single spaces -/
def joinWords : List Bytes → Bytes
  | [] => []
  | [w] => w
  | w :: rest => w ++ 32 :: joinWords rest

mutual
def canonTy : Ty → Bytes
  | .mk ws args =>
    joinWords ws ++
      (match args with
       | [] => []
       | a :: as => 40 :: (canonArg a ++ canonTail as) ++ [41])
def canonArg : Arg → Bytes
  | .ty t => canonTy t
  | .named n t => n ++ 32 :: canonTy t
  | .num neg n => canonNum neg n
  | .str s => quote s
  | .enum s neg n => quote s ++ [32, 61, 32] ++ canonNum neg n
def canonTail : List Arg → Bytes
  | [] => []
  | a :: as => 44 :: 32 :: (canonArg a ++ canonTail as)
end

/-- how EXPLAIN shows a string literal whose value is `v`. -/
def showLit (v : Bytes) : Bytes := esc (quote v)

/-- the line C18 requires EXPLAIN to show for the type of a cast to `T`. -/
def castLine (T : Ty) : Bytes := B "Literal " ++ showLit (canonTy T)

/-! ## well-formedness -/

def isIdentByte (b : UInt8) : Bool := (97 ≤ b && b ≤ 122) || (65 ≤ b && b ≤ 90) || (48 ≤ b && b ≤ 57) || b == 95
/-- `[A-Za-z0-9_]+` -/
def identLike (w : Bytes) : Bool := w != [] && w.all isIdentByte

/-- bytes `esc` leaves alone -/
def plainByte (b : UInt8) : Bool := !(b == 92 || b == 39 || b == 10 || b == 9 || b == 13 || b == 0 || b == 8 || b == 12)
def plainStr (s : Bytes) : Bool := s.all plainByte

/-- the names the real parser's `isDataTypeName` lists -/
def listed (w : Bytes) : Bool := (DC.Gen.TypeNames.names.map B).contains (upper w)

def mysqlInt (u : Bytes) : Bool :=
  u == B "INT" || u == B "INT1" || u == B "TINYINT" || u == B "SMALLINT" || u == B "MEDIUMINT" || u == B "BIGINT" || u == B "INTEGER"

def tCOLLATEk : Nat := (keywords.lookup "COLLATE").getD 0

mutual
/-- Well-formed type expressions — the sub-grammar for which C18 is proved.
* the head is a single word `[A-Za-z0-9_]+`;
* a head with arguments is not a MySQL integer name (`INT(11)` is a display width the parser drops) and not
  JSON/OBJECT (their parameter syntax is not modelled);
* arguments, see `wfArg`. -/
def wfTy : Ty → Bool
  | .mk ws args =>
    match ws with
    | [w] =>
      identLike w &&
        (match args with
         | [] => true
         | a :: as =>
           !mysqlInt (upper w) && upper w != B "JSON" && upper w != B "OBJECT" &&
             wfArgs (upper w == B "NESTED" || upper w == B "TUPLE") (a :: as))
    | _ => false
/-- `named` = the parent is Tuple/Nested (element names are recognised there).
* a nested type: well-formed, its head word is not the keyword COLLATE, and either its head is a listed type
  name, or (outside Tuple/Nested only) it is a bare unlisted name that lexes as an identifier;
  [excluded: unlisted names as unnamed Tuple elements — the parser takes them for element names]
* a named element: only under Tuple/Nested; the name is `[A-Za-z0-9_]+` and not COLLATE; if the name is itself
  a listed type name, the element type's head must be a listed name lexed as IDENT
  [excluded: `Tuple(date Array(Date))` — parse error];
* numbers below 2^64; strings are arbitrary byte strings. -/
def wfArg (named : Bool) : Arg → Bool
  | .ty t =>
    wfTy t && wordKind t.head != tCOLLATEk &&
      (if listed t.head then true else !named && t.args.isEmpty && wordKind t.head == tIDENT)
  | .named n t =>
    named && identLike n && wordKind n != tCOLLATEk && wfTy t &&
      (if listed n then wordKind t.head == tIDENT && listed t.head else true)
  | .num _ n => n < 2 ^ 64
  | .str _ => true
  | .enum _ _ n => n < 2 ^ 64
def wfArgs (named : Bool) : List Arg → Bool
  | [] => true
  | a :: as => wfArg named a && wfArgs named as
end

def WfTy (T : Ty) : Prop := wfTy T = true

mutual
/-- The grammar of the property with no regard for what the real parser supports: single-word heads `[A-Za-z0-9_]+`,
element names (same alphabet) only under Tuple/Nested, numbers below 2^64, arbitrary strings. `WfTy` is this minus
the shapes listed at `wfTy`/`wfArg`. -/
def grammarTy : Ty → Bool
  | .mk ws args =>
    match ws with
    | [w] => identLike w && grammarArgs (upper w == B "NESTED" || upper w == B "TUPLE") args
    | _ => false
def grammarArg (named : Bool) : Arg → Bool
  | .ty t => grammarTy t
  | .named n t => named && identLike n && grammarTy t
  | .num _ n => n < 2 ^ 64
  | .str _ => true
  | .enum _ _ n => n < 2 ^ 64
def grammarArgs (named : Bool) : List Arg → Bool
  | [] => true
  | a :: as => grammarArg named a && grammarArgs named as
end

def GrammarTy (T : Ty) : Prop := grammarTy T = true
instance (T : Ty) : Decidable (GrammarTy T) := inferInstanceAs (Decidable (grammarTy T = true))

instance (T : Ty) : Decidable (WfTy T) := inferInstanceAs (Decidable (wfTy T = true))

end DC.Types
