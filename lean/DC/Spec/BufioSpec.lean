import DC.Model.Bufio

/-!
Vocabulary of the C14/C15 statements about the `bufio` model: what a script delivers (`pending`), which scripts
are "the same byte stream delivered differently" (`Clean`, `NoStall`), and which errors count as reported
(`reportable`, `firstRep`).
-/
namespace DC.Bufio
open DC

/-- all bytes a script still has to deliver -/
def pending : Script → Bytes
  | [] => []
  | ev :: rest => ev.data ++ pending rest

/-- number of leading `(0, nil)` answers -/
def leadEmpty : Script → Nat
  | [] => 0
  | ev :: rest => if ev.data = [] ∧ ev.err = none then leadEmpty rest + 1 else 0

/-- the script never answers `(0, nil)` 100 times in a row (`maxConsecutiveEmptyReads`): `fill` would give up with
`io.ErrNoProgress`, which is *not* a chunking of the same stream. Runs of up to 99 empty reads are allowed. -/
def NoStall : Script → Prop
  | [] => True
  | ev :: rest => leadEmpty (ev :: rest) < maxConsecutiveEmptyReads ∧ NoStall rest

/-- `Clean script fin`: no event carries an error, except that the last one may carry `fin` (together with its data,
or alone); when no event carries an error the stream ends by exhaustion, i.e. `fin = io.EOF`. For `fin = .eof`
this is exactly "any chunking of the bytes `pending script`, the EOF delivered with the last bytes or after them". -/
def Clean : Script → Err → Prop
  | [], fin => fin = .eof
  | ev :: rest, fin => (ev.err = none ∧ Clean rest fin) ∨ (rest = [] ∧ ev.err = some fin)

/-- errors `recordErr` (lexer.go:67) keeps: anything but `io.EOF` -/
def reportable : Err → Bool
  | .eof => false
  | _ => true

/-- the first reportable error of a sequence -/
def firstRep (es : List Err) : Option Err := (es.filter reportable).head?

/-- the error values of a script's events, in order -/
def scriptErrs (s : Script) : List Err := s.filterMap (·.err)

/-- the identities of the `other` errors of a sequence -/
def otherIds (es : List Err) : List Nat := es.filterMap (fun e => match e with | .other id => some id | _ => none)

/-- the error values returned by a sequence of operations -/
def resErrs (rs : List Res) : List Err := rs.filterMap Res.err

def notBufferFull (e : Err) : Bool := e != .bufferFull

/-! ### adaptive clients: the next operation is chosen from the results so far (this is what a lexer does) -/

/-- a deterministic client: given the results so far, the next operation, or `none` to stop -/
abbrev Strategy := List Res → Option Op

def runAdaptive (strat : Strategy) : Nat → List Res → BR → List Res
  | 0, hist, _ => hist
  | f + 1, hist, b =>
    match strat hist with
    | none => hist
    | some op => let r := step op b; runAdaptive strat f (hist ++ [r.1]) r.2

def Pure.runAdaptive (strat : Strategy) : Nat → List Res → Pure → List Res
  | 0, hist, _ => hist
  | f + 1, hist, p =>
    match strat hist with
    | none => hist
    | some op => let r := p.step op; Pure.runAdaptive strat f (hist ++ [r.1]) r.2

/-- the lexer's reader-facing state (`Client`) over the pure reader -/
structure PClient where
  p : Pure
  eof : Bool
  err : Option Err
  deriving Repr, Inhabited

def PClient.step (op : Op) (c : PClient) : Option Res × PClient :=
  if c.eof then (none, c)
  else
    let r := c.p.step op
    match op with
    | .readRune =>
      let c' := { c with p := r.2, err := recordErr c.err r.1.err }
      (some r.1, if r.1.err.isSome then { c' with eof := true } else c')
    | .peek n =>
      (some r.1, { c with p := r.2, err := if n ≤ r.2.cap then recordErr c.err r.1.err else c.err })

/-- the results the client sees (`none` = call skipped because `eof`), and the final state -/
def PClient.run (ops : List Op) (c : PClient) : List (Option Res) × PClient :=
  match ops with
  | [] => ([], c)
  | op :: rest => let r := c.step op; let rs := PClient.run rest r.2; (r.1 :: rs.1, rs.2)

def Client.trace (ops : List Op) (c : Client) : List (Option Res) × Client :=
  match ops with
  | [] => ([], c)
  | op :: rest => let r := c.step op; let rs := Client.trace rest r.2; (r.1 :: rs.1, rs.2)

end DC.Bufio
