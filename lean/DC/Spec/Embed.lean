import DC.Prelude.Hex
import DC.Spec.Tree

/-!
# C07 monitor: one EXPLAIN text occurs, merely indented, inside another

`embedded inner outer = some d` when the lines of `inner`, each prefixed by the same `d` spaces, are a
contiguous block of `outer`.  The search is first-position-first; at a position the indentation is
determined by the first line (for an empty `inner` the answer is `some 0`).

Specification: `embedded_eq_some_iff` (exact, including which occurrence is reported) and the
corollary `embedded_isSome_iff` (the statement C07 uses).
-/
namespace DC.Spec.Embed
open DC DC.Spec.Tree

def indent (d : Nat) (l : Line) : Line := List.replicate d sp ++ l

/-- `inner`, uniformly indented, is a prefix of `outer`; the indentation is read off the first line -/
def matchAt (inner outer : List Line) : Option Nat :=
  match inner, outer with
  | [], _ => some 0
  | _ :: _, [] => none
  | i :: _, o :: _ =>
    if (inner.map (indent (o.length - i.length))).isPrefixOf outer then some (o.length - i.length) else none

def embedded (inner : List Line) : List Line → Option Nat
  | [] => matchAt inner []
  | o :: os =>
    match matchAt inner (o :: os) with
    | some d => some d
    | none => embedded inner os

theorem matchAt_sound {inner outer : List Line} {d : Nat} (h : matchAt inner outer = some d) :
    (∃ post, outer = inner.map (indent d) ++ post) ∧ (inner = [] → d = 0) := by
  unfold matchAt at h
  split at h
  · simp only [Option.some.injEq] at h
    subst h
    exact ⟨⟨outer, by simp⟩, fun _ => rfl⟩
  · simp at h
  · split at h
    · rename_i i _ o _ hp
      simp only [Option.some.injEq] at h
      subst h
      rw [List.isPrefixOf_iff_prefix] at hp
      obtain ⟨t, ht⟩ := hp
      exact ⟨⟨t, ht.symm⟩, fun hc => by simp at hc⟩
    · simp at h

theorem matchAt_complete (inner post : List Line) (d : Nat) (hd : inner = [] → d = 0) :
    matchAt inner (inner.map (indent d) ++ post) = some d := by
  cases inner with
  | nil => simp [matchAt, hd rfl]
  | cons i is =>
    have hlen : (indent d i).length - i.length = d := by simp [indent]
    simp only [matchAt, List.map_cons, List.cons_append, hlen]
    have : (indent d i :: List.map (indent d) is).isPrefixOf (indent d i :: (List.map (indent d) is ++ post)) = true := by
      rw [List.isPrefixOf_iff_prefix]
      exact ⟨post, by simp⟩
    simp [this]

/-- an occurrence at the very start is found by `matchAt` (with *some* indentation) -/
theorem matchAt_isSome (inner post : List Line) (d : Nat) :
    (matchAt inner (inner.map (indent d) ++ post)).isSome = true := by
  cases inner with
  | nil => simp [matchAt]
  | cons i is => rw [matchAt_complete (i :: is) post d (by simp)]; rfl

/-- **Specification of `embedded`.** It answers `some d` exactly when `inner` indented by `d` occurs
as a contiguous block, that occurrence is the first one (no occurrence, with any indentation,
starts earlier), and `d = 0` when `inner` is empty (the only case in which the position does not
determine the indentation). -/
theorem embedded_eq_some_iff (inner outer : List Line) (d : Nat) :
    embedded inner outer = some d ↔
      ∃ pre post, outer = pre ++ inner.map (indent d) ++ post ∧ (inner = [] → d = 0) ∧
        ∀ pre' d' post', outer = pre' ++ inner.map (indent d') ++ post' → pre.length ≤ pre'.length := by
  induction outer generalizing d with
  | nil =>
    simp only [embedded]
    constructor
    · intro h
      have ⟨⟨post, hp⟩, h0⟩ := matchAt_sound h
      exact ⟨[], post, by simpa using hp, h0, fun _ _ _ _ => Nat.zero_le _⟩
    · rintro ⟨pre, post, h, h0, _⟩
      have h' := h.symm
      simp only [List.append_eq_nil_iff, List.map_eq_nil_iff] at h'
      obtain ⟨⟨_, hi⟩, _⟩ := h'
      subst hi
      simp [matchAt, h0 rfl]
  | cons o os ih =>
    simp only [embedded]
    cases hm : matchAt inner (o :: os) with
    | some d0 =>
      simp only [Option.some.injEq]
      have ⟨⟨post0, hp0⟩, h00⟩ := matchAt_sound hm
      constructor
      · intro h
        subst h
        exact ⟨[], post0, by simpa using hp0, h00, fun _ _ _ _ => Nat.zero_le _⟩
      · rintro ⟨pre, post, h, h0, hmin⟩
        have hpre : pre = [] := by
          have := hmin [] d0 post0 (by simpa using hp0)
          simpa using this
        subst hpre
        have := matchAt_complete inner post d h0
        simp only [List.nil_append] at h
        rw [← h, hm] at this
        simpa using this
    | none =>
      simp only
      rw [ih]
      constructor
      · rintro ⟨pre, post, h, h0, hmin⟩
        refine ⟨o :: pre, post, by simp [h], h0, ?_⟩
        intro pre' d' post' h'
        cases pre' with
        | nil =>
          have := matchAt_isSome inner post' d'
          simp only [List.nil_append] at h'
          rw [← h', hm] at this
          simp at this
        | cons o' pre'' =>
          simp only [List.cons_append, List.cons.injEq] at h'
          have := hmin pre'' d' post' h'.2
          simp only [List.length_cons]
          omega
      · rintro ⟨pre, post, h, h0, hmin⟩
        cases pre with
        | nil =>
          have := matchAt_isSome inner post d
          simp only [List.nil_append] at h
          rw [← h, hm] at this
          simp at this
        | cons o' pre1 =>
          simp only [List.cons_append, List.cons.injEq] at h
          refine ⟨pre1, post, h.2, h0, ?_⟩
          intro pre' d' post' h'
          have := hmin (o :: pre') d' post' (by simp [h'])
          simp only [List.length_cons] at this
          omega

/-- **What C07 uses.** `embedded` finds something iff `inner`, indented by some fixed number of
spaces, is a contiguous block of `outer`. -/
theorem embedded_isSome_iff (inner outer : List Line) :
    (embedded inner outer).isSome = true ↔
      ∃ d pre post, outer = pre ++ inner.map (indent d) ++ post := by
  constructor
  · intro h
    cases he : embedded inner outer with
    | none => rw [he] at h; simp at h
    | some d =>
      obtain ⟨pre, post, hp, _, _⟩ := (embedded_eq_some_iff inner outer d).1 he
      exact ⟨d, pre, post, hp⟩
  · rintro ⟨d, pre, post, h⟩
    subst h
    induction pre with
    | nil =>
      have := matchAt_isSome inner post d
      cases hp : inner.map (indent d) ++ post with
      | nil => simp only [List.nil_append, hp, embedded] at this ⊢; exact this
      | cons o os =>
        simp only [List.nil_append, hp, embedded] at this ⊢
        cases hm : matchAt inner (o :: os) with
        | none => rw [hm] at this; simp at this
        | some _ => rfl
    | cons o pre ih =>
      simp only [List.cons_append, embedded]
      cases hm : matchAt inner (o :: (pre ++ List.map (indent d) inner ++ post)) with
      | none => simpa using ih
      | some _ => rfl

def handle (op : String) (args : List String) : Option String :=
  if op == "embed" then
    match args with
    | [hi, ho] =>
      match Hex.decode hi, Hex.decode ho with
      | some ti, some to =>
        match splitLines ti, splitLines to with
        | some li, some lo =>
          match embedded li lo with
          | some d => some s!"some {d}"
          | none => some "none"
        | _, _ => some "bad-arg"
      | _, _ => some "bad-arg"
    | _ => some "bad-arg"
  else none

end DC.Spec.Embed


/-! ## non-vacuity -/
namespace DC.Spec.Embed

example : embedded [[65], [32, 66]] [[88], [32, 32, 65], [32, 32, 32, 66], [32, 67]] = some 2 := by decide
example : embedded [[65], [32, 66]] [[88], [32, 32, 65], [32, 32, 32, 32, 66]] = none := by decide

end DC.Spec.Embed
