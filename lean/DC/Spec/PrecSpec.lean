import DC.Model.Pratt

/-!
# C08 specification: the declarative precedence table, well-parenthesised expressions, the reference EXPLAIN

Independent of `DC.Gen.Prec` and `DC.Gen.OpFn`: the levels, the operator classes and the ClickHouse function names
below are the property's own text ("OR < AND < NOT < comparison < || < additive < multiplicative < unary minus with left
associativity, each operator mapped to its ClickHouse function name, and unparenthesised AND/OR/|| chains flattened into
one n-ary call"). Only the syntax (tokens, operator spellings, AST) is shared with the model.
-/
namespace DC.Spec.PrecSpec
open DC.Model.Pratt

/-- source expressions with explicit parentheses -/
inductive E
  | id (s : String) | num (n : Nat)
  | neg (e : E) | not (e : E)
  | bin (o : BinOp) (l r : E)
  | par (e : E)
deriving DecidableEq, Repr

/-- the text of an expression, as tokens -/
def render : E → List Tok
  | .id s => [.ident s]
  | .num n => [.number n]
  | .neg e => .op .minus :: render e
  | .not e => .not :: render e
  | .bin o l r => render l ++ .op o :: render r
  | .par e => .lparen :: render e ++ [.rparen]

/-- the AST the tree denotes: parentheses become `Parenthesized` marks (none on a unary node) -/
def erase : E → Ast
  | .id s => .ident s false
  | .num n => .lit (litOf n) false
  | .neg e => .unary .neg (erase e)
  | .not e => .unary .not (erase e)
  | .bin o l r => .binary o (erase l) (erase r) false
  | .par e => (erase e).markPar

/-! ## the declarative table -/

def lvOr : Nat := 1
def lvAnd : Nat := 2
def lvNot : Nat := 3
def lvCmp : Nat := 4
def lvConcat : Nat := 5
def lvAdd : Nat := 6
def lvMul : Nat := 7
def lvUnary : Nat := 8

/-- OR < AND < (NOT) < comparison < || < additive < multiplicative < (unary minus); all binary operators left-associative -/
def level : BinOp → Nat
  | .or => lvOr | .and => lvAnd
  | .eq | .eq2 | .neq | .neq2 | .lt | .le | .gt | .ge | .nseq => lvCmp
  | .concat => lvConcat
  | .plus | .minus => lvAdd
  | .mul | .div | .pct | .kwDiv | .kwMod => lvMul

/-- the text of `e` begins with `(` -/
def startsWithParen : E → Bool
  | .par _ => true
  | .bin _ l _ => startsWithParen l
  | _ => false

/-- binding power of a prefix NOT over the operand `e`: `NOT (` binds like a function call (the rule calibrated on the
goldens, see p_c08.go), a plain NOT sits between AND and the comparisons -/
def notBind (e : E) : Nat := if startsWithParen e then lvUnary else lvNot

/-- the top-level operator of `e` binds strictly tighter than level `ℓ` (atoms, prefix operators and parentheses always do) -/
def topAbove (ℓ : Nat) : E → Prop
  | .bin o _ _ => ℓ < level o
  | _ => True

/-- … at least as tight as `ℓ` (what a left operand needs: left associativity) -/
def topAtLeast (ℓ : Nat) : E → Prop
  | .bin o _ _ => ℓ ≤ level o
  | _ => True

/-- every operator still "open" at the right end of `e`'s text (the operators on the right spine, not inside
parentheses) has level ≥ `ℓ`; an operator of level `ℓ` written after `e` then takes the whole of `e` as its left operand -/
def openAtLeast (ℓ : Nat) : E → Prop
  | .id _ | .num _ | .par _ => True
  | .neg e => ℓ ≤ lvUnary ∧ openAtLeast ℓ e
  | .not e => ℓ ≤ notBind e ∧ openAtLeast ℓ e
  | .bin o _ r => ℓ ≤ level o ∧ openAtLeast ℓ r

/-- "a parenthesis is present wherever the table requires one" -/
def WellPar : E → Prop
  | .id _ | .num _ => True
  | .par e => WellPar e
  | .neg e => WellPar e ∧ topAbove lvUnary e
  | .not e => WellPar e ∧ topAbove (notBind e) e
  | .bin o l r =>
    WellPar l ∧ WellPar r ∧ openAtLeast (level o) l ∧ topAtLeast (level o) l ∧ topAbove (level o) r

instance (ℓ : Nat) (e : E) : Decidable (topAbove ℓ e) := by
  cases e <;> unfold topAbove <;> infer_instance

instance (ℓ : Nat) (e : E) : Decidable (topAtLeast ℓ e) := by
  cases e <;> unfold topAtLeast <;> infer_instance

def openAtLeast.dec (ℓ : Nat) : (e : E) → Decidable (openAtLeast ℓ e)
  | .id _ => isTrue trivial
  | .num _ => isTrue trivial
  | .par _ => isTrue trivial
  | .neg e => by unfold openAtLeast; have := openAtLeast.dec ℓ e; infer_instance
  | .not e => by unfold openAtLeast; have := openAtLeast.dec ℓ e; infer_instance
  | .bin _ _ r => by unfold openAtLeast; have := openAtLeast.dec ℓ r; infer_instance

instance (ℓ : Nat) (e : E) : Decidable (openAtLeast ℓ e) := openAtLeast.dec ℓ e

def WellPar.dec : (e : E) → Decidable (WellPar e)
  | .id _ => isTrue trivial
  | .num _ => isTrue trivial
  | .par e => by unfold WellPar; exact WellPar.dec e
  | .neg e => by unfold WellPar; have := WellPar.dec e; infer_instance
  | .not e => by unfold WellPar; have := WellPar.dec e; infer_instance
  | .bin _ l r => by unfold WellPar; have := WellPar.dec l; have := WellPar.dec r; infer_instance

instance (e : E) : Decidable (WellPar e) := WellPar.dec e

/-! ## the excluded shape and the literal range -/

def stripPar : E → E
  | .par e => stripPar e
  | e => e

/-- a parenthesised `||` expression (under any number of parentheses) -/
def isParConcat : E → Bool
  | .par e => match stripPar e with
    | .bin .concat _ _ => true
    | _ => false
  | _ => false

/-- the property's exclusion: nowhere in `e` is a parenthesised `||` an operand of `||` -/
def noParConcatUnderConcat : E → Prop
  | .id _ | .num _ => True
  | .par e | .neg e | .not e => noParConcatUnderConcat e
  | .bin o l r =>
    (o = .concat → isParConcat l = false ∧ isParConcat r = false) ∧ noParConcatUnderConcat l ∧ noParConcatUnderConcat r

def noParConcatUnderConcat.dec : (e : E) → Decidable (noParConcatUnderConcat e)
  | .id _ => isTrue trivial
  | .num _ => isTrue trivial
  | .par e => by unfold noParConcatUnderConcat; exact noParConcatUnderConcat.dec e
  | .neg e => by unfold noParConcatUnderConcat; exact noParConcatUnderConcat.dec e
  | .not e => by unfold noParConcatUnderConcat; exact noParConcatUnderConcat.dec e
  | .bin _ l r => by
    unfold noParConcatUnderConcat
    have := noParConcatUnderConcat.dec l; have := noParConcatUnderConcat.dec r; infer_instance

instance (e : E) : Decidable (noParConcatUnderConcat e) := noParConcatUnderConcat.dec e

/-- a literal directly under a unary minus is at most 2^63 (beyond that EXPLAIN prints a Float64, which is C09's subject) -/
def negLitOk : E → Prop
  | .num n => n ≤ 2 ^ 63
  | _ => True

/-- literals stay in the integer range of the property ("unsigned integer literals"): every literal is below 2^64, and
a literal directly under a unary minus is at most 2^63 -/
def litsInRange : E → Prop
  | .id _ => True
  | .num n => n < 2 ^ 64
  | .neg e => negLitOk e ∧ litsInRange e
  | .not e | .par e => litsInRange e
  | .bin _ l r => litsInRange l ∧ litsInRange r

instance (e : E) : Decidable (negLitOk e) := by
  cases e <;> unfold negLitOk <;> infer_instance

def litsInRange.dec : (e : E) → Decidable (litsInRange e)
  | .id _ => isTrue trivial
  | .num _ => by unfold litsInRange; infer_instance
  | .neg e => by unfold litsInRange; have := litsInRange.dec e; infer_instance
  | .not e => by unfold litsInRange; exact litsInRange.dec e
  | .par e => by unfold litsInRange; exact litsInRange.dec e
  | .bin _ l r => by unfold litsInRange; have := litsInRange.dec l; have := litsInRange.dec r; infer_instance

instance (e : E) : Decidable (litsInRange e) := litsInRange.dec e

/-! ## the reference printer -/

/-- operator → ClickHouse function name (the property's table) -/
def fnName : BinOp → String
  | .or => "or" | .and => "and"
  | .eq | .eq2 => "equals" | .neq | .neq2 => "notEquals"
  | .lt => "less" | .le => "lessOrEquals" | .gt => "greater" | .ge => "greaterOrEquals"
  | .nseq => "isNotDistinctFrom"
  | .concat => "concat"
  | .plus => "plus" | .minus => "minus"
  | .mul => "multiply" | .div => "divide" | .pct | .kwMod => "modulo" | .kwDiv => "intDiv"

/-- the operators whose unparenthesised chains print as one n-ary call -/
def flattens : BinOp → Bool
  | .or | .and | .concat => true
  | _ => false

def pad (d : Nat) : String := String.ofList (List.replicate d ' ')

def fnLines (d : Nat) (name : String) (n : Nat) : List String :=
  [pad d ++ "Function " ++ name ++ " (children 1)", pad d ++ " ExpressionList (children " ++ toString n ++ ")"]

def litLine (d : Nat) (lit : String) : List String := [pad d ++ "Literal " ++ lit]

def E.size : E → Nat
  | .id _ | .num _ => 1
  | .neg e | .not e | .par e => e.size + 1
  | .bin _ l r => l.size + r.size + 1

/-- number of operands the maximal unparenthesised `o`-chain through `e` contributes -/
def chainLen (o : BinOp) : E → Nat
  | .bin o' l r => if o' = o then chainLen o l + chainLen o r else 1
  | _ => 1

mutual
/-- EXPLAIN of the tree `e` at indentation `d`: one function node per operator (n-ary for maximal unparenthesised
OR/AND/|| chains), parentheses leave no node, `-` directly applied to a literal is a negative literal (`-0` is `UInt64_0`) -/
def refLines (e : E) (d : Nat) : List String :=
  match e with
  | .id s => [pad d ++ "Identifier " ++ s]
  | .num n => litLine d ("UInt64_" ++ toString n)
  | .par x => refLines x d
  | .not x => fnLines d "not" 1 ++ refLines x (d + 2)
  | .neg (.num n) => litLine d (if n = 0 then "UInt64_0" else "Int64_-" ++ toString n)
  | .neg x => fnLines d "negate" 1 ++ refLines x (d + 2)
  | .bin o l r =>
    if flattens o then
      fnLines d (fnName o) (chainLen o l + chainLen o r) ++ chainLines o l (d + 2) ++ chainLines o r (d + 2)
    else
      fnLines d (fnName o) 2 ++ refLines l (d + 2) ++ refLines r (d + 2)
termination_by 2 * e.size
decreasing_by all_goals (simp only [E.size]; omega)

/-- the operands of the maximal unparenthesised `o`-chain through `e`, each printed at indentation `d` -/
def chainLines (o : BinOp) (e : E) (d : Nat) : List String :=
  match e with
  | .bin o' l r => if o' = o then chainLines o l d ++ chainLines o r d else refLines (.bin o' l r) d
  | .id s => refLines (.id s) d
  | .num n => refLines (.num n) d
  | .neg x => refLines (.neg x) d
  | .not x => refLines (.not x) d
  | .par x => refLines (.par x) d
termination_by 2 * e.size + 1
decreasing_by all_goals (simp only [E.size]; omega)
end

/-- the reference EXPLAIN of the expression -/
def refExplain (e : E) : List String := refLines e 0

/-! ## driver: `c08 <hex>` — the expression tree in prefix notation, words separated by spaces:
`<ident>` | `<digits>` | `neg X` | `not X` | `par X` | `bin <op spelling> L R` -/

def opOfWord (w : String) : Option BinOp :=
  match tokOfWord w with
  | some (.op o) => some o
  | _ => none

def decodeE : Nat → List String → Option (E × List String)
  | 0, _ => none
  | _, [] => none
  | fuel+1, w :: ws =>
    if w == "neg" then (decodeE fuel ws).map fun (e, r) => (.neg e, r)
    else if w == "not" then (decodeE fuel ws).map fun (e, r) => (.not e, r)
    else if w == "par" then (decodeE fuel ws).map fun (e, r) => (.par e, r)
    else if w == "bin" then
      match ws with
      | [] => none
      | ow :: ws' =>
        match opOfWord ow with
        | none => none
        | some o =>
          match decodeE fuel ws' with
          | none => none
          | some (l, r1) =>
            match decodeE fuel r1 with
            | none => none
            | some (r, r2) => some (.bin o l r, r2)
    else
      match tokOfWord w with
      | some (.ident s) => some (.id s, ws)
      | some (.number n) => some (.num n, ws)
      | _ => none

def tokWord : Tok → String
  | .ident s => s
  | .number n => toString n
  | .lparen => "(" | .rparen => ")" | .not => "NOT"
  | .op o => o.text
  | .other k => "?" ++ toString k

def hexOfLines (ls : List String) : String :=
  DC.Hex.encode (DC.strBytes ("|".intercalate ls))

def b01 (b : Bool) : String := if b then "1" else "0"

/-- `c08 <hex tree>` answers
`ok <hex text> <wellpar> <noParConcat> <roundtrip> <hex model lines | none> <hex reference lines>`
where text = the rendered tokens separated by single spaces, roundtrip = `parse (render e) == some (erase e)`,
model lines = `explainModel` of the model's parse of the text, lines joined by `|`. -/
def handle (op : String) (args : List String) : Option String :=
  if op != "c08" then none else
  match args with
  | [h] =>
    match DC.Hex.decode h with
    | none => some "bad-arg"
    | some bs =>
      match String.fromUTF8? (ByteArray.mk bs.toArray) with
      | none => some "bad-arg"
      | some s =>
        let ws := (s.splitOn " ").filter (· ≠ "")
        match decodeE (ws.length + 1) ws with
        | some (e, []) =>
          let ts := render e
          let text := " ".intercalate (ts.map tokWord)
          let p := parse ts
          let model := match p with
            | some a => hexOfLines (explainModel a)
            | none => "none"
          some ("ok " ++ DC.Hex.encode (DC.strBytes text) ++ " " ++ b01 (decide (WellPar e)) ++ " " ++
            b01 (decide (noParConcatUnderConcat e)) ++ " " ++ b01 (p == some (erase e)) ++ " " ++ model ++ " " ++
            hexOfLines (refExplain e))
        | _ => some "bad-arg"
  | _ => some "bad-arg"

end DC.Spec.PrecSpec
