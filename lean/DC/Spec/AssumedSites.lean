/-!
# Hand-reviewed panic sites (C01 / C03)

`DC.Gen.PanicSites.unguarded` lists, regenerated from /repo on every check, every index expression, slice expression
and unchecked type assertion of `lexer`, `parser`, `internal/explain`, `ast` for which the translator
(/verif/extract/panicsites.go) found NO syntactic guard from which the bounds follow by linear arithmetic.
This file is written by hand: one entry per such site, keyed by `function | expression` where every local variable of the expression is written `$k:T` (k = order of first
occurrence in the expression, T = its type) — no line numbers and no local names, so edits elsewhere and renamings do not disturb it, each with the reason why the site cannot panic. `DC.Props.C01Sites.unguarded_sites_reviewed`
states that the regenerated list equals this one: a new unguarded site (or a guard that disappears) breaks the build.

A site that is NOT justified is a defect and is not listed here. Defects found while writing this list (all repaired in
/repo meanwhile, after which the translator classifies the sites as `len-guard`):
* `internal/explain.normalizeIntervalUnit | u[:1]` — `SELECT INTERVAL '1 SQL_TSI_'` (unit "sql_tsi_" becomes "" after the
  prefix is stripped): Explain panicked "slice bounds out of range [:1] with length 0"; repaired in dcf5f6c6e.
* `internal/explain.explainKQLFilter | rightVal[1:len(rightVal) - 1]` — `SELECT * FROM kql('T | filter a == \'')` (right side
  is the single character `'`): Explain panicked "slice bounds out of range [1:0]".
-/
namespace DC.Spec.AssumedSites

/-- keys of the reviewed unguarded sites, in source order (package order lexer, parser, internal/explain, ast) -/
def reviewed : List String := [
  -- lexer.go peekCharN: `offset` starts at 0 and only grows by the size returned by utf8.DecodeRune (≥ 0); the loop
  -- condition `offset < len(bytes)` is evaluated immediately before the slice expression.
  -- source text when reviewed: `bytes[offset:]`
  "lexer.Lexer.peekCharN | $0:[]byte[$1:int:]",
  -- readBinaryString: `padding = 8 - len(bits)%8` with the remainder in 1..7, so 1 ≤ padding ≤ 7 ≤ len(bits)+padding = len(paddedBits).
  -- source text when reviewed: `paddedBits[padding:]`
  "lexer.Lexer.readBinaryString | $0:[]byte[$1:int:]",
  -- readBinaryString: after the padding step len(bits) is a multiple of 8; i is a multiple of 8 below len(bits) and j < 8,
  -- so i + j ≤ i + 7 < len(bits) (needs `% 8`, outside the translator's linear fragment).
  -- source text when reviewed: `bits[i + j]`
  "lexer.Lexer.readBinaryString | $0:[]byte[$1:int + $2:int]",
  -- tryReadDollarTag: `offset := size` (DecodeRune size ≥ 0), only grows; loop condition `offset < len(bytes)` just before.
  -- source text when reviewed: `bytes[offset:]`
  "lexer.Lexer.tryReadDollarTag | $0:[]byte[$1:int:]",
  -- tryReadDollarTag: the early exit `if offset >= len(bytes) { return "" }` precedes it; offset ≥ 0 as above
  -- (the translator loses offset ≥ 0 because the increments are not constants).
  -- source text when reviewed: `bytes[offset:]`
  "lexer.Lexer.tryReadDollarTag | $0:[]byte[$1:int:]",
  -- tryReadDollarTag: i ≤ len(bytes) - len(closingTagBytes) (loop condition) and j < len(closingTagBytes), so i + j < len(bytes);
  -- i ≥ openingTagEnd = offset + sz ≥ 0.
  -- source text when reviewed: `bytes[i + j]`
  "lexer.Lexer.tryReadDollarTag | $0:[]byte[$1:int + $2:int]",
  -- parseHexToFloat: guarded by `strings.HasPrefix(strings.ToLower(s), "0x")`; the two ASCII bytes "0x"/"0X" are the only
  -- strings whose lower-casing starts with "0x", so len(s) ≥ 2 (the translator does not look through ToLower).
  -- source text when reviewed: `s[2:]`
  "parser.parseHexToFloat | $0:string[2:]",
  -- parseParameter: `parts := strings.SplitN(value, ":", 2)` returns at least one element for n ≠ 0.
  -- source text when reviewed: `parts[0]`
  "parser.Parser.parseParameter | $0:[]string[0]",
  -- parseIntersectExceptWithFirstOperand: every caller passes a query that already holds ≥ 1 select: parseSelectWithUnion
  -- appended firstItem / the tree / the (non-empty, by induction) selects of a nested parseSelectWithUnion before its
  -- UNION loop; the recursive call follows `unionQuery.Selects = append(unionQuery.Selects, result)`.
  -- source text when reviewed: `unionQuery.Selects[len(unionQuery.Selects) - 1]`
  "parser.Parser.parseIntersectExceptWithFirstOperand | $0:*ast.SelectWithUnionQuery.Selects[len($0:*ast.SelectWithUnionQuery.Selects) - 1]",
  -- source text when reviewed: `unionQuery.Selects[:len(unionQuery.Selects) - 1]`
  "parser.Parser.parseIntersectExceptWithFirstOperand | $0:*ast.SelectWithUnionQuery.Selects[:len($0:*ast.SelectWithUnionQuery.Selects) - 1]",
  -- buildIntersectExceptTree: needs 0 ≤ len(stmts)-1 ≤ len(ops); the second is the enclosing `if`, the first is
  -- stmts ≠ [] which all four callers establish (`stmts := []ast.Statement{first}` and only append):
  -- DC.Props.C01.collect_stmts_nonempty / tree_empty_panics.
  -- source text when reviewed: `ops[:len(stmts) - 1]`
  "parser.buildIntersectExceptTree | $0:[]string[:len($1:[]ast.Statement) - 1]",
  -- buildIntersectExceptTree: loop invariant len(groups) ≥ len(exceptOps) + 1 across the outer loop; proved on the model with
  -- checked indexing: DC.Props.C01.tree_returns (DC.Model.SetOps.outer_ok, foldExcept_ok).
  -- source text when reviewed: `groups[0]`
  "parser.buildIntersectExceptTree | $0:[]ast.Statement[0]",
  -- source text when reviewed: `groups[j + 1]`
  "parser.buildIntersectExceptTree | $0:[]ast.Statement[$1:int + 1]",
  -- withoutFormat: `c.Selects = append([]ast.Statement(nil), swu.Selects...)` has the length of swu.Selects and i is the key
  -- of `range swu.Selects`.
  -- source text when reviewed: `cp.Selects[i]`
  "internal/explain.withoutFormat | $0:*ast.SelectWithUnionQuery.Selects[$1:int]",
  -- sanitizeUTF8: loop `for i := 0; i < len(s); { … }` whose body only does i++ / i += size with size ≥ 1 from DecodeRuneInString
  -- on a non-empty string; the condition i < len(s) is evaluated just before.
  -- source text when reviewed: `s[i:]`
  "internal/explain.sanitizeUTF8 | $0:string[$1:int:]",
  -- explainInExpr / explainInExprWithAlias: reached only under `allTuples`, which the preceding loop sets to false unless
  -- every element of the same n.List passed `item.(*ast.Literal)` with comma-ok.
  -- source text when reviewed: `item.(*ast.Literal)`
  "internal/explain.explainInExpr | $0:ast.Expression.(*ast.Literal)",
  -- source text when reviewed: `item.(*ast.Literal)`
  "internal/explain.explainInExprWithAlias | $0:ast.Expression.(*ast.Literal)",
  -- parseKQLCondition: `idx := strings.Index(cond, op); idx > 0` — Index returns a position with idx + len(op) ≤ len(cond).
  -- source text when reviewed: `cond[:idx]`
  "internal/explain.parseKQLCondition | $0:string[:$1:int]",
  -- source text when reviewed: `cond[idx + len(op):]`
  "internal/explain.parseKQLCondition | $0:string[$1:int + len($2:string):]",
  -- groupSelectsByUnionMode: modeChangeIdx is -1 (early return) or a value of the loop variable, 1 ≤ i < len(unionModes);
  -- the two slices of `selects` additionally need len(unionModes) ≤ len(selects) - 1, which holds for every tree Parse
  -- returns with err == nil: a union mode is appended before its operand is parsed and the operand's failure is a
  -- recorded error (DC.Props.C03Sites: parseSelect's nil returns are dominated by an error), parenthesised operands only add selects.
  -- source text when reviewed: `selects[:modeChangeIdx + 1]`
  "internal/explain.groupSelectsByUnionMode | $0:[]ast.Statement[:$1:int + 1]",
  -- source text when reviewed: `unionModes[:modeChangeIdx]`
  "internal/explain.groupSelectsByUnionMode | $0:[]string[:$1:int]",
  -- source text when reviewed: `selects[modeChangeIdx + 1:]`
  "internal/explain.groupSelectsByUnionMode | $0:[]ast.Statement[$1:int + 1:]",
  -- explainInsertQuery: every element of InsertQuery.Columns is built at parser.go parseInsert as
  -- `&ast.Identifier{Parts: []string{colName}}` (one part).
  -- source text when reviewed: `col.Parts[len(col.Parts) - 1]`
  "internal/explain.explainInsertQuery | $0:*ast.Identifier.Parts[len($0:*ast.Identifier.Parts) - 1]",
  -- explainExplainQuery: swuCopy.Selects is a copy of swu.Selects of the same length; i is the key of `range swu.Selects`.
  -- source text when reviewed: `swuCopy.Selects[i]`
  "internal/explain.explainExplainQuery | $0:ast.SelectWithUnionQuery.Selects[$1:int]",
  -- explainExplainQuery: `format` is a SelectQuery.Format; all its constructions in parser.go are
  -- `&ast.Identifier{Parts: []string{…}}` with exactly one part.
  -- source text when reviewed: `format.Parts[len(format.Parts) - 1]`
  "internal/explain.explainExplainQuery | $0:*ast.Identifier.Parts[len($0:*ast.Identifier.Parts) - 1]"
]

/-- which static Value types may accompany which `ast.LiteralType` (the pairing the unchecked assertions
`lit.Value.(T)` under `switch lit.Type` rely on). `"?lit.Type"` ↔ `"?interface:lit.Value"` is the field-by-field copy
in explainWithElement. -/
def allowedLiteral : List (String × String) := [
  ("String", "string"), ("Float", "float64"), ("Boolean", "bool"),
  ("Integer", "int64"), ("Integer", "uint64"), ("Integer", "string"),
  ("Null", "nil"), ("Array", "[]ast.Expression"), ("Tuple", "[]ast.Expression"),
  ("?lit.Type", "?interface:lit.Value")]

/-- constructions `&ast.Literal{…}` without a `Value:` field, reviewed: the Value (and Type) is assigned on every path
before the literal is returned -/
def valueSetLater : List String := [
  -- parseNumber: every branch of the if/else tree assigns Type and Value together
  "parser.Parser.parseNumber | <none>",
  -- parseSpecialNumber: only called for token.NAN / token.INF (parsePrefix), both arms of the switch assign a float64
  "parser.Parser.parseSpecialNumber | Float",
  -- parseUnaryMinus: the three branches assign (Float, float64), (String, string) or an int64 Value for the Integer type
  "parser.Parser.parseUnaryMinus | Integer",
  -- parseArrayLiteral: `lit.Value = elements` on the single path to the return
  "parser.Parser.parseArrayLiteral | Array"]

end DC.Spec.AssumedSites
