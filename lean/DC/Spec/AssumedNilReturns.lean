/-!
# Hand-reviewed silent `return nil`s of the parser (C03)

`DC.Gen.NilReturns.silent` lists, regenerated from /repo, every literal `return nil` of package parser in a function whose
result is a pointer to an ast struct or an ast interface and for which the translator (/verif/extract/nilreturns.go) found
neither a recorded error before it (`dominated-by-error`) nor a failed callee it merely passes on (`propagates-nil`).
This hand-written list gives, per such return (key = function | innermost enclosing condition), why it cannot put a
typed-nil pointer into an interface-typed slot of a tree that Parse returns with err == nil.
`DC.Props.C03Sites.silent_returns_reviewed` ties the regenerated list to this one.

Two kinds of result matter. A function returning an INTERFACE (`ast.Expression`, `ast.Statement`) returns the untyped
nil interface: it is never a typed nil; statement-level nils are dropped by `isNilStatement` in ParseStatements /
parseParallelWith. A function returning a POINTER (`*ast.X`) is dangerous only where a caller stores the result in an
interface-typed variable without a nil check.
-/
namespace DC.Spec.AssumedNilReturns

def reviewed : List String := [
  -- returns ast.Expression; nil only when its ARGUMENT is nil (a failed parse passed on by the caller): pure propagation.
  -- source text when reviewed: `if expr == nil`
  "parser.Parser.parseImplicitAlias | if $0:ast.Expression == nil",
  -- returns ast.Expression (untyped nil) for a token that starts no expression; callers test `== nil` (parseExpression,
  -- parseExpressionFrom propagate). Not an error by itself: `SELECT 1 +` is accepted with a nil right operand, which is a
  -- nil INTERFACE field, not a typed nil; Explain prints it (searched: harness C03).
  "parser.Parser.parsePrefixExpression | default",
  -- returns ast.Expression; `left` is the result of parseInfixExpression (the translator does not see it as a pure
  -- parse result because `left` starts as `ast.Expression(lit)`): propagation of the callee's nil.
  -- source text when reviewed: `if left == nil`
  "parser.Parser.parseUnaryMinus | if $0:ast.Expression == nil",
  -- returns ast.Expression; nil only when its argument is nil (repair 4502cc7fc): pure propagation.
  -- source text when reviewed: `if expr == nil`
  "parser.Parser.wrapWithAlias | if $0:ast.Expression == nil",
  -- returns ast.Statement (untyped nil) for `REPLACE <not TABLE/DICTIONARY>`; parseStatement's caller drops nil
  -- statements (isNilStatement), so no nil statement is returned: `REPLACE` alone yields zero statements, err == nil.
  "parser.Parser.parseReplace | <top>",
  -- returns *ast.DictionaryAttributeDeclaration; the only caller (parseCreateDictionary) appends it only `if attr != nil`.
  -- source text when reviewed: `if attr.Name == ""`
  "parser.Parser.parseDictionaryAttribute | if $0:*ast.DictionaryAttributeDeclaration.Name == \"\"",
  -- returns *ast.ColumnDeclaration; callers either append only `if col != nil` (CREATE/ATTACH column lists) or store it
  -- in the pointer-typed field AlterCommand.Column (not an interface).
  -- source text when reviewed: `else of if p.currentIs(token.IDENT) || p.current.Token.IsKeyword()`
  "parser.Parser.parseColumnDeclaration | else of if $0:*parser.Parser.currentIs(token.IDENT) || $0:*parser.Parser.current.Token.IsKeyword()",
  -- returns *ast.DataType; stored in pointer-typed `Type *DataType` fields, checked `if paramType != nil`, or (the one
  -- assignment to an ast.Expression variable, `param = p.parseDataType()`) called only under
  -- `p.currentIs(token.IDENT) || p.current.Token.IsKeyword()`, i.e. exactly when this return is not taken.
  -- source text when reviewed: `if !p.currentIs(token.IDENT) && !p.current.Token.IsKeyword()`
  "parser.Parser.parseDataType | if !$0:*parser.Parser.currentIs(token.IDENT) && !$0:*parser.Parser.current.Token.IsKeyword()",
  -- returns *ast.AlterCommand; both callers in parseAlter test the result (`if cmd != nil` / `if cmd == nil { break }`)
  -- before appending to the pointer-typed slice AlterQuery.Commands.
  -- source text when reviewed: `else of if upper == "RESET"`
  "parser.Parser.parseAlterCommand | else of if $0:string == \"RESET\"",
  "parser.Parser.parseAlterCommand | default"
]

/-- Functions whose result is a POINTER to an ast struct and that contain a literal `return nil` (one entry per such
return, in source order), whatever its class. A nil pointer is harmless as long as every caller tests it before storing
it in an interface-typed slot; the callers of exactly these functions were read for that (and the search of C03 finds no
typed nil on any accepted input). A `return nil` appearing in another pointer-returning function — e.g. an
error-recovery exit added to `parseFunctionCall`, whose callers assign the result to `ast.Expression` unchecked — changes
this list and breaks `DC.Props.C03Sites.pointer_nil_returns_reviewed`. -/
def pointerNil : List String := [
  "parser.Parser.parseSelectWithUnionWithParsedWith",
  "parser.Parser.parseSelectWithUnion",
  "parser.Parser.parseSelectWithUnion",
  "parser.Parser.parseSelectInternal",
  "parser.Parser.parseSelectInternal",
  "parser.Parser.parseSelectInternal",
  "parser.Parser.parseSelectInternal",
  "parser.Parser.parseTablesInSelect",
  "parser.Parser.parseTableElementWithJoin",
  "parser.Parser.parseInsert",
  "parser.Parser.parseDictionaryAttribute",
  "parser.Parser.parseColumnDeclaration",
  "parser.Parser.parseDataType",
  "parser.Parser.parseCodecExpr",
  "parser.Parser.parseAlter",
  "parser.Parser.parseAlterCommand",
  "parser.Parser.parseAlterCommand",
  "parser.Parser.parseOptimize",
  "parser.Parser.parseRename",
  "parser.Parser.parseExchange",
  "parser.Parser.parseExchange",
  "parser.Parser.parseArrayJoin",
  "parser.Parser.parseArrayJoin",
  "parser.Parser.parseFromSelectSyntax"]

end DC.Spec.AssumedNilReturns
