import DC.Model.RdM
import DC.Model.Lexer
import DC.Model.BufioIO

/-!
# `/repo/lexer/lexer.go` written against the reader *interface* (`RdM`)

`DC.Model.Lexer` mirrors lexer.go over the pure reader (`rest : Bytes` is a field of its state). This file is the same
lexer, function by function and in the same order, with every access to the reader replaced by one of the two calls
lexer.go really makes: `l.reader.ReadRune()` (`RdM.rune`, only in `readCharM` = lexer.go:41-63) and `l.reader.Peek(n)`
(`RdM.peekOp`, only in `peekM` = lexer.go:73-83). The lexer state `MState` is `Lexer` (lexer.go:15-21) without the
reader: `ch`, `pos`, `eof`. (`Lexer.err`, the error slot read by `Err()` only, is modelled with `recordErr` in
`DC.Bufio.Client`; nothing in the token stream depends on it.)

The programs can therefore be run over any implementation of the two calls: `RdM.runBufio` runs them over the
`bufio.Reader` model on a scripted `io.Reader`, `RdM.runL` over the bytes. `DC.Proofs.LexerRd*` prove that `runL` of
every function here IS the corresponding function of `DC.Model.Lexer` (`tokenizeM_pure`), and `DC.Props.C14Lex` concludes
`lex_chunking`.

Differences in form from `DC.Model.Lexer`, none in content:
* loops cannot be well-founded recursions (the program does not know how many bytes the reader still has): every loop
  takes `fuel`, spends one unit per iteration, hands its current fuel to the loops it calls, and aborts with
  `Fail.fuel` at 0. `2·|input| + 1` is always enough (`tokenizeM_pure`), and any larger value gives the same result.
* Go's short-circuit conditions `l.ch == c && l.peekChar() == d` issue the `Peek` only when the left side holds
  (`chPeekIs`); repeated `l.peekChar()` calls inside one condition are issued as often as Go issues them.
* run-time panics (index out of range) are `Fail.panic site`.
* the window logic of `tryReadDollarTag` is the function `dollarTagOf` of the peeked bytes; `isIdentifierAfterDot`'s is
  `identAfterDotBytes`.
-/
namespace DC.LexerRd
open DC DC.Utf8 DC.Gen.Tokens DC.Gen.Unicode DC.Lexer DC.Rd DC.Bufio

/-- why a program stops without a result -/
inductive Fail where
  | panic (site : PanicSite)   -- a Go run-time panic (never happens: `DC.Props.C12.lex_no_panic` + `lex_chunking`)
  | fuel                       -- a model loop ran out of fuel (never happens with `fuel > 2·|input|`)
deriving Repr, DecidableEq

abbrev M := RdM Fail

/-- `Lexer` (lexer.go:15-21) without `reader` (the interpreter's state) and `err`. -/
structure MState where
  ch : Nat
  off : Nat
  line : Nat
  col : Nat
  eof : Bool
deriving Repr, DecidableEq

/-- `Item{Token: kind, Value: val, Pos: l.pos, Quoted: q}` with `l.pos` read in state `m`. -/
def tokAtM (m : MState) (kind : Nat) (val : Bytes) (q : Bool := false) : Tok :=
  { kind := kind, val := val, off := m.off, line := m.line, col := m.col, quoted := q }

/-! ## Reading and peeking -/

/-- lexer.go:41-63 `readChar`. -/
def readCharM (m : MState) : M MState :=
  if m.eof then pure { m with ch := 0 }
  else do
    let r ← RdM.rune
    if r.err.isSome then pure { m with ch := 0, eof := true }
    else pure { ch := r.rune, off := m.off + r.size,
                line := if m.ch = 10 then m.line + 1 else m.line,
                col := if m.ch = 10 then 1 else m.col + 1,
                eof := false }

/-- lexer.go:32-39 `New` (after `bufio.NewReader`, which is the interpreter's initial state). -/
def newM : M MState :=
  readCharM { ch := 0, off := 0, line := 1, col := 0, eof := false }

/-- `n` times `l.readChar()`. -/
def iterRCM : Nat → MState → M MState
  | 0, m => pure m
  | n + 1, m => do
    let m1 ← readCharM m
    iterRCM n m1

/-- lexer.go:73-83 `peek` (the `recordErr` of its error goes to `Lexer.err` only). -/
def peekM (n : Nat) : M (Bytes × Option Err) := RdM.peekOp n

/-- `bytes, _ := l.peek(n)` -/
def peekBytesM (n : Nat) : M Bytes := do
  let r ← peekM n
  pure r.1

/-- lexer.go:85-95 `peekChar`. -/
def peekCharM (m : MState) : M Nat :=
  if m.eof then pure 0
  else do
    let r ← peekM 1
    if r.2.isSome || r.1.isEmpty then pure 0
    else pure (decodeRune r.1).1

/-- lexer.go:98-116 `peekCharN` (`len(bytes) == 0` answers 0 inside `peekCharNLoop`). -/
def peekCharNM (m : MState) (n : Nat) : M Nat :=
  if m.eof || n < 1 then pure 0
  else do
    let bytes ← peekBytesM (n * 4)
    pure (peekCharNLoop (n - 1) bytes)

/-- Go's `c && l.peekChar() == k`: the `Peek` is issued only when `c` holds. -/
def chPeekIs (c : Prop) [Decidable c] (m : MState) (k : Nat) : M Bool :=
  if c then do
    let pk ← peekCharM m
    pure (pk = k)
  else pure false

/-- `for cond(l) { sb.WriteRune(l.ch); l.readChar() }` -/
def scanWhileM : Nat → (MState → Bool) → MState → Bytes → M (MState × Bytes)
  | 0, _, _, _ => .fail .fuel
  | f + 1, p, m, acc =>
    if p m then do
      let m1 ← readCharM m
      scanWhileM f p m1 (pushRune acc m.ch)
    else pure (m, acc)

/-- lexer.go:118-124 `skipWhitespace`. -/
def skipWhitespaceM : Nat → MState → M MState
  | 0, _ => .fail .fuel
  | f + 1, m =>
    if isSpace m.ch || isClickHouseWhitespace m.ch then do
      let m1 ← readCharM m
      skipWhitespaceM f m1
    else pure m

/-- the byte-level logic of lexer.go:129-168 `isIdentifierAfterDot` on the peeked window. -/
def identAfterDotBytes (bytes : Bytes) : Bool :=
  if bytes.isEmpty then false
  else
    let idx := (bytes.takeWhile (fun b => 48 ≤ b.toNat && b.toNat ≤ 57)).length
    if idx = 0 then false
    else
      let us := bytes[idx]? == some 95
      if us && (match bytes[idx + 1]? with | some b => isIdentContinueByte b | none => false) then true
      else
        let idx1 := if us then idx + 1 else idx
        let tail := bytes.drop idx1
        if tail.isEmpty then false
        else
          let ch := (decodeRune tail).1
          if isLetter ch then
            if ch = 101 || ch = 69 then
              match bytes[idx1 + 1]? with
              | some next =>
                if (48 ≤ next.toNat && next.toNat ≤ 57) || next.toNat = 43 || next.toNat = 45 then false else true
              | none => true
            else true
          else false

/-- lexer.go:129-168 `isIdentifierAfterDot`. -/
def isIdentifierAfterDotM : M Bool := do
  let bytes ← peekBytesM 32
  pure (identAfterDotBytes bytes)

/-! ## Comments -/

def lineCommentCondM (m : MState) : Bool := m.ch ≠ 10 && m.ch ≠ 0 && !m.eof
def minusCommentCondM (m : MState) : Bool := m.ch ≠ 10 && m.ch ≠ 59 && m.ch ≠ 0 && !m.eof

/-- lexer.go:396-412 `readLineComment`. -/
def readLineCommentM (f : Nat) (m : MState) : M (Tok × MState) := do
  let acc := pushRune [] m.ch
  let m1 ← readCharM m
  let acc := pushRune acc m1.ch
  let m2 ← readCharM m1
  let r ← scanWhileM f lineCommentCondM m2 acc
  pure (tokAtM m tLINE_COMMENT (trimRightSemis r.2).reverse, r.1)

/-- lexer.go:414-428 `readHashComment`. -/
def readHashCommentM (f : Nat) (m : MState) : M (Tok × MState) := do
  let acc := pushRune [] m.ch
  let m1 ← readCharM m
  let r ← scanWhileM f lineCommentCondM m1 acc
  pure (tokAtM m tLINE_COMMENT (trimRightSemis r.2).reverse, r.1)

/-- lexer.go:432-444 `readUnicodeMinusComment`. -/
def readUnicodeMinusCommentM (f : Nat) (m : MState) : M (Tok × MState) := do
  let acc := pushRune [] m.ch
  let m1 ← readCharM m
  let r ← scanWhileM f minusCommentCondM m1 acc
  pure (tokAtM m tLINE_COMMENT r.2.reverse, r.1)

/-- loop of `readBlockComment` (lexer.go:458-475). -/
def blockCommentLoopM : Nat → MState → Bytes → Nat → M (MState × Bytes)
  | 0, _, _, _ => .fail .fuel
  | f + 1, m, acc, nesting =>
    if m.eof = false ∧ nesting > 0 then do
      let close ← chPeekIs (m.ch = 42) m 47
      if close then do
        let m1 ← readCharM m
        let m2 ← readCharM m1
        blockCommentLoopM f m2 (pushRune (pushRune acc m.ch) m1.ch) (nesting - 1)
      else do
        let open_ ← chPeekIs (m.ch = 47) m 42
        if open_ then do
          let m1 ← readCharM m
          let m2 ← readCharM m1
          blockCommentLoopM f m2 (pushRune (pushRune acc m.ch) m1.ch) (nesting + 1)
        else do
          let m1 ← readCharM m
          blockCommentLoopM f m1 (pushRune acc m.ch) nesting
    else pure (m, acc)

/-- lexer.go:446-477 `readBlockComment`. -/
def readBlockCommentM (f : Nat) (m : MState) : M (Tok × MState) := do
  let acc := pushRune [] m.ch
  let m1 ← readCharM m
  let acc := pushRune acc m1.ch
  let m2 ← readCharM m1
  let r ← blockCommentLoopM f m2 acc 1
  pure (tokAtM m tLINE_COMMENT r.2.reverse, r.1)

/-! ## Strings -/

/-- the `for !l.eof` loop of `readString` (lexer.go:484-553) and `readBacktickIdentifier` (lexer.go:711-782). -/
def quotedLoopM : Nat → Bool → Nat → MState → Bytes → M (MState × Bytes)
  | 0, _, _, _, _ => .fail .fuel
  | f + 1, bt, quote, m, acc =>
    if m.eof = false then
      if m.ch = quote then do
        let pk ← peekCharM m
        if pk = quote then do
          let m1 ← readCharM m
          let m2 ← readCharM m1
          quotedLoopM f bt quote m2 (pushRune acc quote)
        else do
          let m1 ← readCharM m
          pure (m1, acc)
      else if m.ch = 92 then do
        let m1 ← readCharM m
        if m1.eof then pure (m1, acc)
        else if m1.ch = 120 then do
          let m2 ← readCharM m1
          if m2.eof then do
            let m3 ← readCharM m2
            quotedLoopM f bt quote m3 acc
          else do
            let m3 ← readCharM m2
            if m3.eof then quotedLoopM f bt quote m3 (pushRune acc (hexValue m2.ch))
            else do
              let m4 ← readCharM m3
              quotedLoopM f bt quote m4 (pushByte acc (hexValue m2.ch * 16 + hexValue m3.ch))
        else
          match simpleEscape bt m1.ch with
          | some r => do
            let m2 ← readCharM m1
            quotedLoopM f bt quote m2 (pushRune acc r)
          | none => do
            let m2 ← readCharM m1
            quotedLoopM f bt quote m2 (pushRune (pushRune acc 92) m1.ch)
      else do
        let m1 ← readCharM m
        quotedLoopM f bt quote m1 (pushRune acc m.ch)
    else pure (m, acc)

/-- lexer.go:479-555 `readString`. -/
def readStringM (f : Nat) (quote : Nat) (m : MState) : M (Tok × MState) := do
  let m1 ← readCharM m
  let r ← quotedLoopM f false quote m1 []
  pure (tokAtM m tSTRING r.2.reverse, r.1)

/-- loop of `readHexString` (lexer.go:562-582). -/
def hexStringLoopM : Nat → MState → Bytes → M (MState × Bytes)
  | 0, _, _ => .fail .fuel
  | f + 1, m, acc =>
    if m.eof = false then
      if m.ch = 39 then do
        let m1 ← readCharM m
        pure (m1, acc)
      else do
        let m1 ← readCharM m
        if m1.eof = true ∨ m1.ch = 39 then
          if m1.ch = 39 then do
            let m2 ← readCharM m1
            pure (m2, pushByte acc (hexValue m.ch))
          else pure (m1, pushByte acc (hexValue m.ch))
        else do
          let m2 ← readCharM m1
          hexStringLoopM f m2 (pushByte acc (hexValue m.ch * 16 + hexValue m1.ch))
    else pure (m, acc)

/-- lexer.go:557-584 `readHexString`. -/
def readHexStringM (f : Nat) (m : MState) : M (Tok × MState) := do
  let m1 ← readCharM m
  let r ← hexStringLoopM f m1 []
  pure (tokAtM m tSTRING r.2.reverse, r.1)

/-- first loop of `readBinaryString` (lexer.go:593-602). -/
def binaryCollectM : Nat → MState → Array UInt8 → M (MState × Array UInt8)
  | 0, _, _ => .fail .fuel
  | f + 1, m, bits =>
    if m.eof = false then
      if m.ch = 39 then do
        let m1 ← readCharM m
        pure (m1, bits)
      else do
        let m1 ← readCharM m
        binaryCollectM f m1 (if m.ch = 48 ∨ m.ch = 49 then bits.push (m.ch - 48).toUInt8 else bits)
    else pure (m, bits)

/-- lexer.go:586-628 `readBinaryString`. -/
def readBinaryStringM (f : Nat) (m : MState) : M (Tok × MState) := do
  let m1 ← readCharM m
  let r ← binaryCollectM f m1 #[]
  match binaryConvert r.2 with
  | .error e => .fail (.panic e)
  | .ok v => pure (tokAtM m tSTRING v.reverse, r.1)

/-- loop of `readQuotedIdentifier` (lexer.go:635-658). -/
def quotedIdentLoopM : Nat → MState → Bytes → M (MState × Bytes)
  | 0, _, _ => .fail .fuel
  | f + 1, m, acc =>
    if m.eof = false then
      if m.ch = 34 then do
        let m1 ← readCharM m
        if m1.ch = 34 then do
          let m2 ← readCharM m1
          quotedIdentLoopM f m2 (pushRune acc 34)
        else pure (m1, acc)
      else if m.ch = 92 then do
        let m1 ← readCharM m
        if m1.eof = false then do
          let m2 ← readCharM m1
          quotedIdentLoopM f m2 (pushRune acc m1.ch)
        else quotedIdentLoopM f m1 acc
      else do
        let m1 ← readCharM m
        quotedIdentLoopM f m1 (pushRune acc m.ch)
    else pure (m, acc)

/-- lexer.go:630-660 `readQuotedIdentifier`. -/
def readQuotedIdentifierM (f : Nat) (m : MState) : M (Tok × MState) := do
  let m1 ← readCharM m
  let r ← quotedIdentLoopM f m1 []
  pure (tokAtM m tIDENT r.2.reverse true, r.1)

def untilCondM (q : Nat) (m : MState) : Bool := !m.eof && m.ch ≠ q

/-- body shared by `readUnicodeString`, `readUnicodeQuotedIdentifier`, `readParameter`. -/
def readUntilM (f : Nat) (close : Nat) (m : MState) : M (MState × Bytes) := do
  let m1 ← readCharM m
  let r ← scanWhileM f (untilCondM close) m1 []
  if r.1.ch = close then do
    let m2 ← readCharM r.1
    pure (m2, r.2)
  else pure r

/-- lexer.go:663-682 `readUnicodeString`. -/
def readUnicodeStringM (f : Nat) (_openQuote : Nat) (m : MState) : M (Tok × MState) := do
  let r ← readUntilM f 0x2019 m
  pure (tokAtM m tSTRING r.2.reverse, r.1)

/-- lexer.go:685-704 `readUnicodeQuotedIdentifier`. -/
def readUnicodeQuotedIdentifierM (f : Nat) (_openQuote : Nat) (m : MState) : M (Tok × MState) := do
  let r ← readUntilM f 0x201D m
  pure (tokAtM m tIDENT r.2.reverse true, r.1)

/-- lexer.go:706-784 `readBacktickIdentifier`. -/
def readBacktickIdentifierM (f : Nat) (m : MState) : M (Tok × MState) := do
  let m1 ← readCharM m
  let r ← quotedLoopM f true 96 m1 []
  pure (tokAtM m tIDENT r.2.reverse, r.1)

/-! ## Dollar quoting -/

/-- the decision of lexer.go:789-851 `tryReadDollarTag` on `bytes` = the result of `l.peek(8192)`: `some tag` when
`bytes` starts with `tag$` and contains `$tag$` later, `none` for "not a dollar-quoted string". A window position
`bytes[offset:]` is `(cur, k)` with `cur = bytes.drop offset`, `k = len(bytes) - offset` (so `cur.take k = cur`);
the helper functions are those of `DC.Model.Lexer`. -/
def dollarTagOf (bytes : Bytes) : Except PanicSite (Option Bytes) :=
  let k0 := bytes.length
  if bytes.isEmpty then .ok none
  else
    let d := winDecode bytes k0
    if !isLetter d.1 && d.1 ≠ 95 then .ok none
    else
      let r := tagScan (bytes.drop d.2) (k0 - d.2) (pushRune [] d.1)
      if r.2.1 = 0 ∨ r.1 = [] then .ok none
      else
        let d2 := winDecode r.1 r.2.1
        if d2.1 ≠ 36 then .ok none
        else
          let tag := r.2.2.reverse
          let closing := 36 :: (tag ++ [36])
          match findClosing closing closing.length (r.1.drop d2.2) (r.2.1 - d2.2) with
          | .error e => .error e
          | .ok false => .ok none
          | .ok true => .ok (some tag)

/-- lexer.go:789-863 `tryReadDollarTag`: the tag (`[]` = none) and the new state. -/
def tryReadDollarTagM (m : MState) : M (Bytes × MState) := do
  let bytes ← peekBytesM 8192
  match dollarTagOf bytes with
  | .error e => .fail (.panic e)
  | .ok none => pure ([], m)
  | .ok (some tag) => do
    let m1 ← readCharM m
    let m2 ← iterRCM tag.length m1
    let m3 ← readCharM m2
    pure (tag, m3)

/-- `for i := 1; i < len(closingDelim) && match; i++ { if l.peekCharN(i) != rune(closingDelim[i]) … }`
(lexer.go:885-889); `todo = len(closingDelim) - i`. -/
def delimMatchM (m : MState) (closing : Bytes) : Nat → Nat → M Bool
  | 0, _ => pure true
  | todo + 1, i =>
    match closing[i]? with
    | none => .fail (.panic .closingDelimIndex)
    | some c => do
      let pk ← peekCharNM m i
      if pk ≠ c.toNat then pure false
      else delimMatchM m closing todo (i + 1)

/-- loop of `readDollarQuotedString` (lexer.go:880-900). -/
def dollarBodyLoopM : Nat → Bytes → MState → Bytes → M (MState × Bytes)
  | 0, _, _, _ => .fail .fuel
  | f + 1, closing, m, acc =>
    if m.eof = false then
      if m.ch = 36 then do
        let hit ← delimMatchM m closing (closing.length - 1) 1
        if hit then do
          let m1 ← iterRCM closing.length m
          pure (m1, acc)
        else do
          let m1 ← readCharM m
          dollarBodyLoopM f closing m1 (pushRune acc m.ch)
      else do
        let m1 ← readCharM m
        dollarBodyLoopM f closing m1 (pushRune acc m.ch)
    else pure (m, acc)

/-- lexer.go:866-902 `readDollarQuotedString`. -/
def readDollarQuotedStringM (f : Nat) (tag : Bytes) (m : MState) : M (Tok × MState) := do
  let m0 ← if tag.isEmpty then do
      let m1 ← readCharM m
      readCharM m1
    else pure m
  let closing := 36 :: (tag ++ [36])
  let r ← dollarBodyLoopM f closing m0 []
  pure (tokAtM m tSTRING r.2.reverse, r.1)

def dollarIdentCondM (m : MState) : Bool := isIdentChar m.ch || m.ch = 36

/-- lexer.go:905-919 `readDollarIdentifier`. -/
def readDollarIdentifierM (f : Nat) (m : MState) : M (Tok × MState) := do
  let m1 ← readCharM m
  let r ← scanWhileM f dollarIdentCondM m1 (pushRune [] m.ch)
  pure (tokAtM m tIDENT r.2.reverse, r.1)

/-! ## Numbers -/

def identCharCondM (m : MState) : Bool := isIdentChar m.ch
def digitCondM (m : MState) : Bool := isDigit m.ch
def hexDigitCondM (m : MState) : Bool := isHexDigit m.ch
def hexDigitUsCondM (m : MState) : Bool := isHexDigit m.ch || m.ch = 95
def binDigitCondM (m : MState) : Bool := m.ch = 48 || m.ch = 49 || m.ch = 95
def octDigitCondM (m : MState) : Bool := (48 ≤ m.ch && m.ch ≤ 55) || m.ch = 95

/-- `l.ch == '_' && unicode.IsDigit(l.peekChar())` -/
def usDigitAheadM (m : MState) : M Bool :=
  if m.ch = 95 then do
    let pk ← peekCharM m
    pure (isDigit pk)
  else pure false

/-- `for l.ch == '_' && unicode.IsDigit(l.peekChar()) { l.readChar() }`. -/
def skipUnderscoresM : Nat → MState → M MState
  | 0, _ => .fail .fuel
  | f + 1, m => do
    let go ← usDigitAheadM m
    if go then do
      let m1 ← readCharM m
      skipUnderscoresM f m1
    else pure m

/-- `for unicode.IsDigit(l.ch) { sb.WriteRune(l.ch); l.readChar(); for l.ch == '_' && IsDigit(peek) { l.readChar() } }`. -/
def digitsUsM : Nat → MState → Bytes → M (MState × Bytes)
  | 0, _, _ => .fail .fuel
  | f + 1, m, acc =>
    if isDigit m.ch then do
      let m1 ← readCharM m
      let m2 ← skipUnderscoresM (f + 1) m1
      digitsUsM f m2 (pushRune acc m.ch)
    else pure (m, acc)

/-- `if l.ch == c1 || l.ch == c2 { sb.WriteRune(l.ch); l.readChar() }`. -/
def optChar2M (c1 c2 : Nat) (m : MState) (acc : Bytes) : M (MState × Bytes) :=
  if m.ch = c1 ∨ m.ch = c2 then do
    let m1 ← readCharM m
    pure (m1, pushRune acc m.ch)
  else pure (m, acc)

/-- `sb.WriteRune(l.ch); l.readChar()`. -/
def takeCharM (m : MState) (acc : Bytes) : M (MState × Bytes) := do
  let m1 ← readCharM m
  pure (m1, pushRune acc m.ch)

/-- hex literal tail after `0`, at `x`/`X` (lexer.go:938-966 = 1140-1168). -/
def hexTailM (f : Nat) (m : MState) (acc : Bytes) : M (MState × Bytes) := do
  let p ← takeCharM m acc
  let p ← scanWhileM f hexDigitUsCondM p.1 p.2
  let p ← if p.1.ch = 46 then do
      let p ← takeCharM p.1 p.2
      scanWhileM f hexDigitCondM p.1 p.2
    else pure p
  if p.1.ch = 112 ∨ p.1.ch = 80 then do
    let p ← takeCharM p.1 p.2
    let p ← optChar2M 43 45 p.1 p.2
    scanWhileM f digitCondM p.1 p.2
  else pure p

/-- decimal point part (lexer.go:1000-1016 = 1102-1117). -/
def fracPartM (f : Nat) (m : MState) (acc : Bytes) : M (MState × Bytes) :=
  if m.ch = 46 then do
    let nextCh ← peekCharM m
    if isDigit nextCh || (!isIdentStart nextCh && nextCh ≠ 46) then do
      let p ← takeCharM m acc
      digitsUsM f p.1 p.2
    else pure (m, acc)
  else pure (m, acc)

/-- exponent part (lexer.go:1019-1034 = 1120-1134). -/
def expPartM (f : Nat) (m : MState) (acc : Bytes) : M (MState × Bytes) :=
  if m.ch = 101 ∨ m.ch = 69 then do
    let p ← takeCharM m acc
    let p ← optChar2M 43 45 p.1 p.2
    digitsUsM f p.1 p.2
  else pure (m, acc)

/-- integer, fraction and exponent parts of `readNumber` (lexer.go:989-1036); `m0` = state at the token start. -/
def decimalTailM (f : Nat) (m0 : MState) (m : MState) (acc : Bytes) : M (Tok × MState) := do
  let p ← digitsUsM f m acc
  let p ← fracPartM f p.1 p.2
  let p ← expPartM f p.1 p.2
  pure (tokAtM m0 tNUMBER p.2.reverse, p.1)

/-- the `if l.ch == '0'` block of `readNumber` (lexer.go:932-987), entered at the `0`. -/
def zeroPrefixM (f : Nat) (m0 : MState) (m : MState) (acc : Bytes) : M (Tok × MState) := do
  let p ← takeCharM m acc
  if p.1.ch = 120 ∨ p.1.ch = 88 then do
    let p ← hexTailM f p.1 p.2
    pure (tokAtM m0 tNUMBER p.2.reverse, p.1)
  else if p.1.ch = 98 ∨ p.1.ch = 66 then do
    let p ← takeCharM p.1 p.2
    let p ← scanWhileM f binDigitCondM p.1 p.2
    pure (tokAtM m0 tNUMBER p.2.reverse, p.1)
  else if p.1.ch = 111 ∨ p.1.ch = 79 then do
    let p ← takeCharM p.1 p.2
    let p ← scanWhileM f octDigitCondM p.1 p.2
    pure (tokAtM m0 tNUMBER p.2.reverse, p.1)
  else decimalTailM f m0 p.1 p.2

/-- lexer.go:921-1037 `readNumber`. -/
def readNumberM (f : Nat) (m : MState) : M (Tok × MState) := do
  let p ← if m.ch = 46 then takeCharM m [] else pure (m, [])
  if p.1.ch = 48 then zeroPrefixM f m p.1 p.2 else decimalTailM f m p.1 p.2

/-- `for l.ch == '_' && IsDigit(peek) { l.readChar(); for IsDigit(l.ch) { write; readChar } }` (lexer.go:1093-1099). -/
def usDigitGroupsM : Nat → MState → Bytes → M (MState × Bytes)
  | 0, _, _ => .fail .fuel
  | f + 1, m, acc => do
    let go ← usDigitAheadM m
    if go then do
      let m1 ← readCharM m
      let r ← scanWhileM (f + 1) digitCondM m1 acc
      usDigitGroupsM f r.1 r.2
    else pure (m, acc)

/-- `l.peekChar() == '0' || l.peekChar() == '1'` (two calls when the first comparison fails). -/
def peekIs01 (m : MState) : M Bool := do
  let pk ← peekCharM m
  if pk = 48 then pure true
  else do
    let pk2 ← peekCharM m
    pure (pk2 = 49)

/-- lexer.go:1138-1177: `val := sb.String()`; `0x…` and `0b…` after a lone `0`. -/
def baseTailM (f : Nat) (m : MState) (acc : Bytes) : M (MState × Bytes) := do
  let isZero : Bool := acc == [48]
  if isZero ∧ (m.ch = 120 ∨ m.ch = 88) then hexTailM f m acc
  else do
    let bin ← if isZero ∧ (m.ch = 98 ∨ m.ch = 66) then peekIs01 m else pure false
    if bin then do
      let p ← takeCharM m acc
      scanWhileM f binDigitCondM p.1 p.2
    else pure (m, acc)

/-- lexer.go:1181-1192: `0o…` when `startCh == '0' && len(sb.String()) == 1`. -/
def octTailM (f : Nat) (startCh : Nat) (m : MState) (acc : Bytes) : M (MState × Bytes) :=
  if startCh = 48 ∧ lenGe acc 1 ∧ !lenGe acc 2 then
    if m.ch = 111 ∨ m.ch = 79 then do
      let p ← takeCharM m acc
      scanWhileM f octDigitCondM p.1 p.2
    else pure (m, acc)
  else pure (m, acc)

/-- the part of `readNumberOrIdent` after the identifier checks (lexer.go:1090-1194). -/
def numberTailM (f : Nat) (startCh : Nat) (m0 : MState) (m : MState) (acc : Bytes) : M (Tok × MState) := do
  let p ← usDigitGroupsM f m acc
  let p ← fracPartM f p.1 p.2
  let p ← expPartM f p.1 p.2
  let p ← baseTailM f p.1 p.2
  let p ← octTailM f startCh p.1 p.2
  pure (tokAtM m0 tNUMBER p.2.reverse, p.1)

/-- `(l.ch == 'e' || l.ch == 'E') && (unicode.IsDigit(l.peekChar()) || l.peekChar() == '+' || l.peekChar() == '-')`
(lexer.go:1073), with Go's short-circuit order. -/
def isExponentM (m : MState) : M Bool :=
  if m.ch = 101 || m.ch = 69 then do
    let pk1 ← peekCharM m
    if isDigit pk1 then pure true
    else do
      let pk2 ← peekCharM m
      if pk2 = 43 then pure true
      else do
        let pk3 ← peekCharM m
        pure (pk3 = 45)
  else pure false

/-- `l.ch == '_'` then `nextCh := l.peekChar(); unicode.IsLetter(nextCh) || nextCh == '_'` (lexer.go:1056-1059). -/
def usThenLetterM (m : MState) : M Bool :=
  if m.ch = 95 then do
    let nextCh ← peekCharM m
    pure (isLetter nextCh || nextCh = 95)
  else pure false

/-- lexer.go:1042-1195 `readNumberOrIdent`. -/
def readNumberOrIdentM (f : Nat) (m : MState) : M (Tok × MState) := do
  let startCh := m.ch
  let p ← scanWhileM f digitCondM m []
  let isId ← usThenLetterM p.1
  if isId then do
    let p ← takeCharM p.1 p.2
    let p ← scanWhileM f identCharCondM p.1 p.2
    pure (tokAtM m tIDENT p.2.reverse, p.1)
  else do
    let c := p.1.ch
    let isId2 ← if isLetter c then do
        let isExponent ← isExponentM p.1
        let isBasePrefix : Bool := p.2 == [48] && (c = 120 || c = 88 || c = 98 || c = 66 || c = 111 || c = 79)
        pure (!isExponent && !isBasePrefix)
      else pure false
    if isId2 then do
      let p ← scanWhileM f identCharCondM p.1 p.2
      pure (tokAtM m tIDENT p.2.reverse, p.1)
    else numberTailM f startCh m p.1 p.2

/-- lexer.go:1214-1238 `readIdentifier`. -/
def readIdentifierM (f : Nat) (m : MState) : M (Tok × MState) := do
  let isHex ← chPeekIs (m.ch = 120 ∨ m.ch = 88) m 39
  if isHex then do
    let m1 ← readCharM m
    readHexStringM f m1
  else do
    let isBin ← chPeekIs (m.ch = 98 ∨ m.ch = 66) m 39
    if isBin then do
      let m1 ← readCharM m
      readBinaryStringM f m1
    else do
      let p ← scanWhileM f identCharCondM m []
      let ident := p.2.reverse
      pure (tokAtM m (lookupIdent ident) ident, p.1)

/-- lexer.go:1240-1253 `readParameter`. -/
def readParameterM (f : Nat) (m : MState) : M (Tok × MState) := do
  let r ← readUntilM f 125 m
  pure (tokAtM m tPARAM r.2.reverse, r.1)

/-! ## NextToken -/

/-- `case '@'` (lexer.go:361-380). -/
def readAtM (f : Nat) (m : MState) : M (Tok × MState) := do
  let pk ← peekCharM m
  if pk = 64 then do
    let m1 ← readCharM m
    let m2 ← readCharM m1
    if isIdentStart m2.ch || isDigit m2.ch then do
      let r ← scanWhileM f identCharCondM m2 [64, 64]
      pure (tokAtM m tIDENT r.2.reverse, r.1)
    else pure (tokAtM m tIDENT [64, 64], m2)
  else do
    let m1 ← readCharM m
    pure (tokAtM m tIDENT [64], m1)

/-- `case '$'` (lexer.go:340-350). -/
def readDollarM (f : Nat) (m : MState) : M (Tok × MState) := do
  let pk ← peekCharM m
  if pk = 36 then readDollarQuotedStringM f [] m
  else do
    let r ← tryReadDollarTagM m
    if r.1 ≠ [] then readDollarQuotedStringM f r.1 r.2
    else readDollarIdentifierM f m

/-- `l.readChar(); l.readChar(); return Item{…}` -/
def two (m : MState) (t : Tok) : M (Option (Tok × MState)) := do
  let m1 ← readCharM m
  let m2 ← readCharM m1
  pure (some (t, m2))

/-- `l.readChar(); return Item{…}` -/
def one (m : MState) (t : Tok) : M (Option (Tok × MState)) := do
  let m1 ← readCharM m
  pure (some (t, m1))

/-- the operator cases with look-ahead: `- = ! < > | :` (lexer.go:225-232, 242-298). -/
def readOperatorM (m : MState) : M (Option (Tok × MState)) :=
  let c := m.ch
  if c = 45 then do
    let pk ← peekCharM m
    if pk = 62 then two m (tokAtM m tARROW [45, 62]) else one m (tokAtM m tMINUS [45])
  else if c = 61 then do
    let m1 ← readCharM m
    if m1.ch = 61 then do
      let m2 ← readCharM m1
      pure (some (tokAtM m tEQ [61, 61], m2))
    else pure (some (tokAtM m tEQ [61], m1))
  else if c = 33 then do
    let pk ← peekCharM m
    if pk = 61 then two m (tokAtM m tNEQ [33, 61]) else one m (tokAtM m tILLEGAL [33])
  else if c = 60 then do
    let pk ← peekCharM m
    if pk = 61 then do
      let m1 ← readCharM m
      let m2 ← readCharM m1
      if m2.ch = 62 then do
        let m3 ← readCharM m2
        pure (some (tokAtM m tNULL_SAFE_EQ [60, 61, 62], m3))
      else pure (some (tokAtM m tLTE [60, 61], m2))
    else do
      let pk2 ← peekCharM m
      if pk2 = 62 then two m (tokAtM m tNEQ [60, 62]) else one m (tokAtM m tLT [60])
  else if c = 62 then do
    let pk ← peekCharM m
    if pk = 61 then two m (tokAtM m tGTE [62, 61]) else one m (tokAtM m tGT [62])
  else if c = 124 then do
    let pk ← peekCharM m
    if pk = 124 then two m (tokAtM m tCONCAT [124, 124]) else one m (tokAtM m tILLEGAL [124])
  else if c = 58 then do
    let pk ← peekCharM m
    if pk = 58 then two m (tokAtM m tCOLONCOLON [58, 58]) else one m (tokAtM m tCOLON [58])
  else pure none

/-- `case '.'` (lexer.go:319-330). -/
def readDotM (f : Nat) (m : MState) : M (Tok × MState) := do
  let pk ← peekCharM m
  if isDigit pk then do
    let isId ← isIdentifierAfterDotM
    if isId then do
      let m1 ← readCharM m
      pure (tokAtM m tDOT [46], m1)
    else readNumberM f m
  else do
    let m1 ← readCharM m
    pure (tokAtM m tDOT [46], m1)

/-- the `switch l.ch` of `NextToken` (lexer.go:221-393). -/
def nextTokenSwitchM (f : Nat) (m : MState) : M (Tok × MState) :=
  match singleCharKind m.ch with
  | some k => do
    let m1 ← readCharM m
    pure (tokAtM m k (encodeRune m.ch), m1)
  | none => do
    let op ← readOperatorM m
    match op with
    | some r => pure r
    | none =>
      if m.ch = 123 then readParameterM f m
      else if m.ch = 46 then readDotM f m
      else if m.ch = 36 then readDollarM f m
      else if m.ch = 39 then readStringM f 39 m
      else if m.ch = 0x2018 ∨ m.ch = 0x2019 then readUnicodeStringM f m.ch m
      else if m.ch = 34 then readQuotedIdentifierM f m
      else if m.ch = 0x201C ∨ m.ch = 0x201D then readUnicodeQuotedIdentifierM f m.ch m
      else if m.ch = 96 then readBacktickIdentifierM f m
      else if m.ch = 64 then readAtM f m
      else if isDigit m.ch then readNumberOrIdentM f m
      else if isIdentStart m.ch then readIdentifierM f m
      else do
        let m1 ← readCharM m
        pure (tokAtM m tILLEGAL (encodeRune m.ch), m1)

/-- lexer.go:196-394 `NextToken`. -/
def nextTokenM (f : Nat) (m0 : MState) : M (Tok × MState) := do
  let m ← skipWhitespaceM f m0
  if m.eof = true ∨ m.ch = 0 then pure (tokAtM m tEOF [], m)
  else do
    let dash ← chPeekIs (m.ch = 45) m 45
    if dash then readLineCommentM f m
    else if m.ch = 35 then readHashCommentM f m
    else do
      let slash ← chPeekIs (m.ch = 47) m 42
      if slash then readBlockCommentM f m
      else if m.ch = 0x2212 then readUnicodeMinusCommentM f m
      else nextTokenSwitchM f m

/-- the `for` loop of `Tokenize` (lexer.go:1267-1273); `acc` reversed. -/
def tokenizeLoopM : Nat → MState → List Tok → M (List Tok)
  | 0, _, _ => .fail .fuel
  | f + 1, m, acc => do
    let r ← nextTokenM (f + 1) m
    if r.1.kind = tEOF then pure (r.1 :: acc).reverse
    else tokenizeLoopM f r.2 (r.1 :: acc)

/-- lexer.go:1264-1275 `Tokenize` as a program over the reader. -/
def tokenizeM (fuel : Nat) : M (List Tok) := do
  let m ← newM
  tokenizeLoopM fuel m []

/-! ## The lexer over `bufio.Reader` over a scripted `io.Reader` -/

/-- `lexer.Tokenize(r)` where `r` answers its `Read` calls as `script` says. -/
def lexOverBufioFuel (fuel : Nat) (script : Script) : Except Fail (List Tok) :=
  (RdM.runBufio (tokenizeM fuel) (newReader script)).1

/-- all bytes a script delivers (`DC.Bufio.pending`, restated here so that this executable module stays independent of
the spec files; `scriptBytes_eq_pending` in `DC.Props.C14Lex`). -/
def scriptBytes : Script → Bytes
  | [] => []
  | ev :: rest => ev.data ++ scriptBytes rest

/-- the same with the canonical fuel `2·(bytes in the script) + 1`. -/
def lexOverBufio (script : Script) : Except Fail (List Tok) :=
  lexOverBufioFuel (2 * (scriptBytes script).length + 1) script

/-! ## Driver

`lexbufio <script>` — `<script>` as for the `bufio` op (`DC.Model.BufioIO`): `hexdata:err[*count],…`. Runs
`lexOverBufio` and prints the token stream in the `lex` op's format (`DC.Lexer.canon`); `panic` for a Go run-time
panic, `fuel` if a model loop ran out of fuel (neither ever happens on a clean script: `DC.Props.C14Lex.lex_chunking`). -/

def handle (op : String) (args : List String) : Option String :=
  if op == "lexbufio" then
    match args with
    | [sc] =>
      match DC.Bufio.IO.parseScript sc with
      | some script =>
        match lexOverBufio script with
        | .ok l => some (canon l)
        | .error (.panic _) => some "panic"
        | .error .fuel => some "fuel"
      | none => some "bad-arg"
    | _ => some "bad-arg"
  else none

end DC.LexerRd
