import DC.Prelude.Hex

/-!
# Model of `explain.FormatFloat` (internal/explain/format.go:13-38) after strconv's digit generation

strconv's shortest-digit algorithm is NOT modelled. A finite float64 is represented by the shortest decimal that
round-trips it, exactly as `strconv.FormatFloat(x, 'e', -1, 64)` shows it:
`x = (-1)^neg × d₁.d₂…d_k × 10^exp10` with `digits = [d₁,…,d_k]` (ASCII digits; zero is `['0']`, `exp10 = 0`).

What is modelled, line by line:
* the choice of notation `(absVal > 0 && absVal < 1e-6) || absVal >= 1e21` (format.go:27), expressed on `exp10`
  (`|x| < 10⁻⁶ ↔ exp10 < -6`, `|x| ≥ 10²¹ ↔ exp10 ≥ 21` for shortest decimals — the trusted link, exercised by the harness
  on the neighbours of both thresholds);
* the layouts of strconv's `%e` (ftoa.go fmtE) and `%f` (ftoa.go fmtF, with the shortest precision `max(nd-dp,0)`);
* the three `strings.Replace(s, old, new, 1)` edits of format.go:30-33.
-/
namespace DC.Model.FloatFmt
open DC

/-- shortest decimal of a finite float64 (trusted input). -/
structure ShortDec where
  neg : Bool
  digits : List Char
  exp10 : Int
deriving Repr, DecidableEq

def digitChar (n : Nat) : Char := Char.ofNat (48 + n)

/-- exponent digits of strconv's `%e`: at least two (ftoa.go fmtE `switch { case exp < 10 … case exp < 100 … default … }`). -/
def expDigits (e : Nat) : List Char :=
  if e < 10 then ['0', digitChar e]
  else if e < 100 then [digitChar (e / 10), digitChar (e % 10)]
  else [digitChar (e / 100), digitChar (e / 10 % 10), digitChar (e % 10)]

/-- `strconv.FormatFloat(x, 'e', -1, 64)` from the shortest digits (fmtE): sign, first digit, `.` + rest if any, `e`, sign, exponent. -/
def fmtE (d : ShortDec) : List Char :=
  (if d.neg then ['-'] else []) ++
  (match d.digits with
   | [] => ['0']
   | c :: rest => c :: (if rest.isEmpty then [] else '.' :: rest)) ++
  ['e', if d.exp10 < 0 then '-' else '+'] ++ expDigits d.exp10.natAbs

/-- digit `j` of the decimal, `'0'` outside (fmtF: `ch := byte('0'); if j := d.dp + i; 0 <= j && j < d.nd { ch = d.d[j] }`). -/
def digitAt (ds : List Char) (j : Int) : Char :=
  if 0 ≤ j ∧ j < ds.length then ds.getD j.toNat '0' else '0'

/-- `strconv.FormatFloat(x, 'f', -1, 64)` from the shortest digits (fmtF with `prec = max(nd - dp, 0)`), `dp = exp10 + 1`. -/
def fmtF (d : ShortDec) : List Char :=
  let dp : Int := d.exp10 + 1
  let nd : Int := d.digits.length
  let prec : Nat := (nd - dp).toNat
  (if d.neg then ['-'] else []) ++
  (if dp > 0 then d.digits.take (min nd dp).toNat ++ List.replicate (dp - min nd dp).toNat '0' else ['0']) ++
  (if prec > 0 then '.' :: (List.range prec).map (fun (i : Nat) => digitAt d.digits (dp + (i : Int))) else [])

/-- `l` starts with `p`; the remainder. -/
def stripPrefix? (p l : List Char) : Option (List Char) :=
  match p, l with
  | [], l => some l
  | _ :: _, [] => none
  | a :: p', b :: l' => if a = b then stripPrefix? p' l' else none

/-- `strings.Replace(s, old, new, 1)` for non-empty `old`: the first occurrence is replaced. -/
def replaceFirst (old new : List Char) (s : List Char) : List Char :=
  match stripPrefix? old s with
  | some rest => new ++ rest
  | none =>
    match s with
    | [] => []
    | c :: s' => c :: replaceFirst old new s'

/-- format.go:27 on the shortest decimal: scientific iff `0 < |x| < 1e-6` or `|x| ≥ 1e21`. -/
def useExp (d : ShortDec) : Bool := d.exp10 < -6 || d.exp10 ≥ 21

/-- `FormatFloat` (format.go:13-38) for a finite value. -/
def formatFloat (d : ShortDec) : List Char :=
  if useExp d then
    let s := fmtE d
    let s := replaceFirst ['e', '-', '0'] ['e', '-'] s
    let s := replaceFirst ['e', '+', '0'] ['e', '+'] s
    let s := replaceFirst ['e', '+'] ['e'] s
    s
  else fmtF d

/-- negation of a float64 flips the sign bit (`-val`, also of zero). -/
def ShortDec.negate (d : ShortDec) : ShortDec := { d with neg := !d.neg }

def asciiBytes (cs : List Char) : Bytes := cs.map (fun c => UInt8.ofNat c.toNat)

end DC.Model.FloatFmt
