import DC.Prelude.Hex
import DC.Model.Number
import DC.Model.StrLit
import DC.Model.FloatFmt
import DC.Spec.LitSpec

/-!
Driver ops of the C09 models (all byte strings hex, `-` = empty):

* `c09num <token> <neg 0|1> [err | <fneg 0|1> <digits> <exp10>]` — NUMBER token text, negated or not, and the trusted conversion;
* `c09str <v> [<neg 0|1>]` — the value `v` is spelled by `Spec.quote`, read by the `readString` model, printed;
* `c09float <neg 0|1> <digits> <exp10>` — `FormatFloat` on a shortest decimal;
* `c09nest <a|t> <elem>…` — array / tuple literal; `elem` = `n:<token>:<neg>:<conv>` (`conv` = `-` | `err` | `fneg,digits,exp10`)
  or `s:<v>:<neg>`;
* `c09dec <raw>` — `readString` on the input after an opening quote: `<value> <rest>`.

Answers: `lit <payload>` | `fn <name> [<payload of the Literal below>]` | `need-conv` | `bad-arg`.
-/
namespace DC.Model.LitDriver
open DC DC.Model.Number DC.Model.FloatFmt

def parseBool (s : String) : Option Bool :=
  if s == "0" then some false else if s == "1" then some true else none

def parseDigits (s : String) : Option (List Char) :=
  if !s.isEmpty && s.toList.all Char.isDigit then some s.toList else none

def parseShortDec (neg digits exp : String) : Option ShortDec := do
  let n ← parseBool neg
  let d ← parseDigits digits
  let e ← exp.toInt?
  pure ⟨n, d, e⟩

/-- `some none` = strconv reported an error; `none` = ill-formed argument. -/
def parseConv (args : List String) : Option (Option (Option ShortDec)) :=
  match args with
  | [] => some none
  | ["-"] => some none
  | ["err"] => some (some none)
  | [n, d, e] => (parseShortDec n d e).map (fun x => some (some x))
  | _ => none

def showOut : Out → String
  | .lit p => "lit " ++ Hex.encode p
  | .fn name none => "fn " ++ name
  | .fn name (some p) => "fn " ++ name ++ " " ++ Hex.encode p
  | .needConv => "need-conv"

/-- a conversion that was not supplied: the model answers `need-conv` if it has to read it. -/
def withConv (c : Option (Option ShortDec)) (f : Option ShortDec → Out) : Out :=
  match c with
  | some x => f x
  | none =>
    -- run with both possible shapes of the missing input; if the answer depends on it, it is needed
    let a := f none
    let b := f (some ⟨false, ['1'], 0⟩)
    if a = b then a else .needConv

def strLit (v : Bytes) : Lit := .str (StrLit.decodeString (Spec.LitSpec.quote v)) false

def parseElem (s : String) : Option Elem :=
  match s.splitOn ":" with
  | ["s", v, neg] => do
    let v ← Hex.decode v
    let n ← parseBool neg
    pure ⟨strLit v, n, none⟩
  | ["n", tok, neg, conv] => do
    let t ← Hex.decode tok
    let n ← parseBool neg
    let c ← parseConv (conv.splitOn ",")
    match c with
    | some x => pure ⟨parseNumber t x, n, x⟩
    | none =>
      -- conversion not supplied: usable only if parseNumber does not read it
      let a := parseNumber t none
      let b := parseNumber t (some ⟨false, ['1'], 0⟩)
      if a = b then pure ⟨a, n, none⟩ else none
  | _ => none

def handle (op : String) (args : List String) : Option String :=
  if op == "c09num" then
    some (match args with
    | tok :: neg :: rest =>
      match Hex.decode tok, parseBool neg, parseConv rest with
      | some t, some n, some c => showOut (withConv c (explainNum t n))
      | _, _, _ => "bad-arg"
    | _ => "bad-arg")
  else if op == "c09str" then
    some (match args with
    | [v] =>
      match Hex.decode v with
      | some v => showOut (.lit (formatLiteral (strLit v)))
      | none => "bad-arg"
    | [v, neg] =>
      match Hex.decode v, parseBool neg with
      | some v, some n => showOut (if n then explainNeg (strLit v) none else .lit (formatLiteral (strLit v)))
      | _, _ => "bad-arg"
    | _ => "bad-arg")
  else if op == "c09float" then
    some (match args with
    | [n, d, e] =>
      match parseShortDec n d e with
      | some sd => showOut (.lit (asciiBytes (formatFloat sd)))
      | none => "bad-arg"
    | _ => "bad-arg")
  else if op == "c09nest" then
    some (match args with
    | kind :: elems =>
      match elems.mapM parseElem with
      | none => "bad-arg"
      | some es =>
        if kind == "a" then showOut (explainArray es)
        else if kind == "t" then showOut (explainTuple es)
        else "bad-arg"
    | _ => "bad-arg")
  else if op == "c09dec" then
    some (match args with
    | [raw] =>
      match Hex.decode raw with
      | some r => let (v, rest) := StrLit.readString r; Hex.encode v ++ " " ++ Hex.encode rest
      | none => "bad-arg"
    | _ => "bad-arg")
  else none

end DC.Model.LitDriver
