import DC.Model.ExplainSelect

/-!
# C04: the count/emit pairs of the DDL printers

`internal/explain/statements.go` prints the header `AlterCommand <type> (children N)` from one function
(`countAlterCommandChildren`) and the children from another (`explainAlterCommand`); `Column()` and
`Index()` (internal/explain/explain.go) and `explainCreateQuery` count first and print afterwards in the
same function, guard by guard.  As in `DC.Model.ExplainSelect`, each pair is mirrored over a *shape*: one
`Bool`/`Nat` per guard the Go code tests, nothing else.  `count…` follows the counting statements,
`emit…` follows the child-emitting statements in source order and lists the kind (first word) of every
node printed directly beneath the header (`*` = one expression/statement node printed by
`Node(sb, x, depth+1)`, whatever its kind).

Pairs in this file
* `countAlter` / `emitAlter`            — `countAlterCommandChildren` / `explainAlterCommand` (46 arms: 45 command types + `default`)
* `countStat` / `emitStat`              — `explainStatisticsCommand` (`Stat (children N)`)
* `countProj` / `emitProj`, `countProjSel` / `emitProjSel` — `explainProjection`, `explainProjectionSelectQuery`
* `countCol` / `emitCol`                — `Column()`
* `countIdx` / `emitIdx`                — `Index()`
* `countCreate` / `emitCreate`          — `explainCreateQuery` (all four paths: FUNCTION, USER, DICTIONARY, table/view/database)
* `countColsDef` / `emitColsDef`        — its `Columns definition (children N)` node
* `countStorage` / `emitStorage`        — its `Storage definition (children N)` node
* `countInnerStorage` / `emitInnerStorage` — the window view's `ViewTargets`/`Storage definition`

The theorems (`DC/Props/C04DDL.lean`) need AST invariants `WfAlter`, `WfCreate`; each conjunct is shown
necessary by a `…_needs_…` counterexample, and for each the shape is one `Parse` really produces (on text
ClickHouse rejects): see the doc comments.
-/
namespace DC.Model.ExplainDDL
open DC.Model.ExplainSelect (bit seg pos length_seg)

/-! ## ALTER commands -/

/-- `ast.AlterCommandType` (ast/ast.go:674–718): the 45 constants; `other` is any other string (the parser
leaves `Type` empty for e.g. `ALTER TABLE t ADD foo`), which takes the `default:` arm of both switches. -/
inductive AlterKind where
  | addColumn | dropColumn | modifyColumn | renameColumn | clearColumn | materializeColumn | commentColumn
  | addIndex | dropIndex | clearIndex | materializeIndex
  | addConstraint | dropConstraint
  | modifyTTL | materializeTTL | removeTTL
  | modifySetting | resetSetting
  | dropPartition | dropDetachedPartition | detachPartition | attachPartition | replacePartition
  | fetchPartition | movePartition | freezePartition | freeze | applyPatches
  | deleteWhere | update
  | addProjection | dropProjection | materializeProjection | clearProjection
  | addStatistics | modifyStatistics | dropStatistics | clearStatistics | materializeStatistics
  | modifyComment | modifyOrderBy | modifySampleBy | modifyQuery | removeSampleBy | applyDeletedMask
  | other
  deriving Repr, DecidableEq

/-- the constants' string values (ast/ast.go:674–718) -/
def kindTable : List (String × AlterKind) := [
  ("ADD_COLUMN", .addColumn), ("DROP_COLUMN", .dropColumn), ("MODIFY_COLUMN", .modifyColumn),
  ("RENAME_COLUMN", .renameColumn), ("CLEAR_COLUMN", .clearColumn), ("MATERIALIZE_COLUMN", .materializeColumn),
  ("COMMENT_COLUMN", .commentColumn), ("ADD_INDEX", .addIndex), ("DROP_INDEX", .dropIndex),
  ("CLEAR_INDEX", .clearIndex), ("MATERIALIZE_INDEX", .materializeIndex), ("ADD_CONSTRAINT", .addConstraint),
  ("DROP_CONSTRAINT", .dropConstraint), ("MODIFY_TTL", .modifyTTL), ("MATERIALIZE_TTL", .materializeTTL),
  ("REMOVE_TTL", .removeTTL), ("MODIFY_SETTING", .modifySetting), ("RESET_SETTING", .resetSetting),
  ("DROP_PARTITION", .dropPartition), ("DROP_DETACHED_PARTITION", .dropDetachedPartition),
  ("DETACH_PARTITION", .detachPartition), ("ATTACH_PARTITION", .attachPartition),
  ("REPLACE_PARTITION", .replacePartition), ("FETCH_PARTITION", .fetchPartition), ("MOVE_PARTITION", .movePartition),
  ("FREEZE_PARTITION", .freezePartition), ("FREEZE", .freeze), ("APPLY_PATCHES", .applyPatches),
  ("DELETE_WHERE", .deleteWhere), ("UPDATE", .update), ("ADD_PROJECTION", .addProjection),
  ("DROP_PROJECTION", .dropProjection), ("MATERIALIZE_PROJECTION", .materializeProjection),
  ("CLEAR_PROJECTION", .clearProjection), ("ADD_STATISTICS", .addStatistics), ("MODIFY_STATISTICS", .modifyStatistics),
  ("DROP_STATISTICS", .dropStatistics), ("CLEAR_STATISTICS", .clearStatistics),
  ("MATERIALIZE_STATISTICS", .materializeStatistics), ("MODIFY_COMMENT", .modifyComment),
  ("MODIFY_ORDER_BY", .modifyOrderBy), ("MODIFY_SAMPLE_BY", .modifySampleBy), ("MODIFY_QUERY", .modifyQuery),
  ("REMOVE_SAMPLE_BY", .removeSampleBy), ("APPLY_DELETED_MASK", .applyDeletedMask)]

def AlterKind.ofString (s : String) : AlterKind :=
  match kindTable.find? (fun p => p.1 == s) with
  | some p => p.2
  | none => .other

/-- the guards `countAlterCommandChildren` / `explainAlterCommand` test on an `*ast.AlterCommand` -/
structure AlterShape where
  kind : AlterKind           -- cmd.Type
  column : Bool              -- cmd.Column != nil
  afterColumn : Bool         -- cmd.AfterColumn != ""
  settingsN : Nat            -- len(cmd.Settings)
  resetN : Nat               -- len(cmd.ResetSettings)
  columnName : Bool          -- cmd.ColumnName != ""
  newName : Bool             -- cmd.NewName != ""
  comment : Bool             -- cmd.Comment != ""
  partition : Bool           -- cmd.Partition != nil
  partitionAll : Bool        -- cmd.Partition is an *ast.Identifier whose upper-cased Name() is "ALL"
  partitionIsID : Bool       -- cmd.PartitionIsID
  partitionLit : Bool        -- cmd.Partition is an *ast.Literal
  isPart : Bool              -- cmd.IsPart
  indexDef : Bool            -- cmd.IndexDef != nil
  indexDefExpr : Bool        -- cmd.IndexDef.Expression != nil
  indexDefType : Bool        -- cmd.IndexDef.Type != nil
  index : Bool               -- cmd.Index != ""
  afterIndex : Bool          -- cmd.AfterIndex != ""
  constraint : Bool          -- cmd.Constraint != nil
  constraintExpr : Bool      -- cmd.Constraint.Expression != nil
  constraintName : Bool      -- cmd.ConstraintName != ""
  ttl : Bool                 -- cmd.TTL != nil
  ttlElementsN : Nat         -- len(cmd.TTL.Elements)
  ttlExpr : Bool             -- cmd.TTL.Expression != nil
  where_ : Bool              -- cmd.Where != nil
  assignmentsN : Nat         -- len(cmd.Assignments)
  projection : Bool          -- cmd.Projection != nil
  projectionName : Bool      -- cmd.ProjectionName != ""
  statColsN : Nat            -- len(cmd.StatisticsColumns)
  statTypesN : Nat           -- len(cmd.StatisticsTypes)
  orderByN : Nat             -- len(cmd.OrderByExpr)
  sampleBy : Bool            -- cmd.SampleByExpr != nil
  query : Bool               -- cmd.Query != nil
  fromTable : Bool           -- cmd.FromTable != ""   (only the displayed type name depends on it)
  deriving Repr, DecidableEq

/-- statements.go:2145 `countAlterCommandChildren`, arm by arm in source order -/
def countAlterK (k : AlterKind) (c : AlterShape) : Nat :=
  match k with
  | .addColumn | .modifyColumn =>                       -- case AlterAddColumn, AlterModifyColumn:
    bit c.column                                        --   if cmd.Column != nil
    + bit c.afterColumn                                 --   if cmd.AfterColumn != ""
    + bit (pos c.settingsN)                             --   if len(cmd.Settings) > 0
    + bit (pos c.resetN)                                --   if len(cmd.ResetSettings) > 0
  | .dropColumn => bit c.columnName                     -- case AlterDropColumn: if cmd.ColumnName != ""
  | .commentColumn => bit c.columnName + bit c.comment  -- case AlterCommentColumn
  | .modifyComment => bit c.comment                     -- case AlterModifyComment
  | .renameColumn => bit c.columnName + bit c.newName   -- case AlterRenameColumn
  | .clearColumn => bit c.columnName + bit c.partition  -- case AlterClearColumn
  | .addIndex =>                                        -- case AlterAddIndex:
    (if c.indexDef && (c.indexDefExpr || c.indexDefType) then 1   -- if IndexDef != nil && (…) { children = 1 }
     else bit c.index)                                  --   else if cmd.Index != "" { children++ }
    + bit c.afterIndex                                  --   if cmd.AfterIndex != ""
  | .dropIndex | .clearIndex => bit c.index + bit c.partition     -- case AlterDropIndex, AlterClearIndex
  | .materializeIndex => bit c.index + bit c.partition            -- case AlterMaterializeIndex
  | .materializeColumn => bit c.columnName + bit c.partition      -- case AlterMaterializeColumn
  | .addConstraint => bit c.constraint                  -- case AlterAddConstraint
  | .dropConstraint => bit c.constraintName             -- case AlterDropConstraint
  | .modifyTTL => bit (c.ttl && c.ttlExpr)              -- case AlterModifyTTL: if cmd.TTL != nil && cmd.TTL.Expression != nil
  | .modifySetting => 1                                 -- case AlterModifySetting: children = 1
  | .dropPartition | .dropDetachedPartition | .detachPartition | .attachPartition | .replacePartition
  | .fetchPartition | .movePartition | .freezePartition | .applyPatches | .applyDeletedMask =>
    bit c.partition                                     --   if cmd.Partition != nil
  | .freeze => 0                                        -- case AlterFreeze: // No children
  | .deleteWhere => bit c.where_                        -- case AlterDeleteWhere
  | .update =>                                          -- case AlterUpdate:
    bit c.partition + bit (pos c.assignmentsN) + bit c.where_
  | .addProjection => bit c.projection                  -- case AlterAddProjection
  | .dropProjection | .materializeProjection | .clearProjection => bit c.projectionName
  | .addStatistics | .modifyStatistics =>               -- if len(StatisticsColumns) > 0 || len(StatisticsTypes) > 0 { children = 1 }
    bit (pos c.statColsN || pos c.statTypesN)
  | .dropStatistics | .clearStatistics | .materializeStatistics =>
    bit (pos c.statColsN)                               -- if len(cmd.StatisticsColumns) > 0 { children = 1 }
  | .modifyOrderBy => bit (pos c.orderByN)              -- if len(cmd.OrderByExpr) > 0 { children = 1 }
  | .modifySampleBy => bit c.sampleBy                   -- if cmd.SampleByExpr != nil { children = 1 }
  | .modifyQuery => bit c.query                         -- if cmd.Query != nil { children = 1 }
  | .resetSetting => bit (pos c.resetN)                 -- if len(cmd.ResetSettings) > 0 { children = 1 }
  | .materializeTTL | .removeTTL | .removeSampleBy | .other =>
    bit c.partition                                     -- default: if cmd.Partition != nil

def countAlter (c : AlterShape) : Nat := countAlterK c.kind c

/-- the partition block of CLEAR COLUMN and DROP/CLEAR INDEX (statements.go:1817, 1853): `ALL` or wrapper -/
def emitPartAll (c : AlterShape) : List String :=
  if c.partition then                                   -- if cmd.Partition != nil {
    if c.partitionAll then ["Partition_ID"]             --   if ident "ALL" { "Partition_ID " }
    else ["Partition"]                                  --   else { "Partition (children 1)"; Node(depth+2) }
  else []

/-- the partition block of MATERIALIZE INDEX (statements.go:1867): `ID` or wrapper, no `ALL` test -/
def emitPartID (c : AlterShape) : List String :=
  if c.partition then
    if c.partitionIsID then
      if c.partitionLit then ["Partition_ID"]           -- "Partition_ID Literal_'v' (children 1)"
      else ["Partition_ID"]                             -- "Partition_ID (children 1)"
    else ["Partition"]
  else []

/-- the partition block of the ten partition commands (statements.go:1933) -/
def emitPartFull (c : AlterShape) : List String :=
  if c.partition then
    if c.partitionAll then ["Partition_ID"]
    else if c.partitionIsID then
      if c.partitionLit then ["Partition_ID"] else ["Partition_ID"]
    else if c.isPart then ["*"]                         -- Node(sb, cmd.Partition, depth+1)
    else ["Partition"]
  else []

/-- the partition block of UPDATE (statements.go:1962): as above without the `IsPart` arm -/
def emitPartUpdate (c : AlterShape) : List String :=
  if c.partition then
    if c.partitionAll then ["Partition_ID"]
    else if c.partitionIsID then
      if c.partitionLit then ["Partition_ID"] else ["Partition_ID"]
    else ["Partition"]
  else []

/-- statements.go:1776–2038, the `switch cmd.Type` of `explainAlterCommand`: nodes printed at `depth+1` -/
def emitAlterK (k : AlterKind) (c : AlterShape) : List String :=
  match k with
  | .addColumn =>
    seg c.column "ColumnDeclaration"                    -- if cmd.Column != nil { Column(…) }
    ++ seg c.afterColumn "Identifier"                   -- if cmd.AfterColumn != ""
  | .modifyColumn =>
    seg c.column "ColumnDeclaration"
    ++ seg c.afterColumn "Identifier"
    ++ seg (pos c.settingsN) "Set"                      -- if len(cmd.Settings) > 0
    ++ seg (pos c.resetN) "ExpressionList"              -- if len(cmd.ResetSettings) > 0
  | .dropColumn => seg c.columnName "Identifier"
  | .renameColumn => seg c.columnName "Identifier" ++ seg c.newName "Identifier"
  | .clearColumn => seg c.columnName "Identifier" ++ emitPartAll c
  | .commentColumn => seg c.columnName "Identifier" ++ seg c.comment "Literal"
  | .modifyComment => seg c.comment "Literal"
  | .addIndex =>
    (if c.indexDef && (c.indexDefExpr || c.indexDefType) then ["Index"]   -- Index(sb, cmd.IndexDef, depth+1)
     else seg c.index "Identifier")                     -- else if cmd.Index != ""
    ++ seg c.afterIndex "Identifier"                    -- if cmd.AfterIndex != ""
  | .dropIndex | .clearIndex => seg c.index "Identifier" ++ emitPartAll c
  | .materializeIndex => seg c.index "Identifier" ++ emitPartID c
  | .materializeColumn =>
    seg c.columnName "Identifier"
    ++ seg c.partition "Partition"                      -- if cmd.Partition != nil { "Partition (children 1)" }
  | .addConstraint =>
    if c.constraint then                                -- if cmd.Constraint != nil {
      if c.constraintExpr then ["Constraint"]           --   "Constraint (children 1)"
      else ["Constraint"]                               --   "Constraint"
    else []
  | .dropConstraint => seg c.constraintName "Identifier"
  | .modifyTTL =>
    if c.ttl && pos c.ttlElementsN then ["ExpressionList"]        -- if cmd.TTL != nil && len(cmd.TTL.Elements) > 0
    else if c.ttl && c.ttlExpr then ["ExpressionList"]            -- else if cmd.TTL != nil && cmd.TTL.Expression != nil
    else []
  | .modifySetting => ["Set"]                           -- unconditional
  | .dropPartition | .dropDetachedPartition | .detachPartition | .attachPartition | .replacePartition
  | .fetchPartition | .movePartition | .freezePartition | .applyPatches | .applyDeletedMask =>
    emitPartFull c
  | .freeze => []
  | .deleteWhere => seg c.where_ "*"
  | .update =>
    emitPartUpdate c
    ++ seg c.where_ "*"                                 -- if cmd.Where != nil
    ++ seg (pos c.assignmentsN) "ExpressionList"        -- if len(cmd.Assignments) > 0
  | .addProjection => seg c.projection "Projection"
  | .dropProjection | .materializeProjection | .clearProjection => seg c.projectionName "Identifier"
  | .addStatistics | .modifyStatistics => ["Stat"]      -- explainStatisticsCommand: unconditional
  | .dropStatistics | .clearStatistics | .materializeStatistics => ["Stat"]
  | .modifyOrderBy =>
    if decide (1 < c.orderByN) then ["Function"]        -- if len(cmd.OrderByExpr) > 1 { "Function tuple (children 1)" }
    else List.replicate c.orderByN "*"                  -- else { for _, expr := range … { Node(depth+1) } }
  | .modifySampleBy => seg c.sampleBy "*"
  | .modifyQuery => seg c.query "*"
  | .resetSetting => seg (pos c.resetN) "ExpressionList"
  | .materializeTTL | .removeTTL | .removeSampleBy | .other =>
    seg c.partition "*"                                 -- default: if cmd.Partition != nil { Node(depth+1) }

def emitAlter (c : AlterShape) : List String := emitAlterK c.kind c

/-- statements.go:1738–1769: the type name shown in the header -/
def displayName (name : String) (k : AlterKind) (c : AlterShape) : String :=
  match k with
  | .clearStatistics => "DROP_STATISTICS"
  | .attachPartition => if c.fromTable then "REPLACE_PARTITION" else name
  | .detachPartition => "DROP_PARTITION"
  | .clearColumn => "DROP_COLUMN"
  | .clearIndex => "DROP_INDEX"
  | .clearProjection => "DROP_PROJECTION"
  | .deleteWhere => "DELETE"
  | .freeze => "FREEZE_ALL"
  | _ => name

/-- The AST invariants the ALTER pair needs.
* ADD COLUMN carries no `Settings` / `ResetSettings` (counted for ADD and MODIFY alike, printed only by
  the MODIFY arm).  The parser sets those two fields only under `MODIFY COLUMN` / `MODIFY SETTING` / `RESET SETTING`.
* MODIFY TTL: a TTL clause with `Elements` has its legacy `Expression` set (the count tests `Expression`,
  the printer tests `Elements` first).  `Parse` violates this on `ALTER TABLE t MODIFY TTL` (nothing after TTL).
* statistics commands name at least one column (ADD/MODIFY: or one type): the `Stat` node is printed
  unconditionally.  `Parse` violates this on `ALTER TABLE t DROP STATISTICS` (no column list). -/
def WfAlterK (k : AlterKind) (c : AlterShape) : Bool :=
  match k with
  | .addColumn => !pos c.settingsN && !pos c.resetN
  | .modifyTTL => !(c.ttl && pos c.ttlElementsN) || c.ttlExpr
  | .addStatistics | .modifyStatistics => pos c.statColsN || pos c.statTypesN
  | .dropStatistics | .clearStatistics | .materializeStatistics => pos c.statColsN
  | _ => true

def WfAlter (c : AlterShape) : Bool := WfAlterK c.kind c

/-! ### `Stat`, `Projection`, `ProjectionSelectQuery` -/

/-- statements.go:2102 `explainStatisticsCommand`: `Stat (children N)` -/
def countStat (c : AlterShape) : Nat := bit (pos c.statColsN) + bit (pos c.statTypesN)
def emitStat (c : AlterShape) : List String :=
  seg (pos c.statColsN) "ExpressionList" ++ seg (pos c.statTypesN) "ExpressionList"

/-- the guards of `explainProjection` / `explainProjectionSelectQuery` -/
structure ProjShape where
  select : Bool              -- p.Select != nil
  withN : Nat                -- len(q.With)
  columnsN : Nat             -- len(q.Columns)
  groupByN : Nat             -- len(q.GroupBy)
  orderByN : Nat             -- len(q.OrderBy)
  deriving Repr, DecidableEq

/-- statements.go:2041 `explainProjection` -/
def countProj (p : ProjShape) : Nat := bit p.select
def emitProj (p : ProjShape) : List String := seg p.select "ProjectionSelectQuery"

/-- statements.go:2052 `explainProjectionSelectQuery` -/
def countProjSel (p : ProjShape) : Nat :=
  bit (pos p.withN) + bit (pos p.columnsN) + bit (pos p.orderByN) + bit (pos p.groupByN)
def emitProjSel (p : ProjShape) : List String :=
  seg (pos p.withN) "ExpressionList"
  ++ seg (pos p.columnsN) "ExpressionList"
  ++ seg (pos p.groupByN) "ExpressionList"
  ++ (if pos p.orderByN then                            -- if len(q.OrderBy) > 0 {
        if p.orderByN == 1 then ["*"]                   --   if len == 1 { Node(q.OrderBy[0], depth+1) }
        else ["Function"]                               --   else { "Function tuple (children 1)" }
      else [])

/-! ## ColumnDeclaration: explain.go:426 `Column()` -/

structure ColShape where
  type_ : Bool               -- col.Type != nil
  statisticsN : Nat          -- len(col.Statistics)
  ephemeral : Bool           -- col.DefaultKind == "EPHEMERAL"
  default_ : Bool            -- col.Default != nil
  ttl : Bool                 -- col.TTL != nil
  codec : Bool               -- col.Codec != nil
  settingsN : Nat            -- len(col.Settings)
  comment : Bool             -- col.Comment != ""
  deriving Repr, DecidableEq

/-- `hasEphemeralDefault := col.DefaultKind == "EPHEMERAL" && col.Default == nil` -/
def ColShape.hasEphemeralDefault (c : ColShape) : Bool := c.ephemeral && !c.default_

def countCol (c : ColShape) : Nat :=
  bit c.type_                                           -- if col.Type != nil
  + bit (pos c.statisticsN)                             -- if len(col.Statistics) > 0
  + bit (c.default_ || c.hasEphemeralDefault)           -- if col.Default != nil || hasEphemeralDefault
  + bit c.ttl                                           -- if col.TTL != nil
  + bit c.codec                                         -- if col.Codec != nil
  + bit (pos c.settingsN)                               -- if len(col.Settings) > 0
  + bit c.comment                                       -- if col.Comment != ""

def emitCol (c : ColShape) : List String :=
  seg c.type_ "DataType"                                -- Node(sb, col.Type, depth+1)
  ++ seg (pos c.settingsN) "Set"                        -- Settings right after Type
  ++ (if c.default_ then ["*"]                          -- if col.Default != nil { Node }
      else if c.hasEphemeralDefault then ["Function"]   -- else if hasEphemeralDefault { "Function defaultValueOfTypeName" }
      else [])
  ++ seg c.ttl "*"
  ++ seg c.codec "Function"                             -- explainCodecExpr: "Function CODEC (children 1)"
  ++ seg (pos c.statisticsN) "Function"                 -- explainStatisticsExpr: "Function STATISTICS (children 1)"
  ++ seg c.comment "Literal"

/-! ## Index: explain.go:534 `Index()` -/

structure IdxShape where
  expr : Bool                -- idx.Expression != nil
  exprIsIdent : Bool         -- idx.Expression is an *ast.Identifier
  type_ : Bool               -- idx.Type != nil
  deriving Repr, DecidableEq

def countIdx (i : IdxShape) : Nat := bit i.expr + bit i.type_

def emitIdx (i : IdxShape) : List String :=
  (if i.expr then
     if i.exprIsIdent then ["Identifier"] else ["*"]
   else [])
  ++ seg i.type_ "Function"                             -- explainFunctionCall(sb, idx.Type, …)

/-! ## CreateQuery: statements.go:107 `explainCreateQuery` -/

structure CreateShape where
  createFunction : Bool      -- n.CreateFunction
  functionBody : Bool        -- n.FunctionBody != nil
  userLike : Bool            -- n.CreateUser || n.AlterUser
  hasAuth : Bool             -- n.HasAuthenticationData
  authValuesN : Nat          -- len(n.AuthenticationValues)
  sshKeyCount : Nat          -- n.SSHKeyCount (> 0 tested)
  createDictionary : Bool    -- n.CreateDictionary
  database : Bool            -- n.Database != ""
  dictAttrsN : Nat           -- len(n.DictionaryAttrs)
  dictDef : Bool             -- n.DictionaryDef != nil
  comment : Bool             -- n.Comment != ""
  createDatabase : Bool      -- n.CreateDatabase
  table : Bool               -- n.Table != ""
  view : Bool                -- n.View != ""
  columnsN : Nat             -- len(n.Columns)
  indexesN : Nat             -- len(n.Indexes)
  projectionsN : Nat         -- len(n.Projections)
  constraintsN : Nat         -- len(n.Constraints)
  anyColPK : Bool            -- some col in n.Columns has col.PrimaryKey
  columnsPKN : Nat           -- len(n.ColumnsPrimaryKey)
  hasEmptyColumnsPK : Bool   -- n.HasEmptyColumnsPrimaryKey
  settingsN : Nat            -- len(n.Settings)
  settingsBeforeComment : Bool -- n.SettingsBeforeComment
  orderByN : Nat             -- len(n.OrderBy)
  ob0Ident : Bool            -- n.OrderBy[0] is an *ast.Identifier
  ob0Tuple : Bool            -- n.OrderBy[0] is an *ast.Literal of type LiteralTuple
  orderByHasModifiers : Bool -- n.OrderByHasModifiers
  windowView : Bool          -- n.WindowView
  innerEngine : Bool         -- n.InnerEngine != nil
  engine : Bool              -- n.Engine != nil
  primaryKeyN : Nat          -- len(n.PrimaryKey)
  pk0Ident : Bool            -- n.PrimaryKey[0] is an *ast.Identifier
  pk0Tuple : Bool            -- n.PrimaryKey[0] is a tuple literal
  partitionBy : Bool         -- n.PartitionBy != nil
  partIdent : Bool           -- n.PartitionBy is an *ast.Identifier
  sampleBy : Bool            -- n.SampleBy != nil
  ttl : Bool                 -- n.TTL != nil
  querySettingsN : Nat       -- len(n.QuerySettings)
  hasRefresh : Bool          -- n.HasRefresh
  materialized : Bool        -- n.Materialized
  to : Bool                  -- n.To != ""
  asSelect : Bool            -- n.AsSelect != nil
  asTableFunction : Bool     -- n.AsTableFunction != nil
  format : Bool              -- n.Format != ""
  deriving Repr, DecidableEq

namespace CreateShape
/-- `hasDatabase := n.Database != "" && !n.CreateDatabase && (n.Table != "" || n.View != "")` -/
def hasDatabase (n : CreateShape) : Bool := n.database && !n.createDatabase && (n.table || n.view)
/-- `len(n.Columns) > 0 || len(n.Indexes) > 0 || len(n.Projections) > 0 || len(n.Constraints) > 0` -/
def hasCols (n : CreateShape) : Bool :=
  pos n.columnsN || pos n.indexesN || pos n.projectionsN || pos n.constraintsN
/-- `settingsInStorage := len(n.Settings) > 0 && (n.Comment == "" || n.SettingsBeforeComment)` -/
def settingsInStorage (n : CreateShape) : Bool := pos n.settingsN && (!n.comment || n.settingsBeforeComment)
/-- `orderByInRegularStorage := len(n.OrderBy) > 0 && !(n.WindowView && n.InnerEngine != nil)` -/
def orderByInRegularStorage (n : CreateShape) : Bool := pos n.orderByN && !(n.windowView && n.innerEngine)
/-- `hasStorageChild` (line 223) = `hasStorage` (line 376): the same expression, written twice in the Go source -/
def hasStorage (n : CreateShape) : Bool :=
  n.engine || n.orderByInRegularStorage || pos n.primaryKeyN || n.partitionBy || n.sampleBy || n.ttl
  || n.settingsInStorage || pos n.columnsPKN || n.anyColPK
/-- `n.Comment != "" && len(n.Settings) > 0 && !n.SettingsBeforeComment` -/
def settingsOutside (n : CreateShape) : Bool := n.comment && pos n.settingsN && !n.settingsBeforeComment
end CreateShape

/-- the main path's count (statements.go:211–261) -/
def countCreateMain (n : CreateShape) : Nat :=
  1                                                     -- children := 1 // name identifier
  + bit n.hasDatabase                                   -- if hasDatabase
  + bit n.hasCols                                       -- if len(Columns) > 0 || …
  + bit n.hasStorage                                    -- if hasStorageChild
  + bit n.settingsOutside                               -- if Comment != "" && len(Settings) > 0 && !SettingsBeforeComment
  + bit (pos n.querySettingsN)                          -- if len(n.QuerySettings) > 0
  + bit n.hasRefresh                                    -- if n.HasRefresh
  + bit (n.materialized && n.to && !n.hasStorage)       -- if Materialized && To != "" && !hasStorageChild
  + bit (n.windowView && n.innerEngine)                 -- if WindowView && InnerEngine != nil
  + bit n.asSelect                                      -- if n.AsSelect != nil
  + bit n.asTableFunction                               -- if n.AsTableFunction != nil
  + bit n.format                                        -- if hasFormat
  + bit n.comment                                       -- if n.Comment != ""

/-- the number printed in the header of whichever path `explainCreateQuery` takes -/
def countCreate (n : CreateShape) : Nat :=
  if n.createFunction then 2                            -- children := 2 // identifier + lambda
  else if n.userLike then
    if n.hasAuth then
      if pos n.authValuesN then n.authValuesN           -- "CreateUserQuery (children %d)", len(AuthenticationValues)
      else if pos n.sshKeyCount then 1
      else 1
    else 0                                              -- "CreateUserQuery"
  else if n.createDictionary then
    1 + bit n.database + bit (pos n.dictAttrsN) + bit n.dictDef + bit n.comment
  else countCreateMain n

/-- the main path's children (statements.go:263–629) -/
def emitCreateMain (n : CreateShape) : List String :=
  (if n.createDatabase then ["Identifier"]              -- if n.CreateDatabase { Identifier name }
   else if n.hasDatabase then ["Identifier", "Identifier"]   -- else if hasDatabase { Identifier db; Identifier name }
   else ["Identifier"])                                 -- else { Identifier name }
  ++ seg n.hasCols "Columns"                            -- "Columns definition (children N)"
  ++ seg n.hasRefresh "Refresh"                         -- "Refresh strategy definition (children 1)"
  ++ seg (n.materialized && n.asSelect) "*"             -- if n.Materialized && n.AsSelect != nil { Node }
  ++ (if n.hasStorage then                              -- if hasStorage {
        if n.materialized then ["ViewTargets"]          --   if n.Materialized { "ViewTargets (children 1)" …
        else ["Storage"]                                --   else "Storage definition …"
      else seg (n.materialized && n.to) "ViewTargets")  -- } else if n.Materialized && n.To != "" { "ViewTargets" }
  ++ seg (n.windowView && n.asSelect) "*"               -- if n.WindowView && n.AsSelect != nil { Node }
  ++ seg (n.windowView && n.innerEngine) "ViewTargets"  -- if n.WindowView && n.InnerEngine != nil
  ++ seg (n.asSelect && !n.materialized && !n.windowView) "*"  -- if AsSelect != nil && !Materialized && !WindowView
  ++ seg n.asTableFunction "*"                          -- if n.AsTableFunction != nil
  ++ seg n.format "Identifier"                          -- if hasFormat
  ++ seg n.comment "Literal"                            -- if n.Comment != ""
  ++ seg n.settingsOutside "Set"                        -- if Comment != "" && len(Settings) > 0 && !SettingsBeforeComment
  ++ seg (pos n.querySettingsN) "Set"                   -- if len(n.QuerySettings) > 0

def emitCreate (n : CreateShape) : List String :=
  if n.createFunction then
    ["Identifier"] ++ seg n.functionBody "*"            -- Identifier name; if n.FunctionBody != nil { Node }
  else if n.userLike then
    if n.hasAuth then
      if pos n.authValuesN then List.replicate n.authValuesN "AuthenticationData"
      else if pos n.sshKeyCount then ["AuthenticationData"]
      else ["AuthenticationData"]
    else []
  else if n.createDictionary then
    seg n.database "Identifier"                         -- if hasDatabase { Identifier db }
    ++ ["Identifier"]
    ++ seg (pos n.dictAttrsN) "ExpressionList"
    ++ seg n.dictDef "Dictionary"                       -- "Dictionary definition …"
    ++ seg n.comment "Literal"
  else emitCreateMain n

/-- The AST invariants the CREATE pair needs.
* `CREATE FUNCTION` has a body (the header says 2 unconditionally).  `Parse` violates this on `CREATE FUNCTION f`.
* a view is not both MATERIALIZED and WINDOW when it has a SELECT (the SELECT is printed by both the
  `Materialized` and the `WindowView` statement).  `Parse` violates this on
  `CREATE MATERIALIZED WINDOW VIEW v AS SELECT 1`. -/
def WfCreate (n : CreateShape) : Bool :=
  if n.createFunction then n.functionBody
  else if n.userLike then true
  else if n.createDictionary then true
  else !(n.materialized && n.windowView && n.asSelect)

/-- `Columns definition (children N)` (statements.go:276–303) -/
def countColsDef (n : CreateShape) : Nat :=
  bit (pos n.columnsN) + bit (pos n.indexesN) + bit (pos n.projectionsN) + bit (pos n.constraintsN)
  + bit n.anyColPK                                      -- if len(primaryKeyColumns) > 0
  + bit (pos n.columnsPKN || n.hasEmptyColumnsPK)       -- if len(ColumnsPrimaryKey) > 0 || HasEmptyColumnsPrimaryKey

def emitColsDef (n : CreateShape) : List String :=
  seg (pos n.columnsN) "ExpressionList"
  ++ seg (pos n.indexesN) "ExpressionList"
  ++ seg (pos n.projectionsN) "ExpressionList"
  ++ seg (pos n.constraintsN) "ExpressionList"
  ++ seg n.anyColPK "Function"                          -- "Function tuple (children 1)"
  ++ (if pos n.columnsPKN || n.hasEmptyColumnsPK then
        if n.hasEmptyColumnsPK then ["Function"]        -- empty PRIMARY KEY ()
        else if decide (1 < n.columnsPKN) then ["Function"]
        else List.replicate n.columnsPKN "*"            -- for _, pk := range n.ColumnsPrimaryKey { Node(depth+2) }
      else [])

/-- `Storage definition (children N)` of the regular / materialized path (statements.go:378–400) -/
def countStorage (n : CreateShape) : Nat :=
  bit n.engine + bit n.partitionBy + bit (pos n.orderByN) + bit (pos n.primaryKeyN)
  + bit n.sampleBy + bit n.ttl + bit n.settingsInStorage

/-- the one node printed for PRIMARY KEY (statements.go:444–470) -/
def emitPK (n : CreateShape) : List String :=
  if pos n.primaryKeyN then
    if n.primaryKeyN == 1 then
      if n.pk0Ident then ["Identifier"]
      else if n.pk0Tuple then ["Function"]
      else ["*"]
    else ["Function"]
  else []

/-- the one node printed for ORDER BY (statements.go:472–511) -/
def emitOB (n : CreateShape) : List String :=
  if pos n.orderByN then
    if n.orderByN == 1 then
      if n.ob0Ident then
        if n.orderByHasModifiers then ["StorageOrderByElement"] else ["Identifier"]
      else if n.ob0Tuple then
        if n.orderByHasModifiers then ["Function"] else ["Function"]
      else ["*"]
    else ["Function"]
  else []

def emitStorage (n : CreateShape) : List String :=
  seg n.engine "Function"
  ++ (if n.partitionBy then (if n.partIdent then ["Identifier"] else ["*"]) else [])
  ++ emitPK n
  ++ emitOB n
  ++ seg n.sampleBy "*"
  ++ seg n.ttl "ExpressionList"
  ++ seg n.settingsInStorage "Set"

/-- the window view's inner `Storage definition` (statements.go:560–597): engine always, ORDER BY if any -/
def countInnerStorage (n : CreateShape) : Nat := 1 + bit (pos n.orderByN)
def emitInnerStorage (n : CreateShape) : List String :=
  ["Function"]
  ++ (if pos n.orderByN then
        if n.orderByN == 1 then (if n.ob0Ident then ["Identifier"] else ["*"])
        else ["Function"]
      else [])

/-! ## driver -/

open DC.Model.ExplainSelect (parseNats answer)

def B (x : Nat) : Bool := decide (0 < x)

def alterOfNats (k : AlterKind) : List Nat → Option AlterShape
  | a1 :: a2 :: a3 :: a4 :: a5 :: a6 :: a7 :: a8 :: a9 :: a10 :: a11 :: a12 :: a13 :: a14 :: a15 :: a16 :: a17 :: a18 :: a19 :: a20 :: a21 :: a22 :: a23 :: a24 :: a25 :: a26 :: a27 :: a28 :: a29 :: a30 :: a31 :: a32 :: a33 :: [] =>
    some ⟨k, B a1, B a2, a3, a4, B a5, B a6, B a7, B a8, B a9, B a10, B a11, B a12, B a13, B a14, B a15,
      B a16, B a17, B a18, B a19, B a20, B a21, a22, B a23, B a24, a25, B a26, B a27, a28, a29, a30,
      B a31, B a32, B a33⟩
  | _ => none

def projOfNats : List Nat → Option ProjShape
  | [a, b, c, d, e] => some ⟨B a, b, c, d, e⟩
  | _ => none

def colOfNats : List Nat → Option ColShape
  | [a, b, c, d, e, f, g, h] => some ⟨B a, b, B c, B d, B e, B f, g, B h⟩
  | _ => none

def idxOfNats : List Nat → Option IdxShape
  | [a, b, c] => some ⟨B a, B b, B c⟩
  | _ => none

def createOfNats : List Nat → Option CreateShape
  | a1 :: a2 :: a3 :: a4 :: a5 :: a6 :: a7 :: a8 :: a9 :: a10 :: a11 :: a12 :: a13 :: a14 :: a15 :: a16 :: a17 :: a18 :: a19 :: a20 :: a21 :: a22 :: a23 :: a24 :: a25 :: a26 :: a27 :: a28 :: a29 :: a30 :: a31 :: a32 :: a33 :: a34 :: a35 :: a36 :: a37 :: a38 :: a39 :: a40 :: a41 :: a42 :: a43 :: a44 :: [] =>
    some ⟨B a1, B a2, B a3, B a4, a5, a6, B a7, B a8, a9, B a10, B a11, B a12, B a13, B a14, a15, a16, a17,
      a18, B a19, a20, B a21, a22, B a23, a24, B a25, B a26, B a27, B a28, B a29, B a30, a31, B a32, B a33,
      B a34, B a35, B a36, B a37, a38, B a39, B a40, B a41, B a42, B a43, B a44⟩
  | _ => none

/-- Ops (answers `count|kind,…|wf` or `…|not-wf`):
* `altershape <TYPE> <33 naturals>` — also `altername <TYPE> <33 naturals>` → the displayed type name;
  `statshape <TYPE> <33 naturals>` for the `Stat` node;
* `projshape <5>`, `projselshape <5>`; `colshape <8>`; `idxshape <3>`;
* `createshape <44>`, `colsdefshape <44>`, `storageshape <44>`, `innerstorageshape <44>`.
`<TYPE>` is the Go string of `cmd.Type` (`-` for the empty string); a string that is none of the 45
constants takes the `default:` arm, as in Go. -/
def handle (op : String) (args : List String) : Option String :=
  if op == "altershape" || op == "altername" || op == "statshape" then
    match args with
    | [t, a] =>
      let k := AlterKind.ofString t
      match (parseNats a).bind (alterOfNats k) with
      | none => some "bad-arg"
      | some c =>
        if op == "altershape" then some (answer (countAlter c) (WfAlter c) (emitAlter c))
        else if op == "statshape" then some (answer (countStat c) true (emitStat c))
        else some (displayName (if t == "-" then "" else t) k c)
    | _ => some "bad-arg"
  else if op == "projshape" || op == "projselshape" then
    match args with
    | [a] =>
      match (parseNats a).bind projOfNats with
      | none => some "bad-arg"
      | some p =>
        if op == "projshape" then some (answer (countProj p) true (emitProj p))
        else some (answer (countProjSel p) true (emitProjSel p))
    | _ => some "bad-arg"
  else if op == "colshape" then
    match args with
    | [a] =>
      match (parseNats a).bind colOfNats with
      | none => some "bad-arg"
      | some c => some (answer (countCol c) true (emitCol c))
    | _ => some "bad-arg"
  else if op == "idxshape" then
    match args with
    | [a] =>
      match (parseNats a).bind idxOfNats with
      | none => some "bad-arg"
      | some i => some (answer (countIdx i) true (emitIdx i))
    | _ => some "bad-arg"
  else if op == "createshape" || op == "colsdefshape" || op == "storageshape" || op == "innerstorageshape" then
    match args with
    | [a] =>
      match (parseNats a).bind createOfNats with
      | none => some "bad-arg"
      | some n =>
        if op == "createshape" then some (answer (countCreate n) (WfCreate n) (emitCreate n))
        else if op == "colsdefshape" then some (answer (countColsDef n) true (emitColsDef n))
        else if op == "storageshape" then some (answer (countStorage n) true (emitStorage n))
        else some (answer (countInnerStorage n) true (emitInnerStorage n))
    | _ => some "bad-arg"
  else none

end DC.Model.ExplainDDL
