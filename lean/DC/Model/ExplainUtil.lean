import DC.Model.ExplainSelect

/-!
# C04: the count/emit pairs of the utility-statement printers

`internal/explain/statements.go` prints, for every utility statement, a header `<Kind> … (children N)`
and then the children, `N` being computed by one group of statements (or written as a literal) and the
children being printed by another.  As in `DC.Model.ExplainSelect` / `DC.Model.ExplainDDL`, each printer
is mirrored over a *shape*: one `Bool`/`Nat` per guard the Go code tests, nothing else.  `count…` follows
the counting statements (for a header written with a literal, the literal; for a header without a
`(children N)` suffix, 0), `emit…` follows the child-emitting statements in source order and lists the
kind (first word) of every node printed directly beneath the header (`*` = one node printed by
`Node(sb, x, depth+1)`, whatever its kind).

Pairs in this file (Go function → Lean pair)
* `explainDropQuery`        → `countDrop` / `emitDrop`, its table list `countDropList` / `emitDropList`
* `explainUndropQuery`      → `countUndrop` / `emitUndrop`
* `explainRenameQuery`      → `countRename` / `emitRename`
* `explainExchangeQuery`    → `countExchange` / `emitExchange`
* `explainOptimizeQuery`    → `countOptimize` / `emitOptimize`, its partition node `countOptPart` / `emitOptPart`
* `explainTruncateQuery`    → `countTruncate` / `emitTruncate`
* `explainDeleteQuery`      → `countDelete` / `emitDelete`
* `explainUpdateQuery`      → `countUpdate` / `emitUpdate`, its assignment list `countUpdateList` / `emitUpdateList`
* `explainKillQuery`        → `countKill` / `emitKill`
* `explainCheckQuery`       → `countCheck` / `emitCheck`
* `explainDetachQuery`      → `countDetach` / `emitDetach`
* `explainAttachQuery`      → `countAttach` / `emitAttach`, `countAttachCols` / `emitAttachCols`,
                               `countAttachStorage` / `emitAttachStorage`
* `explainExistsTableQuery` → `countExists` / `emitExists`
* `explainDescribeQuery`    → `countDescribe` / `emitDescribe`
* `explainSystemQuery`      → `countSystem` / `emitSystem`
* `explainShowQuery`        → `countShow` / `emitShow` (every arm)
* `explainUseQuery`         → `countUse` / `emitUse`
* `explainInsertQuery`      → `countInsert` / `emitInsert`
* `explainBackupQuery`, `explainRestoreQuery` → `countBackup` / `emitBackup` (the two functions are the same text)
* `explainCreateIndexQuery` → `countCreateIndex` / `emitCreateIndex`, its `Index` node `countCIIndex` / `emitCIIndex`
* `explainParallelWithQuery`→ `countParallel` / `emitParallel`

Five nodes of four printers need an AST invariant (`WfRename`, `WfUpdate`, `WfAttach`, `WfAttachStorage`, `WfSystem`):
see the doc comments there and `DC/Props/C04Util.lean`.
-/
namespace DC.Model.ExplainUtil
open DC.Model.ExplainSelect (bit seg pos length_seg)

/-! ## DropQuery: statements.go:632 `explainDropQuery` -/

structure DropShape where
  user : Bool                -- n.User != ""
  function : Bool            -- n.Function != ""
  role : Bool                -- n.Role != ""
  quota : Bool               -- n.Quota != ""
  policy : Bool              -- n.Policy != ""
  rowPolicy : Bool           -- n.RowPolicy != ""
  settingsProfile : Bool     -- n.SettingsProfile != ""
  index : Bool               -- n.Index != ""
  tablesN : Nat              -- len(n.Tables)
  database : Bool            -- n.Database != ""
  dropDatabase : Bool        -- n.DropDatabase
  format : Bool              -- n.Format != ""
  settingsN : Nat            -- len(n.Settings)
  deriving Repr, DecidableEq

/-- `hasDatabase := n.Database != "" && !n.DropDatabase` (statements.go:704) -/
def DropShape.hasDatabase (n : DropShape) : Bool := n.database && !n.dropDatabase

/-- the number in the header of whichever path `explainDropQuery` takes (statements.go:634–746) -/
def countDrop (n : DropShape) : Nat :=
  if n.user then 0                                      -- "DROP USER query"
  else if n.function then 0                             -- "DropFunctionQuery"
  else if n.role then 0                                 -- "DROP ROLE query"
  else if n.quota then 0                                -- "DROP QUOTA query"
  else if n.policy then 0                               -- "DROP POLICY query"
  else if n.rowPolicy then 0                            -- "DROP ROW POLICY query"
  else if n.settingsProfile then 0                      -- "DROP SETTINGS PROFILE query"
  else if n.index then 2                                -- "DropIndexQuery  %s (children %d)", n.Table, 2
  else if decide (1 < n.tablesN) then 1                 -- "DropQuery   (children %d)", 1
  else if n.hasDatabase then
    (if n.format then 3 else 2)                         -- children := 2; if hasFormat { children = 3 }
  else if n.dropDatabase then
    (if n.format then 2 else 1)                         -- children := 1; if hasFormat { children = 2 }
  else
    1 + bit n.format + bit (pos n.settingsN)            -- children := 1; if hasFormat {++}; if len(Settings) > 0 {++}

def emitDrop (n : DropShape) : List String :=
  if n.user then []
  else if n.function then []
  else if n.role then []
  else if n.quota then []
  else if n.policy then []
  else if n.rowPolicy then []
  else if n.settingsProfile then []
  else if n.index then ["Identifier", "Identifier"]     -- Identifier index; Identifier table
  else if decide (1 < n.tablesN) then ["ExpressionList"]
  else if n.hasDatabase then
    ["Identifier", "Identifier"] ++ seg n.format "Identifier"
  else if n.dropDatabase then
    ["Identifier"] ++ seg n.format "Identifier"
  else
    ["Identifier"] ++ seg n.format "Identifier" ++ seg (pos n.settingsN) "Set"

/-- the `ExpressionList (children len(n.Tables))` of the multi-table path (statements.go:686–689) -/
def countDropList (n : DropShape) : Nat := n.tablesN
def emitDropList (n : DropShape) : List String := List.replicate n.tablesN "TableIdentifier"

/-! ## UndropQuery: statements.go:749 `explainUndropQuery` -/

structure UndropShape where
  database : Bool            -- n.Database != ""
  format : Bool              -- n.Format != ""
  deriving Repr, DecidableEq

def countUndrop (n : UndropShape) : Nat :=
  if n.database then (if n.format then 3 else 2)        -- children := 2; if hasFormat { children = 3 }
  else (if n.format then 2 else 1)                      -- children := 1; if hasFormat { children = 2 }

def emitUndrop (n : UndropShape) : List String :=
  if n.database then ["Identifier", "Identifier"] ++ seg n.format "Identifier"
  else ["Identifier"] ++ seg n.format "Identifier"

/-! ## RenameQuery: statements.go:779 `explainRenameQuery` (non-nil receiver) -/

/-- one `*ast.RenamePair`: `FromDatabase != ""`, `ToDatabase != ""` -/
structure PairShape where
  fromDatabase : Bool
  toDatabase : Bool
  deriving Repr, DecidableEq

structure RenameShape where
  renameDatabase : Bool      -- n.RenameDatabase
  pairs : List PairShape     -- n.Pairs
  settingsN : Nat            -- len(n.Settings)
  deriving Repr, DecidableEq

/-- statements.go:807–816, the counting loop over `n.Pairs` -/
def countPairs : List PairShape → Nat
  | [] => 0
  | p :: ps => bit p.fromDatabase + 1 + bit p.toDatabase + 1 + countPairs ps

/-- statements.go:821–834, the printing loop over `n.Pairs` -/
def emitPairs : List PairShape → List String
  | [] => []
  | p :: ps =>
    seg p.fromDatabase "Identifier" ++ ["Identifier"] ++ seg p.toDatabase "Identifier" ++ ["Identifier"]
      ++ emitPairs ps

def countRename (n : RenameShape) : Nat :=
  if n.renameDatabase then 2 + bit (pos n.settingsN)    -- children := 2; if hasSettings { children++ }
  else countPairs n.pairs + bit (pos n.settingsN)

def emitRename (n : RenameShape) : List String :=
  if n.renameDatabase then
    (if pos n.pairs.length then ["Identifier", "Identifier"] else [])   -- if len(n.Pairs) > 0 { Pairs[0] only }
    ++ seg (pos n.settingsN) "Set"
  else emitPairs n.pairs ++ seg (pos n.settingsN) "Set"

/-- RENAME DATABASE has at least one pair (the header says 2 unconditionally, only `Pairs[0]` is printed).
`Parse` builds no pair-less RENAME without a parse error. -/
def WfRename (n : RenameShape) : Bool := !n.renameDatabase || pos n.pairs.length

/-! ## ExchangeQuery: statements.go:840 `explainExchangeQuery` (non-nil receiver) -/

structure ExchangeShape where
  database1 : Bool           -- n.Database1 != ""
  database2 : Bool           -- n.Database2 != ""
  deriving Repr, DecidableEq

def countExchange (n : ExchangeShape) : Nat :=
  (if n.database1 then 2 else 1)                        -- children += 2 / children += 1
  + (if n.database2 then 2 else 1)

def emitExchange (n : ExchangeShape) : List String :=
  seg n.database1 "Identifier" ++ ["Identifier"] ++ seg n.database2 "Identifier" ++ ["Identifier"]

/-! ## OptimizeQuery: statements.go:2306 `explainOptimizeQuery` (non-nil receiver) -/

structure OptimizeShape where
  database : Bool            -- n.Database != ""
  partition : Bool           -- n.Partition != nil
  partitionAll : Bool        -- n.Partition is an *ast.Identifier whose upper-cased Name() is "ALL"
  partitionByID : Bool       -- n.PartitionByID
  partitionLit : Bool        -- n.Partition is an *ast.Literal
  settingsN : Nat            -- len(n.Settings)
  deriving Repr, DecidableEq

def countOptimize (n : OptimizeShape) : Nat :=
  1 + bit n.database + bit n.partition + bit (pos n.settingsN)

/-- the partition block (statements.go:2341–2358) -/
def emitOptPartBlock (n : OptimizeShape) : List String :=
  if n.partition then
    if n.partitionAll then ["Partition_ID"]             -- "Partition_ID "
    else if n.partitionByID then
      (if n.partitionLit then ["Partition_ID"]          -- "Partition_ID Literal_… (children 1)"
       else ["Partition_ID"])                           -- "Partition_ID (children 1)"
    else ["Partition"]                                  -- "Partition (children 1)"
  else []

def emitOptimize (n : OptimizeShape) : List String :=
  emitOptPartBlock n
  ++ seg n.database "Identifier"
  ++ ["Identifier"]
  ++ seg (pos n.settingsN) "Set"

/-- the partition node itself (for `n.Partition != nil`): `(children 1)` + `Node(depth+2)`, except `ALL` -/
def countOptPart (n : OptimizeShape) : Nat := if n.partitionAll then 0 else 1
def emitOptPart (n : OptimizeShape) : List String := if n.partitionAll then [] else ["*"]

/-! ## TruncateQuery: statements.go:2368 `explainTruncateQuery` (non-nil receiver) -/

structure TruncateShape where
  database : Bool            -- n.Database != ""
  truncateDatabase : Bool    -- n.TruncateDatabase (header spacing only)
  settingsN : Nat            -- len(n.Settings)
  deriving Repr, DecidableEq

def countTruncate (n : TruncateShape) : Nat :=
  if n.database then 2 + bit (pos n.settingsN) else 1 + bit (pos n.settingsN)

def emitTruncate (n : TruncateShape) : List String :=
  (if n.database then ["Identifier", "Identifier"] else ["Identifier"])
  ++ seg (pos n.settingsN) "Set"

/-! ## DeleteQuery: statements.go:2404 `explainDeleteQuery` (non-nil receiver) -/

structure DeleteShape where
  partition : Bool           -- n.Partition != nil
  where_ : Bool              -- n.Where != nil
  settingsN : Nat            -- len(n.Settings)
  deriving Repr, DecidableEq

def countDelete (n : DeleteShape) : Nat := 1 + bit n.partition + bit n.where_ + bit (pos n.settingsN)

def emitDelete (n : DeleteShape) : List String :=
  seg n.partition "Partition" ++ seg n.where_ "*" ++ ["Identifier"] ++ seg (pos n.settingsN) "Set"

/-! ## UpdateQuery: statements.go:2632 `explainUpdateQuery` (non-nil receiver) -/

structure UpdateShape where
  database : Bool            -- n.Database != ""  (header text only)
  where_ : Bool              -- n.Where != nil
  assignmentsN : Nat         -- len(n.Assignments)
  deriving Repr, DecidableEq

/-- `children := 3` (statements.go:2639) -/
def countUpdate (_ : UpdateShape) : Nat := 3

def emitUpdate (n : UpdateShape) : List String :=
  ["Identifier"] ++ seg n.where_ "*" ++ ["ExpressionList"]

/-- lightweight UPDATE has its WHERE (the header says 3 unconditionally).  `Parse` violates this on
`UPDATE t SET a = 1`, which ClickHouse rejects (`ParserUpdateQuery` requires `WHERE`). -/
def WfUpdate (n : UpdateShape) : Bool := n.where_

/-- `ExpressionList (children len(n.Assignments))` + one `Node` per assignment -/
def countUpdateList (n : UpdateShape) : Nat := n.assignmentsN
def emitUpdateList (n : UpdateShape) : List String := List.replicate n.assignmentsN "Assignment"

/-! ## KillQuery: statements.go:2437 `explainKillQuery` (non-nil receiver) -/

structure KillShape where
  where_ : Bool              -- n.Where != nil
  format : Bool              -- n.Format != ""
  settingsN : Nat            -- len(n.Settings)
  deriving Repr, DecidableEq

def countKill (n : KillShape) : Nat := bit n.where_ + bit n.format + bit (pos n.settingsN)
def emitKill (n : KillShape) : List String :=
  seg n.where_ "*" ++ seg n.format "Identifier" ++ seg (pos n.settingsN) "Set"

/-! ## CheckQuery: statements.go:2517 `explainCheckQuery` (non-nil receiver) -/

structure CheckShape where
  database : Bool            -- n.Database != ""
  format : Bool              -- n.Format != ""
  settingsN : Nat            -- len(n.Settings)
  deriving Repr, DecidableEq

def countCheck (n : CheckShape) : Nat :=
  if n.database then 2 + bit n.format + bit (pos n.settingsN)
  else 1 + bit n.format + bit (pos n.settingsN)

def emitCheck (n : CheckShape) : List String :=
  if n.database then ["Identifier", "Identifier"] ++ seg n.format "Identifier" ++ seg (pos n.settingsN) "Set"
  else ["Identifier"] ++ seg n.format "Identifier" ++ seg (pos n.settingsN) "Set"

/-! ## DetachQuery: statements.go:1388 `explainDetachQuery` -/

structure DetachShape where
  database : Bool            -- n.Database != ""
  table : Bool               -- n.Table != ""
  dictionary : Bool          -- n.Dictionary != ""
  deriving Repr, DecidableEq

/-- every header is written with a literal count -/
def countDetach (n : DetachShape) : Nat :=
  if n.database && n.table then 2                       -- "DetachQuery %s %s (children 2)"
  else if n.database && n.dictionary then 2
  else if n.database && !n.table && !n.dictionary then 1
  else if n.table then 1
  else if n.dictionary then 1
  else 0                                                -- "DetachQuery"

def emitDetach (n : DetachShape) : List String :=
  if n.database && n.table then ["Identifier", "Identifier"]
  else if n.database && n.dictionary then ["Identifier", "Identifier"]
  else if n.database && !n.table && !n.dictionary then ["Identifier"]
  else if n.table then ["Identifier"]
  else if n.dictionary then ["Identifier"]
  else []

/-! ## AttachQuery: statements.go:1427 `explainAttachQuery` -/

structure AttachShape where
  database : Bool            -- n.Database != ""
  table : Bool               -- n.Table != ""
  dictionary : Bool          -- n.Dictionary != ""
  columnsN : Nat             -- len(n.Columns)
  columnsPKN : Nat           -- len(n.ColumnsPrimaryKey)
  indexesN : Nat             -- len(n.Indexes)
  hasEmptyColumnsPK : Bool   -- n.HasEmptyColumnsPrimaryKey
  select : Bool              -- n.SelectQuery != nil
  engine : Bool              -- n.Engine != nil
  orderByN : Nat             -- len(n.OrderBy)
  primaryKeyN : Nat          -- len(n.PrimaryKey)
  partitionBy : Bool         -- n.PartitionBy != nil
  settingsN : Nat            -- len(n.Settings)
  isMV : Bool                -- n.IsMaterializedView
  deriving Repr, DecidableEq

namespace AttachShape
/-- `hasColumns := len(n.Columns) > 0 || len(n.ColumnsPrimaryKey) > 0 || len(n.Indexes) > 0` (line 1433) -/
def hasColumns (n : AttachShape) : Bool := pos n.columnsN || pos n.columnsPKN || pos n.indexesN
/-- `hasStorage := n.Engine != nil || len(n.OrderBy) > 0 || len(n.PrimaryKey) > 0 || n.PartitionBy != nil || len(n.Settings) > 0` -/
def hasStorage (n : AttachShape) : Bool :=
  n.engine || pos n.orderByN || pos n.primaryKeyN || n.partitionBy || pos n.settingsN
/-- `children` as computed at statements.go:1429–1444 -/
def children (n : AttachShape) : Nat :=
  1                                                     -- children := 1 // table/database identifier
  + bit (n.database && (n.table || n.dictionary))       -- if n.Database != "" && (n.Table != "" || n.Dictionary != "")
  + bit n.hasColumns + bit n.select + bit n.hasStorage
end AttachShape

/-- the nodes printed after the name identifiers (statements.go:1472–1613) -/
def emitAttachRest (n : AttachShape) : List String :=
  seg n.hasColumns "Columns"                            -- "Columns definition (children N)"
  ++ seg n.select "*"                                   -- Node(sb, n.SelectQuery, depth+1)
  ++ (if n.hasStorage then
        (if n.isMV then ["ViewTargets"] else ["Storage"])
      else [])

def countAttach (n : AttachShape) : Nat :=
  if n.database && n.table then n.children
  else if n.database && n.dictionary then n.children
  else if n.database && !n.table && !n.dictionary then n.children
  else if n.table then n.children
  else if n.dictionary then n.children
  else 0                                                -- "AttachQuery"

def emitAttach (n : AttachShape) : List String :=
  if n.database && n.table then ["Identifier", "Identifier"] ++ emitAttachRest n
  else if n.database && n.dictionary then ["Identifier", "Identifier"]   -- return // Dictionary doesn't have columns or storage
  else if n.database && !n.table && !n.dictionary then ["Identifier"] ++ emitAttachRest n
  else if n.table then ["Identifier"] ++ emitAttachRest n
  else if n.dictionary then ["Identifier"]              -- return
  else []

/-- ATTACH DICTIONARY carries no column list, SELECT or storage clause (they are counted, then the dictionary
arms return before printing them).  `Parse` violates this on `ATTACH DICTIONARY d (a UInt64) PRIMARY KEY a`,
which ClickHouse rejects (an ATTACHed dictionary has no definition after its name). -/
def WfAttach (n : AttachShape) : Bool :=
  !(n.dictionary && !n.table) || (!n.hasColumns && !n.select && !n.hasStorage)

/-- `Columns definition (children N)` (statements.go:1474–1517) -/
def countAttachCols (n : AttachShape) : Nat :=
  bit (pos n.columnsN) + bit (pos n.indexesN) + bit (pos n.columnsPKN || n.hasEmptyColumnsPK)

def emitAttachCols (n : AttachShape) : List String :=
  seg (pos n.columnsN) "ExpressionList"
  ++ seg (pos n.indexesN) "ExpressionList"
  ++ (if pos n.columnsPKN || n.hasEmptyColumnsPK then
        if n.hasEmptyColumnsPK then ["Function"]        -- "Function tuple (children 1)" + empty ExpressionList
        else if decide (1 < n.columnsPKN) then ["Function"]
        else List.replicate n.columnsPKN "*"            -- for _, pk := range n.ColumnsPrimaryKey { Node(depth+2) }
      else [])

/-- `Storage definition (children N)`, both placements (statements.go:1527–1612; the two branches differ in depth only) -/
def countAttachStorage (n : AttachShape) : Nat :=
  bit n.engine + bit n.partitionBy + bit (pos n.orderByN) + bit (pos n.primaryKeyN) + bit (pos n.settingsN)

def emitAttachStorage (n : AttachShape) : List String :=
  seg n.engine "Function"
  ++ seg n.partitionBy "*"
  ++ List.replicate n.orderByN "*"                      -- for _, expr := range n.OrderBy { Node }
  ++ List.replicate n.primaryKeyN "*"                   -- for _, expr := range n.PrimaryKey { Node }
  ++ seg (pos n.settingsN) "Set"

/-- ORDER BY / PRIMARY KEY of ATTACH hold at most one expression each (counted once, printed once per element).
`parseAttach` always stores exactly one (a tuple literal for a parenthesised list). -/
def WfAttachStorage (n : AttachShape) : Bool := decide (n.orderByN ≤ 1) && decide (n.primaryKeyN ≤ 1)

/-! ## ExistsQuery: statements.go:1291 `explainExistsTableQuery` -/

structure ExistsShape where
  existsDatabase : Bool      -- n.ExistsType == ast.ExistsDatabase
  database : Bool            -- n.Database != ""
  settingsN : Nat            -- len(n.Settings)
  deriving Repr, DecidableEq

def countExists (n : ExistsShape) : Nat :=
  if n.existsDatabase then 1 + bit (pos n.settingsN)
  else (if n.database then 2 else 1) + bit (pos n.settingsN)   -- children := 1; if Database != "" { children = 2 }

def emitExists (n : ExistsShape) : List String :=
  if n.existsDatabase then ["Identifier"] ++ seg (pos n.settingsN) "Set"
  else seg n.database "Identifier" ++ ["Identifier"] ++ seg (pos n.settingsN) "Set"

/-! ## DescribeQuery: statements.go:1230 `explainDescribeQuery` -/

structure DescribeShape where
  tableExpr : Bool           -- n.TableExpr != nil
  tableFunction : Bool       -- n.TableFunction != nil
  format : Bool              -- n.Format != ""
  settingsN : Nat            -- len(n.Settings)
  deriving Repr, DecidableEq

def countDescribe (n : DescribeShape) : Nat :=
  if n.tableExpr then 1 + bit n.format + bit (pos n.settingsN)
  else if n.tableFunction then 1 + bit n.format + bit (pos n.settingsN)
  else 1 + bit n.format + bit (pos n.settingsN)

def emitDescribe (n : DescribeShape) : List String :=
  if n.tableExpr then ["*"] ++ seg n.format "Identifier" ++ seg (pos n.settingsN) "Set"
  else if n.tableFunction then ["TableExpression"] ++ seg n.format "Identifier" ++ seg (pos n.settingsN) "Set"
  else ["TableExpression"] ++ seg n.format "Identifier" ++ seg (pos n.settingsN) "Set"

/-! ## SystemQuery: statements.go:875 `explainSystemQuery` -/

structure SystemShape where
  flushLogs : Bool           -- strings.HasPrefix(strings.ToUpper(n.Command), "FLUSH LOGS")
  database : Bool            -- n.Database != ""
  table : Bool               -- n.Table != ""
  duplicate : Bool           -- n.DuplicateTableOutput
  settingsN : Nat            -- len(n.Settings)
  deriving Repr, DecidableEq

/-- `children` as computed at statements.go:881–897 -/
def countSystem (n : SystemShape) : Nat :=
  (if !n.flushLogs then
     let c := bit n.database + bit n.table
     if n.duplicate && decide (0 < c) then c * 2 else c -- if n.DuplicateTableOutput && children > 0 { children *= 2 }
   else 0)
  + bit (pos n.settingsN)

def emitSystem (n : SystemShape) : List String :=
  if decide (0 < countSystem n) then                    -- if children > 0 {
    seg n.database "Identifier" ++ seg n.table "Identifier"
    ++ (if n.duplicate then seg n.database "Identifier" ++ seg n.table "Identifier" else [])
    ++ seg (pos n.settingsN) "Set"
  else []                                               -- "SYSTEM query"

/-- SYSTEM FLUSH LOGS with a SETTINGS clause names no table (the FLUSH LOGS test guards the count, not the printing).
`Parse` violates this on `SYSTEM FLUSH LOGS system.query_log SETTINGS a = 1` (ClickHouse takes SETTINGS after FLUSH DISTRIBUTED only). -/
def WfSystem (n : SystemShape) : Bool := !(n.flushLogs && pos n.settingsN && (n.database || n.table))

/-! ## ShowQuery: statements.go:1012 `explainShowQuery` -/

/-- the `ast.ShowType` values the printer distinguishes; `other` is any other string -/
inductive ShowKind where
  | createDB | createDictionary | createView | create | createUser | tables | databases | dictionaries | other
  deriving Repr, DecidableEq

def ShowKind.ofString (s : String) : ShowKind :=
  if s == "CREATE_DATABASE" then .createDB
  else if s == "CREATE_DICTIONARY" then .createDictionary
  else if s == "CREATE_VIEW" then .createView
  else if s == "CREATE" then .create
  else if s == "CREATE_USER" then .createUser
  else if s == "TABLES" then .tables
  else if s == "DATABASES" then .databases
  else if s == "DICTIONARIES" then .dictionaries
  else .other

structure ShowShape where
  kind : ShowKind            -- n.ShowType
  database : Bool            -- n.Database != ""
  from_ : Bool               -- n.From != ""
  format : Bool              -- n.Format != ""
  hasSettings : Bool         -- n.HasSettings
  deriving Repr, DecidableEq

/-- the three-way name block with FORMAT and SETTINGS (SHOW CREATE DICTIONARY / TABLE: lines 1029–1078, 1123–1171) -/
def countShowNameFS (n : ShowShape) : Nat :=
  if n.database && n.from_ then 2 + bit n.format + bit n.hasSettings
  else if n.from_ then 1 + bit n.format + bit n.hasSettings
  else if n.database then 1 + bit n.format + bit n.hasSettings
  else 0
def emitShowNameFS (n : ShowShape) : List String :=
  if n.database && n.from_ then ["Identifier", "Identifier"] ++ seg n.format "Identifier" ++ seg n.hasSettings "Set"
  else if n.from_ then ["Identifier"] ++ seg n.format "Identifier" ++ seg n.hasSettings "Set"
  else if n.database then ["Identifier"] ++ seg n.format "Identifier" ++ seg n.hasSettings "Set"
  else []

/-- the three-way name block with SETTINGS only (SHOW CREATE VIEW: lines 1084–1115) -/
def countShowNameS (n : ShowShape) : Nat :=
  if n.database && n.from_ then 2 + bit n.hasSettings
  else if n.from_ then 1 + bit n.hasSettings
  else if n.database then 1 + bit n.hasSettings
  else 0
def emitShowNameS (n : ShowShape) : List String :=
  if n.database && n.from_ then ["Identifier", "Identifier"] ++ seg n.hasSettings "Set"
  else if n.from_ then ["Identifier"] ++ seg n.hasSettings "Set"
  else if n.database then ["Identifier"] ++ seg n.hasSettings "Set"
  else []

/-- SHOW TABLES / DATABASES / DICTIONARIES (lines 1194–1220) -/
def countShowTables (n : ShowShape) : Nat := bit n.from_ + bit n.format + bit n.hasSettings
def emitShowTables (n : ShowShape) : List String :=
  if decide (0 < countShowTables n) then
    seg n.from_ "Identifier" ++ seg n.format "Identifier" ++ seg n.hasSettings "Set"
  else []

def countShowK (k : ShowKind) (n : ShowShape) : Nat :=
  match k with
  | .createDB => if n.from_ then 1 else 0               -- "ShowCreateDatabaseQuery %s  (children 1)" / falls to "Show%s"
  | .createDictionary => if n.database || n.from_ then countShowNameFS n else 0
  | .createView => if n.database || n.from_ then countShowNameS n else 0
  | .create => if n.database || n.from_ then countShowNameFS n else 0
  | .createUser => if n.format then 1 else 0            -- "SHOW CREATE USER query (children 1)"
  | .tables | .databases | .dictionaries => countShowTables n
  | .other => 0                                         -- "Show%s"

def emitShowK (k : ShowKind) (n : ShowShape) : List String :=
  match k with
  | .createDB => if n.from_ then ["Identifier"] else []
  | .createDictionary => if n.database || n.from_ then emitShowNameFS n else []
  | .createView => if n.database || n.from_ then emitShowNameS n else []
  | .create => if n.database || n.from_ then emitShowNameFS n else []
  | .createUser => if n.format then ["Identifier"] else []
  | .tables | .databases | .dictionaries => emitShowTables n
  | .other => []

def countShow (n : ShowShape) : Nat := countShowK n.kind n
def emitShow (n : ShowShape) : List String := emitShowK n.kind n

/-! ## UseQuery: statements.go:1225 `explainUseQuery` -/

def countUse : Nat := 1
def emitUse : List String := ["Identifier"]

/-! ## InsertQuery: statements.go:10 `explainInsertQuery` -/

structure InsertShape where
  infile : Bool              -- n.Infile != ""
  compression : Bool         -- n.Compression != ""
  function : Bool            -- n.Function != nil
  table : Bool               -- n.Table != ""
  database : Bool            -- n.Database != ""
  colExprN : Nat             -- len(n.ColumnExpressions)
  columnsN : Nat             -- len(n.Columns)
  allColumns : Bool          -- n.AllColumns
  select : Bool              -- n.Select != nil
  hasSettings : Bool         -- n.HasSettings
  partitionBy : Bool         -- n.PartitionBy != nil
  partitionIdent : Bool      -- n.PartitionBy is an *ast.Identifier
  deriving Repr, DecidableEq

def countInsert (n : InsertShape) : Nat :=
  bit n.infile + bit n.compression
  + (if n.function then 1                               -- if n.Function != nil { children++ }
     else if n.table then 1 + bit n.database            -- else if n.Table != "" { children++; if n.Database != "" { children++ } }
     else 0)
  + bit (pos n.colExprN || pos n.columnsN || n.allColumns)
  + bit n.select + bit n.hasSettings + bit n.partitionBy

def emitInsert (n : InsertShape) : List String :=
  seg n.infile "Literal" ++ seg n.compression "Literal"
  ++ (if n.function then ["*"]                          -- Node(sb, n.Function, depth+1)
      else if n.table then
        (if n.database then ["Identifier", "Identifier"] else ["Identifier"])
      else [])
  ++ (if n.partitionBy then (if n.partitionIdent then ["Identifier"] else ["*"]) else [])
  ++ (if pos n.colExprN then ["ExpressionList"]
      else if n.allColumns then ["ExpressionList"]
      else if pos n.columnsN then ["ExpressionList"]
      else [])
  ++ seg n.select "*"
  ++ seg n.hasSettings "Set"

/-! ## BackupQuery / RestoreQuery: statements.go:1616, 1656 (non-nil receiver; the same text with Target/Source) -/

structure BackupShape where
  target : Bool              -- n.Target != nil / n.Source != nil
  format : Bool              -- n.Format != ""
  deriving Repr, DecidableEq

def countBackup (n : BackupShape) : Nat := bit n.target + bit n.format
def emitBackup (n : BackupShape) : List String := seg n.target "Function" ++ seg n.format "Identifier"

/-! ## CreateIndexQuery: statements.go:2560 `explainCreateIndexQuery` (non-nil receiver) -/

structure CreateIndexShape where
  type_ : Bool               -- n.Type != ""
  columnsParenthesized : Bool -- n.ColumnsParenthesized
  columnsN : Nat             -- len(n.Columns)
  col0Ident : Bool           -- n.Columns[0] is an *ast.Identifier
  deriving Repr, DecidableEq

/-- "CreateIndexQuery  %s (children %d)", n.Table, 3 -/
def countCreateIndex (_ : CreateIndexShape) : Nat := 3
def emitCreateIndex (_ : CreateIndexShape) : List String := ["Identifier", "Index", "Identifier"]

/-- the `Index (children N)` node: `indexChildren := 1; if n.Type != "" { indexChildren = 2 }` -/
def countCIIndex (n : CreateIndexShape) : Nat := if n.type_ then 2 else 1

def emitCIIndex (n : CreateIndexShape) : List String :=
  (if n.columnsParenthesized then
     if n.columnsN == 1 then (if n.col0Ident then ["Identifier"] else ["*"])
     else ["Function"]                                  -- empty "Function tuple (children 1)"
   else if n.columnsN == 1 then ["*"]
   else if pos n.columnsN then ["Function"]
   else ["Function"])
  ++ seg n.type_ "Function"

/-! ## ParallelWithQuery: statements.go:2663 `explainParallelWithQuery` -/

/-- `statementsN = 0` also stands for the nil receiver -/
def countParallel (statementsN : Nat) : Nat := if statementsN == 0 then 0 else statementsN
def emitParallel (statementsN : Nat) : List String :=
  if statementsN == 0 then [] else List.replicate statementsN "*"

/-! ## driver -/

open DC.Model.ExplainSelect (parseNats answer)

def B (x : Nat) : Bool := decide (0 < x)

def dropOfNats : List Nat → Option DropShape
  | [a, b, c, d, e, f, g, h, i, j, k, l, m] => some ⟨B a, B b, B c, B d, B e, B f, B g, B h, i, B j, B k, B l, m⟩
  | _ => none

def undropOfNats : List Nat → Option UndropShape
  | [a, b] => some ⟨B a, B b⟩
  | _ => none

/-- `renameDatabase, settingsN, then one number per pair: bit 0 = FromDatabase != "", bit 1 = ToDatabase != ""` -/
def renameOfNats : List Nat → Option RenameShape
  | a :: b :: ps => some ⟨B a, ps.map (fun x => ⟨x % 2 == 1, (x / 2) % 2 == 1⟩), b⟩
  | _ => none

def exchangeOfNats : List Nat → Option ExchangeShape
  | [a, b] => some ⟨B a, B b⟩
  | _ => none

def optimizeOfNats : List Nat → Option OptimizeShape
  | [a, b, c, d, e, f] => some ⟨B a, B b, B c, B d, B e, f⟩
  | _ => none

def truncateOfNats : List Nat → Option TruncateShape
  | [a, b, c] => some ⟨B a, B b, c⟩
  | _ => none

def deleteOfNats : List Nat → Option DeleteShape
  | [a, b, c] => some ⟨B a, B b, c⟩
  | _ => none

def updateOfNats : List Nat → Option UpdateShape
  | [a, b, c] => some ⟨B a, B b, c⟩
  | _ => none

def killOfNats : List Nat → Option KillShape
  | [a, b, c] => some ⟨B a, B b, c⟩
  | _ => none

def checkOfNats : List Nat → Option CheckShape
  | [a, b, c] => some ⟨B a, B b, c⟩
  | _ => none

def detachOfNats : List Nat → Option DetachShape
  | [a, b, c] => some ⟨B a, B b, B c⟩
  | _ => none

def attachOfNats : List Nat → Option AttachShape
  | [a, b, c, d, e, f, g, h, i, j, k, l, m, n] =>
    some ⟨B a, B b, B c, d, e, f, B g, B h, B i, j, k, B l, m, B n⟩
  | _ => none

def existsOfNats : List Nat → Option ExistsShape
  | [a, b, c] => some ⟨B a, B b, c⟩
  | _ => none

def describeOfNats : List Nat → Option DescribeShape
  | [a, b, c, d] => some ⟨B a, B b, B c, d⟩
  | _ => none

def systemOfNats : List Nat → Option SystemShape
  | [a, b, c, d, e] => some ⟨B a, B b, B c, B d, e⟩
  | _ => none

def showOfNats (k : ShowKind) : List Nat → Option ShowShape
  | [a, b, c, d] => some ⟨k, B a, B b, B c, B d⟩
  | _ => none

def insertOfNats : List Nat → Option InsertShape
  | [a, b, c, d, e, f, g, h, i, j, k, l] => some ⟨B a, B b, B c, B d, B e, f, g, B h, B i, B j, B k, B l⟩
  | _ => none

def backupOfNats : List Nat → Option BackupShape
  | [a, b] => some ⟨B a, B b⟩
  | _ => none

def createIndexOfNats : List Nat → Option CreateIndexShape
  | [a, b, c, d] => some ⟨B a, B b, c, B d⟩
  | _ => none

def ans {α : Type} (sh : Option α) (f : α → String) : Option String :=
  match sh with
  | none => some "bad-arg"
  | some s => some (f s)

/-- one-argument ops: the shape as comma-separated naturals in field order → `count|kind,…|wf` -/
def handle1 (op : String) (ns : List Nat) : Option String :=
  if op == "utildrop" then ans (dropOfNats ns) fun s => answer (countDrop s) true (emitDrop s)
  else if op == "utildroplist" then ans (dropOfNats ns) fun s => answer (countDropList s) true (emitDropList s)
  else if op == "utilundrop" then ans (undropOfNats ns) fun s => answer (countUndrop s) true (emitUndrop s)
  else if op == "utilrename" then ans (renameOfNats ns) fun s => answer (countRename s) (WfRename s) (emitRename s)
  else if op == "utilexchange" then ans (exchangeOfNats ns) fun s => answer (countExchange s) true (emitExchange s)
  else if op == "utiloptimize" then ans (optimizeOfNats ns) fun s => answer (countOptimize s) true (emitOptimize s)
  else if op == "utiloptpart" then ans (optimizeOfNats ns) fun s => answer (countOptPart s) true (emitOptPart s)
  else if op == "utiltruncate" then ans (truncateOfNats ns) fun s => answer (countTruncate s) true (emitTruncate s)
  else if op == "utildelete" then ans (deleteOfNats ns) fun s => answer (countDelete s) true (emitDelete s)
  else if op == "utilupdate" then ans (updateOfNats ns) fun s => answer (countUpdate s) (WfUpdate s) (emitUpdate s)
  else if op == "utilupdatelist" then ans (updateOfNats ns) fun s => answer (countUpdateList s) true (emitUpdateList s)
  else if op == "utilkill" then ans (killOfNats ns) fun s => answer (countKill s) true (emitKill s)
  else if op == "utilcheck" then ans (checkOfNats ns) fun s => answer (countCheck s) true (emitCheck s)
  else if op == "utildetach" then ans (detachOfNats ns) fun s => answer (countDetach s) true (emitDetach s)
  else if op == "utilattach" then ans (attachOfNats ns) fun s => answer (countAttach s) (WfAttach s) (emitAttach s)
  else if op == "utilattachcols" then ans (attachOfNats ns) fun s => answer (countAttachCols s) true (emitAttachCols s)
  else if op == "utilattachstorage" then
    ans (attachOfNats ns) fun s => answer (countAttachStorage s) (WfAttachStorage s) (emitAttachStorage s)
  else if op == "utilexists" then ans (existsOfNats ns) fun s => answer (countExists s) true (emitExists s)
  else if op == "utildescribe" then ans (describeOfNats ns) fun s => answer (countDescribe s) true (emitDescribe s)
  else if op == "utilsystem" then ans (systemOfNats ns) fun s => answer (countSystem s) (WfSystem s) (emitSystem s)
  else if op == "utilinsert" then ans (insertOfNats ns) fun s => answer (countInsert s) true (emitInsert s)
  else if op == "utilbackup" then ans (backupOfNats ns) fun s => answer (countBackup s) true (emitBackup s)
  else if op == "utilcreateindex" then
    ans (createIndexOfNats ns) fun s => answer (countCreateIndex s) true (emitCreateIndex s)
  else if op == "utilciindex" then ans (createIndexOfNats ns) fun s => answer (countCIIndex s) true (emitCIIndex s)
  else if op == "utilparallel" then
    match ns with
    | [k] => some (answer (countParallel k) true (emitParallel k))
    | _ => some "bad-arg"
  else if op == "utiluse" then
    match ns with
    | [_] => some (answer countUse true emitUse)
    | _ => some "bad-arg"
  else none

def ops1 : List String :=
  ["utildrop", "utildroplist", "utilundrop", "utilrename", "utilexchange", "utiloptimize", "utiloptpart",
   "utiltruncate", "utildelete", "utilupdate", "utilupdatelist", "utilkill", "utilcheck", "utildetach",
   "utilattach", "utilattachcols", "utilattachstorage", "utilexists", "utildescribe", "utilsystem",
   "utilinsert", "utilbackup", "utilcreateindex", "utilciindex", "utilparallel", "utiluse"]

/-- Ops (answers `count|kind,…|wf` or `…|not-wf`):
`util<printer> <naturals, comma separated, in field order of the shape>` for the ops of `ops1`
(`utilrename <renameDatabase>,<settingsN>,<pair code>…`; `utilparallel <len(Statements)>`; `utiluse 0`);
`utilshow <SHOWTYPE> <4 naturals>` where `<SHOWTYPE>` is the Go string of `n.ShowType` (a string that is
none of the eight distinguished constants takes the final `Show%s` line, as in Go). -/
def handle (op : String) (args : List String) : Option String :=
  if op == "utilshow" then
    match args with
    | [t, a] =>
      match (parseNats a).bind (showOfNats (ShowKind.ofString t)) with
      | none => some "bad-arg"
      | some s => some (answer (countShow s) true (emitShow s))
    | _ => some "bad-arg"
  else if ops1.contains op then
    match args with
    | [a] =>
      match parseNats a with
      | none => some "bad-arg"
      | some ns => handle1 op ns
    | _ => some "bad-arg"
  else none

end DC.Model.ExplainUtil
