import DC.Prelude.Hex
import DC.Prelude.Utf8
import DC.Gen.OpFn
import DC.Spec.Tree
import DC.Model.StrLit

/-!
# C04 / C07: the EXPLAIN printer on an *expression core*

Model of `internal/explain` for expression nodes: `Node` (explain.go:106-374, the expression arms),
`explainIdentifier`, `formatIdentifierName`, `escapeIdentifierPart`, `sanitizeUTF8`, `escapeAlias`,
`explainLiteral` with its helper predicates, `explainBinaryExpr`, `collectConcatOperands`,
`collectLogicalOperands`, `explainUnaryExpr`, `explainAliasedExpr` (expressions.go),
`explainFunctionCall(WithAlias)`, `escapeFunctionAlias`, `explainLambda(WithAlias)`, `explainCastExpr(WithAlias)`,
`explainInExpr(WithAlias)`, `explainTupleInInList`, `explainTernaryExpr`, `explainArrayAccess(WithAlias)`,
`explainTupleAccess(WithAlias)`, `explainBetweenExpr`, `explainIsNullExpr(WithAlias)`, `explainCaseExpr(WithAlias)`
and the literal predicates (functions.go), `FormatLiteral`, `formatArrayLiteral`, `formatTupleLiteral`,
`formatNumericExpr`, `NormalizeFunctionName` (format.go).

* `Expr` mirrors the Go `ast` nodes with exactly the fields the printer reads.
* `items m al e d` is what `Node(sb, e, d)` writes, one `Item` per `fmt.Fprintf` call: indentation, node kind,
  the text after the kind word, and the PRINTED children count (computed the way the Go code computes it:
  `len(args)`, `len(n.Whens)*2 + 1`, `argCount`, `len(operands)` …, separately from the children that are
  emitted).  That the two agree is the theorem `explain_expr_counts` (DC/Props/C04Expr.lean).
* what is outside the model (and answered `unsupported`): `handleSpecialFunction`'s rewrites (kql, dateAdd/Sub/Diff,
  POSITION(x IN y), SQL-standard TRIM, quantified comparisons), FILTER / SETTINGS on a call, non-ASCII function names
  (`strings.ToUpper`), the `default:` arms of the operator tables, `formatExprAsString` (odd elements inside literal
  arrays/tuples; float, array and tuple operands of `::`), negations that overflow int64 or re-parse a big-integer
  string, and every node type that is not listed above (`other`).
* everything the model does not cover is ONE placeholder item of kind `unsupported why`; `explainExpr` then answers
  `.error why` — never a guessed line.
* the model has no input but the node (and the depth): no flags, no history.  This is C07's "renders the same
  wherever embedded" on the core: `explain_expr_depth_shift`.

Two parameters of `items` are not Go parameters but *which Go function is running*:
* `al : Option Bytes` — `some a`: the node is being printed by `explainAliasedExpr` for `AliasedExpr{Expr: e, Alias: a}`
  (expressions.go:600-858), which has one `…WithAlias` arm per node type; `none`: by `Node` directly.
* `m : Mode` — the node is an operand of an enclosing `||` / `AND` / `OR` chain that is being flattened by
  `collectConcatOperands` / `collectLogicalOperands`: a BinaryExpr that those functions descend into prints no line of
  its own, its operands are spliced into the parent's list.  (`Proofs/ExplainExprCollect.lean` proves this fused
  formulation equal to "collect the operand list, then `Node` each operand", which is how the Go code is written.)
-/
namespace DC.Model.ExplainExpr
open DC DC.Spec.Tree

/-- ASCII bytes of a string constant (reduces in the kernel, unlike `String.toUTF8`) -/
def b (s : String) : Bytes := s.toList.map (fun c => c.toNat.toUInt8)

/-! ## the AST core -/

/-- `ast.Literal` with a scalar `Value` (ast.go:1357-1367): `Type` and the dynamic type of `Value`. -/
inductive Scalar where
  /-- `LiteralInteger`, `Value int64` -/
  | int64 (v : Int)
  /-- `LiteralInteger`, `Value uint64`; `asFloat` = `FormatFloat(float64(v))` (trusted conversion, read only where the Go
  code computes `-float64(val)`) -/
  | uint64 (v : Nat) (asFloat : Bytes)
  /-- `LiteralFloat`; the value is represented by `FormatFloat(val)` (format.go:13-38), C09's business -/
  | float (text : Bytes)
  /-- `LiteralString` with `IsBigInt` -/
  | str (s : Bytes) (isBigInt : Bool)
  /-- `LiteralBoolean` -/
  | bool (v : Bool)
  /-- `LiteralNull` -/
  | null
deriving Repr, DecidableEq

inductive Expr where
  /-- `*ast.Identifier`: `Parts`, `Alias` -/
  | ident (parts : List Bytes) (alias : Bytes)
  /-- `*ast.Literal` with a scalar value: `Parenthesized`, `Negative` -/
  | lit (v : Scalar) (par : Bool) (negative : Bool)
  /-- `*ast.Literal{Type: LiteralArray, Value: []ast.Expression}` -/
  | arr (elems : List Expr) (par : Bool)
  /-- `*ast.Literal{Type: LiteralTuple, Value: []ast.Expression}` -/
  | tup (elems : List Expr) (par : Bool)
  /-- `*ast.FunctionCall`: `Name`, `Arguments`, `Parameters` (`none` = nil slice), `Distinct`, `Alias`.
  Calls with `Filter`, `Settings` or `SQLStandard` set are encoded as `other` by the harness. `Over` never changes the
  output (`windowSpecHasContent` is constantly false, functions.go:223-225). -/
  | func (name : Bytes) (args : List Expr) (params : Option (List Expr)) (distinct : Bool) (alias : Bytes)
  /-- `*ast.BinaryExpr`: `Op`, `Left`, `Right`, `Parenthesized` -/
  | binary (op : String) (l r : Expr) (par : Bool)
  /-- `*ast.UnaryExpr`: `Op`, `Operand` -/
  | unary (op : String) (e : Expr)
  /-- `*ast.ArrayAccess` -/
  | arrayAccess (a i : Expr)
  /-- `*ast.TupleAccess` -/
  | tupleAccess (t i : Expr)
  /-- `*ast.IsNullExpr`: `Expr`, `Not` -/
  | isNull (e : Expr) (not : Bool)
  /-- `*ast.BetweenExpr`: `Expr`, `Low`, `High`, `Not` -/
  | between (e lo hi : Expr) (not : Bool)
  /-- `*ast.InExpr` with `Query == nil`: `Expr`, `List`, `Not`, `Global`, `TrailingComma` -/
  | inList (e : Expr) (list : List Expr) (not global trailingComma : Bool)
  /-- `*ast.CaseExpr`: `Operand`, `Whens` (`Condition`, `Result`), `Else`, `Alias` -/
  | case_ (operand : Option Expr) (whens : List (Expr × Expr)) (els : Option Expr) (alias : Bytes)
  /-- `*ast.CastExpr` with `TypeExpr == nil`: `Expr`, `OperatorSyntax`, `Alias`; `ty` is the text the printer shows between
  `\'` and `\'` for `Type` (`FormatDataType`, escaped when the type has no parameters: functions.go:665-672) — C18's model -/
  | cast (e : Expr) (ty : Bytes) (opSyntax : Bool) (alias : Bytes)
  /-- `*ast.CastExpr` with `TypeExpr != nil` (`CAST(x, <expression>)`): the type is printed as a node -/
  | castDyn (e tyExpr : Expr) (opSyntax : Bool) (alias : Bytes)
  /-- `*ast.Lambda`: `Parameters`, `Body` -/
  | lambda (params : List Bytes) (body : Expr)
  /-- `*ast.TernaryExpr` -/
  | ternary (c t e : Expr)
  /-- `*ast.AliasedExpr`: `Expr`, `Alias` -/
  | aliased (e : Expr) (alias : Bytes)
  /-- any node outside the core (Subquery, InExpr with a subquery, LikeExpr, IntervalExpr, ExistsExpr, Asterisk, …) -/
  | other (kind : String)
deriving Repr

/-! ## items: one per `fmt.Fprintf` -/

inductive Kind where
  | function | identifier | literal | expressionList
  | unsupported (why : String)
deriving Repr, DecidableEq

/-- the first word of the line -/
def Kind.word : Kind → Bytes
  | .function => b "Function"
  | .identifier => b "Identifier"
  | .literal => b "Literal"
  | .expressionList => b "ExpressionList"
  | .unsupported _ => b "?"

structure Item where
  /-- length of the `indent` string the call passes -/
  depth : Nat
  kind : Kind
  /-- the text after `<Kind> ` (without the separating space); `none`: the kind word alone -/
  rest : Option Bytes
  /-- the argument of ` (children %d)`; `none`: the format string has no such suffix -/
  cnt : Option Nat
deriving Repr, DecidableEq

/-- what follows the kind word in the label -/
def restText : Option Bytes → Bytes
  | none => []
  | some r => sp :: r

def Item.label (i : Item) : Bytes := i.kind.word ++ restText i.rest

/-- the line as written (without `\n`) -/
def Item.toLine (i : Item) : Line := line i.depth i.label i.cnt.isSome (i.cnt.getD 0)

def Item.why? (i : Item) : Option String :=
  match i.kind with
  | .unsupported w => some w
  | _ => none

/-- the placeholder for a node the model does not cover -/
def unsup (d : Nat) (why : String) : Item := ⟨d, .unsupported why, none, none⟩

/-- `" (alias %s)"` when present -/
def aliasSuffix : Option Bytes → Bytes
  | none => []
  | some a => b " (alias " ++ a ++ b ")"

/-- the idiom `if alias != "" { "… (alias %s) …", f(alias) } else { "… …" }` -/
def optAlias (f : Bytes → Bytes) (a : Bytes) : Option Bytes := if a.isEmpty then none else some (f a)

/-- `"%sFunction %s (children %d)\n"` / `"%sFunction %s (alias %s) (children %d)\n"` -/
def fnItem (d : Nat) (name : Bytes) (alias : Option Bytes) (n : Nat) : Item :=
  ⟨d, .function, some (name ++ aliasSuffix alias), some n⟩

/-- `"%s ExpressionList (children %d)\n"` (the caller's indent plus the spaces of the format string = `d`) -/
def elItem (d n : Nat) : Item := ⟨d, .expressionList, none, some n⟩

/-- `"%s ExpressionList\n"` -/
def elBare (d : Nat) : Item := ⟨d, .expressionList, none, none⟩

/-- the idiom `Fprintf("%s ExpressionList"); if n > 0 { Fprintf(" (children %d)", n) }; Fprintln()` and its if/else forms -/
def elMaybe (d n : Nat) : Item := if n > 0 then elItem d n else elBare d

def litItem (d : Nat) (text : Bytes) (alias : Option Bytes) : Item :=
  ⟨d, .literal, some (text ++ aliasSuffix alias), none⟩

def identItem (d : Nat) (name : Bytes) (alias : Option Bytes) : Item :=
  ⟨d, .identifier, some (name ++ aliasSuffix alias), none⟩

/-! ## strings -/

/-- `escapeAlias` (expressions.go:50-55) = `escapeFunctionAlias` (functions.go:12-15): `\` → `\\`, then `'` → `\'`.
The two `ReplaceAll`s act on disjoint bytes, so they are one byte-wise map. -/
def escByte (c : UInt8) : Bytes := if c = 92 then [92, 92] else if c = 39 then [92, 39] else [c]
def escapeAlias (a : Bytes) : Bytes := a.flatMap escByte

/-- `utf8.ValidString`: no position decodes to `(RuneError, 1)` -/
def validLoop : Nat → Bytes → Bool
  | 0, _ => true
  | fuel + 1, s =>
    match s with
    | [] => true
    | _ =>
      if (Utf8.decodeRune s).1 = Utf8.runeError ∧ (Utf8.decodeRune s).2 = 1 then false
      else validLoop fuel (s.drop (Utf8.decodeRune s).2)

/-- the loop of `sanitizeUTF8` (expressions.go:30-46) -/
def sanitizeLoop : Nat → Bytes → Bytes
  | 0, _ => []
  | fuel + 1, s =>
    match s with
    | [] => []
    | _ =>
      if (Utf8.decodeRune s).1 = Utf8.runeError ∧ (Utf8.decodeRune s).2 = 1 then
        [0xEF, 0xBF, 0xBD] ++ sanitizeLoop fuel (s.drop 1)          -- WriteRune('�'); i++
      else if (Utf8.decodeRune s).1 = 0 then
        [92, 48] ++ sanitizeLoop fuel (s.drop (Utf8.decodeRune s).2) -- WriteString("\\0")
      else
        Utf8.encodeRune (Utf8.decodeRune s).1 ++ sanitizeLoop fuel (s.drop (Utf8.decodeRune s).2)

/-- `sanitizeUTF8` (expressions.go:15-47) -/
def sanitizeUTF8 (s : Bytes) : Bytes :=
  if !validLoop s.length s || s.contains 0 then sanitizeLoop s.length s else s

/-- `escapeIdentifierPart` (expressions.go:68-73) -/
def escapeIdentifierPart (s : Bytes) : Bytes := escapeAlias (sanitizeUTF8 s)

/-- the loop body of `formatIdentifierName` for `Parts[1:]` (expressions.go:85-92) -/
def identTail : List Bytes → Bytes
  | [] => []
  | p :: ps =>
    (match p with
     | 94 :: q => b ".^`" ++ escapeIdentifierPart q ++ b "`"      -- strings.HasPrefix(p, "^")
     | _ => 46 :: escapeIdentifierPart p) ++ identTail ps

/-- `formatIdentifierName` (expressions.go:77-94) -/
def formatIdentifierName : List Bytes → Bytes
  | [] => []
  | p :: ps => escapeIdentifierPart p ++ identTail ps

/-- `(*ast.Identifier).Name()` (ast.go:1330-1342) -/
def identName : List Bytes → Bytes
  | [] => []
  | [p] => p
  | p :: ps => p ++ 46 :: identName ps

/-- ASCII `strings.ToLower` / `strings.ToUpper` (only applied to names without bytes ≥ 0x80) -/
def lowerByte (c : UInt8) : UInt8 := if 65 ≤ c ∧ c ≤ 90 then c + 32 else c
def upperByte (c : UInt8) : UInt8 := if 97 ≤ c ∧ c ≤ 122 then c - 32 else c
def isAscii (s : Bytes) : Bool := s.all (· < 128)

/-! ## literals: `FormatLiteral` and friends -/

/-- Go's `%d` of an integer -/
def intText (v : Int) : Bytes := if v ≥ 0 then showDec v.toNat else 45 :: showDec (-v).toNat

/-- `FormatFloat(-val)` from `FormatFloat(val)`: `nan` stays, otherwise the sign flips (format.go:13-38 is sign-symmetric) -/
def negFloatText (t : Bytes) : Bytes :=
  if t = b "nan" then t else match t with
    | 45 :: r => r
    | _ => 45 :: t

/-- `FormatLiteral` (format.go:108-145), scalar cases -/
def Scalar.text : Scalar → Bytes
  | .int64 v => if v ≥ 0 then b "UInt64_" ++ intText v else b "Int64_" ++ intText v
  | .uint64 v _ => b "UInt64_" ++ showDec v
  | .float t => b "Float64_" ++ t
  | .str s _ => StrLit.formatStringLiteral s
  | .bool v => if v then b "Bool_1" else b "Bool_0"
  | .null => b "NULL"

def minInt64 : Int := -9223372036854775808

/-- the `case int64` arm shared by explainUnaryExpr (expressions.go:535-545), formatArrayLiteral (format.go:182-191) and
formatNumericExpr (format.go:233-241): `negVal := -val` and the three-way test. `none`: `-val` overflows. -/
def negInt64Text (val : Int) : Option Bytes :=
  if val = minInt64 then none
  else if -val = 0 then some (b "UInt64_0")
  else if -val > 0 then some (b "UInt64_" ++ intText (-val))
  else some (b "Int64_" ++ intText (-val))

/-- the `case uint64` arm of explainUnaryExpr (expressions.go:546-560), formatArrayLiteral (format.go:192-201),
formatNumericExpr (format.go:242-251): the three agree (`val <= 1<<63` vs `val > 1<<63`). -/
def negUint64Text (val : Nat) (asFloat : Bytes) : Bytes :=
  if val = 0 then b "UInt64_0"
  else if val ≤ 9223372036854775808 then b "Int64_-" ++ showDec val
  else b "Float64_" ++ negFloatText asFloat

/-- `strings.Join(parts, ", ")` -/
def joinComma : List Bytes → Bytes
  | [] => []
  | [x] => x
  | x :: xs => x ++ 44 :: 32 :: joinComma xs

/-- `fmt.Sprintf("Array_[%s]", strings.Join(parts, ", "))` (format.go:220) -/
def arrayText (parts : List Bytes) : Bytes := b "Array_[" ++ joinComma parts ++ b "]"
/-- `fmt.Sprintf("Tuple_(%s)", strings.Join(parts, ", "))` (format.go:278, 295) -/
def tupleText (parts : List Bytes) : Bytes := b "Tuple_(" ++ joinComma parts ++ b ")"

/-- the negated-literal cases shared by formatArrayLiteral (format.go:177-213) and formatNumericExpr (format.go:230-256);
`none`: not modelled (`formatExprAsString`, or `-val` overflows) -/
def negLitText : Scalar → Option Bytes
  | .int64 val => negInt64Text val
  | .uint64 val f => some (negUint64Text val f)
  | .float t => some (b "Float64_" ++ negFloatText t)
  | _ => none

mutual
/-- `FormatLiteral` (format.go:108-145) on a Literal node; `none`: an element takes a path that is not modelled
(`formatExprAsString`, an overflowing negation) or the node is not a Literal -/
def formatLiteral : Expr → Option Bytes
  | .lit v _ _ => some v.text
  | .arr es _ => (formatArrayElems es).map arrayText
  | .tup es _ => (formatTupleElems es).map tupleText
  | _ => none
/-- the loop of `formatArrayLiteral` (format.go:174-219) -/
def formatArrayElems : List Expr → Option (List Bytes)
  | [] => some []
  | e :: es =>
    match formatArrayElem e, formatArrayElems es with
    | some t, some ts => some (t :: ts)
    | _, _ => none
/-- one element of `formatArrayLiteral`: a Literal (`FormatLiteral`), `-<literal>`, an Identifier (`ident.Name()`),
else `formatExprAsString` (not modelled) -/
def formatArrayElem : Expr → Option Bytes
  | .lit v _ _ => some v.text
  | .arr es _ => (formatArrayElems es).map arrayText
  | .tup es _ => (formatTupleElems es).map tupleText
  | .unary op (.lit v _ _) => if op = "-" then negLitText v else none
  | .ident parts _ => some (identName parts)
  | _ => none
/-- the loop of `formatTupleLiteral` (format.go:267-277) (= `formatInListAsTuple`, format.go:282-296) -/
def formatTupleElems : List Expr → Option (List Bytes)
  | [] => some []
  | e :: es =>
    match formatTupleElem e, formatTupleElems es with
    | some t, some ts => some (t :: ts)
    | _, _ => none
/-- one element of `formatTupleLiteral`: `formatNumericExpr` (a numeric Literal, or `-<literal>` by the dynamic type of its
value), else a Literal, else an Identifier, else `formatExprAsString` (not modelled) -/
def formatTupleElem : Expr → Option Bytes
  | .lit v _ _ => some v.text
  | .arr es _ => (formatArrayElems es).map arrayText
  | .tup es _ => (formatTupleElems es).map tupleText
  | .unary op (.lit v _ _) => if op = "-" then negLitText v else none
  | .ident parts _ => some (identName parts)
  | _ => none
end

/-! ## the predicates of explainLiteral / explainAliasedExpr / explainInExpr on literal elements -/

/-- `lit, ok := e.(*ast.Literal)` -/
def Expr.isLit : Expr → Bool
  | .lit .. => true | .arr .. => true | .tup .. => true | _ => false

/-- `lit.Parenthesized` of a Literal node -/
def Expr.litPar : Expr → Bool
  | .lit _ p _ => p | .arr _ p => p | .tup _ p => p | _ => false

def Expr.isArr : Expr → Bool | .arr .. => true | _ => false
def Expr.isTup : Expr → Bool | .tup .. => true | _ => false

/-- `lit.Type == LiteralInteger || lit.Type == LiteralFloat` -/
def Scalar.isNumeric : Scalar → Bool
  | .int64 _ => true | .uint64 _ _ => true | .float _ => true | _ => false

/-- `unary.Op == "-"` with a Literal operand of type Integer or Float (expressions.go:134-139, 258-262, 283-287;
functions.go:894-898, 955-960) -/
def Expr.isNegNumeric : Expr → Bool
  | .unary op (.lit v _ _) => op == "-" && v.isNumeric
  | _ => false

/-- `unary.Op == "-"` with any Literal operand (expressions.go:323-327, 436-440; functions.go:829-833) -/
def Expr.isNegLit : Expr → Bool
  | .unary op e => op == "-" && e.isLit
  | _ => false

/-- `isSimpleLiteralOrNegation` (expressions.go:251-264) -/
def isSimpleLiteralOrNegation (e : Expr) : Bool :=
  if e.isLit then !e.isTup && !e.isArr else e.isNegNumeric

/-- `isNumericExpr` (functions.go:890-900) -/
def isNumericExpr : Expr → Bool
  | .lit v _ _ => v.isNumeric
  | e => e.isNegNumeric

/-- `containsNonLiteralExpressions` (expressions.go:313-331) -/
def containsNonLiteralExpressions : List Expr → Bool
  | [] => false
  | e :: es =>
    if e.isLit then (if e.litPar then true else containsNonLiteralExpressions es)
    else if e.isNegLit then containsNonLiteralExpressions es
    else true

/-- `containsTuples` (expressions.go:359-366) -/
def containsTuples (es : List Expr) : Bool := es.any Expr.isTup

/-- `containsEmptyArrays` (expressions.go:369-378) -/
def containsEmptyArrays (es : List Expr) : Bool :=
  es.any (fun e => match e with | .arr xs _ => xs.isEmpty | _ => false)

mutual
/-- `containsEmptyArraysRecursive` (expressions.go:381-396), per element -/
def emptyArraysRecE : Expr → Bool
  | .arr xs _ => xs.isEmpty || emptyArraysRecL xs
  | _ => false
def emptyArraysRecL : List Expr → Bool
  | [] => false
  | e :: es => emptyArraysRecE e || emptyArraysRecL es
end

mutual
/-- `containsTuplesRecursive` (expressions.go:399-415), per element -/
def tuplesRecE : Expr → Bool
  | .tup _ _ => true
  | .arr xs _ => tuplesRecL xs
  | _ => false
def tuplesRecL : List Expr → Bool
  | [] => false
  | e :: es => tuplesRecE e || tuplesRecL es
end

mutual
/-- `containsNonLiteralExpressionsRecursive` (expressions.go:418-445), per element: `some true` = return true,
`some false` = continue -/
def nonLitRecE : Expr → Bool
  | .lit _ p _ => p
  | .tup _ p => p
  | .arr xs p => p || nonLitRecL xs
  | .unary op e => !(op == "-" && e.isLit)
  | _ => true
def nonLitRecL : List Expr → Bool
  | [] => false
  | e :: es => nonLitRecE e || nonLitRecL es
end

mutual
/-- `containsOnlyPrimitiveLiteralsWithUnary` (functions.go:930-966) applied to a tuple literal's elements -/
def primWithUnaryL : List Expr → Bool
  | [] => true
  | e :: es => primWithUnaryE e && primWithUnaryL es
/-- one iteration of its loop: `true` = continue, `false` = return false -/
def primWithUnaryE : Expr → Bool
  | .lit _ _ _ => true
  | .tup xs _ => primWithUnaryL xs
  | .arr _ _ => false
  | .unary op (.lit v _ _) => op == "-" && v.isNumeric
  | _ => false
end

mutual
/-- `containsOnlyPrimitiveLiterals` (functions.go:903-926) applied to a tuple literal's elements -/
def primL : List Expr → Bool
  | [] => true
  | e :: es => primE e && primL es
def primE : Expr → Bool
  | .lit _ _ _ => true
  | .tup xs _ => primL xs
  | .arr _ _ => true
  | _ => false
end

mutual
/-- `containsNonLiteralInNested` (expressions.go:335-356) on a Literal node -/
def nonLitInNested : Expr → Bool
  | .arr xs _ => nonLitInNestedL xs
  | .tup xs _ => nonLitInNestedL xs
  | _ => false
def nonLitInNestedL : List Expr → Bool
  | [] => false
  | e :: es => (if e.isLit then nonLitInNested e else true) || nonLitInNestedL es
end

/-- the loop of explainLiteral on a tuple (expressions.go:111-144): `hasParenthesizedElement || hasComplexExpr`
(the `break`s only stop the scan after one of the two flags is set) -/
def tupleNeedsFunction : List Expr → Bool
  | [] => false
  | e :: es =>
    (match e with
     | .lit _ p _ => p
     | .tup xs p => p || !primWithUnaryL xs
     | .arr _ _ => true                                 -- parenthesised, or "Arrays are always complex in tuple context"
     | e => !e.isNegNumeric) || tupleNeedsFunction es

/-- explainLiteral on an array, the per-element part (expressions.go:181-209): `shouldUseFunctionArray` after the loop,
`hasNestedArrays`, `nestedArraysNeedFunctionFormat` -/
def arrayFlags : List Expr → Bool × Bool × Bool
  | [] => (false, false, false)
  | e :: es =>
    let (s, h, n) := arrayFlags es
    match e with
    | .arr xs p =>
      (s || p, true,
        n || (containsNonLiteralExpressions xs || xs.isEmpty || containsTuples xs || containsEmptyArrays xs))
    | .tup _ _ => (true, h, n)                          -- `lit.Parenthesized` or "Tuples are complex": both set the flag
    | .lit _ p _ => (s || p, h, n)
    | e => (s || !isSimpleLiteralOrNegation e, h, n)

/-- explainLiteral on a non-empty array (expressions.go:177-229): `shouldUseFunctionArray` -/
def arrayNeedsFunction (es : List Expr) : Bool :=
  let (s, h, n) := arrayFlags es
  s || (h && n) || (h && emptyArraysRecL es) || (h && tuplesRecL es) || (h && nonLitRecL es)

/-- explainAliasedExpr on a tuple (expressions.go:609-631): `needsFunctionFormat` -/
def aliasedTupleNeedsFunction (es : List Expr) : Bool :=
  es.isEmpty || es.any (fun e => !e.isLit || e.isArr || nonLitInNested e)

/-- one iteration of explainAliasedExpr's array loop (expressions.go:657-710): `some true` = `needsFunctionFormat = true; break`,
`some false` = continue; second component: the element is a nested array (`hasNestedArrays = true`) -/
def aliasedArrayElem : Expr → Bool × Bool
  | .tup _ _ => (true, false)
  | .arr xs _ => (xs.isEmpty || containsEmptyArrays xs, true)
  | .lit _ _ _ => (false, false)
  | e => (!e.isNegNumeric, false)          -- Identifier, FunctionCall, CastExpr, BinaryExpr, any other non-literal

/-- the loop with its `break`: (needsFunctionFormat, hasNestedArrays) -/
def aliasedArrayFlags : List Expr → Bool × Bool
  | [] => (false, false)
  | e :: es =>
    if (aliasedArrayElem e).1 then (true, (aliasedArrayElem e).2)
    else ((aliasedArrayFlags es).1, (aliasedArrayElem e).2 || (aliasedArrayFlags es).2)

/-- explainAliasedExpr on an array (expressions.go:649-719): `needsFunctionFormat` -/
def aliasedArrayNeedsFunction (es : List Expr) : Bool :=
  es.isEmpty || (aliasedArrayFlags es).1 ||
    ((aliasedArrayFlags es).2 && emptyArraysRecL es) || ((aliasedArrayFlags es).2 && tuplesRecL es)

/-! ## functions -/

/-- `NormalizeFunctionName` (format.go:465-489): the map, keyed by the lower-cased name -/
def normalizedNames : List (Bytes × Bytes) :=
  [(b "trim", b "trimBoth"), (b "ltrim", b "trimLeft"), (b "rtrim", b "trimRight"), (b "position", b "position"),
   (b "substring", b "substring"), (b "date_diff", b "dateDiff"), (b "datediff", b "dateDiff"),
   (b "anyequals", b "in"), (b "allnotequals", b "notIn")]

def normalizeFunctionName (name : Bytes) : Bytes :=
  (normalizedNames.lookup (name.map lowerByte)).getD name

/-- the upper-cased names `handleSpecialFunction` (functions.go:229-284) dispatches on unconditionally -/
def specialNames : List Bytes :=
  [b "KQL", b "DATE_ADD", b "DATEADD", b "TIMESTAMP_ADD", b "TIMESTAMPADD", b "DATE_SUB", b "DATESUB", b "TIMESTAMP_SUB",
   b "TIMESTAMPSUB", b "DATE_DIFF", b "DATEDIFF"]

/-- `some why`: `handleSpecialFunction` may take over (not modelled).  `none`: it returns false — the name is none of
the special ones, POSITION has no single IN argument, and a quantified comparison (`any…`/`all…` prefix) needs a
Subquery second argument, which is outside the core (`other`) anyway. -/
def specialFunction (name : Bytes) (args : List Expr) : Option String :=
  if !isAscii name then some "function-name-non-ascii"        -- strings.ToUpper/ToLower beyond ASCII are not modelled
  else if specialNames.contains (name.map upperByte) then some "special-function"
  else if name.map upperByte == b "POSITION" then
    match args with
    | [.inList ..] => some "position-in"
    | [.other _] => some "position-in"
    | _ => none
  else if name.map lowerByte == b "view" then some "view-function"
  else none

/-- operator → function name: the table of `OperatorToFunction` (format.go:492-529), generated; the `default:` arm
(`strings.ToLower(op)`) is not modelled -/
def binFn (op : String) : Option Bytes := (Gen.OpFn.binOpFn.lookup op).map b

/-- the table of `UnaryOperatorToFunction` (format.go:532-541) -/
def unFn (op : String) : Option Bytes := (Gen.OpFn.unaryOpFn.lookup op).map b

/-! ## flattening of `||`, `AND`, `OR` chains -/

inductive Mode where
  /-- printed by `Node` -/
  | node
  /-- an operand position inside `collectConcatOperands` (expressions.go:481-499) -/
  | concat
  /-- an operand position inside `collectLogicalOperands` of a chain of `op` (expressions.go:505-524) -/
  | logical (op : String)
deriving Repr, DecidableEq

/-- the test under which the collector descends into a BinaryExpr operand instead of appending it:
`left.Op == "||"` (485, 492) resp. `left.Op == n.Op && !left.Parenthesized` (509, 517) -/
def Mode.flat : Mode → String → Bool → Bool
  | .node, _, _ => false
  | .concat, op, _ => op == "||"
  | .logical o, op, par => op == o && !par

/-- which collector explainBinaryExpr uses for the operands of `op` (expressions.go:452, 464) -/
def modeFor (op : String) : Mode :=
  if op == "||" then .concat else if op == "OR" || op == "AND" then .logical op else .node

/-- `len(collectConcatOperands(…))` / `len(collectLogicalOperands(…))`: the number of operands an operand position
contributes -/
def opCount (m : Mode) : Expr → Nat
  | .binary op l r p => if m.flat op p then opCount m l + opCount m r else 1
  | _ => 1

/-- the printed count of the operand ExpressionList: `len(operands)` for the flattened operators, the constant `2`
otherwise (expressions.go:455, 467, 475) -/
def binaryCount (op : String) (l r : Expr) : Nat :=
  match modeFor op with
  | .node => 2
  | m => opCount m l + opCount m r

/-! ## IN lists (functions.go:1011-1389) -/

/-- the classification loop of explainInExpr (functions.go:1039-1086) / explainInExprWithAlias (1262-1302), as a fold with
its `break`: flags (allNumericOrNull, allStringsOrNull, allBooleansOrNull, allTuples, allTuplesArePrimitive,
allPrimitiveLiterals, allNull, hasNonNull).  `withAlias` selects `containsOnlyPrimitiveLiterals` (1282) instead of
`…WithUnary` (1060) and drops the "arrays break the primitive check" test (1066-1068). -/
structure InFlags where
  numeric : Bool := true
  strings : Bool := true
  booleans : Bool := true
  tuples : Bool := true
  tuplesPrim : Bool := true
  prims : Bool := true
  allNull : Bool := true
  hasNonNull : Bool := false
deriving Repr, DecidableEq

def inStep (withAlias : Bool) (f : InFlags) : Expr → InFlags × Bool      -- (flags, break?)
  | .lit .null _ _ => (f, false)
  | .lit v _ _ =>
    ({ f with allNull := false, hasNonNull := true,
              numeric := f.numeric && v.isNumeric,
              strings := f.strings && (match v with | .str _ _ => true | _ => false),
              booleans := f.booleans && (match v with | .bool _ => true | _ => false),
              tuples := false }, false)
  | .tup xs _ =>
    let prim := if withAlias then primL xs else primWithUnaryL xs
    ({ f with allNull := false, hasNonNull := true, numeric := false, strings := false, booleans := false,
              tuplesPrim := f.tuplesPrim && prim, prims := f.prims && prim }, false)
  | .arr _ _ =>
    ({ f with allNull := false, hasNonNull := true, numeric := false, strings := false, booleans := false,
              tuples := false, prims := if withAlias then f.prims else false }, false)
  | e =>
    if isNumericExpr e then
      ({ f with allNull := false, hasNonNull := true, strings := false, booleans := false, tuples := false }, false)
    else
      ({ f with allNull := false, numeric := false, strings := false, booleans := false, tuples := false,
                prims := false }, true)

def inFold (withAlias : Bool) (f : InFlags) : List Expr → InFlags
  | [] => f
  | e :: es => if (inStep withAlias f e).2 then (inStep withAlias f e).1 else inFold withAlias (inStep withAlias f e).1 es

/-- `canBeTupleLiteral` (functions.go:1029-1091 / 1252-1304) -/
def canBeTupleLiteral (withAlias : Bool) (list : List Expr) : Bool :=
  if list.length > 1 then
    let f := inFold withAlias {} list
    f.allNull || (f.hasNonNull && (f.numeric || (f.strings && (!withAlias || list.length ≤ 10)) || f.booleans ||
      (f.tuples && f.tuplesPrim) || f.prims))
  else false

/-- `lit, ok := item.(*ast.Literal); ok && lit.Type == ast.LiteralString` -/
def isStringLit : Expr → Bool
  | .lit (.str _ _) _ _ => true
  | _ => false

/-- "all items are string literals" (functions.go:1323-1331): `allStringLiterals := len(n.List) > 0`, then the loop -/
def allStringLiterals (list : List Expr) : Bool := !list.isEmpty && list.all isStringLit

/-- "all elements are parenthesized primitives" (functions.go:1147-1158) -/
def allParenthesizedPrimitives (elems : List Expr) : Bool :=
  elems.all (fun e => match e with | .lit _ p _ => p | _ => false)

/-- the `len(n.List) == 1` arm of the count (functions.go:1102-1111 / 1313-1321) -/
def inSingleCount (list : List Expr) (trailingComma : Bool) : Nat :=
  match list with
  | [.tup _ _] => 1 + 1
  | _ => if trailingComma then 1 + 1 else 1 + list.length

/-- `argCount` of explainInExpr (functions.go:1094-1116) / explainInExprWithAlias (1307-1339), `n.Query == nil` -/
def inArgCount (withAlias : Bool) (list : List Expr) (trailingComma : Bool) : Nat :=
  if canBeTupleLiteral withAlias list then 1 + 1
  else if list.length = 1 then inSingleCount list trailingComma
  else if withAlias && allStringLiterals list then 1 + list.length
  else 1 + 1

/-- `fnName` of explainInExpr (functions.go:1013-1019): `strings.Title` of `in` / `notIn` -/
def inFnName (not global : Bool) : Bytes :=
  if global then (if not then b "globalNotIn" else b "globalIn") else (if not then b "notIn" else b "in")

/-! ## negated literals and `::` operands -/

/-- the folding of `-<literal>` into a literal line.  `none`: not folded (the `Function negate` form follows);
`some (some t)`: `Literal t`; `some none`: a path that is not modelled.
* `al = none`: explainUnaryExpr (expressions.go:529-582): only for an unparenthesised literal;
* `al = some _`: explainAliasedExpr (expressions.go:764-794): parenthesised or not, no `-0` normalisation, no string case. -/
def unaryFold (al : Option Bytes) (op : String) (e : Expr) : Option (Option Bytes) :=
  if op = "-" then
    match al, e with
    | none, .lit v par _ =>
      if par then none
      else match v with
        | .int64 val => some (negInt64Text val)
        | .uint64 val f => some (some (negUint64Text val f))
        | .float t => some (some (b "Float64_" ++ negFloatText t))
        | .str _ isBigInt => if isBigInt then some none else none     -- strconv.ParseFloat(strVal, 64)
        | _ => none
    | some _, .lit v _ _ =>
      match v with
      | .int64 val => if val = minInt64 then some none else some (some (b "Int64_" ++ intText (-val)))
      | .uint64 val f =>
        if val ≤ 9223372036854775808 then some (some (b "Int64_-" ++ showDec val))
        else some (some (b "Float64_" ++ negFloatText f))
      | .float t => some (some (b "Float64_" ++ negFloatText t))
      | _ => none
    | _, _ => none
  else none

/-- `formatExprAsString` (format.go:544-565) on an integer literal -/
def intAsString (v : Scalar) (negative : Bool) : Option Bytes :=
  match v with
  | .int64 val => some (if negative then (if val < 0 then intText val else 45 :: intText val) else intText val)
  | .uint64 val _ => some (if negative then 45 :: showDec val else showDec val)
  | _ => none

/-- the first argument of CAST under `OperatorSyntax` (functions.go:618-657).  `none`: `Node(sb, n.Expr, depth+2)`;
`some (some t)`: the line `Literal t`; `some none`: not modelled (floats print their `Source` / `%v`; arrays and tuples
go through `formatExprAsString`). -/
def castOperand : Expr → Option (Option Bytes)
  | .lit v _ negative =>
    match v with
    | .null => some (some (b "NULL"))
    | .bool x => some (some (if x then b "Bool_1" else b "Bool_0"))
    | .str s _ => some (some (StrLit.formatStringLiteral s))
    | .float _ => some none
    | v => (intAsString v negative).map (fun t => some (b "\\'" ++ t ++ b "\\'"))
  | .arr _ _ => some none
  | .tup _ _ => some none
  | .unary op (.lit v _ negative) =>
    -- extractNegatedLiteral (functions.go:993-1009)
    if op = "-" then
      match v with
      | .float _ => some none
      | v => match intAsString v negative with
        | some t => some (some (b "\\'-" ++ t ++ b "\\'"))
        | none => none
    else none
  | _ => none

/-- the single-element arm of explainInExpr (functions.go:1131-1186) / explainInExprWithAlias (1352-1363), given what the
recursive calls print: `xAt2` = `Node(sb, n.List[0], depth+2)`, `xAt4` = `Node(sb, n.List[0], depth+4)`,
`tupAt2` = `explainTupleInInList(sb, lit, indent+" ", depth+2)`, `elemsAt4` = `for … elems { Node(sb, elem, depth+4) }`
(thunks: only the one the Go code reaches is evaluated).  `d` is the depth of the IN node. -/
def inSingle (withAlias tc : Bool) (x : Expr) (d : Nat) (xAt2 xAt4 tupAt2 elemsAt4 : Unit → List Item) : List Item :=
  match x with
  | .tup elems _ =>
    if withAlias then tupAt2 ()
    else
      fnItem (d + 2) (b "tuple") none 1 ::
        (if allParenthesizedPrimitives elems then elMaybe (d + 3) elems.length :: elemsAt4 ()
         else elItem (d + 3) 1 :: xAt4 ())
  | _ =>
    if tc then fnItem (d + 2) (b "tuple") none 1 :: elItem (d + 3) 1 :: xAt4 ()
    else xAt2 ()

/-! ## the printer -/

mutual
/-- what `Node(sb, e, d)` writes (explain.go:106; `al`, `m`: see the file header) -/
def items : Mode → Option Bytes → Expr → Nat → List Item
  /- explainIdentifier (expressions.go:57-64); AliasedExpr: expressions.go:809-811 -/
  | _, al, .ident parts alias, d =>
    match al with
    | none => [identItem d (formatIdentifierName parts) (optAlias escapeAlias alias)]
    | some a => [identItem d (identName parts) (some (escapeAlias a))]
  /- explainLiteral (expressions.go:96-247), scalar: line 246; AliasedExpr: expressions.go:735 -/
  | _, al, .lit v _ _, d => [litItem d v.text (al.map escapeAlias)]
  /- explainLiteral, LiteralArray (expressions.go:163-246); AliasedExpr: expressions.go:649-735 -/
  | _, al, .arr es p, d =>
    match al with
    | none =>
      if es.isEmpty then [fnItem d (b "array") none 1, elBare (d + 1)]
      else if arrayNeedsFunction es then
        fnItem d (b "array") none 1 :: elItem (d + 1) es.length :: itemsList es (d + 2)
      else
        match formatLiteral (.arr es p) with
        | some t => [litItem d t none]
        | none => [unsup d "format-array-literal"]
    | some a =>
      if aliasedArrayNeedsFunction es then
        fnItem d (b "array") (some (escapeAlias a)) 1 :: elMaybe (d + 1) es.length :: itemsList es (d + 2)
      else
        match formatLiteral (.arr es p) with
        | some t => [litItem d t (some (escapeAlias a))]
        | none => [unsup d "format-array-literal"]
  /- explainLiteral, LiteralTuple (expressions.go:98-161); AliasedExpr: expressions.go:607-647, 735 -/
  | _, al, .tup es p, d =>
    match al with
    | none =>
      if es.isEmpty then [fnItem d (b "tuple") none 1, elBare (d + 1)]
      else if es.length = 1 || tupleNeedsFunction es then
        fnItem d (b "tuple") none 1 :: elItem (d + 1) es.length :: itemsList es (d + 2)
      else
        match formatLiteral (.tup es p) with
        | some t => [litItem d t none]
        | none => [unsup d "format-tuple-literal"]
    | some a =>
      if aliasedTupleNeedsFunction es then
        fnItem d (b "tuple") (some (escapeAlias a)) 1 :: elMaybe (d + 1) es.length :: itemsList es (d + 2)
      else
        match formatLiteral (.tup es p) with
        | some t => [litItem d t (some (escapeAlias a))]
        | none => [unsup d "format-tuple-literal"]
  /- explainFunctionCall / explainFunctionCallWithAlias (functions.go:113-218) -/
  | _, al, .func name args params distinct alias, d =>
    match specialFunction name args with
    | some why => [unsup d why]
    | none =>
      fnItem d (normalizeFunctionName name ++ (if distinct then b "Distinct" else []))
          (optAlias escapeAlias (match al with | some a => a | none => alias))
          (1 + (match params with | some _ => 1 | none => 0))
        :: elMaybe (d + 1) args.length :: (itemsList args (d + 2) ++
          (match params with
           | none => []
           | some ps => elMaybe (d + 1) ps.length :: itemsList ps (d + 2)))
  /- explainBinaryExpr (expressions.go:447-478); AliasedExpr: expressions.go:736-760 -/
  | m, al, .binary op l r p, d =>
    if m.flat op p then items m none l d ++ items m none r d
    else
      match binFn op with
      | none => [unsup d "binary-operator"]
      | some fn =>
        fnItem d fn (al.map escapeAlias) 1 :: elItem (d + 1) (binaryCount op l r)
          :: (items (modeFor op) none l (d + 2) ++ items (modeFor op) none r (d + 2))
  /- explainUnaryExpr (expressions.go:526-588); AliasedExpr: expressions.go:761-799 -/
  | _, al, .unary op e, d =>
    match unaryFold al op e with
    | some (some t) => [litItem d t (al.map escapeAlias)]
    | some none => [unsup d "negated-literal"]
    | none =>
      match unFn op with
      | none => [unsup d "unary-operator"]
      | some fn => fnItem d fn (al.map escapeAlias) 1 :: elItem (d + 1) 1 :: items .node none e (d + 2)
  /- explainArrayAccess / …WithAlias (functions.go:1400-1418) -/
  | _, al, .arrayAccess a i, d =>
    fnItem d (b "arrayElement") (al.bind (optAlias id)) 1 :: elItem (d + 1) 2
      :: (items .node none a (d + 2) ++ items .node none i (d + 2))
  /- explainTupleAccess / …WithAlias (functions.go:1420-1438) -/
  | _, al, .tupleAccess t i, d =>
    fnItem d (b "tupleElement") (al.bind (optAlias id)) 1 :: elItem (d + 1) 2
      :: (items .node none t (d + 2) ++ items .node none i (d + 2))
  /- explainIsNullExpr / …WithAlias (functions.go:1554-1571) -/
  | _, al, .isNull e not, d =>
    fnItem d (if not then b "isNotNull" else b "isNull") (al.bind (optAlias id)) 1 :: elItem (d + 1) 1
      :: items .node none e (d + 2)
  /- explainBetweenExpr (functions.go:1478-1510); AliasedExpr has no arm for it: `default: Node(sb, n.Expr, depth)`
     (expressions.go:854-856), the alias is not printed -/
  | _, _, .between e lo hi not, d =>
    fnItem d (if not then b "or" else b "and") none 1 :: elItem (d + 1) 2
      :: (fnItem (d + 2) (if not then b "less" else b "greaterOrEquals") none 1 :: elItem (d + 3) 2
            :: (items .node none e (d + 4) ++ items .node none lo (d + 4)))
      ++ (fnItem (d + 2) (if not then b "greater" else b "lessOrEquals") none 1 :: elItem (d + 3) 2
            :: (items .node none e (d + 4) ++ items .node none hi (d + 4)))
  /- explainInExpr (functions.go:1011-1212) / explainInExprWithAlias (1234-1389), `n.Query == nil` -/
  | _, al, .inList e list not global tc, d =>
    fnItem d (inFnName not global) (al.bind (optAlias id)) 1 :: elItem (d + 1) (inArgCount al.isSome list tc)
      :: (items .node none e (d + 2) ++
          (if canBeTupleLiteral al.isSome list then
             -- FormatLiteral(&ast.Literal{Type: LiteralTuple, Value: n.List})
             (match formatTupleElems list with
              | some ps => [litItem (d + 2) (tupleText ps) none]
              | none => [unsup (d + 2) "format-in-list"])
           else
             match list with
             | [x] =>
               inSingle al.isSome tc x d (fun _ => items .node none x (d + 2)) (fun _ => items .node none x (d + 4))
                 (fun _ => tupleInInList x (d + 2)) (fun _ => tupleElems x (d + 4))
             | list =>
               fnItem (d + 2) (b "tuple") none 1 :: elItem (d + 3) list.length ::
                 (if list.all Expr.isTup then tuplesInInList list (d + 4) else itemsList list (d + 4))))
  /- explainCaseExpr / …WithAlias (functions.go:1573-1621) -/
  | _, al, .case_ operand whens els alias, d =>
    match operand with
    | some o =>
      fnItem d (b "caseWithExpression") (optAlias id (match al with | some a => a | none => alias)) 1
        :: elItem (d + 1) (1 + whens.length * 2 + 1)
        :: (items .node none o (d + 2) ++ itemsWhens whens (d + 2) ++
            (match els with
             | some x => items .node none x (d + 2)
             | none => [litItem (d + 2) (b "NULL") none]))
    | none =>
      fnItem d (b "multiIf") (optAlias id (match al with | some a => a | none => alias)) 1
        :: elItem (d + 1) (whens.length * 2 + 1)
        :: (itemsWhens whens (d + 2) ++
            (match els with
             | some x => items .node none x (d + 2)
             | none => [litItem (d + 2) (b "NULL") none]))
  /- explainCastExpr / …WithAlias (functions.go:591-674) -/
  | _, al, .cast e ty opSyntax alias, d =>
    fnItem d (b "CAST") (optAlias id (match al with | some a => a | none => alias)) 1 :: elItem (d + 1) 2
      :: ((if opSyntax then
            (match castOperand e with
             | some (some t) => [litItem (d + 2) t none]
             | some none => [unsup (d + 2) "cast-operator-literal"]
             | none => items .node none e (d + 2))
           else items .node none e (d + 2))
          ++ [litItem (d + 2) (b "\\'" ++ ty ++ b "\\'") none])
  /- the same with `n.TypeExpr != nil` (functions.go:662-663): `Node(sb, n.TypeExpr, depth+2)` -/
  | _, al, .castDyn e tyExpr opSyntax alias, d =>
    fnItem d (b "CAST") (optAlias id (match al with | some a => a | none => alias)) 1 :: elItem (d + 1) 2
      :: ((if opSyntax then
            (match castOperand e with
             | some (some t) => [litItem (d + 2) t none]
             | some none => [unsup (d + 2) "cast-operator-literal"]
             | none => items .node none e (d + 2))
           else items .node none e (d + 2))
          ++ items .node none tyExpr (d + 2))
  /- explainLambda / …WithAlias (functions.go:564-589) -/
  | _, al, .lambda params body, d =>
    fnItem d (b "lambda") (al.bind (optAlias id)) 1 :: elItem (d + 1) 2
      :: fnItem (d + 2) (b "tuple") none 1
      :: ((if params.length > 0 then
             elItem (d + 3) params.length :: params.map (fun p => identItem (d + 4) p none)
           else [elBare (d + 3)])
          ++ items .node none body (d + 2))
  /- explainTernaryExpr (functions.go:1391-1398); AliasedExpr: expressions.go:815-821 -/
  | _, al, .ternary c t e, d =>
    fnItem d (b "if") (al.map escapeAlias) 1 :: elItem (d + 1) 3
      :: (items .node none c (d + 2) ++ items .node none t (d + 2) ++ items .node none e (d + 2))
  /- explainAliasedExpr (expressions.go:600-858): dispatch on `n.Expr`; an AliasedExpr inside an AliasedExpr takes the
     `default:` arm, `Node(sb, n.Expr, depth)`, which prints the inner one -/
  | _, _, .aliased e a, d => items .node (some a) e d
  | _, _, .other k, d => [unsup d k]
/-- `for _, arg := range xs { Node(sb, arg, depth) }` -/
def itemsList : List Expr → Nat → List Item
  | [], _ => []
  | e :: es, d => items .node none e d ++ itemsList es d
/-- `for _, w := range n.Whens { Node(sb, w.Condition, depth+2); Node(sb, w.Result, depth+2) }` -/
def itemsWhens : List (Expr × Expr) → Nat → List Item
  | [], _ => []
  | (c, r) :: ws, d => items .node none c d ++ items .node none r d ++ itemsWhens ws d
/-- `explainTupleInInList` (functions.go:1215-1232); `d` = the length of `indent + " "` -/
def tupleInInList : Expr → Nat → List Item
  | .tup elems p, d =>
    if primWithUnaryL elems then
      match formatLiteral (.tup elems p) with
      | some t => [litItem d t none]
      | none => [unsup d "format-tuple-literal"]
    else fnItem d (b "tuple") none 1 :: elItem (d + 1) elems.length :: itemsList elems (d + 2)
  | _, d => [unsup d "tuple-in-list"]
/-- `for _, elem := range elems { Node(sb, elem, depth) }` for the elements of a tuple literal -/
def tupleElems : Expr → Nat → List Item
  | .tup elems _, d => itemsList elems d
  | _, _ => []
/-- `for _, item := range n.List { explainTupleInInList(sb, item.(*ast.Literal), …) }` -/
def tuplesInInList : List Expr → Nat → List Item
  | [], _ => []
  | e :: es, d => tupleInInList e d ++ tuplesInInList es d
end

/-! ## the entry point -/

/-- the first placeholder, if any -/
def firstUnsupported : List Item → Option String
  | [] => none
  | i :: is => match i.why? with
    | some w => some w
    | none => firstUnsupported is

/-- the labels of the items printed without a count -/
def bareLabels (its : List Item) : List Bytes := (its.filter (fun i => i.cnt.isNone)).map Item.label

/-- a label does not itself end in ` (children <digits>)` -/
def noFake (l : Bytes) : Bool := (splitCountRev l.reverse).isNone

/-- no line printed without a count ends in ` (children <digits>)` (an identifier named `x (children 3)`, an alias
`a (children 1`): such a line cannot be told from a counted one.  The labels do not depend on the depth. -/
def plainLabels (e : Expr) : Bool := (bareLabels (items .node none e 0)).all noFake

/-- **the model of `Node(sb, e, d)`** for an expression of the core: the lines written, or the reason why the
expression is outside the model. -/
def explainExpr (e : Expr) (d : Nat) : Except String (List Line) :=
  match firstUnsupported (items .node none e d) with
  | some w => .error w
  | none => .ok ((items .node none e d).map Item.toLine)

/-! ## driver: `xexpr <prefix encoding of the Expr, one token per argument>`

```
E ::= I <n> <hex part>*n <hex alias>              Identifier
    | L <scalar> <par> <negative>                 Literal; scalar ::= i <dec> | j <dec> (= -dec) | u <dec> <hex float text>
                                                  | f <hex text> | s <hex> <isBigInt> | b0 | b1 | n
    | A <par> <n> E*n | T <par> <n> E*n           array / tuple literal
    | F <hex name> <distinct> <hex alias> <n> E*n (- | <k> E*k)      FunctionCall, Parameters nil or k of them
    | B <hex op> <par> E E | U <hex op> E | AA E E | TA E E | N <not> E | BT <not> E E E
    | IN <not> <global> <trailingComma> <n> E E*n
    | C (0 | 1 E) <n> (E E)*n (0 | 1 E) <hex alias>
    | CT <operatorSyntax> <hex type text> <hex alias> E | CD <operatorSyntax> <hex alias> E E   (CastExpr with Type / TypeExpr)
    | LM <n> <hex param>*n E | Q E E E | AL <hex alias> E | X <hex kind>
```
Booleans are `0`/`1`. Answer: `ok <hex line>,<hex line>,… (plain | fake-count-label)` (the second word: `plainLabels`) or
`unsupported <why>`; ill-formed requests answer `bad-arg`. -/

def decBool : String → Option Bool
  | "0" => some false
  | "1" => some true
  | _ => none

def decStr (h : String) : Option String := do
  let bs ← Hex.decode h
  String.fromUTF8? (ByteArray.mk bs.toArray)

def takeHex : Nat → List String → Option (List Bytes × List String)
  | 0, toks => some ([], toks)
  | n + 1, t :: toks => do
    let x ← Hex.decode t
    let (xs, r) ← takeHex n toks
    some (x :: xs, r)
  | _ + 1, [] => none

def decScalar : List String → Option (Scalar × List String)
  | "i" :: n :: r => do some (.int64 (Int.ofNat (← n.toNat?)), r)
  | "j" :: n :: r => do some (.int64 (-(Int.ofNat (← n.toNat?))), r)
  | "u" :: n :: f :: r => do some (.uint64 (← n.toNat?) (← Hex.decode f), r)
  | "f" :: t :: r => do some (.float (← Hex.decode t), r)
  | "s" :: h :: g :: r => do some (.str (← Hex.decode h) (← decBool g), r)
  | "b0" :: r => some (.bool false, r)
  | "b1" :: r => some (.bool true, r)
  | "n" :: r => some (.null, r)
  | _ => none

mutual
def dec : Nat → List String → Option (Expr × List String)
  | 0, _ => none
  | fuel + 1, toks =>
    match toks with
    | "I" :: n :: r => do
      let (parts, r) ← takeHex (← n.toNat?) r
      match r with
      | a :: r => some (.ident parts (← Hex.decode a), r)
      | [] => none
    | "L" :: r => do
      let (v, r) ← decScalar r
      match r with
      | p :: g :: r => some (.lit v (← decBool p) (← decBool g), r)
      | _ => none
    | "A" :: p :: n :: r => do
      let (es, r) ← decList fuel (← n.toNat?) r
      some (.arr es (← decBool p), r)
    | "T" :: p :: n :: r => do
      let (es, r) ← decList fuel (← n.toNat?) r
      some (.tup es (← decBool p), r)
    | "F" :: name :: dist :: al :: n :: r => do
      let (args, r) ← decList fuel (← n.toNat?) r
      match r with
      | "-" :: r => some (.func (← Hex.decode name) args none (← decBool dist) (← Hex.decode al), r)
      | k :: r => do
        let (ps, r) ← decList fuel (← k.toNat?) r
        some (.func (← Hex.decode name) args (some ps) (← decBool dist) (← Hex.decode al), r)
      | [] => none
    | "B" :: op :: p :: r => do
      let (l, r) ← dec fuel r
      let (x, r) ← dec fuel r
      some (.binary (← decStr op) l x (← decBool p), r)
    | "U" :: op :: r => do
      let (x, r) ← dec fuel r
      some (.unary (← decStr op) x, r)
    | "AA" :: r => do
      let (x, r) ← dec fuel r
      let (y, r) ← dec fuel r
      some (.arrayAccess x y, r)
    | "TA" :: r => do
      let (x, r) ← dec fuel r
      let (y, r) ← dec fuel r
      some (.tupleAccess x y, r)
    | "N" :: n :: r => do
      let (x, r) ← dec fuel r
      some (.isNull x (← decBool n), r)
    | "BT" :: n :: r => do
      let (x, r) ← dec fuel r
      let (lo, r) ← dec fuel r
      let (hi, r) ← dec fuel r
      some (.between x lo hi (← decBool n), r)
    | "IN" :: n :: g :: tc :: k :: r => do
      let (x, r) ← dec fuel r
      let (es, r) ← decList fuel (← k.toNat?) r
      some (.inList x es (← decBool n) (← decBool g) (← decBool tc), r)
    | "C" :: r => do
      let (operand, r) ← decOpt fuel r
      match r with
      | k :: r => do
        let (ws, r) ← decWhens fuel (← k.toNat?) r
        let (els, r) ← decOpt fuel r
        match r with
        | a :: r => some (.case_ operand ws els (← Hex.decode a), r)
        | [] => none
      | [] => none
    | "CT" :: os :: ty :: al :: r => do
      let (x, r) ← dec fuel r
      some (.cast x (← Hex.decode ty) (← decBool os) (← Hex.decode al), r)
    | "CD" :: os :: al :: r => do
      let (x, r) ← dec fuel r
      let (t, r) ← dec fuel r
      some (.castDyn x t (← decBool os) (← Hex.decode al), r)
    | "LM" :: n :: r => do
      let (ps, r) ← takeHex (← n.toNat?) r
      let (x, r) ← dec fuel r
      some (.lambda ps x, r)
    | "Q" :: r => do
      let (c, r) ← dec fuel r
      let (t, r) ← dec fuel r
      let (e, r) ← dec fuel r
      some (.ternary c t e, r)
    | "AL" :: al :: r => do
      let (x, r) ← dec fuel r
      some (.aliased x (← Hex.decode al), r)
    | "X" :: k :: r => do some (.other (← decStr k), r)
    | _ => none
def decList : Nat → Nat → List String → Option (List Expr × List String)
  | 0, _, _ => none
  | _ + 1, 0, toks => some ([], toks)
  | fuel + 1, n + 1, toks => do
    let (e, r) ← dec fuel toks
    let (es, r) ← decList fuel n r
    some (e :: es, r)
def decOpt : Nat → List String → Option (Option Expr × List String)
  | 0, _ => none
  | _ + 1, "0" :: r => some (none, r)
  | fuel + 1, "1" :: r => do
    let (e, r) ← dec fuel r
    some (some e, r)
  | _ + 1, _ => none
def decWhens : Nat → Nat → List String → Option (List (Expr × Expr) × List String)
  | 0, _, _ => none
  | _ + 1, 0, toks => some ([], toks)
  | fuel + 1, n + 1, toks => do
    let (c, r) ← dec fuel toks
    let (x, r) ← dec fuel r
    let (ws, r) ← decWhens fuel n r
    some ((c, x) :: ws, r)
end

def decode (toks : List String) : Option Expr :=
  match dec (2 * toks.length + 4) toks with
  | some (e, []) => some e
  | _ => none

def handle (op : String) (args : List String) : Option String :=
  if op == "xexpr" then
    match decode args with
    | none => some "bad-arg"
    | some e =>
      match explainExpr e 0 with
      | .error w => some ("unsupported " ++ w)
      | .ok ls => some ("ok " ++ ",".intercalate (ls.map Hex.encode) ++ (if plainLabels e then " plain" else " fake-count-label"))
  else none

end DC.Model.ExplainExpr
