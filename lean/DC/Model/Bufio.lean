import DC.Prelude.Hex
import DC.Prelude.Utf8B

/-!
# `bufio.Reader` as the lexer uses it, over a scripted `io.Reader`

Mirror of `$GOROOT/src/bufio/bufio.go` (go1.25.0): `NewReaderSize` (bufio.go:50), `fill` (bufio.go:99), `readErr`
(bufio.go:129), `Peek` (bufio.go:143), `ReadRune` (bufio.go:306) — the only `bufio.Reader` methods
`/repo/lexer/lexer.go` calls (`ReadRune` in `readChar` lexer.go:47, `Peek` in `peek` lexer.go:74).
The lexer's own wrappers `recordErr` (lexer.go:66), `peek` (lexer.go:73) and the `eof` rule of `readChar`
(lexer.go:41-53) are mirrored at the end (`Client`).

Core-only and executable: the driver op `bufio` runs this model, `/verif/harness/p_c14.go` compares it op by op
with the real `bufio.Reader`.
-/
namespace DC.Bufio
open DC

/-- Go `error` values that can travel through the reader. `eof = io.EOF`, `other id` = any error value that is
neither `io.EOF` nor one of the two sentinels below (`id` is its identity: `==` on the Go side),
`noProgress = io.ErrNoProgress` (made by `fill`), `bufferFull = bufio.ErrBufferFull` (made by `Peek`).
An underlying reader may return any of the four (nothing stops a reader from returning `bufio.ErrBufferFull`). -/
inductive Err where
  | eof
  | other (id : Nat)
  | noProgress
  | bufferFull
  deriving DecidableEq, Repr, Inhabited

/-- One scripted answer of the underlying `io.Reader`: some bytes and possibly an error delivered with the
last of them. -/
structure Ev where
  data : Bytes
  err : Option Err
  deriving DecidableEq, Repr, Inhabited

/-- The underlying reader: the events it still has to deliver. -/
abbrev Script := List Ev

/-- One `Read(p)` with `len(p) = k` on the scripted reader: the head event is delivered whole (with its error) if
it fits, otherwise its first `k` bytes are delivered with a nil error and the rest (with the error) stays at the
head. An exhausted script answers `(0, io.EOF)` forever. Returns `((bytes, err), script')`. -/
def sread (k : Nat) : Script → (Bytes × Option Err) × Script
  | [] => (([], some .eof), [])
  | ev :: rest =>
    if ev.data.length ≤ k then ((ev.data, ev.err), rest)
    else ((ev.data.take k, none), { data := ev.data.drop k, err := ev.err } :: rest)

/-- `bufio.defaultBufSize` (bufio.go:19) -/
def defaultBufSize : Nat := 4096
/-- `bufio.minReadBufferSize` (bufio.go:44) -/
def minReadBufferSize : Nat := 16
/-- `bufio.maxConsecutiveEmptyReads` (bufio.go:45) -/
def maxConsecutiveEmptyReads : Nat := 100

/-- `bufio.Reader` (bufio.go:34). `buf` is the unread part `b.buf[b.r:b.w]`; `cap = len(b.buf)`; `b.w = r + buf.length`.
`lastByte`/`lastRuneSize` serve `UnreadByte`/`UnreadRune` only, which the lexer never calls: omitted.
`panicked` records the `panic("bufio: tried to fill full buffer")` of `fill` (proved unreachable: `DC.Proofs.Bufio`).
`log` is a ghost field (not in Go): every error value `fill` stored into `b.err`, oldest first. -/
structure BR where
  rd : Script
  cap : Nat
  buf : Bytes
  r : Nat
  err : Option Err
  panicked : Bool
  log : List Err
  deriving DecidableEq, Repr, Inhabited

/-- `b.w` -/
def BR.w (b : BR) : Nat := b.r + b.buf.length

/-- `NewReaderSize(rd, size)` (bufio.go:50) for an `rd` that is not itself a `*bufio.Reader`. -/
def newReaderSize (rd : Script) (size : Nat) : BR :=
  { rd := rd, cap := max size minReadBufferSize, buf := [], r := 0, err := none, panicked := false, log := [] }

/-- `NewReader(rd)` (bufio.go:62) -/
def newReader (rd : Script) : BR := newReaderSize rd defaultBufSize

/-- the read loop of `fill` (bufio.go:112-126): `i` tries left; `b.r = 0` here, so `b.buf[b.w:]` has
`cap - buf.length` bytes. -/
def fillLoop : Nat → BR → BR
  | 0, b => { b with err := some .noProgress, log := b.log ++ [.noProgress] }
  | i + 1, b =>
    let res := sread (b.cap - b.buf.length) b.rd
    let b' := { b with rd := res.2, buf := b.buf ++ res.1.1 }
    match res.1.2 with
    | some e => { b' with err := some e, log := b'.log ++ [e] }
    | none => if res.1.1.length > 0 then b' else fillLoop i b'

/-- `fill` (bufio.go:99): slide, panic if full, then up to 100 reads. -/
def fill (b : BR) : BR :=
  let b := { b with r := 0 }                      -- bufio.go:101-105 slide existing data to the beginning
  if b.buf.length ≥ b.cap then { b with panicked := true }   -- bufio.go:107-109
  else fillLoop maxConsecutiveEmptyReads b

/-- `readErr` (bufio.go:129): returns the stored error and clears it. -/
def readErr (b : BR) : Option Err × BR := (b.err, { b with err := none })

/-- termination measure of the two fill loops: an error ends them, otherwise the buffer grows. -/
def BR.room (b : BR) : Nat := if b.err.isSome || b.panicked then 0 else b.cap - b.buf.length + 1

theorem sread_len (k : Nat) (s : Script) : (sread k s).1.1.length ≤ k := by
  cases s with
  | nil => simp [sread]
  | cons ev rest =>
    simp only [sread]
    split <;> simp_all <;> omega

theorem fillLoop_room (i : Nat) (b : BR) (h : b.buf.length < b.cap) (he : b.err = none) (hp : b.panicked = false) :
    (fillLoop i b).room < b.room := by
  induction i generalizing b with
  | zero => simp [fillLoop, BR.room, he, hp]
  | succ i ih =>
    simp only [fillLoop]
    have hl := sread_len (b.cap - b.buf.length) b.rd
    split
    · simp [BR.room, he, hp]
    · split
      · simp only [BR.room, he, hp, List.length_append]
        simp
        omega
      · next h0 =>
        have h0' : (sread (b.cap - b.buf.length) b.rd).1.1 = [] := by
          apply List.eq_nil_of_length_eq_zero; omega
        have := ih { b with rd := (sread (b.cap - b.buf.length) b.rd).2, buf := b.buf ++ (sread (b.cap - b.buf.length) b.rd).1.1 }
          (by simp [h0']; exact h) he hp
        simpa [BR.room, h0', he, hp] using this

theorem fill_room (b : BR) (h : b.buf.length < b.cap) (he : b.err = none) (hp : b.panicked = false) :
    (fill b).room < b.room := by
  unfold fill
  simp only [ge_iff_le]
  rw [if_neg (by simp; exact h)]
  have := fillLoop_room maxConsecutiveEmptyReads { b with r := 0 } h he hp
  simpa [BR.room] using this

/-- the loop of `Peek` (bufio.go:151): `for b.w-b.r < n && b.w-b.r < len(b.buf) && b.err == nil { b.fill() }`.
(`panicked` is part of the guard only to make the definition total; it is never set, see `peekLoop_ok`.) -/
def peekLoop (n : Nat) (b : BR) : BR :=
  if h : b.buf.length < n ∧ b.buf.length < b.cap ∧ b.err = none ∧ b.panicked = false then peekLoop n (fill b) else b
termination_by b.room
decreasing_by exact fill_room b h.2.1 h.2.2.1 h.2.2.2

/-- `Peek(n)` for `n ≥ 0` (bufio.go:143). Result `(bytes, err)`. -/
def peek (n : Nat) (b : BR) : (Bytes × Option Err) × BR :=
  let b := peekLoop n b
  if n > b.cap then ((b.buf, some .bufferFull), b)          -- bufio.go:155
  else if b.buf.length < n then                              -- bufio.go:161 avail < n
    let e := readErr b
    ((b.buf, some (e.1.getD .bufferFull)), e.2)              -- bufio.go:164-168
  else ((b.buf.take n, none), b)

/-- the loop of `ReadRune` (bufio.go:307):
`for b.r+utf8.UTFMax > b.w && !utf8.FullRune(b.buf[b.r:b.w]) && b.err == nil && b.w-b.r < len(b.buf) { b.fill() }` -/
def rrLoop (b : BR) : BR :=
  if h : b.buf.length < Utf8B.utfMax ∧ Utf8B.fullRune b.buf = false ∧ b.err = none ∧ b.buf.length < b.cap ∧ b.panicked = false
  then rrLoop (fill b) else b
termination_by b.room
decreasing_by exact fill_room b h.2.2.2.1 h.2.2.1 h.2.2.2.2

/-- the decoding step of `ReadRune` (bufio.go:314-317) on a non-empty buffer -/
def decodeHead (buf : Bytes) : Nat × Nat :=
  match buf with
  | [] => (0, 0)
  | c :: _ => if c.toNat ≥ 0x80 then Utf8B.decodeRune buf else (c.toNat, 1)

/-- result of `ReadRune`: `(rune, size, err)` -/
structure RuneRes where
  rune : Nat
  size : Nat
  err : Option Err
  deriving DecidableEq, Repr, Inhabited

/-- `ReadRune()` (bufio.go:306). -/
def readRune (b : BR) : RuneRes × BR :=
  let b := rrLoop b
  if b.buf.isEmpty then                                       -- bufio.go:311 b.r == b.w
    let e := readErr b
    ({ rune := 0, size := 0, err := e.1 }, e.2)
  else
    let d := decodeHead b.buf
    ({ rune := d.1, size := d.2, err := none }, { b with r := b.r + d.2, buf := b.buf.drop d.2 })

/-! ## The interface the lexer uses, and the pure reader -/

/-- the two operations the lexer issues -/
inductive Op where
  | readRune
  | peek (n : Nat)
  deriving DecidableEq, Repr, Inhabited

/-- what an operation returns -/
inductive Res where
  | rune (r : RuneRes)
  | bytes (bs : Bytes) (err : Option Err)
  deriving DecidableEq, Repr, Inhabited

def Res.err : Res → Option Err
  | .rune r => r.err
  | .bytes _ e => e

def step (op : Op) (b : BR) : Res × BR :=
  match op with
  | .readRune => let r := readRune b; (.rune r.1, r.2)
  | .peek n => let r := peek n b; (.bytes r.1.1 r.1.2, r.2)

/-- The pure reader: the bytes not yet consumed, the error the stream ends with (delivered once, then `io.EOF`
like an exhausted underlying reader), and the buffer size (only `Peek` sees it: at most `cap` bytes are ever
returned). -/
structure Pure where
  rest : Bytes
  fin : Err
  cap : Nat
  deriving Repr, Inhabited

def Pure.readRune (p : Pure) : RuneRes × Pure :=
  if p.rest.isEmpty then ({ rune := 0, size := 0, err := some p.fin }, { p with fin := .eof })
  else
    let d := Utf8B.decodeRune p.rest
    ({ rune := d.1, size := d.2, err := none }, { p with rest := p.rest.drop d.2 })

def Pure.peek (n : Nat) (p : Pure) : (Bytes × Option Err) × Pure :=
  if n > p.cap then ((p.rest.take p.cap, some .bufferFull), p)
  else if p.rest.length < n then ((p.rest, some p.fin), { p with fin := .eof })
  else ((p.rest.take n, none), p)

def Pure.step (op : Op) (p : Pure) : Res × Pure :=
  match op with
  | .readRune => let r := p.readRune; (.rune r.1, r.2)
  | .peek n => let r := p.peek n; (.bytes r.1.1 r.1.2, r.2)

/-- run a list of operations, collecting the results -/
def run (ops : List Op) (b : BR) : List Res × BR :=
  match ops with
  | [] => ([], b)
  | op :: rest =>
    let r := step op b
    let rs := run rest r.2
    (r.1 :: rs.1, rs.2)

def Pure.run (ops : List Op) (p : Pure) : List Res × Pure :=
  match ops with
  | [] => ([], p)
  | op :: rest =>
    let r := p.step op
    let rs := Pure.run rest r.2
    (r.1 :: rs.1, rs.2)

/-! ## The lexer's wrappers (lexer.go:41-83) -/

/-- `recordErr` (lexer.go:66): keep the first error that is not nil and not `io.EOF`. -/
def recordErr (rec : Option Err) (e : Option Err) : Option Err :=
  match e with
  | none => rec
  | some .eof => rec
  | some e' => if rec.isNone then some e' else rec

/-- `Reader.Size()` (bufio.go:67): `len(b.buf)`, a pure getter. -/
def BR.size (b : BR) : Nat := b.cap

/-- the reader-facing part of `Lexer` (lexer.go:15): `reader`, `eof`, `err`. -/
structure Client where
  b : BR
  eof : Bool
  err : Option Err
  deriving DecidableEq, Repr, Inhabited

/-- `lexer.New` (lexer.go:32) up to the first `readChar`. -/
def Client.new (rd : Script) : Client := { b := newReader rd, eof := false, err := none }

/-- one reader call of the lexer. `readChar` (lexer.go:41): no call once `eof`; a `ReadRune` error is recorded and
sets `eof`. `peek` (lexer.go:73) records the error of `Peek(n)` only when `n <= l.reader.Size()` (lexer.go:79): a larger
look-ahead always answers `bufio.ErrBufferFull` and leaves a pending reader error in the slot. Its callers
`peekChar`/`peekCharN` (lexer.go:90,103) return before calling once `eof` is set, the other two callers
(`isIdentifierAfterDot`, `tryReadDollarTag`) run only while `l.ch` is `.`/`$`, i.e. never after `eof`: so no operation
at all is issued once `eof`. Returns `none` for the skipped call. -/
def Client.step (op : Op) (c : Client) : Option Res × Client :=
  if c.eof then (none, c)
  else
    let r := DC.Bufio.step op c.b
    match op with
    | .readRune =>
      let c' := { c with b := r.2, err := recordErr c.err r.1.err }
      (some r.1, if r.1.err.isSome then { c' with eof := true } else c')
    | .peek n =>
      (some r.1, { c with b := r.2, err := if n ≤ r.2.size then recordErr c.err r.1.err else c.err })

def Client.run (ops : List Op) (c : Client) : Client :=
  match ops with
  | [] => c
  | op :: rest => Client.run rest (c.step op).2

/-- `recordErr` between the first fix and commit efe7a9c82: `bufio.ErrBufferFull` was filtered too. -/
def recordErrMid (rec : Option Err) (e : Option Err) : Option Err :=
  match e with
  | none => rec
  | some .eof => rec
  | some .bufferFull => rec
  | some e' => if rec.isNone then some e' else rec

/-- the code between the first fix and commit efe7a9c82: every `ReadRune`/`Peek` error goes through `recordErrMid`. -/
def Client.stepMid (op : Op) (c : Client) : Option Res × Client :=
  if c.eof then (none, c)
  else
    let r := DC.Bufio.step op c.b
    let c' := { c with b := r.2, err := recordErrMid c.err r.1.err }
    match op with
    | .readRune => (some r.1, if r.1.err.isSome then { c' with eof := true } else c')
    | .peek _ => (some r.1, c')

def Client.runMid (ops : List Op) (c : Client) : Client :=
  match ops with
  | [] => c
  | op :: rest => Client.runMid rest (c.stepMid op).2

/-- the code before the fix commit: `readChar` folded every error into `eof`, `Peek` errors were dropped,
`Lexer.err` did not exist (so `Parse` could only answer nil). -/
def Client.stepOld (op : Op) (c : Client) : Option Res × Client :=
  if c.eof then (none, c)
  else
    let r := DC.Bufio.step op c.b
    let c' := { c with b := r.2 }
    match op with
    | .readRune => (some r.1, if r.1.err.isSome then { c' with eof := true } else c')
    | .peek _ => (some r.1, c')

def Client.runOld (ops : List Op) (c : Client) : Client :=
  match ops with
  | [] => c
  | op :: rest => Client.runOld rest (c.stepOld op).2

end DC.Bufio
