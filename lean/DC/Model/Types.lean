import DC.Spec.TypeSpec

/-!
# C18 — model of type expressions in `CAST(x AS T)` and `x::T`

Token-level model (core only, executable; `Tok`, `B`, `upper`, `decimal` come from `DC.Spec.TypeSpec`) of
* `(*Parser).parseDataType` / `isDataTypeName`                (parser/parser.go:4561, 4825)
* the shapes of `parseExpression(LOWEST)` that occur as type arguments (parser/expression.go:436 ff.)
* `parseCast`'s `AS` branch and `parseCastOperator`            (parser/expression.go:1439, 2581)
* `FormatDataType`, `formatBinaryExprForType`, `formatUnaryExprForType`, `escapeStringForTypeParam`,
  `escapeStringLiteral`, `needsBacktickQuoting`                (internal/explain/format.go:313, 378, 412, 79, 49, 299)
* the type line of `explainCastExprWithAlias`                  (internal/explain/functions.go:592, lines 659-671)

The input is the token sequence the real lexer produces (whitespace and comments already dropped, as
`nextToken` does, parser.go:59): separators are a lexer matter and do not exist here.

Go strings are `DC.Bytes`.  `strings.ToUpper` is modelled by ASCII upper-casing; the entry points
(`castFnText`, `castOpText`) refuse (`unsupported`) token sequences with a non-ASCII word token, for which
`strings.ToUpper` does Unicode case mapping.

What is *not* modelled is an explicit `.unsupported` outcome, never a default value:
JSON/OBJECT parameters (`SKIP`, dotted paths, `ObjectTypeArgument`), and every expression shape other than
the ones listed at `parseArgExpr`.
-/
namespace DC.Types
open DC.Gen.Tokens

/-- token kinds the models refer to that have no named constant in `DC.Gen.Tokens`. -/
def kw (s : String) : Nat := (keywords.lookup s).getD 0
def tCOLLATE : Nat := kw "COLLATE"
def tANY : Nat := kw "ANY"
def tALL : Nat := kw "ALL"
def tINF : Nat := kw "INF"
def tREGEXP : Nat := kw "REGEXP"
def tGLOBAL : Nat := kw "GLOBAL"
def tEXCEPT : Nat := kw "EXCEPT"
def tREPLACE : Nat := kw "REPLACE"
def tAPPLY : Nat := kw "APPLY"

/-- `token.Token.IsKeyword` (token/token.go:442). -/
def isKeyword (k : Nat) : Bool := isKeywordTbl.getD k false

def eofTok : Tok := ⟨tEOF, []⟩
/-- `p.current` -/
def cur (ts : List Tok) : Tok := ts.headD eofTok
/-- `p.peek` -/
def peek (ts : List Tok) : Tok := ts.tail.headD eofTok
/-- `p.nextToken()` -/
def adv (ts : List Tok) : List Tok := ts.tail

/-- `p.currentIs(token.IDENT) || p.current.Token.IsKeyword()` -/
def isWord (t : Tok) : Bool := t.kind == tIDENT || isKeyword t.kind

def isAscii (s : Bytes) : Bool := s.all (· < 128)

/-- `isDataTypeName` (parser.go:4825): `strings.ToUpper(name)` is one of the listed names. -/
def isDataTypeName (name : Bytes) : Bool := (DC.Gen.TypeNames.names.map B).contains (upper name)

/-! ## syntax trees -/

/-- the expression nodes that occur as type arguments. -/
inductive Expr where
  /-- `*ast.Literal{Type: LiteralString}` -/
  | litStr (v : Bytes)
  /-- `*ast.Literal{Type: LiteralInteger}` holding an int64 or uint64; `%v` prints it in decimal -/
  | litInt (n : Nat)
  /-- `*ast.Identifier` with one part -/
  | ident (name : Bytes)
  /-- `*ast.UnaryExpr{Op: "-"}` -/
  | neg (e : Expr)
  /-- `*ast.BinaryExpr` -/
  | bin (op : Bytes) (l r : Expr)
deriving Repr, DecidableEq

mutual
/-- `*ast.DataType{Name, Parameters, HasParentheses}` -/
inductive DT where
  | mk (name : Bytes) (hasParens : Bool) (params : List Param)
/-- an element of `DataType.Parameters` -/
inductive Param where
  | expr (e : Expr)
  | dt (d : DT)
  /-- `*ast.NameTypePair` -/
  | ntp (name : Bytes) (d : DT)
end

def DT.name : DT → Bytes | .mk n _ _ => n
def DT.params : DT → List Param | .mk _ _ ps => ps

/-- outcome of a parsing function: a value and the remaining tokens, a recorded parse error
(`p.errors` non-empty: `Parse` returns an error, parser.go:191), or a shape outside the model. -/
inductive PRes (α : Type) where
  | ok (a : α) (rest : List Tok)
  | err
  | unsupported
deriving Repr

/-! ## numbers -/

def isDigit (b : UInt8) : Bool := 48 ≤ b && b ≤ 57

def digitsVal : Bytes → Nat → Nat
  | [], acc => acc
  | b :: bs, acc => digitsVal bs (acc * 10 + (b.toNat - 48))

/-- the value of a non-empty all-digits string. -/
def natOfDigits? (v : Bytes) : Option Nat :=
  if v ≠ [] ∧ v.all isDigit then some (digitsVal v 0) else none

/-- `parseNumber` (expression.go:988) on a token whose text is all decimal digits and fits a uint64:
`strconv.ParseInt(value, 10, 64)` or `ParseUint` succeeds, `LiteralInteger`. Other NUMBER texts
(floats, hex, too large, underscores) are outside the model. -/
def parseNumberTok (t : Tok) : Option Expr :=
  match natOfDigits? t.val with
  | some n => if n < 2 ^ 64 then some (.litInt n) else none
  | none => none

/-! ## precedence (expression.go:30-103) -/

def LOWEST : Nat := 0
def ALIAS_PREC : Nat := 1
def TERNARY_PREC : Nat := 2
def OR_PREC : Nat := 3
def AND_PREC : Nat := 4
def NOT_PREC : Nat := 5
def COMPARE : Nat := 6
def CONCAT_PREC : Nat := 7
def ADD_PREC : Nat := 8
def MUL_PREC : Nat := 9
def UNARY : Nat := 10
def CALL : Nat := 11
def HIGHEST : Nat := 12

/-- `(*Parser).precedence` (expression.go:47). -/
def precedence (k : Nat) : Nat :=
  if k == tAS then ALIAS_PREC
  else if k == tOR then OR_PREC
  else if k == tAND then AND_PREC
  else if k == tNOT then NOT_PREC
  else if k == tEQ || k == tNEQ || k == tLT || k == tGT || k == tLTE || k == tGTE || k == tLIKE || k == tILIKE
      || k == tREGEXP || k == tIN || k == tBETWEEN || k == tIS || k == tNULL_SAFE_EQ || k == tGLOBAL then COMPARE
  else if k == tQUESTION then TERNARY_PREC
  else if k == tCONCAT then CONCAT_PREC
  else if k == tPLUS || k == tMINUS then ADD_PREC
  else if k == tASTERISK || k == tSLASH || k == tPERCENT || k == tDIV || k == tMOD then MUL_PREC
  else if k == tLPAREN || k == tLBRACKET then CALL
  else if k == tEXCEPT || k == tREPLACE || k == tAPPLY then CALL
  else if k == tCOLONCOLON then CALL
  else if k == tDOT then HIGHEST
  else if k == tARROW then OR_PREC
  else LOWEST

/-- `precedenceForCurrent` (expression.go:90). -/
def precCur (ts : List Tok) : Nat :=
  if (cur ts).kind == tNUMBER && (cur ts).val.head? == some 46 then HIGHEST
  else if (cur ts).kind == tNOT &&
      ((peek ts).kind == tBETWEEN || (peek ts).kind == tIN || (peek ts).kind == tLIKE || (peek ts).kind == tILIKE
        || (peek ts).kind == tREGEXP) then COMPARE
  else precedence (cur ts).kind

/-! ## the expression shapes of type arguments -/

def startsWithAtAt (v : Bytes) : Bool := v.take 2 == [64, 64]

/-- `parsePrefixExpression` (expression.go:458) followed by the infix loop of `parseExpression(UNARY)` for
the operand of a unary minus. Modelled atoms:
* NUMBER with all-digits text                         → integer literal (`parseNumber`)
* STRING                                               → string literal (`parseString`)
* IDENT not followed by `(`, `.`, and not a typed literal (`DATE '…'`) or `@@var` → one-part identifier
  (`parseIdentifierOrFunction`, expression.go:662)
* `-` NUMBER where the token after the number has precedence ≤ UNARY and is not `::`
                                                       → `UnaryExpr{"-", literal}` (`parseUnaryMinus`, expression.go:1132)
Everything else is `none` (outside the model). -/
def parseAtom (ts : List Tok) : Option (Expr × List Tok) :=
  let t := cur ts
  if t.kind == tNUMBER then
    match parseNumberTok t with
    | some e => some (e, adv ts)
    | none => none
  else if t.kind == tSTRING then some (.litStr t.val, adv ts)
  else if t.kind == tIDENT then
    let nx := cur (adv ts)
    if nx.kind == tSTRING && (upper t.val == B "DATE" || upper t.val == B "TIMESTAMP" || upper t.val == B "TIME") then none
    else if startsWithAtAt t.val then none
    else if nx.kind == tLPAREN || nx.kind == tDOT then none
    else some (.ident t.val, adv ts)
  else if t.kind == tMINUS then
    let ts1 := adv ts
    if (cur ts1).kind == tINF then none
    else if (cur ts1).kind == tNUMBER && (peek ts1).kind == tCOLONCOLON then none
    else if (cur ts1).kind == tNUMBER then
      match parseNumberTok (cur ts1) with
      | some e => if precCur (adv ts1) ≤ UNARY then some (.neg e, adv ts1) else none
      | none => none
    else none
  else none

/-- `parseExpression(LOWEST)` (expression.go:436) on the shapes that occur as type arguments:
an atom followed by a token of precedence LOWEST (`,` `)` an identifier, end of input …), or
atom `=` atom followed by such a token (`parseBinaryExpression`, expression.go:2034; the operator text is the
token's own text; `= ANY(…)`/`= ALL(…)` are outside the model). Any other continuation is outside the model. -/
def parseArgExpr (ts : List Tok) : Option (Expr × List Tok) :=
  match parseAtom ts with
  | none => none
  | some (l, ts1) =>
    if precCur ts1 == LOWEST then some (l, ts1)
    else if (cur ts1).kind == tEQ then
      let op := (cur ts1).val
      let ts2 := adv ts1
      if (cur ts2).kind == tANY || (cur ts2).kind == tALL then none
      else
        match parseAtom ts2 with
        | some (r, ts3) => if precCur ts3 == LOWEST then some (.bin op l r, ts3) else none
        | none => none
    else none

/-! ## parseDataType (parser.go:4561) -/

def curWordIs (ts : List Tok) (w : Bytes) : Bool := isWord (cur ts) && upper (cur ts).val == w

/-- `dt.Name = dt.Name + " " + p.current.Value; p.nextToken()` -/
def addWord (st : Bytes × List Tok) : Bytes × List Tok := (st.1 ++ 32 :: (cur st.2).val, adv st.2)

/-- the `VARYING` / `LARGE [OBJECT]` continuation (parser.go:4608-4622, 4626-4640, 4650-4664: three identical copies). -/
def varyingOrLarge (st : Bytes × List Tok) : Bytes × List Tok :=
  if isWord (cur st.2) then
    if upper (cur st.2).val == B "VARYING" then addWord st
    else if upper (cur st.2).val == B "LARGE" then
      let st' := addWord st
      if curWordIs st'.2 (B "OBJECT") then addWord st' else st'
    else st
  else st

def isMySQLIntType (u : Bytes) : Bool :=
  u == B "INT" || u == B "INT1" || u == B "TINYINT" || u == B "SMALLINT" || u == B "MEDIUMINT" || u == B "BIGINT" || u == B "INTEGER"

/-- `for !p.currentIs(token.RPAREN) && !p.currentIs(token.EOF) { p.nextToken() }` (parser.go:4581) -/
def skipToRParen : List Tok → List Tok
  | [] => []
  | t :: ts => if t.kind == tRPAREN || t.kind == tEOF then t :: ts else skipToRParen ts

/-- the part of `parseDataType` between reading the first word and the `(`: display width, UNSIGNED/SIGNED,
DOUBLE PRECISION, CHAR/CHARACTER/NCHAR/BINARY VARYING | LARGE OBJECT, NATIONAL CHAR… (parser.go:4573-4666).
`u` is `strings.ToUpper` of the *first* word (computed once, line 4574). -/
def nameSuffix (name : Bytes) (ts : List Tok) : PRes Bytes :=
  let u := upper name
  -- 4578: INT(11)
  let r1 : Option (List Tok) :=
    if isMySQLIntType u && (cur ts).kind == tLPAREN then
      let ts' := skipToRParen (adv ts)
      if (cur ts').kind == tRPAREN then some (adv ts') else none
    else some ts
  match r1 with
  | none => .err
  | some ts =>
    let st : Bytes × List Tok := (name, ts)
    -- 4588: UNSIGNED / SIGNED
    let st := if isMySQLIntType u && isWord (cur st.2) && (upper (cur st.2).val == B "UNSIGNED" || upper (cur st.2).val == B "SIGNED")
      then addWord st else st
    -- 4597: DOUBLE PRECISION
    let st := if u == B "DOUBLE" && isWord (cur st.2) && upper (cur st.2).val == B "PRECISION" then addWord st else st
    -- 4607: CHAR | CHARACTER | NCHAR
    let st := if u == B "CHAR" || u == B "CHARACTER" || u == B "NCHAR" then varyingOrLarge st else st
    -- 4626: BINARY
    let st := if u == B "BINARY" && isWord (cur st.2) then varyingOrLarge st else st
    -- 4643: NATIONAL CHAR | CHARACTER
    let st := if u == B "NATIONAL" && isWord (cur st.2) && (upper (cur st.2).val == B "CHAR" || upper (cur st.2).val == B "CHARACTER")
      then varyingOrLarge (addWord st) else st
    .ok st.1 st.2

/-- named-parameter detection (parser.go:4741-4762). -/
def detectNamed (usesNamedParams : Bool) (ts : List Tok) : Bool :=
  if usesNamedParams && isWord (cur ts) then
    if !isDataTypeName (cur ts).val && (peek ts).kind != tEQ then true
    else if (peek ts).kind != tEQ && ((peek ts).kind == tIDENT || (peek ts).kind == tLPAREN) then
      if (peek ts).kind == tIDENT && isDataTypeName (peek ts).val then true
      else if (peek ts).kind == tLPAREN then !isDataTypeName (cur ts).val
      else false
    else false
  else false

def consParam (p : Option Param) (ps : List Param) : List Param :=
  match p with
  | some p => p :: ps
  | none => ps

mutual
/-- `parseDataType` (parser.go:4561). The first argument is recursion fuel (`none`-like `unsupported` when it runs out;
`3 * tokens + 4` always suffices). -/
def parseDataType : Nat → List Tok → PRes (Option DT)
  | 0, _ => .unsupported
  | f + 1, ts =>
    if !isWord (cur ts) then .ok none ts                             -- 4563
    else
      match nameSuffix (cur ts).val (adv ts) with
      | .err => .err
      | .unsupported => .unsupported
      | .ok name ts1 =>
        if (cur ts1).kind == tLPAREN then                            -- 4669
          let u := upper name                                        -- 4674 (of the name including added words)
          if u == B "JSON" || u == B "OBJECT" then .unsupported
          else
            let usesNamed := u == B "NESTED" || u == B "TUPLE"
            match parseParams f usesNamed (adv ts1) with
            | .err => .err
            | .unsupported => .unsupported
            | .ok ps ts2 =>
              if (cur ts2).kind == tRPAREN then .ok (some (.mk name true ps)) (adv ts2)   -- 4819 p.expect(token.RPAREN)
              else .err
        else .ok (some (.mk name false [])) ts1

/-- one iteration of the parameter loop up to `dt.Parameters = append(…)`: the parameter (`none` = nil, nothing appended)
(parser.go:4741-4811). -/
def parseParam : Nat → Bool → List Tok → PRes (Option Param)
  | 0, _, _ => .unsupported
  | f + 1, usesNamed, ts =>
    if detectNamed usesNamed ts then                                 -- 4765
      match parseDataType f (adv ts) with
      | .ok (some d) ts1 => .ok (some (.ntp (cur ts).val d)) ts1
      | .ok none ts1 => .ok none ts1
      | .err => .err
      | .unsupported => .unsupported
    else if isWord (cur ts) && isDataTypeName (cur ts).val then      -- 4794
      match parseDataType f ts with
      | .ok (some d) ts1 => .ok (some (.dt d)) ts1
      | .ok none ts1 => .ok none ts1
      | .err => .err
      | .unsupported => .unsupported
    else                                                             -- 4799
      match parseArgExpr ts with
      | some (e, ts1) => .ok (some (.expr e)) ts1
      | none => .unsupported

/-- the parameter loop (parser.go:4680-4818). -/
def parseParams : Nat → Bool → List Tok → PRes (List Param)
  | 0, _, _ => .unsupported
  | f + 1, usesNamed, ts =>
    if (cur ts).kind == tRPAREN || (cur ts).kind == tEOF || (cur ts).kind == tCOLLATE then .ok [] ts
    else
      match parseParam f usesNamed ts with
      | .err => .err
      | .unsupported => .unsupported
      | .ok p ts1 =>
        if (cur ts1).kind == tCOMMA then                             -- 4813
          match parseParams f usesNamed (adv ts1) with
          | .ok ps ts2 => .ok (consParam p ps) ts2
          | .err => .err
          | .unsupported => .unsupported
        else .ok (consParam p []) ts1
end

/-! ## formatting (internal/explain/format.go) -/

/-- outcome of a formatter: the text, or "a fallback branch was taken": the formatter had no case of its own for the
node and handed it to `formatExprForType` → `formatExprAsString` → (for unknown kinds) `unknownExprString`
(format.go:368/371 in `FormatDataType`, 393/405 in `formatBinaryExprForType`, 416 in `formatUnaryExprForType`; before
/repo commit f19dc023f these printed the node with `%v`, pointer addresses included). The text of a fallback is not
modelled: `fallback` is an outcome of its own. -/
inductive Fmt where
  | text (b : Bytes)
  | fallback
deriving Repr, DecidableEq

/-- the Go string constant `"\\\\\\'"`: three backslashes and a quote. -/
def q3 : Bytes := [92, 92, 92, 39]

def bs (n : Nat) : Bytes := List.replicate n 92

/-- `escapeStringLiteral` (format.go:49), one byte. -/
def escLitByte (b : UInt8) : Bytes :=
  if b == 92 then bs 4
  else if b == 39 then bs 3 ++ [39]
  else if b == 10 then bs 2 ++ [110]
  else if b == 9 then bs 2 ++ [116]
  else if b == 13 then bs 2 ++ [114]
  else if b == 0 then bs 2 ++ [48]
  else if b == 8 then bs 2 ++ [98]
  else if b == 12 then bs 2 ++ [102]
  else [b]
def escapeStringLiteral (s : Bytes) : Bytes := s.flatMap escLitByte

/-- `escapeStringForTypeParam` (format.go:79), one byte. -/
def escTypeParamByte (b : UInt8) : Bytes :=
  if b == 92 then bs 8
  else if b == 39 then bs 7 ++ [39]
  else if b == 10 then bs 4 ++ [110]
  else if b == 9 then bs 4 ++ [116]
  else if b == 13 then bs 4 ++ [114]
  else if b == 0 then bs 4 ++ [48]
  else if b == 8 then bs 4 ++ [98]
  else if b == 12 then bs 4 ++ [102]
  else [b]
def escapeStringForTypeParam (s : Bytes) : Bytes := s.flatMap escTypeParamByte

/-- `needsBacktickQuoting` (format.go:299): every rune outside [A-Za-z0-9_] (so every non-ASCII byte) asks for backticks. -/
def needsBacktickQuoting (name : Bytes) : Bool := name != [] && !name.all isIdentByte

/-- `formatUnaryExprForType` (format.go:412). -/
def formatUnaryExprForType : Expr → Fmt
  | .neg (.litInt n) => .text (45 :: decimal n)
  | .neg (.litStr v) => .text (45 :: v)
  | _ => .fallback

/-- `formatBinaryExprForType` (format.go:378). -/
def formatBinaryExprForType (op : Bytes) (l r : Expr) : Fmt :=
  let left : Fmt :=
    match l with
    | .litStr v => .text (q3 ++ escapeStringForTypeParam v ++ q3)
    | .litInt n => .text (decimal n)
    | .ident n => .text n
    | _ => .fallback
  let right : Fmt :=
    match r with
    | .litStr v => .text v
    | .litInt n => .text (decimal n)
    | .ident n => .text n
    | .neg e => formatUnaryExprForType (.neg e)
    | _ => .fallback
  match left, right with
  | .text a, .text b => .text (a ++ 32 :: op ++ 32 :: b)
  | _, _ => .fallback

/-- one expression parameter in `FormatDataType` (format.go:326-332, 343-345, 360-372). -/
def formatExprParam : Expr → Fmt
  | .litStr v => .text (q3 ++ escapeStringForTypeParam v ++ q3)
  | .litInt n => .text (decimal n)
  | .bin op l r => formatBinaryExprForType op l r
  | .ident n => .text n
  | .neg (.litInt n) => .text (45 :: decimal n)
  | .neg (.litStr v) => .text (45 :: v)
  | .neg _ => .fallback

/-- `strings.Join(params, ", ")` -/
def joinCommaSp : List Bytes → Bytes
  | [] => []
  | [a] => a
  | a :: rest => a ++ 44 :: 32 :: joinCommaSp rest

mutual
/-- `FormatDataType` (format.go:313) for a non-nil type. -/
def formatDataType : DT → Fmt
  | .mk name _ params =>
    match params with
    | [] => .text name
    | p :: ps =>
      match formatParams (p :: ps) with
      | some strs => .text (name ++ 40 :: joinCommaSp strs ++ [41])
      | none => .fallback
/-- one parameter in the loop of `FormatDataType` (format.go:321-373). -/
def formatParam : Param → Fmt
  | .expr e => formatExprParam e
  | .dt d => formatDataType d
  | .ntp n d =>
    match formatDataType d with
    | .text t => .text ((if needsBacktickQuoting n then 96 :: n ++ [96] else n) ++ 32 :: t)
    | .fallback => .fallback
/-- the parameter loop of `FormatDataType`; `none` = some parameter took the fallback branch. -/
def formatParams : List Param → Option (List Bytes)
  | [] => some []
  | p :: ps =>
    match formatParam p, formatParams ps with
    | .text t, some rest => some (t :: rest)
    | _, _ => none
end

/-- `FormatDataType(dt)` with `dt == nil` giving "". -/
def formatDataType? : Option DT → Fmt
  | none => .text []
  | some d => formatDataType d

/-- the last line `explainCastExprWithAlias` prints for a cast whose `TypeExpr` is nil (functions.go:661-671),
without the indentation: `Literal \'<typeStr>\'`, where `typeStr` is escaped only if the type has no parameters. -/
def typeLine (d : Option DT) : Fmt :=
  match formatDataType? d with
  | .fallback => .fallback
  | .text s =>
    let noParams : Bool := match d with
      | none => true
      | some d => d.params.isEmpty
    .text (B "Literal \\'" ++ (if noParams then escapeStringLiteral s else s) ++ B "\\'")

/-! ## the two cast positions -/

/-- outcome of a cast entry point. -/
inductive CastOut where
  /-- the cast parsed; `line` is its type line in EXPLAIN, `rest` the tokens after the cast -/
  | shown (line : Bytes) (rest : List Tok)
  | fallback
  | err
  | unsupported
deriving Repr, DecidableEq

def fuelFor (ts : List Tok) : Nat := 3 * ts.length + 4

def finishCast (r : PRes (Option DT)) (expectRParen : Bool) : CastOut :=
  match r with
  | .err => .err
  | .unsupported => .unsupported
  | .ok d rest =>
    let after : Option (List Tok) :=
      if expectRParen then (if (cur rest).kind == tRPAREN then some (adv rest) else none) else some rest
    match after with
    | none => .err                                                    -- p.expect(token.RPAREN) failed
    | some rest' =>
      match typeLine d with
      | .text l => .shown l rest'
      | .fallback => .fallback

/-- `parseCast` (expression.go:1439) on `CAST ( <ident> AS <type> )`: the operand is a single identifier token
(`parseExpression(ALIAS_PREC)` stops at `AS`), the `AS` branch is taken; the `AS alias AS Type` and
`AS alias, 'Type'` sub-branches (peek is `AS` / `,`) and the comma forms are outside the model. `ts` starts at `CAST`. -/
def castFn (ts : List Tok) : CastOut :=
  if (cur ts).kind != tCAST then .unsupported
  else
    let ts := adv ts
    if (cur ts).kind != tLPAREN then .unsupported
    else
      let ts := adv ts
      -- operand: one IDENT directly followed by AS
      if (cur ts).kind != tIDENT || startsWithAtAt (cur ts).val || (peek ts).kind != tAS then .unsupported
      else
        let ts := adv (adv ts)                                        -- skip the identifier and AS (1456)
        if isWord (cur ts) && ((peek ts).kind == tAS || (peek ts).kind == tCOMMA) then .unsupported   -- 1460, 1468
        else finishCast (parseDataType (fuelFor ts) ts) true          -- 1510 / 1515, then 1617

/-- `parseCastOperator` (expression.go:2581) on `<ident> :: <type> …`; `ts` starts at the identifier. -/
def castOp (ts : List Tok) : CastOut :=
  if (cur ts).kind != tIDENT || startsWithAtAt (cur ts).val || (peek ts).kind != tCOLONCOLON then .unsupported
  else
    let ts := adv (adv ts)
    finishCast (parseDataType (fuelFor ts) ts) false

def wordsAscii (ts : List Tok) : Bool := ts.all (fun t => !isWord t || isAscii t.val)

def xTok : Tok := ⟨tIDENT, [120]⟩

/-- type line of `CAST(x AS <ty>)` for the type tokens `ty`. -/
def castFnText (ty : List Tok) : CastOut :=
  if !wordsAscii ty then .unsupported
  else castFn ([⟨tCAST, B "CAST"⟩, lparenTok, xTok, ⟨tAS, B "AS"⟩] ++ ty ++ [rparenTok])

/-- type line of `x::<ty>` for the type tokens `ty`. -/
def castOpText (ty : List Tok) : CastOut :=
  if !wordsAscii ty then .unsupported
  else castOp ([xTok, ⟨tCOLONCOLON, [58, 58]⟩] ++ ty)

/-! ## driver op `c18 <tokens>`: tokens are `kind,hexval;kind,hexval;…` ("-" = none) -/

def parseTokArg (s : String) : Option (List Tok) :=
  if s == "-" then some []
  else
    (s.splitOn ";").mapM fun item =>
      match item.splitOn "," with
      | [k, v] =>
        match k.toNat?, DC.Hex.decode v with
        | some k, some v => some ⟨k, v⟩
        | _, _ => none
      | _ => none

def showOut : CastOut → String
  | .shown l [] => DC.Hex.encode l
  | .shown _ _ => "unsupported"        -- tokens left after the type: the caller's grammar decides, not this model
  | .fallback => "fallback"
  | .err => "error"
  | .unsupported => "unsupported"

/-! ## driver op `c18ty <type>`: the spec side (`tokens`, `canonTy`, `WfTy`, `GrammarTy`) of a type expression given as a
comma-separated prefix encoding
  ty  := t,<#words>,<hexword>…,<#args>,<arg>…
  arg := y,<ty> | n,<hexname>,<ty> | u,<0|1 negative>,<decimal> | s,<hex> | e,<hex>,<0|1 negative>,<decimal> -/

def decWords : Nat → List String → Option (List Bytes × List String)
  | 0, rest => some ([], rest)
  | n + 1, w :: rest =>
    match DC.Hex.decode w, decWords n rest with
    | some w, some (ws, rest) => some (w :: ws, rest)
    | _, _ => none
  | _ + 1, [] => none

def decBool (s : String) : Option Bool := if s == "0" then some false else if s == "1" then some true else none

mutual
def decTy : Nat → List String → Option (Ty × List String)
  | 0, _ => none
  | f + 1, fields =>
    match fields with
    | "t" :: nw :: rest =>
      match nw.toNat? with
      | none => none
      | some nw =>
        match decWords nw rest with
        | some (ws, na :: rest) =>
          match na.toNat? with
          | none => none
          | some na =>
            match decArgs f na rest with
            | some (as, rest) => some (.mk ws as, rest)
            | none => none
        | _ => none
    | _ => none
def decArgs : Nat → Nat → List String → Option (List Arg × List String)
  | 0, _, _ => none
  | _ + 1, 0, rest => some ([], rest)
  | f + 1, n + 1, fields =>
    let one : Option (Arg × List String) :=
      match fields with
      | "y" :: rest => (decTy f rest).map fun (t, rest) => (.ty t, rest)
      | "n" :: name :: rest =>
        match DC.Hex.decode name, decTy f rest with
        | some name, some (t, rest) => some (.named name t, rest)
        | _, _ => none
      | "u" :: neg :: v :: rest =>
        match decBool neg, v.toNat? with
        | some neg, some v => some (.num neg v, rest)
        | _, _ => none
      | "s" :: v :: rest => (DC.Hex.decode v).map fun v => (.str v, rest)
      | "e" :: name :: neg :: v :: rest =>
        match DC.Hex.decode name, decBool neg, v.toNat? with
        | some name, some neg, some v => some (.enum name neg v, rest)
        | _, _, _ => none
      | _ => none
    match one with
    | none => none
    | some (a, rest) =>
      match decArgs f n rest with
      | some (as, rest) => some (a :: as, rest)
      | none => none
end

def showToks (ts : List Tok) : String :=
  if ts.isEmpty then "-" else ";".intercalate (ts.map fun t => toString t.kind ++ "," ++ DC.Hex.encode t.val)

def bit (b : Bool) : String := if b then "1" else "0"

def handle (op : String) (args : List String) : Option String :=
  if op == "c18" then
    match args with
    | [a] =>
      match parseTokArg a with
      | some ts => some (showOut (castFnText ts) ++ " " ++ showOut (castOpText ts))
      | none => some "bad-arg"
    | _ => some "bad-arg"
  else if op == "c18ty" then
    match args with
    | [a] =>
      let fields := a.splitOn ","
      match decTy (fields.length + 1) fields with
      | some (t, []) => some (bit (wfTy t) ++ " " ++ bit (grammarTy t) ++ " " ++ DC.Hex.encode (canonTy t) ++ " " ++ showToks (tokens t))
      | _ => some "bad-arg"
    | _ => some "bad-arg"
  else none

end DC.Types
