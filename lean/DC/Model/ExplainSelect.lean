import DC.Prelude.Hex

/-!
# C04: the count/emit pairs of the SELECT printers (internal/explain/select.go)

`Explain` prints the header `SelectQuery (children N)` from one function (`countSelectQueryChildren`)
and the children from another (`explainSelectQuery`); likewise `countSelectUnionChildren` vs
`explainSelectWithUnionQuery`.  The tree is well formed only if the two agree for every combination of
clauses.  This file mirrors both functions of each pair over a *shape*: one `Bool`/`Nat` per guard the
Go code tests, nothing else (the printed text of the children is irrelevant to the count; only *how
many nodes are printed directly beneath the header* matters).  Each child-emitting statement of the
Go function appears here in source order with its guard exactly as written.

Every emitted child is one node of the kind given (`*` = one expression node, whatever its kind:
`Node(sb, expr, depth+1)` prints exactly one line at `depth+1`).

Theorems (all combinations, by case analysis on the Boolean part and arithmetic on the lengths):
* `count_eq_emit_select : WfSel s → countSel s = (emitSel s).length`
* `count_eq_emit_select_inherited : WfSel s → s.withN = 0 → countSel s + 1 = (emitSelInherited s).length`
* `count_eq_emit_union : countUnion u = (emitUnion u).length` (no hypothesis since /repo 7b64ed643)
and the *negative* results showing every hypothesis is needed (`…_needs_…`): each hypothesis is an AST
invariant the printers rely on; the harness checks them on every AST `Parse` returns (p_c04.go).
-/
namespace DC.Model.ExplainSelect

/-- the guards `countSelectQueryChildren` / `explainSelectQuery` test on an `*ast.SelectQuery` -/
structure SelShape where
  withN : Nat               -- len(n.With)
  from_ : Bool              -- n.From != nil
  arrayJoin : Bool          -- n.ArrayJoin != nil
  preWhere : Bool           -- n.PreWhere != nil
  where_ : Bool             -- n.Where != nil
  groupByN : Nat            -- len(n.GroupBy)
  groupByAll : Bool         -- n.GroupByAll
  having : Bool             -- n.Having != nil
  qualify : Bool            -- n.Qualify != nil
  windowN : Nat             -- len(n.Window)
  orderByN : Nat            -- len(n.OrderBy)
  interpolateN : Nat        -- len(n.Interpolate)
  limitByOffset : Bool      -- n.LimitByOffset != nil
  limitByLimit : Bool       -- n.LimitByLimit != nil
  limit : Bool              -- n.Limit != nil
  limitByN : Nat            -- len(n.LimitBy)
  offset : Bool             -- n.Offset != nil
  settingsN : Nat           -- len(n.Settings)
  settingsAfterFormat : Bool -- n.SettingsAfterFormat
  top : Bool                -- n.Top != nil
  distinctOnN : Nat         -- len(n.DistinctOn)
  deriving Repr, DecidableEq

/-- `if g { count++ }` -/
def bit (g : Bool) : Nat := if g then 1 else 0

/-- `if g { print one node of kind k }` -/
def seg (g : Bool) (k : String) : List String := if g then [k] else []

def pos (n : Nat) : Bool := decide (0 < n)

theorem length_seg (g : Bool) (k : String) : (seg g k).length = bit g := by
  cases g <;> rfl

/-- select.go `countSelectQueryChildren` (801–863 before the flag removal; re-pinned by the check) -/
def countSel (n : SelShape) : Nat :=
  1                                                        -- count := 1 // columns ExpressionList
  + bit (pos n.withN)                                       -- if len(n.With) > 0
  + bit (n.from_ || n.arrayJoin)                            -- if n.From != nil || n.ArrayJoin != nil
  + bit n.preWhere                                          -- if n.PreWhere != nil
  + bit n.where_                                            -- if n.Where != nil
  + bit (pos n.groupByN && !n.groupByAll)                   -- if len(n.GroupBy) > 0 && !n.GroupByAll
  + bit n.having                                            -- if n.Having != nil
  + bit n.qualify                                           -- if n.Qualify != nil
  + bit (pos n.windowN)                                     -- if len(n.Window) > 0
  + bit (pos n.orderByN)                                    -- if len(n.OrderBy) > 0
  + bit (pos n.interpolateN)                                -- if len(n.Interpolate) > 0
  + bit n.limitByOffset                                     -- if n.LimitByOffset != nil
  + bit n.limitByLimit                                      -- if n.LimitByLimit != nil
  + bit n.limit                                             -- if n.Limit != nil
  + bit (pos n.limitByN)                                    -- if len(n.LimitBy) > 0
  + bit n.offset                                            -- if n.Offset != nil
  + bit (pos n.settingsN && !n.settingsAfterFormat)         -- if len(n.Settings) > 0 && !n.SettingsAfterFormat
  + bit n.top                                               -- if n.Top != nil
  + 2 * bit (pos n.distinctOnN)                             -- if len(n.DistinctOn) > 0 { count += 2 }

/-- the LIMIT BY / LIMIT / OFFSET block shared by `explainSelectQuery` and
`explainSelectQueryWithInheritedWith` (identical text in both functions) -/
def emitLimitBlock (n : SelShape) : List String :=
  if n.limitByLimit then                                    -- if n.LimitByLimit != nil {
    seg n.limitByOffset "*"                                 --   if n.LimitByOffset != nil { Node(LimitByOffset) }
    ++ ["*"]                                                --   Node(LimitByLimit)
    ++ seg (pos n.limitByN) "ExpressionList"                --   if len(n.LimitBy) > 0 { ExpressionList … }
    ++ seg n.offset "*"                                     --   if n.Offset != nil
    ++ seg n.limit "*"                                      --   if n.Limit != nil
  else if pos n.limitByN then                               -- } else if len(n.LimitBy) > 0 {
    seg n.limit "*"                                         --   if n.Limit != nil
    ++ ["ExpressionList"]                                   --   ExpressionList (LimitBy)
  else                                                      -- } else {
    seg n.offset "*"                                        --   if n.Offset != nil
    ++ seg n.limit "*"                                      --   if n.Limit != nil

/-- select.go `explainSelectQuery`: the nodes printed at `depth+1`, in order -/
def emitSel (n : SelShape) : List String :=
  seg (pos n.withN) "ExpressionList"                        -- if len(n.With) > 0
  ++ ["ExpressionList"]                                     -- Columns (always)
  ++ seg (n.from_ || n.arrayJoin) "TablesInSelectQuery"     -- if n.From != nil || n.ArrayJoin != nil
  ++ seg n.preWhere "*"                                     -- if n.PreWhere != nil
  ++ seg n.where_ "*"                                       -- if n.Where != nil
  ++ seg (pos n.groupByN && !n.groupByAll) "ExpressionList" -- if len(n.GroupBy) > 0 && !n.GroupByAll
  ++ seg n.having "*"                                       -- if n.Having != nil
  ++ seg (pos n.windowN) "ExpressionList"                   -- if len(n.Window) > 0
  ++ seg n.qualify "*"                                      -- if n.Qualify != nil
  ++ seg (pos n.orderByN) "ExpressionList"                  -- if len(n.OrderBy) > 0
  ++ seg (pos n.settingsN && pos n.interpolateN && !n.settingsAfterFormat) "Set"
                                                            -- if len(Settings) > 0 && len(Interpolate) > 0 && !SettingsAfterFormat
  ++ seg (pos n.interpolateN) "ExpressionList"              -- if len(n.Interpolate) > 0
  ++ emitLimitBlock n
  ++ seg (pos n.settingsN && !pos n.interpolateN && !n.settingsAfterFormat) "Set"
                                                            -- if len(Settings) > 0 && len(Interpolate) == 0 && !SettingsAfterFormat
  ++ seg n.top "*"                                          -- if n.Top != nil
  ++ (if pos n.distinctOnN then ["Literal", "ExpressionList"] else [])
                                                            -- if len(n.DistinctOn) > 0 { Literal UInt64_1; ExpressionList }

/-- select.go `explainSelectQueryWithInheritedWith` (the branch taken when `len(sq.With) == 0`):
header `countSelectQueryChildren(sq) + 1`, children as below. -/
def emitSelInherited (n : SelShape) : List String :=
  ["ExpressionList"]                                        -- Columns
  ++ seg (n.from_ || n.arrayJoin) "TablesInSelectQuery"
  ++ seg n.preWhere "*"
  ++ seg n.where_ "*"
  ++ seg (pos n.groupByN && !n.groupByAll) "ExpressionList"
  ++ seg n.having "*"
  ++ seg (pos n.windowN) "ExpressionList"
  ++ seg n.qualify "*"
  ++ seg (pos n.orderByN) "ExpressionList"
  ++ seg (pos n.settingsN && pos n.interpolateN && !n.settingsAfterFormat) "Set"
  ++ seg (pos n.interpolateN) "ExpressionList"
  ++ emitLimitBlock n
  ++ seg (pos n.settingsN && !pos n.interpolateN && !n.settingsAfterFormat) "Set"
  ++ seg n.top "*"
  ++ (if pos n.distinctOnN then ["Literal", "ExpressionList"] else [])
                                                            -- if len(sq.DistinctOn) > 0 (added by 6d65b7e79; was missing: see history note)
  ++ ["ExpressionList"]                                     -- inherited WITH, always, at the end

/-- The AST invariant the SELECT pair needs:
* a LIMIT BY offset only together with a LIMIT BY count (`LimitByOffset` is counted unconditionally but
  printed only inside `if n.LimitByLimit != nil`);
* `LimitBy` without `LimitByLimit` carries no `Offset` (the `else if len(n.LimitBy) > 0` branch prints
  `Limit` and the list but not `Offset`, which is counted). -/
def WfSel (n : SelShape) : Bool :=
  (!n.limitByOffset || n.limitByLimit) &&
  (n.limitByLimit || !pos n.limitByN || !n.offset)

theorem length_emitLimitBlock (n : SelShape) (h : WfSel n = true) :
    (emitLimitBlock n).length =
      bit n.limitByOffset + bit n.limitByLimit + bit n.limit + bit (pos n.limitByN) + bit n.offset := by
  simp only [WfSel] at h
  unfold emitLimitBlock
  generalize n.limitByOffset = a at *
  generalize n.limitByLimit = b at *
  generalize n.limit = c at *
  generalize pos n.limitByN = d at *
  generalize n.offset = e at *
  revert h
  cases a <;> cases b <;> cases c <;> cases d <;> cases e <;> decide

/-- **SELECT pair.** Header count = number of nodes printed directly beneath, for every combination
of clauses, given the AST invariant `WfSel`. -/
theorem count_eq_emit_select (n : SelShape) (h : WfSel n = true) :
    countSel n = (emitSel n).length := by
  have hs : ∀ (a b : Bool), bit (a && b) + bit (a && !b) = bit a := by
    intro a b; cases a <;> cases b <;> rfl
  have hset := hs (pos n.settingsN && !n.settingsAfterFormat) (pos n.interpolateN)
  have e1 : (pos n.settingsN && pos n.interpolateN && !n.settingsAfterFormat) =
      ((pos n.settingsN && !n.settingsAfterFormat) && pos n.interpolateN) := by
    cases pos n.settingsN <;> cases pos n.interpolateN <;> cases n.settingsAfterFormat <;> rfl
  have e2 : (pos n.settingsN && !pos n.interpolateN && !n.settingsAfterFormat) =
      ((pos n.settingsN && !n.settingsAfterFormat) && !pos n.interpolateN) := by
    cases pos n.settingsN <;> cases pos n.interpolateN <;> cases n.settingsAfterFormat <;> rfl
  have hd : (if pos n.distinctOnN then ["Literal", "ExpressionList"] else ([] : List String)).length =
      2 * bit (pos n.distinctOnN) := by
    cases pos n.distinctOnN <;> rfl
  simp only [countSel, emitSel, List.length_append, length_seg, List.length_cons, List.length_nil,
    length_emitLimitBlock n h, hd, e1, e2]
  omega

/-- **Inherited-WITH variant.** (Before /repo commit 6d65b7e79 this needed `n.distinctOnN = 0`: the
function counted DISTINCT ON but did not print it — found by this model, `WITH 1 AS x SELECT x UNION ALL
SELECT DISTINCT ON (a) b FROM t` announced 5 children and printed 3.) -/
theorem count_eq_emit_select_inherited (n : SelShape) (h : WfSel n = true) (hw : n.withN = 0) :
    countSel n + 1 = (emitSelInherited n).length := by
  have hs : ∀ (a b : Bool), bit (a && b) + bit (a && !b) = bit a := by
    intro a b; cases a <;> cases b <;> rfl
  have hset := hs (pos n.settingsN && !n.settingsAfterFormat) (pos n.interpolateN)
  have e1 : (pos n.settingsN && pos n.interpolateN && !n.settingsAfterFormat) =
      ((pos n.settingsN && !n.settingsAfterFormat) && pos n.interpolateN) := by
    cases pos n.settingsN <;> cases pos n.interpolateN <;> cases n.settingsAfterFormat <;> rfl
  have e2 : (pos n.settingsN && !pos n.interpolateN && !n.settingsAfterFormat) =
      ((pos n.settingsN && !n.settingsAfterFormat) && !pos n.interpolateN) := by
    cases pos n.settingsN <;> cases pos n.interpolateN <;> cases n.settingsAfterFormat <;> rfl
  have hw' : bit (pos n.withN) = 0 := by rw [hw]; rfl
  have hd : (if pos n.distinctOnN then ["Literal", "ExpressionList"] else ([] : List String)).length =
      2 * bit (pos n.distinctOnN) := by
    cases pos n.distinctOnN <;> rfl
  simp only [countSel, emitSelInherited, List.length_append, length_seg, List.length_cons, List.length_nil,
    length_emitLimitBlock n h, e1, e2, hw', hd]
  omega

/-- both conjuncts of `WfSel` are needed -/
def badSel1 : SelShape :=
  ⟨0, false, false, false, false, 0, false, false, false, 0, 0, 0, true, false, false, 0, false, 0, false, false, 0⟩
def badSel2 : SelShape :=
  ⟨0, false, false, false, false, 0, false, false, false, 0, 0, 0, false, false, false, 1, true, 0, false, false, 0⟩

theorem select_needs_limitByOffset_inv : countSel badSel1 ≠ (emitSel badSel1).length := by decide
theorem select_needs_offset_inv : countSel badSel2 ≠ (emitSel badSel2).length := by decide

/-! ## SelectWithUnionQuery -/

/-- the guards `countSelectUnionChildren` / `explainSelectWithUnionQuery` test -/
structure UnionShape where
  anyOutfile : Bool          -- some sel in n.Selects is a *SelectQuery with IntoOutfile != nil
  anyFormat : Bool           -- some sel in n.Selects is a *SelectQuery with Format != nil
  settingsN : Nat            -- len(n.Settings)
  before : Bool              -- n.SettingsBeforeFormat
  after : Bool               -- n.SettingsAfterFormat
  legacy : Bool              -- some sel is a *SelectQuery with SettingsAfterFormat && len(Settings) > 0
  deriving Repr, DecidableEq

/-- select.go `countSelectUnionChildren` (as repaired by /repo 7b64ed643: it now tests the guards of
the emission one by one) -/
def countUnion (u : UnionShape) : Nat :=
  1                                                         -- count := 1 // ExpressionList of selects
  + bit u.anyOutfile                                        -- for … if sq.IntoOutfile != nil { count++; break }
  + bit u.anyFormat                                         -- for … if sq.Format != nil { count++; break }
  + bit (u.before && pos u.settingsN)                       -- if n.SettingsBeforeFormat && len(n.Settings) > 0 { count++ }
  + (if u.after && pos u.settingsN then 1                   -- if n.SettingsAfterFormat && len(n.Settings) > 0 { count++ }
     else bit u.legacy)                                     -- else { for … if sq.SettingsAfterFormat && len(sq.Settings) > 0 { count++; break } }

/-- select.go `explainSelectWithUnionQuery` (and, statement for statement, the tail of
`explainSelectWithUnionQueryWithInheritedWith`): nodes printed at `depth+1` -/
def emitUnion (u : UnionShape) : List String :=
  ["ExpressionList"]                                        -- ExpressionList of the (grouped) selects
  ++ seg u.anyOutfile "Literal"                             -- INTO OUTFILE file name
  ++ seg (u.before && pos u.settingsN) "Set"                -- if n.SettingsBeforeFormat && len(n.Settings) > 0
  ++ seg u.anyFormat "Identifier"                           -- FORMAT
  ++ (if u.after && pos u.settingsN then ["Set"]            -- if n.SettingsAfterFormat && len(n.Settings) > 0
      else seg u.legacy "Set")                              -- else { legacy check }

/-- **Union pair.** No AST invariant is needed any more: every combination of the six guards. -/
theorem count_eq_emit_union (u : UnionShape) : countUnion u = (emitUnion u).length := by
  simp only [countUnion, emitUnion, List.length_append, List.length_cons, List.length_nil, length_seg]
  generalize pos u.settingsN = s
  cases u.anyOutfile <;> cases u.anyFormat <;> cases s <;> cases u.before <;> cases u.after <;>
    cases u.legacy <;> decide

/-! ### replay of the repaired defect

Before 7b64ed643 the count read `if len(n.Settings) > 0 && (Before || After) { count++ } else { legacy }`
and agreed with the emission only under the invariant `WfUnion` below, which `Parse` violates
(`SELECT 1 SETTINGS a=1 SETTINGS b=2 FORMAT JSON SETTINGS c=3` sets Before and After;
`SELECT 1 FORMAT JSON SETTINGS c=3 SETTINGS d=4` sets Before with a SELECT-level SETTINGS after FORMAT):
the header said 3, four nodes were printed.  Found by this model's `WfUnion` hypothesis. -/

/-- the count as it was before the repair -/
def countUnionOld (u : UnionShape) : Nat :=
  1 + bit u.anyOutfile + bit u.anyFormat
  + (if pos u.settingsN && (u.before || u.after) then 1 else bit u.legacy)

/-- the invariant the old pair needed -/
def WfUnion (u : UnionShape) : Bool :=
  !pos u.settingsN || ((!u.before || !u.after) && (!u.before || !u.legacy))

theorem old_count_eq_emit_union (u : UnionShape) (h : WfUnion u = true) :
    countUnionOld u = (emitUnion u).length := by
  simp only [WfUnion] at h
  simp only [countUnionOld, emitUnion, List.length_append, List.length_cons, List.length_nil, length_seg]
  generalize pos u.settingsN = s at *
  revert h
  cases u.anyOutfile <;> cases u.anyFormat <;> cases s <;> cases u.before <;> cases u.after <;>
    cases u.legacy <;> decide

def badUnion1 : UnionShape := ⟨false, true, 1, true, true, false⟩
def badUnion2 : UnionShape := ⟨false, true, 1, true, false, true⟩

/-- the two shapes `Parse` produces on which the old count was wrong (3 announced, 4 printed) … -/
theorem old_union_needs_one_side : countUnionOld badUnion1 = 3 ∧ (emitUnion badUnion1).length = 4 := by decide
theorem old_union_needs_no_legacy : countUnionOld badUnion2 = 3 ∧ (emitUnion badUnion2).length = 4 := by decide
/-- … and on which the repaired count is right. -/
example : countUnion badUnion1 = 4 ∧ countUnion badUnion2 = 4 := by decide

/-! ## non-vacuity -/

/-- `SELECT a, count() FROM t WHERE b GROUP BY a ORDER BY a LIMIT 1` -/
example : WfSel ⟨0, true, false, false, true, 1, false, false, false, 0, 1, 0, false, false, true, 0, false, 0, false, false, 0⟩ = true ∧
    countSel ⟨0, true, false, false, true, 1, false, false, false, 0, 1, 0, false, false, true, 0, false, 0, false, false, 0⟩ = 6 := by
  decide

/-! ## driver -/

def parseBool (s : String) : Option Bool :=
  if s == "1" then some true else if s == "0" then some false else none

def parseNats (s : String) : Option (List Nat) :=
  (s.splitOn ",").mapM (fun x => x.toNat?)

def selOfNats : List Nat → Option SelShape
  | [a, b, c, d, e, f, g, h, i, j, k, l, m, n, o, p, q, r, s, t, u] =>
    let B := fun (x : Nat) => decide (0 < x)
    some ⟨a, B b, B c, B d, B e, f, B g, B h, B i, j, k, l, B m, B n, B o, p, B q, r, B s, B t, u⟩
  | _ => none

def unionOfNats : List Nat → Option UnionShape
  | [a, b, c, d, e, f] =>
    let B := fun (x : Nat) => decide (0 < x)
    some ⟨B a, B b, c, B d, B e, B f⟩
  | _ => none

def answer (count : Nat) (wf : Bool) (kinds : List String) : String :=
  s!"{count}|{",".intercalate kinds}|{if wf then "wf" else "not-wf"}"

/-- `selshape <21 naturals, comma separated, in field order>` → `count|kind,…|wf` (likewise
`selshapeinh` for the inherited-WITH printer and `unionshape <6 naturals>`) -/
def handle (op : String) (args : List String) : Option String :=
  if op == "selshape" || op == "selshapeinh" then
    match args with
    | [a] =>
      match (parseNats a).bind selOfNats with
      | none => some "bad-arg"
      | some s =>
        if op == "selshape" then some (answer (countSel s) (WfSel s) (emitSel s))
        else some (answer (countSel s + 1) (WfSel s) (emitSelInherited s))
    | _ => some "bad-arg"
  else if op == "unionshape" then
    match args with
    | [a] =>
      match (parseNats a).bind unionOfNats with
      | none => some "bad-arg"
      | some u => some (answer (countUnion u) true (emitUnion u))
    | _ => some "bad-arg"
  else none

end DC.Model.ExplainSelect
