/-!
# Model of the INTERSECT / EXCEPT collecting loops and of `buildIntersectExceptTree`

Go source: `/repo/parser/parser.go`
* the collecting loop `for p.isIntersectExceptWithWrapper() { … ops = append(ops, op) … if nested == nil { break } …
  stmts = append(stmts, nextStmt) }` which occurs, textually identical, in
  `parseSelectWithUnionWithParsedWith` (parser.go:423-458), `parseSelectWithUnion` (parser.go:644-684),
  `parseIntersectExceptWithFirstOperand` (parser.go:822-859) and `parseParenthesizedSelect` (parser.go:7957-7993);
* `isIntersectOp` (parser.go:976) and `buildIntersectExceptTree` (parser.go:989-1060).

Every Go index expression `x[i]` and slice expression `x[:k]` of `buildIntersectExceptTree` is modelled with CHECKED
access (`List.get?`-style, explicit `.panic` outcome), every `for` loop by a fuel-bounded recursion with an explicit
`.nofuel` outcome (the theorems show that neither outcome occurs). Go `int` arithmetic (`len(stmts)-1` may be `-1`)
is modelled over `Int`. What is abstracted: statements are opaque leaves `Stmt.leaf n` (a parsed operand) or the
`SelectIntersectExceptQuery` node built here; the six operator strings are an enumeration of which only
`strings.HasPrefix(op, "INTERSECT")` is observed; the operand parser is an oracle (`Option Stmt` per iteration:
`none` = the operand parser returned nil, i.e. the `break` arm).
-/
namespace DC.Model.SetOps

/-- the operator strings the collecting loops can build: "EXCEPT"/"INTERSECT" followed by "", " ALL" or " DISTINCT" -/
inductive Op
  | except | exceptAll | exceptDistinct | intersect | intersectAll | intersectDistinct
  deriving DecidableEq, Repr

/-- parser.go:976 `isIntersectOp`: `strings.HasPrefix(op, "INTERSECT")` -/
def isIntersectOp : Op → Bool
  | .intersect | .intersectAll | .intersectDistinct => true
  | _ => false

/-- an operand (opaque, numbered) or the `&ast.SelectIntersectExceptQuery{Selects, Operators}` node -/
inductive Stmt
  | leaf (n : Nat)
  | setop (selects : List Stmt) (ops : List Op)
  deriving Repr

/-- result of running a piece of Go code: a value, a run-time panic (index / slice bounds out of range), or
the model's loop fuel ran out (never happens: `build_returns`) -/
inductive Outcome (α : Type)
  | ok (a : α)
  | panic
  | nofuel
  deriving Repr

/-- is the outcome a panic? (used so that statements need no `DecidableEq Stmt`) -/
def Outcome.isPanic {α} : Outcome α → Bool
  | .panic => true
  | _ => false

/-- checked Go index expression `x[i]` -/
def idx {α} (l : List α) (i : Nat) : Outcome α :=
  match l[i]? with
  | some a => .ok a
  | none => .panic

/-- checked Go slice expression `x[:k]` for an `int` k on a slice with `cap = len` or more: panics unless
`0 ≤ k ≤ cap`; here it is only used with `k < len`, and for `k > len` we report a panic (conservative:
the real code would panic or expose spare capacity) -/
def sliceTo {α} (l : List α) (k : Int) : Outcome (List α) :=
  if 0 ≤ k ∧ k ≤ (l.length : Int) then .ok (l.take k.toNat) else .panic

/-! ## the collecting loop -/

/-- state of one collecting loop: the two slices and whether the loop was left through `break` -/
structure CState where
  stmts : List Stmt
  ops : List Op
  broke : Bool
  deriving Repr

/-- One iteration of `for p.isIntersectExceptWithWrapper() {…}` (parser.go:644-684): the loop condition held and the
operator `op` was read; `ops = append(ops, op)` happens BEFORE the operand is parsed (parser.go:662); `operand = none`
is the `break` arm (parser.go:670-672 / 678-680), otherwise `stmts = append(stmts, nextStmt)` (parser.go:683).
After a `break` no further iteration runs. -/
def step (st : CState) (it : Op × Option Stmt) : CState :=
  if st.broke then st else
  match it.2 with
  | none => { st with ops := st.ops ++ [it.1], broke := true }
  | some s => { st with ops := st.ops ++ [it.1], stmts := st.stmts ++ [s] }

/-- the whole loop, started as `stmts := []ast.Statement{first}; var ops []string` (parser.go:640-641), run over the
iterations `its` (the loop ends when they are exhausted — the condition became false — or at the first `break`) -/
def collect (first : Stmt) (its : List (Op × Option Stmt)) : CState :=
  its.foldl step ⟨[first], [], false⟩

/-! ## `buildIntersectExceptTree` -/

/-- inner loop parser.go:1012-1016
`for i < len(ops) && isIntersectOp(ops[i]) { groupOps = append(groupOps, ops[i]); i++; groupStmts = append(groupStmts, stmts[i]) }` -/
def inner (stmts : List Stmt) (ops : List Op) : Nat → Nat → List Stmt → List Op → Outcome (Nat × List Stmt × List Op)
  | 0, _, _, _ => .nofuel
  | fuel + 1, i, gs, go =>
    if i < ops.length then
      match idx ops i with                      -- ops[i] in the condition
      | .ok op =>
        if isIntersectOp op then
          match idx stmts (i + 1) with          -- i++ ; stmts[i]
          | .ok s => inner stmts ops fuel (i + 1) (gs ++ [s]) (go ++ [op])
          | .panic => .panic
          | .nofuel => .nofuel
        else .ok (i, gs, go)
      | .panic => .panic
      | .nofuel => .nofuel
    else .ok (i, gs, go)

/-- parser.go:1019-1029: a single statement is its own group, otherwise a `SelectIntersectExceptQuery` -/
def mkGroup (gs : List Stmt) (go : List Op) : Outcome Stmt :=
  if gs.length = 1 then idx gs 0 else .ok (.setop gs go)

/-- what happens after a group was appended (parser.go:1033-1042): `some i'` = continue the outer loop at `i'`,
`none` = `break` -/
def afterGroup (stmts : List Stmt) (ops : List Op) (i : Nat) (eo : List Op) : Outcome (Option Nat × List Op) :=
  if i < ops.length then
    match idx ops i with
    | .ok op =>
      if !isIntersectOp op then .ok (some (i + 1), eo ++ [op])       -- parser.go:1033-1035
      else if (i : Int) < (stmts.length : Int) - 1 then .ok (some (i + 1), eo)  -- parser.go:1036-1038
      else .ok (none, eo)
    | .panic => .panic
    | .nofuel => .nofuel
  else if (i : Int) < (stmts.length : Int) - 1 then .ok (some (i + 1), eo)
  else .ok (none, eo)

/-- outer loop parser.go:1005-1043 `i := 0; for i < len(stmts) { … }` -/
def outer (stmts : List Stmt) (ops : List Op) : Nat → Nat → List Stmt → List Op → Outcome (List Stmt × List Op)
  | 0, _, _, _ => .nofuel
  | fuel + 1, i, groups, eo =>
    if i < stmts.length then
      match idx stmts i with                                          -- parser.go:1008 stmts[i]
      | .ok s =>
        match inner stmts ops (ops.length + 1) i [s] [] with
        | .ok (i', gs, go) =>
          match mkGroup gs go with
          | .ok g =>
            match afterGroup stmts ops i' eo with
            | .ok (some i'', eo') => outer stmts ops fuel i'' (groups ++ [g]) eo'
            | .ok (none, eo') => .ok (groups ++ [g], eo')
            | .panic => .panic
            | .nofuel => .nofuel
          | .panic => .panic
          | .nofuel => .nofuel
        | .panic => .panic
        | .nofuel => .nofuel
      | .panic => .panic
      | .nofuel => .nofuel
    else .ok (groups, eo)

/-- final loop parser.go:1053-1058 `for j := 0; j < len(exceptOps); j++ { result = &…{Selects: {result, groups[j+1]}, Operators: {exceptOps[j]}} }`
(a counted loop: structural recursion over the remaining operators, `j` explicit for the index expressions) -/
def foldExcept (groups : List Stmt) (eo : List Op) : Nat → Nat → Stmt → Outcome Stmt
  | 0, _, _ => .nofuel
  | fuel + 1, j, result =>
    if j < eo.length then
      match idx groups (j + 1) with
      | .ok g =>
        match idx eo j with
        | .ok op => foldExcept groups eo fuel (j + 1) (.setop [result, g] [op])
        | .panic => .panic
        | .nofuel => .nofuel
      | .panic => .panic
      | .nofuel => .nofuel
    else .ok result

/-- the body of `buildIntersectExceptTree` after the repair lines (parser.go:996-1059) -/
def buildCore (stmts : List Stmt) (ops : List Op) : Outcome Stmt :=
  if stmts.length = 1 then idx stmts 0                                -- parser.go:996-998
  else
    match outer stmts ops (stmts.length + 1) 0 [] [] with
    | .ok (groups, eo) =>
      if groups.length = 1 then idx groups 0                          -- parser.go:1046-1048
      else
        match idx groups 0 with                                       -- parser.go:1052
        | .ok g0 => foldExcept groups eo (eo.length + 1) 0 g0
        | .panic => .panic
        | .nofuel => .nofuel
    | .panic => .panic
    | .nofuel => .nofuel

/-- `buildIntersectExceptTree` as it is now (parser.go:989-1060): first the repair
`if len(ops) > len(stmts)-1 { ops = ops[:len(stmts)-1] }` (parser.go:992-994), then the body -/
def build (stmts : List Stmt) (ops : List Op) : Outcome Stmt :=
  if (ops.length : Int) > (stmts.length : Int) - 1 then
    match sliceTo ops ((stmts.length : Int) - 1) with
    | .ok ops' => buildCore stmts ops'
    | .panic => .panic
    | .nofuel => .nofuel
  else buildCore stmts ops

/-- `buildIntersectExceptTree` before commit 72cec636a: the same body without the truncation -/
def buildOld (stmts : List Stmt) (ops : List Op) : Outcome Stmt := buildCore stmts ops

end DC.Model.SetOps
