import DC.Prelude.Hex
import DC.Gen.Escapes

/-!
# Model of quoted string literals: `lexer.readString` and `explain.escapeStringLiteral`

Byte-level model of what the real code does with the text after an opening `'`:

* `readString` (lexer.go:479-555) works rune-wise through `bufio.Reader.ReadRune`; the model works on the remaining
  input bytes `s` *starting at the current rune*: `l.ch = (decodeRune s).1`, `l.eof ↔ s = []`, `l.readChar()` drops the rune.
  Ill-formed UTF-8 therefore enters the value as U+FFFD (EF BF BD) via `WriteRune`, `\xHH` writes one raw byte via
  `WriteByte`, and `\x` + one rune at end of input writes `rune(hexValue(h))` via `WriteRune`.
* `peekChar() == quote` peeks ONE byte (lexer.go:89-93), i.e. tests whether the next byte is 0x27.
* `escapeStringLiteral` (format.go:49-75) and the `\'…\'` wrapper of `FormatLiteral` (format.go:126-130).

`unicode/utf8` (DecodeRune / AppendRune) is standard library; it is modelled arithmetically on the byte ranges of the
`first`/`acceptRanges` tables of that package.
-/
namespace DC.Model.StrLit
open DC

/-- `utf8.RuneError`. -/
def runeError : Nat := 0xFFFD

/-- continuation byte 0x80..0xBF. -/
def isCont (b : UInt8) : Bool := 0x80 ≤ b.toNat && b.toNat ≤ 0xBF

/-- lower bound of the second byte after lead byte `x` (`acceptRanges`): E0 → A0, F0 → 90, else 80. -/
def lo2 (x : Nat) : Nat := if x = 0xE0 then 0xA0 else if x = 0xF0 then 0x90 else 0x80
/-- upper bound of the second byte after lead byte `x`: ED → 9F, F4 → 8F, else BF. -/
def hi2 (x : Nat) : Nat := if x = 0xED then 0x9F else if x = 0xF4 then 0x8F else 0xBF

/-- `utf8.DecodeRune (b :: t)`: the rune and the input after it. Ill-formed or truncated sequences give
(RuneError, t), i.e. width 1. -/
def decodeRune1 (b : UInt8) (t : Bytes) : Nat × Bytes :=
  let x := b.toNat
  if x < 0x80 then (x, t)
  else if 0xC2 ≤ x ∧ x ≤ 0xDF then
    match t with
    | b1 :: t1 => if isCont b1 then ((x - 0xC0) * 64 + (b1.toNat - 0x80), t1) else (runeError, t)
    | [] => (runeError, t)
  else if 0xE0 ≤ x ∧ x ≤ 0xEF then
    match t with
    | b1 :: b2 :: t2 =>
      if lo2 x ≤ b1.toNat ∧ b1.toNat ≤ hi2 x ∧ isCont b2 then
        ((x - 0xE0) * 4096 + (b1.toNat - 0x80) * 64 + (b2.toNat - 0x80), t2)
      else (runeError, t)
    | _ => (runeError, t)
  else if 0xF0 ≤ x ∧ x ≤ 0xF4 then
    match t with
    | b1 :: b2 :: b3 :: t3 =>
      if lo2 x ≤ b1.toNat ∧ b1.toNat ≤ hi2 x ∧ isCont b2 ∧ isCont b3 then
        ((x - 0xF0) * 262144 + (b1.toNat - 0x80) * 4096 + (b2.toNat - 0x80) * 64 + (b3.toNat - 0x80), t3)
      else (runeError, t)
    | _ => (runeError, t)
  else (runeError, t)

/-- `utf8.AppendRune` / `strings.Builder.WriteRune`. -/
def encodeRune (r : Nat) : Bytes :=
  if r ≤ 0x7F then [UInt8.ofNat r]
  else if r ≤ 0x7FF then [UInt8.ofNat (0xC0 + r / 64), UInt8.ofNat (0x80 + r % 64)]
  else if r > 0x10FFFF ∨ (0xD800 ≤ r ∧ r ≤ 0xDFFF) then [0xEF, 0xBF, 0xBD]
  else if r ≤ 0xFFFF then
    [UInt8.ofNat (0xE0 + r / 4096), UInt8.ofNat (0x80 + r / 64 % 64), UInt8.ofNat (0x80 + r % 64)]
  else
    [UInt8.ofNat (0xF0 + r / 262144), UInt8.ofNat (0x80 + r / 4096 % 64), UInt8.ofNat (0x80 + r / 64 % 64),
     UInt8.ofNat (0x80 + r % 64)]

/-- `hexValue` (lexer.go:1201-1212): 0 for anything that is not a hex digit. -/
def hexValue (ch : Nat) : Nat :=
  if 48 ≤ ch ∧ ch ≤ 57 then ch - 48
  else if 97 ≤ ch ∧ ch ≤ 102 then ch - 97 + 10
  else if 65 ≤ ch ∧ ch ≤ 70 then ch - 65 + 10
  else 0

/-- the single-rune cases of readString's escape switch, from the regenerated table. -/
def escapeOf (c : Nat) : Option Nat := Gen.Escapes.readStringEscapes.lookup c

/-- one iteration of the `for !l.eof` loop of readString. -/
inductive Step where
  /-- the loop ended: value so far, remaining input -/
  | done (acc : Bytes) (rest : Bytes)
  /-- `continue`: value so far, remaining input (starting at the new current rune) -/
  | more (acc : Bytes) (rest : Bytes)

/-- body of the `case 'x'` arm (lexer.go:527-542); `u` is the input after the `x`. -/
def stepHex (u : Bytes) (acc : Bytes) : Step :=
  match u with
  | [] => .done acc []                       -- `break` out of the switch at EOF; the loop condition then fails
  | h :: u1 =>
    match decodeRune1 h u1 with
    | (hex1, u2) =>
      match u2 with
      | [] => .done (acc ++ encodeRune (hexValue hex1)) []   -- WriteRune(rune(hexValue(hex1))); continue; eof
      | g :: u3 =>
        match decodeRune1 g u3 with
        | (hex2, u4) => .more (acc ++ [UInt8.ofNat (hexValue hex1 * 16 + hexValue hex2)]) u4   -- WriteByte(byte(val)); readChar

/-- body of the `if l.ch == '\\'` arm (lexer.go:496-550); `t` is the input after the backslash. -/
def stepEscape (t : Bytes) (acc : Bytes) : Step :=
  match t with
  | [] => .done acc []                       -- backslash at end of input: break
  | c :: t1 =>
    match decodeRune1 c t1 with
    | (ch, t2) =>
      if ch = 120 then stepHex t2 acc
      else match escapeOf ch with
        | some w => .more (acc ++ encodeRune w) t2
        | none => .more (acc ++ 92 :: encodeRune ch) t2   -- unknown escape: backslash and rune are kept

/-- one loop iteration (lexer.go:484-553) on the input `s` starting at the current rune. -/
def step (s : Bytes) (acc : Bytes) : Step :=
  match s with
  | [] => .done acc []
  | b :: t =>
    match decodeRune1 b t with
    | (ch, t1) =>
      if ch = 39 then
        match t1 with
        | 39 :: t2 => .more (acc ++ [39]) t2   -- '' is one quote
        | _ => .done acc t1                     -- closing quote
      else if ch = 92 then stepEscape t1 acc
      else .more (acc ++ encodeRune ch) t1

theorem decodeRune1_length (b : UInt8) (t : Bytes) : (decodeRune1 b t).2.length ≤ t.length := by
  unfold decodeRune1
  simp only
  split
  · simp
  · split
    · split <;> (try split) <;> simp <;> omega
    · split
      · split <;> (try split) <;> simp <;> omega
      · split
        · split <;> (try split) <;> simp <;> omega
        · simp

theorem stepHex_lt (u acc a r) (h : stepHex u acc = .more a r) : r.length < u.length + 1 := by
  unfold stepHex at h
  split at h
  · cases h
  · rename_i hh u1
    split at h
    rename_i hex1 u2 h1
    split at h
    · cases h
    · rename_i g u3
      split at h
      rename_i hex2 u4 h2
      cases h
      have e1 := decodeRune1_length hh u1
      have e2 := decodeRune1_length g u3
      rw [h1] at e1; rw [h2] at e2
      simp at e1 e2 ⊢
      omega

theorem stepEscape_lt (t acc a r) (h : stepEscape t acc = .more a r) : r.length < t.length + 1 := by
  unfold stepEscape at h
  split at h
  · cases h
  · rename_i c t1
    split at h
    rename_i ch t2 h1
    have e1 := decodeRune1_length c t1
    rw [h1] at e1
    simp at e1
    split at h
    · have := stepHex_lt _ _ _ _ h
      simp; omega
    · split at h <;> cases h <;> simp <;> omega

theorem step_lt (s acc a r) (h : step s acc = .more a r) : r.length < s.length := by
  unfold step at h
  split at h
  · cases h
  · rename_i b t
    split at h
    rename_i ch t1 h1
    have e1 := decodeRune1_length b t
    rw [h1] at e1
    simp at e1
    split at h
    · split at h
      · cases h; simp at e1 ⊢; omega
      · cases h
    · split at h
      · have := stepEscape_lt _ _ _ _ h
        simp; omega
      · cases h; simp; omega

/-- the `for !l.eof` loop of readString: (token value, input after the token). -/
def loop (s : Bytes) (acc : Bytes) : Bytes × Bytes :=
  match _h : step s acc with
  | .done a r => (a, r)
  | .more a r => loop r a
termination_by s.length
decreasing_by exact step_lt _ _ _ _ _h

/-- `readString('\'')` on the input after the opening quote: (STRING token value, remaining input). -/
def readString (afterQuote : Bytes) : Bytes × Bytes := loop afterQuote []

/-- the value denoted by the text `inner` written between two quotes at the end of the input. -/
def decodeString (inner : Bytes) : Bytes := (readString (inner ++ [39])).1

/-- lookup in `Gen.Escapes.explainEscapes`. -/
def explainEscapeOf (b : UInt8) : Option Bytes :=
  (Gen.Escapes.explainEscapes.lookup b.toNat).map (fun l => l.map UInt8.ofNat)

/-- one iteration of escapeStringLiteral's loop: the `switch b`. -/
def escapeByte (b : UInt8) : Bytes :=
  match explainEscapeOf b with
  | some w => w
  | none => [b]

/-- `escapeStringLiteral` (format.go:49-75): byte-wise. -/
def escapeStringLiteral (s : Bytes) : Bytes := s.flatMap escapeByte

/-- `FormatLiteral`, `case ast.LiteralString` (format.go:126-130): what follows `Literal ` on the line. -/
def formatStringLiteral (v : Bytes) : Bytes :=
  Gen.Escapes.explainStringOpen.map UInt8.ofNat ++ escapeStringLiteral v ++ Gen.Escapes.explainStringClose.map UInt8.ofNat

end DC.Model.StrLit
