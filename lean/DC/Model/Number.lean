import DC.Prelude.Hex
import DC.Model.FloatFmt
import DC.Model.StrLit

/-!
# Model of numeric literals: NUMBER token text → `parseNumber` → unary minus → EXPLAIN text

Input: the `Value` of a NUMBER token as the lexer produces it (readNumber / readNumberOrIdent, lexer.go:921-1195). In decimal
numbers the lexer has already dropped every `_` that is followed by a digit; leading zeros are kept; `0x…`, `0b…`, `0o…` texts
keep their prefix and their underscores.

Mirrored, in source order: `parseNumber` (parser/expression.go:988-1085) with `parseHexToFloat` (expression.go:15-28);
`parseUnaryMinus`'s standard branch (expression.go:1193-1199: a `UnaryExpr{"-", operand}`); `explainLiteral`'s decision between
`Literal …` and `Function array/tuple` (internal/explain/expressions.go:96-247, for elements that are plain or negated scalar
literals); `explainUnaryExpr` (expressions.go:526-588); `FormatLiteral`, `formatArrayLiteral`, `formatNumericExpr`,
`formatTupleLiteral` (format.go:108-272).

Standard library, modelled by its documented behaviour: `strconv.ParseUint/ParseInt` (digit strings against 2^64 / 2^63, base
prefixes and the underscore rule of base 0), `math/big.Int.SetString(_, 16)`, `fmt`'s `%d`.
Trusted and NOT modelled: decimal→float64 conversion and shortest-digit generation. Wherever the Go code obtains a float64
from the literal (`strconv.ParseFloat(value)`, `big.Float(...).Float64()`, `float64(uint64)`), the model reads `conv`: the
shortest decimal of the float64 nearest to the literal's value, `none` when strconv reports an error (syntax or range).
-/
namespace DC.Model.Number
open DC DC.Model.FloatFmt

/-- `ast.Literal` produced by parseNumber / parseString. -/
inductive Lit where
  /-- `LiteralInteger`, `Value int64` -/
  | int64 (v : Int)
  /-- `LiteralInteger`, `Value uint64` -/
  | uint64 (v : Nat)
  /-- `LiteralFloat` (finite), identified by its shortest decimal -/
  | float (d : ShortDec)
  /-- `LiteralString` with its `IsBigInt` flag -/
  | str (s : Bytes) (isBigInt : Bool)
deriving Repr, DecidableEq

/-! ## strconv -/

/-- strconv's `lower(c) = c | ('x' - 'X')`. -/
def lower (c : UInt8) : UInt8 := c ||| 0x20

/-- value of one character in `ParseUint`'s loop (`'0'..'9'`, letters case-insensitively as 10…35). -/
def digitVal (c : UInt8) : Option Nat :=
  if 48 ≤ c.toNat ∧ c.toNat ≤ 57 then some (c.toNat - 48)
  else if 97 ≤ (lower c).toNat ∧ (lower c).toNat ≤ 122 then some ((lower c).toNat - 97 + 10)
  else none

/-- `ParseUint`'s digit loop without the range check: `none` = syntax error (a character that is not a digit below `base`;
`_` is skipped when `base0`). -/
def accum (base : Nat) (base0 : Bool) : Bytes → Nat → Option Nat
  | [], n => some n
  | c :: cs, n =>
    if c = 95 ∧ base0 then accum base base0 cs n
    else match digitVal c with
      | some d => if d < base then accum base base0 cs (n * base + d) else none
      | none => none

/-- state machine of strconv's `underscoreOK` after the optional sign and base prefix: `prev` is `'0'` after a digit or the
prefix, `'_'` after an underscore, `'^'` at the beginning, `'!'` after anything else. -/
def underscoreGo (hex : Bool) : Char → Bytes → Bool
  | prev, [] => prev != '_'
  | prev, c :: r =>
    if (48 ≤ c.toNat ∧ c.toNat ≤ 57) ∨ (hex ∧ 97 ≤ (lower c).toNat ∧ (lower c).toNat ≤ 102) then underscoreGo hex '0' r
    else if c = 95 then (if prev != '0' then false else underscoreGo hex '_' r)
    else if prev = '_' then false
    else underscoreGo hex '!' r

/-- strconv's `underscoreOK`: underscores must separate digits (one may directly follow the base prefix). -/
def underscoreOK (s : Bytes) : Bool :=
  let s := match s with
    | 43 :: r => r
    | 45 :: r => r
    | _ => s
  match s with
  | 48 :: c :: r =>
    if lower c = 98 ∨ lower c = 111 ∨ lower c = 120 then underscoreGo (lower c = 120) '0' r
    else underscoreGo false '^' s
  | _ => underscoreGo false '^' s

/-- `strconv.ParseUint(s, base, 64)` with `base = 10` (`base0 = false`) or `base = 0` (`base0 = true`): `some n` iff `err == nil`.
(Which error is returned — ErrSyntax or ErrRange — is not observable in parseNumber.) -/
def parseUint (s : Bytes) (base0 : Bool) : Option Nat :=
  match s with
  | [] => none
  | c0 :: _ =>
    let bb : Nat × Bytes :=
      if base0 then
        if c0 = 48 then
          match s with
          | _ :: c1 :: c2 :: r =>
            if lower c1 = 98 then (2, c2 :: r)
            else if lower c1 = 111 then (8, c2 :: r)
            else if lower c1 = 120 then (16, c2 :: r)
            else (8, s.drop 1)
          | _ => (8, s.drop 1)
        else (10, s)
      else (10, s)
    match accum bb.1 base0 bb.2 0 with
    | none => none
    | some n =>
      if base0 ∧ s.contains 95 ∧ !underscoreOK s then none
      else if n < 2 ^ 64 then some n else none

/-- `strconv.ParseInt(s, base, 64)` for a text without sign (NUMBER tokens never start with `+` or `-`): `some i` iff `err == nil`. -/
def parseInt (s : Bytes) (base0 : Bool) : Option Int :=
  match parseUint s base0 with
  | some n => if n < 2 ^ 63 then some (n : Int) else none
  | none => none

/-- `parseHexToFloat`'s syntactic part (expression.go:15-24): `big.Int.SetString(s[2:], 16)` succeeds iff the text after the
two prefix bytes is a non-empty string of hex digits (no underscores: base 16 is explicit). -/
def hexIntOK (value : Bytes) : Bool :=
  let h := value.drop 2
  !h.isEmpty && h.all (fun c => (48 ≤ c.toNat ∧ c.toNat ≤ 57) ∨ (97 ≤ (lower c).toNat ∧ (lower c).toNat ≤ 102))

/-! ## parseNumber (parser/expression.go:988-1085) -/

def hasPrefix (p s : Bytes) : Bool := p.isPrefixOf s

def parseNumber (value : Bytes) (conv : Option ShortDec) : Lit :=
  let isHex := hasPrefix [48, 120] value || hasPrefix [48, 88] value
  let isBin := hasPrefix [48, 98] value || hasPrefix [48, 66] value
  let isOctal := hasPrefix [48, 111] value || hasPrefix [48, 79] value
  let isHexFloat := isHex && (value.contains 112 || value.contains 80 || value.contains 46)
  let isDecimalFloat := !isHex && !isBin && !isOctal && (value.contains 46 || value.contains 101 || value.contains 69)
  if isDecimalFloat || isHexFloat then
    -- strconv.ParseFloat(value, 64)
    match conv with
    | none => .str value false
    | some d => .float d
  else
    let base0 := isHex || isBin || isOctal
    match parseInt value base0 with
    | some i => .int64 i
    | none =>
      match parseUint value base0 with
      | some u => .uint64 u
      | none =>
        let f : Option ShortDec :=
          if isHex then (if hexIntOK value then conv else none)   -- parseHexToFloat
          else if base0 then none       -- strconv.ParseFloat rejects `0b…` / `0o…` text
          else conv                     -- strconv.ParseFloat(value, 64)
        match f with
        | none => .str value true
        | some d => .float d

/-! ## EXPLAIN -/

def sb (s : String) : Bytes := strBytes s

/-- `FormatLiteral` (format.go:108-145), scalar cases. -/
def formatLiteral : Lit → Bytes
  | .int64 v => if v ≥ 0 then sb ("UInt64_" ++ toString v.toNat) else sb ("Int64_" ++ toString v)
  | .uint64 v => sb ("UInt64_" ++ toString v)
  | .float d => sb "Float64_" ++ asciiBytes (formatFloat d)
  | .str s _ => StrLit.formatStringLiteral s

/-- what the first select item looks like in EXPLAIN. -/
inductive Out where
  /-- a line `Literal <payload>` -/
  | lit (payload : Bytes)
  /-- `Function <name> (children 1)` / `ExpressionList` / … ; `inner` = payload of the first `Literal` line below, if modelled -/
  | fn (name : String) (inner : Option Bytes)
  /-- the trusted conversion was needed but not supplied -/
  | needConv
deriving Repr, DecidableEq

/-- the integer cases shared by explainUnaryExpr / formatArrayLiteral / formatNumericExpr for `Value int64`:
`negVal := -val` and the three-way test. -/
def negInt64Text (val : Int) : Bytes :=
  let negVal := -val
  if negVal = 0 then sb "UInt64_0"
  else if negVal > 0 then sb ("UInt64_" ++ toString negVal.toNat)
  else sb ("Int64_" ++ toString negVal)

/-- `explainUnaryExpr` (expressions.go:526-588) for `Op == "-"` and an unparenthesised literal operand. -/
def explainNeg (l : Lit) (conv : Option ShortDec) : Out :=
  match l with
  | .int64 val => .lit (negInt64Text val)
  | .uint64 val =>
    if val = 0 then .lit (sb "UInt64_0")
    else if val ≤ 9223372036854775808 then .lit (sb ("Int64_-" ++ toString val))
    else
      -- f := -float64(val); FormatFloat(f)
      match conv with
      | some d => .lit (sb "Float64_" ++ asciiBytes (formatFloat d.negate))
      | none => .needConv
  | .float d => .lit (sb "Float64_" ++ asciiBytes (formatFloat d.negate))
  | .str _ _ =>
    -- IsBigInt: strconv.ParseFloat(strVal) is tried again and fails again (the text is the one parseNumber could not
    -- convert: a decimal string ParseFloat rejected, or 0x/0b/0o integer text, which ParseFloat rejects without a `p` exponent).
    -- Otherwise: falls through. Either way: Function negate, then Node(operand).
    .fn "negate" (some (formatLiteral l))

/-- `SELECT <token>` / `SELECT -<token>`: the first select item. -/
def explainNum (value : Bytes) (neg : Bool) (conv : Option ShortDec) : Out :=
  let l := parseNumber value conv
  if neg then explainNeg l conv else .lit (formatLiteral l)

/-- an element of an array or tuple literal: a literal or `UnaryExpr{"-", literal}`; `conv` is the trusted conversion of the
element's token (read where the Go code computes `float64(val)`). -/
structure Elem where
  l : Lit
  neg : Bool
  conv : Option ShortDec
deriving Repr, DecidableEq

/-- `isSimpleLiteralOrNegation` (expressions.go:251-264) / the tuple loop of explainLiteral (expressions.go:111-144) on such an element. -/
def Elem.simple (e : Elem) : Bool :=
  if e.neg then (match e.l with | .int64 _ => true | .uint64 _ => true | .float _ => true | .str _ _ => false) else true

/-- the `case uint64` arm shared (since the repair) by formatArrayLiteral (format.go:192-202) and formatNumericExpr
(format.go:246-256): `-0` is `UInt64_0`, beyond 2^63 the value is `-float64(val)`, otherwise `Int64_-%d`.
`none` = the trusted conversion was needed but not supplied. -/
def negUint64Text (val : Nat) (conv : Option ShortDec) : Option Bytes :=
  if val = 0 then some (sb "UInt64_0")
  else if val > 9223372036854775808 then
    match conv with
    | some d => some (sb "Float64_" ++ asciiBytes (formatFloat d.negate))
    | none => none
  else some (sb ("Int64_-" ++ toString val))

/-- one element in `formatArrayLiteral` (format.go:168-221). -/
def arrayElemText (e : Elem) : Option Bytes :=
  if !e.neg then some (formatLiteral e.l)
  else match e.l with
    | .int64 val => some (negInt64Text val)
    | .uint64 val => negUint64Text val e.conv
    | .float d => some (sb "Float64_" ++ asciiBytes (formatFloat d.negate))
    | .str s _ => some (45 :: s)   -- formatExprAsString(e) = Op + string value (not reached when the array prints as a Literal)

/-- one element in `formatTupleLiteral` via `formatNumericExpr` (format.go:224-278). -/
def tupleElemText (e : Elem) : Option Bytes :=
  if !e.neg then some (formatLiteral e.l)
  else match e.l with
    | .int64 val => some (negInt64Text val)
    | .uint64 val => negUint64Text val e.conv
    | .float d => some (sb "Float64_" ++ asciiBytes (formatFloat d.negate))
    | .str s _ => some (45 :: s)

def joinComma : List Bytes → Bytes
  | [] => []
  | [x] => x
  | x :: xs => x ++ [44, 32] ++ joinComma xs

/-- all element texts, or `none` if one of them needed a conversion that was not supplied. -/
def collect : List (Option Bytes) → Option (List Bytes)
  | [] => some []
  | none :: _ => none
  | some x :: r => (collect r).map (x :: ·)

/-- `SELECT [e₁, …]`: explainLiteral on a `LiteralArray` whose elements are scalar literals or negated scalar literals. -/
def explainArray (es : List Elem) : Out :=
  if es.isEmpty then .fn "array" none
  else if es.all Elem.simple then
    match collect (es.map arrayElemText) with
    | some parts => .lit (sb "Array_[" ++ joinComma parts ++ sb "]")
    | none => .needConv
  else .fn "array" none

/-- `SELECT (e₁, …, e_k)`, k ≥ 2 written elements (one element without trailing comma is a parenthesised expression, not a tuple). -/
def explainTuple (es : List Elem) : Out :=
  if es.length ≤ 1 then .fn "tuple" none
  else if es.all Elem.simple then
    match collect (es.map tupleElemText) with
    | some parts => .lit (sb "Tuple_(" ++ joinComma parts ++ sb ")")
    | none => .needConv
  else .fn "tuple" none

/-! ## replay of the repaired defect `literal@nested`

Before the commit "fix: print a negated integer below -2^63 inside an array or tuple literal as Float64" the two `case uint64`
arms read as below: the array printed `Int64_-%d` for every uint64, the tuple printed `Int64_%d` of `-int64(val)`, which wraps.
These two definitions model the PRE-REPAIR code only; nothing but the two counterexamples in `DC/Props/C09.lean` uses them. -/

/-- wrap to int64 (two's complement). -/
def wrapInt64 (x : Int) : Int :=
  let r := x % (2 ^ 64 : Int)
  if r ≥ (2 ^ 63 : Int) then r - (2 ^ 64 : Int) else r

/-- pre-repair formatArrayLiteral, `case uint64`. -/
def preRepairArrayNegUint64 (val : Nat) : Bytes :=
  if val = 0 then sb "UInt64_0" else sb ("Int64_-" ++ toString val)

/-- pre-repair formatNumericExpr, `case uint64`: `fmt.Sprintf("Int64_%d", -int64(val))`. -/
def preRepairTupleNegUint64 (val : Nat) : Bytes :=
  if val = 0 then sb "UInt64_0" else sb ("Int64_" ++ toString (wrapInt64 (-(wrapInt64 (val : Int)))))

end DC.Model.Number
