import DC.Gen.Tokens

/-!
# C02 — progress skeletons of the parser's loops and functions (core only)

The translator (`/verif/extract/loops.go`) turns every function of package `parser` into a *skeleton*:
a command of the small language `Cmd` below that keeps only what matters for progress — where the
token cursor may advance (`p.nextToken()`), which token kinds a branch can be taken with, which
callee is entered, and how control leaves (`break`/`continue`/`return`, `goto` as a forward jump).

The concrete state of the semantics is one natural number: the index `i` of `p.current` in the stream
of significant tokens `ks` (kinds, `DC.Gen.Tokens` numbering).  Index `ks.length` is the final `EOF`,
which is sticky: `nextToken` there does not advance (parser.go:59, the lexer keeps answering `EOF`).
That is why a loop must be able to *leave* at `EOF`.

`ana` is an abstract interpreter whose state is a pair `(N, A)` of kind sets (bit masks):
`N` = kinds `p.current` may have if the cursor is still where it was at the reference point `i0`
(the loop head, or the function entry), `A` = kinds it may have once it has moved past `i0`.
A loop body is certified (`loopOK`) when no path reaches the back edge (normal end or `continue`) in
an `N` state.  Function contracts (`Prog.adv`, `Prog.tset`, `Prog.fset`) are *checked* by the same
interpreter (`funOK`), assuming the contracts of the callees; `DC/Proofs/SkelSound.lean` shows by
induction on the big-step derivation that this circular use is sound.
-/

namespace DC.Model.Skel

/-- a set of token kinds as a bit mask over the `DC.Gen.Tokens` numbering -/
abbrev TokSet := Nat

/-- number of token kinds (regenerated) -/
def K : Nat := DC.Gen.Tokens.count
/-- the kind `token.EOF` (regenerated) -/
def eofK : Nat := DC.Gen.Tokens.tEOF
/-- all kinds -/
def ALL : TokSet := 2 ^ K - 1

def bit (k : Nat) : TokSet := 2 ^ k
/-- the set with exactly the listed kinds -/
def mk : List Nat → TokSet
  | [] => 0
  | k :: r => bit k ||| mk r
/-- complement (within `ALL`) -/
def compl (S : TokSet) : TokSet := ALL ^^^ (S &&& ALL)
/-- all kinds except the listed ones -/
def co (l : List Nat) : TokSet := compl (mk l)

/-- value of a `return`: unknown / `true` / `false` (only Boolean helper predicates use the last two) -/
inductive RV | unk | tt | ff
deriving DecidableEq, Repr

/-- how a command ends -/
inductive Out
  | norm              -- falls through
  | cont              -- `continue` of the innermost `loop`
  | ret (v : RV)      -- `return`
  | jump (l : Nat)    -- on its way to the end of the enclosing `block l` (`break`, forward `goto`)
deriving DecidableEq, Repr

/-- skeleton commands -/
inductive Cmd
  | skip
  | next                              -- `p.nextToken()`
  | assume (S : TokSet)               -- a branch that is only taken when `cur ∈ S`
  | call (adv : TokSet)               -- code not looked into: never moves back; advances if entered with `cur ∈ adv`
  | callF (f : Nat) (v : RV)          -- call of function `f`; `v ≠ unk`: … that answers `v` (use as a condition)
  | seq (a b : Cmd)
  | alt (a b : Cmd)                   -- nondeterministic choice (if/else, switch arms)
  | cont
  | ret (v : RV)
  | jump (l : Nat)
  | block (l : Nat) (c : Cmd)         -- `jump l` inside `c` ends here
  | loop (c : Cmd)                    -- `for { c }`: left only by `jump`/`ret`
  | guard (c a b : Cmd)               -- `start := p.current.Pos; c; if p.current.Pos == start { a } else { b }`
deriving Repr, Inhabited, DecidableEq

def seqs : List Cmd → Cmd
  | [] => .skip
  | [c] => c
  | c :: r => .seq c (seqs r)

def alts : List Cmd → Cmd
  | [] => .assume 0
  | [c] => c
  | c :: r => .alt c (alts r)

/-- the skeletons of all functions with their proposed contracts -/
structure Prog where
  /-- function bodies -/
  funs : Array Cmd
  /-- `adv f`: kinds at entry for which every terminating call of `f` has advanced the cursor -/
  adv : Array TokSet
  /-- `tset f`: kinds `p.current` can have when `f` has answered anything but `false` -/
  tset : Array TokSet
  /-- `fset f`: kinds `p.current` can have when `f` has answered anything but `true` -/
  fset : Array TokSet

def Prog.body (P : Prog) (f : Nat) : Cmd := P.funs.getD f .skip
def Prog.advOf (P : Prog) (f : Nat) : TokSet := P.adv.getD f 0
def Prog.tsetOf (P : Prog) (f : Nat) : TokSet := P.tset.getD f ALL
def Prog.fsetOf (P : Prog) (f : Nat) : TokSet := P.fset.getD f ALL
def Prog.rset (P : Prog) (f : Nat) : RV → TokSet
  | .unk => ALL
  | .tt => P.tsetOf f
  | .ff => P.fsetOf f

/-- kind of the token at index `i`; beyond the list it is `EOF` -/
def cur (ks : List Nat) (i : Nat) : Nat := ks.getD i eofK

/-- an answer `o` of a callee is compatible with the use `callF f v` -/
def compat : RV → Out → Prop
  | .unk, _ => True
  | .tt, o => o ≠ .ret .ff
  | .ff, o => o ≠ .ret .tt

/-- Big-step semantics over the token index.  `Exec P ks c i o j`: started at index `i`, `c` can end at index `j`
    in the way `o`.  Non-terminating runs have no derivation; this is a partial-correctness semantics. -/
inductive Exec (P : Prog) (ks : List Nat) : Cmd → Nat → Out → Nat → Prop
  | skip {i} : Exec P ks .skip i .norm i
  | next {i} : Exec P ks .next i .norm (if i < ks.length then i + 1 else i)
  | assume {S i} : S.testBit (cur ks i) = true → Exec P ks (.assume S) i .norm i
  | call {adv i j} : i ≤ j → j ≤ ks.length → (adv.testBit (cur ks i) = true → i < j) →
      Exec P ks (.call adv) i .norm j
  | callF {f v i o j} : Exec P ks (P.body f) i o j → compat v o → Exec P ks (.callF f v) i .norm j
  | seqN {a b i j k o} : Exec P ks a i .norm j → Exec P ks b j o k → Exec P ks (.seq a b) i o k
  | seqX {a b i j o} : o ≠ .norm → Exec P ks a i o j → Exec P ks (.seq a b) i o j
  | altL {a b i o j} : Exec P ks a i o j → Exec P ks (.alt a b) i o j
  | altR {a b i o j} : Exec P ks b i o j → Exec P ks (.alt a b) i o j
  | cont {i} : Exec P ks .cont i .cont i
  | ret {v i} : Exec P ks (.ret v) i (.ret v) i
  | jump {l i} : Exec P ks (.jump l) i (.jump l) i
  | blockJ {l c i j} : Exec P ks c i (.jump l) j → Exec P ks (.block l c) i .norm j
  | blockX {l c i o j} : o ≠ .jump l → Exec P ks c i o j → Exec P ks (.block l c) i o j
  | loopIter {c i o j o' k} : Exec P ks c i o j → (o = .norm ∨ o = .cont) → Exec P ks (.loop c) j o' k →
      Exec P ks (.loop c) i o' k
  | loopExit {c i o j} : Exec P ks c i o j → o ≠ .norm → o ≠ .cont → Exec P ks (.loop c) i o j
  | guardStuck {c a b i o k} : Exec P ks c i .norm i → Exec P ks a i o k → Exec P ks (.guard c a b) i o k
  | guardMoved {c a b i j o k} : Exec P ks c i .norm j → j ≠ i → Exec P ks b j o k → Exec P ks (.guard c a b) i o k
  | guardX {c a b i o j} : o ≠ .norm → Exec P ks c i o j → Exec P ks (.guard c a b) i o j

/-! ## abstract interpretation -/

/-- abstract state `(N, A)`: kinds possible while the cursor has not left the reference point / after it has -/
abbrev St := TokSet × TokSet

def St.bot : St := (0, 0)
def St.join (x y : St) : St := (x.1 ||| y.1, x.2 ||| y.2)
def St.meet (x : St) (T : TokSet) : St := (x.1 &&& T, x.2 &&& T)
/-- `ALL` if the state is inhabited at all -/
def St.anyA (x : St) : TokSet := if (x.1 ||| x.2) = 0 then 0 else ALL
/-- the state at the head of any later iteration of a loop entered in `x` -/
def St.widen (x : St) : St := (x.1, x.anyA)

/-- result of the analysis: one abstract state per way of ending -/
structure R where
  norm : St := St.bot
  cont : St := St.bot
  retU : St := St.bot
  retT : St := St.bot
  retF : St := St.bot
  jumps : List (Nat × St) := []
deriving Repr

def jget (l : Nat) : List (Nat × St) → St
  | [] => St.bot
  | (k, s) :: r => if k = l then s.join (jget l r) else jget l r

def jdrop (l : Nat) : List (Nat × St) → List (Nat × St)
  | [] => []
  | (k, s) :: r => if k = l then jdrop l r else (k, s) :: jdrop l r

/-- join of everything but the normal end -/
def R.joinX (x y : R) (norm : St) : R :=
  { norm := norm, cont := x.cont.join y.cont, retU := x.retU.join y.retU, retT := x.retT.join y.retT,
    retF := x.retF.join y.retF, jumps := x.jumps ++ y.jumps }

def R.join (x y : R) : R := R.joinX x y (x.norm.join y.norm)

def retR (v : RV) (st : St) : R :=
  match v with
  | .unk => { retU := st }
  | .tt => { retT := st }
  | .ff => { retF := st }

/-- transfer function of a call with contract `adv` whose answer restricts the current kind to `rs` -/
def callSt (adv rs : TokSet) (st : St) : St := St.meet (st.1 &&& compl adv, st.anyA) rs

def ana (P : Prog) : Cmd → St → R
  | .skip, st => { norm := st }
  | .next, st => { norm := (st.1 &&& bit eofK, st.anyA) }
  | .assume T, st => { norm := st.meet T }
  | .call adv, st => { norm := callSt adv ALL st }
  | .callF f v, st => { norm := callSt (P.advOf f) (P.rset f v) st }
  | .seq x y, st =>
    let rx := ana P x st
    let ry := ana P y rx.norm
    R.joinX rx ry ry.norm
  | .alt x y, st => (ana P x st).join (ana P y st)
  | .cont, st => { cont := st }
  | .ret v, st => retR v st
  | .jump l, st => { jumps := [(l, st)] }
  | .block l c, st =>
    let r := ana P c st
    { r with norm := r.norm.join (jget l r.jumps), jumps := jdrop l r.jumps }
  | .loop c, st =>
    let r := ana P c st.widen
    { r with norm := St.bot, cont := St.bot }
  | .guard c a b, st =>
    let r := ana P c st
    let ra := ana P a r.norm
    let rb := ana P b (0, r.norm.2)
    R.joinX r (ra.join rb) (ra.norm.join rb.norm)

/-- all abstract states of a result that can describe an end other than `ret v` -/
def R.chans (r : R) (skipT skipF : Bool) : List St :=
  [r.norm, r.cont, r.retU] ++ (if skipT then [] else [r.retT]) ++ (if skipF then [] else [r.retF]) ++ r.jumps.map (·.2)

/-- certificate of `for { c }` (`c` contains the test of the loop condition): started anywhere, no path reaches
    the back edge (`norm` or `cont`) with the cursor still at the loop head -/
def loopOK (P : Prog) (c : Cmd) : Bool :=
  let r := ana P c (ALL, 0)
  r.norm.1 == 0 && r.cont.1 == 0

/-- the same for a loop whose condition guarantees `cur ∈ S` on entry of the body -/
def loopOKFrom (P : Prog) (S : TokSet) (body : Cmd) : Bool :=
  let r := ana P body (S &&& ALL, 0)
  r.norm.1 == 0 && r.cont.1 == 0

/-- contract check of function `f` under the contracts of its callees:
    entered with `cur ∈ adv f` it cannot end without having advanced, and entered anywhere it ends with
    `cur ∈ tset f` unless it answers `false`, with `cur ∈ fset f` unless it answers `true` -/
def funOK (P : Prog) (f : Nat) : Bool :=
  let r1 := ana P (P.body f) (P.advOf f &&& ALL, 0)
  let r2 := ana P (P.body f) (ALL, 0)
  (r1.chans false false).all (fun s => s.1 == 0) &&
  (r2.chans false true).all (fun s => (s.1 ||| s.2) &&& compl (P.tsetOf f) == 0) &&
  (r2.chans true false).all (fun s => (s.1 ||| s.2) &&& compl (P.fsetOf f) == 0)

/-- all contracts of `P` check -/
def progOK (P : Prog) : Bool := (List.range P.funs.size).all (funOK P)

/-! ## non-advancing calls -/

/-- the calls written in `c` (not those inside callees) with, for each, the kinds the callee can be entered with while
    the cursor is still at the reference point (the `N` component of the abstract state at the call) -/
def sites (P : Prog) : Cmd → St → List (Nat × TokSet)
  | .callF f _, st => [(f, st.1)]
  | .seq x y, st => sites P x st ++ sites P y (ana P x st).norm
  | .alt x y, st => sites P x st ++ sites P y st
  | .block _ c, st => sites P c st
  | .loop c, st => sites P c st.widen
  | .guard c a b, st =>
    let r := ana P c st
    sites P c st ++ sites P a r.norm ++ sites P b (0, r.norm.2)
  | _, _ => []

/-- a rank table for one function: groups of kinds with their rank; first match wins -/
abbrev RankTbl := List (TokSet × Nat)

def rankOf : RankTbl → Nat → Nat
  | [], _ => 0
  | (S, r) :: t, k => if S.testBit k then r else rankOf t k

def covers (rk : RankTbl) : Bool := (rk.foldl (fun acc p => acc ||| p.1) 0) &&& ALL == ALL

/-- rank condition of one call site `p = (g, N)` in function `f`: for every kind of `N`, `rank g < rank f` -/
def siteOK (ranks : Array RankTbl) (f : Nat) (p : Nat × TokSet) : Bool :=
  p.2 == 0 ||
  (covers (ranks.getD p.1 []) && covers (ranks.getD f []) &&
    (ranks.getD p.1 []).all fun gg => (ranks.getD f []).all fun ff =>
      (p.2 &&& gg.1 &&& ff.1 == 0) || decide (gg.2 < ff.2))

/-- rank check of function `f`: whenever `f`, entered on a token of kind `k`, can call `g` with the cursor still on that
    token, `rank g k < rank f k` -/
def rankOK (P : Prog) (ranks : Array RankTbl) (f : Nat) : Bool :=
  (sites P (P.body f) (ALL, 0)).all (siteOK ranks f)

/-- every `loop` occurring in `c` has a certificate, or its body is one of the reviewed bodies `isA` -/
def loopsCert (P : Prog) (isA : Cmd → Bool) : Cmd → Bool
  | .seq a b => loopsCert P isA a && loopsCert P isA b
  | .alt a b => loopsCert P isA a && loopsCert P isA b
  | .block _ c => loopsCert P isA c
  | .loop c => (loopOK P c || isA c) && loopsCert P isA c
  | .guard c a b => loopsCert P isA c && loopsCert P isA a && loopsCert P isA b
  | _ => true

/-- how a `for` statement is dealt with -/
inductive Kind
  | range         -- `for … range x`, x a slice/array/string/map/integer: finite by construction
  | counted       -- `for i := a; i < b; i++` whose body assigns neither `i` nor `b`: finite by construction
  | token         -- skeleton over the token stream
  | counter       -- skeleton over a virtual stream indexed by a local counter (`for i < len(x) { … i++ … }`)
  | untranslated  -- no skeleton (never certified)
deriving DecidableEq, Repr

/-- one `for` statement of package parser -/
structure Loop where
  pos : String
  func : String
  /-- n-th `for` of the function, in source order -/
  ord : Nat
  kind : Kind
  /-- source text of the loop header -/
  cond : String
  /-- kinds with which the body can be entered (informative; the test is part of `body`) -/
  S : TokSet
  /-- the body including the test of the loop condition: the loop is `for { body }`.  For kind `counter` this is the
      skeleton over the virtual stream, otherwise the same as `fbody`. -/
  body : Cmd
  /-- the token skeleton of the body as it occurs (under `.loop`) in the skeleton of the enclosing function -/
  fbody : Cmd

/-- the certificate check of one loop -/
def certified (P : Prog) (L : Loop) : Bool :=
  match L.kind with
  | .range | .counted => true
  | .token | .counter => loopOK P L.body
  | .untranslated => false

/-- stable identification of a loop in the reviewed list: (function, ordinal, header text) -/
def Loop.key (L : Loop) : String × Nat × String := (L.func, L.ord, L.cond)

end DC.Model.Skel
