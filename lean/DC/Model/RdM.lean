import DC.Model.Bufio
import DC.Prelude.Utf8

/-!
# The lexer's reader interface as a free interaction (`RdM`)

`/repo/lexer/lexer.go` touches its input only through `l.reader.ReadRune()` (in `readChar`, lexer.go:47) and
`l.reader.Peek(n)` (in `peek`, lexer.go:74) — obligation `DC.Props.C14.reader_use_ok` over the regenerated
`DC.Gen.ReaderUse`. A *program over the reader* is therefore a tree whose inner nodes are these two calls, with one
subtree per possible answer, and whose leaves are results (`pure`) or aborts (`fail`: a Go run-time panic, or the fuel
of a model loop running out). `DC.Model.LexerRd` writes the whole lexer as such programs.

Three interpreters:
* `runBufio` — over the model `DC.Bufio.BR` of `bufio.Reader` on a scripted `io.Reader` (any chunking);
* `runPure`  — over `DC.Bufio.Pure`, the pure reader of the `bufio` refinement theorem;
* `runL`     — over the bytes not yet delivered, exactly the reader `DC.Model.Lexer` is written against
  (`ReadRune` = `utf8.DecodeRune rest`, `Peek n` = the first `min n 4096` bytes, error `io.EOF` when short).

`DC.Proofs.LexerRdRefine` proves that all three give the same result for every program (the first under `Sim`).
-/
namespace DC.Rd
open DC DC.Bufio

/-- programs over the two reader operations the lexer uses; `ε` = abort reasons. -/
inductive RdM (ε : Type) (α : Type) where
  | pure (a : α)
  | fail (e : ε)
  | readRune (k : RuneRes → RdM ε α)
  | peek (n : Nat) (k : Bytes × Option Err → RdM ε α)

namespace RdM
variable {ε α β : Type}

def bind : RdM ε α → (α → RdM ε β) → RdM ε β
  | .pure a, f => f a
  | .fail e, _ => .fail e
  | .readRune k, f => .readRune (fun r => bind (k r) f)
  | .peek n k, f => .peek n (fun r => bind (k r) f)

instance : Monad (RdM ε) where
  pure := RdM.pure
  bind := RdM.bind

/-- `l.reader.ReadRune()` -/
def rune : RdM ε RuneRes := .readRune .pure
/-- `l.reader.Peek(n)` -/
def peekOp (n : Nat) : RdM ε (Bytes × Option Err) := .peek n .pure

/-- the program run against `bufio.Reader` (model `DC.Bufio`) -/
def runBufio : RdM ε α → BR → Except ε α × BR
  | .pure a, b => (.ok a, b)
  | .fail e, b => (.error e, b)
  | .readRune k, b => runBufio (k (Bufio.readRune b).1) (Bufio.readRune b).2
  | .peek n k, b => runBufio (k (Bufio.peek n b).1) (Bufio.peek n b).2

/-- the program run against the pure reader of the `bufio` refinement theorem -/
def runPure : RdM ε α → Pure → Except ε α × Pure
  | .pure a, p => (.ok a, p)
  | .fail e, p => (.error e, p)
  | .readRune k, p => runPure (k p.readRune.1) p.readRune.2
  | .peek n k, p => runPure (k (p.peek n).1) (p.peek n).2

/-- `ReadRune` of the reader `DC.Model.Lexer` is written against: fails (with `io.EOF`) iff nothing is left. -/
def lrune (rest : Bytes) : RuneRes × Bytes :=
  if rest.isEmpty then ({ rune := 0, size := 0, err := some .eof }, rest)
  else ({ rune := (Utf8.decodeRune rest).1, size := (Utf8.decodeRune rest).2, err := none },
        rest.drop (Utf8.decodeRune rest).2)

/-- `Peek n` of that reader (a 4096-byte `bufio` buffer in front of a stream that ends with `io.EOF`). -/
def lpeek (n : Nat) (rest : Bytes) : Bytes × Option Err :=
  if n > 4096 then (rest.take 4096, some .bufferFull)
  else if rest.length < n then (rest, some .eof)
  else (rest.take n, none)

/-- the program run against the bytes not yet delivered -/
def runL : RdM ε α → Bytes → Except ε α × Bytes
  | .pure a, r => (.ok a, r)
  | .fail e, r => (.error e, r)
  | .readRune k, r => runL (k (lrune r).1) (lrune r).2
  | .peek n k, r => runL (k (lpeek n r)) r

end RdM
end DC.Rd
